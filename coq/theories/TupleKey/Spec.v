(* TupleKey/Spec.v — the specification side of C16: how tuples compare, element by element,
   reversed for elements marked descending; what "same shape" means; which values are
   representable; and the known failure class F12 of the field-numbered format.  Definitions only. *)
From Coq Require Import NArith ZArith List Bool.
From Blue Require Import TupleKey.Lex TupleKey.ModelV2 TupleKey.ModelV1.
Import ListNotations.
Open Scope N_scope.

(* ---------------------------------------------------------------- compact format (tuple_key2) *)
(* Ord of the Rust element types: () ; [u8]/str byte-wise ; unsigned ; signed *)
Definition cmp_el2 (a b : el2) : comparison :=
  match a, b with
  | V2Unit, V2Unit => Eq
  | V2Bytes x, V2Bytes y => lex_cmp x y
  | V2String x, V2String y => lex_cmp x y
  | V2U _ x, V2U _ y => x ?= y
  | V2I _ x, V2I _ y => (x ?= y)%Z
  | _, _ => Eq                       (* different types: excluded by same_shape2 *)
  end.

Fixpoint tuple_cmp2 (t u : list el2) : comparison :=
  match t, u with
  | a :: t', b :: u' => match cmp_el2 a b with Eq => tuple_cmp2 t' u' | c => c end
  | _, _ => Eq
  end.

Definition same_shape2 (t u : list el2) : Prop := map ty_of2 t = map ty_of2 u.

Definition width_ok (bits : N) : Prop := bits = 8 \/ bits = 16 \/ bits = 32 \/ bits = 64.

(* values the Rust types can hold *)
Definition wf_el2 (e : el2) : Prop :=
  match e with
  | V2Unit => True
  | V2Bytes b => bytes_ok b
  | V2String s => bytes_ok s /\ utf8_valid s = true
  | V2U bits v => width_ok bits /\ v < 2 ^ bits
  | V2I bits v => width_ok bits /\ (- Z.of_N (2 ^ (bits - 1)) <= v < Z.of_N (2 ^ (bits - 1)))%Z
  end.
Definition wf2 (t : list el2) : Prop := Forall wf_el2 t.

(* ------------------------------------------------------------ field-numbered format (tuple_key) *)
Definition cmp_el1 (a b : el1) : comparison :=
  match a, b with
  | V1Unit, V1Unit => Eq
  | V1U32 x, V1U32 y => x ?= y
  | V1U64 x, V1U64 y => x ?= y
  | V1I32 x, V1I32 y => (x ?= y)%Z
  | V1I64 x, V1I64 y => (x ?= y)%Z
  | V1String x, V1String y => lex_cmp x y
  | _, _ => Eq
  end.

Definition dir_cmp (d : dir) (c : comparison) : comparison :=
  match d with Forward => c | Reverse => CompOpp c end.

Fixpoint tuple_cmp1 (t u : list field1) : comparison :=
  match t, u with
  | a :: t', b :: u' =>
      match dir_cmp (f_dir a) (cmp_el1 (f_val a) (f_val b)) with
      | Eq => tuple_cmp1 t' u'
      | c => c
      end
  | _, _ => Eq
  end.

Definition same_shape1 (t u : list field1) : Prop := map shape_of t = map shape_of u.

Definition wf_el1 (e : el1) : Prop :=
  match e with
  | V1Unit => True
  | V1U32 v => v < 2 ^ 32
  | V1U64 v => v < 2 ^ 64
  | V1I32 v => (- 2 ^ 31 <= v < 2 ^ 31)%Z
  | V1I64 v => (- 2 ^ 63 <= v < 2 ^ 63)%Z
  | V1String s => bytes_ok s
  end.
Definition wf_field1 (fl : field1) : Prop :=
  field_number_valid (f_num fl) = true /\ wf_el1 (f_val fl).
Definition wf1 (t : list field1) : Prop := Forall wf_field1 t.

(* a String must also be UTF-8 (needed for decoding only; the order theorems hold for all bytes) *)
Definition utf8_el1 (e : el1) : Prop :=
  match e with V1String s => utf8_valid s = true | _ => True end.

(* ---- the known class F12: a descending (Reverse) string element where one string is a proper
   prefix of the other and the first byte after the shorter one has its top 7 - r bits clear,
   r = number of data bits the shorter string leaves for its last 7-bit chunk
   (r = 0 for the empty string, else ((len - 1) mod 7) + 1).  Then the two encodings first differ
   in the continuation bit only, which reverse_encoding does not invert. *)
Definition rbits (n : nat) : N :=
  match n with O => 0 | S k => N.of_nat (Nat.modulo k 7) + 1 end.

(* `a` (whose first n bytes have already been matched) is a proper prefix of `b`, critical byte small *)
Fixpoint f12_prefix (a b : list N) (n : nat) : bool :=
  match a, b with
  | [], y :: _ => y <? 2 ^ (rbits n + 1)
  | x :: a', y :: b' => (x =? y) && f12_prefix a' b' (S n)
  | _, [] => false
  end.

Definition f12_strings (a b : list N) : bool := f12_prefix a b 0 || f12_prefix b a 0.

(* the first element at which the tuples differ is a Reverse string pair in the class *)
Fixpoint known_F12 (t u : list field1) : bool :=
  match t, u with
  | a :: t', b :: u' =>
      match cmp_el1 (f_val a) (f_val b) with
      | Eq => known_F12 t' u'
      | _ =>
          match f_dir a, f_val a, f_val b with
          | Reverse, V1String x, V1String y => f12_strings x y
          | _, _, _ => false
          end
      end
  | _, _ => false
  end.
