(* TupleKey/ProofsTop.v — the statements of Props_C16.v assembled from the lemma files. *)
From Coq Require Import NArith ZArith List Lia Bool.
From Blue Require Import Gen.Const_TupleKey TupleKey.Lex TupleKey.Bits TupleKey.ModelV2 TupleKey.ModelV1 TupleKey.Spec
  TupleKey.ProofsV2 TupleKey.ProofsV1a TupleKey.ProofsV1b TupleKey.ProofsV1c TupleKey.ProofsV1d.
Import ListNotations.
Open Scope N_scope.

(* ------------------------------------------------------------------ compact format *)
Lemma v2_order : forall t u, wf2 t -> wf2 u -> same_shape2 t u ->
  lex_cmp (encode2 t) (encode2 u) = tuple_cmp2 t u.
Proof. intros t u Wt Wu S. exact (proj1 (tuple2_cmp t u Wt Wu S)). Qed.

Lemma v2_prefix_free : forall t u, wf2 t -> wf2 u -> same_shape2 t u -> tuple_cmp2 t u <> Eq ->
  diverge (encode2 t) (encode2 u).
Proof. intros t u Wt Wu S H. exact (proj1 (proj2 (tuple2_cmp t u Wt Wu S)) H). Qed.

Lemma v2_equal : forall t u, wf2 t -> wf2 u -> same_shape2 t u -> tuple_cmp2 t u = Eq ->
  encode2 t = encode2 u.
Proof. intros t u Wt Wu S H. exact (proj2 (proj2 (tuple2_cmp t u Wt Wu S)) H). Qed.

Lemma v2_extension : forall t u e e', wf2 t -> wf2 u -> same_shape2 t u ->
  (e <> [] -> lex_cmp (encode2 t) (encode2 (t ++ e)) = Lt) /\
  (tuple_cmp2 t u = Lt -> lex_cmp (encode2 (t ++ e)) (encode2 (u ++ e')) = Lt) /\
  (tuple_cmp2 t u = Gt -> lex_cmp (encode2 (t ++ e)) (encode2 (u ++ e')) = Gt).
Proof.
  intros t u e e' Wt Wu S. rewrite !encode2_app. split; [|split].
  - intros He. apply lex_prefix_lt. now apply encode2_nonempty.
  - intros H. apply cmp_div_lt_ext. rewrite <- H. now apply tuple2_cmp.
  - intros H. apply cmp_div_gt_ext. rewrite <- H. now apply tuple2_cmp.
Qed.

(* ------------------------------------------------------------------ field-numbered format *)
Lemma v1_encode_total : forall t, wf1 t -> exists bs, encode1 t = Some bs.
Proof. intros t W. exists (enc1 t). now apply encode1_spec. Qed.

Lemma v1_cmp : forall t u a b, wf1 t -> wf1 u -> same_shape1 t u ->
  encode1 t = Some a -> encode1 u = Some b -> cmp_div a b (actual_tuple_cmp t u).
Proof.
  intros t u a b Wt Wu S Ea Eb.
  rewrite encode1_spec in Ea, Eb by assumption. injection Ea as <-. injection Eb as <-.
  now apply enc1_cmp.
Qed.

Lemma v1_order_outside_known : forall t u a b, wf1 t -> wf1 u -> same_shape1 t u ->
  encode1 t = Some a -> encode1 u = Some b -> known_F12 t u = false ->
  lex_cmp a b = tuple_cmp1 t u.
Proof.
  intros t u a b Wt Wu S Ea Eb K.
  rewrite (proj1 (v1_cmp t u a b Wt Wu S Ea Eb)). exact (proj1 (actual_vs_spec t u) K).
Qed.

Lemma v1_order_inside_known : forall t u a b, wf1 t -> wf1 u -> same_shape1 t u ->
  encode1 t = Some a -> encode1 u = Some b -> known_F12 t u = true ->
  lex_cmp a b = CompOpp (tuple_cmp1 t u) /\ tuple_cmp1 t u <> Eq.
Proof.
  intros t u a b Wt Wu S Ea Eb K.
  rewrite (proj1 (v1_cmp t u a b Wt Wu S Ea Eb)). exact (proj2 (actual_vs_spec t u) K).
Qed.

Lemma actual_eq_iff : forall t u, actual_tuple_cmp t u = Eq <-> tuple_cmp1 t u = Eq.
Proof.
  intros t u. destruct (known_F12 t u) eqn:K.
  - destruct (proj2 (actual_vs_spec t u) K) as [E N]. rewrite E.
    destruct (tuple_cmp1 t u); cbn; split; congruence.
  - now rewrite (proj1 (actual_vs_spec t u) K).
Qed.

Lemma v1_prefix_free : forall t u a b, wf1 t -> wf1 u -> same_shape1 t u ->
  encode1 t = Some a -> encode1 u = Some b -> tuple_cmp1 t u <> Eq -> diverge a b.
Proof.
  intros t u a b Wt Wu S Ea Eb H.
  apply (proj1 (proj2 (v1_cmp t u a b Wt Wu S Ea Eb))). intros E. apply H. now apply actual_eq_iff.
Qed.

Lemma v1_equal : forall t u a b, wf1 t -> wf1 u -> same_shape1 t u ->
  encode1 t = Some a -> encode1 u = Some b -> tuple_cmp1 t u = Eq -> a = b.
Proof.
  intros t u a b Wt Wu S Ea Eb H.
  apply (proj2 (proj2 (v1_cmp t u a b Wt Wu S Ea Eb))). now apply actual_eq_iff.
Qed.

Lemma field_enc_nonempty : forall fl, wf_field1 fl -> field_enc fl <> [].
Proof.
  intros fl [Wf We]. unfold field_enc.
  pose proof (terminated_nonempty _ (field_number_terminated (f_num fl) (kty_of (f_val fl)) (f_dir fl)
                                        (valid_field_lt _ Wf))) as H.
  destruct (field_number _ _ _); [contradiction|discriminate].
Qed.

Lemma enc1_nonempty : forall e, wf1 e -> e <> [] -> enc1 e <> [].
Proof.
  intros [|fl e] W H; [contradiction|]. apply Forall_cons_iff in W. destruct W as [Wf _].
  unfold enc1. cbn [flat_map]. pose proof (field_enc_nonempty fl Wf).
  destruct (field_enc fl); [contradiction|discriminate].
Qed.

Lemma wf1_app : forall t e, wf1 (t ++ e) <-> wf1 t /\ wf1 e.
Proof. intros. unfold wf1. apply Forall_app. Qed.

Lemma v1_extension : forall t u e e' a b ae be, wf1 (t ++ e) -> wf1 (u ++ e') -> same_shape1 t u ->
  encode1 t = Some a -> encode1 u = Some b ->
  encode1 (t ++ e) = Some ae -> encode1 (u ++ e') = Some be ->
  (e <> [] -> lex_cmp a ae = Lt) /\
  (known_F12 t u = false -> tuple_cmp1 t u = Lt -> lex_cmp ae be = Lt) /\
  (known_F12 t u = false -> tuple_cmp1 t u = Gt -> lex_cmp ae be = Gt).
Proof.
  intros t u e e' a b ae be Wte Wue S Ea Eb Eae Ebe.
  pose proof (proj1 (wf1_app _ _) Wte) as [Wt We]. pose proof (proj1 (wf1_app _ _) Wue) as [Wu We'].
  rewrite encode1_spec in Ea, Eb, Eae, Ebe by assumption.
  injection Ea as <-. injection Eb as <-. injection Eae as <-. injection Ebe as <-.
  rewrite !enc1_app.
  pose proof (enc1_cmp t u Wt Wu S) as C.
  split; [|split].
  - intros He. apply lex_prefix_lt. now apply enc1_nonempty.
  - intros K H. apply cmp_div_lt_ext. rewrite <- H, <- (proj1 (actual_vs_spec t u) K). exact C.
  - intros K H. apply cmp_div_gt_ext. rewrite <- H, <- (proj1 (actual_vs_spec t u) K). exact C.
Qed.

Lemma v1_decode_encode : forall via t a rest, wf1 t -> Forall (fun fl => utf8_el1 (f_val fl)) t ->
  encode1 t = Some a -> decode1 via (map shape_of t) (a ++ rest) = Ok1 (map f_val t).
Proof.
  intros via t a rest W U Ea. rewrite encode1_spec in Ea by assumption. injection Ea as <-.
  now apply decode1_enc1.
Qed.

Lemma v1_peek_next : forall fl t a rest, wf1 (fl :: t) -> encode1 (fl :: t) = Some a ->
  peek_next (a ++ rest) = Some (Some (f_num fl, kty_of (f_val fl), f_dir fl)).
Proof.
  intros fl t a rest W Ea. rewrite encode1_spec in Ea by assumption. injection Ea as <-.
  now apply peek_next_enc1.
Qed.
