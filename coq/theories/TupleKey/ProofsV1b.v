(* TupleKey/ProofsV1b.v — field-numbered format: the fixed-width integer elements, the sign-offset
   mapping, reverse_encoding, and from these and ProofsV1a the order theorem for whole tuples,
   with the exact boundary of the failure class F12. *)
From Coq Require Import NArith ZArith List Lia ZifyN ZifyBool Bool.
From Blue Require Import Gen.Const_TupleKey TupleKey.Lex TupleKey.Bits TupleKey.ModelV2 TupleKey.ModelV1 TupleKey.Spec TupleKey.ProofsV1a.
Import ListNotations.
Open Scope N_scope.
Ltac Zify.zify_post_hook ::= Z.to_euclidean_division_equations.

Arguments N.pow : simpl never.
Arguments N.div : simpl never.
Arguments N.modulo : simpl never.
Arguments N.mul : simpl never.
Arguments N.add : simpl never.
Arguments N.sub : simpl never.
Arguments N.lor : simpl never.
Arguments N.land : simpl never.

(* ------------------------------------------------------------------ fixed-width integers *)
(* n 7-bit digits of x / 2^k with the continuation bit, then the k low bits left-aligned *)
Definition cont (d : N) : N := 2 * d + 1.
Definition fixed_enc (n : nat) (k : N) (x : N) : list N :=
  map cont (be_digits 128 n (x / 2 ^ k)) ++ [(x mod 2 ^ k) * 2 ^ (8 - k)].

Lemma append_u32_fixed : forall x, append_u32 x = fixed_enc 4 4 x.
Proof.
  intros x. unfold append_u32, fixed_enc. cbn [be_digits map app].
  rewrite !lor1_mod256, land15. unfold cont.
  change (N.of_nat 3) with 3. change (N.of_nat 2) with 2. change (N.of_nat 1) with 1. change (N.of_nat 0) with 0.
  norm_consts.
  repeat (f_equal; [lia|]). f_equal. lia.
Qed.

Lemma append_u64_fixed : forall x, append_u64 x = fixed_enc 9 1 x.
Proof.
  intros x. unfold append_u64, fixed_enc. cbn [be_digits map app].
  rewrite !lor1_mod256, land1. unfold cont.
  change (N.of_nat 8) with 8. change (N.of_nat 7) with 7. change (N.of_nat 6) with 6.
  change (N.of_nat 5) with 5. change (N.of_nat 4) with 4.
  change (N.of_nat 3) with 3. change (N.of_nat 2) with 2. change (N.of_nat 1) with 1. change (N.of_nat 0) with 0.
  norm_consts.
  repeat (f_equal; [lia|]). f_equal. lia.
Qed.

Lemma compare_divmod : forall x y m, m <> 0 ->
  (x ?= y) = match x / m ?= y / m with Eq => x mod m ?= y mod m | c => c end.
Proof.
  intros x y m Hm.
  pose proof (N.div_mod x m Hm) as Ex. pose proof (N.div_mod y m Hm) as Ey.
  pose proof (N.mod_upper_bound x m Hm) as Rx. pose proof (N.mod_upper_bound y m Hm) as Ry.
  set (qx := x / m) in *. set (qy := y / m) in *. set (rx := x mod m) in *. set (ry := y mod m) in *.
  clearbody qx qy rx ry.
  destruct (N.compare_spec qx qy) as [E|L|G].
  - subst qy. destruct (N.compare_spec rx ry);
      [apply N.compare_eq_iff | apply N.compare_lt_iff | apply N.compare_gt_iff]; lia.
  - apply N.compare_lt_iff.
    assert (m * qx + m <= m * qy) by (rewrite <- N.mul_succ_r; apply N.mul_le_mono_l; lia). lia.
  - apply N.compare_gt_iff.
    assert (m * qy + m <= m * qx) by (rewrite <- N.mul_succ_r; apply N.mul_le_mono_l; lia). lia.
Qed.

Lemma cont_cmp : forall a b, (cont a ?= cont b) = (a ?= b).
Proof.
  intros a b. unfold cont. destruct (N.compare_spec a b);
    [apply N.compare_eq_iff | apply N.compare_lt_iff | apply N.compare_gt_iff]; lia.
Qed.

Lemma mul_cmp_r : forall a b q, 0 < q -> (a * q ?= b * q) = (a ?= b).
Proof.
  intros a b q Hq. destruct (N.compare_spec a b) as [->|H|H].
  - apply N.compare_refl.
  - apply N.compare_lt_iff. now apply N.mul_lt_mono_pos_r.
  - apply N.compare_gt_iff. now apply N.mul_lt_mono_pos_r.
Qed.

Lemma cont_mod2 : forall d, cont d mod 2 = 1.
Proof. intros. unfold cont. lia. Qed.

Lemma fixed_enc_length : forall n k x, length (fixed_enc n k x) = S n.
Proof. intros. unfold fixed_enc. rewrite app_length, map_length, be_digits_length. cbn. lia. Qed.

Lemma fixed_enc_cmp : forall n k x y, 0 < k <= 8 ->
  x < 128 ^ N.of_nat n * 2 ^ k -> y < 128 ^ N.of_nat n * 2 ^ k ->
  lex_cmp (fixed_enc n k x) (fixed_enc n k y) = (x ?= y).
Proof.
  intros n k x y Hk Hx Hy. unfold fixed_enc.
  assert (P : 2 ^ k <> 0) by (apply N.pow_nonzero; discriminate).
  assert (Dx : x / 2 ^ k < 128 ^ N.of_nat n) by (apply N.div_lt_upper_bound; [assumption|lia]).
  assert (Dy : y / 2 ^ k < 128 ^ N.of_nat n) by (apply N.div_lt_upper_bound; [assumption|lia]).
  pose proof (be_digits_cmp 128 cont ltac:(lia) (fun a b _ _ => cont_cmp a b) n _ _ Dx Dy) as Hd.
  assert (Cd : cmp_div (map cont (be_digits 128 n (x / 2 ^ k))) (map cont (be_digits 128 n (y / 2 ^ k)))
                       (x / 2 ^ k ?= y / 2 ^ k)).
  { rewrite <- Hd. apply cmp_div_same_length. now rewrite !map_length, !be_digits_length. }
  assert (Cl : cmp_div [(x mod 2 ^ k) * 2 ^ (8 - k)] [(y mod 2 ^ k) * 2 ^ (8 - k)] (x mod 2 ^ k ?= y mod 2 ^ k)).
  { assert (Q : 0 < 2 ^ (8 - k)) by (apply N.neq_0_lt_0, N.pow_nonzero; discriminate).
    replace (x mod 2 ^ k ?= y mod 2 ^ k) with (lex_cmp [(x mod 2 ^ k) * 2 ^ (8 - k)] [(y mod 2 ^ k) * 2 ^ (8 - k)]).
    - apply cmp_div_same_length. reflexivity.
    - cbn [lex_cmp]. rewrite mul_cmp_r by assumption.
      destruct (x mod 2 ^ k ?= y mod 2 ^ k); reflexivity. }
  pose proof (cmp_div_seq _ _ _ _ _ _ Cd Cl) as [Hs _].
  rewrite Hs. rewrite (compare_divmod x y (2 ^ k) P). destruct (x / 2 ^ k ?= y / 2 ^ k); reflexivity.
Qed.

(* bytes at equal positions carry equal continuation bits *)
Definition same_low (a b : list N) : Prop := Forall2 (fun x y => x mod 2 = y mod 2) a b.

Lemma same_low_hi : forall a b, same_low a b -> diverge a b -> hi_diverge a b.
Proof.
  intros a b S D. induction D as [x y a b Hne | x a b D IH]; inversion S; subst.
  - apply hi_here. lia.
  - apply hi_next. now apply IH.
Qed.

Lemma fixed_enc_same_low : forall n k x y, 0 < k <= 7 -> same_low (fixed_enc n k x) (fixed_enc n k y).
Proof.
  intros n k x y Hk. unfold fixed_enc, same_low. apply Forall2_app.
  - generalize (x / 2 ^ k) (y / 2 ^ k). intros v w.
    induction n as [|n IH]; cbn [be_digits map]; [constructor|].
    constructor; [now rewrite !cont_mod2 | apply IH].
  - constructor; [|constructor].
    assert (E : 2 ^ (8 - k) = 2 * 2 ^ (7 - k)).
    { replace (8 - k) with (N.succ (7 - k)) by lia. now rewrite N.pow_succ_r'. }
    rewrite E. generalize (x mod 2 ^ k) (y mod 2 ^ k) (2 ^ (7 - k)). intros. lia.
Qed.

Lemma fixed_enc_bytes : forall n k x, 0 < k <= 7 -> bytes_ok (fixed_enc n k x).
Proof.
  intros n k x Hk. unfold fixed_enc, bytes_ok. apply Forall_app. split.
  - apply Forall_forall. intros c Hin. apply in_map_iff in Hin. destruct Hin as (d & <- & Hd).
    pose proof (be_digits_bound 128 n (x / 2 ^ k) ltac:(discriminate)) as B.
    rewrite Forall_forall in B. specialize (B d Hd). unfold cont. lia.
  - constructor; [|constructor].
    assert (P : 2 ^ k <> 0) by (apply N.pow_nonzero; discriminate).
    pose proof (N.mod_upper_bound x (2 ^ k) P).
    assert (E : 2 ^ 8 = 2 ^ k * 2 ^ (8 - k)) by (rewrite <- N.pow_add_r; f_equal; lia).
    change 256 with (2 ^ 8). rewrite E. apply N.mul_lt_mono_pos_r; [|assumption].
    apply N.neq_0_lt_0, N.pow_nonzero. discriminate.
Qed.

Lemma fixed_enc_terminated : forall n k x, 0 < k <= 7 -> terminated (fixed_enc n k x).
Proof.
  intros n k x Hk. unfold fixed_enc. generalize (x / 2 ^ k). intros v.
  assert (L : terminated [(x mod 2 ^ k) * 2 ^ (8 - k)]).
  { pose proof (fixed_enc_bytes 0 k x Hk) as B. unfold fixed_enc in B. cbn [be_digits map app] in B.
    inversion B; subst. apply term_last; [|assumption].
    assert (E : 2 ^ (8 - k) = 2 * 2 ^ (7 - k)).
    { replace (8 - k) with (N.succ (7 - k)) by lia. now rewrite N.pow_succ_r'. }
    rewrite E. generalize (x mod 2 ^ k) (2 ^ (7 - k)). intros. lia. }
  induction n as [|n IH]; cbn [be_digits map app]; [exact L|].
  apply term_cons; [apply cont_mod2 | | exact IH].
  assert ((v / 128 ^ N.of_nat n) mod 128 < 128) by (apply N.mod_upper_bound; discriminate).
  unfold cont. lia.
Qed.

(* the order-and-divergence statement used for every element kind: *)
Definition hi_rel (c : comparison) (ea eb : list N) : Prop :=
  match c with Eq => ea = eb | Lt => hi_lt ea eb | Gt => hi_lt eb ea end.

Lemma fixed_enc_rel : forall n k x y, 0 < k <= 7 ->
  x < 128 ^ N.of_nat n * 2 ^ k -> y < 128 ^ N.of_nat n * 2 ^ k ->
  hi_rel (x ?= y) (fixed_enc n k x) (fixed_enc n k y).
Proof.
  intros n k x y Hk Hx Hy.
  assert (L : forall a b, a < 128 ^ N.of_nat n * 2 ^ k -> b < 128 ^ N.of_nat n * 2 ^ k -> a < b ->
              hi_lt (fixed_enc n k a) (fixed_enc n k b)).
  { intros a b Ha Hb Hab. split.
    - rewrite fixed_enc_cmp by (assumption || lia). now apply N.compare_lt_iff.
    - apply same_low_hi; [now apply fixed_enc_same_low|].
      apply same_length_diverge; [now rewrite !fixed_enc_length|].
      intros E. pose proof (fixed_enc_cmp n k a b ltac:(lia) Ha Hb) as C.
      rewrite E, lex_cmp_refl in C. symmetry in C. apply N.compare_eq in C. lia. }
  unfold hi_rel. destruct (N.compare_spec x y) as [->|H|H]; [reflexivity | now apply L | now apply L].
Qed.

Lemma u32_rel : forall x y, x < 2 ^ 32 -> y < 2 ^ 32 -> hi_rel (x ?= y) (append_u32 x) (append_u32 y).
Proof.
  intros. rewrite !append_u32_fixed. apply fixed_enc_rel; [lia| |];
    change (128 ^ N.of_nat 4 * 2 ^ 4) with (2 ^ 32); assumption.
Qed.

Lemma u64_rel : forall x y, x < 2 ^ 64 -> y < 2 ^ 64 -> hi_rel (x ?= y) (append_u64 x) (append_u64 y).
Proof.
  intros. rewrite !append_u64_fixed. apply fixed_enc_rel; [lia| |];
    change (128 ^ N.of_nat 9 * 2 ^ 1) with (2 ^ 64); assumption.
Qed.

(* ------------------------------------------------------------------ sign offset (ordered.rs) *)
Lemma ord_encode_i32_spec : forall x, (- 2 ^ 31 <= x < 2 ^ 31)%Z ->
  ord_encode_i32 x = Z.to_N (x + 2 ^ 31).
Proof.
  intros x H. unfold ord_encode_i32, W32, DIVIDE_32.
  destruct (Z.leb_spec 0 x); lia.
Qed.

Lemma ord_encode_i64_spec : forall x, (- 2 ^ 63 <= x < 2 ^ 63)%Z ->
  ord_encode_i64 x = Z.to_N (x + 2 ^ 63).
Proof.
  intros x H. unfold ord_encode_i64, W64, DIVIDE_64.
  destruct (Z.leb_spec 0 x); lia.
Qed.

Lemma ord_decode_i32_spec : forall x, (- 2 ^ 31 <= x < 2 ^ 31)%Z ->
  ord_decode_i32 (Z.to_N (x + 2 ^ 31)) = x.
Proof.
  intros x H. unfold ord_decode_i32, W32, DIVIDE_32.
  destruct (N.leb_spec 2147483648 (Z.to_N (x + 2 ^ 31)));
    match goal with |- context [if ?c then _ else _] => destruct c eqn:E end; lia.
Qed.

Lemma ord_decode_i64_spec : forall x, (- 2 ^ 63 <= x < 2 ^ 63)%Z ->
  ord_decode_i64 (Z.to_N (x + 2 ^ 63)) = x.
Proof.
  intros x H. unfold ord_decode_i64, W64, DIVIDE_64.
  destruct (N.leb_spec 9223372036854775808 (Z.to_N (x + 2 ^ 63)));
    match goal with |- context [if ?c then _ else _] => destruct c eqn:E end; lia.
Qed.

Lemma i32_rel : forall x y, (- 2 ^ 31 <= x < 2 ^ 31)%Z -> (- 2 ^ 31 <= y < 2 ^ 31)%Z ->
  hi_rel (x ?= y)%Z (append_u32 (ord_encode_i32 x)) (append_u32 (ord_encode_i32 y)).
Proof.
  intros x y Hx Hy. rewrite !ord_encode_i32_spec by assumption.
  replace (x ?= y)%Z with (Z.to_N (x + 2 ^ 31) ?= Z.to_N (y + 2 ^ 31)).
  - apply u32_rel; lia.
  - destruct (Z.compare_spec x y);
      [apply N.compare_eq_iff | apply N.compare_lt_iff | apply N.compare_gt_iff]; lia.
Qed.

Lemma i64_rel : forall x y, (- 2 ^ 63 <= x < 2 ^ 63)%Z -> (- 2 ^ 63 <= y < 2 ^ 63)%Z ->
  hi_rel (x ?= y)%Z (append_u64 (ord_encode_i64 x)) (append_u64 (ord_encode_i64 y)).
Proof.
  intros x y Hx Hy. rewrite !ord_encode_i64_spec by assumption.
  replace (x ?= y)%Z with (Z.to_N (x + 2 ^ 63) ?= Z.to_N (y + 2 ^ 63)).
  - apply u64_rel; lia.
  - destruct (Z.compare_spec x y);
      [apply N.compare_eq_iff | apply N.compare_lt_iff | apply N.compare_gt_iff]; lia.
Qed.

(* ------------------------------------------------------------------ reverse_encoding *)
Lemma reverse_byte_spec : forall c, c < 256 -> reverse_byte c = 2 * (127 - c / 2) + c mod 2.
Proof. unfold reverse_byte. by_bytes. Qed.

Lemma reverse_byte_invol : forall c, c < 256 -> reverse_byte (reverse_byte c) = c.
Proof. unfold reverse_byte. by_bytes. Qed.

Lemma reverse_byte_lt : forall c, c < 256 -> reverse_byte c < 256.
Proof. intros c H. rewrite reverse_byte_spec by assumption. lia. Qed.

Lemma reverse_invol : forall l, bytes_ok l -> reverse_encoding (reverse_encoding l) = l.
Proof.
  unfold reverse_encoding. induction 1 as [|c l Hc Hl IH]; cbn [map]; [reflexivity|].
  now rewrite reverse_byte_invol, IH.
Qed.

Lemma reverse_bytes_ok : forall l, bytes_ok l -> bytes_ok (reverse_encoding l).
Proof.
  unfold reverse_encoding, bytes_ok. induction 1; cbn [map]; constructor; auto.
  now apply reverse_byte_lt.
Qed.

Lemma reverse_terminated : forall l, terminated l -> terminated (reverse_encoding l).
Proof.
  unfold reverse_encoding. induction 1 as [c H0 Hc | c l H1 Hc Hl IH]; cbn [map].
  - apply term_last; [|now apply reverse_byte_lt]. rewrite reverse_byte_spec by assumption. lia.
  - apply term_cons; [|now apply reverse_byte_lt|exact IH]. rewrite reverse_byte_spec by assumption. lia.
Qed.

Lemma terminated_bytes_ok : forall l, terminated l -> bytes_ok l.
Proof. unfold bytes_ok. induction 1; constructor; auto. Qed.

(* data-bit divergence: the comparison flips; continuation-bit divergence: it does not *)
Lemma lex_lt_head : forall x y a b, x <> y -> lex_cmp (x :: a) (y :: b) = Lt -> x < y.
Proof.
  intros x y a b Hne H. cbn [lex_cmp] in H. destruct (N.compare_spec x y); try discriminate; [contradiction|assumption].
Qed.

Lemma reverse_hi : forall a b, bytes_ok a -> bytes_ok b -> hi_lt a b ->
  hi_lt (reverse_encoding b) (reverse_encoding a).
Proof.
  intros a b Ha Hb [L D]. revert Ha Hb L. unfold reverse_encoding.
  induction D as [x y a b Hne | x a b D IH]; intros Ha Hb L;
    apply bytes_ok_cons in Ha; apply bytes_ok_cons in Hb; destruct Ha as [Hx Ha], Hb as [Hy Hb]; cbn [map].
  - assert (x < y) by (apply (lex_lt_head x y a b); [congruence|assumption]).
    apply hi_lt_here. rewrite !reverse_byte_spec by assumption. lia.
  - apply hi_lt_cons. apply IH; try assumption. now rewrite lex_cmp_cons_same in L.
Qed.

Lemma reverse_lo : forall a b, bytes_ok a -> bytes_ok b -> lo_lt a b ->
  lo_lt (reverse_encoding a) (reverse_encoding b).
Proof.
  intros a b Ha Hb [L D]. revert Ha Hb L. unfold reverse_encoding.
  induction D as [x y a b He Hne | x a b D IH]; intros Ha Hb L;
    apply bytes_ok_cons in Ha; apply bytes_ok_cons in Hb; destruct Ha as [Hx Ha], Hb as [Hy Hb]; cbn [map].
  - assert (x < y) by (apply (lex_lt_head x y a b); assumption).
    apply lo_lt_here; rewrite !reverse_byte_spec by assumption; lia.
  - apply lo_lt_cons. apply IH; try assumption. now rewrite lex_cmp_cons_same in L.
Qed.

(* ------------------------------------------------------------------ elements *)
(* Element::append_to as a total function (append_to_spec below) *)
Definition val_enc (e : el1) : list N :=
  match e with
  | V1Unit => [0]
  | V1U32 v => append_u32 v
  | V1U64 v => append_u64 v
  | V1I32 v => append_u32 (ord_encode_i32 v)
  | V1I64 v => append_u64 (ord_encode_i64 v)
  | V1String s => str_enc s
  end.

Lemma append_to_spec : forall e, wf_el1 e -> append_to e = Some (val_enc e).
Proof.
  intros e W. destruct e; cbn [append_to val_enc]; try reflexivity. now apply append_string_spec.
Qed.

Lemma val_enc_terminated : forall e, wf_el1 e -> terminated (val_enc e).
Proof.
  intros e W. destruct e; cbn [val_enc wf_el1] in *.
  - apply term_last; [reflexivity|lia].
  - rewrite append_u32_fixed. apply fixed_enc_terminated. lia.
  - rewrite append_u64_fixed. apply fixed_enc_terminated. lia.
  - rewrite append_u32_fixed. apply fixed_enc_terminated. lia.
  - rewrite append_u64_fixed. apply fixed_enc_terminated. lia.
  - now apply str_enc_terminated.
Qed.

Definition el_f12 (a b : el1) : bool :=
  match a, b with V1String x, V1String y => f12_strings x y | _, _ => false end.

Definition el_rel (a b : el1) (ea eb : list N) : Prop :=
  match cmp_el1 a b with
  | Eq => ea = eb
  | Lt => if el_f12 a b then lo_lt ea eb else hi_lt ea eb
  | Gt => if el_f12 a b then lo_lt eb ea else hi_lt eb ea
  end.

Lemma f12_prefix_gt : forall b a n, f12_prefix b a n = true -> lex_cmp a b = Gt.
Proof.
  induction b as [|y b IH]; intros [|x a] n H; cbn [f12_prefix lex_cmp] in *; try discriminate; [reflexivity|].
  apply andb_true_iff in H. destruct H as [E H]. apply N.eqb_eq in E. subst.
  rewrite N.compare_refl. eapply IH. exact H.
Qed.

Lemma hi_rel_el_rel : forall a b ea eb, el_f12 a b = false -> hi_rel (cmp_el1 a b) ea eb -> el_rel a b ea eb.
Proof. intros a b ea eb F H. unfold el_rel, hi_rel in *. rewrite F. exact H. Qed.

Lemma val_enc_rel : forall a b, wf_el1 a -> wf_el1 b -> kty_of a = kty_of b ->
  el_rel a b (val_enc a) (val_enc b).
Proof.
  intros a b Wa Wb K.
  destruct a, b; cbn [kty_of] in K; try discriminate; cbn [wf_el1] in *.
  - reflexivity.
  - apply hi_rel_el_rel; [reflexivity|]. now apply u32_rel.
  - apply hi_rel_el_rel; [reflexivity|]. now apply u64_rel.
  - apply hi_rel_el_rel; [reflexivity|]. now apply i32_rel.
  - apply hi_rel_el_rel; [reflexivity|]. now apply i64_rel.
  - pose proof (str_enc_rel s s0 Wa Wb) as R. unfold str_rel in R.
    unfold el_rel. cbn [cmp_el1 el_f12 val_enc]. unfold f12_strings.
    destruct (lex_cmp s s0) eqn:C; [exact R| |].
    + destruct (f12_prefix s0 s 0) eqn:F.
      * apply f12_prefix_gt in F. congruence.
      * now rewrite orb_false_r.
    + destruct (f12_prefix s s0 0) eqn:F.
      * apply f12_prefix_gt in F. rewrite lex_cmp_antisym, F in C. discriminate.
      * exact R.
Qed.

Definition dir_enc (d : dir) (v : list N) : list N :=
  match d with Reverse => reverse_encoding v | Forward => v end.

(* how the encodings of two values actually compare, per direction *)
Definition actual_cmp (d : dir) (a b : el1) : comparison :=
  match d with
  | Forward => cmp_el1 a b
  | Reverse => if el_f12 a b then cmp_el1 a b else CompOpp (cmp_el1 a b)
  end.

Lemma hi_lt_cmp_div : forall a b, hi_lt a b -> cmp_div a b Lt.
Proof.
  intros a b [L D]. split; [exact L|]. split; [intros _; now apply hi_diverge_diverge | discriminate].
Qed.

Lemma lo_lt_cmp_div : forall a b, lo_lt a b -> cmp_div a b Lt.
Proof.
  intros a b [L D]. split; [exact L|]. split; [intros _; now apply lo_diverge_diverge | discriminate].
Qed.

Lemma cmp_div_gt_of_lt : forall a b, cmp_div b a Lt -> cmp_div a b Gt.
Proof. intros a b H. change Gt with (CompOpp Lt). now apply cmp_div_sym. Qed.

Lemma dir_enc_cmp : forall d a b, wf_el1 a -> wf_el1 b -> kty_of a = kty_of b ->
  cmp_div (dir_enc d (val_enc a)) (dir_enc d (val_enc b)) (actual_cmp d a b).
Proof.
  intros d a b Wa Wb K.
  pose proof (val_enc_rel a b Wa Wb K) as R. unfold el_rel in R.
  pose proof (terminated_bytes_ok _ (val_enc_terminated a Wa)) as Ba.
  pose proof (terminated_bytes_ok _ (val_enc_terminated b Wb)) as Bb.
  destruct d; cbn [dir_enc actual_cmp].
  - destruct (cmp_el1 a b).
    + rewrite R. apply cmp_div_refl.
    + destruct (el_f12 a b); [now apply lo_lt_cmp_div | now apply hi_lt_cmp_div].
    + apply cmp_div_gt_of_lt. destruct (el_f12 a b); [now apply lo_lt_cmp_div | now apply hi_lt_cmp_div].
  - destruct (cmp_el1 a b).
    + rewrite R. destruct (el_f12 a b); apply cmp_div_refl.
    + destruct (el_f12 a b); cbn [CompOpp].
      * apply lo_lt_cmp_div. now apply reverse_lo.
      * apply cmp_div_gt_of_lt. apply hi_lt_cmp_div. now apply reverse_hi.
    + destruct (el_f12 a b); cbn [CompOpp].
      * apply cmp_div_gt_of_lt. apply lo_lt_cmp_div. now apply reverse_lo.
      * apply hi_lt_cmp_div. now apply reverse_hi.
Qed.

(* ------------------------------------------------------------------ tuples *)
Definition field_enc (fl : field1) : list N :=
  field_number (f_num fl) (kty_of (f_val fl)) (f_dir fl) ++ dir_enc (f_dir fl) (val_enc (f_val fl)).

Definition enc1 (t : list field1) : list N := flat_map field_enc t.

Lemma encode1_from_spec : forall t buf, Forall (fun fl => wf_el1 (f_val fl)) t ->
  encode1_from buf t = Some (buf ++ enc1 t).
Proof.
  induction t as [|fl t IH]; intros buf W; cbn [encode1_from enc1 flat_map].
  - now rewrite app_nil_r.
  - apply Forall_cons_iff in W. destruct W as [Wf Wt].
    unfold extend_with_key. rewrite append_to_spec by assumption.
    rewrite IH by assumption. unfold enc1, field_enc, dir_enc.
    destruct (f_dir fl); now rewrite <- !app_assoc.
Qed.

Lemma wf1_vals : forall t, wf1 t -> Forall (fun fl => wf_el1 (f_val fl)) t.
Proof. intros t W. eapply Forall_impl; [|exact W]. intros fl [_ H]. exact H. Qed.

Lemma encode1_spec : forall t, wf1 t -> encode1 t = Some (enc1 t).
Proof. intros t W. unfold encode1. now rewrite encode1_from_spec by (now apply wf1_vals). Qed.

Fixpoint actual_tuple_cmp (t u : list field1) : comparison :=
  match t, u with
  | a :: t', b :: u' =>
      match actual_cmp (f_dir a) (f_val a) (f_val b) with
      | Eq => actual_tuple_cmp t' u'
      | c => c
      end
  | _, _ => Eq
  end.

Lemma enc1_cmp : forall t u, wf1 t -> wf1 u -> same_shape1 t u ->
  cmp_div (enc1 t) (enc1 u) (actual_tuple_cmp t u).
Proof.
  unfold same_shape1, enc1.
  induction t as [|a t IH]; intros [|b u] Wt Wu S; cbn [map] in S; try discriminate.
  - apply cmp_div_refl.
  - injection S as Sn Sd Sk St.
    apply Forall_cons_iff in Wt. destruct Wt as [[_ Wa] Wt].
    apply Forall_cons_iff in Wu. destruct Wu as [[_ Wb] Wu].
    cbn [flat_map actual_tuple_cmp]. unfold field_enc. rewrite <- Sn, <- Sd, <- Sk.
    pose proof (dir_enc_cmp (f_dir a) _ _ Wa Wb Sk) as He.
    pose proof (cmp_div_app_common (field_number (f_num a) (kty_of (f_val a)) (f_dir a)) _ _ _ He) as He'.
    pose proof (IH u Wt Wu St) as Ht.
    pose proof (cmp_div_seq _ _ _ _ _ _ He' Ht) as Hs.
    destruct (actual_cmp (f_dir a) (f_val a) (f_val b)); exact Hs.
Qed.

(* outside the class the actual order is the specified one; inside it is the opposite *)
Lemma known_el : forall a b, 
  match f_dir a, f_val a, f_val b with
  | Reverse, V1String x, V1String y => f12_strings x y
  | _, _, _ => false
  end = match f_dir a with Reverse => el_f12 (f_val a) (f_val b) | Forward => false end.
Proof.
  intros a b. destruct (f_dir a); [reflexivity|]. unfold el_f12.
  destruct (f_val a); try reflexivity.
Qed.

Lemma actual_vs_spec : forall t u,
  (known_F12 t u = false -> actual_tuple_cmp t u = tuple_cmp1 t u) /\
  (known_F12 t u = true -> actual_tuple_cmp t u = CompOpp (tuple_cmp1 t u) /\ tuple_cmp1 t u <> Eq).
Proof.
  induction t as [|a t IH]; intros [|b u]; cbn [known_F12 actual_tuple_cmp tuple_cmp1];
    try (split; [reflexivity|discriminate]).
  rewrite known_el. unfold actual_cmp, dir_cmp.
  destruct (cmp_el1 (f_val a) (f_val b)) eqn:C.
  - assert (E : (match f_dir a with Forward => Eq | Reverse => if el_f12 (f_val a) (f_val b) then Eq else CompOpp Eq end) = Eq)
      by (destruct (f_dir a); [reflexivity|destruct (el_f12 _ _); reflexivity]).
    rewrite E. destruct (f_dir a); cbn [CompOpp]; apply IH.
  - destruct (f_dir a); cbn [CompOpp].
    + split; [reflexivity|discriminate].
    + destruct (el_f12 (f_val a) (f_val b)); split; try discriminate; intros _;
        [split; [reflexivity|discriminate] | reflexivity].
  - destruct (f_dir a); cbn [CompOpp].
    + split; [reflexivity|discriminate].
    + destruct (el_f12 (f_val a) (f_val b)); split; try discriminate; intros _;
        [split; [reflexivity|discriminate] | reflexivity].
Qed.

Lemma enc1_app : forall t e, enc1 (t ++ e) = enc1 t ++ enc1 e.
Proof. intros. unfold enc1. apply flat_map_app. Qed.
