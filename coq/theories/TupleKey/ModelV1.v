(* TupleKey/ModelV1.v — executable model of tuple_key (the field-numbered format):
   tuple_key/src/lib.rs (TupleKey::{extend, extend_with_key, field_number, unfield_number},
   TupleKeyIterator, TupleKeyParser::{parse_next, parse_next_with_key, parse_next_tag, peek_next},
   the Element impls, reverse_encoding), iter7.rs, combine7.rs, ordered.rs, buffertk's v64
   pack/unpack as used by field_number/unfield_number, and what tuple_key_derive generates
   (a sequence of extend_with_key calls / of parse_next* calls).
   Definitions only.  u8/u32/u64 arithmetic is written out: `as u8` is `mod 256`, `<<` on u64
   drops the bits shifted out (`mod 2^64`), `|`/`&` are N.lor/N.land exactly where the Rust has
   them.  `None` from an encoder = a panic (assert) or out of fuel; theorems exclude both.
   Numbers that exist only as literals inside Rust functions (discriminants 1..6/9..14, shift
   counts, masks) are retyped here. *)
From Coq Require Import NArith ZArith List Bool.
From Blue Require Import Gen.Const_TupleKey TupleKey.ModelV2.
Import ListNotations.
Open Scope N_scope.

Definition W32 : N := 4294967296.

Inductive kty := KUnit | KFixed32 | KFixed64 | KSfixed32 | KSfixed64 | KString.
Inductive dir := Forward | Reverse.

(* fn to_discriminant (literals of the match, retyped) *)
Definition to_discriminant (k : kty) (d : dir) : N :=
  match k, d with
  | KUnit, Forward => 1 | KFixed32, Forward => 2 | KFixed64, Forward => 3
  | KSfixed32, Forward => 4 | KSfixed64, Forward => 5 | KString, Forward => 6
  | KUnit, Reverse => 9 | KFixed32, Reverse => 10 | KFixed64, Reverse => 11
  | KSfixed32, Reverse => 12 | KSfixed64, Reverse => 13 | KString, Reverse => 14
  end.

(* fn from_discriminant *)
Definition from_discriminant (x : N) : option (kty * dir) :=
  match x with
  | 1 => Some (KUnit, Forward) | 2 => Some (KFixed32, Forward) | 3 => Some (KFixed64, Forward)
  | 4 => Some (KSfixed32, Forward) | 5 => Some (KSfixed64, Forward) | 6 => Some (KString, Forward)
  | 9 => Some (KUnit, Reverse) | 10 => Some (KFixed32, Reverse) | 11 => Some (KFixed64, Reverse)
  | 12 => Some (KSfixed32, Reverse) | 13 => Some (KSfixed64, Reverse) | 14 => Some (KString, Reverse)
  | _ => None
  end.

(* ---- buffertk v64 ---- *)
(* v64::pack into buf[0..pack_sz]: low 7 bits first, 0x80 on every byte but the last.
   fuel 10 suffices for a u64 (lemma v64_pack_fuel). *)
Fixpoint v64_pack (fuel : nat) (x : N) : list N :=
  match fuel with
  | O => []
  | S f => if x / 128 =? 0 then [x mod 128] else N.lor (x mod 128) 128 :: v64_pack f (x / 128)
  end.

(* v64::unpack_slow (buffers shorter than 10 bytes): returns the value; None = Err *)
Fixpoint unpack_slow_loop (buf : list N) (ret shl : N) : option N :=
  match buf with
  | [] => None                                   (* empty buffer: Err *)
  | [b] => if N.land b 128 =? 0 then Some (N.lor ret (N.land b 127 * 2 ^ shl)) else None
  | b :: r =>                                    (* idx + 1 < bytes *)
      if negb (N.land b 128 =? 0) then unpack_slow_loop r (N.lor ret (N.land b 127 * 2 ^ shl)) (shl + 7)
      else Some (N.lor ret (N.land b 127 * 2 ^ shl))
  end.

(* v64::unpack on exactly 10 bytes: the first byte below 128 among buf[0..9] decides SZ;
   unpack_size::<SZ> sums (b - 0x80) << 7i for the first SZ-1 bytes and buf[SZ-1] << 7(SZ-1),
   all in u64 (bits shifted out of 64 are dropped) *)
Fixpoint unpack_fast (buf : list N) (acc shl : N) : option N :=
  match buf with
  | [] => None                                   (* ten continuation bytes: varint overflow *)
  | b :: r =>
      if b <? 128 then Some ((acc + (b * 2 ^ shl) mod W64) mod W64)
      else unpack_fast r (acc + (b - 128) * 2 ^ shl) (shl + 7)
  end.

Definition v64_unpack (buf : list N) : option N :=
  if N.of_nat (length buf) <? 10 then unpack_slow_loop buf 0 0 else unpack_fast (firstn 10 buf) 0 0.

(* u8::rotate_left(1) / rotate_right(1) *)
Definition rotl1 (c : N) : N := N.lor ((c * 2) mod 256) (c / 128).
Definition rotr1 (c : N) : N := N.lor (c / 2) ((c * 128) mod 256).

(* TupleKey::field_number: the tag bytes buf[0..sz] *)
Definition field_number (f : N) (k : kty) (d : dir) : list N :=
  let discriminant := to_discriminant k d in
  map rotl1 (v64_pack 10 (N.lor (f * 16) discriminant)).

(* FieldNumber::new *)
Definition field_number_valid (f : N) : bool :=
  (FIRST_FIELD_NUMBER <=? f) && (f <=? LAST_FIELD_NUMBER)
  && negb ((FIRST_RESERVED_FIELD_NUMBER <=? f) && (f <=? LAST_RESERVED_FIELD_NUMBER)).

(* TupleKey::unfield_number *)
Definition unfield_number (buf_in : list N) : option (N * kty * dir) :=
  if 10 <? N.of_nat (length buf_in) then None
  else match v64_unpack (map rotr1 buf_in) with
  | None => None
  | Some x =>
      match from_discriminant (N.land (x mod 256) 15) with
      | None => None
      | Some (k, d) =>
          if W32 - 1 <? x / 16 then None
          else if field_number_valid (x / 16) then Some (x / 16, k, d) else None
      end
  end.

(* ---- ordered.rs ---- *)
(* ord_encode_i32: (x as u32).wrapping_add(offset); both branches of `offset` are 2^31 *)
Definition ord_encode_i32 (x : Z) : N :=
  let offset := if (0 <=? x)%Z then DIVIDE_32 else 2147483648 (* i32::MIN as u32 *) in
  (Z.to_N (x mod Z.of_N W32) + offset) mod W32.
Definition ord_decode_i32 (x : N) : Z :=
  let offset := if DIVIDE_32 <=? x then DIVIDE_32 else 2147483648 in
  let u := Z.to_N ((Z.of_N x - Z.of_N offset) mod Z.of_N W32) in      (* wrapping_sub *)
  if u <? 2147483648 then Z.of_N u else (Z.of_N u - Z.of_N W32)%Z.     (* as i32 *)
Definition ord_encode_i64 (x : Z) : N :=
  let offset := if (0 <=? x)%Z then DIVIDE_64 else 9223372036854775808 (* i64::MIN as u64 *) in
  (Z.to_N (x mod Z.of_N W64) + offset) mod W64.
Definition ord_decode_i64 (x : N) : Z :=
  let offset := if DIVIDE_64 <=? x then DIVIDE_64 else 9223372036854775808 in
  let u := Z.to_N ((Z.of_N x - Z.of_N offset) mod Z.of_N W64) in
  if u <? 9223372036854775808 then Z.of_N u else (Z.of_N u - Z.of_N W64)%Z.

(* ---- Element impls ---- *)
(* <u32 as Element>::append_to *)
Definition append_u32 (x : N) : list N :=
  [ N.lor (x / 2 ^ 24) 1 mod 256;
    N.lor (x / 2 ^ 17) 1 mod 256;
    N.lor (x / 2 ^ 10) 1 mod 256;
    N.lor (x / 2 ^ 3) 1 mod 256;
    (N.land x 15 * 16) mod 256 ].

(* <u32 as Element>::parse_from (after the length check) *)
Definition elem_parse_u32 (buf : list N) : option N :=
  match buf with
  | [b0; b1; b2; b3; b4] =>
      Some (N.lor (N.lor (N.lor (N.lor
              ((N.land b0 254 * 2 ^ 24) mod W32)
              ((N.land b1 254 * 2 ^ 17) mod W32))
              ((N.land b2 254 * 2 ^ 10) mod W32))
              ((N.land b3 254 * 2 ^ 3) mod W32))
              (N.land b4 240 / 16))
  | _ => None
  end.

(* <u64 as Element>::append_to *)
Definition append_u64 (x : N) : list N :=
  [ N.lor (x / 2 ^ 56) 1 mod 256;
    N.lor (x / 2 ^ 49) 1 mod 256;
    N.lor (x / 2 ^ 42) 1 mod 256;
    N.lor (x / 2 ^ 35) 1 mod 256;
    N.lor (x / 2 ^ 28) 1 mod 256;
    N.lor (x / 2 ^ 21) 1 mod 256;
    N.lor (x / 2 ^ 14) 1 mod 256;
    N.lor (x / 2 ^ 7) 1 mod 256;
    N.lor x 1 mod 256;
    (N.land x 1 * 128) mod 256 ].

Definition elem_parse_u64 (buf : list N) : option N :=
  match buf with
  | [b0; b1; b2; b3; b4; b5; b6; b7; b8; b9] =>
      Some (N.lor (N.lor (N.lor (N.lor (N.lor (N.lor (N.lor (N.lor (N.lor
              ((N.land b0 254 * 2 ^ 56) mod W64)
              ((N.land b1 254 * 2 ^ 49) mod W64))
              ((N.land b2 254 * 2 ^ 42) mod W64))
              ((N.land b3 254 * 2 ^ 35) mod W64))
              ((N.land b4 254 * 2 ^ 28) mod W64))
              ((N.land b5 254 * 2 ^ 21) mod W64))
              ((N.land b6 254 * 2 ^ 14) mod W64))
              ((N.land b7 254 * 2 ^ 7) mod W64))
              (N.land b8 254))
              (N.land b9 128 / 128))
  | _ => None
  end.

(* Iterate7BitChunks::next on the state (unread bytes, remains, remains_bits) *)
Inductive it_res :=
| ItSome (c : N) (rest : list N) (remains rb : N)
| ItNone
| ItPanic.

Fixpoint it_next (rest : list N) (remains rb : N) : it_res :=
  if 7 <? rb then
    let x := N.land ((remains / 2 ^ (rb - 7)) mod 256) 127 in
    ItSome (N.lor ((x * 2) mod 256) 1) rest remains (rb - 7)
  else match rest with
  | b :: rest' =>
      (* remains <<= 8; remains |= byte; offset += 1; remains_bits += 8; self.next() *)
      it_next rest' (N.lor ((remains * 256) mod W64) b) (rb + 8)
  | [] =>
      if 0 <? rb then
        if rb <=? 7                                  (* assert!(self.remains_bits <= 7) *)
        then ItSome (((remains mod 256) * 2 ^ (8 - rb)) mod 256) [] remains 0
        else ItPanic
      else ItNone
  end.

(* TupleKey::append_bytes(iter): push until the iterator is exhausted *)
Fixpoint it_collect (fuel : nat) (rest : list N) (remains rb : N) : option (list N) :=
  match fuel with
  | O => None
  | S f =>
      match it_next rest remains rb with
      | ItSome c rest' remains' rb' =>
          match it_collect f rest' remains' rb' with
          | Some l => Some (c :: l)
          | None => None
          end
      | ItNone => Some []
      | ItPanic => None
      end
  end.

(* <String as Element>::append_to: the chunks, or a single 0 byte for the empty string *)
Definition append_string (s : list N) : option (list N) :=
  match it_collect (2 * length s + 2) s 0 0 with
  | Some [] => Some [0]
  | r => r
  end.

(* Combine7BitChunks::next: the while loop, then the emit test *)
Fixpoint cb_fill (rest : list N) (remains rb : N) : list N * N * N :=
  match rest with
  | c :: rest' =>
      if rb <? 8 then cb_fill rest' (N.lor ((remains * 128) mod W64) (c / 2)) (rb + 7)
      else (rest, remains, rb)
  | [] => (rest, remains, rb)
  end.

Definition cb_next (rest : list N) (remains rb : N) : option (N * (list N * N * N)) :=
  let '(rest', remains', rb') := cb_fill rest remains rb in
  if 8 <=? rb' then Some ((remains' / 2 ^ (rb' - 8)) mod 256, (rest', remains', rb' - 8))
  else None.

Fixpoint cb_collect (fuel : nat) (rest : list N) (remains rb : N) : option (list N) :=
  match fuel with
  | O => None
  | S f =>
      match cb_next rest remains rb with
      | Some (c, (rest', remains', rb')) =>
          match cb_collect f rest' remains' rb' with
          | Some l => Some (c :: l)
          | None => None
          end
      | None => Some []
      end
  end.

(* the element values *)
Inductive el1 :=
| V1Unit
| V1U32 (v : N)
| V1U64 (v : N)
| V1I32 (v : Z)
| V1I64 (v : Z)
| V1String (s : list N).     (* UTF-8 bytes of the String *)

Definition kty_of (e : el1) : kty :=
  match e with
  | V1Unit => KUnit | V1U32 _ => KFixed32 | V1U64 _ => KFixed64
  | V1I32 _ => KSfixed32 | V1I64 _ => KSfixed64 | V1String _ => KString
  end.

(* Element::append_to *)
Definition append_to (e : el1) : option (list N) :=
  match e with
  | V1Unit => Some [0]
  | V1U32 v => Some (append_u32 v)
  | V1U64 v => Some (append_u64 v)
  | V1I32 v => Some (append_u32 (ord_encode_i32 v))
  | V1I64 v => Some (append_u64 (ord_encode_i64 v))
  | V1String s => append_string s
  end.

(* fn reverse_encoding: each byte b becomes (!b & 0xfe) | (b & 0x1) *)
Definition reverse_byte (b : N) : N := N.lor (N.land (255 - b) 254) (N.land b 1).
Definition reverse_encoding (bytes : list N) : list N := map reverse_byte bytes.

(* one field of a tuple key: field number, direction, value *)
Record field1 := mkField { f_num : N; f_dir : dir; f_val : el1 }.

(* TupleKey::extend_with_key (TupleKey::extend(f) is the case KUnit/Forward) *)
Definition extend_with_key (buf : list N) (fl : field1) : option (list N) :=
  match append_to (f_val fl) with
  | Some v =>
      Some (buf ++ field_number (f_num fl) (kty_of (f_val fl)) (f_dir fl)
                ++ match f_dir fl with Reverse => reverse_encoding v | Forward => v end)
  | None => None
  end.

(* what a derived Into<TupleKey> does: extend_with_key field by field *)
Fixpoint encode1_from (buf : list N) (t : list field1) : option (list N) :=
  match t with
  | [] => Some buf
  | fl :: t' =>
      match extend_with_key buf fl with
      | Some buf' => encode1_from buf' t'
      | None => None
      end
  end.
Definition encode1 (t : list field1) : option (list N) := encode1_from [] t.

(* ---- TupleKeyIterator::next on the unread suffix: bytes with low bit 1, then one more *)
Fixpoint tki_scan (rest : list N) : list N * list N :=
  match rest with
  | [] => ([], [])
  | c :: r =>
      if negb (N.land c 1 =? 0) then let '(p, r') := tki_scan r in (c :: p, r')
      else ([c], r)
  end.
Definition tki_next (rest : list N) : option (list N * list N) :=
  match rest with
  | [] => None
  | _ => Some (tki_scan rest)
  end.

(* ---- parser *)
Inductive err1 :=
| NoMoreElements        (* "no more elements to TupleKey" *)
| TagMismatch           (* "tag does not match" *)
| MissingValue          (* "missing value element" *)
| UnitStructLength      (* "unit struct with length != 1" (parse_next) *)
| UnitLength            (* "unit not exactly 1 bytes" (<() as Element>::parse_from) *)
| BufNot5               (* "buf not exactly 5 bytes" *)
| BufNot10              (* "buf not exactly 10 bytes" *)
| InvalidUtf8_1.        (* "invalid UTF-8 sequence" *)

Inductive res1 (A : Type) :=
| Ok1 (a : A) | Err1 (e : err1) | Panic1.
Arguments Ok1 {A} a.
Arguments Err1 {A} e.
Arguments Panic1 {A}.

(* Element::parse_from *)
Definition parse_from (k : kty) (buf : list N) : res1 el1 :=
  match k with
  | KUnit => match buf with [_] => Ok1 V1Unit | _ => Err1 UnitLength end
  | KFixed32 => match elem_parse_u32 buf with Some v => Ok1 (V1U32 v) | None => Err1 BufNot5 end
  | KFixed64 => match elem_parse_u64 buf with Some v => Ok1 (V1U64 v) | None => Err1 BufNot10 end
  | KSfixed32 => match elem_parse_u32 buf with Some v => Ok1 (V1I32 (ord_decode_i32 v)) | None => Err1 BufNot5 end
  | KSfixed64 => match elem_parse_u64 buf with Some v => Ok1 (V1I64 (ord_decode_i64 v)) | None => Err1 BufNot10 end
  | KString =>
      match buf with
      | [_] => Ok1 (V1String [])
      | _ =>
          match cb_collect (length buf + 1) buf 0 0 with
          | Some s => if utf8_valid s then Ok1 (V1String s) else Err1 InvalidUtf8_1
          | None => Panic1
          end
      end
  end.

(* TupleKeyParser::parse_next_tag *)
Definition parse_next_tag (f : N) (k : kty) (d : dir) (rest : list N) : res1 (list N) :=
  match tki_next rest with
  | None => Err1 NoMoreElements
  | Some (elem, rest') =>
      if list_eq_dec N.eq_dec (field_number f k d) elem then Ok1 rest' else Err1 TagMismatch
  end.

(* TupleKeyParser::parse_next (unit fields of a derived struct) *)
Definition parse_next (f : N) (d : dir) (rest : list N) : res1 (el1 * list N) :=
  match parse_next_tag f KUnit d rest with
  | Ok1 rest' =>
      match tki_next rest' with
      | None => Err1 NoMoreElements
      | Some (pad, rest'') =>
          match pad with [_] => Ok1 (V1Unit, rest'') | _ => Err1 UnitStructLength end
      end
  | Err1 e => Err1 e
  | Panic1 => Panic1
  end.

(* TupleKeyParser::parse_next_with_key::<E> *)
Definition parse_next_with_key (f : N) (k : kty) (d : dir) (rest : list N) : res1 (el1 * list N) :=
  match parse_next_tag f k d rest with
  | Ok1 rest' =>
      match tki_next rest' with
      | None => Err1 MissingValue
      | Some (value, rest'') =>
          match parse_from k (match d with Reverse => reverse_encoding value | Forward => value end) with
          | Ok1 e => Ok1 (e, rest'')
          | Err1 e => Err1 e
          | Panic1 => Panic1
          end
      end
  | Err1 e => Err1 e
  | Panic1 => Panic1
  end.

(* the shape a derived TryFrom<TupleKey> walks: (field number, direction, type) per field;
   unit fields go through parse_next, the others through parse_next_with_key.  There is no
   end-of-key check: trailing bytes are ignored. *)
Record shape1 := mkShape { s_num : N; s_dir : dir; s_ty : kty }.
Definition shape_of (fl : field1) : shape1 := mkShape (f_num fl) (f_dir fl) (kty_of (f_val fl)).

Definition parse_field (unit_via_parse_next : bool) (s : shape1) (rest : list N) : res1 (el1 * list N) :=
  match s_ty s, unit_via_parse_next with
  | KUnit, true => parse_next (s_num s) (s_dir s) rest
  | k, _ => parse_next_with_key (s_num s) k (s_dir s) rest
  end.

Fixpoint decode1 (via : bool) (sh : list shape1) (rest : list N) : res1 (list el1) :=
  match sh with
  | [] => Ok1 []
  | s :: sh' =>
      match parse_field via s rest with
      | Ok1 (e, rest') =>
          match decode1 via sh' rest' with
          | Ok1 es => Ok1 (e :: es)
          | Err1 e => Err1 e
          | Panic1 => Panic1
          end
      | Err1 e => Err1 e
      | Panic1 => Panic1
      end
  end.

(* TupleKeyParser::peek_next: the next element as a tag, without consuming *)
Definition peek_next (rest : list N) : option (option (N * kty * dir)) :=
  match tki_next rest with
  | None => Some None                       (* Ok(None) *)
  | Some (elem, _) =>
      match unfield_number elem with
      | Some x => Some (Some x)
      | None => None                        (* Err("not a valid tag") *)
      end
  end.
