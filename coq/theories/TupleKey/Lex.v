(* TupleKey/Lex.v — the lemma library on byte-wise (lexicographic) comparison that the C16 proofs
   rest on.  `lex_cmp` is `<[u8] as Ord>::cmp` (and so `Vec<u8>`'s and the derived `Ord` of both
   `TupleKey` types).  `diverge a b` says that a and b differ at a position present in both, i.e.
   neither is a prefix of the other: appending anything to either then leaves the comparison
   unchanged.  That is the form of "prefix-freeness" every element encoding is shown to have. *)
From Coq Require Import NArith List Lia Bool.
Import ListNotations.
Open Scope N_scope.

Definition bytes_ok (l : list N) : Prop := Forall (fun b => b < 256) l.

Fixpoint lex_cmp (a b : list N) : comparison :=
  match a, b with
  | [], [] => Eq
  | [], _ :: _ => Lt
  | _ :: _, [] => Gt
  | x :: a', y :: b' => match x ?= y with Eq => lex_cmp a' b' | c => c end
  end.

Inductive diverge : list N -> list N -> Prop :=
| diverge_here : forall x y a b, x <> y -> diverge (x :: a) (y :: b)
| diverge_next : forall x a b, diverge a b -> diverge (x :: a) (x :: b).

Lemma lex_cmp_refl : forall a, lex_cmp a a = Eq.
Proof. induction a as [|x a IH]; cbn [lex_cmp]; [reflexivity|]. now rewrite N.compare_refl. Qed.

Lemma lex_cmp_eq : forall a b, lex_cmp a b = Eq -> a = b.
Proof.
  induction a as [|x a IH]; intros [|y b] H; cbn [lex_cmp] in H; try discriminate; [reflexivity|].
  destruct (x ?= y) eqn:E; try discriminate. apply N.compare_eq in E. subst. f_equal. now apply IH.
Qed.

Lemma lex_cmp_antisym : forall a b, lex_cmp b a = CompOpp (lex_cmp a b).
Proof.
  induction a as [|x a IH]; intros [|y b]; cbn [lex_cmp]; try reflexivity.
  rewrite (N.compare_antisym x y). destruct (x ?= y); cbn [CompOpp]; auto.
Qed.

Lemma lex_cmp_app_common : forall p a b, lex_cmp (p ++ a) (p ++ b) = lex_cmp a b.
Proof. induction p as [|x p IH]; intros; cbn [app lex_cmp]; [reflexivity|]. now rewrite N.compare_refl. Qed.

Lemma diverge_app_common : forall p a b, diverge a b -> diverge (p ++ a) (p ++ b).
Proof. induction p as [|x p IH]; intros; cbn [app]; [assumption|]. now apply diverge_next, IH. Qed.

Lemma diverge_app : forall a b s t, diverge a b -> diverge (a ++ s) (b ++ t).
Proof. induction 1; cbn [app]; [now apply diverge_here | now apply diverge_next]. Qed.

Lemma diverge_sym : forall a b, diverge a b -> diverge b a.
Proof. induction 1; [apply diverge_here; congruence | now apply diverge_next]. Qed.

Lemma diverge_lex_app : forall a b s t, diverge a b -> lex_cmp (a ++ s) (b ++ t) = lex_cmp a b.
Proof.
  induction 1 as [x y a b Hne | x a b _ IH]; cbn [app lex_cmp].
  - destruct (x ?= y) eqn:E; try reflexivity. apply N.compare_eq in E. contradiction.
  - now rewrite N.compare_refl.
Qed.

Lemma diverge_not_eq : forall a b, diverge a b -> lex_cmp a b <> Eq.
Proof.
  induction 1 as [x y a b Hne | x a b _ IH]; cbn [lex_cmp].
  - destruct (x ?= y) eqn:E; try discriminate. apply N.compare_eq in E. contradiction.
  - now rewrite N.compare_refl.
Qed.

Lemma diverge_neq : forall a b, diverge a b -> a <> b.
Proof. intros a b D E. subst. apply (diverge_not_eq b b D), lex_cmp_refl. Qed.

(* neither is a prefix of the other *)
Lemma diverge_not_prefix : forall a b s, diverge a b -> b <> a ++ s.
Proof.
  induction 1 as [x y a b Hne | x a b _ IH]; cbn [app]; intros E; inversion E; subst; auto.
Qed.

Lemma same_length_diverge : forall a b, length a = length b -> a <> b -> diverge a b.
Proof.
  induction a as [|x a IH]; intros [|y b] L Hne; cbn [length] in L; try discriminate; [congruence|].
  destruct (N.eq_dec x y) as [->|Hxy].
  - apply diverge_next, IH; [congruence|]. intros ->. now apply Hne.
  - now apply diverge_here.
Qed.

Lemma lex_cmp_prefix_lt : forall a x s, lex_cmp a (a ++ x :: s) = Lt.
Proof. induction a as [|y a IH]; intros; cbn [app lex_cmp]; [reflexivity|]. now rewrite N.compare_refl. Qed.

Lemma lex_cmp_cons_lt : forall x y a b, x < y -> lex_cmp (x :: a) (y :: b) = Lt.
Proof. intros. cbn [lex_cmp]. apply N.compare_lt_iff in H. now rewrite H. Qed.

Lemma lex_cmp_cons_gt : forall x y a b, y < x -> lex_cmp (x :: a) (y :: b) = Gt.
Proof. intros. cbn [lex_cmp]. apply N.compare_gt_iff in H. now rewrite H. Qed.

Lemma lex_cmp_cons_same : forall x a b, lex_cmp (x :: a) (x :: b) = lex_cmp a b.
Proof. intros. cbn [lex_cmp]. now rewrite N.compare_refl. Qed.

(* order-and-divergence in one statement: what every element encoding is shown to satisfy.
   `c` is the intended comparison of the two source values. *)
Definition cmp_div (a b : list N) (c : comparison) : Prop :=
  lex_cmp a b = c /\ (c <> Eq -> diverge a b) /\ (c = Eq -> a = b).

Lemma cmp_div_lt_here : forall x y a b, x < y -> cmp_div (x :: a) (y :: b) Lt.
Proof.
  intros. split; [now apply lex_cmp_cons_lt|]. split; [|discriminate].
  intros _. apply diverge_here. lia.
Qed.

Lemma cmp_div_gt_here : forall x y a b, y < x -> cmp_div (x :: a) (y :: b) Gt.
Proof.
  intros. split; [now apply lex_cmp_cons_gt|]. split; [|discriminate].
  intros _. apply diverge_here. lia.
Qed.

Lemma cmp_div_cons : forall x a b c, cmp_div a b c -> cmp_div (x :: a) (x :: b) c.
Proof.
  intros x a b c (H1 & H2 & H3). split; [now rewrite lex_cmp_cons_same|].
  split; [intros Hc; apply diverge_next; auto | intros Hc; f_equal; auto].
Qed.

Lemma cmp_div_app_common : forall p a b c, cmp_div a b c -> cmp_div (p ++ a) (p ++ b) c.
Proof. induction p as [|x p IH]; intros; cbn [app]; [assumption|]. now apply cmp_div_cons, IH. Qed.

Lemma cmp_div_refl : forall a, cmp_div a a Eq.
Proof. intros. split; [apply lex_cmp_refl|]. split; [congruence | reflexivity]. Qed.

Lemma cmp_div_sym : forall a b c, cmp_div a b c -> cmp_div b a (CompOpp c).
Proof.
  intros a b c (H1 & H2 & H3). split; [now rewrite lex_cmp_antisym, H1|].
  split.
  - intros Hc. apply diverge_sym, H2. destruct c; cbn in *; congruence.
  - intros Hc. symmetry. apply H3. destruct c; cbn in *; congruence.
Qed.

(* sequencing: first component decides unless equal, then the second *)
Lemma cmp_div_seq : forall a b c a' b' c',
  cmp_div a b c -> cmp_div a' b' c' ->
  cmp_div (a ++ a') (b ++ b') (match c with Eq => c' | _ => c end).
Proof.
  intros a b c a' b' c' (H1 & H2 & H3) H'.
  destruct c.
  - rewrite (H3 eq_refl). now apply cmp_div_app_common.
  - assert (D : diverge a b) by (apply H2; discriminate).
    split; [now rewrite diverge_lex_app|]. split; [intros _; now apply diverge_app | discriminate].
  - assert (D : diverge a b) by (apply H2; discriminate).
    split; [now rewrite diverge_lex_app|]. split; [intros _; now apply diverge_app | discriminate].
Qed.

(* equal-length lists: lexicographic order with divergence for free *)
Lemma cmp_div_same_length : forall a b, length a = length b -> cmp_div a b (lex_cmp a b).
Proof.
  intros a b L. split; [reflexivity|]. split.
  - intros Hc. apply same_length_diverge; [assumption|]. intros ->. now rewrite lex_cmp_refl in Hc.
  - apply lex_cmp_eq.
Qed.

(* ------------------------------------------------------------------ bit-reversal of bytes
   `hi_diverge a b`: a and b first differ at a common position, and there they differ in bits 7..1
   (the data bits of tuple_key v1); `lo_diverge`: they first differ in bit 0 only. *)
Inductive hi_diverge : list N -> list N -> Prop :=
| hi_here : forall x y a b, x / 2 <> y / 2 -> hi_diverge (x :: a) (y :: b)
| hi_next : forall x a b, hi_diverge a b -> hi_diverge (x :: a) (x :: b).

Inductive lo_diverge : list N -> list N -> Prop :=
| lo_here : forall x y a b, x / 2 = y / 2 -> x <> y -> lo_diverge (x :: a) (y :: b)
| lo_next : forall x a b, lo_diverge a b -> lo_diverge (x :: a) (x :: b).

Lemma hi_diverge_diverge : forall a b, hi_diverge a b -> diverge a b.
Proof. induction 1; [apply diverge_here; congruence | now apply diverge_next]. Qed.

Lemma lo_diverge_diverge : forall a b, lo_diverge a b -> diverge a b.
Proof. induction 1; [now apply diverge_here | now apply diverge_next]. Qed.

Lemma hi_diverge_app : forall a b s t, hi_diverge a b -> hi_diverge (a ++ s) (b ++ t).
Proof. induction 1; cbn [app]; [now apply hi_here | now apply hi_next]. Qed.

Lemma lo_diverge_app : forall a b s t, lo_diverge a b -> lo_diverge (a ++ s) (b ++ t).
Proof. induction 1; cbn [app]; [now apply lo_here | now apply lo_next]. Qed.

Lemma hi_diverge_app_common : forall p a b, hi_diverge a b -> hi_diverge (p ++ a) (p ++ b).
Proof. induction p; intros; cbn [app]; [assumption|]. now apply hi_next, IHp. Qed.

Lemma lo_diverge_app_common : forall p a b, lo_diverge a b -> lo_diverge (p ++ a) (p ++ b).
Proof. induction p; intros; cbn [app]; [assumption|]. now apply lo_next, IHp. Qed.

Lemma hi_diverge_sym : forall a b, hi_diverge a b -> hi_diverge b a.
Proof. induction 1; [apply hi_here; congruence | now apply hi_next]. Qed.

Lemma lo_diverge_sym : forall a b, lo_diverge a b -> lo_diverge b a.
Proof. induction 1; [apply lo_here; congruence | now apply lo_next]. Qed.

(* every divergence is one or the other *)
Lemma diverge_hi_or_lo : forall a b, diverge a b -> hi_diverge a b \/ lo_diverge a b.
Proof.
  induction 1 as [x y a b Hne | x a b _ IH].
  - destruct (N.eq_dec (x / 2) (y / 2)); [right; now apply lo_here | left; now apply hi_here].
  - destruct IH; [left; now apply hi_next | right; now apply lo_next].
Qed.

Lemma hi_lo_exclusive : forall a b, hi_diverge a b -> lo_diverge a b -> False.
Proof.
  induction 1 as [x y a b Hne | x a b _ IH]; intros L; inversion L; subst; auto.
Qed.
