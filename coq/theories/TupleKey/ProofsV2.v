(* TupleKey/ProofsV2.v — lemmas about the compact format (ModelV2): every element encoding is
   order-preserving and prefix-free (`cmp_div`), hence so are tuples; extension contiguity; the
   parser inverts the builder, accepts only what the builder produces, and never panics. *)
From Coq Require Import NArith ZArith List Lia ZifyN ZifyBool Bool.
From Blue Require Import Gen.Const_TupleKey TupleKey.Lex TupleKey.Bits TupleKey.ModelV2 TupleKey.ModelV1 TupleKey.Spec.
Import ListNotations.
Open Scope N_scope.
Ltac Zify.zify_post_hook ::= Z.to_euclidean_division_equations.

Arguments N.pow : simpl never.
Arguments N.div : simpl never.
Arguments N.modulo : simpl never.
Arguments N.mul : simpl never.
Arguments N.add : simpl never.
Arguments N.sub : simpl never.
Arguments N.log2 : simpl never.

(* ------------------------------------------------------------------ minimal_u64_len *)
Lemma pow256 : forall q, 256 ^ q = 2 ^ (8 * q).
Proof. intros. change 256 with (2 ^ 8). now rewrite <- N.pow_mul_r. Qed.

Lemma mlen_0 : minimal_u64_len 0 = 0.
Proof. reflexivity. Qed.

Lemma mlen_pos : forall v, v <> 0 -> minimal_u64_len v = N.log2 v / 8 + 1.
Proof. intros v H. unfold minimal_u64_len. destruct (N.eqb_spec v 0); [contradiction|reflexivity]. Qed.

Lemma mlen_bounds : forall v, v <> 0 ->
  256 ^ (minimal_u64_len v - 1) <= v < 256 ^ minimal_u64_len v.
Proof.
  intros v Hv. rewrite mlen_pos by assumption.
  assert (Hp : 0 < v) by lia.
  destruct (N.log2_spec v Hp) as [L1 L2].
  set (l := N.log2 v) in *. set (q := l / 8).
  assert (8 * q <= l < 8 * q + 8) by (unfold q; lia).
  replace (q + 1 - 1) with q by lia. rewrite !pow256. split.
  - apply N.le_trans with (2 ^ l); [apply N.pow_le_mono_r; lia | assumption].
  - apply N.lt_le_trans with (2 ^ N.succ l); [assumption | apply N.pow_le_mono_r; lia].
Qed.

Lemma mlen_unique : forall v n, 256 ^ (n - 1) <= v < 256 ^ n -> 1 <= n -> minimal_u64_len v = n.
Proof.
  intros v n [H1 H2] Hn.
  assert (Hv : v <> 0).
  { intros ->. assert (0 < 256 ^ (n - 1)) by (apply N.neq_0_lt_0, N.pow_nonzero; discriminate). lia. }
  destruct (mlen_bounds v Hv) as [B1 B2].
  set (m := minimal_u64_len v) in *.
  assert (Hm : 1 <= m) by (unfold m; rewrite mlen_pos by assumption; lia).
  destruct (N.lt_trichotomy m n) as [Hlt|[->|Hgt]]; [|reflexivity|].
  - exfalso. assert (256 ^ m <= 256 ^ (n - 1)) by (apply N.pow_le_mono_r; lia). lia.
  - exfalso. assert (256 ^ n <= 256 ^ (m - 1)) by (apply N.pow_le_mono_r; lia). lia.
Qed.

Lemma mlen_lt_pow : forall v, v < 256 ^ minimal_u64_len v.
Proof.
  intros v. destruct (N.eq_dec v 0) as [->|Hv]; [reflexivity|]. now apply mlen_bounds.
Qed.

Lemma mlen_le : forall v n, v < 256 ^ n -> minimal_u64_len v <= n.
Proof.
  intros v n Hv. destruct (N.eq_dec v 0) as [->|Hz]; [rewrite mlen_0; lia|].
  destruct (mlen_bounds v Hz) as [B1 _].
  destruct (N.le_gt_cases (minimal_u64_len v) n) as [|Hgt]; [assumption|exfalso].
  assert (256 ^ n <= 256 ^ (minimal_u64_len v - 1)) by (apply N.pow_le_mono_r; lia). lia.
Qed.

Lemma mlen_le_8 : forall v, v < W64 -> minimal_u64_len v <= 8.
Proof. intros v Hv. apply mlen_le. exact Hv. Qed.

Lemma mlen_mono : forall v w, v <= w -> minimal_u64_len v <= minimal_u64_len w.
Proof.
  intros v w H. apply mlen_le. pose proof (mlen_lt_pow w). lia.
Qed.

Lemma mlen_zero_iff : forall v, minimal_u64_len v = 0 <-> v = 0.
Proof.
  intros v. split; [|intros ->; reflexivity].
  intros H. destruct (N.eq_dec v 0); [assumption|]. rewrite mlen_pos in H by assumption. lia.
Qed.

Lemma le8_cases : forall n, n <= 8 ->
  n = 0 \/ n = 1 \/ n = 2 \/ n = 3 \/ n = 4 \/ n = 5 \/ n = 6 \/ n = 7 \/ n = 8.
Proof. intros. lia. Qed.

(* ------------------------------------------------------------------ big-endian bytes *)
Lemma be_bytes_digits : forall n v, be_bytes n v = be_digits 256 n v.
Proof. induction n; intros; cbn [be_bytes be_digits]; [reflexivity|]. now rewrite IHn. Qed.

Lemma be_bytes_length : forall n v, length (be_bytes n v) = n.
Proof. intros. rewrite be_bytes_digits. apply be_digits_length. Qed.

Lemma be_bytes_ok : forall n v, bytes_ok (be_bytes n v).
Proof. intros. rewrite be_bytes_digits. apply be_digits_bound. discriminate. Qed.

Lemma skipn_be_bytes : forall k n v, skipn k (be_bytes (k + n) v) = be_bytes n v.
Proof. induction k; intros; cbn [Nat.add be_bytes skipn]; auto. Qed.

Lemma be_suffix_spec : forall v len, len <= 8 -> be_suffix v len = be_bytes (N.to_nat len) v.
Proof.
  intros v len H. unfold be_suffix.
  replace 8%nat with ((8 - N.to_nat len) + N.to_nat len)%nat at 2 by lia.
  apply skipn_be_bytes.
Qed.

Lemma be_bytes_cmp : forall n v w, v < 256 ^ N.of_nat n -> w < 256 ^ N.of_nat n ->
  cmp_div (be_bytes n v) (be_bytes n w) (v ?= w).
Proof.
  intros n v w Hv Hw.
  rewrite <- (be_digits_cmp_id 256 ltac:(lia) n v w Hv Hw), <- !be_bytes_digits.
  apply cmp_div_same_length. now rewrite !be_bytes_length.
Qed.

Lemma be_bytes_mod : forall n v, be_bytes n (v mod 256 ^ N.of_nat n) = be_bytes n v.
Proof. intros. rewrite !be_bytes_digits. apply be_digits_mod. discriminate. Qed.

Lemma be_value_val : forall l, be_value l = be_val 256 l.
Proof. reflexivity. Qed.

Lemma be_value_bytes : forall n v, be_value (be_bytes n v) = v mod 256 ^ N.of_nat n.
Proof. intros. rewrite be_value_val, be_bytes_digits. apply be_val_digits. lia. Qed.

Lemma be_bytes_value : forall l, bytes_ok l -> be_bytes (length l) (be_value l) = l.
Proof. intros. rewrite be_value_val, be_bytes_digits. apply be_digits_val; [lia|assumption]. Qed.

Lemma be_value_bound : forall l, bytes_ok l -> be_value l < 256 ^ N.of_nat (length l).
Proof. intros. rewrite be_value_val. now apply be_val_bound. Qed.

(* ------------------------------------------------------------------ unsigned *)
Lemma encode_u64_spec : forall v, v < W64 ->
  encode_u64 v = (UNSIGNED_BASE + minimal_u64_len v) :: be_bytes (N.to_nat (minimal_u64_len v)) v.
Proof. intros v Hv. unfold encode_u64. now rewrite be_suffix_spec by (now apply mlen_le_8). Qed.

Lemma tagged_lt : forall base v w, v < w ->
  cmp_div ((base + minimal_u64_len v) :: be_bytes (N.to_nat (minimal_u64_len v)) v)
          ((base + minimal_u64_len w) :: be_bytes (N.to_nat (minimal_u64_len w)) w) Lt.
Proof.
  intros base v w H.
  assert (M : minimal_u64_len v <= minimal_u64_len w) by (apply mlen_mono; lia).
  destruct (N.eq_dec (minimal_u64_len v) (minimal_u64_len w)) as [E|NE].
  - rewrite <- E. apply cmp_div_cons.
    replace Lt with (v ?= w) by (now apply N.compare_lt_iff).
    apply be_bytes_cmp; rewrite Nnat.N2Nat.id; [apply mlen_lt_pow | rewrite E; apply mlen_lt_pow].
  - apply cmp_div_lt_here. lia.
Qed.

Lemma cmp_div_of_lt : forall (A : Type) (enc : A -> list N) (cmp : A -> A -> comparison)
  (P : A -> Prop),
  (forall a b, P a -> P b -> cmp a b = Lt -> cmp_div (enc a) (enc b) Lt) ->
  (forall a b, P a -> P b -> cmp a b = Eq -> enc a = enc b) ->
  (forall a b, cmp b a = CompOpp (cmp a b)) ->
  forall a b, P a -> P b -> cmp_div (enc a) (enc b) (cmp a b).
Proof.
  intros A enc cmp P Hlt Heq Hanti a b Pa Pb.
  destruct (cmp a b) eqn:E.
  - rewrite (Heq a b Pa Pb E). apply cmp_div_refl.
  - now apply Hlt.
  - change Gt with (CompOpp Lt). apply cmp_div_sym. apply Hlt; auto.
    rewrite Hanti, E. reflexivity.
Qed.

Lemma encode_u64_cmp : forall v w, v < W64 -> w < W64 ->
  cmp_div (encode_u64 v) (encode_u64 w) (v ?= w).
Proof.
  apply (cmp_div_of_lt N encode_u64 N.compare (fun v => v < W64)).
  - intros a b Ha Hb E. apply N.compare_lt_iff in E.
    rewrite !encode_u64_spec by assumption. now apply tagged_lt.
  - intros a b _ _ E. apply N.compare_eq in E. now subst.
  - intros. apply N.compare_antisym.
Qed.

(* ------------------------------------------------------------------ signed *)
Definition i64_ok (v : Z) : Prop := (- 2 ^ 63 <= v < 2 ^ 63)%Z.

Lemma encode_i64_nonneg : forall v, (0 <= v)%Z -> i64_ok v ->
  encode_i64 v = (SIGNED_NONNEG_BASE + minimal_u64_len (Z.to_N v))
                 :: be_bytes (N.to_nat (minimal_u64_len (Z.to_N v))) (Z.to_N v).
Proof.
  intros v H0 Hok. unfold encode_i64.
  destruct (Z.ltb_spec v 0); [lia|].
  rewrite be_suffix_spec; [reflexivity|]. apply mlen_le_8. unfold i64_ok, W64 in *. lia.
Qed.

(* for a negative value: magnitude m = -v-1; the payload is the low `len` bytes of !m *)
Lemma not64_low : forall m n, n <= 8 -> m < 256 ^ n -> (not64 m) mod 256 ^ n = 256 ^ n - 1 - m.
Proof.
  intros m n Hn Hm. unfold not64, W64.
  destruct (le8_cases n Hn) as [->|[->|[->|[->|[->|[->|[->|[->| ->]]]]]]]];
    change (256 ^ 0) with 1 in *; change (256 ^ 1) with 256 in *;
    change (256 ^ 2) with 65536 in *; change (256 ^ 3) with 16777216 in *;
    change (256 ^ 4) with 4294967296 in *; change (256 ^ 5) with 1099511627776 in *;
    change (256 ^ 6) with 281474976710656 in *; change (256 ^ 7) with 72057594037927936 in *;
    change (256 ^ 8) with 18446744073709551616 in *; lia.
Qed.

Definition neg_mag (v : Z) : N := Z.to_N (- v - 1).

Lemma encode_i64_neg : forall v, (v < 0)%Z -> i64_ok v ->
  encode_i64 v = (SIGNED_NEG_BASE + (8 - minimal_u64_len (neg_mag v)))
                 :: be_bytes (N.to_nat (minimal_u64_len (neg_mag v)))
                      (256 ^ minimal_u64_len (neg_mag v) - 1 - neg_mag v).
Proof.
  intros v H0 Hok. unfold encode_i64.
  destruct (Z.ltb_spec v 0); [|lia].
  assert (Hm : not64 (Z.to_N (v mod Z.of_N W64)) = neg_mag v).
  { unfold not64, neg_mag, W64, i64_ok in *. lia. }
  rewrite Hm. set (m := neg_mag v). set (len := minimal_u64_len m).
  assert (Hm64 : m < W64) by (unfold m, neg_mag, W64, i64_ok in *; lia).
  assert (Hlen : len <= 8) by (now apply mlen_le_8).
  f_equal.
  destruct (N.ltb_spec 0 len) as [Hpos|Hz].
  - rewrite be_suffix_spec by assumption.
    rewrite <- be_bytes_mod. rewrite Nnat.N2Nat.id.
    rewrite not64_low; [reflexivity | assumption | apply mlen_lt_pow].
  - assert (len = 0) by lia. rewrite H1. reflexivity.
Qed.

Lemma tag_ranges :
  SIGNED_NEG_BASE + 8 = SIGNED_NEG_LAST /\ SIGNED_NEG_LAST < SIGNED_NONNEG_BASE /\
  SIGNED_NONNEG_BASE + 8 = SIGNED_NONNEG_LAST /\ SIGNED_NONNEG_LAST < UNSIGNED_BASE /\
  UNSIGNED_BASE + 8 = UNSIGNED_LAST /\ UNSIGNED_LAST < UNIT_TAG /\ UNIT_TAG < 256 /\ 0 < SIGNED_NEG_BASE.
Proof. vm_compute. repeat split; reflexivity. Qed.

Lemma encode_i64_lt : forall v w, i64_ok v -> i64_ok w -> (v < w)%Z ->
  cmp_div (encode_i64 v) (encode_i64 w) Lt.
Proof.
  intros v w Hv Hw H.
  destruct (Z.ltb_spec v 0) as [Nv|Pv]; destruct (Z.ltb_spec w 0) as [Nw|Pw]; try lia.
  - (* both negative *)
    rewrite !encode_i64_neg by assumption.
    set (mv := neg_mag v). set (mw := neg_mag w).
    assert (Hm : mw < mv) by (unfold mv, mw, neg_mag; lia).
    assert (B8 : mv < W64) by (unfold mv, neg_mag, W64, i64_ok in *; lia).
    assert (L8 : minimal_u64_len mv <= 8) by (now apply mlen_le_8).
    assert (M : minimal_u64_len mw <= minimal_u64_len mv) by (apply mlen_mono; lia).
    destruct (N.eq_dec (minimal_u64_len mw) (minimal_u64_len mv)) as [E|NE].
    + rewrite E. apply cmp_div_cons.
      set (n := minimal_u64_len mv) in *.
      pose proof (mlen_lt_pow mv) as Bv. pose proof (mlen_lt_pow mw) as Bw. rewrite E in Bw. fold n in Bv, Bw.
      replace Lt with (256 ^ n - 1 - mv ?= 256 ^ n - 1 - mw) by (apply N.compare_lt_iff; lia).
      apply be_bytes_cmp; rewrite Nnat.N2Nat.id; lia.
    + apply cmp_div_lt_here. lia.
  - (* negative < non-negative: the tag ranges are disjoint and ordered *)
    rewrite encode_i64_neg, encode_i64_nonneg by (assumption || lia).
    apply cmp_div_lt_here. pose proof tag_ranges. lia.
  - (* both non-negative *)
    rewrite !encode_i64_nonneg by (assumption || lia).
    apply tagged_lt. lia.
Qed.

Lemma encode_i64_cmp : forall v w, i64_ok v -> i64_ok w ->
  cmp_div (encode_i64 v) (encode_i64 w) (v ?= w)%Z.
Proof.
  apply (cmp_div_of_lt Z encode_i64 Z.compare i64_ok).
  - intros a b Ha Hb E. apply encode_i64_lt; [assumption|assumption|exact E].
  - intros a b _ _ E. apply Z.compare_eq in E. now subst.
  - intros. apply Z.compare_antisym.
Qed.

(* ------------------------------------------------------------------ bytes *)
Lemma encode_bytes_cmp : forall a b, cmp_div (encode_bytes a) (encode_bytes b) (lex_cmp a b).
Proof.
  induction a as [|x a IH]; intros [|y b]; cbn [encode_bytes lex_cmp].
  - apply cmp_div_refl.
  - destruct (N.eqb_spec y 0) as [->|Hy].
    + apply cmp_div_cons. apply cmp_div_lt_here. lia.
    + apply cmp_div_lt_here. lia.
  - destruct (N.eqb_spec x 0) as [->|Hx].
    + apply cmp_div_cons. apply cmp_div_gt_here. lia.
    + apply cmp_div_gt_here. lia.
  - destruct (N.compare_spec x y) as [->|Hlt|Hgt].
    + destruct (N.eqb_spec y 0); repeat apply cmp_div_cons; apply IH.
    + destruct (N.eqb_spec x 0) as [->|Hx]; destruct (N.eqb_spec y 0) as [->|Hy];
        try lia; apply cmp_div_lt_here; lia.
    + destruct (N.eqb_spec x 0) as [->|Hx]; destruct (N.eqb_spec y 0) as [->|Hy];
        try lia; apply cmp_div_gt_here; lia.
Qed.

(* ------------------------------------------------------------------ elements and tuples *)
Lemma width_pow64 : forall bits v, width_ok bits -> v < 2 ^ bits -> v < W64.
Proof.
  intros bits v [->|[->|[->| ->]]] H; unfold W64;
    [change (2 ^ 8) with 256 in H | change (2 ^ 16) with 65536 in H
    | change (2 ^ 32) with 4294967296 in H | change (2 ^ 64) with 18446744073709551616 in H]; lia.
Qed.

Lemma width_i64 : forall bits v, width_ok bits ->
  (- Z.of_N (2 ^ (bits - 1)) <= v < Z.of_N (2 ^ (bits - 1)))%Z -> i64_ok v.
Proof.
  intros bits v [->|[->|[->| ->]]] H; unfold i64_ok;
    [change (2 ^ (8 - 1)) with 128 in H | change (2 ^ (16 - 1)) with 32768 in H
    | change (2 ^ (32 - 1)) with 2147483648 in H
    | change (2 ^ (64 - 1)) with 9223372036854775808 in H]; lia.
Qed.

Lemma encode_el2_cmp : forall a b, wf_el2 a -> wf_el2 b -> ty_of2 a = ty_of2 b ->
  cmp_div (encode_el2 a) (encode_el2 b) (cmp_el2 a b).
Proof.
  intros a b Wa Wb T.
  destruct a, b; cbn [ty_of2] in T; try discriminate; cbn [encode_el2 cmp_el2 wf_el2] in *.
  - apply cmp_div_refl.
  - apply encode_bytes_cmp.
  - apply encode_bytes_cmp.
  - inversion T; subst. destruct Wa as [Wa1 Wa2], Wb as [Wb1 Wb2].
    apply encode_u64_cmp; [exact (width_pow64 _ _ Wa1 Wa2) | exact (width_pow64 _ _ Wb1 Wb2)].
  - inversion T; subst. destruct Wa as [Wa1 Wa2], Wb as [Wb1 Wb2].
    apply encode_i64_cmp; [exact (width_i64 _ _ Wa1 Wa2) | exact (width_i64 _ _ Wb1 Wb2)].
Qed.

Lemma tuple2_cmp : forall t u, wf2 t -> wf2 u -> same_shape2 t u ->
  cmp_div (encode2 t) (encode2 u) (tuple_cmp2 t u).
Proof.
  unfold same_shape2, encode2.
  induction t as [|a t IH]; intros [|b u] Wt Wu S; cbn [map] in S; try discriminate.
  - apply cmp_div_refl.
  - injection S as Sa St.
    apply Forall_cons_iff in Wt. destruct Wt as [Wa Wt].
    apply Forall_cons_iff in Wu. destruct Wu as [Wb Wu].
    cbn [flat_map tuple_cmp2].
    pose proof (encode_el2_cmp a b Wa Wb Sa) as He.
    pose proof (IH u Wt Wu St) as Ht.
    pose proof (cmp_div_seq _ _ _ _ _ _ He Ht) as Hs.
    destruct (cmp_el2 a b); exact Hs.
Qed.

Lemma encode2_app : forall t e, encode2 (t ++ e) = encode2 t ++ encode2 e.
Proof. intros. unfold encode2. apply flat_map_app. Qed.

Lemma encode_bytes_nonempty : forall b, encode_bytes b <> [].
Proof. destruct b as [|x b]; cbn [encode_bytes]; [discriminate|]. destruct (x =? 0); discriminate. Qed.

Lemma encode_el2_nonempty : forall e, encode_el2 e <> [].
Proof.
  destruct e; cbn [encode_el2]; try discriminate; try apply encode_bytes_nonempty.
  unfold encode_i64. destruct (v <? 0)%Z; discriminate.
Qed.

Lemma encode2_nonempty : forall e, e <> [] -> encode2 e <> [].
Proof.
  intros [|x e] H; [contradiction|]. unfold encode2. cbn [flat_map].
  pose proof (encode_el2_nonempty x). destruct (encode_el2 x); [contradiction|discriminate].
Qed.

(* ------------------------------------------------------------------ extension *)
Lemma cmp_div_lt_ext : forall A B X Y, cmp_div A B Lt -> lex_cmp (A ++ X) (B ++ Y) = Lt.
Proof.
  intros A B X Y (H1 & H2 & _). rewrite diverge_lex_app; [assumption|]. apply H2. discriminate.
Qed.

Lemma cmp_div_gt_ext : forall A B X Y, cmp_div A B Gt -> lex_cmp (A ++ X) (B ++ Y) = Gt.
Proof.
  intros A B X Y (H1 & H2 & _). rewrite diverge_lex_app; [assumption|]. apply H2. discriminate.
Qed.

Lemma lex_prefix_lt : forall A X, X <> [] -> lex_cmp A (A ++ X) = Lt.
Proof. intros A [|x X] H; [contradiction|]. apply lex_cmp_prefix_lt. Qed.

(* ------------------------------------------------------------------ decoding what was encoded *)
Lemma firstn_skipn_app : forall (l1 l2 : list N) n, n = length l1 ->
  firstn n (l1 ++ l2) = l1 /\ skipn n (l1 ++ l2) = l2.
Proof.
  induction l1 as [|x l1 IH]; intros l2 n ->; cbn [length app firstn skipn]; [auto|].
  destruct (IH l2 _ eq_refl) as [-> ->]. auto.
Qed.

Lemma take_payload_app : forall p rest, 
  take_payload (N.of_nat (length p)) (p ++ rest) = Ok (p, rest).
Proof.
  intros p rest. unfold take_payload.
  rewrite app_length. destruct (N.leb_spec (N.of_nat (length p)) (N.of_nat (length p + length rest))); [|lia].
  rewrite Nnat.Nat2N.id. destruct (firstn_skipn_app p rest _ eq_refl) as [-> ->]. reflexivity.
Qed.

Lemma decode_u64_payload_bytes : forall v, v < W64 ->
  decode_u64_payload (be_bytes (N.to_nat (minimal_u64_len v)) v) = Ok v.
Proof.
  intros v Hv. unfold decode_u64_payload, decode_big_endian_payload.
  pose proof (mlen_le_8 v Hv) as L8.
  rewrite be_bytes_length, Nnat.N2Nat.id.
  destruct (N.ltb_spec 8 (minimal_u64_len v)); [lia|].
  rewrite be_value_bytes, Nnat.N2Nat.id, N.mod_small by apply mlen_lt_pow.
  now rewrite N.eqb_refl.
Qed.

Lemma parse_u64_encode : forall v rest, v < W64 -> parse_u64 (encode_u64 v ++ rest) = Ok (v, rest).
Proof.
  intros v rest Hv. rewrite encode_u64_spec by assumption.
  pose proof (mlen_le_8 v Hv) as L8. pose proof tag_ranges as TR.
  unfold parse_u64. cbn [app take_one]. unfold unsigned_len, in_rng.
  destruct (N.leb_spec UNSIGNED_BASE (UNSIGNED_BASE + minimal_u64_len v)); [|lia].
  destruct (N.leb_spec (UNSIGNED_BASE + minimal_u64_len v) UNSIGNED_LAST); [|lia].
  cbn [andb]. replace (UNSIGNED_BASE + minimal_u64_len v - UNSIGNED_BASE) with (minimal_u64_len v) by lia.
  set (p := be_bytes (N.to_nat (minimal_u64_len v)) v).
  replace (minimal_u64_len v) with (N.of_nat (length p)) at 1
    by (unfold p; rewrite be_bytes_length; apply Nnat.N2Nat.id).
  rewrite take_payload_app. unfold p. now rewrite decode_u64_payload_bytes.
Qed.

Lemma parse_bytes_loop_encode : forall b rest acc,
  parse_bytes_loop (encode_bytes b ++ rest) acc = Ok (acc ++ b, rest).
Proof.
  induction b as [|x b IH]; intros rest acc; cbn [encode_bytes app parse_bytes_loop].
  - cbn. now rewrite app_nil_r.
  - destruct (N.eqb_spec x 0) as [->|Hx]; cbn [app parse_bytes_loop].
    + cbn. rewrite IH. now rewrite <- app_assoc.
    + destruct (N.eqb_spec x 0); [contradiction|]. rewrite IH. now rewrite <- app_assoc.
Qed.

Lemma parse_bytes_encode : forall b rest, parse_bytes (encode_bytes b ++ rest) = Ok (b, rest).
Proof. intros. unfold parse_bytes. now rewrite parse_bytes_loop_encode. Qed.

Lemma land_mask : forall x len, len <= 8 ->
  N.land x (if len =? 8 then W64 - 1 else 2 ^ (len * 8) - 1) = x mod 256 ^ len.
Proof.
  intros x len H. rewrite pow256, (N.mul_comm 8 len).
  destruct (N.eqb_spec len 8) as [->|]; [|apply land_ones_mod].
  change (W64 - 1) with (2 ^ (8 * 8) - 1). apply land_ones_mod.
Qed.

Lemma decode_negative_payload_bytes : forall v, (v < 0)%Z -> i64_ok v ->
  decode_negative_i64_payload
    (be_bytes (N.to_nat (minimal_u64_len (neg_mag v))) (256 ^ minimal_u64_len (neg_mag v) - 1 - neg_mag v))
  = Ok v.
Proof.
  intros v Hneg Hok. set (m := neg_mag v). set (len := minimal_u64_len m).
  assert (Hm64 : m < W64) by (unfold m, neg_mag, W64, i64_ok in *; lia).
  assert (HmI : m <= I64_MAX) by (unfold m, neg_mag, I64_MAX, i64_ok in *; lia).
  assert (Hlen : len <= 8) by (now apply mlen_le_8).
  pose proof (mlen_lt_pow m) as Bm. fold len in Bm.
  unfold decode_negative_i64_payload. rewrite be_bytes_length, Nnat.N2Nat.id.
  assert (Hmag :
    match be_bytes (N.to_nat len) (256 ^ len - 1 - m) with
    | [] => Ok 0
    | _ :: _ =>
        match decode_big_endian_payload (be_bytes (N.to_nat len) (256 ^ len - 1 - m)) with
        | Ok encoded => Ok (N.land (not64 encoded) (if len =? 8 then W64 - 1 else 2 ^ (len * 8) - 1))
        | Err e => Err e
        | Panic => Panic
        end
    end = Ok m).
  { destruct (N.eq_dec len 0) as [Hz|Hnz].
    - assert (Hm0 : m = 0) by (apply mlen_zero_iff; exact Hz).
      rewrite Hz. cbn [N.to_nat be_bytes]. now rewrite Hm0.
    - destruct (be_bytes (N.to_nat len) (256 ^ len - 1 - m)) eqn:Eb.
      + apply (f_equal (@length N)) in Eb. rewrite be_bytes_length in Eb. cbn in Eb. lia.
      + rewrite <- Eb. unfold decode_big_endian_payload.
        rewrite be_bytes_length, Nnat.N2Nat.id. destruct (N.ltb_spec 8 len); [lia|].
        rewrite be_value_bytes, Nnat.N2Nat.id.
        rewrite (N.mod_small (256 ^ len - 1 - m)) by lia.
        rewrite land_mask by assumption. rewrite not64_low by (assumption || lia).
        f_equal. lia. }
  rewrite Hmag. fold len. rewrite N.eqb_refl. cbn [negb].
  destruct (N.ltb_spec I64_MAX m); [lia|]. f_equal. unfold m, neg_mag. lia.
Qed.

Lemma parse_i64_encode : forall v rest, i64_ok v -> parse_i64 (encode_i64 v ++ rest) = Ok (v, rest).
Proof.
  intros v rest Hok. pose proof tag_ranges as TR.
  destruct (Z.ltb_spec v 0) as [Hneg|Hpos].
  - rewrite encode_i64_neg by assumption.
    set (m := neg_mag v). set (len := minimal_u64_len m).
    assert (Hm64 : m < W64) by (unfold m, neg_mag, W64, i64_ok in *; lia).
    assert (Hlen : len <= 8) by (now apply mlen_le_8).
    unfold parse_i64. cbn [app take_one]. unfold signed_negative_len, in_rng.
    destruct (N.leb_spec SIGNED_NEG_BASE (SIGNED_NEG_BASE + (8 - len))); [|lia].
    destruct (N.leb_spec (SIGNED_NEG_BASE + (8 - len)) SIGNED_NEG_LAST); [|lia].
    cbn [andb]. replace (8 - (SIGNED_NEG_BASE + (8 - len) - SIGNED_NEG_BASE)) with len by lia.
    set (p := be_bytes (N.to_nat len) (256 ^ len - 1 - m)).
    replace len with (N.of_nat (length p)) at 1 by (unfold p; rewrite be_bytes_length; apply Nnat.N2Nat.id).
    rewrite take_payload_app. unfold p, len, m. now rewrite decode_negative_payload_bytes.
  - rewrite encode_i64_nonneg by assumption.
    set (u := Z.to_N v). set (len := minimal_u64_len u).
    assert (Hu64 : u < W64) by (unfold u, W64, i64_ok in *; lia).
    assert (Hlen : len <= 8) by (now apply mlen_le_8).
    unfold parse_i64. cbn [app take_one]. unfold signed_negative_len, signed_nonnegative_len, in_rng.
    destruct (N.leb_spec (SIGNED_NONNEG_BASE + len) SIGNED_NEG_LAST); [lia|].
    rewrite andb_false_r.
    destruct (N.leb_spec SIGNED_NONNEG_BASE (SIGNED_NONNEG_BASE + len)); [|lia].
    destruct (N.leb_spec (SIGNED_NONNEG_BASE + len) SIGNED_NONNEG_LAST); [|lia].
    cbn [andb]. replace (SIGNED_NONNEG_BASE + len - SIGNED_NONNEG_BASE) with len by lia.
    set (p := be_bytes (N.to_nat len) u).
    replace len with (N.of_nat (length p)) at 1 by (unfold p; rewrite be_bytes_length; apply Nnat.N2Nat.id).
    rewrite take_payload_app. unfold p, len, decode_nonnegative_i64_payload.
    rewrite decode_u64_payload_bytes by assumption.
    destruct (N.leb_spec u I64_MAX); [|unfold u, I64_MAX, i64_ok in *; lia].
    f_equal. f_equal. unfold u. lia.
Qed.

Lemma parse_el2_encode : forall e rest, wf_el2 e ->
  parse_el2 (ty_of2 e) (encode_el2 e ++ rest) = Ok (e, rest).
Proof.
  intros e rest W. destruct e; cbn [ty_of2 encode_el2 parse_el2 wf_el2] in *.
  - unfold parse_unit. cbn [app take_one]. now rewrite N.eqb_refl.
  - now rewrite parse_bytes_encode.
  - unfold parse_string. rewrite parse_bytes_encode. destruct W as [_ ->]. reflexivity.
  - destruct W as [W1 W2]. unfold parse_u_as.
    rewrite parse_u64_encode by (exact (width_pow64 _ _ W1 W2)).
    destruct (N.ltb_spec v (2 ^ bits)); [reflexivity|lia].
  - destruct W as [W1 W2]. unfold parse_i_as.
    rewrite parse_i64_encode by (exact (width_i64 _ _ W1 W2)).
    destruct (Z.leb_spec (- Z.of_N (2 ^ (bits - 1))) v); [|lia].
    destruct (Z.ltb_spec v (Z.of_N (2 ^ (bits - 1)))); [|lia]. reflexivity.
Qed.

Lemma decode2_encode_app : forall t, wf2 t -> forall rest tys',
  decode2 (map ty_of2 t ++ tys') (encode2 t ++ rest) =
  match decode2 tys' rest with Ok es => Ok (t ++ es) | Err e => Err e | Panic => Panic end.
Proof.
  induction t as [|e t IH]; intros W rest tys'.
  - cbn [map app encode2 flat_map]. destruct (decode2 tys' rest); reflexivity.
  - apply Forall_cons_iff in W. destruct W as [We Wt].
    cbn [map app decode2]. unfold encode2. cbn [flat_map]. rewrite <- app_assoc.
    rewrite parse_el2_encode by assumption. fold (encode2 t).
    rewrite IH by assumption. destruct (decode2 tys' rest); reflexivity.
Qed.

Lemma decode2_encode : forall t, wf2 t -> decode2 (map ty_of2 t) (encode2 t) = Ok t.
Proof.
  intros t W. pose proof (decode2_encode_app t W [] []) as H.
  rewrite !app_nil_r in H. rewrite H. cbn [decode2]. now rewrite app_nil_r.
Qed.

(* ------------------------------------------------------------------ no panic on any bytes *)
Lemma take_payload_length : forall len rest p r, take_payload len rest = Ok (p, r) ->
  N.of_nat (length p) = len.
Proof.
  intros len rest p r. unfold take_payload.
  destruct (N.leb_spec len (N.of_nat (length rest))); [|discriminate].
  intros Hx. injection Hx as <- _. rewrite firstn_length. lia.
Qed.

Lemma decode_be_no_panic : forall p, N.of_nat (length p) <= 8 -> decode_big_endian_payload p = Ok (be_value p).
Proof.
  intros p H. unfold decode_big_endian_payload. destruct (N.ltb_spec 8 (N.of_nat (length p))); [lia|reflexivity].
Qed.

Lemma parse_u64_no_panic : forall rest, parse_u64 rest <> Panic.
Proof.
  intros rest. unfold parse_u64. destruct rest as [|tag r]; cbn [take_one]; [discriminate|].
  unfold unsigned_len, in_rng.
  destruct ((UNSIGNED_BASE <=? tag) && (tag <=? UNSIGNED_LAST)) eqn:E; [|discriminate].
  apply andb_true_iff in E. destruct E as [E1 E2]. apply N.leb_le in E1, E2.
  destruct (take_payload (tag - UNSIGNED_BASE) r) as [[p r']|e|] eqn:T; try discriminate.
  - apply take_payload_length in T. pose proof tag_ranges.
    unfold decode_u64_payload. rewrite decode_be_no_panic by lia.
    destruct (minimal_u64_len (be_value p) =? N.of_nat (length p)); discriminate.
  - unfold take_payload in T. destruct (_ <=? _) in T; discriminate.
Qed.

Lemma parse_i64_no_panic : forall rest, parse_i64 rest <> Panic.
Proof.
  intros rest. unfold parse_i64. destruct rest as [|tag r]; cbn [take_one]; [discriminate|].
  pose proof tag_ranges as TR.
  unfold signed_negative_len, signed_nonnegative_len, in_rng.
  destruct ((SIGNED_NEG_BASE <=? tag) && (tag <=? SIGNED_NEG_LAST)) eqn:E.
  - destruct (take_payload (8 - (tag - SIGNED_NEG_BASE)) r) as [[p r']|e|] eqn:T; try discriminate.
    + apply take_payload_length in T.
      unfold decode_negative_i64_payload.
      destruct p as [|b p]; [|rewrite decode_be_no_panic by lia];
        repeat match goal with |- context [if ?c then _ else _] => destruct c end; discriminate.
    + unfold take_payload in T. destruct (_ <=? _) in T; discriminate.
  - destruct ((SIGNED_NONNEG_BASE <=? tag) && (tag <=? SIGNED_NONNEG_LAST)) eqn:E'; [|discriminate].
    apply andb_true_iff in E'. destruct E' as [E1 E2]. apply N.leb_le in E1, E2.
    destruct (take_payload (tag - SIGNED_NONNEG_BASE) r) as [[p r']|e|] eqn:T; try discriminate.
    + apply take_payload_length in T.
      unfold decode_nonnegative_i64_payload, decode_u64_payload. rewrite decode_be_no_panic by lia.
      repeat match goal with |- context [if ?c then _ else _] => destruct c end; discriminate.
    + unfold take_payload in T. destruct (_ <=? _) in T; discriminate.
Qed.

Lemma parse_bytes_loop_no_panic : forall rest acc, parse_bytes_loop rest acc <> Panic.
Proof.
  fix IH 1. intros [|b r] acc; cbn [parse_bytes_loop]; [discriminate|].
  destruct (b =? 0).
  - destruct r as [|e r']; [discriminate|].
    destruct (e =? 0); [discriminate|]. destruct (e =? 255); [apply IH|discriminate].
  - apply IH.
Qed.

Lemma parse_el2_no_panic : forall t rest, parse_el2 t rest <> Panic.
Proof.
  intros t rest. destruct t; cbn [parse_el2].
  - unfold parse_unit. destruct rest; cbn [take_one]; [discriminate|]. destruct (_ =? _); discriminate.
  - unfold parse_bytes. pose proof (parse_bytes_loop_no_panic rest []).
    destruct (parse_bytes_loop rest []) as [[? ?]| |]; congruence.
  - unfold parse_string, parse_bytes. pose proof (parse_bytes_loop_no_panic rest []).
    destruct (parse_bytes_loop rest []) as [[? ?]| |]; try congruence. destruct (utf8_valid _); discriminate.
  - unfold parse_u_as. pose proof (parse_u64_no_panic rest).
    destruct (parse_u64 rest) as [[? ?]| |]; try congruence. destruct (_ <? _); discriminate.
  - unfold parse_i_as. pose proof (parse_i64_no_panic rest).
    destruct (parse_i64 rest) as [[? ?]| |]; try congruence. destruct (_ && _)%bool; discriminate.
Qed.

Lemma decode2_no_panic : forall tys rest, decode2 tys rest <> Panic.
Proof.
  induction tys as [|t tys IH]; intros rest; cbn [decode2].
  - destruct rest; discriminate.
  - pose proof (parse_el2_no_panic t rest).
    destruct (parse_el2 t rest) as [[e r]| |]; try congruence.
    specialize (IH r). destruct (decode2 tys r); congruence.
Qed.
