(* TupleKey/ModelV2.v — executable model of tuple_key2/src/lib.rs (the compact format):
   TupleKeyBuilder::{unit,bytes,string,u8..u64,i8..i64} and TupleKeyParser::{unit,bytes,string,
   u8..u64,i8..i64,finish}.  Definitions only.  Bytes are N (< 256 by `bytes_ok`), u64 values are
   N (< 2^64), i64 values are Z.  The tag numbers come from Gen.Const_TupleKey (re-extracted from
   the source on every run).  A place where the Rust could panic (slice index, debug_assert,
   integer overflow) is an explicit `Panic` result; theorems show it unreachable. *)
From Coq Require Import NArith ZArith List Bool.
From Blue Require Import Gen.Const_TupleKey.
Import ListNotations.
Open Scope N_scope.

Definition W64 : N := 18446744073709551616.            (* 2^64 *)
Definition I64_MAX : N := 9223372036854775807.         (* i64::MAX as u64 *)

(* u64::to_be_bytes, generalised: the n low-order bytes of v, most significant first *)
Fixpoint be_bytes (n : nat) (v : N) : list N :=
  match n with
  | O => []
  | S n' => (v / 256 ^ N.of_nat n') mod 256 :: be_bytes n' v
  end.

(* u64::from_be_bytes on a right-aligned payload *)
Definition be_value (payload : list N) : N := fold_left (fun acc b => acc * 256 + b) payload 0.

(* !x on u64 *)
Definition not64 (x : N) : N := W64 - 1 - x.

(* fn minimal_u64_len: 0 for 0, else ilog2(value)/8 + 1 *)
Definition minimal_u64_len (value : N) : N :=
  if value =? 0 then 0 else N.log2 value / 8 + 1.

(* fn push_big_endian_suffix: value.to_be_bytes()[8 - len..]   (debug_assert!(len <= 8); the
   callers pass minimal_u64_len, which is <= 8 — lemma minimal_len_le_8) *)
Definition be_suffix (value len : N) : list N :=
  skipn (8 - N.to_nat len) (be_bytes 8 value).

(* fn encode_bytes *)
Fixpoint encode_bytes (bytes : list N) : list N :=
  match bytes with
  | [] => [0; 0]
  | b :: r => if b =? 0 then 0 :: 255 :: encode_bytes r else b :: encode_bytes r
  end.

(* fn encode_u64 *)
Definition encode_u64 (value : N) : list N :=
  let len := minimal_u64_len value in
  (UNSIGNED_BASE + len) :: be_suffix value len.

(* fn encode_i64; `value as u64` is value mod 2^64 *)
Definition encode_i64 (value : Z) : list N :=
  if (value <? 0)%Z then
    let magnitude := not64 (Z.to_N (value mod Z.of_N W64)) in
    let len := minimal_u64_len magnitude in
    (SIGNED_NEG_BASE + (8 - len)) ::
      (if 0 <? len then be_suffix (not64 magnitude) len else [])
  else
    let value := Z.to_N value in
    let len := minimal_u64_len value in
    (SIGNED_NONNEG_BASE + len) :: be_suffix value len.

(* ---- the element language of the builder / parser *)
Inductive ty2 :=
| T2Unit | T2Bytes | T2String
| T2U (bits : N)          (* u8 u16 u32 u64 *)
| T2I (bits : N).         (* i8 i16 i32 i64 *)

Inductive el2 :=
| V2Unit
| V2Bytes (b : list N)
| V2String (s : list N)   (* the UTF-8 bytes of the &str *)
| V2U (bits : N) (v : N)
| V2I (bits : N) (v : Z).

Definition ty_of2 (e : el2) : ty2 :=
  match e with
  | V2Unit => T2Unit | V2Bytes _ => T2Bytes | V2String _ => T2String
  | V2U b _ => T2U b | V2I b _ => T2I b
  end.

(* builder: u8/u16/u32 widen to u64, i8/i16/i32 to i64; string is bytes of the str *)
Definition encode_el2 (e : el2) : list N :=
  match e with
  | V2Unit => [UNIT_TAG]
  | V2Bytes b => encode_bytes b
  | V2String s => encode_bytes s
  | V2U _ v => encode_u64 v
  | V2I _ v => encode_i64 v
  end.

Definition encode2 (t : list el2) : list N := flat_map encode_el2 t.

(* ---- parser *)
Inductive err2 :=
| UnexpectedEnd | InvalidIntegerTag | InvalidUnitTag | NonCanonicalInteger | ValueOutOfRange
| InvalidBytesEscape | UnterminatedBytes | InvalidUtf8 | TrailingBytes.

Inductive res (A : Type) :=
| Ok (a : A) | Err (e : err2) | Panic.
Arguments Ok {A} a.
Arguments Err {A} e.
Arguments Panic {A}.

(* String::from_utf8's acceptance (std; Unicode table 3-7 of well-formed byte sequences) *)
Definition in_rng (lo hi b : N) : bool := (lo <=? b) && (b <=? hi).
Fixpoint utf8_valid (s : list N) : bool :=
  match s with
  | [] => true
  | b0 :: r0 =>
    if b0 <? 128 then utf8_valid r0
    else match r0 with
    | [] => false
    | b1 :: r1 =>
      if in_rng 194 223 b0 then in_rng 128 191 b1 && utf8_valid r1
      else match r1 with
      | [] => false
      | b2 :: r2 =>
        if b0 =? 224 then in_rng 160 191 b1 && in_rng 128 191 b2 && utf8_valid r2
        else if in_rng 225 236 b0 || in_rng 238 239 b0 then
          in_rng 128 191 b1 && in_rng 128 191 b2 && utf8_valid r2
        else if b0 =? 237 then in_rng 128 159 b1 && in_rng 128 191 b2 && utf8_valid r2
        else match r2 with
        | [] => false
        | b3 :: r3 =>
          if b0 =? 240 then
            in_rng 144 191 b1 && in_rng 128 191 b2 && in_rng 128 191 b3 && utf8_valid r3
          else if in_rng 241 243 b0 then
            in_rng 128 191 b1 && in_rng 128 191 b2 && in_rng 128 191 b3 && utf8_valid r3
          else if b0 =? 244 then
            in_rng 128 143 b1 && in_rng 128 191 b2 && in_rng 128 191 b3 && utf8_valid r3
          else false
        end
      end
    end
  end.

(* the parser state (bytes, offset) is represented by the unread suffix *)

(* fn take_one *)
Definition take_one (rest : list N) : res (N * list N) :=
  match rest with
  | [] => Err UnexpectedEnd
  | b :: r => Ok (b, r)
  end.

(* fn take_payload: offset.checked_add(len) <= bytes.len(), else UnexpectedEnd *)
Definition take_payload (len : N) (rest : list N) : res (list N * list N) :=
  if len <=? N.of_nat (length rest)
  then Ok (firstn (N.to_nat len) rest, skipn (N.to_nat len) rest)
  else Err UnexpectedEnd.

(* fn decode_big_endian_payload: debug_assert!(payload.len() <= 8); bytes[8 - len..] *)
Definition decode_big_endian_payload (payload : list N) : res N :=
  if 8 <? N.of_nat (length payload) then Panic else Ok (be_value payload).

(* fn decode_u64_payload *)
Definition decode_u64_payload (payload : list N) : res N :=
  match decode_big_endian_payload payload with
  | Ok value =>
      if minimal_u64_len value =? N.of_nat (length payload) then Ok value
      else Err NonCanonicalInteger
  | Err e => Err e
  | Panic => Panic
  end.

(* fn decode_nonnegative_i64_payload: i64::try_from(value) *)
Definition decode_nonnegative_i64_payload (payload : list N) : res Z :=
  match decode_u64_payload payload with
  | Ok value => if value <=? I64_MAX then Ok (Z.of_N value) else Err ValueOutOfRange
  | Err e => Err e
  | Panic => Panic
  end.

(* fn decode_negative_i64_payload *)
Definition decode_negative_i64_payload (payload : list N) : res Z :=
  let len := N.of_nat (length payload) in
  let magnitude : res N :=
    match payload with
    | [] => Ok 0
    | _ =>
      match decode_big_endian_payload payload with
      | Ok encoded =>
          let mask := if len =? 8 then W64 - 1 else 2 ^ (len * 8) - 1 in
          Ok (N.land (not64 encoded) mask)
      | Err e => Err e
      | Panic => Panic
      end
    end in
  match magnitude with
  | Ok magnitude =>
      if negb (minimal_u64_len magnitude =? len) then Err NonCanonicalInteger
      else if I64_MAX <? magnitude then Err ValueOutOfRange
      else Ok (- Z.of_N magnitude - 1)%Z          (* (!magnitude) as i64 *)
  | Err e => Err e
  | Panic => Panic
  end.

(* fn unsigned_len / signed_negative_len / signed_nonnegative_len *)
Definition unsigned_len (tag : N) : option N :=
  if in_rng UNSIGNED_BASE UNSIGNED_LAST tag then Some (tag - UNSIGNED_BASE) else None.
Definition signed_negative_len (tag : N) : option N :=
  if in_rng SIGNED_NEG_BASE SIGNED_NEG_LAST tag then Some (8 - (tag - SIGNED_NEG_BASE)) else None.
Definition signed_nonnegative_len (tag : N) : option N :=
  if in_rng SIGNED_NONNEG_BASE SIGNED_NONNEG_LAST tag then Some (tag - SIGNED_NONNEG_BASE) else None.

(* TupleKeyParser::unit *)
Definition parse_unit (rest : list N) : res (unit * list N) :=
  match take_one rest with
  | Ok (tag, r) => if tag =? UNIT_TAG then Ok (tt, r) else Err InvalidUnitTag
  | Err e => Err e
  | Panic => Panic
  end.

(* TupleKeyParser::bytes — the while loop; `decoded` is the accumulator *)
Fixpoint parse_bytes_loop (rest decoded : list N) : res (list N * list N) :=
  match rest with
  | [] => Err UnterminatedBytes
  | byte :: r =>
      if byte =? 0 then
        match r with
        | [] => Err UnterminatedBytes
        | escape :: r' =>
            if escape =? 0 then Ok (decoded, r')
            else if escape =? 255 then parse_bytes_loop r' (decoded ++ [0])
            else Err InvalidBytesEscape
        end
      else parse_bytes_loop r (decoded ++ [byte])
  end.
Definition parse_bytes (rest : list N) : res (list N * list N) := parse_bytes_loop rest [].

(* TupleKeyParser::string *)
Definition parse_string (rest : list N) : res (list N * list N) :=
  match parse_bytes rest with
  | Ok (b, r) => if utf8_valid b then Ok (b, r) else Err InvalidUtf8
  | Err e => Err e
  | Panic => Panic
  end.

(* TupleKeyParser::u64 *)
Definition parse_u64 (rest : list N) : res (N * list N) :=
  match take_one rest with
  | Ok (tag, r) =>
      match unsigned_len tag with
      | None => Err InvalidIntegerTag
      | Some len =>
          match take_payload len r with
          | Ok (payload, r') =>
              match decode_u64_payload payload with
              | Ok v => Ok (v, r')
              | Err e => Err e
              | Panic => Panic
              end
          | Err e => Err e
          | Panic => Panic
          end
      end
  | Err e => Err e
  | Panic => Panic
  end.

(* TupleKeyParser::i64 *)
Definition parse_i64 (rest : list N) : res (Z * list N) :=
  match take_one rest with
  | Ok (tag, r) =>
      match signed_negative_len tag with
      | Some len =>
          match take_payload len r with
          | Ok (payload, r') =>
              match decode_negative_i64_payload payload with
              | Ok v => Ok (v, r') | Err e => Err e | Panic => Panic
              end
          | Err e => Err e
          | Panic => Panic
          end
      | None =>
          match signed_nonnegative_len tag with
          | Some len =>
              match take_payload len r with
              | Ok (payload, r') =>
                  match decode_nonnegative_i64_payload payload with
                  | Ok v => Ok (v, r') | Err e => Err e | Panic => Panic
                  end
              | Err e => Err e
              | Panic => Panic
              end
          | None => Err InvalidIntegerTag
          end
      end
  | Err e => Err e
  | Panic => Panic
  end.

(* parse_u64_as::<T>: T::try_from(self.u64()?) *)
Definition parse_u_as (bits : N) (rest : list N) : res (N * list N) :=
  match parse_u64 rest with
  | Ok (v, r) => if v <? 2 ^ bits then Ok (v, r) else Err ValueOutOfRange
  | Err e => Err e
  | Panic => Panic
  end.

(* parse_i64_as::<T> *)
Definition parse_i_as (bits : N) (rest : list N) : res (Z * list N) :=
  match parse_i64 rest with
  | Ok (v, r) =>
      if ((- Z.of_N (2 ^ (bits - 1)) <=? v) && (v <? Z.of_N (2 ^ (bits - 1))))%Z
      then Ok (v, r) else Err ValueOutOfRange
  | Err e => Err e
  | Panic => Panic
  end.

Definition parse_el2 (t : ty2) (rest : list N) : res (el2 * list N) :=
  match t with
  | T2Unit => match parse_unit rest with Ok (_, r) => Ok (V2Unit, r) | Err e => Err e | Panic => Panic end
  | T2Bytes => match parse_bytes rest with Ok (b, r) => Ok (V2Bytes b, r) | Err e => Err e | Panic => Panic end
  | T2String => match parse_string rest with Ok (b, r) => Ok (V2String b, r) | Err e => Err e | Panic => Panic end
  | T2U bits => match parse_u_as bits rest with Ok (v, r) => Ok (V2U bits v, r) | Err e => Err e | Panic => Panic end
  | T2I bits => match parse_i_as bits rest with Ok (v, r) => Ok (V2I bits v, r) | Err e => Err e | Panic => Panic end
  end.

(* a caller decoding with an expected type sequence: one typed call per element, then finish() *)
Fixpoint decode2 (tys : list ty2) (rest : list N) : res (list el2) :=
  match tys with
  | [] => match rest with [] => Ok [] | _ => Err TrailingBytes end
  | t :: tys' =>
      match parse_el2 t rest with
      | Ok (e, r) =>
          match decode2 tys' r with
          | Ok es => Ok (e :: es)
          | Err e => Err e
          | Panic => Panic
          end
      | Err e => Err e
      | Panic => Panic
      end
  end.
