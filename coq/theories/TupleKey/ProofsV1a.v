(* TupleKey/ProofsV1a.v — the string element of the field-numbered format.
   `chunks7 carry rb s` is the 7-bit regrouping as a structural recursion on the string: `carry`
   holds the rb (< 8) bits not yet emitted.  Iterate7BitChunks (the state machine it_next driven by
   it_collect) is shown to compute it; Combine7BitChunks is shown to invert it; and two different
   strings are shown to give chunk lists that diverge, in the data bits except exactly in the
   F12 situation (one string a proper prefix of the other, critical byte small), where they differ
   in the continuation bit only. *)
From Coq Require Import NArith ZArith List Lia ZifyN ZifyBool Bool.
From Blue Require Import Gen.Const_TupleKey TupleKey.Lex TupleKey.Bits TupleKey.ModelV2 TupleKey.ModelV1 TupleKey.Spec.
Import ListNotations.
Open Scope N_scope.
Ltac Zify.zify_post_hook ::= Z.to_euclidean_division_equations.

Arguments N.pow : simpl never.
Arguments N.div : simpl never.
Arguments N.modulo : simpl never.
Arguments N.mul : simpl never.
Arguments N.add : simpl never.
Arguments N.sub : simpl never.
Arguments N.lor : simpl never.
Arguments N.land : simpl never.
Arguments N.ltb : simpl never.
Arguments N.leb : simpl never.
Arguments N.eqb : simpl never.

(* ---- evaluating closed arithmetic inside goals *)
Ltac is_pos p := lazymatch p with xH => idtac | xO ?q => is_pos q | xI ?q => is_pos q end.
Ltac is_num e := lazymatch e with N0 => idtac | Npos ?p => is_pos p end.
Ltac norm_consts :=
  repeat match goal with
  | |- context [?a + ?b] => is_num a; is_num b; let v := eval vm_compute in (a + b) in change (a + b) with v
  | |- context [?a - ?b] => is_num a; is_num b; let v := eval vm_compute in (a - b) in change (a - b) with v
  | |- context [?a * ?b] => is_num a; is_num b; let v := eval vm_compute in (a * b) in change (a * b) with v
  | |- context [?a ^ ?b] => is_num a; is_num b; let v := eval vm_compute in (a ^ b) in change (a ^ b) with v
  | |- context [?a <? ?b] => is_num a; is_num b; let v := eval vm_compute in (a <? b) in change (a <? b) with v
  | |- context [?a <=? ?b] => is_num a; is_num b; let v := eval vm_compute in (a <=? b) in change (a <=? b) with v
  | |- context [?a =? ?b] => is_num a; is_num b; let v := eval vm_compute in (a =? b) in change (a =? b) with v
  end.
Ltac norm_consts_in H :=
  repeat match type of H with
  | context [?a + ?b] => is_num a; is_num b; let v := eval vm_compute in (a + b) in change (a + b) with v in H
  | context [?a - ?b] => is_num a; is_num b; let v := eval vm_compute in (a - b) in change (a - b) with v in H
  | context [?a * ?b] => is_num a; is_num b; let v := eval vm_compute in (a * b) in change (a * b) with v in H
  | context [?a ^ ?b] => is_num a; is_num b; let v := eval vm_compute in (a ^ b) in change (a ^ b) with v in H
  end.

Ltac rb_cases rb H :=
  let C := fresh "C" in
  assert (C : rb = 0 \/ rb = 1 \/ rb = 2 \/ rb = 3 \/ rb = 4 \/ rb = 5 \/ rb = 6 \/ rb = 7) by lia;
  destruct C as [->|[->|[->|[->|[->|[->|[->| ->]]]]]]].

(* ------------------------------------------------------------------ the chunking, as a recursion *)
Fixpoint chunks7 (carry rb : N) (s : list N) : list N :=
  match s with
  | [] => if rb =? 0 then [] else [(carry * 2 ^ (8 - rb)) mod 256]
  | b :: s' =>
      let v := carry * 256 + b in
      let c1 := v / 2 ^ (rb + 1) in
      let v1 := v mod 2 ^ (rb + 1) in
      if rb + 1 <? 8 then (2 * c1 + 1) :: chunks7 v1 (rb + 1) s'
      else (2 * c1 + 1) :: (2 * (v1 / 2) + 1) :: chunks7 (v1 mod 2) 1 s'
  end.

(* <String as Element>::append_to, in terms of chunks7 *)
Definition str_enc (s : list N) : list N :=
  match s with [] => [0] | _ => chunks7 0 0 s end.

Lemma bytes_ok_cons : forall b s, bytes_ok (b :: s) <-> b < 256 /\ bytes_ok s.
Proof. intros. unfold bytes_ok. rewrite Forall_cons_iff. reflexivity. Qed.

(* ---- Iterate7BitChunks computes chunks7 *)
Lemma it_next_emit : forall rest remains rb, 7 < rb ->
  it_next rest remains rb =
  ItSome (N.lor ((N.land ((remains / 2 ^ (rb - 7)) mod 256) 127 * 2) mod 256) 1) rest remains (rb - 7).
Proof.
  intros rest remains rb H. destruct rest; cbn [it_next];
    destruct (N.ltb_spec 7 rb); try lia; reflexivity.
Qed.

Lemma it_next_load : forall b rest remains rb, rb <= 7 ->
  it_next (b :: rest) remains rb = it_next rest (N.lor ((remains * 256) mod W64) b) (rb + 8).
Proof. intros. cbn [it_next]. destruct (N.ltb_spec 7 rb); [lia|reflexivity]. Qed.

Lemma it_next_nil_0 : forall remains, it_next [] remains 0 = ItNone.
Proof. reflexivity. Qed.

Lemma it_next_nil : forall remains rb, 0 < rb <= 7 ->
  it_next [] remains rb = ItSome (((remains mod 256) * 2 ^ (8 - rb)) mod 256) [] remains 0.
Proof.
  intros remains rb H. cbn [it_next].
  destruct (N.ltb_spec 7 rb); [lia|]. destruct (N.ltb_spec 0 rb); [|lia].
  destruct (N.leb_spec rb 7); [reflexivity|lia].
Qed.

Lemma emit_byte : forall x, N.lor ((N.land x 127 * 2) mod 256) 1 = 2 * (x mod 128) + 1.
Proof.
  intros x. rewrite land127.
  rewrite (lor_split 1 _ 1) by (change (2 ^ 1) with 2; lia). lia.
Qed.

Lemma it_collect_chunks : forall s remains rb fuel, bytes_ok s -> rb <= 7 ->
  (2 * length s + 2 <= fuel)%nat ->
  it_collect fuel s remains rb = Some (chunks7 (remains mod 2 ^ rb) rb s).
Proof.
  induction s as [|b s IH]; intros remains rb fuel Hs Hrb Hf.
  - destruct fuel as [|[|fuel]]; cbn [length] in Hf; try lia.
    destruct (N.eq_dec rb 0) as [->|Hnz].
    + cbn [it_collect chunks7]. rewrite it_next_nil_0. reflexivity.
    + cbn [it_collect chunks7]. rewrite it_next_nil by lia. rewrite it_next_nil_0.
      destruct (N.eqb_spec rb 0); [lia|]. do 2 f_equal.
      rb_cases rb Hrb; try lia; norm_consts; lia.
  - apply bytes_ok_cons in Hs. destruct Hs as [Hb Hs].
    cbn [length] in Hf.
    destruct fuel as [|fuel]; [lia|].
    cbn [it_collect]. rewrite it_next_load by assumption.
    rewrite it_next_emit by lia. rewrite emit_byte.
    assert (HL : N.lor ((remains * 256) mod W64) b = (remains * 256) mod W64 + b).
    { apply (lor_split 8); [exact Hb|]. unfold W64. change (2 ^ 8) with 256. lia. }
    rewrite HL. set (R := (remains * 256) mod W64 + b) in *.
    cbn [chunks7]. cbv zeta.
    destruct (N.ltb_spec (rb + 1) 8) as [Hlt|Hge].
    + (* one chunk, carry rb+1 <= 7 bits *)
      replace (rb + 8 - 7) with (rb + 1) by lia.
      rewrite (IH R (rb + 1) fuel Hs) by lia.
      f_equal. f_equal.
      * unfold R, W64. rb_cases rb Hrb; try lia; norm_consts; lia.
      * f_equal. unfold R, W64. rb_cases rb Hrb; try lia; norm_consts; lia.
    + (* rb = 7: two chunks *)
      assert (rb = 7) by lia. subst rb. norm_consts.
      destruct fuel as [|fuel]; [lia|].
      cbn [it_collect]. rewrite it_next_emit by lia. rewrite emit_byte. norm_consts.
      rewrite (IH R 1 fuel Hs) by lia.
      f_equal. f_equal; [|f_equal; [|f_equal]]; unfold R, W64; norm_consts; lia.
Qed.

Lemma chunks7_nonempty : forall s carry rb, 0 < rb -> chunks7 carry rb s <> [].
Proof.
  intros [|b s] carry rb H; cbn [chunks7].
  - destruct (N.eqb_spec rb 0); [lia|discriminate].
  - cbv zeta. destruct (rb + 1 <? 8); discriminate.
Qed.

Lemma chunks7_cons_nonempty : forall b s, chunks7 0 0 (b :: s) <> [].
Proof. intros. cbn [chunks7]. cbv zeta. norm_consts. cbn iota. discriminate. Qed.

Lemma append_string_spec : forall s, bytes_ok s -> append_string s = Some (str_enc s).
Proof.
  intros s Hs. unfold append_string.
  rewrite (it_collect_chunks s 0 0 _ Hs) by lia.
  change (0 mod 2 ^ 0) with 0.
  destruct s as [|b s]; [reflexivity|].
  unfold str_enc. pose proof (chunks7_cons_nonempty b s).
  destruct (chunks7 0 0 (b :: s)); [contradiction|reflexivity].
Qed.

(* ------------------------------------------------------------------ shape of the chunk bytes *)
(* every byte but the last has the continuation bit, the last has not; all are bytes *)
Inductive terminated : list N -> Prop :=
| term_last : forall c, c mod 2 = 0 -> c < 256 -> terminated [c]
| term_cons : forall c l, c mod 2 = 1 -> c < 256 -> terminated l -> terminated (c :: l).

Lemma chunks7_terminated : forall s carry rb, bytes_ok s -> 0 < rb <= 7 -> carry < 2 ^ rb ->
  terminated (chunks7 carry rb s).
Proof.
  induction s as [|b s IH]; intros carry rb Hs Hrb Hc.
  - cbn [chunks7]. destruct (N.eqb_spec rb 0); [lia|].
    apply term_last; rb_cases rb Hrb; try lia; norm_consts_in Hc; norm_consts; lia.
  - apply bytes_ok_cons in Hs. destruct Hs as [Hb Hs].
    cbn [chunks7]. cbv zeta.
    destruct (N.ltb_spec (rb + 1) 8) as [Hlt|Hge].
    + apply term_cons.
      * generalize ((carry * 256 + b) / 2 ^ (rb + 1)). intros; lia.
      * rb_cases rb Hrb; try lia; norm_consts_in Hc; norm_consts; lia.
      * apply IH; [assumption|lia|]. apply N.mod_upper_bound. apply N.pow_nonzero. discriminate.
    + assert (rb = 7) by lia. subst rb. norm_consts. norm_consts_in Hc.
      apply term_cons; [lia|lia|]. apply term_cons; [lia|lia|].
      apply IH; [assumption|lia|]. norm_consts. lia.
Qed.

Lemma str_enc_terminated : forall s, bytes_ok s -> terminated (str_enc s).
Proof.
  intros [|b s] Hs; [apply term_last; [reflexivity|lia]|].
  apply bytes_ok_cons in Hs. destruct Hs as [Hb Hs].
  unfold str_enc. cbn [chunks7]. cbv zeta. norm_consts. cbn iota.
  apply term_cons; [lia|lia|].
  apply chunks7_terminated; [assumption|lia|]. norm_consts. lia.
Qed.

(* ------------------------------------------------------------------ order and divergence *)
(* data-bit / continuation-bit divergence with the direction of the comparison *)
Definition hi_lt (a b : list N) : Prop := lex_cmp a b = Lt /\ hi_diverge a b.
Definition lo_lt (a b : list N) : Prop := lex_cmp a b = Lt /\ lo_diverge a b.

Lemma hi_lt_here : forall x y a b, x / 2 < y / 2 -> hi_lt (x :: a) (y :: b).
Proof.
  intros. split; [apply lex_cmp_cons_lt; lia | apply hi_here; lia].
Qed.

Lemma lo_lt_here : forall x y a b, x / 2 = y / 2 -> x < y -> lo_lt (x :: a) (y :: b).
Proof.
  intros. split; [now apply lex_cmp_cons_lt | apply lo_here; lia].
Qed.

Lemma hi_lt_cons : forall x a b, hi_lt a b -> hi_lt (x :: a) (x :: b).
Proof. intros x a b [H1 H2]. split; [now rewrite lex_cmp_cons_same | now apply hi_next]. Qed.

Lemma lo_lt_cons : forall x a b, lo_lt a b -> lo_lt (x :: a) (x :: b).
Proof. intros x a b [H1 H2]. split; [now rewrite lex_cmp_cons_same | now apply lo_next]. Qed.

(* different carries (same number of pending bits): the smaller carry sorts first, whatever follows *)
Lemma carry_lt : forall rb ca cb s t, 0 < rb <= 7 -> ca < cb -> cb < 2 ^ rb ->
  bytes_ok s -> bytes_ok t -> hi_lt (chunks7 ca rb s) (chunks7 cb rb t).
Proof.
  intros rb ca cb s t Hrb Hlt Hcb Hs Ht.
  destruct s as [|x s]; destruct t as [|y t]; cbn [chunks7]; cbv zeta;
    try (apply bytes_ok_cons in Hs; destruct Hs as [Hx Hs]);
    try (apply bytes_ok_cons in Ht; destruct Ht as [Hy Ht]);
    rb_cases rb Hrb; try lia; norm_consts_in Hcb; norm_consts; cbn iota;
    apply hi_lt_here; lia.
Qed.

(* same state, next bytes x < y *)
Lemma byte_lt : forall rb carry x y s t, rb <= 7 -> carry < 2 ^ rb -> x < y -> y < 256 ->
  bytes_ok s -> bytes_ok t ->
  hi_lt (chunks7 carry rb (x :: s)) (chunks7 carry rb (y :: t)).
Proof.
  intros rb carry x y s t Hrb Hc Hxy Hy Hs Ht.
  cbn [chunks7]. cbv zeta.
  destruct (N.ltb_spec (rb + 1) 8) as [Hlt|Hge].
  - (* first chunks differ, or they agree and the carries differ *)
    set (ca := (carry * 256 + x) mod 2 ^ (rb + 1)).
    set (cb := (carry * 256 + y) mod 2 ^ (rb + 1)).
    destruct (N.eq_dec ((carry * 256 + x) / 2 ^ (rb + 1)) ((carry * 256 + y) / 2 ^ (rb + 1))) as [E|NE].
    + rewrite E. apply hi_lt_cons.
      apply carry_lt; try assumption; [lia| |].
      * unfold ca, cb. rb_cases rb Hrb; try lia; norm_consts_in Hc; norm_consts_in E; norm_consts; lia.
      * unfold cb. apply N.mod_upper_bound. apply N.pow_nonzero. discriminate.
    + apply hi_lt_here.
      rb_cases rb Hrb; try lia; norm_consts_in Hc; norm_consts_in NE; norm_consts; lia.
  - assert (rb = 7) by lia. subst rb. norm_consts. norm_consts_in Hc.
    destruct (N.eq_dec ((carry * 256 + x) / 256) ((carry * 256 + y) / 256)) as [E|NE];
      [|apply hi_lt_here; lia].
    rewrite E. apply hi_lt_cons.
    destruct (N.eq_dec (((carry * 256 + x) mod 256) / 2) (((carry * 256 + y) mod 256) / 2)) as [E2|NE2];
      [|apply hi_lt_here; lia].
    rewrite E2. apply hi_lt_cons.
    apply carry_lt; try assumption; norm_consts; lia.
Qed.

(* the prefix situation: nothing more on the left, a byte y on the right *)
Lemma prefix_lt : forall rb carry y t, 0 < rb <= 7 -> carry < 2 ^ rb -> y < 256 -> bytes_ok t ->
  (if y <? 2 ^ (rb + 1) then lo_lt else hi_lt) (chunks7 carry rb []) (chunks7 carry rb (y :: t)).
Proof.
  intros rb carry y t Hrb Hc Hy Ht.
  cbn [chunks7]. cbv zeta.
  destruct (N.eqb_spec rb 0); [lia|].
  destruct (N.ltb_spec y (2 ^ (rb + 1))) as [Hsm|Hbig];
    rb_cases rb Hrb; try lia; norm_consts_in Hc; norm_consts_in Hsm; norm_consts_in Hbig; norm_consts; cbn iota;
    first [apply lo_lt_here; lia | apply hi_lt_here; lia].
Qed.

Lemma rbits_succ : forall n, rbits (S n) = if rbits n + 1 <? 8 then rbits n + 1 else 1.
Proof.
  intros n. destruct n as [|k]; [reflexivity|].
  unfold rbits.
  pose proof (Nat.mod_upper_bound k 7 ltac:(lia)) as B.
  destruct (N.ltb_spec (N.of_nat (k mod 7) + 1 + 1) 8) as [H|H].
  - replace (S k mod 7)%nat with (S (k mod 7)).
    + lia.
    + symmetry. rewrite (Nat.div_mod k 7) at 1 by lia.
      replace (S (7 * (k / 7) + k mod 7))%nat with (S (k mod 7) + (k / 7) * 7)%nat by lia.
      rewrite Nat.mod_add by lia. apply Nat.mod_small. lia.
  - replace (S k mod 7)%nat with 0%nat; [reflexivity|].
    symmetry. rewrite (Nat.div_mod k 7) at 1 by lia.
    replace (S (7 * (k / 7) + k mod 7))%nat with (0 + (S (k / 7)) * 7)%nat by lia.
    rewrite Nat.mod_add by lia. reflexivity.
Qed.

Lemma rbits_range : forall n, rbits n <= 7 /\ ((0 < n)%nat -> 0 < rbits n).
Proof.
  intros [|k]; cbn [rbits]; [split; [lia|intros; lia]|].
  pose proof (Nat.mod_upper_bound k 7 ltac:(lia)). split; [lia|]. intros _. lia.
Qed.

(* classification of two different strings that have reached the same chunking state after n
   common bytes: which way they compare and in which bit the chunk lists first differ *)
Definition str_rel (a b : list N) (n : nat) (ea eb : list N) : Prop :=
  match lex_cmp a b with
  | Lt => if f12_prefix a b n then lo_lt ea eb else hi_lt ea eb
  | Gt => if f12_prefix b a n then lo_lt eb ea else hi_lt eb ea
  | Eq => ea = eb
  end.

Lemma chunks7_rel : forall a b n carry, (0 < n)%nat -> carry < 2 ^ rbits n ->
  bytes_ok a -> bytes_ok b ->
  str_rel a b n (chunks7 carry (rbits n) a) (chunks7 carry (rbits n) b).
Proof.
  induction a as [|x a IH]; intros b n carry Hn Hc Ha Hb.
  - destruct b as [|y b]; unfold str_rel; cbn [lex_cmp f12_prefix]; [reflexivity|].
    apply bytes_ok_cons in Hb. destruct Hb as [Hy Hb].
    destruct (rbits_range n) as [R1 R2].
    pose proof (prefix_lt (rbits n) carry y b (conj (R2 Hn) R1) Hc Hy Hb) as P.
    destruct (y <? 2 ^ (rbits n + 1)); exact P.
  - apply bytes_ok_cons in Ha. destruct Ha as [Hx Ha].
    destruct b as [|y b].
    + unfold str_rel; cbn [lex_cmp f12_prefix].
      destruct (rbits_range n) as [R1 R2].
      pose proof (prefix_lt (rbits n) carry x a (conj (R2 Hn) R1) Hc Hx Ha) as P.
      destruct (x <? 2 ^ (rbits n + 1)); exact P.
    + apply bytes_ok_cons in Hb. destruct Hb as [Hy Hb].
      destruct (rbits_range n) as [R1 R2].
      unfold str_rel. cbn [lex_cmp f12_prefix].
      destruct (N.compare_spec x y) as [->|Hlt|Hgt].
      * (* same byte: same chunk(s), same next state *)
        rewrite N.eqb_refl. cbn [andb].
        specialize (IH b (S n)). unfold str_rel in IH.
        cbn [chunks7]. cbv zeta. rewrite rbits_succ in IH.
        destruct (N.ltb_spec (rbits n + 1) 8) as [Hs|Hs].
        -- specialize (IH ((carry * 256 + y) mod 2 ^ (rbits n + 1)) ltac:(lia)
                          ltac:(apply N.mod_upper_bound, N.pow_nonzero; discriminate) Ha Hb).
           destruct (lex_cmp a b).
           ++ now rewrite IH.
           ++ destruct (f12_prefix a b (S n)); [now apply lo_lt_cons | now apply hi_lt_cons].
           ++ destruct (f12_prefix b a (S n)); [now apply lo_lt_cons | now apply hi_lt_cons].
        -- specialize (IH (((carry * 256 + y) mod 2 ^ (rbits n + 1)) mod 2) ltac:(lia)
                          ltac:(norm_consts; lia) Ha Hb).
           destruct (lex_cmp a b).
           ++ now rewrite IH.
           ++ destruct (f12_prefix a b (S n)); [now apply lo_lt_cons, lo_lt_cons | now apply hi_lt_cons, hi_lt_cons].
           ++ destruct (f12_prefix b a (S n)); [now apply lo_lt_cons, lo_lt_cons | now apply hi_lt_cons, hi_lt_cons].
      * destruct (N.eqb_spec x y); [lia|]. cbn [andb]. now apply byte_lt.
      * destruct (N.eqb_spec y x); [lia|]. cbn [andb]. now apply byte_lt.
Qed.

(* the whole string element, from the initial state (and the [0] special case of "") *)
Lemma str_enc_rel : forall a b, bytes_ok a -> bytes_ok b -> str_rel a b 0 (str_enc a) (str_enc b).
Proof.
  intros a b Ha Hb.
  destruct a as [|x a]; destruct b as [|y b].
  - reflexivity.
  - apply bytes_ok_cons in Hb. destruct Hb as [Hy Hb].
    unfold str_rel, str_enc. cbn [lex_cmp f12_prefix rbits chunks7]. cbv zeta. norm_consts. cbn iota.
    destruct (N.ltb_spec y 2); [apply lo_lt_here; lia | apply hi_lt_here; lia].
  - apply bytes_ok_cons in Ha. destruct Ha as [Hx Ha].
    unfold str_rel, str_enc. cbn [lex_cmp f12_prefix rbits chunks7]. cbv zeta. norm_consts. cbn iota.
    destruct (N.ltb_spec x 2); [apply lo_lt_here; lia | apply hi_lt_here; lia].
  - apply bytes_ok_cons in Ha. destruct Ha as [Hx Ha].
    apply bytes_ok_cons in Hb. destruct Hb as [Hy Hb].
    unfold str_rel, str_enc. cbn [lex_cmp f12_prefix].
    destruct (N.compare_spec x y) as [->|Hlt|Hgt].
    + rewrite N.eqb_refl. cbn [andb].
      pose proof (chunks7_rel a b 1 (y mod 2) ltac:(lia) ltac:(change (rbits 1) with 1; norm_consts; lia) Ha Hb) as R.
      unfold str_rel in R. change (rbits 1) with 1 in R.
      cbn [chunks7]. cbv zeta. norm_consts. cbn iota.
      rewrite !N.add_0_l.
      destruct (lex_cmp a b).
      * now rewrite R.
      * destruct (f12_prefix a b 1); [now apply lo_lt_cons | now apply hi_lt_cons].
      * destruct (f12_prefix b a 1); [now apply lo_lt_cons | now apply hi_lt_cons].
    + destruct (N.eqb_spec x y); [lia|]. cbn [andb].
      apply (byte_lt 0 0 x y a b); try assumption; [lia | norm_consts; lia].
    + destruct (N.eqb_spec y x); [lia|]. cbn [andb].
      apply (byte_lt 0 0 y x b a); try assumption; [lia | norm_consts; lia].
Qed.
