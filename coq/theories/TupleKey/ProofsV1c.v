(* TupleKey/ProofsV1c.v — field-numbered format, decoding: TupleKeyIterator splits an encoded key
   exactly at the element boundaries; every Element::parse_from inverts append_to
   (Combine7BitChunks inverts Iterate7BitChunks); reverse_encoding is an involution; so the typed
   parser returns the original tuple; and no byte string makes it panic. *)
From Coq Require Import NArith ZArith List Lia ZifyN ZifyBool Bool.
From Blue Require Import Gen.Const_TupleKey TupleKey.Lex TupleKey.Bits TupleKey.ModelV2 TupleKey.ModelV1 TupleKey.Spec TupleKey.ProofsV1a TupleKey.ProofsV1b.
Import ListNotations.
Open Scope N_scope.
Ltac Zify.zify_post_hook ::= Z.to_euclidean_division_equations.

Arguments N.pow : simpl never.
Arguments N.div : simpl never.
Arguments N.modulo : simpl never.
Arguments N.mul : simpl never.
Arguments N.add : simpl never.
Arguments N.sub : simpl never.
Arguments N.lor : simpl never.
Arguments N.land : simpl never.
Arguments N.ltb : simpl never.
Arguments N.leb : simpl never.
Arguments N.eqb : simpl never.

(* ------------------------------------------------------------------ the iterator *)
Lemma tki_scan_terminated : forall p rest, terminated p -> tki_scan (p ++ rest) = (p, rest).
Proof.
  induction 1 as [c H0 Hc | c l H1 Hc Hl IH]; cbn [app tki_scan]; rewrite land1.
  - rewrite H0. reflexivity.
  - rewrite H1. cbn [N.eqb negb]. change (1 =? 0) with false. cbn [negb]. now rewrite IH.
Qed.

Lemma terminated_nonempty : forall p, terminated p -> p <> [].
Proof. destruct 1; discriminate. Qed.

Lemma tki_next_terminated : forall p rest, terminated p -> tki_next (p ++ rest) = Some (p, rest).
Proof.
  intros p rest T. unfold tki_next. rewrite tki_scan_terminated by assumption.
  pose proof (terminated_nonempty p T). destruct p; [contradiction|reflexivity].
Qed.

(* ------------------------------------------------------------------ tags *)
Inductive varint_ok : list N -> Prop :=
| vo_last : forall c, c < 128 -> varint_ok [c]
| vo_cons : forall c l, 128 <= c < 256 -> varint_ok l -> varint_ok (c :: l).

Lemma v64_pack_ok : forall fuel x, (0 < fuel)%nat -> x < 128 ^ N.of_nat fuel -> varint_ok (v64_pack fuel x).
Proof.
  induction fuel as [|fuel IH]; intros x Hf Hx; [lia|].
  cbn [v64_pack]. destruct (N.eqb_spec (x / 128) 0) as [E|NE].
  - apply vo_last. lia.
  - rewrite lor128_byte by lia. apply vo_cons; [lia|].
    rewrite Nnat.Nat2N.inj_succ, N.pow_succ_r' in Hx.
    destruct fuel as [|fuel'].
    + change (128 ^ N.of_nat 0) with 1 in Hx. lia.
    + apply IH; [lia|]. apply N.div_lt_upper_bound; [discriminate|lia].
Qed.

Lemma rotl1_spec : forall c, c < 256 -> rotl1 c = (c * 2) mod 256 + c / 128.
Proof. unfold rotl1. by_bytes. Qed.

Lemma rotr1_rotl1 : forall c, c < 256 -> rotr1 (rotl1 c) = c.
Proof. unfold rotr1, rotl1. by_bytes. Qed.

Lemma rotl_terminated : forall l, varint_ok l -> terminated (map rotl1 l).
Proof.
  induction 1 as [c Hc | c l Hc Hl IH]; cbn [map].
  - apply term_last; rewrite rotl1_spec by lia; lia.
  - apply term_cons; [rewrite rotl1_spec by lia; lia | rewrite rotl1_spec by lia; lia | exact IH].
Qed.

Lemma tag_value : forall f k d, N.lor (f * 16) (to_discriminant k d) = f * 16 + to_discriminant k d.
Proof.
  intros. change 16 with (2 ^ 4). apply lor_disjoint. destruct k, d; reflexivity.
Qed.

Lemma valid_field_lt : forall f, field_number_valid f = true -> f < 2 ^ 29.
Proof.
  intros f H. unfold field_number_valid in H.
  apply andb_true_iff in H. destruct H as [H _]. apply andb_true_iff in H. destruct H as [_ H].
  apply N.leb_le in H. unfold LAST_FIELD_NUMBER in H. change (2 ^ 29) with 536870912. lia.
Qed.

Lemma field_number_terminated : forall f k d, f < 2 ^ 29 -> terminated (field_number f k d).
Proof.
  intros f k d Hf. unfold field_number. apply rotl_terminated. rewrite tag_value.
  apply v64_pack_ok; [lia|].
  change (2 ^ 29) with 536870912 in Hf.
  assert (to_discriminant k d < 16) by (destruct k, d; reflexivity).
  change (128 ^ N.of_nat 10) with 1180591620717411303424. lia.
Qed.

Lemma parse_next_tag_ok : forall f k d rest, f < 2 ^ 29 ->
  parse_next_tag f k d (field_number f k d ++ rest) = Ok1 rest.
Proof.
  intros f k d rest Hf. unfold parse_next_tag.
  rewrite tki_next_terminated by (now apply field_number_terminated).
  destruct (list_eq_dec N.eq_dec (field_number f k d) (field_number f k d)); [reflexivity|contradiction].
Qed.

(* ------------------------------------------------------------------ integers *)
Lemma cont_half : forall d, cont d / 2 = d.
Proof. intros. unfold cont. lia. Qed.

Lemma cont_byte : forall d, d < 128 -> cont d < 256.
Proof. intros. unfold cont. lia. Qed.

(* parse_from on continuation-marked 7-bit digits: Horner value of the digits, then the low bits *)
Lemma elem_parse_u32_digits : forall d0 d1 d2 d3 e,
  d0 < 128 -> d1 < 128 -> d2 < 128 -> d3 < 128 -> e < 16 ->
  elem_parse_u32 [cont d0; cont d1; cont d2; cont d3; e * 16] = Some (16 * be_val 128 [d0; d1; d2; d3] + e).
Proof.
  intros d0 d1 d2 d3 e H0 H1 H2 H3 He. unfold elem_parse_u32, W32, be_val. cbn [fold_left].
  rewrite !land254_byte by (now apply cont_byte). rewrite !cont_half.
  rewrite land240_byte by lia. norm_consts.
  rewrite !N.mod_small by lia. f_equal.
  rewrite (lor_split 25 _ (2 * d1 * 131072)) by (norm_consts; lia).
  rewrite (lor_split 18 _ (2 * d2 * 1024)) by (norm_consts; lia).
  rewrite (lor_split 11 _ (2 * d3 * 8)) by (norm_consts; lia).
  rewrite (lor_split 4 _ (16 * (e * 16 / 16) / 16)) by (norm_consts; lia).
  lia.
Qed.

Lemma parse_append_u32 : forall x, x < 2 ^ 32 -> elem_parse_u32 (append_u32 x) = Some x.
Proof.
  intros x Hx. rewrite append_u32_fixed. unfold fixed_enc.
  set (v := x / 2 ^ 4). change (2 ^ (8 - 4)) with 16.
  pose proof (be_val_digits 128 4 v ltac:(lia)) as BV.
  pose proof (be_digits_bound 128 4 v ltac:(discriminate)) as BD.
  cbn [be_digits map app] in *.
  repeat match goal with H : Forall _ (_ :: _) |- _ => apply Forall_cons_iff in H; destruct H as [? H] end.
  rewrite elem_parse_u32_digits by (assumption || (change (2 ^ 4) with 16; lia)).
  rewrite BV. f_equal. unfold v. change (128 ^ N.of_nat 4) with 268435456. change (2 ^ 4) with 16.
  change (2 ^ 32) with 4294967296 in Hx. clear - Hx. lia.
Qed.

Lemma elem_parse_u64_digits : forall d0 d1 d2 d3 d4 d5 d6 d7 d8 e,
  d0 < 128 -> d1 < 128 -> d2 < 128 -> d3 < 128 -> d4 < 128 ->
  d5 < 128 -> d6 < 128 -> d7 < 128 -> d8 < 128 -> e < 2 ->
  elem_parse_u64 [cont d0; cont d1; cont d2; cont d3; cont d4; cont d5; cont d6; cont d7; cont d8; e * 128]
  = Some (2 * be_val 128 [d0; d1; d2; d3; d4; d5; d6; d7; d8] + e).
Proof.
  intros d0 d1 d2 d3 d4 d5 d6 d7 d8 e H0 H1 H2 H3 H4 H5 H6 H7 H8 He.
  unfold elem_parse_u64, W64, be_val. cbn [fold_left].
  rewrite !land254_byte by (now apply cont_byte). rewrite !cont_half.
  rewrite land128_byte by lia. norm_consts.
  rewrite !N.mod_small by lia. f_equal.
  rewrite (lor_split 57 _ (2 * d1 * 562949953421312)) by (norm_consts; lia).
  rewrite (lor_split 50 _ (2 * d2 * 4398046511104)) by (norm_consts; lia).
  rewrite (lor_split 43 _ (2 * d3 * 34359738368)) by (norm_consts; lia).
  rewrite (lor_split 36 _ (2 * d4 * 268435456)) by (norm_consts; lia).
  rewrite (lor_split 29 _ (2 * d5 * 2097152)) by (norm_consts; lia).
  rewrite (lor_split 22 _ (2 * d6 * 16384)) by (norm_consts; lia).
  rewrite (lor_split 15 _ (2 * d7 * 128)) by (norm_consts; lia).
  rewrite (lor_split 8 _ (2 * d8)) by (norm_consts; lia).
  rewrite (lor_split 1 _ (128 * (e * 128 / 128) / 128)) by (norm_consts; lia).
  lia.
Qed.

Lemma parse_append_u64 : forall x, x < 2 ^ 64 -> elem_parse_u64 (append_u64 x) = Some x.
Proof.
  intros x Hx. rewrite append_u64_fixed. unfold fixed_enc.
  set (v := x / 2 ^ 1). change (2 ^ (8 - 1)) with 128.
  pose proof (be_val_digits 128 9 v ltac:(lia)) as BV.
  pose proof (be_digits_bound 128 9 v ltac:(discriminate)) as BD.
  cbn [be_digits map app] in *.
  repeat match goal with H : Forall _ (_ :: _) |- _ => apply Forall_cons_iff in H; destruct H as [? H] end.
  rewrite elem_parse_u64_digits by (assumption || (change (2 ^ 1) with 2; lia)).
  rewrite BV. f_equal. unfold v. change (128 ^ N.of_nat 9) with 9223372036854775808. change (2 ^ 1) with 2.
  change (2 ^ 64) with 18446744073709551616 in Hx. clear - Hx. lia.
Qed.

(* ------------------------------------------------------------------ Combine7BitChunks *)
Fixpoint unchunks7 (carry rb : N) (cs : list N) : list N :=
  match cs with
  | [] => []
  | c :: cs' =>
      let v := carry * 128 + c / 2 in
      if rb + 7 <? 8 then unchunks7 v (rb + 7) cs'
      else (v / 2 ^ (rb + 7 - 8)) mod 256 :: unchunks7 (v mod 2 ^ (rb + 7 - 8)) (rb + 7 - 8) cs'
  end.

Lemma cb_fill_full : forall rest remains rb, 8 <= rb -> cb_fill rest remains rb = (rest, remains, rb).
Proof.
  intros [|c rest] remains rb H; cbn [cb_fill]; [reflexivity|].
  destruct (N.ltb_spec rb 8); [lia|reflexivity].
Qed.

Lemma cb_fill_step : forall c rest remains rb, rb < 8 ->
  cb_fill (c :: rest) remains rb = cb_fill rest (N.lor ((remains * 128) mod W64) (c / 2)) (rb + 7).
Proof. intros. cbn [cb_fill]. destruct (N.ltb_spec rb 8); [reflexivity|lia]. Qed.

Lemma div_mod_pow : forall X a b, (X / 2 ^ a) mod 2 ^ b = (X mod 2 ^ (a + b)) / 2 ^ a.
Proof.
  intros X a b.
  assert (Pa : 2 ^ a <> 0) by (apply N.pow_nonzero; discriminate).
  assert (Pb : 2 ^ b <> 0) by (apply N.pow_nonzero; discriminate).
  rewrite N.pow_add_r. rewrite N.mod_mul_r by assumption.
  rewrite (N.mul_comm (2 ^ a)), N.div_add by assumption.
  rewrite (N.div_small (X mod 2 ^ a)) by (now apply N.mod_upper_bound). apply N.add_0_l.
Qed.

Lemma mod_mod_pow : forall X a b, a <= b -> (X mod 2 ^ b) mod 2 ^ a = X mod 2 ^ a.
Proof.
  intros X a b H.
  assert (Pa : 2 ^ a <> 0) by (apply N.pow_nonzero; discriminate).
  replace b with (a + (b - a)) by lia. rewrite N.pow_add_r.
  assert (Pc : 2 ^ (b - a) <> 0) by (apply N.pow_nonzero; discriminate).
  rewrite N.mod_mul_r by assumption.
  rewrite (N.mul_comm (2 ^ a)), N.mod_add by assumption. apply N.mod_mod. assumption.
Qed.

Lemma sub_78 : forall rb, rb + 7 - 8 = rb - 1.
Proof. intros. lia. Qed.

Lemma cb_key : forall remains c rb, c < 256 -> rb <= 7 ->
  ((remains * 128) mod W64 + c / 2) mod 2 ^ (rb + 7) = (remains mod 2 ^ rb * 128 + c / 2) mod 2 ^ (rb + 7).
Proof.
  intros remains c rb Hc Hrb. unfold W64.
  rb_cases rb Hrb; norm_consts; lia.
Qed.

Lemma cb_collect_unchunks : forall cs remains rb fuel, bytes_ok cs -> rb <= 7 ->
  (length cs < fuel)%nat ->
  cb_collect fuel cs remains rb = Some (unchunks7 (remains mod 2 ^ rb) rb cs).
Proof.
  induction cs as [|c cs IH]; intros remains rb fuel Hcs Hrb Hf.
  - destruct fuel as [|fuel]; [cbn in Hf; lia|].
    cbn [cb_collect unchunks7]. unfold cb_next. cbn [cb_fill].
    destruct (N.leb_spec 8 rb); [lia|reflexivity].
  - apply bytes_ok_cons in Hcs. destruct Hcs as [Hc Hcs]. cbn [length] in Hf.
    destruct fuel as [|fuel]; [lia|].
    assert (HL : N.lor ((remains * 128) mod W64) (c / 2) = (remains * 128) mod W64 + c / 2).
    { apply (lor_split 7); [change (2 ^ 7) with 128; lia|]. unfold W64. change (2 ^ 7) with 128. lia. }
    cbn [cb_collect]. unfold cb_next. rewrite cb_fill_step by lia. rewrite HL.
    set (R := (remains * 128) mod W64 + c / 2) in *.
    destruct (N.eq_dec rb 0) as [->|Hnz].
    + (* 7 bits pending after this chunk: the while loop goes on *)
      norm_consts.
      pose proof (IH R 7 (S fuel) Hcs ltac:(lia) ltac:(lia)) as H7.
      cbn [cb_collect] in H7. unfold cb_next in H7. rewrite H7.
      cbn [unchunks7]. cbv zeta. norm_consts. cbn iota.
      do 2 f_equal. unfold R, W64. lia.
    + rewrite cb_fill_full by lia.
      destruct (N.leb_spec 8 (rb + 7)); [|lia].
      rewrite (IH R (rb + 7 - 8) fuel Hcs) by lia.
      cbn [unchunks7]. cbv zeta.
      destruct (N.ltb_spec (rb + 7) 8); [lia|].
      pose proof (cb_key remains c rb Hc Hrb) as K. fold R in K.
      set (v := remains mod 2 ^ rb * 128 + c / 2) in *.
      rewrite !sub_78.
      assert (E1 : rb - 1 + 8 = rb + 7) by (clear - Hnz; lia).
      assert (E2 : rb - 1 <= rb + 7) by (clear; lia).
      f_equal. f_equal.
      * change 256 with (2 ^ 8). rewrite !div_mod_pow. rewrite E1. now rewrite K.
      * f_equal. rewrite <- (mod_mod_pow R (rb - 1) (rb + 7) E2), <- (mod_mod_pow v (rb - 1) (rb + 7) E2).
        now rewrite K.
Qed.

Lemma unchunks_chunks : forall s x rb, 0 < rb <= 7 -> x < 256 -> bytes_ok s ->
  unchunks7 (x / 2 ^ rb) (8 - rb) (chunks7 (x mod 2 ^ rb) rb s) = x :: s.
Proof.
  induction s as [|y s IH]; intros x rb Hrb Hx Hs.
  - cbn [chunks7]. destruct (N.eqb_spec rb 0); [lia|].
    cbn [unchunks7]. cbv zeta.
    destruct (N.ltb_spec (8 - rb + 7) 8); [lia|]. f_equal.
    rb_cases rb Hrb; try lia; norm_consts; lia.
  - apply bytes_ok_cons in Hs. destruct Hs as [Hy Hs].
    cbn [chunks7]. cbv zeta.
    destruct (N.ltb_spec (rb + 1) 8) as [Hlt|Hge].
    + cbn [unchunks7]. cbv zeta. destruct (N.ltb_spec (8 - rb + 7) 8); [lia|].
      f_equal; [rb_cases rb Hrb; try lia; norm_consts; lia|].
      specialize (IH y (rb + 1) ltac:(lia) Hy Hs).
      replace (8 - rb + 7 - 8) with (8 - (rb + 1)) by lia.
      replace ((x mod 2 ^ rb * 256 + y) mod 2 ^ (rb + 1)) with (y mod 2 ^ (rb + 1))
        by (rb_cases rb Hrb; try lia; norm_consts; lia).
      replace (((x / 2 ^ rb * 128 + (2 * ((x mod 2 ^ rb * 256 + y) / 2 ^ (rb + 1)) + 1) / 2)) mod 2 ^ (8 - (rb + 1)))
        with (y / 2 ^ (rb + 1)) by (rb_cases rb Hrb; try lia; norm_consts; lia).
      exact IH.
    + assert (rb = 7) by lia. subst rb. norm_consts.
      cbn [unchunks7]. cbv zeta. norm_consts. cbn iota.
      f_equal; [lia|].
      specialize (IH y 1 ltac:(lia) Hy Hs). norm_consts_in IH.
      replace (((x / 128 * 128 + (2 * ((x mod 128 * 256 + y) / 256) + 1) / 2) mod 1 * 128 +
                (2 * ((x mod 128 * 256 + y) mod 256 / 2) + 1) / 2)) with (y / 2) by lia.
      replace ((x mod 128 * 256 + y) mod 256 mod 2) with (y mod 2) by lia.
      exact IH.
Qed.

Lemma unchunks_str_enc : forall b s, b < 256 -> bytes_ok s ->
  unchunks7 0 0 (chunks7 0 0 (b :: s)) = b :: s.
Proof.
  intros b s Hb Hs. cbn [chunks7]. cbv zeta. norm_consts. cbn iota.
  cbn [unchunks7]. cbv zeta. norm_consts. cbn iota.
  pose proof (unchunks_chunks s b 1 ltac:(lia) Hb Hs) as H. norm_consts_in H.
  replace (0 + (2 * ((0 + b) / 2) + 1) / 2) with (b / 2) by lia.
  replace ((0 + b) mod 2) with (b mod 2) by lia. exact H.
Qed.

Lemma chunks7_length2 : forall b s, (2 <= length (chunks7 0 0 (b :: s)))%nat.
Proof.
  intros b s. cbn [chunks7]. cbv zeta. norm_consts. cbn iota. cbn [length].
  pose proof (chunks7_nonempty s ((0 + b) mod 2) 1 ltac:(lia)).
  destruct (chunks7 ((0 + b) mod 2) 1 s); [contradiction|cbn [length]; lia].
Qed.

Lemma parse_from_string : forall s, bytes_ok s -> utf8_valid s = true ->
  parse_from KString (str_enc s) = Ok1 (V1String s).
Proof.
  intros [|b s] Hs Hu; [reflexivity|].
  apply bytes_ok_cons in Hs. destruct Hs as [Hb Hs].
  unfold str_enc, parse_from.
  pose proof (chunks7_length2 b s) as L2.
  pose proof (str_enc_terminated (b :: s) ltac:(apply bytes_ok_cons; auto)) as T. unfold str_enc in T.
  set (cs := chunks7 0 0 (b :: s)) in *.
  rewrite (cb_collect_unchunks cs 0 0 _ (terminated_bytes_ok _ T)) by lia.
  change (0 mod 2 ^ 0) with 0. unfold cs. rewrite unchunks_str_enc by assumption. fold cs.
  rewrite Hu.
  destruct cs as [|c1 [|c2 cs']]; cbn [length] in L2; try lia. reflexivity.
Qed.

(* ------------------------------------------------------------------ elements *)
Lemma parse_from_val_enc : forall e, wf_el1 e -> utf8_el1 e ->
  parse_from (kty_of e) (val_enc e) = Ok1 e.
Proof.
  intros e W U. destruct e; cbn [kty_of val_enc parse_from wf_el1 utf8_el1] in *.
  - reflexivity.
  - now rewrite parse_append_u32.
  - now rewrite parse_append_u64.
  - rewrite ord_encode_i32_spec by assumption. rewrite parse_append_u32 by lia.
    now rewrite ord_decode_i32_spec.
  - rewrite ord_encode_i64_spec by assumption. rewrite parse_append_u64 by lia.
    now rewrite ord_decode_i64_spec.
  - now apply parse_from_string.
Qed.

Lemma dir_enc_terminated : forall d v, terminated v -> terminated (dir_enc d v).
Proof. intros [|] v T; cbn [dir_enc]; [exact T | now apply reverse_terminated]. Qed.

Lemma undo_dir : forall d v, bytes_ok v ->
  match d with Reverse => reverse_encoding (dir_enc d v) | Forward => dir_enc d v end = v.
Proof. intros [|] v B; cbn [dir_enc]; [reflexivity | now apply reverse_invol]. Qed.

Lemma parse_next_with_key_ok : forall fl rest, wf_field1 fl -> utf8_el1 (f_val fl) ->
  parse_next_with_key (f_num fl) (kty_of (f_val fl)) (f_dir fl) (field_enc fl ++ rest) = Ok1 (f_val fl, rest).
Proof.
  intros fl rest [Wf We] U. unfold parse_next_with_key, field_enc. rewrite <- app_assoc.
  rewrite parse_next_tag_ok by (now apply valid_field_lt).
  pose proof (val_enc_terminated _ We) as T.
  rewrite tki_next_terminated by (now apply dir_enc_terminated).
  rewrite undo_dir by (now apply terminated_bytes_ok).
  now rewrite parse_from_val_enc.
Qed.

Lemma parse_next_ok : forall fl rest, wf_field1 fl -> f_val fl = V1Unit ->
  parse_next (f_num fl) (f_dir fl) (field_enc fl ++ rest) = Ok1 (V1Unit, rest).
Proof.
  intros fl rest [Wf We] E. unfold parse_next, field_enc. rewrite E in *. cbn [kty_of val_enc].
  rewrite <- app_assoc.
  rewrite parse_next_tag_ok by (now apply valid_field_lt).
  destruct (f_dir fl); cbn [dir_enc reverse_encoding map app]; reflexivity.
Qed.

Lemma parse_field_ok : forall via fl rest, wf_field1 fl -> utf8_el1 (f_val fl) ->
  parse_field via (shape_of fl) (field_enc fl ++ rest) = Ok1 (f_val fl, rest).
Proof.
  intros via fl rest W U. unfold parse_field, shape_of. cbn [s_ty s_num s_dir].
  destruct (f_val fl) eqn:E; cbn [kty_of]; try (rewrite <- E in *;
    pose proof (parse_next_with_key_ok fl rest W U) as P; rewrite E in P; cbn [kty_of] in P; rewrite E; exact P).
  destruct via.
  - rewrite (parse_next_ok fl rest W E). reflexivity.
  - pose proof (parse_next_with_key_ok fl rest W) as P. rewrite E in P. cbn [kty_of utf8_el1] in P. exact (P I).
Qed.

Lemma decode1_enc1 : forall via t rest, wf1 t -> Forall (fun fl => utf8_el1 (f_val fl)) t ->
  decode1 via (map shape_of t) (enc1 t ++ rest) = Ok1 (map f_val t).
Proof.
  induction t as [|fl t IH]; intros rest W U; [reflexivity|].
  apply Forall_cons_iff in W. destruct W as [Wf Wt].
  apply Forall_cons_iff in U. destruct U as [Uf Ut].
  cbn [map decode1 enc1 flat_map]. rewrite <- app_assoc.
  rewrite parse_field_ok by assumption. fold (enc1 t). now rewrite IH.
Qed.

(* ------------------------------------------------------------------ no panic *)
Lemma cb_fill_shrinks : forall rest remains rb rest' remains' rb',
  rb < 8 -> cb_fill rest remains rb = (rest', remains', rb') ->
  rb' < 15 /\ (8 <= rb' -> (length rest' < length rest)%nat).
Proof.
  induction rest as [|c rest IH]; intros remains rb rest' remains' rb' Hrb H.
  - cbn [cb_fill] in H. injection H as <- <- <-. split; [lia|intros; lia].
  - rewrite cb_fill_step in H by assumption.
    destruct (N.lt_ge_cases (rb + 7) 8) as [Hs|Hb].
    + destruct (IH _ _ _ _ _ Hs H) as [I1 I2]. split; [assumption|]. intros G. specialize (I2 G). cbn [length]. lia.
    + rewrite cb_fill_full in H by assumption. injection H as <- <- <-.
      split; [lia|]. intros _. cbn [length]. lia.
Qed.

Lemma cb_collect_total : forall fuel rest remains rb, rb < 8 -> (length rest < fuel)%nat ->
  cb_collect fuel rest remains rb <> None.
Proof.
  induction fuel as [|fuel IH]; intros rest remains rb Hrb Hf; [lia|].
  cbn [cb_collect]. unfold cb_next.
  destruct (cb_fill rest remains rb) as [[rest' remains'] rb'] eqn:F.
  destruct (cb_fill_shrinks _ _ _ _ _ _ Hrb F) as [S1 S2].
  destruct (N.leb_spec 8 rb') as [Hge|Hlt]; [|discriminate].
  specialize (S2 Hge).
  specialize (IH rest' remains' (rb' - 8) ltac:(lia) ltac:(lia)).
  destruct (cb_collect fuel rest' remains' (rb' - 8)); [discriminate|contradiction].
Qed.

Lemma string_parse_no_panic : forall buf,
  match cb_collect (length buf + 1) buf 0 0 with
  | Some s => if utf8_valid s then Ok1 (V1String s) else Err1 InvalidUtf8_1
  | None => Panic1
  end <> Panic1.
Proof.
  intros buf.
  pose proof (cb_collect_total (length buf + 1) buf 0 0 ltac:(lia) ltac:(lia)) as H.
  destruct (cb_collect (length buf + 1) buf 0 0) as [l|]; [|contradiction].
  destruct (utf8_valid l); discriminate.
Qed.

Lemma parse_from_no_panic : forall k buf, parse_from k buf <> Panic1.
Proof.
  intros k buf. destruct k; cbn [parse_from].
  - destruct buf as [|? [|? ?]]; discriminate.
  - destruct (elem_parse_u32 buf); discriminate.
  - destruct (elem_parse_u64 buf); discriminate.
  - destruct (elem_parse_u32 buf); discriminate.
  - destruct (elem_parse_u64 buf); discriminate.
  - destruct buf as [|c1 [|c2 buf']]; try discriminate; apply string_parse_no_panic.
Qed.

Lemma parse_field_no_panic : forall via s rest, parse_field via s rest <> Panic1.
Proof.
  intros via s rest. unfold parse_field.
  assert (A : forall k, parse_next_with_key (s_num s) k (s_dir s) rest <> Panic1).
  { intros k. unfold parse_next_with_key, parse_next_tag.
    destruct (tki_next rest) as [[elem rest']|]; [|discriminate].
    destruct (list_eq_dec N.eq_dec _ elem); [|discriminate].
    destruct (tki_next rest') as [[value rest'']|]; [|discriminate].
    pose proof (parse_from_no_panic k (match s_dir s with Forward => value | Reverse => reverse_encoding value end)) as P.
    destruct (parse_from k _); [discriminate|discriminate|contradiction]. }
  destruct (s_ty s); try apply A. destruct via; [|apply A].
  unfold parse_next, parse_next_tag.
  destruct (tki_next rest) as [[elem rest']|]; [|discriminate].
  destruct (list_eq_dec N.eq_dec _ elem); [|discriminate].
  destruct (tki_next rest') as [[pad rest'']|]; [|discriminate].
  destruct pad as [|? [|? ?]]; discriminate.
Qed.

Lemma decode1_no_panic : forall via sh rest, decode1 via sh rest <> Panic1.
Proof.
  induction sh as [|s sh IH]; intros rest; cbn [decode1]; [discriminate|].
  pose proof (parse_field_no_panic via s rest) as P.
  destruct (parse_field via s rest) as [[e r]| |]; [|discriminate|contradiction].
  specialize (IH r). destruct (decode1 via sh r); [discriminate|discriminate|contradiction].
Qed.
