(* TupleKey/ProofsV1d.v — TupleKey::unfield_number inverts TupleKey::field_number (the path taken by
   TupleKeyParser::peek_next and Schema), through buffertk's v64 unpack on a rotated buffer. *)
From Coq Require Import NArith ZArith List Lia ZifyN ZifyBool Bool.
From Blue Require Import Gen.Const_TupleKey TupleKey.Lex TupleKey.Bits TupleKey.ModelV2 TupleKey.ModelV1 TupleKey.Spec
  TupleKey.ProofsV1a TupleKey.ProofsV1b TupleKey.ProofsV1c.
Import ListNotations.
Open Scope N_scope.
Ltac Zify.zify_post_hook ::= Z.to_euclidean_division_equations.

Arguments N.pow : simpl never.
Arguments N.div : simpl never.
Arguments N.modulo : simpl never.
Arguments N.mul : simpl never.
Arguments N.add : simpl never.
Arguments N.sub : simpl never.
Arguments N.lor : simpl never.
Arguments N.land : simpl never.
Arguments N.ltb : simpl never.
Arguments N.leb : simpl never.
Arguments N.eqb : simpl never.

Lemma v64_pack_length : forall n fuel x, (1 <= n <= fuel)%nat -> x < 128 ^ N.of_nat n ->
  (1 <= length (v64_pack fuel x) <= n)%nat.
Proof.
  induction n as [|n IH]; intros fuel x Hn Hx; [lia|].
  destruct fuel as [|fuel]; [lia|]. cbn [v64_pack].
  destruct (N.eqb_spec (x / 128) 0) as [E|NE]; [cbn [length]; lia|].
  cbn [length]. rewrite Nnat.Nat2N.inj_succ, N.pow_succ_r' in Hx.
  destruct n as [|n'].
  - change (128 ^ N.of_nat 0) with 1 in Hx. lia.
  - assert (Hd : x / 128 < 128 ^ N.of_nat (S n')) by (apply N.div_lt_upper_bound; [discriminate|lia]).
    specialize (IH fuel (x / 128) ltac:(lia) Hd). lia.
Qed.

Lemma varint_ok_bytes : forall l, varint_ok l -> bytes_ok l.
Proof. unfold bytes_ok. induction 1; constructor; auto; lia. Qed.

Lemma rotr_rotl_map : forall l, bytes_ok l -> map rotr1 (map rotl1 l) = l.
Proof.
  unfold bytes_ok. induction 1 as [|c l Hc Hl IH]; cbn [map]; [reflexivity|].
  now rewrite rotr1_rotl1, IH.
Qed.

Lemma land128_small : forall c, c < 128 -> N.land c 128 = 0.
Proof. intros c H. rewrite land128_byte by lia. lia. Qed.

Lemma land128_big : forall c, 128 <= c < 256 -> N.land c 128 = 128.
Proof. intros c H. rewrite land128_byte by lia. lia. Qed.

Lemma unpack_slow_cons : forall b c r ret shl,
  unpack_slow_loop (b :: c :: r) ret shl =
  if negb (N.land b 128 =? 0) then unpack_slow_loop (c :: r) (N.lor ret (N.land b 127 * 2 ^ shl)) (shl + 7)
  else Some (N.lor ret (N.land b 127 * 2 ^ shl)).
Proof. reflexivity. Qed.

Lemma unpack_slow_pack : forall fuel x ret shl, (0 < fuel)%nat -> x < 128 ^ N.of_nat fuel -> ret < 2 ^ shl ->
  unpack_slow_loop (v64_pack fuel x) ret shl = Some (ret + x * 2 ^ shl).
Proof.
  induction fuel as [|fuel IH]; intros x ret shl Hf Hx Hret; [lia|].
  cbn [v64_pack]. destruct (N.eqb_spec (x / 128) 0) as [E|NE].
  - cbn [unpack_slow_loop]. rewrite land128_small by lia. change (0 =? 0) with true. cbn iota.
    f_equal. rewrite land127_byte by lia. rewrite N.lor_comm, lor_disjoint by assumption.
    replace (x mod 128 mod 128) with x by lia. lia.
  - rewrite lor128_byte by lia.
    rewrite Nnat.Nat2N.inj_succ, N.pow_succ_r' in Hx.
    destruct fuel as [|fuel'].
    { change (128 ^ N.of_nat 0) with 1 in Hx. lia. }
    assert (Hd : x / 128 < 128 ^ N.of_nat (S fuel')) by (apply N.div_lt_upper_bound; [discriminate|lia]).
    pose proof (v64_pack_length (S fuel') (S fuel') (x / 128) ltac:(lia) Hd) as L.
    destruct (v64_pack (S fuel') (x / 128)) as [|c r] eqn:Ep; [cbn [length] in L; lia|].
    rewrite unpack_slow_cons. rewrite land128_big by lia. change (128 =? 0) with false. cbn [negb].
    rewrite <- Ep.
    assert (Hl : N.lor ret (N.land (x mod 128 + 128) 127 * 2 ^ shl) = ret + (x mod 128) * 2 ^ shl).
    { rewrite land127_byte by lia. replace ((x mod 128 + 128) mod 128) with (x mod 128) by lia.
      rewrite N.lor_comm, lor_disjoint by assumption. lia. }
    rewrite Hl.
    assert (P7 : 2 ^ (shl + 7) = 2 ^ shl * 128) by (rewrite N.pow_add_r; reflexivity).
    rewrite IH; [| lia | exact Hd |].
    + f_equal. rewrite P7.
      pose proof (N.div_mod x 128 ltac:(discriminate)) as Dx.
      set (q := x / 128) in *. set (m := x mod 128) in *. set (p := 2 ^ shl) in *.
      clearbody q m p. subst x. clear. nia.
    + rewrite P7. assert (x mod 128 < 128) by (apply N.mod_upper_bound; discriminate).
      set (m := x mod 128) in *. set (p := 2 ^ shl) in *. clearbody m p. clear - Hret H. nia.
Qed.

Lemma from_to_discriminant : forall k d, from_discriminant (to_discriminant k d) = Some (k, d).
Proof. destruct k, d; reflexivity. Qed.

Lemma unfield_field : forall f k d, field_number_valid f = true ->
  unfield_number (field_number f k d) = Some (f, k, d).
Proof.
  intros f k d V. pose proof (valid_field_lt f V) as Hf. change (2 ^ 29) with 536870912 in Hf.
  assert (Hdisc : to_discriminant k d < 16) by (destruct k, d; reflexivity).
  unfold unfield_number, field_number. rewrite tag_value.
  set (x := f * 16 + to_discriminant k d).
  assert (Hx5 : x < 128 ^ N.of_nat 5) by (change (128 ^ N.of_nat 5) with 34359738368; unfold x; lia).
  assert (Hx10 : x < 128 ^ N.of_nat 10) by (change (128 ^ N.of_nat 10) with 1180591620717411303424; unfold x; lia).
  pose proof (v64_pack_length 5 10 x ltac:(lia) Hx5) as L.
  pose proof (v64_pack_ok 10 x ltac:(lia) Hx10) as VO.
  rewrite map_length.
  destruct (N.ltb_spec 10 (N.of_nat (length (v64_pack 10 x)))); [lia|].
  rewrite rotr_rotl_map by (now apply varint_ok_bytes).
  unfold v64_unpack. destruct (N.ltb_spec (N.of_nat (length (v64_pack 10 x))) 10); [|lia].
  rewrite unpack_slow_pack by (lia || assumption || (change (2 ^ 0) with 1; lia)).
  change (2 ^ 0) with 1. rewrite N.add_0_l, N.mul_1_r.
  rewrite land15.
  replace (x mod 256 mod 16) with (to_discriminant k d) by (unfold x; lia).
  rewrite from_to_discriminant.
  replace (x / 16) with f by (unfold x; lia).
  destruct (N.ltb_spec (W32 - 1) f); [unfold W32 in *; lia|].
  now rewrite V.
Qed.

(* peek_next on an encoded key reports the first field's number, type and direction *)
Lemma peek_next_enc1 : forall fl t rest, wf1 (fl :: t) ->
  peek_next (enc1 (fl :: t) ++ rest) = Some (Some (f_num fl, kty_of (f_val fl), f_dir fl)).
Proof.
  intros fl t rest W. apply Forall_cons_iff in W. destruct W as [[Wf We] _].
  unfold peek_next, enc1. cbn [flat_map]. unfold field_enc. rewrite <- !app_assoc.
  rewrite tki_next_terminated by (apply field_number_terminated; now apply valid_field_lt).
  now rewrite unfield_field.
Qed.

Lemma peek_next_nil : peek_next [] = Some None.
Proof. reflexivity. Qed.
