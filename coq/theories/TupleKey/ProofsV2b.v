(* TupleKey/ProofsV2b.v — the compact parser accepts only what the builder produces: whenever
   decode2 returns a tuple, the bytes are exactly the encoding of that tuple (so the parser is the
   exact inverse of the builder: canonical integers, exact escapes, no slack). *)
From Coq Require Import NArith ZArith List Lia ZifyN ZifyBool Bool.
From Blue Require Import Gen.Const_TupleKey TupleKey.Lex TupleKey.Bits TupleKey.ModelV2 TupleKey.ModelV1 TupleKey.Spec TupleKey.ProofsV2.
Import ListNotations.
Open Scope N_scope.
Ltac Zify.zify_post_hook ::= Z.to_euclidean_division_equations.

Arguments N.pow : simpl never.
Arguments N.div : simpl never.
Arguments N.modulo : simpl never.
Arguments N.mul : simpl never.
Arguments N.add : simpl never.
Arguments N.sub : simpl never.
Arguments N.log2 : simpl never.

Lemma bytes_ok_app : forall a b, bytes_ok (a ++ b) <-> bytes_ok a /\ bytes_ok b.
Proof. intros. unfold bytes_ok. apply Forall_app. Qed.

Lemma take_payload_inv : forall len rest p r, take_payload len rest = Ok (p, r) ->
  rest = p ++ r /\ N.of_nat (length p) = len.
Proof.
  intros len rest p r H. pose proof (take_payload_length _ _ _ _ H) as L.
  unfold take_payload in H. destruct (len <=? N.of_nat (length rest)); [|discriminate].
  injection H as <- <-. split; [symmetry; apply firstn_skipn | exact L].
Qed.

Lemma parse_bytes_loop_inv : forall rest acc d r, parse_bytes_loop rest acc = Ok (d, r) ->
  exists b, d = acc ++ b /\ rest = encode_bytes b ++ r.
Proof.
  fix IH 1. intros [|byte rest'] acc d r H; cbn [parse_bytes_loop] in H; [discriminate|].
  destruct (N.eqb_spec byte 0) as [->|Hb].
  - destruct rest' as [|escape rest'']; [discriminate|].
    destruct (N.eqb_spec escape 0) as [->|He].
    + injection H as <- <-. exists []. split; [now rewrite app_nil_r | reflexivity].
    + destruct (N.eqb_spec escape 255) as [->|He2]; [|discriminate].
      destruct (IH rest'' _ _ _ H) as (b & -> & ->).
      exists (0 :: b). split; [now rewrite <- app_assoc | reflexivity].
  - destruct (IH rest' _ _ _ H) as (b & -> & ->).
    exists (byte :: b). split; [now rewrite <- app_assoc|].
    cbn [encode_bytes]. destruct (N.eqb_spec byte 0); [contradiction|reflexivity].
Qed.

Lemma pow256_le_W64 : forall n, n <= 8 -> 256 ^ n <= W64.
Proof. intros n H. change W64 with (256 ^ 8). apply N.pow_le_mono_r; [discriminate|assumption]. Qed.

Lemma decode_u64_payload_inv : forall p v, bytes_ok p -> decode_u64_payload p = Ok v ->
  N.of_nat (length p) <= 8 /\ v = be_value p /\ minimal_u64_len v = N.of_nat (length p) /\ v < W64.
Proof.
  intros p v Bp H. unfold decode_u64_payload, decode_big_endian_payload in H.
  destruct (N.ltb_spec 8 (N.of_nat (length p))) as [|L8]; [discriminate|].
  destruct (N.eqb_spec (minimal_u64_len (be_value p)) (N.of_nat (length p))) as [E|]; [|discriminate].
  injection H as <-. repeat split; try assumption.
  pose proof (be_value_bound p Bp). pose proof (pow256_le_W64 _ L8). lia.
Qed.

Lemma tagged_inv : forall base tag p, base <= tag -> bytes_ok p ->
  minimal_u64_len (be_value p) = N.of_nat (length p) -> tag - base = N.of_nat (length p) ->
  (base + minimal_u64_len (be_value p)) :: be_bytes (N.to_nat (minimal_u64_len (be_value p))) (be_value p)
  = tag :: p.
Proof.
  intros base tag p Hb Bp M T. rewrite M, Nnat.Nat2N.id, be_bytes_value by assumption. f_equal. lia.
Qed.

Lemma parse_u64_inv : forall rest v r, bytes_ok rest -> parse_u64 rest = Ok (v, r) ->
  rest = encode_u64 v ++ r /\ v < W64.
Proof.
  intros rest v r B H. unfold parse_u64 in H.
  destruct rest as [|tag r0]; cbn [take_one] in H; [discriminate|].
  unfold unsigned_len, in_rng in H.
  destruct ((UNSIGNED_BASE <=? tag) && (tag <=? UNSIGNED_LAST)) eqn:E; [|discriminate].
  apply andb_true_iff in E. destruct E as [E1 E2]. apply N.leb_le in E1, E2.
  destruct (take_payload (tag - UNSIGNED_BASE) r0) as [[p r']|e|] eqn:T; try discriminate.
  apply take_payload_inv in T. destruct T as [-> L].
  change (tag :: p ++ r') with ([tag] ++ p ++ r') in B.
  apply bytes_ok_app in B. destruct B as [_ B]. apply bytes_ok_app in B. destruct B as [Bp _].
  destruct (decode_u64_payload p) as [v'|e|] eqn:D; try discriminate.
  injection H as <- <-.
  destruct (decode_u64_payload_inv p v' Bp D) as (L8 & -> & M & W).
  split; [|exact W]. rewrite encode_u64_spec by assumption.
  rewrite (tagged_inv UNSIGNED_BASE tag p) by (assumption || lia). reflexivity.
Qed.

Lemma neg_magnitude_inv : forall p, bytes_ok p -> N.of_nat (length p) <= 8 ->
  exists m,
    match p with
    | [] => Ok 0
    | _ :: _ =>
        match decode_big_endian_payload p with
        | Ok encoded => Ok (N.land (not64 encoded)
                              (if N.of_nat (length p) =? 8 then W64 - 1 else 2 ^ (N.of_nat (length p) * 8) - 1))
        | Err e => Err e
        | Panic => Panic
        end
    end = Ok m /\ m < 256 ^ N.of_nat (length p) /\
    be_bytes (length p) (256 ^ N.of_nat (length p) - 1 - m) = p.
Proof.
  intros p Bp Hlen. destruct p as [|b0 p'].
  - exists 0. repeat split.
  - remember (b0 :: p') as q eqn:Eq. rewrite decode_be_no_panic by assumption.
    pose proof (be_value_bound q Bp) as Bv.
    exists (256 ^ N.of_nat (length q) - 1 - be_value q). split; [|split].
    + f_equal. rewrite land_mask by assumption. now apply not64_low.
    + lia.
    + replace (256 ^ N.of_nat (length q) - 1 - (256 ^ N.of_nat (length q) - 1 - be_value q)) with (be_value q) by lia.
      now apply be_bytes_value.
Qed.

Lemma parse_i64_inv : forall rest v r, bytes_ok rest -> parse_i64 rest = Ok (v, r) ->
  rest = encode_i64 v ++ r /\ i64_ok v.
Proof.
  intros rest v r B H. unfold parse_i64 in H. pose proof tag_ranges as TR.
  destruct rest as [|tag r0]; cbn [take_one] in H; [discriminate|].
  unfold signed_negative_len, signed_nonnegative_len, in_rng in H.
  destruct ((SIGNED_NEG_BASE <=? tag) && (tag <=? SIGNED_NEG_LAST)) eqn:E.
  - (* negative *)
    apply andb_true_iff in E. destruct E as [E1 E2]. apply N.leb_le in E1, E2.
    destruct (take_payload (8 - (tag - SIGNED_NEG_BASE)) r0) as [[p r']|e|] eqn:T; try discriminate.
    apply take_payload_inv in T. destruct T as [-> L].
    change (tag :: p ++ r') with ([tag] ++ p ++ r') in B.
    apply bytes_ok_app in B. destruct B as [_ B]. apply bytes_ok_app in B. destruct B as [Bp _].
    destruct (decode_negative_i64_payload p) as [v'|e|] eqn:D; try discriminate.
    injection H as <- <-.
    unfold decode_negative_i64_payload in D.
    set (len := N.of_nat (length p)) in *.
    assert (Hlen : len <= 8) by lia.
    destruct (neg_magnitude_inv p Bp Hlen) as (m & Em & Bm & Ebytes). fold len in Em, Bm, Ebytes.
    rewrite Em in D.
    destruct (N.eqb_spec (minimal_u64_len m) len) as [M|]; [|discriminate]. cbn [negb] in D.
    destruct (N.ltb_spec I64_MAX m) as [|HI]; [discriminate|]. injection D as <-.
    assert (Hok : i64_ok (- Z.of_N m - 1)) by (unfold i64_ok, I64_MAX in *; lia).
    split; [|exact Hok].
    rewrite encode_i64_neg by (assumption || lia).
    replace (neg_mag (- Z.of_N m - 1)) with m by (unfold neg_mag; lia).
    rewrite M. unfold len at 2. rewrite Nnat.Nat2N.id, Ebytes. cbn [app]. f_equal. lia.
  - (* non-negative *)
    destruct ((SIGNED_NONNEG_BASE <=? tag) && (tag <=? SIGNED_NONNEG_LAST)) eqn:E'; [|discriminate].
    apply andb_true_iff in E'. destruct E' as [E1 E2]. apply N.leb_le in E1, E2.
    destruct (take_payload (tag - SIGNED_NONNEG_BASE) r0) as [[p r']|e|] eqn:T; try discriminate.
    apply take_payload_inv in T. destruct T as [-> L].
    change (tag :: p ++ r') with ([tag] ++ p ++ r') in B.
    apply bytes_ok_app in B. destruct B as [_ B]. apply bytes_ok_app in B. destruct B as [Bp _].
    unfold decode_nonnegative_i64_payload in H.
    destruct (decode_u64_payload p) as [u|e|] eqn:D; try discriminate.
    destruct (N.leb_spec u I64_MAX) as [HI|]; [|discriminate].
    injection H as <- <-.
    destruct (decode_u64_payload_inv p u Bp D) as (L8 & -> & M & W).
    assert (Hok : i64_ok (Z.of_N (be_value p))) by (unfold i64_ok, I64_MAX in *; lia).
    split; [|exact Hok].
    rewrite encode_i64_nonneg by (assumption || lia). rewrite N2Z.id.
    rewrite (tagged_inv SIGNED_NONNEG_BASE tag p) by (assumption || lia). reflexivity.
Qed.

Lemma encode_bytes_ok_inv : forall b, bytes_ok (encode_bytes b) -> bytes_ok b.
Proof.
  unfold bytes_ok. induction b as [|x b IH]; intros B; [constructor|].
  cbn [encode_bytes] in B. destruct (N.eqb_spec x 0) as [->|Hx].
  - inversion B as [|? ? H0 B1]; subst. inversion B1; subst. constructor; [lia|auto].
  - inversion B; subst. constructor; auto.
Qed.

Definition ty_ok (t : ty2) : Prop :=
  match t with T2U bits | T2I bits => width_ok bits | _ => True end.

Lemma parse_el2_inv : forall t rest e r, bytes_ok rest -> parse_el2 t rest = Ok (e, r) ->
  rest = encode_el2 e ++ r /\ ty_of2 e = t /\ (ty_ok t -> wf_el2 e).
Proof.
  intros t rest e r B H. destruct t; cbn [parse_el2] in H.
  - unfold parse_unit in H. destruct rest as [|tag r0]; cbn [take_one] in H; [discriminate|].
    destruct (N.eqb_spec tag UNIT_TAG) as [->|]; [|discriminate]. injection H as <- <-.
    repeat split.
  - unfold parse_bytes in H. destruct (parse_bytes_loop rest []) as [[b r']|e'|] eqn:P; try discriminate.
    injection H as <- <-. destruct (parse_bytes_loop_inv _ _ _ _ P) as (b' & -> & ->).
    cbn [app encode_el2 ty_of2 wf_el2]. repeat split.
    apply bytes_ok_app in B. destruct B as [B _]. intros _. now apply encode_bytes_ok_inv.
  - unfold parse_string, parse_bytes in H.
    destruct (parse_bytes_loop rest []) as [[b r']|e'|] eqn:P; try discriminate.
    destruct (utf8_valid b) eqn:U; [|discriminate].
    injection H as <- <-. destruct (parse_bytes_loop_inv _ _ _ _ P) as (b' & -> & ->).
    cbn [app encode_el2 ty_of2 wf_el2]. repeat split; [|exact U].
    apply bytes_ok_app in B. destruct B as [B _]. now apply encode_bytes_ok_inv.
  - unfold parse_u_as in H. destruct (parse_u64 rest) as [[v r']|e'|] eqn:P; try discriminate.
    destruct (N.ltb_spec v (2 ^ bits)) as [Hv|]; [|discriminate]. injection H as <- <-.
    destruct (parse_u64_inv _ _ _ B P) as [-> W]. cbn [encode_el2 ty_of2 wf_el2 ty_ok]. repeat split; auto.
  - unfold parse_i_as in H. destruct (parse_i64 rest) as [[v r']|e'|] eqn:P; try discriminate.
    destruct (Z.leb_spec (- Z.of_N (2 ^ (bits - 1))) v) as [H1|]; [|discriminate].
    destruct (Z.ltb_spec v (Z.of_N (2 ^ (bits - 1)))) as [H2|]; [|discriminate].
    cbn [andb] in H. injection H as <- <-.
    destruct (parse_i64_inv _ _ _ B P) as [-> W]. cbn [encode_el2 ty_of2 wf_el2 ty_ok]. repeat split; auto.
Qed.

Lemma decode2_inv : forall tys rest t, bytes_ok rest -> decode2 tys rest = Ok t ->
  encode2 t = rest /\ map ty_of2 t = tys /\ (Forall ty_ok tys -> wf2 t).
Proof.
  induction tys as [|ty tys IH]; intros rest t B H; cbn [decode2] in H.
  - destruct rest; [|discriminate]. injection H as <-. repeat split. constructor.
  - destruct (parse_el2 ty rest) as [[e r]|e'|] eqn:P; try discriminate.
    destruct (decode2 tys r) as [es|e'|] eqn:D; try discriminate.
    injection H as <-.
    destruct (parse_el2_inv _ _ _ _ B P) as (-> & Ty & Wf).
    apply bytes_ok_app in B. destruct B as [_ Br].
    destruct (IH r es Br D) as (E & M & W).
    unfold encode2 in *. cbn [flat_map map]. rewrite E, Ty, M. repeat split.
    intros F. apply Forall_cons_iff in F. destruct F as [F1 F2].
    apply Forall_cons; [exact (Wf F1) | exact (W F2)].
Qed.
