(* Mani/ProofsChainLts.v — the fragment chain is an invariant of the whole transition system
   (every history, every crash point, every torn tail, any number of crashes). *)
From Coq Require Import NArith Arith List Bool Lia Sorted.
From Blue Require Import Mani.Model Mani.Fs Mani.ModelMani Mani.ProofsOrder Mani.ProofsFormat Mani.ProofsFs
  Mani.ProofsCrash Mani.ProofsLts Mani.ProofsChain.
Import ListNotations.
Open Scope N_scope.

Arguments N.add : simpl never.
Arguments N.sub : simpl never.
Arguments N.ltb : simpl never.
Arguments N.eqb : simpl never.

Section WithCrc.
  Variable crc : list N -> N.
  Variable ratio : N.

  Local Notation rd := (read_mani crc).
  Local Notation chain := (chain crc).
  Local Notation chain_any := (chain_any crc).

  (* ---------------------------------------------------------------- the next identifier under a chain *)
  Lemma fold_max_exact l B : (forall n, In n l -> n <= B) -> (B = 0 \/ In B l) -> fold_left N.max l 0 = B.
  Proof.
    intros Hle Hin. destruct (fold_max_ge l 0) as [_ Hge].
    assert (Hub : forall a, a <= B -> fold_left N.max l a <= B).
    { clear Hin Hge. induction l as [|y l IH]; intros a Ha; simpl; auto.
      apply IH; [intros n Hn; apply Hle; now right|].
      assert (y <= B) by (apply Hle; now left). lia. }
    assert (fold_left N.max l 0 <= B) by (apply Hub; lia).
    destruct Hin as [->|Hin]; [lia|].
    apply (proj1 (Forall_forall _ _) Hge) in Hin. lia.
  Qed.

  Lemma settled_in_ids s K a n : chain s K a -> 1 <= n <= K -> In n (backup_ids (f_dir s)).
  Proof.
    intros Hc Hn. destruct (ch_settled _ _ _ _ Hc n Hn) as (nd & S & H1 & _).
    apply fnode_lookup in H1. destruct H1 as (i & Li & _).
    apply backup_ids_in. exists i. now apply dir_lookup_in.
  Qed.

  Lemma next_id_chain s K a : chain s K a ->
    next_manifest_identifier s = (if a then K + 2 else K + 1).
  Proof.
    intros Hc. unfold next_manifest_identifier.
    rewrite (fold_max_exact _ (if a then K + 1 else K)).
    - destruct a; lia.
    - intros n Hn. destruct (ch_ids _ _ _ _ Hc n Hn) as [H|[Ha Hn2]]; destruct a; try discriminate; lia.
    - destruct a.
      + right. destruct (ch_alias _ _ _ _ Hc eq_refl) as (i & Li & _).
        apply backup_ids_in. exists i. now apply dir_lookup_in.
      + destruct (N.eq_dec K 0) as [->|Hne]; [now left|right].
        eapply settled_in_ids; eauto. lia.
  Qed.

  Lemma fix_needed_chain s K a : chain s K a ->
    (1 <? next_manifest_identifier s) && same_inode (FBackup (next_manifest_identifier s - 1)) FMani s = a.
  Proof.
    intros Hc. rewrite (next_id_chain s K a Hc). destruct a.
    - replace (K + 2 - 1) with (K + 1) by lia.
      destruct (ch_alias _ _ _ _ Hc eq_refl) as (i & Li & Lm).
      unfold same_inode. rewrite Li, Lm, Nat.eqb_refl.
      destruct (N.ltb_spec 1 (K + 2)); [reflexivity|lia].
    - replace (K + 1 - 1) with K by lia.
      destruct (N.ltb_spec 1 (K + 1)) as [H|H]; [|reflexivity]. cbn [andb].
      destruct (ch_settled _ _ _ _ Hc K ltac:(lia)) as (nd & S & H1 & _ & _ & H4).
      unfold same_inode. destruct (lookup (FBackup K) s) as [i|]; auto.
      destruct (lookup FMani s) as [j|]; auto.
      destruct (Nat.eqb_spec i j); auto. subst. contradiction.
  Qed.

  (* ---------------------------------------------------------------- open *)
  Lemma content_some_fnode f s bs : content f s = Some bs -> exists nd, fnode f s = Some nd /\ i_data nd = bs.
  Proof.
    rewrite content_fnode. destruct (fnode f s) as [nd|]; simpl; [|discriminate].
    intros H; inversion H. eauto.
  Qed.

  Lemma chain_open s K a st m s' calls :
    chain s K a -> dur_m s -> ascii_m s -> rd (content FMani s) = Ok st ->
    (exists s0 lastf, replay (open_calls s) s = Some s0 /\
        lastf = (if (1 <? next_manifest_identifier s) && same_inode (FBackup (next_manifest_identifier s - 1)) FMani s
                 then next_manifest_identifier s - 1 else next_manifest_identifier s) /\
        ((exists_file FMani s0 = true /\ calls = open_calls s ++ roll_calls crc (mkMani st lastf ratio) s0 /\
          replay (roll_calls crc (mkMani st lastf ratio) s0) s0 = Some s' /\ m_last m = lastf + 1) \/
         (exists_file FMani s0 = false /\ calls = open_calls s /\ s' = s0 /\ m_last m = lastf))) ->
    all_prefixes chain_any calls s /\
    exists K', chain s' K' false /\ dur_m s' /\ ascii_m s' /\ m_last m = K' + 1.
  Proof.
    intros Hc Hd Has Hr (s0 & lastf & R0 & El & Hcase).
    pose proof (fix_needed_chain s K a Hc) as Fx. pose proof (next_id_chain s K a Hc) as Nx.
    rewrite Fx in El.
    assert (El' : lastf = K + 1) by (rewrite Nx in El; destruct a; lia). clear El.
    assert (OC : open_calls s = if a then [CUnlink (FBackup (K + 1))] else []).
    { unfold open_calls. cbv zeta. rewrite Fx, Nx. destruct a; [|reflexivity].
      replace (K + 2 - 1) with (K + 1) by lia. reflexivity. }
    (* the state after the optional unlink *)
    assert (H0 : all_prefixes chain_any (open_calls s) s /\ chain s0 K false /\ dur_m s0 /\
                 content FMani s0 = content FMani s /\ ascii_m s0).
    { rewrite OC in *. destruct a.
      - cbn [replay] in R0. destruct (exec (CUnlink (FBackup (K + 1))) s) as [x|] eqn:E; [|discriminate].
        inversion R0; subst x.
        destruct (frame_unlink _ _ _ FMani E ltac:(discriminate)) as [_ Fm].
        split; [|split; [eapply chain_unlink_alias; eauto|split; [|split]]].
        + assert (A0' : ascii_m s0) by (intros nd Hnd; rewrite Fm in Hnd; now apply Has).
          apply all_prefixes_cons; [eapply any_of; eauto|]. intros x Ex. rewrite E in Ex. inversion Ex; subst x.
          apply all_prefixes_nil. eapply any_of; eauto. eapply chain_unlink_alias; eauto.
        + intros nd Hnd. rewrite Fm in Hnd. now apply Hd.
        + now rewrite !content_fnode, Fm.
        + intros nd Hnd. rewrite Fm in Hnd. now apply Has.
      - cbn [replay] in R0. inversion R0; subst s0.
        split; [apply all_prefixes_nil; eapply any_of; eauto|auto]. }
    destruct H0 as (AP0 & C0 & D0 & Ct0 & A0).
    destruct Hcase as [(Ex & Ec & Rr & Em)|(Ex & Ec & Es & Em)].
    - destruct (exists_file_fnode FMani s0 (ch_ok _ _ _ _ C0) Ex) as (ndm & Hndm).
      assert (Rm : rd (Some (i_data ndm)) = Ok st).
      { rewrite <- Ct0, content_fnode, Hndm in Hr. exact Hr. }
      destruct (chain_roll_calls crc s0 K (mkMani st lastf ratio) ndm C0 Hndm (D0 _ Hndm) (A0 _ Hndm) Rm
                  (read_mani_wf crc _ _ Rm) El') as [AP1 F1].
      destruct (F1 s' Rr) as (C1 & D1 & A1).
      split.
      + rewrite Ec. apply all_prefixes_app; auto. intros x Ex0. rewrite R0 in Ex0. inversion Ex0; subst x. exact AP1.
      + exists (K + 1). split; [exact C1|split; [exact D1|split; [exact A1|lia]]].
    - subst s'. split; [now rewrite Ec|]. exists K. split; [exact C0|split; [exact D0|split; [exact A0|lia]]].
  Qed.

  (* ---------------------------------------------------------------- the invariant over the transition system *)
  Definition inv_ch (c : cfg) : Prop :=
    exists K a, chain (c_fs c) K a /\ dur_m (c_fs c) /\ ascii_m (c_fs c) /\
      match c_h c with
      | Some m => a = false /\ m_last m = K + 1
      | None => True
      end.

  Lemma crash_img_b t s img : crash_img t s img -> crash_b s img.
  Proof. destruct t; simpl; [auto|intros ->; apply crash_a_is_b]. Qed.

  Lemma inv_ch_crash s img t h :
    chain_any s -> crash_img t s img ->
    inv_ch (mkCfg img None (c_acked h) (c_pend h) (c_edits h) true (c_torn h || t)).
  Proof.
    intros [(K & a & Hc) Ha] Hi. apply crash_img_b in Hi.
    destruct (chain_crash crc s K a img Hc Hi) as [C D].
    exists K, a. simpl. split; auto. split; auto. split; auto. eapply ascii_crash; eauto.
  Qed.

  Lemma inv_ch_step c c' : reach crc ratio c -> inv_ch c -> step crc ratio c c' -> inv_ch c'.
  Proof.
    intros Hreach (K & a & Hc & Hd & Has & Hh0) Hstep.
    destruct (inv_reach crc ratio c Hreach) as [_ Hmain].
    destruct Hstep as [c m w Hh Ho | c m w k s' t img Hh Ho Hr Hcr
                      | c m e m' w Hh He Ha | c m e m' w k s' t img Hh He Ha Hr Hcr
                      | c m m' w Hh Hro | c m m' w k s' t img Hh Hro Hr Hcr
                      | c m Hh | c t img Hcr];
      rewrite ?Hh in Hmain, Hh0.
    - (* open *)
      destruct Hmain as (Hok & Hs & _).
      destruct (rd (content FMani (c_fs c))) as [st|x|] eqn:R.
      + pose proof (down_read crc (allowed c) (c_fs c) st Hs R) as Hp.
        destruct (open_spec_full crc (allowed c) ratio (c_fs c) st Hok R Hs Hp)
          as (m0 & s0 & calls & E & Em & _ & _ & Hex).
        rewrite E in Ho. inversion Ho; subst m0 w.
        destruct (chain_open (c_fs c) K a st m s0 calls Hc Hd Has R Hex) as (_ & K' & C' & D' & A' & L').
        exists K', false. simpl. auto.
      + rewrite (open_err crc ratio _ x R) in Ho. discriminate.
      + exfalso. exact (rd_no_panic crc _ R).
    - (* crash during open *)
      destruct Hmain as (Hok & Hs & _).
      destruct (rd (content FMani (c_fs c))) as [st|x|] eqn:R.
      + pose proof (down_read crc (allowed c) (c_fs c) st Hs R) as Hp.
        destruct (open_spec_full crc (allowed c) ratio (c_fs c) st Hok R Hs Hp)
          as (m0 & s0 & calls & E & Em & _ & _ & Hex).
        rewrite E in Ho. inversion Ho; subst m0 w. cbn [snd] in Hr.
        destruct (chain_open (c_fs c) K a st m s0 calls Hc Hd Has R Hex) as (AP & _).
        apply (inv_ch_crash s' img t c); auto. exact (AP k s' Hr).
      + rewrite (open_err crc ratio _ x R) in Ho. discriminate.
      + exfalso. exact (rd_no_panic crc _ R).
    - (* apply *)
      destruct Hmain as (Hup & _). destruct Hh0 as [-> Hl].
      destruct (apply_spec_full crc m (c_fs c) e [] Hup He)
        as (m0 & s0 & calls & E & Em & _ & _ & s3 & n3 & R3 & F3 & D3 & Rd3 & Hcase).
      rewrite E in Ha. inversion Ha; subst m0 w. cbn [fst].
      destruct (chain_apply3 crc (c_fs c) K e Hc Has He) as [_ F]. destruct (F s3 R3) as (C3 & Dm3 & Am3).
      destruct Hcase as [(Ec & -> & El)|(Ec & Rr & El)].
      + exists K, false. simpl. split; [exact C3|split; [exact Dm3|split; [exact Am3|split; [reflexivity|congruence]]]].
      + set (m1 := mkMani (apply_edit e (m_st m)) (m_last m) (m_ratio m)) in *.
        assert (Wn : wf_state (m_st m1)) by (apply apply_edit_wf; auto; apply Hup).
        destruct (chain_roll_calls crc s3 K m1 n3 C3 F3 D3 (Am3 _ F3) Rd3 Wn Hl) as [_ F1].
        destruct (F1 s0 Rr) as (C1 & D1 & A1).
        exists (K + 1), false. simpl. split; [exact C1|split; [exact D1|split; [exact A1|split; [reflexivity|lia]]]].
    - (* crash during apply *)
      destruct Hmain as (Hup & _). destruct Hh0 as [-> Hl].
      destruct (apply_spec_full crc m (c_fs c) e [] Hup He)
        as (m0 & s0 & calls & E & Em & _ & _ & s3 & n3 & R3 & F3 & D3 & Rd3 & Hcase).
      rewrite E in Ha. inversion Ha; subst m0 w. cbn [snd app] in Hr.
      destruct (chain_apply3 crc (c_fs c) K e Hc Has He) as [AP3 F]. destruct (F s3 R3) as (C3 & Dm3 & Am3).
      apply (inv_ch_crash s' img t c); auto.
      destruct Hcase as [(Ec & _ & _)|(Ec & Rr & El)].
      + rewrite Ec in Hr. exact (AP3 k s' Hr).
      + set (m1 := mkMani (apply_edit e (m_st m)) (m_last m) (m_ratio m)) in *.
        assert (Wn : wf_state (m_st m1)) by (apply apply_edit_wf; auto; apply Hup).
        destruct (chain_roll_calls crc s3 K m1 n3 C3 F3 D3 (Am3 _ F3) Rd3 Wn Hl) as [AP1 _].
        rewrite Ec in Hr.
        assert (AP : all_prefixes chain_any (apply3 crc e ++ roll_calls crc m1 s3) (c_fs c)).
        { apply all_prefixes_app; auto. intros x Ex. rewrite R3 in Ex. inversion Ex; subst x. exact AP1. }
        exact (AP k s' Hr).
    - (* rollover *)
      destruct Hmain as (Hup & _). destruct Hh0 as [-> Hl].
      pose proof Hup as [Hok Hwf Hids Hfrag].
      destruct Hfrag as [(F1 & F2 & F3)|(es & nd & F1 & F2 & F3 & F4 & F5)].
      { exfalso. exact (rollover_absent crc m (c_fs c) [] _ F2 Hro). }
      assert (Rd : rd (Some (i_data nd)) = Ok (m_st m)).
      { rewrite F2, <- F5. now apply read_roundtrip. }
      destruct (exact_node_safe crc (eq (m_st m)) nd (m_st m) F3 Rd eq_refl) as [Hs _].
      destruct (rollover_spec crc (eq (m_st m)) m (c_fs c) [] nd Hok F1 Hs Rd eq_refl Hwf Hids)
        as (s1 & E & Rr & _ & _).
      rewrite E in Hro. inversion Hro; subst m' w. cbn [fst].
      destruct (chain_roll_calls crc (c_fs c) K m nd Hc F1 F3 (Has _ F1) Rd Hwf Hl) as [_ Fr].
      destruct (Fr s1 Rr) as (C1 & D1 & A1).
      exists (K + 1), false. simpl. split; [exact C1|split; [exact D1|split; [exact A1|split; [reflexivity|lia]]]].
    - (* crash during rollover *)
      destruct Hmain as (Hup & _). destruct Hh0 as [-> Hl].
      pose proof Hup as [Hok Hwf Hids Hfrag].
      destruct Hfrag as [(F1 & F2 & F3)|(es & nd & F1 & F2 & F3 & F4 & F5)].
      { exfalso. exact (rollover_absent crc m (c_fs c) [] _ F2 Hro). }
      assert (Rd : rd (Some (i_data nd)) = Ok (m_st m)).
      { rewrite F2, <- F5. now apply read_roundtrip. }
      destruct (exact_node_safe crc (eq (m_st m)) nd (m_st m) F3 Rd eq_refl) as [Hs _].
      destruct (rollover_spec crc (eq (m_st m)) m (c_fs c) [] nd Hok F1 Hs Rd eq_refl Hwf Hids)
        as (s1 & E & Rr & _ & _).
      rewrite E in Hro. inversion Hro; subst m' w. cbn [snd app] in Hr.
      destruct (chain_roll_calls crc (c_fs c) K m nd Hc F1 F3 (Has _ F1) Rd Hwf Hl) as [AP _].
      apply (inv_ch_crash s' img t c); auto. exact (AP k s' Hr).
    - (* close *)
      exists K, a. simpl. auto.
    - (* crash while idle *)
      apply (inv_ch_crash (c_fs c) img t c); auto. eapply any_of; eauto.
  Qed.

  Lemma inv_ch_init : inv_ch (init_cfg).
  Proof. destruct (chain_init crc) as [C D]. exists 0, false. simpl. split; auto. split; auto. split; auto. apply ascii_init. Qed.

  Theorem inv_ch_reach c : reach crc ratio c -> inv_ch c.
  Proof.
    induction 1 as [|c c' Hr IH Hs]; [apply inv_ch_init|].
    eapply inv_ch_step; eauto.
  Qed.

  (* ---------------------------------------------------------------- the first edit of a fragment *)
  Local Notation fel := (first_edit_lines crc).

  Lemma fe_rm_lines rms : forall acc rest, Forall wf_str rms ->
    fel (map (crc_line crc 45) rms ++ rest) acc =
    fel rest (mkEdit (e_add acc) (fold_left (fun s p => set_insert p s) rms (e_rm acc)) (e_info acc)).
  Proof.
    induction rms as [|p rms IH]; intros acc rest H.
    - now destruct acc.
    - inversion H; subst. cbn [map app first_edit_lines].
      rewrite do_line_crc by (auto; try lia; discriminate).
      change (45 =? 43) with false. change (45 =? 45) with true. cbv iota.
      unfold edit_rm. rewrite check_str_ok by auto. cbn [lift_edit].
      rewrite IH by auto. reflexivity.
  Qed.

  Lemma fe_add_lines adds : forall acc rest, Forall wf_str adds ->
    fel (map (crc_line crc 43) adds ++ rest) acc =
    fel rest (mkEdit (fold_left (fun s p => set_insert p s) adds (e_add acc)) (e_rm acc) (e_info acc)).
  Proof.
    induction adds as [|p adds IH]; intros acc rest H.
    - now destruct acc.
    - inversion H; subst. cbn [map app first_edit_lines].
      rewrite do_line_crc by (auto; try lia; discriminate).
      change (43 =? 43) with true. cbv iota.
      unfold edit_add. rewrite check_str_ok by auto. cbn [lift_edit].
      rewrite IH by auto. reflexivity.
  Qed.

  Lemma fe_info_lines infos : forall acc rest, Forall wf_kv infos ->
    fel (map (fun kv => crc_line crc (fst kv) (snd kv)) infos ++ rest) acc =
    fel rest (mkEdit (e_add acc) (e_rm acc)
                (fold_left (fun s kv => map_insert (fst kv) (snd kv) s) infos (e_info acc))).
  Proof.
    induction infos as [|[k v] infos IH]; intros acc rest H.
    - now destruct acc.
    - inversion H as [|? ? [[K1 [K2 [K3 K4]]] Hv] Hl]; subst. cbn [map app first_edit_lines fst snd] in *.
      rewrite do_line_crc by auto.
      destruct (N.eqb_spec k 43); [contradiction|].
      destruct (N.eqb_spec k 45); [contradiction|].
      unfold edit_info. rewrite check_key_ok by (repeat split; auto).
      rewrite check_str_ok by auto. cbn [lift_edit].
      rewrite IH by auto. reflexivity.
  Qed.

  Lemma first_edit_ser e rest : wf_edit e ->
    read_first_edit crc (Some (ser_edit crc e ++ rest)) = Ok (Some e).
  Proof.
    intros Hwf. pose proof Hwf as [A B C D E F]. unfold read_first_edit.
    rewrite ser_edit_lines, lines_nl_lines by (now apply edit_lines_good).
    unfold edit_lines, crc_lines. rewrite <- !app_assoc.
    rewrite fe_rm_lines by auto. rewrite fe_add_lines by auto. rewrite fe_info_lines by auto.
    cbn [e_add e_rm e_info empty_edit].
    rewrite (fold_set_insert_sorted (e_rm e) []) by exact B.
    rewrite (fold_set_insert_sorted (e_add e) []) by exact A.
    rewrite (fold_map_insert_sorted (e_info e) []) by exact C.
    cbn [app first_edit_lines]. rewrite do_line_sep. now destruct e.
  Qed.

  (* ---------------------------------------------------------------- the chain, spelled out *)
  Theorem fragments_chain c m : reach crc ratio c -> c_h c = Some m ->
    exists K, m_last m = K + 1 /\
      (forall n, In n (backup_ids (f_dir (c_fs c))) <-> 1 <= n <= K) /\
      (forall n, 1 <= n <= K ->
         exists S, rd (content (FBackup n) (c_fs c)) = Ok S /\
                   (n < K -> read_first_edit crc (content (FBackup (n + 1)) (c_fs c)) = Ok (Some (rollup S))) /\
                   (n = K -> read_first_edit crc (content FMani (c_fs c)) = Ok (Some (rollup S)))).
  Proof.
    intros Hr Hh. destruct (inv_ch_reach c Hr) as (K & a & Hc & Hd & _ & Hm). rewrite Hh in Hm.
    destruct Hm as [-> Hl]. exists K. split; [exact Hl|]. split.
    - intros n. split.
      + intros Hn. destruct (ch_ids _ _ _ _ Hc n Hn) as [H|[H _]]; [exact H|discriminate].
      + intros Hn. eapply settled_in_ids; eauto.
    - intros n Hn. destruct (ch_settled _ _ _ _ Hc n Hn) as (nd & S & H1 & H2 & H3 & H4).
      exists S. split; [now rewrite content_fnode, H1|].
      assert (Hs : forall x, starts_with_rollup crc S x ->
                             read_first_edit crc (Some (i_data x)) = Ok (Some (rollup S))).
      { intros x (rest & E & _). rewrite E. apply first_edit_ser. apply rollup_wf.
        exact (read_mani_wf crc _ _ H3). }
      split.
      + intros Hlt. destruct (ch_links _ _ _ _ Hc (n + 1) ltac:(lia)) as (ndp & Sp & nb & L1 & L2 & L3 & L4).
        replace (n + 1 - 1) with n in L1 by lia. rewrite H1 in L1. inversion L1; subst ndp.
        rewrite H3 in L2. inversion L2; subst Sp.
        rewrite content_fnode, L3. simpl. now apply Hs.
      + intros ->. destruct (ch_head _ _ _ _ Hc) as [HK|(_ & ndp & Sp & nb & L1 & L2 & L3 & L4)]; [lia|].
        rewrite H1 in L1. inversion L1; subst ndp. rewrite H3 in L2. inversion L2; subst Sp.
        rewrite content_fnode, L3. simpl. now apply Hs.
  Qed.

  (* ---------------------------------------------------------------- the class of a reopen failure *)
  (* MANIFEST only ever holds ASCII text written by the writer (possibly torn): a reopen can only
     fail with `corruption`, or with `string-disallowed` when the checksum of a torn line collides *)
  Theorem reopen_error_class c x : reach crc ratio c -> c_h c = None ->
    m_open crc ratio (c_fs c, []) = Err x -> soft_err x.
  Proof.
    intros Hr Hh He. destruct (inv_ch_reach c Hr) as (K & a & Hc & _ & Ha & _).
    pose proof (open_is_read crc ratio (c_fs c) (ch_ok crc _ _ _ Hc)) as Ho.
    destruct (rd (content FMani (c_fs c))) as [st|y|] eqn:R.
    - destruct Ho as (m & w & E & _). congruence.
    - rewrite Ho in He. inversion He; subst y. rewrite content_fnode in R.
      destruct (fnode FMani (c_fs c)) as [nd|] eqn:Fn; cbn [option_map] in R; [|discriminate].
      exact (read_ascii_err crc (i_data nd) x (Ha nd Fn) R).
    - contradiction.
  Qed.

End WithCrc.
