(* Mani/Fs.v — a small file-system model for the manifest directory.  Definitions only.

   One directory.  Names are the ones mani uses: MANIFEST, MANIFEST.tmp, MANIFEST.<n>
   (LOCKFILE carries no data and is left out; foreign names are outside the model).
   A name maps to an inode number; an inode is its bytes plus the length of the prefix that is
   known to be on stable storage (everything up to the last fdatasync).  Hard links are two names
   with the same inode number.  Inode numbers are indices into an append-only table.

   OS semantics assumed (stated in the evidence): completed calls are atomic and ordered;
   link / unlink / rename / create are durable on return; file data is durable up to the last
   successful fdatasync.
   Crash model (a) = the process dies between two calls: the image is the current contents.
   Crash model (b) = power loss: every inode keeps some prefix of its data that is at least its
   durable prefix. *)
From Coq Require Import NArith List Bool.
Import ListNotations.
Open Scope N_scope.

Inductive fname := FMani | FTmp | FBackup (n : N).

Definition fname_eqb (a b : fname) : bool :=
  match a, b with
  | FMani, FMani => true
  | FTmp, FTmp => true
  | FBackup x, FBackup y => x =? y
  | _, _ => false
  end.

Record inode := mkInode { i_data : list N; i_dur : nat }.

Record fs := mkFs { f_dir : list (fname * nat); f_ino : list inode }.

Definition empty_fs : fs := mkFs [] [].

Fixpoint dir_lookup (f : fname) (d : list (fname * nat)) : option nat :=
  match d with
  | [] => None
  | (g, i) :: d' => if fname_eqb f g then Some i else dir_lookup f d'
  end.

Fixpoint dir_remove (f : fname) (d : list (fname * nat)) : list (fname * nat) :=
  match d with
  | [] => []
  | (g, i) :: d' => if fname_eqb f g then dir_remove f d' else (g, i) :: dir_remove f d'
  end.

Definition dir_set (f : fname) (i : nat) (d : list (fname * nat)) : list (fname * nat) :=
  (f, i) :: dir_remove f d.

Definition lookup (f : fname) (s : fs) : option nat := dir_lookup f (f_dir s).

Fixpoint upd_nth {A} (n : nat) (x : A) (l : list A) : list A :=
  match l, n with
  | [], _ => []
  | _ :: l', O => x :: l'
  | y :: l', S n' => y :: upd_nth n' x l'
  end.

(* content of a file, None if the name is absent *)
Definition content (f : fname) (s : fs) : option (list N) :=
  match lookup f s with
  | None => None
  | Some i => match nth_error (f_ino s) i with
              | Some nd => Some (i_data nd)
              | None => None
              end
  end.

Definition exists_file (f : fname) (s : fs) : bool :=
  match lookup f s with Some _ => true | None => false end.

(* std::fs::metadata(path).len() *)
Definition file_len (f : fname) (s : fs) : option N :=
  match content f s with
  | Some bs => Some (N.of_nat (length bs))
  | None => None
  end.

(* the mutating system calls mani issues *)
Inductive call :=
| COpenAppend (f : fname)            (* open(O_WRONLY|O_CREAT|O_APPEND) *)
| CWrite (f : fname) (bs : list N)   (* write of the whole buffer to the fd opened on f *)
| CFdatasync (f : fname)
| CLink (src dst : fname)
| CUnlink (f : fname)
| CRename (src dst : fname).

(* None = the call fails (ENOENT / EEXIST) *)
Definition exec (c : call) (s : fs) : option fs :=
  match c with
  | COpenAppend f =>
      match lookup f s with
      | Some _ => Some s
      | None => Some (mkFs (dir_set f (length (f_ino s)) (f_dir s)) (f_ino s ++ [mkInode [] 0]))
      end
  | CWrite f bs =>
      match lookup f s with
      | None => None
      | Some i =>
          match nth_error (f_ino s) i with
          | None => None
          | Some nd => Some (mkFs (f_dir s) (upd_nth i (mkInode (i_data nd ++ bs) (i_dur nd)) (f_ino s)))
          end
      end
  | CFdatasync f =>
      match lookup f s with
      | None => None
      | Some i =>
          match nth_error (f_ino s) i with
          | None => None
          | Some nd => Some (mkFs (f_dir s) (upd_nth i (mkInode (i_data nd) (length (i_data nd))) (f_ino s)))
          end
      end
  | CLink src dst =>
      match lookup src s, lookup dst s with
      | Some i, None => Some (mkFs (dir_set dst i (f_dir s)) (f_ino s))
      | _, _ => None
      end
  | CUnlink f =>
      match lookup f s with
      | Some _ => Some (mkFs (dir_remove f (f_dir s)) (f_ino s))
      | None => None
      end
  | CRename src dst =>
      match lookup src s with
      | Some i => Some (mkFs (dir_set dst i (dir_remove src (f_dir s))) (f_ino s))
      | None => None
      end
  end.

(* replay a recorded call sequence; None if some call fails *)
Fixpoint replay (cs : list call) (s : fs) : option fs :=
  match cs with
  | [] => Some s
  | c :: cs' => match exec c s with Some s' => replay cs' s' | None => None end
  end.

(* ---- crash images *)
(* one inode after power loss: keeps n bytes, dur <= n <= len; afterwards all of it is durable
   (`min dur len` is `dur`: the durable length never exceeds the length; written with `min` so
   that the relation needs no side condition) *)
Definition cut_inode (n : nat) (nd : inode) : inode := mkInode (firstn n (i_data nd)) n.

(* crash model (b): every inode independently keeps a prefix that covers its durable prefix *)
Inductive crash_b : fs -> fs -> Prop :=
| crash_b_intro : forall s inos,
    Forall2 (fun nd nd' => exists n, (Nat.min (i_dur nd) (length (i_data nd)) <= n <= length (i_data nd))%nat
                                     /\ nd' = cut_inode n nd)
            (f_ino s) inos ->
    crash_b s (mkFs (f_dir s) inos).

(* crash model (a): nothing is lost *)
Definition crash_a_image (s : fs) : fs :=
  mkFs (f_dir s) (map (fun nd => cut_inode (length (i_data nd)) nd) (f_ino s)).

(* executable enumeration used by the correspondence: cut the inode of one name to n bytes and keep
   everything else in full *)
Definition cut_file (f : fname) (n : nat) (s : fs) : fs :=
  match lookup f s with
  | None => crash_a_image s
  | Some i =>
      mkFs (f_dir s)
           (map (fun p => if Nat.eqb (fst p) i then cut_inode n (snd p)
                          else cut_inode (length (i_data (snd p))) (snd p))
                (combine (seq 0 (length (f_ino s))) (f_ino s)))
  end.

(* read_dir: the backup indices present *)
Fixpoint backup_ids (d : list (fname * nat)) : list N :=
  match d with
  | [] => []
  | (FBackup n, _) :: d' => n :: backup_ids d'
  | _ :: d' => backup_ids d'
  end.
