(* Extraction of the executable manifest model for the correspondence check.
   Directives in force: those of ExtrOcamlBasic only (bool, option, unit, list, prod, sumbool,
   sumor extracted to OCaml's own; N, positive, nat stay inductive).  No Extract Constant of ours:
   the checksum stays the first argument `crc` of run_case and is supplied by the driver. *)
From Coq Require Import NArith List.
From Blue Require Import Mani.Model Mani.Fs Mani.ModelMani Mani.Lock.
Require Import ExtrOcamlBasic.
Extraction Language OCaml.
Extraction "../ocaml/mani/gen_mani.ml" run_case lock_run N.of_nat N.to_nat.
