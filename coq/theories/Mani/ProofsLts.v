(* Mani/ProofsLts.v — the life of a manifest directory as a transition system: open, apply,
   rollover, close, and a crash at ANY system call of any of them (process death = nothing torn,
   power loss = every inode keeps a prefix covering its durable part), any number of times.
   Ghost fields record what a reopen is allowed to return. *)
From Coq Require Import NArith Arith List Bool Lia Sorted.
From Blue Require Import Mani.Model Mani.Fs Mani.ModelMani Mani.ProofsOrder Mani.ProofsFormat Mani.ProofsFs Mani.ProofsCrash.
Import ListNotations.
Open Scope N_scope.

Section WithCrc.
  Variable crc : list N -> N.
  Variable ratio : N.

  Local Notation rd := (read_mani crc).

  Record cfg := mkCfg {
    c_fs : fs;
    c_h : option mani;            (* the open handle; None = the process is down *)
    c_acked : state;              (* ghost: state after the last acknowledged edit *)
    c_pend : option state;        (* ghost: state after the edit in flight when the process died *)
    c_edits : list edit;          (* ghost: the edits applied so far (meaningful while no crash happened) *)
    c_crashed : bool;             (* ghost: some crash happened *)
    c_torn : bool                 (* ghost: some crash was a power loss (data may be torn) *)
  }.

  Definition init_cfg : cfg := mkCfg empty_fs None empty_state None [] false false.

  (* what a reopen may return: the acknowledged state, or the state after the one edit in flight *)
  Definition allowed (c : cfg) (st : state) : Prop := st = c_acked c \/ c_pend c = Some st.

  Definition crash_img (t : bool) (s img : fs) : Prop :=
    if t then crash_b s img else img = crash_a_image s.

  Inductive step : cfg -> cfg -> Prop :=
  | step_open c m w :
      c_h c = None -> m_open crc ratio (c_fs c, []) = Ok (m, w) ->
      step c (mkCfg (fst w) (Some m) (m_st m) None (c_edits c) (c_crashed c) (c_torn c))
  | step_open_crash c m w k s' t img :
      c_h c = None -> m_open crc ratio (c_fs c, []) = Ok (m, w) ->
      replay (firstn k (snd w)) (c_fs c) = Some s' -> crash_img t s' img ->
      step c (mkCfg img None (c_acked c) (c_pend c) (c_edits c) true (c_torn c || t))
  | step_apply c m e m' w :
      c_h c = Some m -> wf_edit e -> m_apply crc m e (c_fs c, []) = Ok (m', w) ->
      step c (mkCfg (fst w) (Some m') (m_st m') None (c_edits c ++ [e]) (c_crashed c) (c_torn c))
  | step_apply_crash c m e m' w k s' t img :
      c_h c = Some m -> wf_edit e -> m_apply crc m e (c_fs c, []) = Ok (m', w) ->
      replay (firstn k (snd w)) (c_fs c) = Some s' -> crash_img t s' img ->
      step c (mkCfg img None (c_acked c) (Some (m_st m')) (c_edits c) true (c_torn c || t))
  | step_rollover c m m' w :
      c_h c = Some m -> rollover crc m (c_fs c, []) = Ok (m', w) ->
      step c (mkCfg (fst w) (Some m') (c_acked c) None (c_edits c) (c_crashed c) (c_torn c))
  | step_rollover_crash c m m' w k s' t img :
      c_h c = Some m -> rollover crc m (c_fs c, []) = Ok (m', w) ->
      replay (firstn k (snd w)) (c_fs c) = Some s' -> crash_img t s' img ->
      step c (mkCfg img None (c_acked c) (c_pend c) (c_edits c) true (c_torn c || t))
  | step_close c m :
      c_h c = Some m ->
      step c (mkCfg (c_fs c) None (c_acked c) (c_pend c) (c_edits c) (c_crashed c) (c_torn c))
  | step_crash c t img :
      crash_img t (c_fs c) img ->
      step c (mkCfg img None (c_acked c) (c_pend c) (c_edits c) true (c_torn c || t)).

  Inductive reach : cfg -> Prop :=
  | reach_init : reach init_cfg
  | reach_step c c' : reach c -> step c c' -> reach c'.

  (* ---------------------------------------------------------------- the invariant *)
  Definition dgood (P : state -> Prop) (K : Prop) (s : fs) : Prop :=
    fs_ok s /\ node_safe crc P (fnode FMani s) /\ (K -> node_full crc P (fnode FMani s)).

  Definition inv (c : cfg) : Prop :=
    (c_crashed c = false ->
       c_acked c = spec_state (c_edits c) /\ c_pend c = None /\ c_torn c = false /\
       Forall wf_edit (c_edits c)) /\
    match c_h c with
    | Some m => up_inv crc (c_fs c) m /\ c_acked c = m_st m /\ c_pend c = None
    | None => dgood (allowed c) (c_torn c = false) (c_fs c)
    end.

  Lemma mgood_dgood (P : state -> Prop) s : mgood crc P s -> dgood P True s.
  Proof. intros (A & B & C). split; [exact A|split; [exact B|intros _; exact C]]. Qed.

  Lemma dgood_impl (P Q : state -> Prop) (K L : Prop) s :
    (forall x, P x -> Q x) -> (L -> K) -> dgood P K s -> dgood Q L s.
  Proof.
    intros H HK (A & B & C). split; auto. split.
    - eapply node_safe_impl; eauto.
    - intros HL. eapply node_full_impl; eauto.
  Qed.

  Lemma dgood_crash (P : state -> Prop) (K : Prop) t s img :
    dgood P K s -> crash_img t s img -> dgood P (K /\ t = false) img.
  Proof.
    intros (A & B & C) Hc. destruct t; simpl in Hc.
    - split; [eapply crash_b_fs_ok; eauto|]. split; [eapply crash_b_node_safe; eauto|].
      intros [_ H]. discriminate.
    - subst img. split; [now apply fs_ok_crash_a|].
      split; [eapply crash_b_node_safe; [apply crash_a_is_b|exact B]|].
      intros [HK _]. apply crash_a_node_full. auto.
  Qed.

  Lemma down_read (P : state -> Prop) s st :
    node_safe crc P (fnode FMani s) -> rd (content FMani s) = Ok st -> P st.
  Proof.
    intros Hs Hr. rewrite content_fnode in Hr. destruct (fnode FMani s) as [nd|]; cbn [option_map] in Hr.
    - destruct (node_safe_full_read crc P nd Hs) as [(x & E)|(st' & E & Hp)]; congruence.
    - inversion Hr; subst. exact Hs.
  Qed.

  (* what open does with a down directory *)
  Lemma open_down (P : state -> Prop) s m w :
    fs_ok s -> node_safe crc P (fnode FMani s) -> m_open crc ratio (s, []) = Ok (m, w) ->
    P (m_st m) /\ up_inv crc (fst w) m /\ all_prefixes (mgood crc P) (snd w) s.
  Proof.
    intros Hok Hs Ho. destruct (rd (content FMani s)) as [st|x|] eqn:R.
    - pose proof (down_read P s st Hs R) as Hp.
      destruct (open_spec crc P ratio s st Hok R Hs Hp) as (m0 & s' & calls & E & Em & Hup & Hall).
      rewrite E in Ho. inversion Ho; subst. simpl. auto.
    - rewrite (open_err crc ratio s x R) in Ho. discriminate.
    - exfalso. exact (rd_no_panic crc _ R).
  Qed.

  Lemma rollover_absent m s tr r : lookup FMani s = None -> rollover crc m (s, tr) <> Ok r.
  Proof.
    intros Hl. unfold rollover. destruct (to_edit (m_st m)); try discriminate.
    unfold sys. cbn [fst exec]. rewrite Hl. discriminate.
  Qed.

  Lemma rollover_up m s m' w :
    up_inv crc s m -> rollover crc m (s, []) = Ok (m', w) ->
    m_st m' = m_st m /\ up_inv crc (fst w) m' /\ all_prefixes (mgood crc (eq (m_st m))) (snd w) s.
  Proof.
    intros Hup Hr. pose proof Hup as [Hok Hwf Hids Hfrag].
    destruct Hfrag as [(F1 & F2 & F3)|(es & nd & F1 & F2 & F3 & F4 & F5)].
    - exfalso. exact (rollover_absent m s [] _ F2 Hr).
    - assert (Rd : rd (Some (i_data nd)) = Ok (m_st m)).
      { rewrite F2, <- F5. now apply read_roundtrip. }
      destruct (exact_node_safe crc (eq (m_st m)) nd (m_st m) F3 Rd eq_refl) as [Hs _].
      destruct (rollover_spec crc (eq (m_st m)) m s [] nd Hok F1 Hs Rd eq_refl Hwf Hids)
        as (s' & E & _ & Hall & Hup').
      rewrite E in Hr. inversion Hr; subst. simpl. auto.
  Qed.

  Lemma inv_step c c' : inv c -> step c c' -> inv c'.
  Proof.
    intros [Hclean Hmain] Hstep.
    destruct Hstep as [c m w Hh Ho | c m w k s' t img Hh Ho Hr Hc
                      | c m e m' w Hh He Ha | c m e m' w k s' t img Hh He Ha Hr Hc
                      | c m m' w Hh Hro | c m m' w k s' t img Hh Hro Hr Hc
                      | c m Hh | c t img Hc];
      rewrite ?Hh in Hmain; unfold inv; cbn [c_fs c_h c_acked c_pend c_edits c_crashed c_torn].
    - (* open *)
      destruct Hmain as (Hok & Hs & _).
      destruct (open_down (allowed c) (c_fs c) m w Hok Hs Ho) as (Hp & Hup & _).
      split; [|auto]. intros Hcr. destruct (Hclean Hcr) as (E1 & E2 & E3 & E4).
      repeat split; auto. destruct Hp as [Hp|Hp]; [congruence|]. rewrite E2 in Hp. discriminate.
    - (* crash during open *)
      destruct Hmain as (Hok & Hs & _).
      destruct (open_down (allowed c) (c_fs c) m w Hok Hs Ho) as (_ & _ & Hall).
      split; [discriminate|].
      pose proof (Hall k s' Hr) as G. apply mgood_dgood in G.
      eapply dgood_impl; [| |exact (dgood_crash _ _ t s' img G Hc)]; auto.
      intros H. apply orb_false_elim in H. tauto.
    - (* apply *)
      destruct Hmain as (Hup & Eack & Epend).
      destruct (apply_spec crc m (c_fs c) e [] Hup He) as (m0 & s0 & calls & E & Em & Hup' & _).
      rewrite E in Ha. inversion Ha; subst m0 w. cbn [fst].
      split; [|auto]. intros Hcr. destruct (Hclean Hcr) as (E1 & E2 & E3 & E4).
      repeat split; auto.
      + rewrite Em, spec_state_snoc, <- E1, Eack. reflexivity.
      + apply Forall_app; split; auto.
    - (* crash during apply *)
      destruct Hmain as (Hup & Eack & Epend).
      destruct (apply_spec crc m (c_fs c) e [] Hup He) as (m0 & s0 & calls & E & Em & _ & Hall).
      rewrite E in Ha. inversion Ha; subst m0 w. cbn [snd app] in Hr.
      split; [discriminate|].
      pose proof (Hall k s' Hr) as G. apply mgood_dgood in G.
      eapply dgood_impl; [| |exact (dgood_crash _ _ t s' img G Hc)].
      + unfold allowed. cbn [c_acked c_pend]. intros x [Hx|Hx]; [left; congruence|right; congruence].
      + intros H. apply orb_false_elim in H. tauto.
    - (* rollover *)
      destruct Hmain as (Hup & Eack & Epend).
      destruct (rollover_up m (c_fs c) m' w Hup Hro) as (Em & Hup' & _).
      split; [|split; [exact Hup'|split; [congruence|reflexivity]]].
      intros Hcr. destruct (Hclean Hcr) as (E1 & E2 & E3 & E4). repeat split; auto.
    - (* crash during rollover *)
      destruct Hmain as (Hup & Eack & Epend).
      destruct (rollover_up m (c_fs c) m' w Hup Hro) as (_ & _ & Hall).
      split; [discriminate|].
      pose proof (Hall k s' Hr) as G. apply mgood_dgood in G.
      eapply dgood_impl; [| |exact (dgood_crash _ _ t s' img G Hc)].
      + unfold allowed. cbn [c_acked c_pend]. intros x Hx. left. congruence.
      + intros H. apply orb_false_elim in H. tauto.
    - (* close *)
      destruct Hmain as (Hup & Eack & Epend).
      split; [exact Hclean|].
      pose proof (up_inv_mgood crc _ _ Hup) as G. apply mgood_dgood in G.
      eapply dgood_impl; [| |exact G]; auto.
      unfold allowed. cbn [c_acked c_pend]. intros x Hx. left. congruence.
    - (* crash while idle (handle open or not) *)
      split; [discriminate|].
      assert (G : dgood (allowed c) (c_torn c = false) (c_fs c)).
      { destruct (c_h c) as [m|].
        - destruct Hmain as (Hup & Eack & Epend).
          pose proof (up_inv_mgood crc _ _ Hup) as G. apply mgood_dgood in G.
          eapply dgood_impl; [| |exact G]; auto.
          unfold allowed. intros x Hx. left. congruence.
        - exact Hmain. }
      eapply dgood_impl; [| |exact (dgood_crash _ _ t _ img G Hc)]; auto.
      intros H. apply orb_false_elim in H. tauto.
  Qed.

  Lemma inv_init : inv init_cfg.
  Proof.
    split.
    - intros _. repeat split; auto. constructor.
    - simpl. split; [apply fs_ok_empty|]. split; simpl.
      + left. reflexivity.
      + intros _. exists empty_state. split; [reflexivity|left; reflexivity].
  Qed.

  Theorem inv_reach c : reach c -> inv c.
  Proof. induction 1; [apply inv_init|eapply inv_step; eauto]. Qed.

  (* ---------------------------------------------------------------- consequences *)
  (* open returns exactly what read_mani returns on MANIFEST *)
  Lemma open_is_read s : fs_ok s ->
    match rd (content FMani s) with
    | Ok st => exists m w, m_open crc ratio (s, []) = Ok (m, w) /\ m_st m = st
    | Err x => m_open crc ratio (s, []) = Err x
    | Panic => False
    end.
  Proof.
    intros Hok. destruct (rd (content FMani s)) as [st|x|] eqn:R.
    - assert (Hs : node_safe crc (fun _ => True) (fnode FMani s)).
      { destruct (fnode FMani s) as [nd|]; simpl; auto.
        intros n _. destruct (rd (Some (firstn n (i_data nd)))) eqn:E; eauto.
        exfalso. exact (rd_no_panic crc _ E). }
      destruct (open_spec crc (fun _ => True) ratio s st Hok R Hs I) as (m & s' & calls & E & Em & _).
      eauto.
    - now apply open_err.
    - exact (rd_no_panic crc _ R).
  Qed.

  Theorem crash_atomic c : reach c -> c_h c = None ->
    match m_open crc ratio (c_fs c, []) with
    | Ok (m, _) => allowed c (m_st m)
    | Err _ => True
    | Panic => False
    end.
  Proof.
    intros Hr Hh. destruct (inv_reach c Hr) as [_ Hmain]. rewrite Hh in Hmain.
    destruct Hmain as (Hok & Hs & _).
    pose proof (open_is_read (c_fs c) Hok) as Ho.
    destruct (rd (content FMani (c_fs c))) as [st|x|] eqn:R.
    - destruct Ho as (m & w & E & Em). rewrite E. subst st. eapply down_read; eauto.
    - now rewrite Ho.
    - contradiction.
  Qed.

  Theorem untorn_reopens c : reach c -> c_h c = None -> c_torn c = false ->
    exists m w, m_open crc ratio (c_fs c, []) = Ok (m, w) /\ allowed c (m_st m).
  Proof.
    intros Hr Hh Ht. destruct (inv_reach c Hr) as [_ Hmain]. rewrite Hh in Hmain.
    destruct Hmain as (Hok & Hs & Hf). destruct (Hf Ht) as (st & R & Hp).
    rewrite <- content_fnode in R.
    pose proof (open_is_read (c_fs c) Hok) as Ho. rewrite R in Ho.
    destruct Ho as (m & w & E & Em). exists m, w. subst st. auto.
  Qed.

  Theorem reopen_exact c : reach c -> c_crashed c = false ->
    match c_h c with
    | Some m => m_st m = spec_state (c_edits c)
    | None => exists m w, m_open crc ratio (c_fs c, []) = Ok (m, w) /\ m_st m = spec_state (c_edits c)
    end.
  Proof.
    intros Hr Hcr. destruct (inv_reach c Hr) as [Hclean Hmain].
    destruct (Hclean Hcr) as (E1 & E2 & E3 & E4).
    destruct (c_h c) as [m|] eqn:Hh.
    - destruct Hmain as (_ & Eack & _). congruence.
    - destruct (untorn_reopens c Hr Hh E3) as (m & w & E & [Ha|Ha]).
      + exists m, w. split; auto. congruence.
      + rewrite E2 in Ha. discriminate.
  Qed.

  Theorem apply_never_fails c m e : reach c -> c_h c = Some m -> wf_edit e ->
    exists m' w, m_apply crc m e (c_fs c, []) = Ok (m', w) /\ m_st m' = apply_edit e (m_st m).
  Proof.
    intros Hr Hh He. destruct (inv_reach c Hr) as [_ Hmain]. rewrite Hh in Hmain.
    destruct Hmain as (Hup & _).
    destruct (apply_spec crc m (c_fs c) e [] Hup He) as (m' & s' & calls & E & Em & _).
    eauto.
  Qed.

End WithCrc.
