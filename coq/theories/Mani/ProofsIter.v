(* Mani/ProofsIter.v — the public ManifestIterator returns exactly the edits that were written. *)
From Coq Require Import NArith Arith List Bool Lia Sorted.
From Blue Require Import Mani.Model Mani.ProofsOrder Mani.ProofsFormat.
Import ListNotations.
Open Scope N_scope.

Arguments N.add : simpl never.
Arguments N.sub : simpl never.
Arguments N.ltb : simpl never.
Arguments N.eqb : simpl never.

Section WithCrc.
  Variable crc : list N -> N.

  Local Notation nl := (next_loop crc).

  Lemma nl_rm_lines rms : forall acc rest, Forall wf_str rms ->
    nl (map (crc_line crc 45) rms ++ rest) acc =
    nl rest (mkEdit (e_add acc) (fold_left (fun s p => set_insert p s) rms (e_rm acc)) (e_info acc)).
  Proof.
    induction rms as [|p rms IH]; intros acc rest H.
    - now destruct acc.
    - inversion H; subst. cbn [map app next_loop].
      rewrite do_line_crc by (auto; try lia; discriminate).
      change (45 =? 43) with false. change (45 =? 45) with true. cbv iota.
      unfold edit_rm. rewrite check_str_ok by auto. cbn [lift_edit].
      rewrite IH by auto. reflexivity.
  Qed.

  Lemma nl_add_lines adds : forall acc rest, Forall wf_str adds ->
    nl (map (crc_line crc 43) adds ++ rest) acc =
    nl rest (mkEdit (fold_left (fun s p => set_insert p s) adds (e_add acc)) (e_rm acc) (e_info acc)).
  Proof.
    induction adds as [|p adds IH]; intros acc rest H.
    - now destruct acc.
    - inversion H; subst. cbn [map app next_loop].
      rewrite do_line_crc by (auto; try lia; discriminate).
      change (43 =? 43) with true. cbv iota.
      unfold edit_add. rewrite check_str_ok by auto. cbn [lift_edit].
      rewrite IH by auto. reflexivity.
  Qed.

  Lemma nl_info_lines infos : forall acc rest, Forall wf_kv infos ->
    nl (map (fun kv => crc_line crc (fst kv) (snd kv)) infos ++ rest) acc =
    nl rest (mkEdit (e_add acc) (e_rm acc)
               (fold_left (fun s kv => map_insert (fst kv) (snd kv) s) infos (e_info acc))).
  Proof.
    induction infos as [|[k v] infos IH]; intros acc rest H.
    - now destruct acc.
    - inversion H as [|? ? [[K1 [K2 [K3 K4]]] Hv] Hl]; subst. cbn [map app next_loop fst snd] in *.
      rewrite do_line_crc by auto.
      destruct (N.eqb_spec k 43); [contradiction|].
      destruct (N.eqb_spec k 45); [contradiction|].
      unfold edit_info. rewrite check_key_ok by (repeat split; auto).
      rewrite check_str_ok by auto. cbn [lift_edit].
      rewrite IH by auto. reflexivity.
  Qed.

  Lemma nl_edit_lines e rest : wf_edit e ->
    nl (edit_lines crc e ++ rest) empty_edit = (Some (IEdit e), Some rest).
  Proof.
    intros [A B C D E F]. unfold edit_lines, crc_lines. rewrite <- !app_assoc.
    rewrite nl_rm_lines by auto. rewrite nl_add_lines by auto. rewrite nl_info_lines by auto.
    cbn [e_add e_rm e_info empty_edit].
    rewrite (fold_set_insert_sorted (e_rm e) []) by exact B.
    rewrite (fold_set_insert_sorted (e_add e) []) by exact A.
    rewrite (fold_map_insert_sorted (e_info e) []) by exact C.
    cbn [app next_loop]. rewrite do_line_sep. now destruct e.
  Qed.

  Lemma iter_all_edits es : forall n, Forall wf_edit es -> (length es < n)%nat ->
    iter_all crc n (Some (flat_map (edit_lines crc) es)) = map IEdit es.
  Proof.
    induction es as [|e es IH]; intros n H Hn.
    - destruct n; [simpl in Hn; lia|]. reflexivity.
    - destruct n; [simpl in Hn; lia|]. inversion H; subst. cbn [flat_map iter_all iter_next].
      rewrite nl_edit_lines by auto. cbn [map]. f_equal. apply IH; auto. simpl in Hn. lia.
  Qed.

  Lemma edit_lines_length es : (length es <= length (flat_map (edit_lines crc) es))%nat.
  Proof.
    induction es as [|e es IH]; cbn [flat_map length]; [lia|].
    rewrite app_length. unfold edit_lines at 1. rewrite app_length. cbn [length]. lia.
  Qed.

  (* `for item in ManifestIterator::open(file)`: exactly the edits, in order, then the end *)
  Theorem iterator_roundtrip es : Forall wf_edit es ->
    let ls := lines (ser_edits crc es) in
    iter_all crc (S (length ls)) (Some ls) = map IEdit es.
  Proof.
    intros H ls. subst ls. rewrite ser_edits_lines.
    assert (G : Forall good_line (flat_map (edit_lines crc) es)).
    { clear -H. induction es as [|e es IH]; [constructor|]. inversion H; subst.
      cbn [flat_map]. apply Forall_app. split; auto. now apply edit_lines_good. }
    rewrite <- (app_nil_r (nl_lines (flat_map (edit_lines crc) es))).
    rewrite lines_nl_lines by exact G. cbn [lines]. rewrite app_nil_r.
    apply iter_all_edits; auto. pose proof (edit_lines_length es). lia.
  Qed.

End WithCrc.
