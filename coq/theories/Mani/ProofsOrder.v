(* Mani/ProofsOrder.v — the byte-lexicographic order, sorted sets / maps (BTreeSet / BTreeMap
   as strictly increasing lists), well-formed strings, keys, edits and states. *)
From Coq Require Import NArith Arith List Bool Lia Sorted.
From Blue Require Import Mani.Model.
Import ListNotations.
Open Scope N_scope.

Arguments N.add : simpl never.
Arguments N.sub : simpl never.
Arguments N.mul : simpl never.
Arguments N.div : simpl never.
Arguments N.modulo : simpl never.
Arguments N.leb : simpl never.
Arguments N.ltb : simpl never.
Arguments N.eqb : simpl never.

(* ------------------------------------------------------------------ lex_cmp *)
Lemma lex_cmp_refl a : lex_cmp a a = Eq.
Proof. induction a as [|x a IH]; simpl; [reflexivity|]. now rewrite N.compare_refl. Qed.

Lemma lex_cmp_eq a b : lex_cmp a b = Eq -> a = b.
Proof.
  revert b; induction a as [|x a IH]; intros [|y b]; simpl; try discriminate; auto.
  destruct (N.compare_spec x y) as [E|L|G]; try discriminate.
  intros H. subst. f_equal. now apply IH.
Qed.

Lemma lex_cmp_antisym a b : lex_cmp b a = CompOpp (lex_cmp a b).
Proof.
  revert b; induction a as [|x a IH]; intros [|y b]; simpl; auto.
  rewrite (N.compare_antisym x y). destruct (x ?= y); simpl; auto.
Qed.

Lemma lex_cmp_trans a b c : lex_cmp a b = Lt -> lex_cmp b c = Lt -> lex_cmp a c = Lt.
Proof.
  revert b c; induction a as [|x a IH]; intros [|y b] [|z c]; simpl; try discriminate; auto.
  destruct (N.compare_spec x y), (N.compare_spec y z), (N.compare_spec x z); subst;
    try discriminate; try lia; eauto.
Qed.

Lemma str_eqb_eq a b : str_eqb a b = true <-> a = b.
Proof.
  unfold str_eqb. split.
  - destruct (lex_cmp a b) eqn:E; try discriminate. intros _. now apply lex_cmp_eq.
  - intros ->. now rewrite lex_cmp_refl.
Qed.

Definition slt (a b : str) : Prop := lex_cmp a b = Lt.
Definition klt (a b : N * str) : Prop := fst a < fst b.
Definition sorted_set (l : list str) : Prop := StronglySorted slt l.
Definition sorted_map (l : list (N * str)) : Prop := StronglySorted klt l.

Lemma slt_gt a b : slt a b -> lex_cmp b a = Gt.
Proof. unfold slt; intros H. now rewrite lex_cmp_antisym, H. Qed.

Lemma slt_trans a b c : slt a b -> slt b c -> slt a c.
Proof. apply lex_cmp_trans. Qed.

(* ------------------------------------------------------------------ generic: StronglySorted and app *)
Lemma ssorted_app_inv {A} (R : A -> A -> Prop) l1 l2 :
  StronglySorted R (l1 ++ l2) ->
  StronglySorted R l1 /\ StronglySorted R l2 /\ Forall (fun x => Forall (R x) l2) l1.
Proof.
  induction l1 as [|a l1 IH]; simpl; intros H.
  - repeat split; auto; constructor.
  - inversion H as [|? ? Hs Hf]; subst. destruct (IH Hs) as (S1 & S2 & F).
    apply Forall_app in Hf. destruct Hf as [F1 F2].
    repeat split; auto; constructor; auto.
Qed.

Lemma ssorted_snoc {A} (R : A -> A -> Prop) l x :
  StronglySorted R l -> Forall (fun y => R y x) l -> StronglySorted R (l ++ [x]).
Proof.
  induction l as [|a l IH]; simpl; intros Hs Hf.
  - repeat constructor.
  - inversion Hs; subst. inversion Hf; subst. constructor; auto.
    apply Forall_app; split; auto.
Qed.

(* ------------------------------------------------------------------ set_insert / set_remove *)
Lemma set_insert_snoc l x : Forall (fun y => slt y x) l -> set_insert x l = l ++ [x].
Proof.
  induction l as [|a l IH]; simpl; intros H; auto.
  inversion H as [|? ? Ha Hl]; subst. rewrite (slt_gt _ _ Ha). f_equal. now apply IH.
Qed.

Lemma fold_set_insert_sorted l : forall acc, sorted_set (acc ++ l) ->
  fold_left (fun s p => set_insert p s) l acc = acc ++ l.
Proof.
  induction l as [|a l IH]; intros acc H; simpl.
  - now rewrite app_nil_r.
  - destruct (ssorted_app_inv _ _ _ H) as (_ & _ & F).
    rewrite set_insert_snoc.
    + rewrite IH; rewrite <- app_assoc; simpl; auto.
    + eapply Forall_impl; [|exact F]. intros y Hy. now inversion Hy.
Qed.

Lemma set_insert_in x l y : In y (set_insert x l) -> y = x \/ In y l.
Proof.
  induction l as [|a l IH]; simpl.
  - intros [->|[]]; auto.
  - destruct (lex_cmp x a); simpl; intros H.
    + destruct H; auto.
    + destruct H as [->|H]; auto.
    + destruct H as [->|H]; auto. destruct (IH H); auto.
Qed.

Lemma set_insert_forall (P : str -> Prop) x l : P x -> Forall P l -> Forall P (set_insert x l).
Proof.
  intros Hx Hl. apply Forall_forall. intros y Hy.
  destruct (set_insert_in _ _ _ Hy) as [->|Hin]; auto.
  now apply (proj1 (Forall_forall P l) Hl).
Qed.

Lemma set_insert_sorted x l : sorted_set l -> sorted_set (set_insert x l).
Proof.
  induction l as [|a l IH]; simpl; intros Hs.
  - repeat constructor.
  - inversion Hs as [|? ? Hs' Hf]; subst.
    destruct (lex_cmp x a) eqn:E.
    + exact Hs.
    + constructor; auto. constructor; auto.
      eapply Forall_impl; [|exact Hf]. intros y Hy. eapply slt_trans; eauto.
    + constructor; [now apply IH|].
      apply set_insert_forall; auto.
      unfold slt. rewrite lex_cmp_antisym, E. reflexivity.
Qed.

Lemma set_remove_in x l y : In y (set_remove x l) -> In y l.
Proof.
  induction l as [|a l IH]; simpl; auto.
  destruct (lex_cmp x a); simpl; intros H; auto.
  destruct H; auto.
Qed.

Lemma set_remove_forall (P : str -> Prop) x l : Forall P l -> Forall P (set_remove x l).
Proof.
  intros Hl. apply Forall_forall. intros y Hy.
  apply (proj1 (Forall_forall P l) Hl). eapply set_remove_in; eauto.
Qed.

Lemma set_remove_sorted x l : sorted_set l -> sorted_set (set_remove x l).
Proof.
  induction l as [|a l IH]; simpl; intros Hs; auto.
  inversion Hs as [|? ? Hs' Hf]; subst.
  destruct (lex_cmp x a); auto.
  constructor; [now apply IH|]. now apply set_remove_forall.
Qed.

(* ------------------------------------------------------------------ map_insert *)
Lemma map_insert_snoc l k v : Forall (fun y => fst y < k) l -> map_insert k v l = l ++ [(k, v)].
Proof.
  induction l as [|[k' v'] l IH]; simpl; intros H; auto.
  inversion H as [|? ? Ha Hl]; subst. simpl in Ha.
  destruct (N.compare_spec k k'); try lia. f_equal. now apply IH.
Qed.

Lemma fold_map_insert_sorted l : forall acc, sorted_map (acc ++ l) ->
  fold_left (fun s kv => map_insert (fst kv) (snd kv) s) l acc = acc ++ l.
Proof.
  induction l as [|[k v] l IH]; intros acc H; simpl.
  - now rewrite app_nil_r.
  - destruct (ssorted_app_inv _ _ _ H) as (_ & _ & F).
    rewrite map_insert_snoc.
    + rewrite IH; rewrite <- app_assoc; simpl; auto.
    + eapply Forall_impl; [|exact F]. intros y Hy. now inversion Hy.
Qed.

Lemma map_insert_in k v l y : In y (map_insert k v l) -> y = (k, v) \/ In y l.
Proof.
  induction l as [|[k' v'] l IH]; simpl.
  - intros [<-|[]]; auto.
  - destruct (k ?= k'); simpl; intros H.
    + destruct H as [<-|H]; auto.
    + destruct H as [<-|H]; auto.
    + destruct H as [<-|H]; auto. destruct (IH H); auto.
Qed.

Lemma map_insert_forall (P : N * str -> Prop) k v l :
  P (k, v) -> Forall P l -> Forall P (map_insert k v l).
Proof.
  intros Hx Hl. apply Forall_forall. intros y Hy.
  destruct (map_insert_in _ _ _ _ Hy) as [->|Hin]; auto.
  now apply (proj1 (Forall_forall P l) Hl).
Qed.

Lemma map_insert_sorted k v l : sorted_map l -> sorted_map (map_insert k v l).
Proof.
  induction l as [|[k' v'] l IH]; simpl; intros Hs.
  - repeat constructor.
  - inversion Hs as [|? ? Hs' Hf]; subst.
    destruct (N.compare_spec k k') as [E|L|G].
    + subst. constructor; auto.
    + constructor; auto. constructor; auto.
      eapply Forall_impl; [|exact Hf]. unfold klt; simpl. intros; lia.
    + constructor; [now apply IH|].
      apply map_insert_forall; auto.
Qed.

(* ------------------------------------------------------------------ well-formed strings, keys, edits *)
(* exactly what ManifestIterator::next can take back *)
Definition wf_str (s : str) : Prop :=
  s <> [] /\ Forall (fun b => b < 128) s /\ ~ In 10 s /\ ends_with_cr s = false.

Definition wf_key (c : N) : Prop := c < 128 /\ c <> 10 /\ c <> 43 /\ c <> 45.

Definition wf_kv (kv : N * str) : Prop := wf_key (fst kv) /\ wf_str (snd kv).

Record wf_edit (e : edit) : Prop := {
  wfe_add_sorted : sorted_set (e_add e);
  wfe_rm_sorted : sorted_set (e_rm e);
  wfe_info_sorted : sorted_map (e_info e);
  wfe_add : Forall wf_str (e_add e);
  wfe_rm : Forall wf_str (e_rm e);
  wfe_info : Forall wf_kv (e_info e)
}.

Record wf_state (st : state) : Prop := {
  wfs_strs_sorted : sorted_set (s_strs st);
  wfs_info_sorted : sorted_map (s_info st);
  wfs_strs : Forall wf_str (s_strs st);
  wfs_info : Forall wf_kv (s_info st)
}.

Lemma is_ascii_forall s : is_ascii s = true <-> Forall (fun b => b < 128) s.
Proof.
  unfold is_ascii. rewrite forallb_forall, Forall_forall.
  split; intros H x Hx; specialize (H x Hx); now apply N.ltb_lt.
Qed.

Lemma existsb_nl s : existsb (fun b => b =? 10) s = false <-> ~ In 10 s.
Proof.
  split.
  - intros H Hin. assert (E : existsb (fun b => b =? 10) s = true).
    { apply existsb_exists. exists 10. split; auto. }
    congruence.
  - intros H. destruct (existsb (fun b => b =? 10) s) eqn:E; auto.
    apply existsb_exists in E. destruct E as (x & Hx & Hx10). apply N.eqb_eq in Hx10. subst. contradiction.
Qed.


(* a decidable reading of wf_str (used for concrete examples) *)
Lemma wf_str_of_bools s :
  is_nil s = false -> is_ascii s = true -> existsb (fun b => b =? 10) s = false -> ends_with_cr s = false -> wf_str s.
Proof.
  intros H1 H2 H3 H4. repeat split; auto.
  - intros ->. discriminate.
  - now apply is_ascii_forall.
  - now apply existsb_nl.
Qed.

(* check_str accepts exactly the well-formed strings *)
Lemma check_str_ok s : wf_str s -> check_str s = Ok s.
Proof.
  intros (Hne & Hasc & Hnl & Hcr). unfold check_str.
  rewrite (proj2 (existsb_nl s) Hnl).
  rewrite (proj2 (is_ascii_forall s) Hasc), Hcr.
  destruct s; [contradiction|reflexivity].
Qed.

Lemma check_str_inv s r : check_str s = Ok r -> r = s /\ wf_str s.
Proof.
  unfold check_str.
  destruct (existsb (fun b => b =? 10) s) eqn:E1; try discriminate.
  destruct (is_nil s) eqn:E2; simpl; try discriminate.
  destruct (is_ascii s) eqn:E3; simpl; try discriminate.
  destruct (ends_with_cr s) eqn:E4; simpl; try discriminate.
  intros H; inversion H; subst. split; auto.
  repeat split; auto.
  - intros ->. discriminate.
  - now apply is_ascii_forall.
  - now apply existsb_nl.
Qed.

Lemma check_str_no_panic s : check_str s <> Panic.
Proof.
  unfold check_str. destruct (existsb _ s); try discriminate.
  destruct (is_nil s || negb (is_ascii s) || ends_with_cr s); discriminate.
Qed.

Lemma check_key_ok c : wf_key c -> check_key c = Ok tt.
Proof.
  intros (H1 & H2 & H3 & H4). unfold check_key.
  destruct (N.eqb_spec c 10); try contradiction.
  destruct (N.ltb_spec c 128); try lia. simpl.
  destruct (N.eqb_spec c 43); try contradiction.
  destruct (N.eqb_spec c 45); try contradiction. reflexivity.
Qed.

Lemma check_key_inv c u : check_key c = Ok u -> wf_key c.
Proof.
  unfold check_key.
  destruct (N.eqb_spec c 10); try discriminate.
  destruct (N.ltb_spec c 128); simpl; try discriminate.
  destruct (N.eqb_spec c 43); simpl; try discriminate.
  destruct (N.eqb_spec c 45); simpl; try discriminate.
  intros _. repeat split; auto.
Qed.

(* ---- the Edit API preserves well-formedness: every Edit a caller can build is wf *)
Lemma wf_empty_edit : wf_edit empty_edit.
Proof. split; simpl; constructor. Qed.

Lemma edit_add_wf e s e' : wf_edit e -> edit_add e s = Ok e' -> wf_edit e'.
Proof.
  intros [A B C D E F]. unfold edit_add.
  destruct (check_str s) as [s'| |] eqn:Hc; try discriminate.
  apply check_str_inv in Hc. destruct Hc as [-> Hs].
  intros H; inversion H; subst; clear H. split; simpl; auto.
  - now apply set_insert_sorted.
  - now apply set_insert_forall.
Qed.

Lemma edit_rm_wf e s e' : wf_edit e -> edit_rm e s = Ok e' -> wf_edit e'.
Proof.
  intros [A B C D E F]. unfold edit_rm.
  destruct (check_str s) as [s'| |] eqn:Hc; try discriminate.
  apply check_str_inv in Hc. destruct Hc as [-> Hs].
  intros H; inversion H; subst; clear H. split; simpl; auto.
  - now apply set_insert_sorted.
  - now apply set_insert_forall.
Qed.

Lemma edit_info_wf e c s e' : wf_edit e -> edit_info e c s = Ok e' -> wf_edit e'.
Proof.
  intros [A B C D E F]. unfold edit_info.
  destruct (check_key c) as [u| |] eqn:Hk; try discriminate.
  apply check_key_inv in Hk.
  destruct (check_str s) as [s'| |] eqn:Hc; try discriminate.
  apply check_str_inv in Hc. destruct Hc as [-> Hs].
  intros H; inversion H; subst; clear H. split; simpl; auto.
  - now apply map_insert_sorted.
  - apply map_insert_forall; auto. split; auto.
Qed.

(* ---- apply_edit preserves well-formed states *)
Lemma fold_set_remove_wf l : forall acc, sorted_set acc -> Forall wf_str acc ->
  sorted_set (fold_left (fun a p => set_remove p a) l acc) /\
  Forall wf_str (fold_left (fun a p => set_remove p a) l acc).
Proof.
  induction l as [|x l IH]; simpl; intros acc Hs Hf; auto.
  apply IH; [now apply set_remove_sorted | now apply set_remove_forall].
Qed.

Lemma fold_set_insert_wf l : forall acc, Forall wf_str l -> sorted_set acc -> Forall wf_str acc ->
  sorted_set (fold_left (fun a p => set_insert p a) l acc) /\
  Forall wf_str (fold_left (fun a p => set_insert p a) l acc).
Proof.
  induction l as [|x l IH]; simpl; intros acc Hl Hs Hf; auto.
  inversion Hl; subst.
  apply IH; auto; [now apply set_insert_sorted | now apply set_insert_forall].
Qed.

Lemma fold_map_insert_wf l : forall acc, Forall wf_kv l -> sorted_map acc -> Forall wf_kv acc ->
  sorted_map (fold_left (fun a kv => map_insert (fst kv) (snd kv) a) l acc) /\
  Forall wf_kv (fold_left (fun a kv => map_insert (fst kv) (snd kv) a) l acc).
Proof.
  induction l as [|[k v] l IH]; simpl; intros acc Hl Hs Hf; auto.
  inversion Hl; subst.
  apply IH; auto; [now apply map_insert_sorted | now apply map_insert_forall].
Qed.

Lemma apply_edit_wf e st : wf_edit e -> wf_state st -> wf_state (apply_edit e st).
Proof.
  intros [A B C D E F] [G H I J]. unfold apply_edit.
  destruct (fold_set_remove_wf (e_rm e) (s_strs st) G I) as [R1 R2].
  destruct (fold_set_insert_wf (e_add e) _ D R1 R2) as [S1 S2].
  destruct (fold_map_insert_wf (e_info e) (s_info st) F H J) as [M1 M2].
  split; simpl; auto.
Qed.

Lemma wf_empty_state : wf_state empty_state.
Proof. split; simpl; constructor. Qed.

Lemma spec_state_wf es : Forall wf_edit es -> wf_state (spec_state es).
Proof.
  unfold spec_state. generalize wf_empty_state. generalize empty_state.
  induction es as [|e es IH]; simpl; intros st Hst H; auto.
  inversion H; subst. apply IH; auto. now apply apply_edit_wf.
Qed.

(* ---- to_edit of a well-formed state: no panic, the roll-up edit, and it rebuilds the state *)
Definition rollup (st : state) : edit := mkEdit (s_strs st) [] (s_info st).

Lemma to_edit_strs_ok l : forall e, Forall wf_str l ->
  to_edit_strs l e = Ok (mkEdit (fold_left (fun a p => set_insert p a) l (e_add e)) (e_rm e) (e_info e)).
Proof.
  induction l as [|s l IH]; simpl; intros e H.
  - now destruct e.
  - inversion H; subst. unfold edit_add. rewrite check_str_ok by auto. now rewrite IH.
Qed.

Lemma to_edit_info_ok l : forall e, Forall wf_kv l ->
  to_edit_info l e = Ok (mkEdit (e_add e) (e_rm e)
                           (fold_left (fun a kv => map_insert (fst kv) (snd kv) a) l (e_info e))).
Proof.
  induction l as [|[c s] l IH]; simpl; intros e H.
  - now destruct e.
  - inversion H as [|? ? [Hk Hs] Hl]; subst. simpl in *. unfold edit_info.
    rewrite check_key_ok, check_str_ok by auto. now rewrite IH.
Qed.

Lemma to_edit_ok st : wf_state st -> to_edit st = Ok (rollup st).
Proof.
  intros [A B C D]. unfold to_edit, rollup.
  rewrite to_edit_strs_ok by auto. simpl.
  rewrite to_edit_info_ok by auto. simpl.
  rewrite (fold_set_insert_sorted (s_strs st) []) by exact A.
  rewrite (fold_map_insert_sorted (s_info st) []) by exact B.
  reflexivity.
Qed.

Lemma rollup_wf st : wf_state st -> wf_edit (rollup st).
Proof. intros [A B C D]. split; simpl; auto; constructor. Qed.

Lemma apply_rollup_empty st : wf_state st -> apply_edit (rollup st) empty_state = st.
Proof.
  intros [A B C D]. unfold apply_edit, rollup; simpl.
  rewrite (fold_set_insert_sorted (s_strs st) []) by exact A.
  rewrite (fold_map_insert_sorted (s_info st) []) by exact B.
  now destruct st.
Qed.

(* inserting what is already there changes nothing: rollover's _apply of the roll-up edit *)
Lemma set_insert_present x l : sorted_set l -> In x l -> set_insert x l = l.
Proof.
  induction l as [|a l IH]; simpl; intros Hs Hin; [contradiction|].
  inversion Hs as [|? ? Hs' Hf]; subst.
  destruct Hin as [->|Hin].
  - now rewrite lex_cmp_refl.
  - assert (Hlt : slt a x) by (apply (proj1 (Forall_forall _ _) Hf); auto).
    rewrite (slt_gt _ _ Hlt). f_equal. now apply IH.
Qed.

Lemma fold_set_insert_present l : forall acc, sorted_set acc -> (forall x, In x l -> In x acc) ->
  fold_left (fun a p => set_insert p a) l acc = acc.
Proof.
  induction l as [|x l IH]; simpl; intros acc Hs Hin; auto.
  rewrite set_insert_present; auto.
Qed.

Lemma map_insert_present k v l : sorted_map l -> In (k, v) l -> map_insert k v l = l.
Proof.
  induction l as [|[k' v'] l IH]; simpl; intros Hs Hin; [contradiction|].
  inversion Hs as [|? ? Hs' Hf]; subst.
  destruct Hin as [E|Hin].
  - inversion E; subst. now rewrite N.compare_refl.
  - assert (Hlt : klt (k', v') (k, v)) by (apply (proj1 (Forall_forall _ _) Hf); auto).
    unfold klt in Hlt; simpl in Hlt.
    destruct (N.compare_spec k k'); try lia. f_equal. now apply IH.
Qed.

Lemma fold_map_insert_present l : forall acc, sorted_map acc -> (forall x, In x l -> In x acc) ->
  fold_left (fun a kv => map_insert (fst kv) (snd kv) a) l acc = acc.
Proof.
  induction l as [|[k v] l IH]; simpl; intros acc Hs Hin; auto.
  rewrite map_insert_present; auto.
Qed.

Lemma apply_rollup_self st : wf_state st -> apply_edit (rollup st) st = st.
Proof.
  intros [A B C D]. unfold apply_edit, rollup; simpl.
  rewrite fold_set_insert_present; auto.
  rewrite fold_map_insert_present; auto.
  now destruct st.
Qed.
