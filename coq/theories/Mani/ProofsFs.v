(* Mani/ProofsFs.v — lemmas about the file-system model Mani/Fs.v: directory lookups, inode
   table updates, the effect of each call on each name, well-formedness, crash images. *)
From Coq Require Import NArith Arith List Bool Lia.
From Blue Require Import Mani.Model Mani.Fs.
Import ListNotations.
Open Scope N_scope.

Arguments N.add : simpl never.
Arguments N.sub : simpl never.
Arguments N.mul : simpl never.
Arguments N.leb : simpl never.
Arguments N.ltb : simpl never.
Arguments N.eqb : simpl never.

(* ------------------------------------------------------------------ names *)
Lemma fname_eqb_refl f : fname_eqb f f = true.
Proof. destruct f; simpl; auto. apply N.eqb_refl. Qed.

Lemma fname_eqb_eq f g : fname_eqb f g = true <-> f = g.
Proof.
  split.
  - destruct f, g; simpl; try discriminate; auto. intros H. apply N.eqb_eq in H. now subst.
  - intros ->. apply fname_eqb_refl.
Qed.

Lemma fname_eqb_neq f g : f <> g -> fname_eqb f g = false.
Proof. intros H. destruct (fname_eqb f g) eqn:E; auto. apply fname_eqb_eq in E. contradiction. Qed.

(* ------------------------------------------------------------------ directory *)
Lemma dir_lookup_remove_same f d : dir_lookup f (dir_remove f d) = None.
Proof.
  induction d as [|[g i] d IH]; simpl; auto.
  destruct (fname_eqb f g) eqn:E; auto. simpl. now rewrite E.
Qed.

Lemma dir_lookup_remove_other f g d : f <> g -> dir_lookup f (dir_remove g d) = dir_lookup f d.
Proof.
  intros H. induction d as [|[h i] d IH]; simpl; auto.
  destruct (fname_eqb g h) eqn:E.
  - apply fname_eqb_eq in E. subst h. rewrite (fname_eqb_neq f g H). exact IH.
  - simpl. destruct (fname_eqb f h); auto.
Qed.

Lemma dir_lookup_set_same f i d : dir_lookup f (dir_set f i d) = Some i.
Proof. unfold dir_set. simpl. now rewrite fname_eqb_refl. Qed.

Lemma dir_lookup_set_other f g i d : f <> g -> dir_lookup f (dir_set g i d) = dir_lookup f d.
Proof.
  intros H. unfold dir_set. simpl. rewrite (fname_eqb_neq f g H). now apply dir_lookup_remove_other.
Qed.

Lemma dir_lookup_in f i d : dir_lookup f d = Some i -> In (f, i) d.
Proof.
  induction d as [|[g j] d IH]; simpl; [discriminate|].
  destruct (fname_eqb f g) eqn:E.
  - apply fname_eqb_eq in E. intros H; inversion H; subst. now left.
  - intros H. right. auto.
Qed.

Lemma dir_remove_in f g i d : In (g, i) (dir_remove f d) -> In (g, i) d /\ g <> f.
Proof.
  induction d as [|[h j] d IH]; simpl; [contradiction|].
  destruct (fname_eqb f h) eqn:E.
  - intros H. destruct (IH H). split; auto.
  - simpl. intros [H|H].
    + inversion H; subst. split; auto. intros ->. now rewrite fname_eqb_refl in E.
    + destruct (IH H). split; auto.
Qed.

(* backup indices *)
Lemma backup_ids_in n d : In n (backup_ids d) <-> exists i, In (FBackup n, i) d.
Proof.
  induction d as [|[g j] d IH]; simpl.
  - split; [contradiction|]. intros [i []].
  - destruct g; simpl; rewrite ?IH.
    + split; [intros [i H]; exists i; auto|]. intros [i [H|H]]; [discriminate|eauto].
    + split; [intros [i H]; exists i; auto|]. intros [i [H|H]]; [discriminate|eauto].
    + split.
      * intros [->|[i H]]; eauto.
      * intros [i [H|H]]; [inversion H; auto|right; eauto].
Qed.

Lemma lookup_backup_none n d : ~ In n (backup_ids d) -> dir_lookup (FBackup n) d = None.
Proof.
  intros H. destruct (dir_lookup (FBackup n) d) eqn:E; auto.
  exfalso. apply H. apply backup_ids_in. eexists. eapply dir_lookup_in; eauto.
Qed.

Lemma backup_ids_remove f d n : In n (backup_ids (dir_remove f d)) -> In n (backup_ids d) /\ FBackup n <> f.
Proof.
  rewrite !backup_ids_in. intros [i H]. apply dir_remove_in in H. destruct H. split; eauto.
Qed.

Lemma backup_ids_set f i d n : In n (backup_ids (dir_set f i d)) -> f = FBackup n \/ In n (backup_ids d).
Proof.
  unfold dir_set. rewrite backup_ids_in. intros [j [H|H]].
  - inversion H; auto.
  - right. apply dir_remove_in in H. apply backup_ids_in. destruct H; eauto.
Qed.

(* ------------------------------------------------------------------ inode table *)
Lemma upd_nth_length {A} n (x : A) l : length (upd_nth n x l) = length l.
Proof. revert n; induction l as [|y l IH]; intros [|n]; simpl; auto. Qed.

Lemma nth_error_upd_same {A} n (x : A) l : (n < length l)%nat -> nth_error (upd_nth n x l) n = Some x.
Proof.
  revert n; induction l as [|y l IH]; intros [|n]; simpl; intros H; try lia; auto.
  apply IH. lia.
Qed.

Lemma nth_error_upd_other {A} n m (x : A) l : n <> m -> nth_error (upd_nth n x l) m = nth_error l m.
Proof.
  revert n m; induction l as [|y l IH]; intros [|n] [|m]; simpl; intros H.
  all: try congruence; auto.
Qed.

(* ------------------------------------------------------------------ the node behind a name *)
Definition fnode (f : fname) (s : fs) : option inode :=
  match lookup f s with
  | Some i => nth_error (f_ino s) i
  | None => None
  end.

Lemma content_fnode f s : content f s = option_map i_data (fnode f s).
Proof. unfold content, fnode. destruct (lookup f s); auto. Qed.

(* every directory entry points into the inode table *)
Definition ino_ok (s : fs) : Prop := forall f i, lookup f s = Some i -> (i < length (f_ino s))%nat.

Lemma ino_ok_empty : ino_ok empty_fs.
Proof. intros f i H. discriminate. Qed.

Lemma fnode_some_of_lookup_ino f s i : ino_ok s -> lookup f s = Some i -> exists nd, fnode f s = Some nd.
Proof.
  intros Hok Hl. unfold fnode. rewrite Hl. specialize (Hok f i Hl).
  destruct (nth_error (f_ino s) i) eqn:E; eauto. apply nth_error_None in E. lia.
Qed.

Lemma exists_file_fnode_ino f s : ino_ok s -> exists_file f s = true -> exists nd, fnode f s = Some nd.
Proof.
  unfold exists_file. intros Hok. destruct (lookup f s) eqn:E; [|discriminate].
  intros _. eapply fnode_some_of_lookup_ino; eauto.
Qed.

(* ------------------------------------------------------------------ effect of each call *)
(* link *)
Lemma exec_link src dst s i : lookup src s = Some i -> lookup dst s = None ->
  exec (CLink src dst) s = Some (mkFs (dir_set dst i (f_dir s)) (f_ino s)).
Proof. intros H1 H2. simpl. now rewrite H1, H2. Qed.

Lemma fnode_dir_set_other f g i d inos : f <> g ->
  fnode f (mkFs (dir_set g i d) inos) = fnode f (mkFs d inos).
Proof. intros H. unfold fnode, lookup. cbn [f_dir f_ino]. now rewrite dir_lookup_set_other. Qed.

Lemma fnode_dir_remove_other f g d inos : f <> g ->
  fnode f (mkFs (dir_remove g d) inos) = fnode f (mkFs d inos).
Proof. intros H. unfold fnode, lookup. cbn [f_dir f_ino]. now rewrite dir_lookup_remove_other. Qed.

Lemma fs_eta s : mkFs (f_dir s) (f_ino s) = s.
Proof. now destruct s. Qed.

Lemma ino_ok_dir_set f i s : ino_ok s -> (i < length (f_ino s))%nat ->
  ino_ok (mkFs (dir_set f i (f_dir s)) (f_ino s)).
Proof.
  intros Hok Hi g j. unfold lookup. cbn [f_dir f_ino].
  destruct (fname_eqb g f) eqn:E.
  - apply fname_eqb_eq in E. subst. rewrite dir_lookup_set_same. intros H; inversion H; subst; auto.
  - rewrite dir_lookup_set_other by (intros ->; now rewrite fname_eqb_refl in E). apply Hok.
Qed.

Lemma ino_ok_dir_remove f s : ino_ok s -> ino_ok (mkFs (dir_remove f (f_dir s)) (f_ino s)).
Proof.
  intros Hok g j. unfold lookup. cbn [f_dir f_ino].
  destruct (fname_eqb g f) eqn:E.
  - apply fname_eqb_eq in E. subst. rewrite dir_lookup_remove_same. discriminate.
  - rewrite dir_lookup_remove_other by (intros ->; now rewrite fname_eqb_refl in E). apply Hok.
Qed.

(* open(O_CREAT|O_APPEND) *)
Lemma exec_open_exists f s i : lookup f s = Some i -> exec (COpenAppend f) s = Some s.
Proof. intros H. simpl. now rewrite H. Qed.

Definition created (f : fname) (s : fs) : fs :=
  mkFs (dir_set f (length (f_ino s)) (f_dir s)) (f_ino s ++ [mkInode [] 0]).

Lemma exec_open_absent f s : lookup f s = None -> exec (COpenAppend f) s = Some (created f s).
Proof. intros H. simpl. now rewrite H. Qed.

Lemma fnode_created_same f s : fnode f (created f s) = Some (mkInode [] 0).
Proof.
  unfold fnode, created, lookup. cbn [f_dir f_ino]. rewrite dir_lookup_set_same.
  rewrite nth_error_app2 by lia. now rewrite Nat.sub_diag.
Qed.

Lemma fnode_created_other_ino f g s : ino_ok s -> g <> f -> fnode g (created f s) = fnode g s.
Proof.
  intros Hok H. unfold fnode, created, lookup. cbn [f_dir f_ino]. rewrite dir_lookup_set_other by auto.
  destruct (dir_lookup g (f_dir s)) eqn:E; auto.
  rewrite nth_error_app1; auto. apply (Hok g n E).
Qed.

Lemma ino_ok_created f s : ino_ok s -> ino_ok (created f s).
Proof.
  intros Hok g j. unfold created, lookup. cbn [f_dir f_ino]. rewrite app_length. cbn [length].
  destruct (fname_eqb g f) eqn:E.
  - apply fname_eqb_eq in E. subst. rewrite dir_lookup_set_same. intros H; inversion H; subst. lia.
  - rewrite dir_lookup_set_other by (intros ->; now rewrite fname_eqb_refl in E).
    intros H. specialize (Hok g j H). lia.
Qed.

Lemma lookup_created_same f s : lookup f (created f s) = Some (length (f_ino s)).
Proof. unfold created, lookup. cbn [f_dir f_ino]. apply dir_lookup_set_same. Qed.

Lemma lookup_created_other f g s : g <> f -> lookup g (created f s) = lookup g s.
Proof. intros H. unfold created, lookup. cbn [f_dir f_ino]. now apply dir_lookup_set_other. Qed.

(* write / fdatasync: replace the node of one inode number *)
Definition set_node (i : nat) (nd : inode) (s : fs) : fs := mkFs (f_dir s) (upd_nth i nd (f_ino s)).

Lemma exec_write f bs s i nd : lookup f s = Some i -> nth_error (f_ino s) i = Some nd ->
  exec (CWrite f bs) s = Some (set_node i (mkInode (i_data nd ++ bs) (i_dur nd)) s).
Proof. intros H1 H2. simpl. now rewrite H1, H2. Qed.

Lemma exec_sync f s i nd : lookup f s = Some i -> nth_error (f_ino s) i = Some nd ->
  exec (CFdatasync f) s = Some (set_node i (mkInode (i_data nd) (length (i_data nd))) s).
Proof. intros H1 H2. simpl. now rewrite H1, H2. Qed.

Lemma lookup_set_node g i nd s : lookup g (set_node i nd s) = lookup g s.
Proof. reflexivity. Qed.

Lemma fnode_set_node_same f i nd x s : lookup f s = Some i -> nth_error (f_ino s) i = Some x ->
  fnode f (set_node i nd s) = Some nd.
Proof.
  intros H1 H2. unfold fnode. rewrite lookup_set_node, H1. simpl.
  apply nth_error_upd_same. apply nth_error_Some. congruence.
Qed.

Lemma fnode_set_node_other g i nd s : lookup g s <> Some i -> fnode g (set_node i nd s) = fnode g s.
Proof.
  intros H. unfold fnode. rewrite lookup_set_node. destruct (lookup g s) eqn:E; auto.
  simpl. apply nth_error_upd_other. congruence.
Qed.

Lemma ino_ok_set_node i nd s : ino_ok s -> ino_ok (set_node i nd s).
Proof. intros Hok g j H. unfold set_node. simpl. rewrite upd_nth_length. exact (Hok g j H). Qed.

(* unlink *)
Lemma exec_unlink f s i : lookup f s = Some i ->
  exec (CUnlink f) s = Some (mkFs (dir_remove f (f_dir s)) (f_ino s)).
Proof. intros H. simpl. now rewrite H. Qed.

(* rename *)
Lemma exec_rename src dst s i : lookup src s = Some i ->
  exec (CRename src dst) s = Some (mkFs (dir_set dst i (dir_remove src (f_dir s))) (f_ino s)).
Proof. intros H. simpl. now rewrite H. Qed.


(* ------------------------------------------------------------------ well-formed file systems *)
(* directory entries point into the inode table, and no name occurs twice *)
Definition names_nodup (s : fs) : Prop := NoDup (map fst (f_dir s)).
Definition fs_ok (s : fs) : Prop := ino_ok s /\ names_nodup s.

Lemma fs_ok_lt s f i : fs_ok s -> lookup f s = Some i -> (i < length (f_ino s))%nat.
Proof. intros [H _]. apply H. Qed.

Lemma dir_remove_names f g d : In g (map fst (dir_remove f d)) -> In g (map fst d) /\ g <> f.
Proof.
  rewrite !in_map_iff. intros ([h i] & E & Hin). simpl in E. subst h.
  apply dir_remove_in in Hin. destruct Hin as [Hin Hne]. split; auto. exists (g, i). auto.
Qed.

Lemma nodup_dir_remove f d : NoDup (map fst d) -> NoDup (map fst (dir_remove f d)).
Proof.
  induction d as [|[g i] d IH]; simpl; intros H; [constructor|].
  inversion H as [|? ? Hn Hd]; subst.
  destruct (fname_eqb f g); auto. simpl. constructor; auto.
  intros Hin. apply dir_remove_names in Hin. destruct Hin. contradiction.
Qed.

Lemma nodup_dir_set f i d : NoDup (map fst d) -> NoDup (map fst (dir_set f i d)).
Proof.
  intros H. unfold dir_set. simpl. constructor; [|now apply nodup_dir_remove].
  intros Hin. apply dir_remove_names in Hin. destruct Hin as [_ Hne]. now apply Hne.
Qed.

Lemma fs_ok_empty : fs_ok empty_fs.
Proof. split; [apply ino_ok_empty|constructor]. Qed.

Lemma fnode_some_of_lookup f s i : fs_ok s -> lookup f s = Some i -> exists nd, fnode f s = Some nd.
Proof. intros [H _]. now apply fnode_some_of_lookup_ino. Qed.

Lemma exists_file_fnode f s : fs_ok s -> exists_file f s = true -> exists nd, fnode f s = Some nd.
Proof. intros [H _]. now apply exists_file_fnode_ino. Qed.

Lemma fs_ok_dir_set f i s : fs_ok s -> (i < length (f_ino s))%nat ->
  fs_ok (mkFs (dir_set f i (f_dir s)) (f_ino s)).
Proof. intros [H1 H2] Hi. split; [now apply ino_ok_dir_set|]. unfold names_nodup. cbn [f_dir]. now apply nodup_dir_set. Qed.

Lemma fs_ok_dir_remove f s : fs_ok s -> fs_ok (mkFs (dir_remove f (f_dir s)) (f_ino s)).
Proof. intros [H1 H2]. split; [now apply ino_ok_dir_remove|]. unfold names_nodup. cbn [f_dir]. now apply nodup_dir_remove. Qed.

Lemma fnode_created_other f g s : fs_ok s -> g <> f -> fnode g (created f s) = fnode g s.
Proof. intros [H _]. now apply fnode_created_other_ino. Qed.

Lemma fs_ok_created f s : fs_ok s -> fs_ok (created f s).
Proof.
  intros [H1 H2]. split; [now apply ino_ok_created|].
  unfold names_nodup, created. cbn [f_dir]. now apply nodup_dir_set.
Qed.

Lemma fs_ok_set_node i nd s : fs_ok s -> fs_ok (set_node i nd s).
Proof. intros [H1 H2]. split; [now apply ino_ok_set_node|exact H2]. Qed.

Lemma nodup_backup_ids d : NoDup (map fst d) -> NoDup (backup_ids d).
Proof.
  induction d as [|[g i] d IH]; simpl; intros H; [constructor|].
  inversion H as [|? ? Hn Hd]; subst. destruct g; auto.
  constructor; auto. intros Hin. apply backup_ids_in in Hin. destruct Hin as [j Hj].
  apply Hn. apply in_map_iff. exists (FBackup n, j). auto.
Qed.

(* ------------------------------------------------------------------ prefixes of a call sequence *)
(* Q holds in every state reached by a prefix of the calls *)
Definition all_prefixes (Q : fs -> Prop) (cs : list call) (s : fs) : Prop :=
  forall k s', replay (firstn k cs) s = Some s' -> Q s'.

Lemma all_prefixes_nil (Q : fs -> Prop) s : Q s -> all_prefixes Q [] s.
Proof. intros H k s'. rewrite firstn_nil. simpl. intros E; inversion E; now subst. Qed.

Lemma all_prefixes_cons (Q : fs -> Prop) c cs s :
  Q s -> (forall s1, exec c s = Some s1 -> all_prefixes Q cs s1) -> all_prefixes Q (c :: cs) s.
Proof.
  intros H0 H1 [|k] s'; simpl.
  - intros E; inversion E; now subst.
  - destruct (exec c s) as [s1|] eqn:E; [|discriminate]. apply (H1 s1 eq_refl).
Qed.

Lemma replay_app a b s : replay (a ++ b) s = match replay a s with Some s1 => replay b s1 | None => None end.
Proof.
  revert s; induction a as [|c a IH]; intros s; simpl; auto.
  destruct (exec c s); auto.
Qed.

Lemma all_prefixes_app (Q : fs -> Prop) a b s :
  all_prefixes Q a s -> (forall s1, replay a s = Some s1 -> all_prefixes Q b s1) ->
  all_prefixes Q (a ++ b) s.
Proof.
  intros Ha Hb k s' E.
  destruct (le_lt_dec k (length a)) as [Hle|Hgt].
  - rewrite firstn_app in E. replace (k - length a)%nat with O in E by lia.
    cbn [firstn] in E. rewrite app_nil_r in E. eapply Ha; eauto.
  - rewrite firstn_app, firstn_all2 in E by lia. rewrite replay_app in E.
    destruct (replay a s) as [s1|] eqn:E1; [|discriminate]. eapply Hb; eauto.
Qed.

Lemma all_prefixes_full (Q : fs -> Prop) cs s s' : all_prefixes Q cs s -> replay cs s = Some s' -> Q s'.
Proof. intros H E. apply (H (length cs)). now rewrite firstn_all. Qed.

Lemma all_prefixes_impl (Q R : fs -> Prop) cs s :
  (forall x, Q x -> R x) -> all_prefixes Q cs s -> all_prefixes R cs s.
Proof. intros H HQ k s' E. apply H. eapply HQ; eauto. Qed.

(* ------------------------------------------------------------------ crash images *)
Lemma forall2_nth_error {A B} (R : A -> B -> Prop) l l' i x :
  Forall2 R l l' -> nth_error l i = Some x -> exists y, nth_error l' i = Some y /\ R x y.
Proof.
  intros H. revert i. induction H as [|a b l l' Hab Hl IH]; intros [|i]; simpl; try discriminate.
  - intros E; inversion E; subst. eauto.
  - apply IH.
Qed.

Lemma Forall2_length {A B} (R : A -> B -> Prop) l l' : Forall2 R l l' -> length l = length l'.
Proof. induction 1; simpl; auto. Qed.

Lemma forall2_nth_error_none {A B} (R : A -> B -> Prop) l l' i :
  Forall2 R l l' -> nth_error l i = None -> nth_error l' i = None.
Proof.
  intros H E. apply nth_error_None. apply nth_error_None in E.
  now rewrite <- (Forall2_length _ _ _ H).
Qed.

Lemma crash_b_lookup s img f : crash_b s img -> lookup f img = lookup f s.
Proof. intros H. inversion H; subst. reflexivity. Qed.

Lemma crash_b_fnode s img f : crash_b s img ->
  match fnode f s with
  | Some nd => exists n, (Nat.min (i_dur nd) (length (i_data nd)) <= n <= length (i_data nd))%nat
                         /\ fnode f img = Some (cut_inode n nd)
  | None => fnode f img = None
  end.
Proof.
  intros H. inversion H as [s0 inos F]; subst. unfold fnode, lookup. cbn [f_dir f_ino].
  destruct (dir_lookup f (f_dir s)) as [i|]; auto.
  destruct (nth_error (f_ino s) i) as [nd|] eqn:E.
  - destruct (forall2_nth_error _ _ _ _ _ F E) as (y & Ey & n & Hn & ->). eauto.
  - eapply forall2_nth_error_none; eauto.
Qed.

Lemma crash_b_ino_ok s img : crash_b s img -> ino_ok s -> ino_ok img.
Proof.
  intros H Hok f i Hl. inversion H as [s0 inos F]; subst. simpl.
  rewrite <- (Forall2_length _ _ _ F). apply (Hok f i). exact Hl.
Qed.

Lemma crash_b_fs_ok s img : crash_b s img -> fs_ok s -> fs_ok img.
Proof.
  intros Hc [H1 H2]. split; [eapply crash_b_ino_ok; eauto|].
  unfold names_nodup. inversion Hc; subst. exact H2.
Qed.

Lemma crash_b_backup_ids s img : crash_b s img -> f_dir img = f_dir s.
Proof. intros H. now inversion H. Qed.

Lemma crash_a_is_b s : crash_b s (crash_a_image s).
Proof.
  unfold crash_a_image. constructor.
  induction (f_ino s) as [|nd l IH]; simpl; constructor; auto.
  exists (length (i_data nd)). split; auto. lia.
Qed.
