(* Mani/ProofsVerify.v — Manifest::verify (the model of it) reports nothing on any manifest that
   is open after any history: the chain invariant, read through the code of verify itself
   (directory listing in any order, ids.sort(), the prev / first-edit comparison loop). *)
From Coq Require Import NArith Arith List Bool Lia Sorted.
From Blue Require Import Mani.Model Mani.Fs Mani.ModelMani Mani.ProofsOrder Mani.ProofsFormat Mani.ProofsFs
  Mani.ProofsCrash Mani.ProofsLts Mani.ProofsChain Mani.ProofsChainLts.
Import ListNotations.
Open Scope N_scope.

Arguments N.add : simpl never.
Arguments N.sub : simpl never.
Arguments N.leb : simpl never.
Arguments N.ltb : simpl never.
Arguments N.eqb : simpl never.

(* ------------------------------------------------------------------ ids.sort() *)
Lemma insert_sorted_in x l y : In y (insert_sorted x l) <-> y = x \/ In y l.
Proof.
  induction l as [|a l IH]; simpl.
  - intuition.
  - destruct (x <=? a); simpl; [intuition|]. rewrite IH. intuition.
Qed.

Lemma insert_sorted_sorted x l : StronglySorted N.lt l -> ~ In x l -> StronglySorted N.lt (insert_sorted x l).
Proof.
  induction l as [|a l IH]; simpl; intros Hs Hn.
  - repeat constructor.
  - inversion Hs as [|? ? Hs' Hf]; subst.
    destruct (N.leb_spec x a) as [Hle|Hgt].
    + assert (x < a) by (assert (x <> a) by (intros ->; apply Hn; now left); lia).
      constructor; auto. constructor; auto.
      eapply Forall_impl; [|exact Hf]. simpl; intros; lia.
    + constructor; [apply IH; auto|].
      apply Forall_forall. intros y Hy. apply insert_sorted_in in Hy. destruct Hy as [->|Hy]; [lia|].
      apply (proj1 (Forall_forall _ _) Hf y Hy).
Qed.

Lemma sort_ids_spec l : NoDup l ->
  StronglySorted N.lt (sort_ids l) /\ forall y, In y (sort_ids l) <-> In y l.
Proof.
  unfold sort_ids. induction l as [|a l IH]; simpl; intros Hd.
  - split; [constructor|intuition].
  - inversion Hd as [|? ? Hn Hd']; subst. destruct (IH Hd') as [S E]. split.
    + apply insert_sorted_sorted; auto. rewrite E. exact Hn.
    + intros y. rewrite insert_sorted_in, E. intuition.
Qed.

Lemma sorted_ext (a b : list N) :
  StronglySorted N.lt a -> StronglySorted N.lt b -> (forall y, In y a <-> In y b) -> a = b.
Proof.
  revert b. induction a as [|x a IH]; intros b Sa Sb E.
  - destruct b as [|y b]; auto. exfalso. apply (proj2 (E y)). now left.
  - destruct b as [|y b]; [exfalso; apply (proj1 (E x)); now left|].
    inversion Sa as [|? ? Sa' Fa]; subst. inversion Sb as [|? ? Sb' Fb]; subst.
    assert (x = y).
    { destruct (proj1 (E x) (or_introl eq_refl)) as [->|Hx]; auto.
      destruct (proj2 (E y) (or_introl eq_refl)) as [->|Hy]; auto.
      apply (proj1 (Forall_forall _ _) Fb) in Hx. apply (proj1 (Forall_forall _ _) Fa) in Hy. lia. }
    subst y. f_equal. apply IH; auto.
    intros z. split; intros Hz.
    + destruct (proj1 (E z) (or_intror Hz)) as [->|H]; auto.
      apply (proj1 (Forall_forall _ _) Fa) in Hz. lia.
    + destruct (proj2 (E z) (or_intror Hz)) as [->|H]; auto.
      apply (proj1 (Forall_forall _ _) Fb) in Hz. lia.
Qed.

(* j, j+1, .., j+k-1 *)
Fixpoint nlist (j : N) (k : nat) : list N :=
  match k with
  | O => []
  | S k' => j :: nlist (j + 1) k'
  end.

Lemma nlist_in k : forall j y, In y (nlist j k) <-> j <= y < j + N.of_nat k.
Proof.
  induction k as [|k IH]; intros j y; simpl.
  - split; [contradiction|lia].
  - rewrite IH. lia.
Qed.

Lemma nlist_sorted k : forall j, StronglySorted N.lt (nlist j k).
Proof.
  induction k as [|k IH]; intros j; simpl; constructor; auto.
  apply Forall_forall. intros y Hy. apply nlist_in in Hy. lia.
Qed.

Lemma nlist_snoc k : forall j, nlist j (S k) = nlist j k ++ [j + N.of_nat k].
Proof.
  induction k as [|k IH]; intros j.
  - simpl. f_equal. lia.
  - change (nlist j (S (S k))) with (j :: nlist (j + 1) (S k)). rewrite IH.
    cbn [nlist app]. do 3 f_equal. rewrite Nat2N.inj_succ. lia.
Qed.

Lemma sort_ids_exact l K : NoDup l -> (forall n, In n l <-> 1 <= n <= K) ->
  sort_ids l = nlist 1 (N.to_nat K).
Proof.
  intros Hd Hin. destruct (sort_ids_spec l Hd) as [S E].
  apply sorted_ext; auto; [apply nlist_sorted|].
  intros y. rewrite E, Hin, nlist_in, N2Nat.id. lia.
Qed.

Lemma last_id_nlist k : last_id (nlist 1 k) = match k with O => None | S _ => Some (N.of_nat k) end.
Proof.
  destruct k as [|k]; [reflexivity|].
  rewrite nlist_snoc. unfold last_id. rewrite rev_app_distr. simpl. f_equal. lia.
Qed.

(* ------------------------------------------------------------------ derived PartialEq is reflexive *)
Lemma str_eqb_refl a : str_eqb a a = true.
Proof. now apply str_eqb_eq. Qed.

Lemma list_eqb_refl {A} (eqb : A -> A -> bool) l : (forall x, eqb x x = true) -> list_eqb eqb l l = true.
Proof. intros H. induction l as [|x l IH]; simpl; auto. now rewrite H, IH. Qed.

Lemma edit_eqb_refl e : edit_eqb e e = true.
Proof.
  unfold edit_eqb. rewrite !list_eqb_refl; auto using str_eqb_refl.
  intros [k v]. unfold kv_eqb. simpl. now rewrite N.eqb_refl, str_eqb_refl.
Qed.

Section WithCrc.
  Variable crc : list N -> N.
  Variable ratio : N.

  Local Notation rd := (read_mani crc).
  Local Notation fe := (read_first_edit crc).

  (* what fragments_chain gives, as hypotheses about one directory *)
  Definition chained (s : fs) (K : N) : Prop :=
    forall n, 1 <= n <= K ->
      exists S, rd (content (FBackup n) s) = Ok S /\
                (n < K -> fe (content (FBackup (n + 1)) s) = Ok (Some (rollup S))) /\
                (n = K -> fe (content FMani s) = Ok (Some (rollup S))).

  Definition prev_ok (s : fs) (j : N) (prev : option (N * edit)) : Prop :=
    (j = 1 /\ prev = None) \/
    (1 < j /\ exists S, prev = Some (j - 1, rollup S) /\ rd (content (FBackup (j - 1)) s) = Ok S).

  Lemma verify_loop_chain s K SM : chained s K -> rd (content FMani s) = Ok SM ->
    forall k j prev, j + N.of_nat k = K + 1 -> 1 <= j -> prev_ok s j prev ->
    verify_loop crc s (map (fun id => (id, FBackup id)) (nlist j k) ++ [(K + 1, FMani)]) prev = Ok [].
  Proof.
    intros Hch HM. induction k as [|k IH]; intros j prev Hj Hj1 Hp.
    - (* MANIFEST itself *)
      cbn [nlist map app verify_loop]. rewrite HM.
      rewrite (to_edit_ok SM (read_mani_wf crc _ _ HM)).
      destruct Hp as [[-> ->]|(Hgt & S & -> & Hs)]; [reflexivity|].
      assert (EK : j - 1 = K) by lia. rewrite EK in *.
      destruct (N.eqb_spec (K + 1) (K + 1)) as [_|]; [|lia]. cbn [negb].
      destruct (Hch K ltac:(lia)) as (S' & R' & _ & F'). rewrite Hs in R'. inversion R'; subst S'.
      rewrite (F' eq_refl). cbn [opt_edit_eqb]. now rewrite edit_eqb_refl.
    - cbn [nlist map app verify_loop].
      assert (HjK : 1 <= j <= K) by lia.
      destruct (Hch j HjK) as (S & R & Fn & _). rewrite R.
      rewrite (to_edit_ok S (read_mani_wf crc _ _ R)).
      assert (Next : prev_ok s (j + 1) (Some (j, rollup S))).
      { right. split; [lia|]. exists S. replace (j + 1 - 1) with j by lia. auto. }
      destruct Hp as [[-> ->]|(Hgt & Sp & -> & Hs)].
      + apply IH; auto; lia.
      + destruct (N.eqb_spec (j - 1 + 1) j) as [_|]; [|lia]. cbn [negb].
        destruct (Hch (j - 1) ltac:(lia)) as (S' & R' & F' & _). rewrite Hs in R'. inversion R'; subst S'.
        replace (j - 1 + 1) with j in F' by lia. rewrite (F' ltac:(lia)).
        cbn [opt_edit_eqb]. rewrite edit_eqb_refl. apply IH; auto; lia.
  Qed.

  Theorem verify_clean c m : reach crc ratio c -> c_h c = Some m -> verify crc (c_fs c) = Ok [].
  Proof.
    intros Hr Hh.
    destruct (fragments_chain crc ratio c m Hr Hh) as (K & Hl & Hids & Hch).
    destruct (inv_reach crc ratio c Hr) as [_ Hmain]. rewrite Hh in Hmain. destruct Hmain as (Hup & _).
    pose proof (up_inv_mgood crc _ _ Hup) as (Hok & _ & (SM & HM & _)).
    rewrite <- content_fnode in HM.
    assert (Hnd : NoDup (backup_ids (f_dir (c_fs c)))) by (apply nodup_backup_ids; apply Hok).
    unfold verify, verify_paths. rewrite (sort_ids_exact _ K Hnd Hids), last_id_nlist.
    destruct (N.to_nat K) as [|k] eqn:EK.
    - assert (K = 0) by lia. subst K. cbn [nlist map].
      cbn [verify_loop]. rewrite HM. rewrite (to_edit_ok SM (read_mani_wf crc _ _ HM)). reflexivity.
    - assert (EK' : N.of_nat (S k) = K) by (rewrite <- EK; apply N2Nat.id). rewrite EK'.
      apply (verify_loop_chain (c_fs c) K SM Hch HM (S k) 1 None); [lia|lia|left; auto].
  Qed.

End WithCrc.
