(* Mani/Model.v — executable model of the on-disk format of mani/src/lib.rs:
   Edit (add / rm / info / check_str), the writer inside Manifest::_apply (to_crc_line, one
   text block per edit closed by the separator line), BufRead::lines, ManifestIterator::next,
   Manifest::{apply_edit, to_edit, read_mani, read_first_edit, size}.
   Definitions only (no proofs).  Transcribes the Rust function by function.

   Strings are the UTF-8 bytes of a Rust &str (list N, every element < 256); an info key is a
   `char`, represented by its scalar value (N).  BTreeSet<String> is a strictly increasing list in
   the byte-lexicographic order (= String::cmp); BTreeMap<char, String> is a list of pairs strictly
   increasing in the key.

   crc32c is external code: a Section variable `crc` (any function); its u32 return type is
   written `mod 2^32`.

   This is the model of the code AFTER the repair of F13 (Edit::check_str / check_key reject
   exactly the strings ManifestIterator cannot take back). *)
From Coq Require Import NArith List Bool.
Import ListNotations.
Open Scope N_scope.

Definition str := list N.

(* ------------------------------------------------------------------ results *)
(* error classes = the `code` of the SError (mani codes) / io-error of handled::SError *)
Inductive err := ECorruption | ENewline | EDisallowed | EIo | ESystem.

Inductive result (A : Type) :=
| Ok (a : A)
| Err (e : err)
| Panic.
Arguments Ok {A} a.
Arguments Err {A} e.
Arguments Panic {A}.

Definition err_eqb (a b : err) : bool :=
  match a, b with
  | ECorruption, ECorruption | ENewline, ENewline | EDisallowed, EDisallowed
  | EIo, EIo | ESystem, ESystem => true
  | _, _ => false
  end.

(* ------------------------------------------------------------------ ordered collections *)
(* String::cmp / [u8]::cmp *)
Fixpoint lex_cmp (a b : str) : comparison :=
  match a, b with
  | [], [] => Eq
  | [], _ :: _ => Lt
  | _ :: _, [] => Gt
  | x :: a', y :: b' =>
      match N.compare x y with
      | Eq => lex_cmp a' b'
      | c => c
      end
  end.

Definition str_eqb (a b : str) : bool :=
  match lex_cmp a b with Eq => true | _ => false end.

(* BTreeSet<String>::insert *)
Fixpoint set_insert (x : str) (l : list str) : list str :=
  match l with
  | [] => [x]
  | y :: l' =>
      match lex_cmp x y with
      | Lt => x :: l
      | Eq => l
      | Gt => y :: set_insert x l'
      end
  end.

(* BTreeSet<String>::remove *)
Fixpoint set_remove (x : str) (l : list str) : list str :=
  match l with
  | [] => []
  | y :: l' =>
      match lex_cmp x y with
      | Lt => l
      | Eq => l'
      | Gt => y :: set_remove x l'
      end
  end.

(* BTreeMap<char, String>::insert (a later insert of the same key overwrites) *)
Fixpoint map_insert (k : N) (v : str) (l : list (N * str)) : list (N * str) :=
  match l with
  | [] => [(k, v)]
  | (k', v') :: l' =>
      match N.compare k k' with
      | Lt => (k, v) :: l
      | Eq => (k, v) :: l'
      | Gt => (k', v') :: map_insert k v l'
      end
  end.

(* ------------------------------------------------------------------ Edit *)
Record edit := mkEdit {
  e_add : list str;         (* add_strs: BTreeSet<String> *)
  e_rm : list str;          (* rm_strs:  BTreeSet<String> *)
  e_info : list (N * str)   (* info:     BTreeMap<char, String> *)
}.

Definition empty_edit : edit := mkEdit [] [] [].

Definition is_ascii (s : str) : bool := forallb (fun b => b <? 128) s.

Definition ends_with_cr (s : str) : bool :=
  match rev s with
  | c :: _ => c =? 13
  | [] => false
  end.

Definition is_nil {A} (l : list A) : bool := match l with [] => true | _ => false end.

(* Edit::check_str (after the F13 repair): no newline; then: not empty, ASCII only, no trailing
   carriage return — exactly what ManifestIterator::next can read back *)
Definition check_str (s : str) : result str :=
  if existsb (fun b => b =? 10) s then Err ENewline
  else if is_nil s || negb (is_ascii s) || ends_with_cr s then Err EDisallowed
  else Ok s.

(* Edit::check_key (after the F13 repair): the key char is written in front of the value and read
   back as the action byte *)
Definition check_key (c : N) : result unit :=
  if c =? 10 then Err ENewline
  else if negb (c <? 128) || (c =? 43) || (c =? 45) then Err EDisallowed
  else Ok tt.

Definition edit_add (e : edit) (s : str) : result edit :=
  match check_str s with
  | Ok s' => Ok (mkEdit (set_insert s' (e_add e)) (e_rm e) (e_info e))
  | Err x => Err x
  | Panic => Panic
  end.

Definition edit_rm (e : edit) (s : str) : result edit :=
  match check_str s with
  | Ok s' => Ok (mkEdit (e_add e) (set_insert s' (e_rm e)) (e_info e))
  | Err x => Err x
  | Panic => Panic
  end.

Definition edit_info (e : edit) (c : N) (s : str) : result edit :=
  match check_key c with
  | Ok _ =>
      match check_str s with
      | Ok s' => Ok (mkEdit (e_add e) (e_rm e) (map_insert c s' (e_info e)))
      | Err x => Err x
      | Panic => Panic
      end
  | Err x => Err x
  | Panic => Panic
  end.

(* ------------------------------------------------------------------ in-memory state *)
Record state := mkState {
  s_strs : list str;        (* strs: BTreeSet<String> *)
  s_info : list (N * str)   (* info: BTreeMap<char, String> *)
}.

Definition empty_state : state := mkState [] [].

(* Manifest::apply_edit: removals, then additions, then info *)
Definition apply_edit (e : edit) (st : state) : state :=
  let strs1 := fold_left (fun acc p => set_remove p acc) (e_rm e) (s_strs st) in
  let strs2 := fold_left (fun acc p => set_insert p acc) (e_add e) strs1 in
  let info2 := fold_left (fun acc kv => map_insert (fst kv) (snd kv) acc) (e_info e) (s_info st) in
  mkState strs2 info2.

(* Manifest::to_edit; `.expect(..)` on a rejected string is a panic *)
Fixpoint to_edit_strs (l : list str) (e : edit) : result edit :=
  match l with
  | [] => Ok e
  | s :: l' =>
      match edit_add e s with
      | Ok e' => to_edit_strs l' e'
      | _ => Panic
      end
  end.

Fixpoint to_edit_info (l : list (N * str)) (e : edit) : result edit :=
  match l with
  | [] => Ok e
  | (c, s) :: l' =>
      match edit_info e c s with
      | Ok e' => to_edit_info l' e'
      | _ => Panic
      end
  end.

Definition to_edit (st : state) : result edit :=
  match to_edit_strs (s_strs st) empty_edit with
  | Ok e => to_edit_info (s_info st) e
  | r => r
  end.

(* Manifest::size *)
Definition size (st : state) : N :=
  fold_left (fun acc s => acc + N.of_nat (length s)) (s_strs st) 0
  + fold_left (fun acc kv => acc + N.of_nat (length (snd kv))) (s_info st) 0.

(* ------------------------------------------------------------------ hex *)
Definition hexdigit (d : N) : N := if d <? 10 then 48 + d else 87 + d.   (* '0'.. / 'a'.. *)

(* k lowercase hex digits of n, most significant first: format!("{:08x}") for k = 8 *)
Fixpoint hexN (k : nat) (n : N) : list N :=
  match k with
  | O => []
  | S k' => hexN k' (n / 16) ++ [hexdigit (n mod 16)]
  end.

(* char::to_digit(16) *)
Definition hexval (c : N) : option N :=
  if (48 <=? c) && (c <=? 57) then Some (c - 48)
  else if (97 <=? c) && (c <=? 102) then Some (c - 87)
  else if (65 <=? c) && (c <=? 70) then Some (c - 55)
  else None.

Fixpoint parse_digits (cs : list N) (acc : N) : option N :=
  match cs with
  | [] => Some acc
  | c :: r =>
      match hexval c with
      | Some d => parse_digits r (acc * 16 + d)
      | None => None
      end
  end.

(* u32::from_str_radix(s, 16) for |s| <= 8 (no overflow possible): a leading '+' is accepted,
   a leading '-' is an invalid digit for an unsigned type, the empty string and a lone sign are
   errors *)
Definition parse_hex_u32 (cs : list N) : option N :=
  match cs with
  | [] => None
  | c :: r =>
      if c =? 43 then (if is_nil r then None else parse_digits r 0)
      else parse_digits cs 0
  end.

(* ------------------------------------------------------------------ BufRead::lines *)
(* Split at '\n'; a line that was terminated by '\n' loses one '\r' directly in front of it; a
   final piece without '\n' is a line if it is not empty (and keeps a trailing '\r'). *)
Definition starts_with_nl (r : list N) : bool :=
  match r with
  | c :: _ => c =? 10
  | [] => false
  end.

Fixpoint lines (bs : list N) : list str :=
  match bs with
  | [] => []
  | b :: r =>
      if b =? 10 then [] :: lines r
      else if (b =? 13) && starts_with_nl r then lines r
      else match lines r with
           | l :: ls => (b :: l) :: ls
           | [] => [[b]]
           end
  end.

(* core::str::from_utf8 (read_line fails with InvalidData on a line that is not UTF-8) *)
Definition is_cont (b : N) : bool := (128 <=? b) && (b <=? 191).
Definition in_range (lo hi b : N) : bool := (lo <=? b) && (b <=? hi).

Fixpoint valid_utf8 (bs : list N) : bool :=
  match bs with
  | [] => true
  | b0 :: r =>
      if b0 <? 128 then valid_utf8 r
      else if in_range 194 223 b0 then
        match r with
        | b1 :: r1 => is_cont b1 && valid_utf8 r1
        | _ => false
        end
      else if in_range 224 239 b0 then
        match r with
        | b1 :: b2 :: r2 =>
            (if b0 =? 224 then in_range 160 191 b1
             else if b0 =? 237 then in_range 128 159 b1
             else is_cont b1)
            && is_cont b2 && valid_utf8 r2
        | _ => false
        end
      else if in_range 240 244 b0 then
        match r with
        | b1 :: b2 :: b3 :: r3 =>
            (if b0 =? 240 then in_range 144 191 b1
             else if b0 =? 244 then in_range 128 143 b1
             else is_cont b1)
            && is_cont b2 && is_cont b3 && valid_utf8 r3
        | _ => false
        end
      else false
  end.

(* ------------------------------------------------------------------ writer and reader *)
Definition SEP : str := [45; 45; 45; 45; 45; 45; 45; 45].    (* TX_SEPARATOR, checked against Gen *)

Section WithCrc.
  Variable crc : list N -> N.

  (* crc32c::crc32c returns u32 *)
  Definition crc32 (x : list N) : N := crc x mod 4294967296.

  (* to_crc_line: format!("{cksum:08x}{line}\n") *)
  Definition to_crc_line (line : str) : list N := hexN 8 (crc32 line) ++ line ++ [10].

  (* the text block Manifest::_apply appends for one edit; an info key inside an `edit` passed
     check_key, so it is ASCII and `format!("{key}{value}")` is the single byte followed by the
     value *)
  Definition ser_edit (e : edit) : list N :=
    flat_map (fun p => to_crc_line (45 :: p)) (e_rm e)
    ++ flat_map (fun p => to_crc_line (43 :: p)) (e_add e)
    ++ flat_map (fun kv => to_crc_line (fst kv :: snd kv)) (e_info e)
    ++ SEP ++ [10].

  Definition ser_edits (es : list edit) : list N := flat_map ser_edit es.

  (* the body of the `for (idx, line) in file.lines().enumerate()` loop of
     ManifestIterator::next, for one line and the edit accumulated so far *)
  Inductive line_res :=
  | LCont (acc : edit)            (* next line *)
  | LYield (e : edit)             (* return Some(Ok(edit)) *)
  | LErrSoft (x : err)            (* return Some(Err(..)) WITHOUT poisoning: the file stays open *)
  | LErr (x : err).               (* self.poison(..): file = None *)

  Definition lift_edit (r : result edit) : line_res :=
    match r with
    | Ok e => LCont e
    | Err x => LErr x
    | Panic => LErr ESystem   (* unreachable: the Edit functions do not panic *)
    end.

  Definition do_line (acc : edit) (l : str) : line_res :=
    if negb (valid_utf8 l) then LErr EIo
    else if negb (is_ascii l) then LErrSoft ECorruption
    else if str_eqb l SEP then LYield acc
    else if Nat.ltb 9 (length l) then
      match parse_hex_u32 (firstn 8 l) with
      | None => LErr ECorruption
      | Some expected =>
          if negb (crc32 (skipn 8 l) =? expected) then LErr ECorruption
          else
            let action := nth 8 l 0 in
            let payload := skipn 9 l in
            if action =? 43 then lift_edit (edit_add acc payload)
            else if action =? 45 then lift_edit (edit_rm acc payload)
            else if action =? 10 then LErr ECorruption
            else lift_edit (edit_info acc action payload)
      end
    else LErr ECorruption.

  (* ManifestIterator: `file` is Some(remaining lines) or None *)
  Definition iter := option (list str).

  Inductive item := IEdit (e : edit) | IErr (x : err).

  Fixpoint next_loop (ls : list str) (acc : edit) : option item * iter :=
    match ls with
    | [] => (None, None)
    | l :: rest =>
        match do_line acc l with
        | LCont acc' => next_loop rest acc'
        | LYield e => (Some (IEdit e), Some rest)
        | LErrSoft x => (Some (IErr x), Some rest)
        | LErr x => (Some (IErr x), None)
        end
    end.

  (* ManifestIterator::next *)
  Definition iter_next (it : iter) : option item * iter :=
    match it with
    | None => (None, None)
    | Some ls => next_loop ls empty_edit
    end.

  (* `for item in iter` collected (the public iterator API); every call consumes at least one
     line, so the number of lines + 1 bounds the number of calls *)
  Fixpoint iter_all (fuel : nat) (it : iter) : list item :=
    match fuel with
    | O => []
    | S f =>
        match iter_next it with
        | (None, _) => []
        | (Some x, it') => x :: iter_all f it'
        end
    end.

  (* Manifest::read_mani: `for edit in iter { let edit = edit?; apply_edit(..) }` with the
     iterator's loop inlined: `acc` is the edit under construction, `st` the state so far *)
  Fixpoint read_lines (ls : list str) (acc : edit) (st : state) : result state :=
    match ls with
    | [] => Ok st
    | l :: rest =>
        match do_line acc l with
        | LCont acc' => read_lines rest acc' st
        | LYield e => read_lines rest empty_edit (apply_edit e st)
        | LErrSoft x => Err x
        | LErr x => Err x
        end
    end.

  (* the content of a file that is absent is None: ManifestIterator::open gives file = None *)
  Definition read_mani (content : option (list N)) : result state :=
    match content with
    | None => Ok empty_state
    | Some bs => read_lines (lines bs) empty_edit empty_state
    end.

  (* Manifest::read_first_edit *)
  Fixpoint first_edit_lines (ls : list str) (acc : edit) : result (option edit) :=
    match ls with
    | [] => Ok None
    | l :: rest =>
        match do_line acc l with
        | LCont acc' => first_edit_lines rest acc'
        | LYield e => Ok (Some e)
        | LErrSoft x => Err x
        | LErr x => Err x
        end
    end.

  Definition read_first_edit (content : option (list N)) : result (option edit) :=
    match content with
    | None => Ok None
    | Some bs => first_edit_lines (lines bs) empty_edit
    end.

End WithCrc.

(* ------------------------------------------------------------------ specification *)
(* S: the state after a sequence of edits is the fold of apply_edit *)
Definition spec_state (es : list edit) : state :=
  fold_left (fun st e => apply_edit e st) es empty_state.
