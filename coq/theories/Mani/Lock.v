(* Mani/Lock.v — model of the "exclusive lock file" mechanism: utilz/src/lockfile.rs
   Lockfile::{_lock, unlock} on ONE lock file (root/LOCKFILE), for any number of processes.
   Definitions only.

   Kernel side: an fcntl (POSIX record) write lock on the whole file has at most one owning
   PROCESS; F_SETLK by another process fails with EAGAIN; and — the POSIX rule that matters here —
   when a process closes ANY descriptor of the file, all of that process's record locks on the
   file are released.
   Process side: the table ACTIVELY_LOCKING (is the file's (dev, ino) registered by this process),
   guarded by a mutex that is held through the whole of _lock and of unlock; a Lockfile value owns
   one descriptor of the file.

   Two orders of the steps of _lock:
     OpenFirst  — the code before the repair: open the file, THEN look in the table; when the
                  process already holds the lock the freshly opened File is dropped (closed).
     TableFirst — the repaired code: look in the table first (stat the path); a process that
                  already holds the lock never opens a second descriptor.
   Steps are at system-call granularity so that processes interleave inside _lock. *)
From Coq Require Import Arith Bool List.
Import ListNotations.

Inductive variant := OpenFirst | TableFirst.

Record lstate := mkL {
  l_owner : option nat;      (* kernel: the process owning the record lock, if any *)
  l_table : nat -> bool;     (* per process: the file is in ACTIVELY_LOCKING *)
  l_held : nat -> bool;      (* per process: a live Lockfile value exists *)
  l_pc : nat -> bool         (* per process: inside _lock with the file opened (mutex held) *)
}.

Definition linit : lstate := mkL None (fun _ => false) (fun _ => false) (fun _ => false).

Definition upd (f : nat -> bool) (p : nat) (b : bool) : nat -> bool :=
  fun q => if Nat.eqb q p then b else f q.

(* POSIX: close of any descriptor of the file by process p drops p's record locks on it *)
Definition close_fd (p : nat) (o : option nat) : option nat :=
  match o with
  | Some q => if Nat.eqb q p then None else Some q
  | None => None
  end.

Inductive event :=
| EBegin (p : nat)     (* _lock up to and including open(2) (and the table look-up, if it comes first) *)
| EFinish (p : nat)    (* the rest of _lock: [table look-up], fcntl(F_SETLK), result *)
| EUnlock (p : nat).   (* Lockfile::unlock / drop *)

Definition acquire (p : nat) (st : lstate) : lstate :=
  mkL (Some p) (upd (l_table st) p true) (upd (l_held st) p true) (upd (l_pc st) p false).

Definition drop_file (p : nat) (st : lstate) : lstate :=      (* the opened File is dropped *)
  mkL (close_fd p (l_owner st)) (l_table st) (l_held st) (upd (l_pc st) p false).

Definition setlk (p : nat) (st : lstate) : lstate :=
  match l_owner st with
  | None => acquire p st
  | Some q => if Nat.eqb q p then acquire p st else drop_file p st     (* EAGAIN -> Ok(None) *)
  end.

(* an event that is not enabled (the mutex is taken, nothing to unlock) changes nothing *)
Definition lstep (v : variant) (e : event) (st : lstate) : lstate :=
  match e with
  | EBegin p =>
      if l_pc st p then st
      else match v with
           | TableFirst => if l_table st p then st      (* Ok(None) before any descriptor exists *)
                           else mkL (l_owner st) (l_table st) (l_held st) (upd (l_pc st) p true)
           | OpenFirst => mkL (l_owner st) (l_table st) (l_held st) (upd (l_pc st) p true)
           end
  | EFinish p =>
      if l_pc st p then
        match v with
        | OpenFirst => if l_table st p then drop_file p st    (* Ok(None): drops the fresh File *)
                       else setlk p st
        | TableFirst => setlk p st
        end
      else st
  | EUnlock p =>
      if l_pc st p then st
      else if l_held st p then
        mkL (close_fd p (l_owner st)) (upd (l_table st) p false) (upd (l_held st) p false) (l_pc st)
      else st
  end.

Definition lrun (v : variant) (es : list event) (st : lstate) : lstate :=
  fold_left (fun s e => lstep v e s) es st.

(* ---- complete calls, driven one after the other (what the correspondence check runs on two
   real processes) *)
Inductive lcall := CLock (p : nat) | CUnlock (p : nat).
Inductive lout := LGot | LNone | LOk | LNoHandle.

Definition lcall_step (v : variant) (c : lcall) (st : lstate) : lstate * lout :=
  match c with
  | CLock p =>
      let st' := lstep v (EFinish p) (lstep v (EBegin p) st) in
      (st', if l_held st' p && negb (l_held st p) then LGot else LNone)
  | CUnlock p =>
      (lstep v (EUnlock p) st, if l_held st p then LOk else LNoHandle)
  end.

Fixpoint lock_run_from (v : variant) (cs : list lcall) (st : lstate) : list lout :=
  match cs with
  | [] => []
  | c :: cs' => let (st', o) := lcall_step v c st in o :: lock_run_from v cs' st'
  end.

(* the repaired code *)
Definition lock_run (cs : list lcall) : list lout := lock_run_from TableFirst cs linit.
