(* Mani/ProofsCrash.v — Manifest::{_apply, rollover, open} over the file-system model: what
   MANIFEST reads as in EVERY state between two system calls, for every cut of its unsynced tail. *)
From Coq Require Import NArith Arith List Bool Lia Sorted.
From Blue Require Import Mani.Model Mani.Fs Mani.ModelMani Mani.ProofsOrder Mani.ProofsFormat Mani.ProofsFs.
Import ListNotations.
Open Scope N_scope.

Arguments N.add : simpl never.
Arguments N.sub : simpl never.
Arguments N.mul : simpl never.
Arguments N.leb : simpl never.
Arguments N.ltb : simpl never.
Arguments N.eqb : simpl never.

Section WithCrc.
  Variable crc : list N -> N.

  Local Notation rd := (read_mani crc).

  (* ---------------------------------------------------------------- the reader builds well-formed states *)
  Lemma lift_edit_cont r acc' : lift_edit r = LCont acc' -> r = Ok acc'.
  Proof. destruct r; simpl; intros H; inversion H; auto. Qed.

  Lemma do_line_cont_wf acc l acc' : wf_edit acc -> do_line crc acc l = LCont acc' -> wf_edit acc'.
  Proof.
    intros Hwf. unfold do_line.
    destruct (negb (valid_utf8 l)); try discriminate.
    destruct (negb (is_ascii l)); try discriminate.
    destruct (str_eqb l SEP); try discriminate.
    destruct (Nat.ltb 9 (length l)); try discriminate.
    destruct (parse_hex_u32 (firstn 8 l)); try discriminate.
    destruct (negb (crc32 crc (skipn 8 l) =? n)); try discriminate.
    destruct (nth 8 l 0 =? 43).
    { intros H. apply lift_edit_cont in H. eapply edit_add_wf; eauto. }
    destruct (nth 8 l 0 =? 45).
    { intros H. apply lift_edit_cont in H. eapply edit_rm_wf; eauto. }
    destruct (nth 8 l 0 =? 10); try discriminate.
    intros H. apply lift_edit_cont in H. eapply edit_info_wf; eauto.
  Qed.

  Lemma read_lines_wf ls : forall acc st st', wf_edit acc -> wf_state st ->
    read_lines crc ls acc st = Ok st' -> wf_state st'.
  Proof.
    induction ls as [|l ls IH]; intros acc st st' Ha Hs; cbn [read_lines].
    - intros H; inversion H; now subst.
    - destruct (do_line crc acc l) eqn:E; try discriminate.
      + apply IH; auto. eapply do_line_cont_wf; eauto.
      + apply do_line_yield_inv in E. destruct E as [_ ->].
        apply IH; [apply wf_empty_edit|now apply apply_edit_wf].
  Qed.

  Lemma read_mani_wf c st : rd c = Ok st -> wf_state st.
  Proof.
    unfold read_mani. destruct c as [bs|].
    - apply read_lines_wf; [apply wf_empty_edit|apply wf_empty_state].
    - intros H; inversion H. apply wf_empty_state.
  Qed.

  (* ---------------------------------------------------------------- what MANIFEST reads as *)
  (* every cut of the node between its durable length and its length reads as an error or as a
     state in P *)
  Definition cuts_ok (P : state -> Prop) (nd : inode) : Prop :=
    forall n, (Nat.min (i_dur nd) (length (i_data nd)) <= n <= length (i_data nd))%nat ->
      (exists x, rd (Some (firstn n (i_data nd))) = Err x) \/
      (exists st, rd (Some (firstn n (i_data nd))) = Ok st /\ P st).

  Definition node_safe (P : state -> Prop) (o : option inode) : Prop :=
    match o with
    | Some nd => cuts_ok P nd
    | None => P empty_state
    end.

  (* the uncut content reads as a state in P *)
  Definition node_full (P : state -> Prop) (o : option inode) : Prop :=
    exists st, rd (option_map i_data o) = Ok st /\ P st.

  Definition mgood (P : state -> Prop) (s : fs) : Prop :=
    fs_ok s /\ node_safe P (fnode FMani s) /\ node_full P (fnode FMani s).

  Lemma node_safe_impl (P Q : state -> Prop) o : (forall x, P x -> Q x) -> node_safe P o -> node_safe Q o.
  Proof.
    intros H. destruct o as [nd|]; simpl; auto.
    intros C n Hn. destruct (C n Hn) as [?|(st & E & Hp)]; eauto.
  Qed.

  Lemma node_full_impl (P Q : state -> Prop) o : (forall x, P x -> Q x) -> node_full P o -> node_full Q o.
  Proof. intros H (st & E & Hp). exists st. eauto. Qed.

  Lemma mgood_impl (P Q : state -> Prop) s : (forall x, P x -> Q x) -> mgood P s -> mgood Q s.
  Proof.
    intros H (A & B & C). split; [exact A|split; [eapply node_safe_impl|eapply node_full_impl]; eauto].
  Qed.

  (* a fully durable node that reads as st *)
  Lemma exact_node_safe (P : state -> Prop) nd st :
    i_dur nd = length (i_data nd) -> rd (Some (i_data nd)) = Ok st -> P st ->
    node_safe P (Some nd) /\ node_full P (Some nd).
  Proof.
    intros Hd Hr Hp. split.
    - intros n Hn. rewrite Hd, Nat.min_id in Hn. assert (n = length (i_data nd)) by lia. subst n.
      rewrite firstn_all. right. eauto.
    - exists st. simpl. auto.
  Qed.

  Lemma node_safe_full_read (P : state -> Prop) nd : node_safe P (Some nd) ->
    (exists x, rd (Some (i_data nd)) = Err x) \/ (exists st, rd (Some (i_data nd)) = Ok st /\ P st).
  Proof.
    intros C. specialize (C (length (i_data nd))). rewrite firstn_all in C. apply C. lia.
  Qed.

  (* ---------------------------------------------------------------- crash images *)
  Lemma cuts_ok_cut (P : state -> Prop) nd n :
    (Nat.min (i_dur nd) (length (i_data nd)) <= n <= length (i_data nd))%nat ->
    cuts_ok P nd -> cuts_ok P (cut_inode n nd).
  Proof.
    intros Hn C n' Hn'. unfold cut_inode in *. cbn [i_data i_dur] in *.
    rewrite firstn_length in Hn'.
    assert (n' = n) by lia. subst n'.
    rewrite firstn_firstn, Nat.min_id. apply C. exact Hn.
  Qed.

  Lemma crash_b_node_safe (P : state -> Prop) s img :
    crash_b s img -> node_safe P (fnode FMani s) -> node_safe P (fnode FMani img).
  Proof.
    intros Hc Hs. pose proof (crash_b_fnode s img FMani Hc) as F.
    destruct (fnode FMani s) as [nd|].
    - destruct F as (n & Hn & ->). simpl in *. now apply cuts_ok_cut.
    - rewrite F. exact Hs.
  Qed.

  Lemma fnode_crash_a f s :
    fnode f (crash_a_image s) = option_map (fun nd => cut_inode (length (i_data nd)) nd) (fnode f s).
  Proof.
    unfold fnode, crash_a_image, lookup. cbn [f_dir f_ino].
    destruct (dir_lookup f (f_dir s)); auto. apply nth_error_map.
  Qed.

  Lemma crash_a_node_full (P : state -> Prop) s :
    node_full P (fnode FMani s) -> node_full P (fnode FMani (crash_a_image s)).
  Proof.
    intros (st & E & Hp). exists st. split; auto.
    rewrite fnode_crash_a. destruct (fnode FMani s) as [nd|]; simpl in *; auto.
    now rewrite firstn_all.
  Qed.

  Lemma fs_ok_crash_a s : fs_ok s -> fs_ok (crash_a_image s).
  Proof. apply crash_b_fs_ok. apply crash_a_is_b. Qed.

  (* ---------------------------------------------------------------- sys and traces *)
  Lemma sys_ok c s tr s' : exec c s = Some s' -> sys c (s, tr) = Some (s', tr ++ [c]).
  Proof. intros H. unfold sys. simpl. now rewrite H. Qed.

  (* ---------------------------------------------------------------- invariants of an open handle *)
  Record up_inv (s : fs) (m : mani) : Prop := {
    up_ok : fs_ok s;
    up_wf : wf_state (m_st m);
    up_ids : Forall (fun id => id < m_last m) (backup_ids (f_dir s));
    up_frag : (fnode FMani s = None /\ lookup FMani s = None /\ m_st m = empty_state) \/
              (exists es nd, fnode FMani s = Some nd /\ i_data nd = ser_edits crc es /\
                             i_dur nd = length (i_data nd) /\ Forall wf_edit es /\
                             spec_state es = m_st m)
  }.

  Lemma up_inv_mgood s m : up_inv s m -> mgood (eq (m_st m)) s.
  Proof.
    intros [A B C D]. split; auto.
    destruct D as [(E1 & E2 & E3)|(es & nd & E1 & E2 & E3 & E4 & E5)].
    - rewrite E1. split; simpl; auto. exists empty_state. auto.
    - rewrite E1. apply (exact_node_safe _ nd (m_st m)); auto.
      rewrite E2, <- E5. now apply read_roundtrip.
  Qed.

  (* ---------------------------------------------------------------- _apply up to sync_data *)
  Lemma apply_core_run m f e s tr s1 i nd :
    exec (COpenAppend f) s = Some s1 -> lookup f s1 = Some i -> nth_error (f_ino s1) i = Some nd ->
    let bytes := ser_edit crc e in
    let n2 := mkInode (i_data nd ++ bytes) (i_dur nd) in
    let n3 := mkInode (i_data nd ++ bytes) (length (i_data nd ++ bytes)) in
    let s2 := set_node i n2 s1 in
    let s3 := set_node i n3 s2 in
    apply_core crc m f e (s, tr) =
      Ok (mkMani (apply_edit e (m_st m)) (m_last m) (m_ratio m),
          (s3, tr ++ [COpenAppend f; CWrite f bytes; CFdatasync f])) /\
    exec (CWrite f bytes) s1 = Some s2 /\ exec (CFdatasync f) s2 = Some s3.
  Proof.
    intros E1 L1 N1 bytes n2 n3 s2 s3.
    assert (E2 : exec (CWrite f bytes) s1 = Some s2) by (now apply exec_write).
    assert (N2 : nth_error (f_ino s2) i = Some n2).
    { unfold s2, set_node. cbn [f_ino]. apply nth_error_upd_same. apply nth_error_Some. congruence. }
    assert (E3 : exec (CFdatasync f) s2 = Some s3).
    { unfold s3. rewrite (exec_sync f s2 i n2); auto. }
    split; [|split; auto].
    unfold apply_core. rewrite (sys_ok _ _ _ _ E1), (sys_ok _ _ _ _ E2), (sys_ok _ _ _ _ E3).
    rewrite <- !app_assoc. reflexivity.
  Qed.

  (* ---------------------------------------------------------------- rollover *)
  Definition roll_calls (m : mani) (s : fs) : list call :=
    [CLink FMani (FBackup (m_last m))]
    ++ (if exists_file FTmp s then [CUnlink FTmp] else [])
    ++ [COpenAppend FTmp; CWrite FTmp (ser_edit crc (rollup (m_st m))); CFdatasync FTmp; CRename FTmp FMani].

  Lemma ids_lt_not_in last ids : Forall (fun id => id < last) ids -> ~ In last ids.
  Proof. intros F Hin. apply (proj1 (Forall_forall _ _) F) in Hin. lia. Qed.

  Lemma read_rollup st : wf_state st -> rd (Some (ser_edit crc (rollup st))) = Ok st.
  Proof.
    intros H. replace (ser_edit crc (rollup st)) with (ser_edits crc [rollup st])
      by (unfold ser_edits; simpl; now rewrite app_nil_r).
    rewrite read_roundtrip by (constructor; [now apply rollup_wf|constructor]).
    unfold spec_state. simpl. f_equal. now apply apply_rollup_empty.
  Qed.

  Lemma rollover_spec (P : state -> Prop) m s tr nd :
    fs_ok s -> fnode FMani s = Some nd -> node_safe P (Some nd) ->
    rd (Some (i_data nd)) = Ok (m_st m) -> P (m_st m) -> wf_state (m_st m) ->
    Forall (fun id => id < m_last m) (backup_ids (f_dir s)) ->
    let m' := mkMani (m_st m) (m_last m + 1) (m_ratio m) in
    exists s', rollover crc m (s, tr) = Ok (m', (s', tr ++ roll_calls m s)) /\
               replay (roll_calls m s) s = Some s' /\
               all_prefixes (mgood P) (roll_calls m s) s /\
               up_inv s' m'.
  Proof.
    intros Hok Hn Hsafe Hread Hp Hwf Hids m'.
    set (st := m_st m) in *. set (last := m_last m) in *.
    assert (Hfull : node_full P (Some nd)) by (exists st; simpl; auto).
    (* names *)
    assert (Hl : exists i, lookup FMani s = Some i /\ nth_error (f_ino s) i = Some nd).
    { unfold fnode in Hn. destruct (lookup FMani s) as [i|]; [eauto|discriminate]. }
    destruct Hl as (i & Li & Ni).
    assert (Lb : lookup (FBackup last) s = None).
    { apply lookup_backup_none. now apply ids_lt_not_in. }
    (* 1: link *)
    set (s1 := mkFs (dir_set (FBackup last) i (f_dir s)) (f_ino s)).
    assert (E1 : exec (CLink FMani (FBackup last)) s = Some s1) by (now apply exec_link).
    assert (Ok1 : fs_ok s1) by (apply fs_ok_dir_set; auto; apply (fs_ok_lt _ _ _ Hok Li)).
    assert (N1 : fnode FMani s1 = Some nd).
    { unfold s1. rewrite fnode_dir_set_other by discriminate. now rewrite fs_eta. }
    assert (T1 : exists_file FTmp s1 = exists_file FTmp s).
    { unfold exists_file, s1, lookup. cbn [f_dir]. now rewrite dir_lookup_set_other by discriminate. }
    assert (T1t : exists_file FTmp s = true -> exists j, lookup FTmp s1 = Some j).
    { rewrite <- T1. unfold exists_file. destruct (lookup FTmp s1); [eauto|discriminate]. }
    assert (T1f : exists_file FTmp s = false -> lookup FTmp s1 = None).
    { rewrite <- T1. unfold exists_file. destruct (lookup FTmp s1); [discriminate|auto]. }
    assert (Ids1 : Forall (fun id => id < last + 1) (backup_ids (f_dir s1))).
    { apply Forall_forall. intros x Hx. unfold s1 in Hx. cbn [f_dir] in Hx.
      apply backup_ids_set in Hx. destruct Hx as [Hx|Hx].
      - inversion Hx. lia.
      - apply (proj1 (Forall_forall _ _) Hids) in Hx. lia. }
    (* 2: remove a stale MANIFEST.tmp *)
    set (s2 := if exists_file FTmp s then mkFs (dir_remove FTmp (f_dir s1)) (f_ino s1) else s1).
    assert (E2 : replay (if exists_file FTmp s then [CUnlink FTmp] else []) s1 = Some s2).
    { unfold s2. destruct (exists_file FTmp s) eqn:Ex; [|reflexivity].
      destruct (T1t eq_refl) as (j & Lj).
      cbn [replay]. now rewrite (exec_unlink FTmp s1 j Lj). }
    assert (Ok2 : fs_ok s2).
    { unfold s2. destruct (exists_file FTmp s); auto. now apply fs_ok_dir_remove. }
    assert (N2 : fnode FMani s2 = Some nd).
    { unfold s2. destruct (exists_file FTmp s); auto.
      rewrite fnode_dir_remove_other by discriminate. now rewrite fs_eta. }
    assert (L2 : lookup FTmp s2 = None).
    { unfold s2. destruct (exists_file FTmp s) eqn:Ex.
      - unfold lookup. cbn [f_dir]. apply dir_lookup_remove_same.
      - exact (T1f eq_refl). }
    assert (Ids2 : Forall (fun id => id < last + 1) (backup_ids (f_dir s2))).
    { unfold s2. destruct (exists_file FTmp s); auto.
      apply Forall_forall. intros x Hx. cbn [f_dir] in Hx. apply backup_ids_remove in Hx.
      destruct Hx as [Hx _]. apply (proj1 (Forall_forall _ _) Ids1 x Hx). }
    assert (Li2 : lookup FMani s2 = Some i).
    { unfold s2. destruct (exists_file FTmp s).
      - unfold lookup. cbn [f_dir]. rewrite dir_lookup_remove_other by discriminate.
        unfold s1. cbn [f_dir]. now rewrite dir_lookup_set_other by discriminate.
      - unfold s1, lookup. cbn [f_dir]. now rewrite dir_lookup_set_other by discriminate. }
    (* 3: create, write, sync MANIFEST.tmp *)
    set (s3 := created FTmp s2).
    set (t := length (f_ino s2)).
    assert (E3 : exec (COpenAppend FTmp) s2 = Some s3) by (now apply exec_open_absent).
    assert (Ok3 : fs_ok s3) by (now apply fs_ok_created).
    assert (N3 : fnode FMani s3 = Some nd).
    { unfold s3. rewrite fnode_created_other by (auto; discriminate). exact N2. }
    assert (Lt3 : lookup FTmp s3 = Some t) by apply lookup_created_same.
    assert (Nt3 : nth_error (f_ino s3) t = Some (mkInode [] 0)).
    { pose proof (fnode_created_same FTmp s2) as F. unfold fnode in F. fold s3 in F. now rewrite Lt3 in F. }
    assert (Li3 : lookup FMani s3 = Some i).
    { unfold s3. rewrite lookup_created_other by discriminate. exact Li2. }
    assert (Hit : i <> t) by (pose proof (fs_ok_lt _ _ _ Ok2 Li2); unfold t; lia).
    set (bytes := ser_edit crc (rollup st)).
    destruct (apply_core_run (mkMani st (last + 1) (m_ratio m)) FTmp (rollup st) s2
                (tr ++ [CLink FMani (FBackup last)] ++ (if exists_file FTmp s then [CUnlink FTmp] else []))
                s3 t (mkInode [] 0) E3 Lt3 Nt3) as (EA & E4 & E5).
    cbn [i_data i_dur app] in EA, E4, E5. fold bytes in EA, E4, E5.
    set (s4 := set_node t (mkInode bytes 0) s3) in *.
    set (s5 := set_node t (mkInode bytes (length bytes)) s4) in *.
    assert (Ok4 : fs_ok s4) by (now apply fs_ok_set_node).
    assert (Ok5 : fs_ok s5) by (now apply fs_ok_set_node).
    assert (N4 : fnode FMani s4 = Some nd).
    { unfold s4. rewrite fnode_set_node_other; auto. rewrite Li3. congruence. }
    assert (N5 : fnode FMani s5 = Some nd).
    { unfold s5. rewrite fnode_set_node_other; auto. unfold s4. rewrite lookup_set_node, Li3. congruence. }
    assert (Lt5 : lookup FTmp s5 = Some t) by exact Lt3.
    assert (Nt5 : nth_error (f_ino s5) t = Some (mkInode bytes (length bytes))).
    { unfold s5, set_node. cbn [f_ino]. apply nth_error_upd_same.
      unfold s4, set_node. cbn [f_ino]. rewrite upd_nth_length. apply nth_error_Some. congruence. }
    (* 4: rename *)
    set (s6 := mkFs (dir_set FMani t (dir_remove FTmp (f_dir s5))) (f_ino s5)).
    assert (E6 : exec (CRename FTmp FMani) s5 = Some s6) by (now apply exec_rename).
    assert (Ok6 : fs_ok s6).
    { unfold s6. apply (fs_ok_dir_set FMani t (mkFs (dir_remove FTmp (f_dir s5)) (f_ino s5))).
      - now apply fs_ok_dir_remove.
      - cbn [f_ino]. apply nth_error_Some. congruence. }
    assert (N6 : fnode FMani s6 = Some (mkInode bytes (length bytes))).
    { unfold s6, fnode, lookup. cbn [f_dir f_ino]. now rewrite dir_lookup_set_same. }
    assert (Ids6 : Forall (fun id => id < last + 1) (backup_ids (f_dir s6))).
    { apply Forall_forall. intros x Hx. unfold s6 in Hx. cbn [f_dir] in Hx.
      apply backup_ids_set in Hx. destruct Hx as [Hx|Hx]; [discriminate|].
      apply backup_ids_remove in Hx. destruct Hx as [Hx _].
      change (f_dir s5) with (dir_set FTmp t (f_dir s2)) in Hx.
      apply backup_ids_set in Hx. destruct Hx as [Hx|Hx]; [discriminate|].
      apply (proj1 (Forall_forall _ _) Ids2 x). exact Hx. }
    assert (G : forall x, fs_ok x -> fnode FMani x = Some nd -> mgood P x).
    { intros x Hx Hnx. split; auto. rewrite Hnx. split; auto. }
    exists s6. split; [|split; [|split]].
    - (* the function computes exactly this *)
      unfold rollover. fold st. rewrite (to_edit_ok st Hwf). fold last.
      rewrite (sys_ok _ _ _ _ E1). cbn [fst].
      rewrite T1.
      assert (W2 : (if exists_file FTmp s then sys (CUnlink FTmp) (s1, tr ++ [CLink FMani (FBackup last)])
                    else @Some world (s1, tr ++ [CLink FMani (FBackup last)]))
                   = Some (s2, tr ++ [CLink FMani (FBackup last)] ++ (if exists_file FTmp s then [CUnlink FTmp] else []))).
      { unfold s2. destruct (exists_file FTmp s) eqn:Ex.
        - destruct (T1t eq_refl) as (j & Lj).
          rewrite (sys_ok _ _ _ _ (exec_unlink FTmp s1 j Lj)). now rewrite <- app_assoc.
        - now rewrite app_nil_r. }
      rewrite W2. cbn [app]. rewrite EA. rewrite (sys_ok _ _ _ _ E6).
      unfold m'. cbn [m_st m_last m_ratio]. rewrite (apply_rollup_self st Hwf).
      unfold roll_calls. fold last st bytes. rewrite <- !app_assoc. reflexivity.
    - unfold roll_calls. fold last st bytes.
      rewrite replay_app. cbn [replay]. rewrite E1. cbv iota beta.
      rewrite replay_app, E2. cbn [replay].
      rewrite E3. cbv iota beta. rewrite E4. cbv iota beta. rewrite E5. cbv iota beta. now rewrite E6.
    - unfold roll_calls. fold last st bytes.
      apply all_prefixes_cons; [now apply G|]. intros x Ex. rewrite E1 in Ex. inversion Ex; subst x.
      apply all_prefixes_app.
      + destruct (exists_file FTmp s) eqn:Ex2.
        * apply all_prefixes_cons; [now apply G|]. intros y Ey. apply all_prefixes_nil.
          cbn [replay] in E2. rewrite Ey in E2. inversion E2. now apply G.
        * apply all_prefixes_nil. now apply G.
      + intros y Ey. rewrite E2 in Ey. inversion Ey; subst y.
        apply all_prefixes_cons; [now apply G|]. intros y Ey2. rewrite E3 in Ey2. inversion Ey2; subst y.
        apply all_prefixes_cons; [now apply G|]. intros y Ey3. rewrite E4 in Ey3. inversion Ey3; subst y.
        apply all_prefixes_cons; [now apply G|]. intros y Ey4. rewrite E5 in Ey4. inversion Ey4; subst y.
        apply all_prefixes_cons; [now apply G|]. intros y Ey5. rewrite E6 in Ey5. inversion Ey5; subst y.
        apply all_prefixes_nil. split; auto. rewrite N6.
        apply (exact_node_safe P _ st); auto. cbn [i_data]. now apply read_rollup.
    - split; auto.
      right. exists [rollup st], (mkInode bytes (length bytes)). repeat split; auto.
      + cbn [i_data]. unfold ser_edits. simpl. now rewrite app_nil_r.
      + constructor; [now apply rollup_wf|constructor].
      + unfold spec_state. simpl. now apply apply_rollup_empty.
  Qed.

  (* ---------------------------------------------------------------- apply *)
  Lemma ser_edits_snoc es e : ser_edits crc (es ++ [e]) = ser_edits crc es ++ ser_edit crc e.
  Proof. unfold ser_edits. rewrite flat_map_app. simpl. now rewrite app_nil_r. Qed.

  Lemma spec_state_snoc es e : spec_state (es ++ [e]) = apply_edit e (spec_state es).
  Proof. unfold spec_state. now rewrite fold_left_app. Qed.

  Lemma firstn_len_app_self {A} (a b : list A) : firstn (length a) (a ++ b) = a.
  Proof. now apply firstn_len_app. Qed.

  (* the node of MANIFEST between write and sync_data: every cut reads as the old state, the new
     state, or an error — by the truncation theorem *)
  Lemma appended_node_safe es e : Forall wf_edit es -> wf_edit e ->
    let old := spec_state es in
    let new := apply_edit e old in
    cuts_ok (fun x => x = old \/ x = new)
            (mkInode (ser_edits crc es ++ ser_edit crc e) (length (ser_edits crc es))).
  Proof.
    intros Hes He old new n Hn. cbn [i_data i_dur] in *.
    assert (Hall : Forall wf_edit (es ++ [e])) by (apply Forall_app; split; auto).
    rewrite <- ser_edits_snoc.
    destruct (trunc_all crc (es ++ [e]) Hall n empty_state) as [[x Ex]|(j & Hj & Ej & Hk)].
    - left. exists x. exact Ex.
    - right. rewrite app_length in Hj. cbn [length] in Hj.
      assert (Hlo : (length es <= j)%nat).
      { apply Hk; [rewrite app_length; simpl; lia|].
        rewrite firstn_len_app_self. rewrite app_length in Hn. lia. }
      destruct (Nat.eq_dec j (length es)) as [->|Hne].
      + exists old. split; [|now left]. unfold rd, read_mani. rewrite Ej.
        rewrite firstn_len_app_self. reflexivity.
      + exists new. split; [|now right]. unfold rd, read_mani. rewrite Ej.
        assert (j = length (es ++ [e])) by (rewrite app_length; simpl; lia). subst j.
        rewrite firstn_all. unfold new, old. rewrite <- spec_state_snoc. reflexivity.
  Qed.

  Definition apply3 (e : edit) : list call :=
    [COpenAppend FMani; CWrite FMani (ser_edit crc e); CFdatasync FMani].

  (* the last conjunct names the calls: the three calls of _apply, then possibly a rollover *)
  Lemma apply_spec_full m s e tr : up_inv s m -> wf_edit e ->
    let old := m_st m in
    let new := apply_edit e old in
    let P := fun x => x = old \/ x = new in
    exists m' s' calls, m_apply crc m e (s, tr) = Ok (m', (s', tr ++ calls)) /\ m_st m' = new /\
                        up_inv s' m' /\ all_prefixes (mgood P) calls s /\
      exists s3 n3, replay (apply3 e) s = Some s3 /\ fnode FMani s3 = Some n3 /\
                    i_dur n3 = length (i_data n3) /\ rd (Some (i_data n3)) = Ok new /\
                    ((calls = apply3 e /\ s' = s3 /\ m_last m' = m_last m) \/
                     (calls = apply3 e ++ roll_calls (mkMani new (m_last m) (m_ratio m)) s3 /\
                      replay (roll_calls (mkMani new (m_last m) (m_ratio m)) s3) s3 = Some s' /\
                      m_last m' = m_last m + 1)).
  Proof.
    intros Hup He old new P. pose proof Hup as [Hok Hwf Hids Hfrag].
    assert (Pold : P old) by (now left). assert (Pnew : P new) by (now right).
    assert (G0 : mgood P s).
    { eapply mgood_impl; [|apply (up_inv_mgood s m Hup)]. intros x <-. exact Pold. }
    (* after open(O_CREAT|O_APPEND): MANIFEST exists and holds the serialisation of some edits *)
    assert (Hnorm : exists s1 i nd es,
      exec (COpenAppend FMani) s = Some s1 /\ lookup FMani s1 = Some i /\
      nth_error (f_ino s1) i = Some nd /\ i_data nd = ser_edits crc es /\
      i_dur nd = length (i_data nd) /\ Forall wf_edit es /\ spec_state es = old /\ fs_ok s1 /\
      Forall (fun id => id < m_last m) (backup_ids (f_dir s1)) /\ mgood P s1).
    { destruct Hfrag as [(F1 & F2 & F3)|(es & nd & F1 & F2 & F3 & F4 & F5)].
      - pose proof (fnode_created_same FMani s) as Fn.
        assert (Lc : lookup FMani (created FMani s) = Some (length (f_ino s))) by apply lookup_created_same.
        assert (Ec : exec (COpenAppend FMani) s = Some (created FMani s)) by (now apply exec_open_absent).
        assert (Okc : fs_ok (created FMani s)) by (now apply fs_ok_created).
        assert (Nc : nth_error (f_ino (created FMani s)) (length (f_ino s)) = Some (mkInode [] 0)).
        { unfold fnode in Fn. now rewrite Lc in Fn. }
        assert (Idc : Forall (fun id => id < m_last m) (backup_ids (f_dir (created FMani s)))).
        { apply Forall_forall. intros x Hx. unfold created in Hx. cbn [f_dir] in Hx.
          apply backup_ids_set in Hx. destruct Hx as [Hx|Hx]; [discriminate|].
          apply (proj1 (Forall_forall _ _) Hids x Hx). }
        assert (Gc : mgood P (created FMani s)).
        { split; auto. rewrite Fn. apply (exact_node_safe P _ old); auto.
          cbn [i_data]. unfold old. now rewrite F3. }
        exists (created FMani s), (length (f_ino s)), (mkInode [] 0), [].
        split; [exact Ec|]. split; [exact Lc|]. split; [exact Nc|]. split; [reflexivity|].
        split; [reflexivity|]. split; [constructor|].
        split; [unfold old; now rewrite F3|]. split; [exact Okc|]. split; [exact Idc|exact Gc].
      - unfold fnode in F1. destruct (lookup FMani s) as [i|] eqn:Li; [|discriminate].
        exists s, i, nd, es.
        split; [now apply (exec_open_exists FMani s i)|]. split; [exact Li|]. split; [exact F1|].
        split; [exact F2|]. split; [exact F3|]. split; [exact F4|]. split; [exact F5|].
        split; [exact Hok|]. split; [exact Hids|exact G0]. }
    destruct Hnorm as (s1 & i & nd & es & E1 & L1 & N1 & D1 & D2 & Wes & Ses & Ok1 & Ids1 & G1).
    destruct (apply_core_run m FMani e s tr s1 i nd E1 L1 N1) as (EA & E2 & E3).
    set (bytes := ser_edit crc e) in *.
    set (n2 := mkInode (i_data nd ++ bytes) (i_dur nd)) in *.
    set (n3 := mkInode (i_data nd ++ bytes) (length (i_data nd ++ bytes))) in *.
    set (s2 := set_node i n2 s1) in *. set (s3 := set_node i n3 s2) in *.
    assert (Ok2 : fs_ok s2) by (now apply fs_ok_set_node).
    assert (Ok3 : fs_ok s3) by (now apply fs_ok_set_node).
    assert (F2 : fnode FMani s2 = Some n2) by (eapply fnode_set_node_same; eauto).
    assert (N2 : nth_error (f_ino s2) i = Some n2).
    { unfold fnode in F2. unfold s2 in F2 at 1. rewrite lookup_set_node, L1 in F2. exact F2. }
    assert (F3 : fnode FMani s3 = Some n3).
    { unfold s3. eapply fnode_set_node_same; eauto. }
    assert (Hall : Forall wf_edit (es ++ [e])) by (apply Forall_app; split; auto).
    assert (Rnew : rd (Some (i_data nd ++ bytes)) = Ok new).
    { rewrite D1. unfold bytes. rewrite <- ser_edits_snoc, read_roundtrip by auto.
      rewrite spec_state_snoc, Ses. reflexivity. }
    assert (G2 : mgood P s2).
    { split; auto. rewrite F2. split.
      - unfold n2. rewrite D2, D1. unfold bytes, P, new. rewrite <- Ses.
        apply (appended_node_safe es e); auto.
      - exists new. split; auto. }
    assert (G3 : mgood P s3).
    { split; auto. rewrite F3. apply (exact_node_safe P n3 new); auto. }
    assert (AP3 : all_prefixes (mgood P) [COpenAppend FMani; CWrite FMani bytes; CFdatasync FMani] s).
    { apply all_prefixes_cons; auto. intros x Ex. rewrite E1 in Ex. inversion Ex; subst x.
      apply all_prefixes_cons; auto. intros x Ex2. rewrite E2 in Ex2. inversion Ex2; subst x.
      apply all_prefixes_cons; auto. intros x Ex3. rewrite E3 in Ex3. inversion Ex3; subst x.
      now apply all_prefixes_nil. }
    assert (RP3 : replay [COpenAppend FMani; CWrite FMani bytes; CFdatasync FMani] s = Some s3).
    { cbn [replay]. rewrite E1. cbv iota beta. rewrite E2. cbv iota beta. now rewrite E3. }
    set (m1 := mkMani new (m_last m) (m_ratio m)).
    assert (Wnew : wf_state new) by (now apply apply_edit_wf).
    assert (FL : file_len FMani s3 = Some (N.of_nat (length (i_data nd ++ bytes)))).
    { unfold file_len. rewrite content_fnode, F3. reflexivity. }
    assert (Ids3 : Forall (fun id => id < m_last m1) (backup_ids (f_dir s3))) by exact Ids1.
    assert (Up3 : up_inv s3 m1).
    { split; auto. right. exists (es ++ [e]), n3. repeat split; auto.
      - unfold n3. cbn [i_data]. rewrite D1. unfold bytes. now rewrite ser_edits_snoc.
      - cbn [m_st]. now rewrite spec_state_snoc, Ses. }
    unfold m_apply. rewrite EA. cbn [fst]. rewrite FL. cbn [m_st m_ratio]. fold m1.
    match goal with |- context [if ?c then _ else _] => destruct c end.
    - (* rollover *)
      assert (Gs3 : node_safe P (Some n3)).
      { destruct G3 as (_ & Gs & _). now rewrite F3 in Gs. }
      destruct (rollover_spec P m1 s3 (tr ++ [COpenAppend FMani; CWrite FMani bytes; CFdatasync FMani]) n3
                  Ok3 F3 Gs3 Rnew Pnew Wnew Ids3) as (s' & ER & RR & AR & UR).
      rewrite <- app_assoc in ER.
      eexists _, s', _. split; [exact ER|].
      split; [reflexivity|]. split; [exact UR|]. split.
      + apply all_prefixes_app; [exact AP3|]. intros x Ex. rewrite RP3 in Ex. inversion Ex; subst x. exact AR.
      + exists s3, n3. split; [exact RP3|]. split; [exact F3|]. split; [reflexivity|]. split; [exact Rnew|].
        right. split; [reflexivity|]. split; [exact RR|reflexivity].
    - exists m1, s3, [COpenAppend FMani; CWrite FMani bytes; CFdatasync FMani].
      split; [reflexivity|]. split; [reflexivity|]. split; [exact Up3|]. split; [exact AP3|].
      exists s3, n3. split; [exact RP3|]. split; [exact F3|]. split; [reflexivity|]. split; [exact Rnew|].
      left. split; [reflexivity|]. split; reflexivity.
  Qed.

  Lemma apply_spec m s e tr : up_inv s m -> wf_edit e ->
    let old := m_st m in
    let new := apply_edit e old in
    let P := fun x => x = old \/ x = new in
    exists m' s' calls, m_apply crc m e (s, tr) = Ok (m', (s', tr ++ calls)) /\ m_st m' = new /\
                        up_inv s' m' /\ all_prefixes (mgood P) calls s.
  Proof.
    intros Hup He old new P.
    destruct (apply_spec_full m s e tr Hup He) as (m' & s' & calls & A & B & C & D & _).
    exists m', s', calls. auto.
  Qed.

  (* ---------------------------------------------------------------- open *)
  Lemma fold_max_ge l : forall a, a <= fold_left N.max l a /\ Forall (fun x => x <= fold_left N.max l a) l.
  Proof.
    induction l as [|y l IH]; intros a; simpl.
    - split; [lia|constructor].
    - destruct (IH (N.max a y)) as [H1 H2]. split; [lia|]. constructor; auto. lia.
  Qed.

  Lemma next_id_gt s : Forall (fun id => id < next_manifest_identifier s) (backup_ids (f_dir s)).
  Proof.
    unfold next_manifest_identifier. destruct (fold_max_ge (backup_ids (f_dir s)) 0) as [_ H].
    eapply Forall_impl; [|exact H]. simpl; intros; lia.
  Qed.

  Lemma read_lines_no_panic ls : forall acc st, read_lines crc ls acc st <> Panic.
  Proof.
    induction ls as [|l ls IH]; intros acc st; cbn [read_lines]; [discriminate|].
    destruct (do_line crc acc l); auto; discriminate.
  Qed.

  Lemma rd_no_panic c : rd c <> Panic.
  Proof. unfold read_mani. destruct c; [apply read_lines_no_panic|discriminate]. Qed.

  Lemma open_err ratio s x : rd (content FMani s) = Err x -> m_open crc ratio (s, []) = Err x.
  Proof. intros H. unfold m_open. cbn [fst]. now rewrite H. Qed.

  Definition open_calls (s : fs) : list call :=
    let last := next_manifest_identifier s in
    let fix_needed := (1 <? last) && same_inode (FBackup (last - 1)) FMani s in
    (if fix_needed then [CUnlink (FBackup (last - 1))] else []).

  (* the last conjunct names the calls: possibly the unlink of a stale backup link, then
     possibly a rollover *)
  Lemma open_spec_full (P : state -> Prop) ratio s st :
    fs_ok s -> rd (content FMani s) = Ok st -> node_safe P (fnode FMani s) -> P st ->
    exists m s' calls, m_open crc ratio (s, []) = Ok (m, (s', calls)) /\ m_st m = st /\
                       up_inv s' m /\ all_prefixes (mgood P) calls s /\
      exists s0 lastf, replay (open_calls s) s = Some s0 /\
        lastf = (if (1 <? next_manifest_identifier s) && same_inode (FBackup (next_manifest_identifier s - 1)) FMani s
                 then next_manifest_identifier s - 1 else next_manifest_identifier s) /\
        ((exists_file FMani s0 = true /\ calls = open_calls s ++ roll_calls (mkMani st lastf ratio) s0 /\
          replay (roll_calls (mkMani st lastf ratio) s0) s0 = Some s' /\ m_last m = lastf + 1) \/
         (exists_file FMani s0 = false /\ calls = open_calls s /\ s' = s0 /\ m_last m = lastf)).
  Proof.
    intros Hok Hread Hsafe Hp.
    pose proof (read_mani_wf _ _ Hread) as Hwf.
    assert (G0 : mgood P s).
    { split; auto. split; auto. exists st. rewrite <- content_fnode. auto. }
    unfold m_open. cbn [fst]. rewrite Hread.
    set (last := next_manifest_identifier s).
    pose proof (next_id_gt s) as Hids. fold last in Hids.
    destruct ((1 <? last) && same_inode (FBackup (last - 1)) FMani s) eqn:Fix.
    - (* the newest backup is a second name of MANIFEST: drop it *)
      pose proof Fix as Fix0.
      apply andb_prop in Fix. destruct Fix as [F1 F2]. apply N.ltb_lt in F1.
      unfold same_inode in F2.
      destruct (lookup (FBackup (last - 1)) s) as [i|] eqn:Lb; [|discriminate].
      destruct (lookup FMani s) as [j|] eqn:Lm; [|discriminate].
      set (s0 := mkFs (dir_remove (FBackup (last - 1)) (f_dir s)) (f_ino s)).
      assert (E0 : exec (CUnlink (FBackup (last - 1))) s = Some s0) by (now apply (exec_unlink _ s i)).
      rewrite (sys_ok _ _ _ _ E0). cbn [app fst].
      assert (Ok0 : fs_ok s0) by (now apply fs_ok_dir_remove).
      assert (N0 : fnode FMani s0 = fnode FMani s).
      { unfold s0. rewrite fnode_dir_remove_other by discriminate. now rewrite fs_eta. }
      assert (Ids0 : Forall (fun id => id < last - 1) (backup_ids (f_dir s0))).
      { apply Forall_forall. intros x Hx. unfold s0 in Hx. cbn [f_dir] in Hx.
        apply backup_ids_remove in Hx. destruct Hx as [Hx Hne].
        apply (proj1 (Forall_forall _ _) Hids) in Hx.
        assert (x <> last - 1) by (intros ->; now apply Hne). lia. }
      assert (Ex0 : exists_file FMani s0 = true).
      { unfold exists_file, s0, lookup. cbn [f_dir]. rewrite dir_lookup_remove_other by discriminate.
        unfold lookup in Lm. now rewrite Lm. }
      rewrite Ex0.
      destruct (fnode_some_of_lookup FMani s j Hok Lm) as (nd & Hnd).
      assert (Rnd : rd (Some (i_data nd)) = Ok st).
      { rewrite content_fnode, Hnd in Hread. exact Hread. }
      destruct (rollover_spec P (mkMani st (last - 1) ratio) s0 [CUnlink (FBackup (last - 1))] nd)
        as (s' & ER & RR & AR & UR); auto.
      + now rewrite N0.
      + rewrite Hnd in Hsafe. exact Hsafe.
      + assert (OC : open_calls s = [CUnlink (FBackup (last - 1))]).
        { unfold open_calls. cbv zeta. fold last. now rewrite Fix0. }
        eexists _, s', _. split; [exact ER|]. split; [reflexivity|]. split; [exact UR|]. split.
        * apply all_prefixes_cons; auto. intros x Ex. rewrite E0 in Ex. inversion Ex; subst x. exact AR.
        * exists s0, (last - 1). split; [rewrite OC; cbn [replay]; now rewrite E0|].
          split; [reflexivity|].
          left. split; [exact Ex0|]. split; [now rewrite OC|]. split; [exact RR|reflexivity].
    - cbn [fst]. destruct (exists_file FMani s) eqn:Ex0.
      + destruct (exists_file_fnode FMani s Hok Ex0) as (nd & Hnd).
        assert (Rnd : rd (Some (i_data nd)) = Ok st).
        { rewrite content_fnode, Hnd in Hread. exact Hread. }
        destruct (rollover_spec P (mkMani st last ratio) s [] nd) as (s' & ER & RR & AR & UR); auto.
        * rewrite Hnd in Hsafe. exact Hsafe.
        * assert (OC : open_calls s = []) by (unfold open_calls; cbv zeta; fold last; now rewrite Fix).
          eexists _, s', _. split; [exact ER|]. split; [reflexivity|]. split; [exact UR|]. split; [exact AR|].
          exists s, last. split; [now rewrite OC|]. split; [reflexivity|].
          left. split; [exact Ex0|]. split; [now rewrite OC|]. split; [exact RR|reflexivity].
      + assert (OC : open_calls s = []) by (unfold open_calls; cbv zeta; fold last; now rewrite Fix).
        exists (mkMani st last ratio), s, []. split; [reflexivity|]. split; [reflexivity|].
        split; [|split; [now apply all_prefixes_nil|]].
        * pose proof Ex0 as Ex1. unfold exists_file in Ex1. destruct (lookup FMani s) eqn:Lm; [discriminate|].
          assert (Fn : fnode FMani s = None) by (unfold fnode; now rewrite Lm).
          split; auto. left. repeat split; auto.
          rewrite content_fnode, Fn in Hread. simpl in Hread. now inversion Hread.
        * exists s, last. split; [now rewrite OC|]. split; [reflexivity|].
          right. split; [exact Ex0|]. split; [now rewrite OC|]. split; reflexivity.
  Qed.

  Lemma open_spec (P : state -> Prop) ratio s st :
    fs_ok s -> rd (content FMani s) = Ok st -> node_safe P (fnode FMani s) -> P st ->
    exists m s' calls, m_open crc ratio (s, []) = Ok (m, (s', calls)) /\ m_st m = st /\
                       up_inv s' m /\ all_prefixes (mgood P) calls s.
  Proof.
    intros H1 H2 H3 H4.
    destruct (open_spec_full P ratio s st H1 H2 H3 H4) as (m & s' & calls & A & B & C & D & _).
    exists m, s', calls. auto.
  Qed.

End WithCrc.
