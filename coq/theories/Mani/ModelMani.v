(* Mani/ModelMani.v — executable model of Manifest::{open, _apply, apply, rollover, verify,
   next_manifest_identifier} of mani/src/lib.rs over the file-system model Mani/Fs.v, and the
   case interpreter used by the correspondence check.  Definitions only (no proofs).

   A `world` is the file system plus the list of mutating calls issued so far (the trace); the
   crash points of an operation are the prefixes of its trace.
   I/O faults are outside the model: a call fails only for ENOENT/EEXIST reasons, the model then
   answers Err EIo and the theorems show that this does not happen.
   The rollover test uses the saturating u64 product, as the code does since the repair of the
   overflow panic; every theorem is independent of the ratio (it only decides WHEN a rollover
   happens). *)
From Coq Require Import NArith List Bool.
From Blue Require Import Mani.Model Mani.Fs.
Import ListNotations.
Open Scope N_scope.

Record mani := mkMani {
  m_st : state;       (* strs, info *)
  m_last : N;         (* last_rollover *)
  m_ratio : N         (* options.log_rollover_ratio *)
}.

Definition world := (fs * list call)%type.

Definition sys (c : call) (w : world) : option world :=
  match exec c (fst w) with
  | Some s => Some (s, snd w ++ [c])
  | None => None
  end.

(* Manifest::next_manifest_identifier: 1 + the largest backup index in the directory (0 if none) *)
Definition next_manifest_identifier (s : fs) : N :=
  fold_left N.max (backup_ids (f_dir s)) 0 + 1.

(* u64::saturating_mul: options.log_rollover_ratio.saturating_mul(in_memory_bytes) — ratio and size
   are u64 in the code (ratio < 2^64, size < 2^64), here unbounded N clamped at u64::MAX *)
Definition U64_MAX : N := 18446744073709551615.
Definition sat_mul (a b : N) : N := N.min (a * b) U64_MAX.

Definition same_inode (a b : fname) (s : fs) : bool :=
  match lookup a s, lookup b s with
  | Some i, Some j => Nat.eqb i j
  | _, _ => false
  end.

Section WithCrc.
  Variable crc : list N -> N.

  (* Manifest::_apply up to and including sync_data: in-memory update first, then ONE write of the
     whole edit text, then fdatasync *)
  Definition apply_core (m : mani) (output : fname) (e : edit) (w : world) : result (mani * world) :=
    let m' := mkMani (apply_edit e (m_st m)) (m_last m) (m_ratio m) in
    match sys (COpenAppend output) w with
    | None => Err EIo
    | Some w1 =>
        match sys (CWrite output (ser_edit crc e)) w1 with
        | None => Err EIo
        | Some w2 =>
            match sys (CFdatasync output) w2 with
            | None => Err EIo
            | Some w3 => Ok (m', w3)
            end
        end
    end.

  (* Manifest::rollover: roll-up edit, hard_link MANIFEST -> MANIFEST.<id>, remove a stale
     MANIFEST.tmp, write the roll-up to MANIFEST.tmp (_apply with allow_rollover = false), rename
     it over MANIFEST *)
  Definition rollover (m : mani) (w : world) : result (mani * world) :=
    match to_edit (m_st m) with
    | Panic => Panic
    | Err x => Err x
    | Ok e =>
        let next_id := m_last m in
        let m1 := mkMani (m_st m) (next_id + 1) (m_ratio m) in
        match sys (CLink FMani (FBackup next_id)) w with
        | None => Err EIo
        | Some w1 =>
            match (if exists_file FTmp (fst w1) then sys (CUnlink FTmp) w1 else Some w1) with
            | None => Err EIo
            | Some w2 =>
                match apply_core m1 FTmp e w2 with
                | Ok (m2, w3) =>
                    match sys (CRename FTmp FMani) w3 with
                    | None => Err EIo
                    | Some w4 => Ok (m2, w4)
                    end
                | r => r
                end
            end
        end
    end.

  (* Manifest::apply = _apply(MANIFEST, edit, allow_rollover = true) *)
  Definition m_apply (m : mani) (e : edit) (w : world) : result (mani * world) :=
    let was_empty := is_nil (s_strs (m_st m)) in
    match apply_core m FMani e w with
    | Ok (m1, w1) =>
        match file_len FMani (fst w1) with
        | None => Err EIo
        | Some on_disk_bytes =>
            let in_memory_bytes := size (m_st m1) in
            if (sat_mul (m_ratio m1) in_memory_bytes <? on_disk_bytes) && negb was_empty
            then rollover m1 w1
            else Ok (m1, w1)
        end
    | r => r
    end.

  (* Manifest::open once the directory exists and the lock is held: read MANIFEST, next id,
     [F14 repair: a newest backup that is a hard link to MANIFEST is the trace of an interrupted
     rollover and is removed], roll over if MANIFEST exists *)
  Definition m_open (ratio : N) (w : world) : result (mani * world) :=
    match read_mani crc (content FMani (fst w)) with
    | Ok st =>
        let last := next_manifest_identifier (fst w) in
        let fix_needed := (1 <? last) && same_inode (FBackup (last - 1)) FMani (fst w) in
        match (if fix_needed then sys (CUnlink (FBackup (last - 1))) w else Some w) with
        | None => Err EIo
        | Some w0 =>
            let m := mkMani st (if fix_needed then last - 1 else last) ratio in
            if exists_file FMani (fst w0) then rollover m w0 else Ok (m, w0)
        end
    | Err x => Err x
    | Panic => Panic
    end.

  (* ---- Manifest::verify *)
  Definition list_eqb {A} (eqb : A -> A -> bool) :=
    fix go (a b : list A) : bool :=
      match a, b with
      | [], [] => true
      | x :: a', y :: b' => eqb x y && go a' b'
      | _, _ => false
      end.

  Definition kv_eqb (a b : N * str) : bool := (fst a =? fst b) && str_eqb (snd a) (snd b).

  (* derived PartialEq of Edit *)
  Definition edit_eqb (a b : edit) : bool :=
    list_eqb str_eqb (e_add a) (e_add b) && list_eqb str_eqb (e_rm a) (e_rm b)
    && list_eqb kv_eqb (e_info a) (e_info b).

  Definition opt_edit_eqb (a b : option edit) : bool :=
    match a, b with
    | Some x, Some y => edit_eqb x y
    | None, None => true
    | _, _ => false
    end.

  (* ids.sort() *)
  Fixpoint insert_sorted (x : N) (l : list N) : list N :=
    match l with
    | [] => [x]
    | y :: l' => if x <=? y then x :: l else y :: insert_sorted x l'
    end.
  Definition sort_ids (l : list N) : list N := fold_right insert_sorted [] l.

  Definition last_id (l : list N) : option N :=
    match rev l with x :: _ => Some x | [] => None end.

  Definition verify_paths (s : fs) : list (N * fname) :=
    let ids := sort_ids (backup_ids (f_dir s)) in
    let paths := map (fun id => (id, FBackup id)) ids in
    match last_id ids with
    | None => [(0, FMani)]
    | Some l => paths ++ [(l + 1, FMani)]
    end.

  (* the loop over the fragments; the result is the list of error classes pushed (a panic of
     to_edit is Panic) *)
  Fixpoint verify_loop (s : fs) (paths : list (N * fname)) (prev : option (N * edit)) : result (list err) :=
    match paths with
    | [] => Ok []
    | (id, f) :: rest =>
        let push x r := match r with Ok l => Ok (x :: l) | o => o end in
        match read_mani crc (content f s) with
        | Err x => push x (verify_loop s rest prev)            (* errs.push(err); continue *)
        | Panic => Panic
        | Ok st =>
            match to_edit st with
            | Ok ed =>
                match prev with
                | None => verify_loop s rest (Some (id, ed))
                | Some (prev_id, prev_edit) =>
                    if negb (prev_id + 1 =? id)
                    then push ECorruption (verify_loop s rest (Some (id, ed)))
                    else
                      match read_first_edit crc (content f s) with
                      | Err x => push x (verify_loop s rest None)    (* prev = None; continue *)
                      | Panic => Panic
                      | Ok first =>
                          if opt_edit_eqb (Some prev_edit) first
                          then verify_loop s rest (Some (id, ed))
                          else push ECorruption (verify_loop s rest (Some (id, ed)))
                      end
                end
            | _ => Panic
            end
        end
    end.

  Definition verify (s : fs) : result (list err) := verify_loop s (verify_paths s) None.

  (* ---------------------------------------------------------------- case interpreter *)
  Inductive rawop := RAdd (s : str) | RRm (s : str) | RInfo (c : N) (s : str).

  Inductive op :=
  | OpOpen                        (* Manifest::open (the process was down) *)
  | OpApply (raw : list rawop)    (* build an Edit (rejected raw ops are reported and skipped); apply *)
  | OpRollover                    (* Manifest::rollover *)
  | OpClose                       (* drop the handle *)
  | OpCut (n : nat)               (* while down: MANIFEST keeps only its first n bytes *)
  | OpVerify                      (* Manifest::verify *)
  | OpDump                        (* observe the in-memory state and the directory image *)
  | OpTrace (o : op)              (* the mutating calls `o` would issue (not executed) *)
  | OpPoint (o : op) (k : nat) (tmp : bool) (n : nat)
                                  (* one crash image of `o` (not executed): its first k calls done,
                                     then MANIFEST (tmp = false) or MANIFEST.tmp (tmp = true) keeps
                                     only n bytes; re-opened twice *)
  | OpIter (bs : list N)          (* ManifestIterator over a file holding bs, all items *)
  | OpReadFile (bs : list N).     (* Manifest::open on a fresh directory whose MANIFEST holds bs *)

  Inductive openres := RState (st : state) | RErr (x : err) | RPanic.

  Inductive out :=
  | OutRes (r : option err)                        (* Ok / error class *)
  | OutPanic
  | OutBad                                         (* the case is ill-formed (generator bug) *)
  | OutChecks (rs : list (option err))             (* results of the raw Edit operations *)
  | OutTrace (cs : list call)                      (* mutating calls issued by the operation *)
  | OutState (st : option state)
  | OutFs (files : list (fname * nat * list N * nat))   (* name, inode, content, durable length *)
  | OutVerify (r : result (list err))
  | OutPoint (r : (openres * result (list err)) * (openres * result (list err)))
                                                   (* reopen + verify, twice *)
  | OutItems (l : list item)
  | OutOpen (r : openres).

  Record sim := mkSim { x_fs : fs; x_h : option mani; x_ratio : N }.

  Fixpoint build_edit (raw : list rawop) (e : edit) : edit * list (option err) :=
    match raw with
    | [] => (e, [])
    | r :: raw' =>
        let res := match r with
                   | RAdd s => edit_add e s
                   | RRm s => edit_rm e s
                   | RInfo c s => edit_info e c s
                   end in
        match res with
        | Ok e' => let (e2, l) := build_edit raw' e' in (e2, None :: l)
        | Err x => let (e2, l) := build_edit raw' e in (e2, Some x :: l)
        | Panic => let (e2, l) := build_edit raw' e in (e2, Some ESystem :: l)
        end
    end.

  Definition res_out (r : result (mani * world)) (x : sim) : sim * list out :=
    match r with
    | Ok (m, w) => (mkSim (fst w) (Some m) (x_ratio x), [OutRes None; OutTrace (snd w)])
    | Err e => (mkSim (x_fs x) None (x_ratio x), [OutRes (Some e)])
    | Panic => (mkSim (x_fs x) None (x_ratio x), [OutPanic])
    end.

  Definition list_files (s : fs) : list (fname * nat * list N * nat) :=
    flat_map (fun p => match nth_error (f_ino s) (snd p) with
                       | Some nd => [(fst p, snd p, i_data nd, i_dur nd)]
                       | None => []
                       end) (f_dir s).

  (* re-open an image; Manifest::verify on what the open left behind; drop the handle; open and
     verify once more (what the first open left behind must itself be a good manifest) *)
  Definition reopen_once (ratio : N) (s : fs) : openres * result (list err) * fs :=
    match m_open ratio (s, []) with
    | Ok (m, w) => (RState (m_st m), verify (fst w), fst w)
    | Err e => (RErr e, verify s, s)
    | Panic => (RPanic, verify s, s)
    end.

  Definition reopen_res (ratio : N) (s : fs) : (openres * result (list err)) * (openres * result (list err)) :=
    let '(r1, v1, s1) := reopen_once ratio s in
    let '(r2, v2, _) := reopen_once ratio s1 in
    ((r1, v1), (r2, v2)).

  (* the trace an operation would issue from the current state (None: not applicable) *)
  Definition op_trace (o : op) (x : sim) : option (list call) :=
    let w := (x_fs x, []) in
    let tr r := match r with Ok (_, w') => Some (snd w') | _ => None end in
    match o, x_h x with
    | OpOpen, None => tr (m_open (x_ratio x) w)
    | OpApply raw, Some m => tr (m_apply m (fst (build_edit raw empty_edit)) w)
    | OpRollover, Some m => tr (rollover m w)
    | _, _ => None
    end.

  Definition run_op (o : op) (x : sim) : sim * list out :=
    match o with
    | OpOpen =>
        match x_h x with
        | Some _ => (x, [OutBad])
        | None => res_out (m_open (x_ratio x) (x_fs x, [])) x
        end
    | OpApply raw =>
        match x_h x with
        | None => (x, [OutBad])
        | Some m =>
            let (e, checks) := build_edit raw empty_edit in
            let (x', outs) := res_out (m_apply m e (x_fs x, [])) x in
            (x', OutChecks checks :: outs)
        end
    | OpRollover =>
        match x_h x with
        | None => (x, [OutBad])
        | Some m => res_out (rollover m (x_fs x, [])) x
        end
    | OpClose => (mkSim (x_fs x) None (x_ratio x), [])
    | OpCut n =>
        match x_h x with
        | Some _ => (x, [OutBad])
        | None => (mkSim (cut_file FMani n (x_fs x)) None (x_ratio x), [])
        end
    | OpVerify => (x, [OutVerify (verify (x_fs x))])
    | OpDump => (x, [OutState (option_map m_st (x_h x)); OutFs (list_files (x_fs x))])
    | OpTrace o' =>
        match op_trace o' x with
        | None => (x, [OutBad])
        | Some cs => (x, [OutTrace cs])
        end
    | OpPoint o' k t n =>
        match op_trace o' x with
        | None => (x, [OutBad])
        | Some cs =>
            match replay (firstn k cs) (x_fs x) with
            | None => (x, [OutBad])
            | Some sk => (x, [OutPoint (reopen_res (x_ratio x) (cut_file (if t then FTmp else FMani) n sk))])
            end
        end
    | OpIter bs =>
        let ls := lines bs in
        (x, [OutItems (iter_all crc (S (length ls)) (Some ls))])
    | OpReadFile bs =>
        let s := mkFs [(FMani, O)] [mkInode bs (length bs)] in
        (x, [OutOpen (match m_open (x_ratio x) (s, []) with
                      | Ok (m, _) => RState (m_st m)
                      | Err e => RErr e
                      | Panic => RPanic
                      end)])
    end.

  Fixpoint run_ops (ops : list op) (x : sim) : list (list out) :=
    match ops with
    | [] => []
    | o :: ops' => let (x', outs) := run_op o x in outs :: run_ops ops' x'
    end.

  Definition run_case (ratio : N) (ops : list op) : list (list out) :=
    run_ops ops (mkSim empty_fs None ratio).

End WithCrc.
