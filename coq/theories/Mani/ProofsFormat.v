(* Mani/ProofsFormat.v — the on-disk format: hex, BufRead::lines, one line through
   ManifestIterator::next, round trip of an edit, and the truncation theorem.
   No property of the checksum is used anywhere: `crc` is an arbitrary function. *)
From Coq Require Import NArith Arith List Bool Lia Sorted.
From Blue Require Import Mani.Model Mani.ProofsOrder.
Import ListNotations.
Open Scope N_scope.

Arguments N.add : simpl never.
Arguments N.sub : simpl never.
Arguments N.mul : simpl never.
Arguments N.div : simpl never.
Arguments N.modulo : simpl never.
Arguments N.leb : simpl never.
Arguments N.ltb : simpl never.
Arguments N.eqb : simpl never.
Arguments N.pow : simpl never.

(* ------------------------------------------------------------------ small list facts *)
Lemma firstn_len_app {A} (a b : list A) n : length a = n -> firstn n (a ++ b) = a.
Proof. intros <-. rewrite firstn_app, Nat.sub_diag, firstn_all. simpl. now rewrite app_nil_r. Qed.

Lemma skipn_len_app {A} (a b : list A) n : length a = n -> skipn n (a ++ b) = b.
Proof. intros <-. rewrite skipn_app, Nat.sub_diag, skipn_all. reflexivity. Qed.

Lemma skipn_len_app_S {A} (h : list A) a p n : length h = n -> skipn (S n) (h ++ a :: p) = p.
Proof.
  intros <-. rewrite skipn_app, skipn_all2 by lia.
  replace (S (length h) - length h)%nat with 1%nat by lia. reflexivity.
Qed.

Lemma ends_with_cr_app x p : p <> [] -> ends_with_cr (x ++ p) = ends_with_cr p.
Proof.
  intros Hp. unfold ends_with_cr. rewrite rev_app_distr.
  destruct (rev p) as [|c r] eqn:E.
  - exfalso. apply Hp. rewrite <- (rev_involutive p), E. reflexivity.
  - reflexivity.
Qed.

Lemma ends_with_cr_cons b l : l <> [] -> ends_with_cr (b :: l) = ends_with_cr l.
Proof. intros H. exact (ends_with_cr_app [b] l H). Qed.

(* ------------------------------------------------------------------ hex *)
Lemma hexN_length k n : length (hexN k n) = k.
Proof.
  revert n; induction k as [|k IH]; intros n; simpl; auto.
  rewrite app_length, IH. simpl. lia.
Qed.

Lemma hexdigit_range d : d < 16 -> 48 <= hexdigit d <= 102.
Proof. unfold hexdigit. intros H. destruct (N.ltb_spec d 10); lia. Qed.

Lemma hexval_hexdigit d : d < 16 -> hexval (hexdigit d) = Some d.
Proof.
  intros H. unfold hexval, hexdigit.
  destruct (N.ltb_spec d 10) as [L|G].
  - destruct (N.leb_spec 48 (48 + d)); try lia.
    destruct (N.leb_spec (48 + d) 57); try lia. simpl. f_equal. lia.
  - destruct (N.leb_spec 48 (87 + d)); try lia.
    destruct (N.leb_spec (87 + d) 57); try lia. simpl.
    destruct (N.leb_spec 97 (87 + d)); try lia.
    destruct (N.leb_spec (87 + d) 102); try lia. simpl. f_equal. lia.
Qed.

Lemma parse_digits_app a b acc :
  parse_digits (a ++ b) acc =
  match parse_digits a acc with Some x => parse_digits b x | None => None end.
Proof.
  revert acc; induction a as [|c a IH]; intros acc; simpl; auto.
  destruct (hexval c); auto.
Qed.

Lemma parse_digits_hexN k : forall n acc,
  parse_digits (hexN k n) acc = Some (acc * 16 ^ N.of_nat k + n mod 16 ^ N.of_nat k).
Proof.
  induction k as [|k IH]; intros n acc.
  - simpl. change (16 ^ 0) with 1. rewrite N.mod_1_r. f_equal. lia.
  - cbn [hexN]. rewrite parse_digits_app, IH. cbn [parse_digits].
    rewrite hexval_hexdigit by (apply N.mod_upper_bound; discriminate).
    f_equal. rewrite Nat2N.inj_succ, N.pow_succ_r'.
    rewrite (N.mod_mul_r n 16 (16 ^ N.of_nat k)) by (try discriminate; apply N.pow_nonzero; discriminate).
    ring.
Qed.

Lemma hexN_forall k : forall n, Forall (fun c => 48 <= c <= 102) (hexN k n).
Proof.
  induction k as [|k IH]; intros n; simpl; [constructor|].
  apply Forall_app; split; auto. constructor; [|constructor].
  apply hexdigit_range. apply N.mod_upper_bound. discriminate.
Qed.

Lemma hexN_head k n : exists c r, hexN (S k) n = c :: r /\ 48 <= c <= 102.
Proof.
  pose proof (hexN_forall (S k) n) as F. pose proof (hexN_length (S k) n) as L.
  destruct (hexN (S k) n) as [|c r]; [discriminate|].
  inversion F; subst. eauto.
Qed.

Lemma parse_hex_u32_hexN n : parse_hex_u32 (hexN 8 n) = Some (n mod 4294967296).
Proof.
  destruct (hexN_head 7 n) as (c & r & E & R).
  unfold parse_hex_u32. rewrite E.
  destruct (N.eqb_spec c 43); [lia|].
  rewrite <- E, parse_digits_hexN. f_equal.
Qed.

(* ------------------------------------------------------------------ UTF-8 of ASCII *)
Lemma valid_utf8_ascii l : Forall (fun b => b < 128) l -> valid_utf8 l = true.
Proof.
  induction l as [|b l IH]; intros H; [reflexivity|].
  inversion H; subst. cbn [valid_utf8].
  destruct (N.ltb_spec b 128); [auto|lia].
Qed.

(* ------------------------------------------------------------------ BufRead::lines *)
Definition good_line (l : str) : Prop := ~ In 10 l /\ ends_with_cr l = false.

Lemma starts_with_nl_app l r : l <> [] -> ~ In 10 l -> starts_with_nl (l ++ r) = false.
Proof.
  destruct l as [|c l]; [contradiction|]. intros _ H. simpl.
  destruct (N.eqb_spec c 10); auto. subst. exfalso. apply H. now left.
Qed.

Lemma lines_line l r : good_line l -> lines (l ++ 10 :: r) = l :: lines r.
Proof.
  intros [Hnl Hcr]. induction l as [|b l IH]; [reflexivity|].
  assert (Hb : b <> 10) by (intros ->; apply Hnl; now left).
  assert (Hnl' : ~ In 10 l) by (intros H; apply Hnl; now right).
  cbn [app lines]. destruct (N.eqb_spec b 10); [contradiction|].
  destruct l as [|c l].
  - (* b is the last byte of the line: it is not CR *)
    unfold ends_with_cr in Hcr; simpl in Hcr. rewrite Hcr. cbn [andb app].
    reflexivity.
  - rewrite starts_with_nl_app by (auto; discriminate). rewrite andb_false_r.
    rewrite IH; auto. rewrite <- Hcr. symmetry. apply ends_with_cr_cons. discriminate.
Qed.

Lemma lines_last l : l <> [] -> ~ In 10 l -> lines l = [l].
Proof.
  induction l as [|b l IH]; [contradiction|]. intros _ Hnl.
  assert (Hb : b <> 10) by (intros ->; apply Hnl; now left).
  assert (Hnl' : ~ In 10 l) by (intros H; apply Hnl; now right).
  cbn [lines]. destruct (N.eqb_spec b 10); [contradiction|].
  destruct l as [|c l].
  - cbn [starts_with_nl lines]. rewrite andb_false_r. reflexivity.
  - assert (S : starts_with_nl (c :: l) = false).
    { simpl. destruct (N.eqb_spec c 10); auto. subst. exfalso. apply Hnl'. now left. }
    rewrite S, andb_false_r. rewrite IH; auto. discriminate.
Qed.

Definition nl_lines (ls : list str) : list N := concat (map (fun l => l ++ [10]) ls).

Lemma lines_nl_lines ls r : Forall good_line ls -> lines (nl_lines ls ++ r) = ls ++ lines r.
Proof.
  unfold nl_lines. induction ls as [|l ls IH]; intros H; [reflexivity|].
  inversion H; subst. cbn [map concat]. rewrite <- !app_assoc. cbn [app].
  rewrite lines_line by auto. now rewrite IH.
Qed.

(* a prefix of a newline-terminated line list: whole lines, then a piece of the next line *)
Lemma firstn_nl_lines ls : forall m,
  exists i q, firstn m (nl_lines ls) = nl_lines (firstn i ls) ++ q /\
    ((i = length ls /\ q = []) \/ (i < length ls /\ exists q', nth i ls [] = q ++ q'))%nat.
Proof.
  unfold nl_lines. induction ls as [|l ls IH]; intros m.
  - exists O, []. rewrite firstn_nil. simpl. split; auto.
  - cbn [map concat]. destruct (le_lt_dec m (length l)) as [Hle|Hgt].
    + exists O, (firstn m l). cbn [firstn map concat app]. split.
      * rewrite <- app_assoc, firstn_app.
        replace (m - length l)%nat with O by lia. cbn [firstn]. now rewrite app_nil_r.
      * right. split; [simpl; lia|]. exists (skipn m l). simpl. now rewrite firstn_skipn.
    + destruct (IH (m - length (l ++ [10%N]))%nat) as (i & q & E & D).
      exists (S i), q. split.
      * assert (Ll : (length (l ++ [10%N]) <= m)%nat) by (rewrite app_length; simpl; lia).
        rewrite firstn_app, E. rewrite (@firstn_all2 N m (l ++ [10%N]) Ll).
        cbn [firstn map concat]. now rewrite <- !app_assoc.
      * destruct D as [[-> ->]|[Hi Hq]]; [left; auto|right]. split; [simpl; lia|exact Hq].
Qed.


(* ------------------------------------------------------------------ lines of ASCII text *)
Lemma lines_forall (P : N -> Prop) bs : Forall P bs -> Forall (Forall P) (lines bs).
Proof.
  induction bs as [|b r IH]; intros H; [constructor|].
  inversion H as [|? ? Hb Hr]; subst. specialize (IH Hr). cbn [lines].
  destruct (b =? 10); [constructor; auto|].
  destruct ((b =? 13) && starts_with_nl r); auto.
  destruct (lines r) as [|l ls]; [repeat constructor; auto|].
  inversion IH; subst. constructor; auto.
Qed.

Lemma lines_no_nl bs : Forall (fun l => ~ In 10 l) (lines bs).
Proof.
  induction bs as [|b r IH]; [constructor|]. cbn [lines].
  destruct (N.eqb_spec b 10) as [->|Hb]; [constructor; auto|].
  destruct ((b =? 13) && starts_with_nl r); auto.
  destruct (lines r) as [|l ls].
  - constructor; [|constructor]. intros [H|[]]. congruence.
  - inversion IH; subst. constructor; auto. intros [H|H]; [congruence|contradiction].
Qed.

(* the error classes a fragment of ASCII text can produce: corruption, or (only when the checksum
   of a torn line collides) string-disallowed *)
Definition soft_err (x : err) : Prop := x = ECorruption \/ x = EDisallowed.

Lemma check_str_err s x : ~ In 10 s -> check_str s = Err x -> x = EDisallowed.
Proof.
  intros Hn. unfold check_str. rewrite (proj2 (existsb_nl s) Hn).
  destruct (is_nil s || negb (is_ascii s) || ends_with_cr s); intros H; inversion H; auto.
Qed.

Lemma check_key_err c x : c <> 10 -> check_key c = Err x -> x = EDisallowed.
Proof.
  intros Hc. unfold check_key. destruct (N.eqb_spec c 10); [contradiction|].
  destruct (negb (c <? 128) || (c =? 43) || (c =? 45)); intros H; inversion H; auto.
Qed.

Lemma skipn_in {A} n (l : list A) x : In x (skipn n l) -> In x l.
Proof. intros H. rewrite <- (firstn_skipn n l). apply in_or_app. now right. Qed.

Section WithCrc.
  Variable crc : list N -> N.

  Local Notation crc32 := (crc32 crc).
  Local Notation do_line := (do_line crc).
  Local Notation read_lines := (read_lines crc).

  (* ---------------------------------------------------------------- the lines of an edit *)
  Definition crc_line (a : N) (p : str) : str := hexN 8 (crc32 (a :: p)) ++ a :: p.

  Definition crc_lines (e : edit) : list str :=
    map (crc_line 45) (e_rm e) ++ map (crc_line 43) (e_add e)
    ++ map (fun kv => crc_line (fst kv) (snd kv)) (e_info e).

  Definition edit_lines (e : edit) : list str := crc_lines e ++ [SEP].

  Lemma ser_edit_lines e : ser_edit crc e = nl_lines (edit_lines e).
  Proof.
    unfold ser_edit, nl_lines, edit_lines, crc_lines, to_crc_line, crc_line.
    rewrite !flat_map_concat_map, !map_app, !concat_app, !map_map. cbn [map concat].
    rewrite app_nil_r, <- !app_assoc.
    repeat (f_equal; try (apply map_ext; intros; now rewrite <- app_assoc)).
  Qed.

  Lemma good_sep : good_line SEP.
  Proof. split; [|reflexivity]. unfold SEP. simpl. intuition discriminate. Qed.

  Lemma hex_not_in h c : Forall (fun x => 48 <= x <= 102) h -> c < 48 -> ~ In c h.
  Proof. intros F Hc Hin. apply (proj1 (Forall_forall _ _) F) in Hin. lia. Qed.

  Lemma crc_line_good a p : a <> 10 -> wf_str p -> good_line (crc_line a p).
  Proof.
    intros Ha (Hne & Hasc & Hnl & Hcr). unfold crc_line. split.
    - intros Hin. apply in_app_or in Hin. destruct Hin as [Hin|[Hin|Hin]].
      + revert Hin. apply hex_not_in; [apply hexN_forall|lia].
      + congruence.
      + contradiction.
    - rewrite (ends_with_cr_app _ (a :: p)) by discriminate.
      rewrite ends_with_cr_cons; auto.
  Qed.

  Lemma crc_lines_good e : wf_edit e -> Forall good_line (crc_lines e).
  Proof.
    intros [A B C D E F]. unfold crc_lines.
    repeat (apply Forall_app; split); apply Forall_map.
    - eapply Forall_impl; [|exact E]. intros p Hp. apply crc_line_good; auto. discriminate.
    - eapply Forall_impl; [|exact D]. intros p Hp. apply crc_line_good; auto. discriminate.
    - eapply Forall_impl; [|exact F]. intros [k v] [[H1 [H2 H3]] Hv]. apply crc_line_good; auto.
  Qed.

  Lemma edit_lines_good e : wf_edit e -> Forall good_line (edit_lines e).
  Proof.
    intros H. unfold edit_lines. apply Forall_app; split; [now apply crc_lines_good|].
    constructor; [apply good_sep|constructor].
  Qed.

  (* ---------------------------------------------------------------- one line through next() *)
  Lemma do_line_sep acc : do_line acc SEP = LYield acc.
  Proof. reflexivity. Qed.

  Lemma do_line_yield_inv acc l e : do_line acc l = LYield e -> l = SEP /\ e = acc.
  Proof.
    unfold Model.do_line.
    destruct (negb (valid_utf8 l)); try discriminate.
    destruct (negb (is_ascii l)); try discriminate.
    destruct (str_eqb l SEP) eqn:E.
    - intros H; inversion H; subst. split; auto. now apply str_eqb_eq.
    - destruct (Nat.ltb 9 (length l)); try discriminate.
      destruct (parse_hex_u32 (firstn 8 l)); try discriminate.
      destruct (negb (Model.crc32 crc (skipn 8 l) =? n)); try discriminate.
      destruct (nth 8 l 0 =? 43).
      { destruct (edit_add acc (skipn 9 l)); discriminate. }
      destruct (nth 8 l 0 =? 45).
      { destruct (edit_rm acc (skipn 9 l)); discriminate. }
      destruct (nth 8 l 0 =? 10); try discriminate.
      destruct (edit_info acc (nth 8 l 0) (skipn 9 l)); discriminate.
  Qed.

  Lemma crc32_mod x : crc32 x mod 4294967296 = crc32 x.
  Proof. unfold Model.crc32. now rewrite N.mod_mod by discriminate. Qed.

  Lemma do_line_crc acc a p : a < 128 -> a <> 10 -> wf_str p ->
    do_line acc (crc_line a p) =
    if a =? 43 then lift_edit (edit_add acc p)
    else if a =? 45 then lift_edit (edit_rm acc p)
    else lift_edit (edit_info acc a p).
  Proof.
    intros Ha Hnl Hp. pose proof Hp as (Hne & Hasc & Hnl' & Hcr).
    unfold Model.do_line, crc_line.
    set (h := hexN 8 (crc32 (a :: p))).
    assert (Lh : length h = 8%nat) by apply hexN_length.
    assert (Fh : Forall (fun c => 48 <= c <= 102) h) by apply hexN_forall.
    assert (Asc : Forall (fun b => b < 128) (h ++ a :: p)).
    { apply Forall_app; split.
      - eapply Forall_impl; [|exact Fh]. simpl; intros; lia.
      - constructor; auto. }
    rewrite valid_utf8_ascii by exact Asc.
    rewrite (proj2 (is_ascii_forall _) Asc). cbn [negb].
    assert (NotSep : str_eqb (h ++ a :: p) SEP = false).
    { destruct (str_eqb (h ++ a :: p) SEP) eqn:E; auto.
      apply str_eqb_eq in E. apply (f_equal (@length N)) in E.
      rewrite app_length, Lh in E. simpl in E. lia. }
    rewrite NotSep.
    assert (Len : Nat.ltb 9 (length (h ++ a :: p)) = true).
    { apply Nat.ltb_lt. rewrite app_length, Lh. destruct p; [contradiction|]. simpl. lia. }
    rewrite Len.
    rewrite (firstn_len_app h (a :: p) 8 Lh).
    unfold h at 1. rewrite parse_hex_u32_hexN, crc32_mod.
    rewrite (skipn_len_app h (a :: p) 8 Lh), N.eqb_refl. cbn [negb].
    rewrite app_nth2 by lia. rewrite Lh. cbn [Nat.sub nth].
    rewrite (skipn_len_app_S h a p 8 Lh).
    destruct (N.eqb_spec a 43); auto.
    destruct (N.eqb_spec a 45); auto.
    destruct (N.eqb_spec a 10); [contradiction|auto].
  Qed.

  (* a nonempty prefix of a checksummed line is never the separator *)
  Lemma crc_line_prefix_not_sep a p q q' : crc_line a p = q ++ q' -> q <> [] -> q <> SEP.
  Proof.
    unfold crc_line. destruct (hexN_head 7 (crc32 (a :: p))) as (c & r & E & R).
    rewrite E. destruct q as [|c' q]; [contradiction|].
    cbn [app]. intros H _ Hs. inversion H; subst. unfold SEP in Hs. inversion Hs; subst. lia.
  Qed.

  (* ---------------------------------------------------------------- reading the lines of an edit *)
  Lemma read_rm_lines rms : forall acc st rest, Forall wf_str rms ->
    read_lines (map (crc_line 45) rms ++ rest) acc st =
    read_lines rest (mkEdit (e_add acc) (fold_left (fun s p => set_insert p s) rms (e_rm acc)) (e_info acc)) st.
  Proof.
    induction rms as [|p rms IH]; intros acc st rest H.
    - now destruct acc.
    - inversion H; subst. cbn [map app Model.read_lines].
      rewrite do_line_crc by (auto; try lia; discriminate).
      cbn [N.eqb]. change (45 =? 43) with false. change (45 =? 45) with true. cbv iota.
      unfold edit_rm. rewrite check_str_ok by auto. cbn [lift_edit].
      rewrite IH by auto. reflexivity.
  Qed.

  Lemma read_add_lines adds : forall acc st rest, Forall wf_str adds ->
    read_lines (map (crc_line 43) adds ++ rest) acc st =
    read_lines rest (mkEdit (fold_left (fun s p => set_insert p s) adds (e_add acc)) (e_rm acc) (e_info acc)) st.
  Proof.
    induction adds as [|p adds IH]; intros acc st rest H.
    - now destruct acc.
    - inversion H; subst. cbn [map app Model.read_lines].
      rewrite do_line_crc by (auto; try lia; discriminate).
      change (43 =? 43) with true. cbv iota.
      unfold edit_add. rewrite check_str_ok by auto. cbn [lift_edit].
      rewrite IH by auto. reflexivity.
  Qed.

  Lemma read_info_lines infos : forall acc st rest, Forall wf_kv infos ->
    read_lines (map (fun kv => crc_line (fst kv) (snd kv)) infos ++ rest) acc st =
    read_lines rest (mkEdit (e_add acc) (e_rm acc)
                       (fold_left (fun s kv => map_insert (fst kv) (snd kv) s) infos (e_info acc))) st.
  Proof.
    induction infos as [|[k v] infos IH]; intros acc st rest H.
    - now destruct acc.
    - inversion H as [|? ? [[K1 [K2 [K3 K4]]] Hv] Hl]; subst. cbn [map app Model.read_lines fst snd] in *.
      rewrite do_line_crc by auto.
      destruct (N.eqb_spec k 43); [contradiction|].
      destruct (N.eqb_spec k 45); [contradiction|].
      unfold edit_info. rewrite check_key_ok by (repeat split; auto).
      rewrite check_str_ok by auto. cbn [lift_edit].
      rewrite IH by auto. reflexivity.
  Qed.

  (* all the checksummed lines of a well-formed edit rebuild exactly that edit *)
  Lemma read_crc_lines e st rest : wf_edit e ->
    read_lines (crc_lines e ++ rest) empty_edit st = read_lines rest e st.
  Proof.
    intros [A B C D E F]. unfold crc_lines. rewrite <- !app_assoc.
    rewrite read_rm_lines by auto. rewrite read_add_lines by auto. rewrite read_info_lines by auto.
    cbn [e_add e_rm e_info empty_edit].
    rewrite (fold_set_insert_sorted (e_rm e) []) by exact B.
    rewrite (fold_set_insert_sorted (e_add e) []) by exact A.
    rewrite (fold_map_insert_sorted (e_info e) []) by exact C.
    now destruct e.
  Qed.

  Lemma read_edit_lines e st rest : wf_edit e ->
    read_lines (edit_lines e ++ rest) empty_edit st = read_lines rest empty_edit (apply_edit e st).
  Proof.
    intros H. unfold edit_lines. rewrite <- app_assoc, read_crc_lines by auto.
    cbn [app Model.read_lines]. now rewrite do_line_sep.
  Qed.

  (* every checksummed line of a well-formed edit continues the edit under construction *)
  Definition cont_line (l : str) : Prop := forall acc, exists acc', do_line acc l = LCont acc'.

  Lemma crc_line_cont a p : wf_key a \/ a = 43 \/ a = 45 -> wf_str p -> cont_line (crc_line a p).
  Proof.
    intros Ha Hp acc.
    assert (a < 128 /\ a <> 10) as [H1 H2].
    { destruct Ha as [[? [? ?]]|[->| ->]]; split; auto; try lia; discriminate. }
    rewrite do_line_crc by auto.
    destruct (N.eqb_spec a 43).
    { unfold edit_add. rewrite check_str_ok by auto. eexists; reflexivity. }
    destruct (N.eqb_spec a 45).
    { unfold edit_rm. rewrite check_str_ok by auto. eexists; reflexivity. }
    destruct Ha as [Hk|[?|?]]; try contradiction.
    unfold edit_info. rewrite check_key_ok, check_str_ok by auto. eexists; reflexivity.
  Qed.

  Lemma crc_lines_cont e : wf_edit e -> Forall cont_line (crc_lines e).
  Proof.
    intros [A B C D E F]. unfold crc_lines.
    repeat (apply Forall_app; split); apply Forall_map.
    - eapply Forall_impl; [|exact E]. intros p Hp. apply crc_line_cont; auto.
    - eapply Forall_impl; [|exact D]. intros p Hp. apply crc_line_cont; auto.
    - eapply Forall_impl; [|exact F]. intros [k v] [Hk Hv]. apply crc_line_cont; auto.
  Qed.

  Lemma read_cont_lines ls : Forall cont_line ls -> forall acc, exists acc',
    forall rest st, read_lines (ls ++ rest) acc st = read_lines rest acc' st.
  Proof.
    induction ls as [|l ls IH]; intros H acc.
    - exists acc. reflexivity.
    - inversion H as [|? ? Hl Hls]; subst. destruct (Hl acc) as (a1 & E1).
      destruct (IH Hls a1) as (a2 & E2). exists a2. intros rest st.
      cbn [app Model.read_lines]. rewrite E1. apply E2.
  Qed.

  (* ---------------------------------------------------------------- round trip *)
  Definition fold_edits (es : list edit) (st : state) : state :=
    fold_left (fun s e => apply_edit e s) es st.

  Lemma ser_edits_lines es : ser_edits crc es = nl_lines (flat_map edit_lines es).
  Proof.
    unfold ser_edits, nl_lines. induction es as [|e es IH]; [reflexivity|].
    cbn [flat_map]. rewrite IH, ser_edit_lines. unfold nl_lines.
    now rewrite map_app, concat_app.
  Qed.

  Lemma read_ser_edit_app e st r : wf_edit e ->
    read_lines (lines (ser_edit crc e ++ r)) empty_edit st =
    read_lines (lines r) empty_edit (apply_edit e st).
  Proof.
    intros H. rewrite ser_edit_lines, lines_nl_lines by (now apply edit_lines_good).
    now apply read_edit_lines.
  Qed.

  Lemma read_ser_edits_app es : forall st r, Forall wf_edit es ->
    read_lines (lines (ser_edits crc es ++ r)) empty_edit st =
    read_lines (lines r) empty_edit (fold_edits es st).
  Proof.
    induction es as [|e es IH]; intros st r H; [reflexivity|].
    inversion H; subst. unfold ser_edits. cbn [flat_map]. rewrite <- app_assoc.
    rewrite read_ser_edit_app by auto. now apply IH.
  Qed.

  Theorem read_roundtrip es : Forall wf_edit es ->
    read_mani crc (Some (ser_edits crc es)) = Ok (spec_state es).
  Proof.
    intros H. unfold read_mani. rewrite <- (app_nil_r (ser_edits crc es)).
    rewrite read_ser_edits_app by auto. reflexivity.
  Qed.

  (* ---------------------------------------------------------------- truncation of one edit *)
  Lemma nth_edit_lines_crc e i : (i < length (crc_lines e))%nat ->
    nth i (edit_lines e) [] = nth i (crc_lines e) [].
  Proof. intros H. unfold edit_lines. now rewrite app_nth1. Qed.

  Lemma crc_lines_nth e i : (i < length (crc_lines e))%nat ->
    exists a p, nth i (crc_lines e) [] = crc_line a p.
  Proof.
    intros H. assert (Hin : In (nth i (crc_lines e) []) (crc_lines e)) by (now apply nth_In).
    remember (nth i (crc_lines e) []) as x eqn:Ex. clear Ex.
    unfold crc_lines in Hin. rewrite !in_app_iff, !in_map_iff in Hin.
    destruct Hin as [(p & <- & _)|[(p & <- & _)|([k v] & <- & _)]]; eauto.
  Qed.

  Lemma read_single acc q st : q <> SEP ->
    (exists x, read_lines [q] acc st = Err x) \/ read_lines [q] acc st = Ok st.
  Proof.
    intros Hq. cbn [Model.read_lines].
    destruct (do_line acc q) eqn:E; eauto.
    apply do_line_yield_inv in E. destruct E; contradiction.
  Qed.

  Lemma trunc_one e : wf_edit e -> forall m st,
    (m < length (ser_edit crc e))%nat ->
    let R := read_lines (lines (firstn m (ser_edit crc e))) empty_edit st in
    (exists x, R = Err x) \/ R = Ok st \/ R = Ok (apply_edit e st).
  Proof.
    intros Hwf m st Hm R. subst R.
    pose proof (edit_lines_good e Hwf) as Good.
    rewrite ser_edit_lines in *.
    destruct (firstn_nl_lines (edit_lines e) m) as (i & q & E & D).
    rewrite E.
    assert (GoodI : Forall good_line (firstn i (edit_lines e))).
    { apply Forall_forall. intros x Hx. apply (proj1 (Forall_forall _ _) Good).
      rewrite <- (firstn_skipn i (edit_lines e)). apply in_or_app. now left. }
    rewrite lines_nl_lines by exact GoodI.
    destruct D as [[-> ->]|[Hi (q' & Hq)]].
    - (* the whole text: excluded by m < length *)
      exfalso. rewrite firstn_all, app_nil_r in E.
      apply (f_equal (@length N)) in E. rewrite firstn_length in E. lia.
    - assert (Lel : length (edit_lines e) = S (length (crc_lines e))).
      { unfold edit_lines. rewrite app_length. simpl. lia. }
      assert (Hqnl : ~ In 10 q).
      { intros Hin. assert (G : good_line (nth i (edit_lines e) [])).
        { apply (proj1 (Forall_forall _ _) Good). now apply nth_In. }
        destruct G as [G _]. apply G. rewrite Hq. apply in_or_app. now left. }
      assert (Hlq : lines q = match q with [] => [] | _ => [q] end).
      { destruct q; [reflexivity|]. apply lines_last; [discriminate|auto]. }
      destruct (Nat.eq_dec i (length (crc_lines e))) as [Hlast|Hnot].
      + (* inside the separator line: every checksummed line has been read *)
        assert (F : firstn i (edit_lines e) = crc_lines e).
        { unfold edit_lines. subst i. now apply firstn_len_app. }
        rewrite F, read_crc_lines by auto.
        assert (Hsep : nth i (edit_lines e) [] = SEP).
        { unfold edit_lines. subst i. rewrite app_nth2 by lia. now rewrite Nat.sub_diag. }
        rewrite Hlq. destruct q as [|c q0]; [right; left; reflexivity|].
        destruct (list_eq_dec N.eq_dec (c :: q0) SEP) as [Es|Ns].
        * rewrite Es. cbn [Model.read_lines]. rewrite do_line_sep. right; right. reflexivity.
        * destruct (read_single e (c :: q0) st Ns) as [?|?]; auto.
      + (* inside a checksummed line *)
        assert (Hi' : (i < length (crc_lines e))%nat) by lia.
        assert (Cont : Forall cont_line (firstn i (edit_lines e))).
        { assert (F : firstn i (edit_lines e) = firstn i (crc_lines e)).
          { unfold edit_lines. rewrite firstn_app. replace (i - length (crc_lines e))%nat with O by lia.
            cbn [firstn]. now rewrite app_nil_r. }
          rewrite F. apply Forall_forall. intros x Hx.
          apply (proj1 (Forall_forall _ _) (crc_lines_cont e Hwf)).
          rewrite <- (firstn_skipn i (crc_lines e)). apply in_or_app. now left. }
        destruct (read_cont_lines _ Cont empty_edit) as (acc' & Eacc).
        rewrite Eacc, Hlq.
        destruct q as [|c q0]; [right; left; reflexivity|].
        rewrite nth_edit_lines_crc in Hq by auto.
        destruct (crc_lines_nth e i Hi') as (a & p & Ep). rewrite Ep in Hq.
        assert (Ns : c :: q0 <> SEP) by (eapply crc_line_prefix_not_sep; eauto; discriminate).
        destruct (read_single acc' (c :: q0) st Ns) as [?|?]; auto.
  Qed.

  (* ---------------------------------------------------------------- truncation of a fragment *)
  Lemma ser_edits_firstn_S k e es :
    ser_edits crc (firstn (S k) (e :: es)) = ser_edit crc e ++ ser_edits crc (firstn k es).
  Proof. reflexivity. Qed.

  Lemma ser_edits_cons e es : ser_edits crc (e :: es) = ser_edit crc e ++ ser_edits crc es.
  Proof. reflexivity. Qed.

  Theorem trunc_all es : Forall wf_edit es -> forall n st,
    let R := read_lines (lines (firstn n (ser_edits crc es))) empty_edit st in
    (exists x, R = Err x) \/
    exists j, (j <= length es)%nat /\ R = Ok (fold_edits (firstn j es) st) /\
              forall k, (k <= length es)%nat -> (length (ser_edits crc (firstn k es)) <= n)%nat -> (k <= j)%nat.
  Proof.
    induction es as [|e es IH]; intros H n st R; subst R.
    - right. exists O. rewrite firstn_nil. simpl. repeat split; auto; intros; lia.
    - inversion H as [|? ? He Hes]; subst.
      rewrite (ser_edits_cons e es).
      destruct (le_lt_dec (length (ser_edit crc e)) n) as [Hge|Hlt].
      + (* the first edit is complete *)
        rewrite firstn_app, firstn_all2 by lia.
        rewrite read_ser_edit_app by auto.
        destruct (IH Hes (n - length (ser_edit crc e))%nat (apply_edit e st)) as [[x Ex]|(j & Hj & Ej & Hk)].
        * left. eauto.
        * right. exists (S j). cbn [length firstn]. repeat split; [lia|exact Ej|].
          intros [|k] Hk1 Hk2; [lia|].
          rewrite ser_edits_firstn_S, app_length in Hk2.
          cbn [length] in Hk1. assert (k <= j)%nat; [apply Hk; lia|lia].
      + (* the cut falls inside the first edit *)
        rewrite firstn_app. replace (n - length (ser_edit crc e))%nat with O by lia.
        cbn [firstn]. rewrite app_nil_r.
        destruct (trunc_one e He n st Hlt) as [[x Ex]|[E0|E1]].
        * left. eauto.
        * right. exists O. cbn [firstn fold_edits fold_left]. repeat split; [lia|exact E0|].
          intros [|k] Hk1 Hk2; [lia|].
          rewrite ser_edits_firstn_S, app_length in Hk2. lia.
        * right. exists 1%nat. cbn [length firstn]. repeat split; [lia|exact E1|].
          intros [|k] Hk1 Hk2; [lia|].
          rewrite ser_edits_firstn_S, app_length in Hk2. lia.
  Qed.

  (* ---------------------------------------------------------------- error classes on ASCII text *)
  Lemma lift_edit_err r x : lift_edit r = LErr x -> r = Err x \/ (r = Panic /\ x = ESystem).
  Proof. destruct r; simpl; intros H; inversion H; auto. Qed.

  Lemma do_line_err_class acc l : is_ascii l = true -> ~ In 10 l ->
    match do_line acc l with
    | LErr x | LErrSoft x => soft_err x
    | _ => True
    end.
  Proof.
    intros Ha Hn. unfold Model.do_line.
    rewrite valid_utf8_ascii by (now apply is_ascii_forall). rewrite Ha. cbn [negb].
    destruct (str_eqb l SEP); auto.
    destruct (Nat.ltb 9 (length l)); [|left; reflexivity].
    destruct (parse_hex_u32 (firstn 8 l)); [|left; reflexivity].
    destruct (negb (Model.crc32 crc (skipn 8 l) =? n)); [left; reflexivity|].
    assert (Hp : ~ In 10 (skipn 9 l)) by (intros H; apply Hn; eapply skipn_in; eauto).
    destruct (nth 8 l 0 =? 43).
    { unfold edit_add. destruct (check_str (skipn 9 l)) eqn:E; simpl; auto.
      - right. eapply check_str_err; eauto.
      - exfalso. exact (check_str_no_panic _ E). }
    destruct (nth 8 l 0 =? 45).
    { unfold edit_rm. destruct (check_str (skipn 9 l)) eqn:E; simpl; auto.
      - right. eapply check_str_err; eauto.
      - exfalso. exact (check_str_no_panic _ E). }
    destruct (N.eqb_spec (nth 8 l 0) 10); [left; reflexivity|].
    unfold edit_info. destruct (check_key (nth 8 l 0)) eqn:Ek.
    - destruct (check_str (skipn 9 l)) eqn:E; cbn [lift_edit]; auto.
      + right. eapply check_str_err; eauto.
      + exfalso. exact (check_str_no_panic _ E).
    - cbn [lift_edit]. right. eapply check_key_err; eauto.
    - exfalso. unfold check_key in Ek. destruct (nth 8 l 0 =? 10); [discriminate|].
      destruct (negb (nth 8 l 0 <? 128) || (nth 8 l 0 =? 43) || (nth 8 l 0 =? 45)); discriminate.
  Qed.

  Lemma read_lines_err_class ls : forall acc st x,
    Forall (fun l => is_ascii l = true) ls -> Forall (fun l => ~ In 10 l) ls ->
    read_lines ls acc st = Err x -> soft_err x.
  Proof.
    induction ls as [|l ls IH]; intros acc st x Ha Hn; cbn [Model.read_lines]; [discriminate|].
    inversion Ha; subst. inversion Hn; subst.
    pose proof (do_line_err_class acc l H1 H3) as C.
    destruct (do_line acc l); eauto; intros H; inversion H; subst; exact C.
  Qed.

  Lemma read_ascii_err bs x : Forall (fun b => b < 128) bs ->
    read_mani crc (Some bs) = Err x -> soft_err x.
  Proof.
    intros Ha. unfold read_mani. apply read_lines_err_class.
    - eapply Forall_impl; [|apply (lines_forall _ bs Ha)]. intros l Hl. now apply is_ascii_forall.
    - apply lines_no_nl.
  Qed.

  (* what the writer produces is ASCII *)
  Lemma crc_line_ascii a p : a < 128 -> Forall (fun b => b < 128) p ->
    Forall (fun b => b < 128) (crc_line a p ++ [10]).
  Proof.
    intros Ha Hp. unfold crc_line. rewrite <- app_assoc. apply Forall_app. split.
    - eapply Forall_impl; [|apply hexN_forall]. simpl; intros; lia.
    - constructor; auto. apply Forall_app. split; auto. constructor; [lia|constructor].
  Qed.

  Lemma ser_edit_ascii e : wf_edit e -> Forall (fun b => b < 128) (ser_edit crc e).
  Proof.
    intros [A B C D E F]. rewrite ser_edit_lines. unfold nl_lines, edit_lines, crc_lines.
    rewrite !map_app, !concat_app, !map_map. repeat (apply Forall_app; split).
    - apply Forall_concat. apply Forall_map. eapply Forall_impl; [|exact E].
      intros p (_ & Hp & _). apply crc_line_ascii; auto. lia.
    - apply Forall_concat. apply Forall_map. eapply Forall_impl; [|exact D].
      intros p (_ & Hp & _). apply crc_line_ascii; auto. lia.
    - apply Forall_concat. apply Forall_map. eapply Forall_impl; [|exact F].
      intros [k v] [[Hk _] (_ & Hv & _)]. apply crc_line_ascii; auto.
    - unfold SEP. repeat constructor; lia.
    - repeat constructor; lia.
    - constructor.
  Qed.

  Lemma ser_edits_ascii es : Forall wf_edit es -> Forall (fun b => b < 128) (ser_edits crc es).
  Proof.
    unfold ser_edits. induction es as [|e es IH]; intros H; [constructor|].
    inversion H; subst. cbn [flat_map]. apply Forall_app. split; auto. now apply ser_edit_ascii.
  Qed.

  (* the truncation theorem with the class of the failure *)
  Theorem trunc_all_class es n : Forall wf_edit es ->
    (exists x, read_mani crc (Some (firstn n (ser_edits crc es))) = Err x /\ soft_err x) \/
    exists j, (j <= length es)%nat /\
              read_mani crc (Some (firstn n (ser_edits crc es))) = Ok (spec_state (firstn j es)) /\
              forall k, (k <= length es)%nat -> (length (ser_edits crc (firstn k es)) <= n)%nat -> (k <= j)%nat.
  Proof.
    intros H. destruct (trunc_all es H n empty_state) as [[x Ex]|R]; [left|right; exact R].
    exists x. split; [exact Ex|]. eapply read_ascii_err; [|exact Ex].
    pose proof (ser_edits_ascii es H) as Ha.
    apply Forall_forall. intros b Hb. apply (proj1 (Forall_forall _ _) Ha).
    rewrite <- (firstn_skipn n (ser_edits crc es)). apply in_or_app. now left.
  Qed.

End WithCrc.
