(* Mani/ProofsCut.v — "if the newest file is cut at any byte, reopening yields the state after a
   prefix of the APPLIED edits": the truncation theorem transported to a directory with a history.

   Ghost decomposition of a crash-free history: c_edits c = pre ++ tail, where `pre` are the edits
   applied before the last rollover and MANIFEST holds exactly
       ser_edits ([rollup (spec_state pre)] ++ tail)      (after a rollover)
       ser_edits tail, with pre = []                      (never rolled over)
   or MANIFEST does not exist and no edit was applied. *)
From Coq Require Import NArith Arith List Bool Lia Sorted.
From Blue Require Import Mani.Model Mani.Fs Mani.ModelMani Mani.ProofsOrder Mani.ProofsFormat Mani.ProofsFs
  Mani.ProofsCrash Mani.ProofsLts Mani.ProofsChain.
Import ListNotations.
Open Scope N_scope.

Arguments N.add : simpl never.
Arguments N.sub : simpl never.
Arguments N.ltb : simpl never.
Arguments N.eqb : simpl never.

Section WithCrc.
  Variable crc : list N -> N.
  Variable ratio : N.

  Local Notation rd := (read_mani crc).

  (* ---------------------------------------------------------------- what the call lists leave in MANIFEST *)
  Definition mdata (s : fs) : list N :=
    match fnode FMani s with Some nd => i_data nd | None => [] end.

  Lemma replay_cons c cs s s' : replay (c :: cs) s = Some s' ->
    exists s1, exec c s = Some s1 /\ replay cs s1 = Some s'.
  Proof. cbn [replay]. destruct (exec c s) as [s1|]; [eauto|discriminate]. Qed.

  Lemma apply3_content e s s3 : replay (apply3 crc e) s = Some s3 ->
    exists nd, fnode FMani s3 = Some nd /\ i_data nd = mdata s ++ ser_edit crc e.
  Proof.
    unfold apply3. intros R.
    apply replay_cons in R. destruct R as (s1 & E1 & R).
    apply replay_cons in R. destruct R as (s2 & E2 & R).
    apply replay_cons in R. destruct R as (s3' & E3 & R). cbn [replay] in R. inversion R; subst s3'.
    assert (H1 : exists i nd, lookup FMani s1 = Some i /\ nth_error (f_ino s1) i = Some nd /\ i_data nd = mdata s).
    { apply exec_open_inv in E1. destruct E1 as [(i & Li & ->)|(Ln & ->)].
      - unfold mdata, fnode. rewrite Li.
        apply exec_write_inv in E2. destruct E2 as (i' & nd & Li' & Ni' & _).
        rewrite Li in Li'. inversion Li'; subst i'. exists i, nd. rewrite Ni'. auto.
      - exists (length (f_ino s)), (mkInode [] 0). split; [apply lookup_created_same|]. split.
        + pose proof (fnode_created_same FMani s) as Fn. unfold fnode in Fn. now rewrite lookup_created_same in Fn.
        + unfold mdata, fnode. now rewrite Ln. }
    destruct H1 as (i & nd & Li & Ni & Dn).
    apply exec_write_inv in E2. destruct E2 as (i2 & nd2 & Li2 & Ni2 & ->).
    rewrite Li in Li2. inversion Li2; subst i2. rewrite Ni in Ni2. inversion Ni2; subst nd2.
    set (n2 := mkInode (i_data nd ++ ser_edit crc e) (i_dur nd)) in *.
    assert (F2 : fnode FMani (set_node i n2 s1) = Some n2) by (eapply fnode_set_node_same; eauto).
    apply exec_sync_inv in E3. destruct E3 as (i3 & nd3 & Li3 & Ni3 & ->).
    rewrite lookup_set_node, Li in Li3. inversion Li3; subst i3.
    unfold fnode in F2. rewrite lookup_set_node, Li in F2. rewrite F2 in Ni3. inversion Ni3; subst nd3.
    eexists. split; [eapply fnode_set_node_same; [rewrite lookup_set_node; exact Li|exact F2]|].
    cbn [i_data]. unfold n2. cbn [i_data]. now rewrite Dn.
  Qed.

  Lemma roll_content m s s' : replay (roll_calls crc m s) s = Some s' ->
    exists nd, fnode FMani s' = Some nd /\ i_data nd = ser_edit crc (rollup (m_st m)).
  Proof.
    unfold roll_calls. set (bytes := ser_edit crc (rollup (m_st m))). intros R.
    apply replay_cons in R. destruct R as (s1 & E1 & R).
    rewrite replay_app in R. destruct (replay (if exists_file FTmp s then [CUnlink FTmp] else []) s1) as [s2|] eqn:R2; [|discriminate].
    assert (L2 : lookup FTmp s2 = None).
    { destruct (frame_link _ _ _ _ FTmp E1 ltac:(discriminate)) as [Lt _].
      destruct (exists_file FTmp s) eqn:Ex.
      - apply replay_cons in R2. destruct R2 as (x & Ex2 & Rx). cbn [replay] in Rx. inversion Rx; subst x.
        apply exec_unlink_inv in Ex2. destruct Ex2 as [_ ->]. rewrite lookup_dir_remove. now cbn [fname_eqb].
      - cbn [replay] in R2. inversion R2; subst s2. rewrite Lt. unfold exists_file in Ex.
        destruct (lookup FTmp s); [discriminate|auto]. }
    apply replay_cons in R. destruct R as (s3 & E3 & R).
    apply replay_cons in R. destruct R as (s4 & E4 & R).
    apply replay_cons in R. destruct R as (s5 & E5 & R).
    apply replay_cons in R. destruct R as (s6 & E6 & R). cbn [replay] in R. inversion R; subst s6.
    apply exec_open_inv in E3. destruct E3 as [(i & Li & _)|(_ & ->)]; [congruence|].
    pose proof (fnode_created_same FTmp s2) as F3.
    apply exec_write_inv in E4. destruct E4 as (i & nd & Li & Ni & ->).
    assert (nd = mkInode [] 0) by (unfold fnode in F3; rewrite Li, Ni in F3; now inversion F3). subst nd.
    cbn [i_data i_dur app] in *.
    assert (F4 : fnode FTmp (set_node i (mkInode bytes 0) (created FTmp s2)) = Some (mkInode bytes 0))
      by (eapply fnode_set_node_same; eauto).
    apply exec_sync_inv in E5. destruct E5 as (i5 & nd5 & Li5 & Ni5 & ->).
    rewrite lookup_set_node, Li in Li5. inversion Li5; subst i5.
    assert (nd5 = mkInode bytes 0) by (unfold fnode in F4; rewrite lookup_set_node, Li, Ni5 in F4; now inversion F4). subst nd5.
    cbn [i_data] in *.
    set (s5' := set_node i (mkInode bytes (length bytes)) (set_node i (mkInode bytes 0) (created FTmp s2))) in *.
    assert (F5 : fnode FTmp s5' = Some (mkInode bytes (length bytes))).
    { unfold s5'. eapply fnode_set_node_same; [rewrite lookup_set_node; exact Li|exact Ni5]. }
    apply exec_rename_inv in E6. destruct E6 as (t & Lt & ->).
    exists (mkInode bytes (length bytes)). split; [|reflexivity].
    unfold fnode in *. rewrite lookup_dir_set, fname_eqb_refl. cbn [f_ino]. rewrite Lt in F5. exact F5.
  Qed.

  (* ---------------------------------------------------------------- the ghost decomposition *)
  Definition head_of (rolled : bool) (pre : list edit) : list edit :=
    if rolled then [rollup (spec_state pre)] else [].

  Definition frag (s : fs) (edits : list edit) : Prop :=
    (fnode FMani s = None /\ edits = []) \/
    exists rolled pre tail nd,
      edits = pre ++ tail /\ (rolled = false -> pre = []) /\
      fnode FMani s = Some nd /\ i_data nd = ser_edits crc (head_of rolled pre ++ tail).

  Definition inv_cut (c : cfg) : Prop := c_crashed c = false -> frag (c_fs c) (c_edits c).

  Lemma frag_mdata s edits : frag s edits ->
    (fnode FMani s = None /\ edits = [] /\ mdata s = []) \/
    exists rolled pre tail, edits = pre ++ tail /\ (rolled = false -> pre = []) /\
                            mdata s = ser_edits crc (head_of rolled pre ++ tail) /\ fnode FMani s <> None.
  Proof.
    intros [[H1 H2]|(r & pre & tail & nd & H1 & H2 & H3 & H4)].
    - left. unfold mdata. rewrite H1. auto.
    - right. exists r, pre, tail. unfold mdata. rewrite H3. repeat split; auto. discriminate.
  Qed.

  Lemma frag_rolled s edits nd : fnode FMani s = Some nd ->
    i_data nd = ser_edit crc (rollup (spec_state edits)) -> frag s edits.
  Proof.
    intros H1 H2. right. exists true, edits, [], nd. rewrite app_nil_r. repeat split; auto; try discriminate.
    cbn [head_of app]. unfold ser_edits. cbn [flat_map]. now rewrite app_nil_r.
  Qed.

  Lemma inv_cut_step c c' : reach crc ratio c -> inv_cut c -> step crc ratio c c' -> inv_cut c'.
  Proof.
    intros Hreach Hcut Hstep.
    destruct (inv_reach crc ratio c Hreach) as [Hclean Hmain].
    destruct Hstep as [c m w Hh Ho | c m w k s' t img Hh Ho Hr Hcr
                      | c m e m' w Hh He Ha | c m e m' w k s' t img Hh He Ha Hr Hcr
                      | c m m' w Hh Hro | c m m' w k s' t img Hh Hro Hr Hcr
                      | c m Hh | c t img Hcr];
      rewrite ?Hh in Hmain; unfold inv_cut; cbn [c_fs c_edits c_crashed]; try discriminate.
    - (* open *)
      intros Hcr. destruct (Hclean Hcr) as (E1 & E2 & E3 & E4). specialize (Hcut Hcr).
      destruct Hmain as (Hok & Hs & _).
      destruct (rd (content FMani (c_fs c))) as [st|x|] eqn:R.
      + pose proof (down_read crc (allowed c) (c_fs c) st Hs R) as Hp.
        assert (Est : st = spec_state (c_edits c)).
        { destruct Hp as [Hp|Hp]; [congruence|]. rewrite E2 in Hp. discriminate. }
        destruct (open_spec_full crc (allowed c) ratio (c_fs c) st Hok R Hs Hp)
          as (m0 & s0 & calls & E & Em & _ & _ & sx & lastf & R0 & _ & Hcase).
        rewrite E in Ho. inversion Ho; subst m0 w. cbn [fst].
        destruct Hcase as [(Ex & _ & Rr & _)|(Ex & _ & Es & _)].
        * destruct (roll_content _ _ _ Rr) as (nd & Fn & Dn). cbn [m_st] in Dn.
          eapply frag_rolled; eauto. now rewrite <- Est.
        * subst s0. left.
          assert (Fx : fnode FMani sx = None).
          { unfold exists_file in Ex. unfold fnode. destruct (lookup FMani sx); [discriminate|auto]. }
          split; auto.
          (* MANIFEST was absent before, too: open_calls only unlinks a backup *)
          assert (F0 : fnode FMani (c_fs c) = None).
          { unfold open_calls in R0. cbv zeta in R0.
            destruct ((1 <? next_manifest_identifier (c_fs c)) &&
                      same_inode (FBackup (next_manifest_identifier (c_fs c) - 1)) FMani (c_fs c)).
            - apply replay_cons in R0. destruct R0 as (y & Ey & Ry). cbn [replay] in Ry. inversion Ry; subst y.
              destruct (frame_unlink _ _ _ FMani Ey ltac:(discriminate)) as [_ Fm]. congruence.
            - cbn [replay] in R0. inversion R0; subst sx. exact Fx. }
          destruct Hcut as [[_ H]|(r & pre & tail & nd & _ & _ & H & _)]; [exact H|congruence].
      + rewrite (open_err crc ratio _ x R) in Ho. discriminate.
      + exfalso. exact (rd_no_panic crc _ R).
    - (* apply *)
      intros Hcr. destruct (Hclean Hcr) as (E1 & E2 & E3 & E4). specialize (Hcut Hcr).
      destruct Hmain as (Hup & Eack & _).
      destruct (apply_spec_full crc m (c_fs c) e [] Hup He)
        as (m0 & s0 & calls & E & Em & _ & _ & s3 & n3 & R3 & F3 & _ & _ & Hcase).
      rewrite E in Ha. inversion Ha; subst m0 w. cbn [fst].
      destruct (apply3_content e _ _ R3) as (nd3 & Fn3 & Dn3).
      destruct Hcase as [(_ & -> & _)|(_ & Rr & _)].
      + destruct (frag_mdata _ _ Hcut) as [(Fn & Ee & Md)|(r & pre & tail & Ee & Hr0 & Md & _)].
        * right. exists false, [], [e], nd3. rewrite Ee. repeat split; auto.
          rewrite Dn3, Md. cbn [head_of app]. unfold ser_edits. cbn [flat_map]. now rewrite app_nil_r.
        * right. exists r, pre, (tail ++ [e]), nd3. rewrite Ee, <- app_assoc. repeat split; auto.
          rewrite Dn3, Md, app_assoc. now rewrite ser_edits_snoc.
      + destruct (roll_content _ _ _ Rr) as (nd & Fn & Dn). cbn [m_st] in Dn.
        eapply frag_rolled; eauto.
        rewrite spec_state_snoc, <- E1, Eack. exact Dn.
    - (* rollover *)
      intros Hcr. destruct (Hclean Hcr) as (E1 & E2 & E3 & E4).
      destruct Hmain as (Hup & Eack & _).
      pose proof Hup as [Hok Hwf Hids Hfrag].
      destruct Hfrag as [(F1 & F2 & F3)|(es & nd & F1 & F2 & F3 & F4 & F5)].
      { exfalso. exact (rollover_absent crc m (c_fs c) [] _ F2 Hro). }
      assert (Rd : rd (Some (i_data nd)) = Ok (m_st m)).
      { rewrite F2, <- F5. now apply read_roundtrip. }
      destruct (exact_node_safe crc (eq (m_st m)) nd (m_st m) F3 Rd eq_refl) as [Hs _].
      destruct (rollover_spec crc (eq (m_st m)) m (c_fs c) [] nd Hok F1 Hs Rd eq_refl Hwf Hids)
        as (s1 & E & Rr & _ & _).
      rewrite E in Hro. inversion Hro; subst m' w. cbn [fst].
      destruct (roll_content _ _ _ Rr) as (nd1 & Fn & Dn).
      eapply frag_rolled; eauto. now rewrite <- E1, Eack.
    - (* close *)
      exact Hcut.
  Qed.

  Theorem inv_cut_reach c : reach crc ratio c -> inv_cut c.
  Proof.
    induction 1 as [|c c' Hr IH Hs].
    - intros _. left. split; reflexivity.
    - eapply inv_cut_step; eauto.
  Qed.

  (* ---------------------------------------------------------------- cutting MANIFEST *)
  Lemma nth_error_map_combine_seq {A B} (f : nat * A -> B) (l : list A) : forall start i x,
    nth_error l i = Some x -> nth_error (map f (combine (seq start (length l)) l)) i = Some (f (start + i, x))%nat.
  Proof.
    induction l as [|a l IH]; intros start [|i] x; simpl; try discriminate.
    - intros H; inversion H; subst. now rewrite Nat.add_0_r.
    - intros H. rewrite (IH (S start) i x H). replace (S start + i)%nat with (start + S i)%nat by lia. reflexivity.
  Qed.

  Lemma cut_file_mani s n nd : fnode FMani s = Some nd ->
    fnode FMani (cut_file FMani n s) = Some (cut_inode n nd) /\ f_dir (cut_file FMani n s) = f_dir s /\
    length (f_ino (cut_file FMani n s)) = length (f_ino s).
  Proof.
    intros H. apply fnode_lookup in H. destruct H as (i & Li & Ni).
    unfold cut_file. rewrite Li. cbn [f_dir f_ino]. split; [|split; auto].
    - unfold fnode, lookup. cbn [f_dir f_ino]. unfold lookup in Li. rewrite Li.
      rewrite (nth_error_map_combine_seq _ (f_ino s) 0 i nd Ni). cbn [fst snd Nat.add].
      now rewrite Nat.eqb_refl.
    - now rewrite map_length, combine_length, seq_length, Nat.min_id.
  Qed.

  Lemma cut_file_ok s n : fs_ok s -> fnode FMani s <> None -> fs_ok (cut_file FMani n s).
  Proof.
    intros [Hi Hn] Hm. destruct (fnode FMani s) as [nd|] eqn:F; [|congruence].
    destruct (cut_file_mani s n nd F) as (_ & Hd & Hl). split.
    - intros f i Hf. rewrite Hl. apply (Hi f i). unfold lookup in *. now rewrite Hd in Hf.
    - unfold names_nodup. now rewrite Hd.
  Qed.

  Lemma firstn_min {A} j (l : list A) : firstn (Nat.min j (length l)) l = firstn j l.
  Proof.
    destruct (le_lt_dec j (length l)) as [H|H].
    - now rewrite Nat.min_l by lia.
    - rewrite Nat.min_r by lia. now rewrite firstn_all, firstn_all2 by lia.
  Qed.

  Lemma spec_head rolled pre tail j : (rolled = false -> pre = []) -> Forall wf_edit pre ->
    exists i, (i <= length (pre ++ tail))%nat /\
      spec_state (firstn j (head_of rolled pre ++ tail)) = spec_state (firstn i (pre ++ tail)) /\
      (forall t, (t <= length tail)%nat -> (length (head_of rolled pre) + t <= j)%nat -> (length pre + t <= i)%nat).
  Proof.
    intros Hr Hw. destruct rolled; cbn [head_of].
    - destruct j as [|j].
      + exists O. cbn [firstn]. split; [lia|]. split; [reflexivity|]. intros t _ Ht. simpl in Ht. lia.
      + exists (length pre + Nat.min j (length tail))%nat. split; [rewrite app_length; lia|]. split.
        * assert (F : firstn (length pre + Nat.min j (length tail)) (pre ++ tail) = pre ++ firstn j tail).
          { rewrite firstn_app. rewrite (@firstn_all2 edit (length pre + Nat.min j (length tail)) pre) by lia.
            replace (length pre + Nat.min j (length tail) - length pre)%nat with (Nat.min j (length tail)) by lia.
            now rewrite firstn_min. }
          rewrite F. cbn [app firstn]. unfold spec_state. cbn [fold_left]. rewrite fold_left_app. f_equal.
          apply (apply_rollup_empty (spec_state pre)). now apply spec_state_wf.
        * intros t Ht Hj. simpl in Hj. lia.
    - rewrite (Hr eq_refl). cbn [app length]. exists (Nat.min j (length tail)). split; [lia|]. split.
      + now rewrite firstn_min.
      + intros t Ht Hj. simpl in Hj. lia.
  Qed.

  (* the clause of the property, for a directory with a (crash-free) history: cut MANIFEST to its
     first n bytes, for ANY n, and reopen *)
  Theorem cut_newest_file c n : reach crc ratio c -> c_crashed c = false -> c_h c = None ->
    exists rolled pre tail,
      c_edits c = pre ++ tail /\ mdata (c_fs c) = ser_edits crc (head_of rolled pre ++ tail) /\
      match m_open crc ratio (cut_file FMani n (c_fs c), []) with
      | Ok (m, _) =>
          exists i, (i <= length (c_edits c))%nat /\ m_st m = spec_state (firstn i (c_edits c)) /\
            forall t, (t <= length tail)%nat ->
                      (length (ser_edits crc (head_of rolled pre ++ firstn t tail)) <= n)%nat ->
                      (length pre + t <= i)%nat
      | Err x => soft_err x
      | Panic => False
      end.
  Proof.
    intros Hr Hcr Hh.
    destruct (inv_reach crc ratio c Hr) as [Hclean Hmain]. rewrite Hh in Hmain.
    destruct (Hclean Hcr) as (E1 & E2 & E3 & E4). destruct Hmain as (Hok & _ & _).
    destruct (frag_mdata _ _ (inv_cut_reach c Hr Hcr)) as [(Fn & Ee & Md)|(r & pre & tail & Ee & Hr0 & Md & Fn)].
    - (* no MANIFEST, no edit *)
      exists false, [], []. rewrite Ee, Md. split; [reflexivity|]. split; [reflexivity|].
      assert (Lm : lookup FMani (c_fs c) = None).
      { destruct (lookup FMani (c_fs c)) as [i|] eqn:L; auto.
        destruct (fnode_some_of_lookup FMani _ i Hok L) as (nd & Hnd). congruence. }
      unfold cut_file. rewrite Lm.
      pose proof (open_is_read crc ratio _ (fs_ok_crash_a _ Hok)) as Ho.
      rewrite content_fnode, fnode_crash_a, Fn in Ho. cbn [option_map read_mani] in Ho.
      destruct Ho as (m & w & E & Em). rewrite E. exists O. repeat split; auto; try (intros t Ht _; simpl in *; lia).
    - exists r, pre, tail. split; [exact Ee|]. split; [exact Md|].
      destruct (fnode FMani (c_fs c)) as [nd|] eqn:Fnd; [|congruence]. unfold mdata in Md. rewrite Fnd in Md.
      destruct (cut_file_mani (c_fs c) n nd Fnd) as (Fc & _ & _).
      pose proof (open_is_read crc ratio _ (cut_file_ok _ n Hok ltac:(congruence))) as Ho.
      rewrite content_fnode, Fc in Ho. cbn [option_map cut_inode i_data] in Ho. rewrite Md in Ho.
      rewrite Ee in E4. apply Forall_app in E4. destruct E4 as [Wp Wt].
      assert (Wes : Forall wf_edit (head_of r pre ++ tail)).
      { apply Forall_app. split; auto. destruct r; cbn [head_of]; [|constructor].
        constructor; [|constructor]. apply rollup_wf. now apply spec_state_wf. }
      destruct (trunc_all_class crc _ n Wes) as [(x & Ex & Sx)|(j & Hj & Ej & Hk)].
      + rewrite Ex in Ho. rewrite Ho. exact Sx.
      + rewrite Ej in Ho. destruct Ho as (m & w & E & Em). rewrite E.
        destruct (spec_head r pre tail j Hr0 Wp) as (i & Hi & Es & Hb).
        exists i. rewrite Ee. split; [exact Hi|]. split; [congruence|].
        intros t Ht Hlen. apply Hb; auto.
        apply Hk.
        * rewrite app_length. lia.
        * rewrite firstn_app, firstn_all2 by lia.
          replace (length (head_of r pre) + t - length (head_of r pre))%nat with t by lia. exact Hlen.
  Qed.

End WithCrc.
