(* Mani/ProofsLock.v — the lock file is exclusive across processes iff the table is consulted
   before the file is opened. *)
From Coq Require Import Arith Bool List Lia.
From Blue Require Import Mani.Lock.
Import ListNotations.

Lemma upd_same f p b : upd f p b p = b.
Proof. unfold upd. now rewrite Nat.eqb_refl. Qed.

Lemma upd_other f p q b : q <> p -> upd f p b q = f q.
Proof. intros H. unfold upd. destruct (Nat.eqb_spec q p); [contradiction|reflexivity]. Qed.

(* invariant of the repaired order *)
Definition linv (st : lstate) : Prop :=
  (forall p, l_held st p = true -> l_owner st = Some p) /\
  (forall p, l_table st p = l_held st p) /\
  (forall p, l_pc st p = true -> l_table st p = false).

Lemma linv_init : linv linit.
Proof. repeat split; intros p H; simpl in *; auto; discriminate. Qed.

Lemma close_fd_other p q : q <> p -> close_fd p (Some q) = Some q.
Proof. intros H. simpl. destruct (Nat.eqb_spec q p); [contradiction|reflexivity]. Qed.

Lemma linv_step e st : linv st -> linv (lstep TableFirst e st).
Proof.
  intros (Hown & Htab & Hpc). destruct e as [p|p|p]; simpl.
  - (* begin *)
    destruct (l_pc st p) eqn:Epc; [repeat split; auto|].
    destruct (l_table st p) eqn:Et; [repeat split; auto|].
    repeat split; simpl; auto. intros q Hq. unfold upd in Hq.
    destruct (Nat.eqb_spec q p); [subst; exact Et|auto].
  - (* finish *)
    destruct (l_pc st p) eqn:Epc; [|repeat split; auto].
    assert (Tp : l_table st p = false) by auto.
    assert (Hp : l_held st p = false) by (rewrite <- Htab; exact Tp).
    assert (A : (forall q, l_held st q = true -> q = p) -> linv (acquire p st)).
    { intros Honly. unfold acquire. repeat split; simpl.
      - intros q Hq. unfold upd in Hq. destruct (Nat.eqb_spec q p); [now subst|].
        specialize (Honly q Hq). contradiction.
      - intros q. unfold upd. destruct (Nat.eqb_spec q p); auto.
      - intros q Hq. unfold upd in *. destruct (Nat.eqb_spec q p); [discriminate|]. now apply Hpc. }
    unfold setlk. destruct (l_owner st) as [o|] eqn:Eo.
    + destruct (Nat.eqb_spec o p) as [->|Hne].
      * apply A. intros q Hq. specialize (Hown q Hq). congruence.
      * unfold drop_file. rewrite Eo, (close_fd_other p o Hne). repeat split; simpl.
        -- intros q Hq. now apply Hown.
        -- exact Htab.
        -- intros q Hq. unfold upd in Hq. destruct (Nat.eqb_spec q p); [discriminate|]. now apply Hpc.
    + apply A. intros q Hq. specialize (Hown q Hq). congruence.
  - (* unlock *)
    destruct (l_pc st p) eqn:Epc; [repeat split; auto|].
    destruct (l_held st p) eqn:Eh; [|repeat split; auto].
    pose proof (Hown p Eh) as Eo. rewrite Eo. simpl. rewrite Nat.eqb_refl.
    repeat split; simpl.
    + intros q Hq. unfold upd in Hq. destruct (Nat.eqb_spec q p); [discriminate|].
      specialize (Hown q Hq). congruence.
    + intros q. unfold upd. destruct (Nat.eqb_spec q p); auto.
    + intros q Hq. unfold upd. destruct (Nat.eqb_spec q p); [reflexivity|]. now apply Hpc.
Qed.

Lemma linv_run es : forall st, linv st -> linv (lrun TableFirst es st).
Proof.
  unfold lrun. induction es as [|e es IH]; intros st H; simpl; auto.
  apply IH. now apply linv_step.
Qed.

(* with the table consulted first: whatever the processes do, in whatever interleaving of their
   system calls, a live Lockfile value means its process owns the kernel lock — so two live
   Lockfile values belong to the same process (and one process has at most one: the table) *)
Theorem lock_exclusive es p q :
  let st := lrun TableFirst es linit in
  l_held st p = true -> l_held st q = true -> p = q.
Proof.
  intros st Hp Hq. destruct (linv_run es linit linv_init) as (Hown & _).
  pose proof (Hown p Hp) as E1. pose proof (Hown q Hq) as E2. fold st in E1, E2. congruence.
Qed.

Theorem lock_holder_owns es p :
  let st := lrun TableFirst es linit in
  l_held st p = true -> l_owner st = Some p.
Proof. intros st Hp. destruct (linv_run es linit linv_init) as (Hown & _). now apply Hown. Qed.

(* with the file opened first: process 0 locks, tries again (refused, but the dropped File releases
   its kernel lock), process 1 locks — two processes hold the "exclusive" lock *)
Theorem open_first_not_exclusive :
  exists es, let st := lrun OpenFirst es linit in
             l_held st 0 = true /\ l_held st 1 = true /\ l_owner st = Some 1.
Proof.
  exists [EBegin 0; EFinish 0; EBegin 0; EFinish 0; EBegin 1; EFinish 1].
  vm_compute. auto.
Qed.
