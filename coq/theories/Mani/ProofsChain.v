(* Mani/ProofsChain.v — "every rolled-over fragment starts with the complete state at its
   creation, so that the fragments chain without gaps" — as an invariant of every state between
   two system calls and of every crash image.

   chain s K alias:  the backups MANIFEST.1 .. MANIFEST.K are settled (durable, readable, not
   sharing an inode with MANIFEST), each MANIFEST.n (n >= 2) starts with the durable text of the
   roll-up of the final state of MANIFEST.(n-1), MANIFEST starts with the roll-up of the final
   state of MANIFEST.K; with alias = true there is additionally MANIFEST.(K+1), a second name of
   MANIFEST's inode (a rollover between hard_link and rename). *)
From Coq Require Import NArith Arith List Bool Lia Sorted.
From Blue Require Import Mani.Model Mani.Fs Mani.ModelMani Mani.ProofsOrder Mani.ProofsFormat Mani.ProofsFs Mani.ProofsCrash.
Import ListNotations.
Open Scope N_scope.

Arguments N.add : simpl never.
Arguments N.sub : simpl never.
Arguments N.mul : simpl never.
Arguments N.leb : simpl never.
Arguments N.ltb : simpl never.
Arguments N.eqb : simpl never.

(* ------------------------------------------------------------------ inversion of exec *)
Lemma exec_link_inv a b s s' : exec (CLink a b) s = Some s' ->
  exists i, lookup a s = Some i /\ lookup b s = None /\ s' = mkFs (dir_set b i (f_dir s)) (f_ino s).
Proof.
  simpl. destruct (lookup a s) as [i|]; [|discriminate]. destruct (lookup b s); [discriminate|].
  intros H; inversion H. eauto.
Qed.

Lemma exec_unlink_inv a s s' : exec (CUnlink a) s = Some s' ->
  (exists i, lookup a s = Some i) /\ s' = mkFs (dir_remove a (f_dir s)) (f_ino s).
Proof. simpl. destruct (lookup a s) as [i|]; [|discriminate]. intros H; inversion H. eauto. Qed.

Lemma exec_rename_inv a b s s' : exec (CRename a b) s = Some s' ->
  exists i, lookup a s = Some i /\ s' = mkFs (dir_set b i (dir_remove a (f_dir s))) (f_ino s).
Proof. simpl. destruct (lookup a s) as [i|]; [|discriminate]. intros H; inversion H. eauto. Qed.

Lemma exec_open_inv a s s' : exec (COpenAppend a) s = Some s' ->
  (exists i, lookup a s = Some i /\ s' = s) \/ (lookup a s = None /\ s' = created a s).
Proof.
  simpl. destruct (lookup a s) as [i|] eqn:E; intros H; inversion H; [left; eauto|right; auto].
Qed.

Lemma exec_write_inv a bs s s' : exec (CWrite a bs) s = Some s' ->
  exists i nd, lookup a s = Some i /\ nth_error (f_ino s) i = Some nd /\
               s' = set_node i (mkInode (i_data nd ++ bs) (i_dur nd)) s.
Proof.
  simpl. destruct (lookup a s) as [i|]; [|discriminate].
  destruct (nth_error (f_ino s) i) as [nd|] eqn:E; [|discriminate].
  intros H; inversion H. eauto.
Qed.

Lemma exec_sync_inv a s s' : exec (CFdatasync a) s = Some s' ->
  exists i nd, lookup a s = Some i /\ nth_error (f_ino s) i = Some nd /\
               s' = set_node i (mkInode (i_data nd) (length (i_data nd))) s.
Proof.
  simpl. destruct (lookup a s) as [i|]; [|discriminate].
  destruct (nth_error (f_ino s) i) as [nd|] eqn:E; [|discriminate].
  intros H; inversion H. eauto.
Qed.

(* lookups in the closed forms *)
Lemma lookup_dir_set f b i d inos :
  lookup f (mkFs (dir_set b i d) inos) = if fname_eqb f b then Some i else dir_lookup f d.
Proof.
  unfold lookup. cbn [f_dir]. destruct (fname_eqb f b) eqn:E.
  - apply fname_eqb_eq in E. subst. apply dir_lookup_set_same.
  - apply dir_lookup_set_other. intros ->. now rewrite fname_eqb_refl in E.
Qed.

Lemma lookup_dir_remove f a d inos :
  lookup f (mkFs (dir_remove a d) inos) = if fname_eqb f a then None else dir_lookup f d.
Proof.
  unfold lookup. cbn [f_dir]. destruct (fname_eqb f a) eqn:E.
  - apply fname_eqb_eq in E. subst. apply dir_lookup_remove_same.
  - apply dir_lookup_remove_other. intros ->. now rewrite fname_eqb_refl in E.
Qed.

Lemma fnode_same_ino f g s s' :
  f_ino s' = f_ino s -> lookup f s' = lookup g s -> fnode f s' = fnode g s.
Proof. intros H1 H2. unfold fnode. now rewrite H1, H2. Qed.

Lemma fnode_lookup f s nd : fnode f s = Some nd -> exists i, lookup f s = Some i /\ nth_error (f_ino s) i = Some nd.
Proof. unfold fnode. destruct (lookup f s) as [i|]; [eauto|discriminate]. Qed.

Section WithCrc.
  Variable crc : list N -> N.

  Local Notation rd := (read_mani crc).

  (* ---------------------------------------------------------------- the invariant *)
  (* MANIFEST.tmp shares its inode with no other name *)
  Definition tmp_sep (s : fs) : Prop :=
    forall f i, f <> FTmp -> lookup f s = Some i -> lookup FTmp s <> Some i.

  Definition starts_with_rollup (S : state) (nd : inode) : Prop :=
    exists rest, i_data nd = ser_edit crc (rollup S) ++ rest /\
                 (length (ser_edit crc (rollup S)) <= i_dur nd)%nat.

  Definition settled (s : fs) (n : N) : Prop :=
    exists nd S, fnode (FBackup n) s = Some nd /\ i_dur nd = length (i_data nd) /\
                 rd (Some (i_data nd)) = Ok S /\ lookup (FBackup n) s <> lookup FMani s.

  Definition linked (s : fs) (n : N) : Prop :=
    exists ndp Sp nd, fnode (FBackup (n - 1)) s = Some ndp /\ rd (Some (i_data ndp)) = Ok Sp /\
                      fnode (FBackup n) s = Some nd /\ starts_with_rollup Sp nd.

  Definition head_ok (s : fs) (K : N) : Prop :=
    K = 0 \/ (1 <= K /\ exists ndp Sp nd, fnode (FBackup K) s = Some ndp /\ rd (Some (i_data ndp)) = Ok Sp /\
                                          fnode FMani s = Some nd /\ starts_with_rollup Sp nd).

  Record chain (s : fs) (K : N) (alias : bool) : Prop := {
    ch_ok : fs_ok s;
    ch_sep : tmp_sep s;
    ch_ids : forall n, In n (backup_ids (f_dir s)) -> (1 <= n <= K) \/ (alias = true /\ n = K + 1);
    ch_settled : forall n, 1 <= n <= K -> settled s n;
    ch_links : forall n, 2 <= n <= K -> linked s n;
    ch_head : head_ok s K;
    ch_alias : alias = true ->
               exists i, lookup (FBackup (K + 1)) s = Some i /\ lookup FMani s = Some i
  }.

  (* MANIFEST is fully durable (true at every operation boundary and in every crash image) *)
  Definition dur_m (s : fs) : Prop := forall nd, fnode FMani s = Some nd -> i_dur nd = length (i_data nd).

  (* MANIFEST holds ASCII text only (so that whatever is read from it, torn or not, can only fail
     with the error classes of ProofsFormat.soft_err) *)
  Definition ascii_m (s : fs) : Prop :=
    forall nd, fnode FMani s = Some nd -> Forall (fun b => b < 128) (i_data nd).

  (* ---------------------------------------------------------------- calls that only concern MANIFEST.tmp *)
  Lemma chain_transfer s s' K a :
    chain s K a -> fs_ok s' -> tmp_sep s' ->
    (forall f, f <> FTmp -> lookup f s' = lookup f s /\ fnode f s' = fnode f s) ->
    (forall n, In n (backup_ids (f_dir s')) -> In n (backup_ids (f_dir s))) ->
    chain s' K a.
  Proof.
    intros [A B C D E F G] Hok Hsep Hsame Hids.
    assert (Lb : forall n, lookup (FBackup n) s' = lookup (FBackup n) s) by (intros n; apply Hsame; discriminate).
    assert (Nb : forall n, fnode (FBackup n) s' = fnode (FBackup n) s) by (intros n; apply Hsame; discriminate).
    assert (Lm : lookup FMani s' = lookup FMani s) by (apply Hsame; discriminate).
    assert (Nm : fnode FMani s' = fnode FMani s) by (apply Hsame; discriminate).
    split; auto.
    - intros n Hn. destruct (D n Hn) as (nd & S & H1 & H2 & H3 & H4).
      exists nd, S. rewrite Nb, Lb, Lm. auto.
    - intros n Hn. destruct (E n Hn) as (ndp & Sp & nd & H1 & H2 & H3 & H4).
      exists ndp, Sp, nd. rewrite !Nb. auto.
    - destruct F as [F|(HK1 & ndp & Sp & nd & H1 & H2 & H3 & H4)]; [left; auto|right; split; [exact HK1|]].
      exists ndp, Sp, nd. rewrite Nb, Nm. auto.
    - intros Ha. destruct (G Ha) as (i & H1 & H2). exists i. rewrite Lb, Lm. auto.
  Qed.

  Lemma tmp_sep_unlink_tmp s : tmp_sep (mkFs (dir_remove FTmp (f_dir s)) (f_ino s)).
  Proof. intros f i Hf Hl. rewrite lookup_dir_remove. cbn [fname_eqb]. discriminate. Qed.

  Lemma chain_unlink_tmp s K a s' :
    chain s K a -> exec (CUnlink FTmp) s = Some s' -> chain s' K a /\ lookup FTmp s' = None.
  Proof.
    intros Hc He. apply exec_unlink_inv in He. destruct He as [_ ->].
    split; [|rewrite lookup_dir_remove; now cbn [fname_eqb]].
    eapply chain_transfer; eauto.
    - apply fs_ok_dir_remove. apply Hc.
    - apply tmp_sep_unlink_tmp.
    - intros f Hf. split.
      + rewrite lookup_dir_remove. rewrite fname_eqb_neq by auto. reflexivity.
      + rewrite fnode_dir_remove_other by auto. now rewrite fs_eta.
    - intros n Hn. cbn [f_dir] in Hn. now apply backup_ids_remove in Hn.
  Qed.

  Lemma chain_create_tmp s K a :
    chain s K a -> lookup FTmp s = None ->
    chain (created FTmp s) K a /\ fnode FTmp (created FTmp s) = Some (mkInode [] 0).
  Proof.
    intros Hc Hl. split; [|apply fnode_created_same].
    eapply chain_transfer; eauto.
    - apply fs_ok_created. apply Hc.
    - intros f i Hf Hf2. rewrite lookup_created_same. rewrite lookup_created_other in Hf2 by auto.
      pose proof (fs_ok_lt _ _ _ (ch_ok _ _ _ Hc) Hf2) as Hlt. intros H; inversion H. lia.
    - intros f Hf. split; [now apply lookup_created_other|apply fnode_created_other; auto; apply Hc].
    - intros n Hn. unfold created in Hn. cbn [f_dir] in Hn. apply backup_ids_set in Hn.
      destruct Hn as [Hn|Hn]; [discriminate|auto].
  Qed.

  (* write / fdatasync on MANIFEST.tmp: replace the node of its inode *)
  Lemma chain_set_tmp s K a i x nd :
    chain s K a -> lookup FTmp s = Some i -> nth_error (f_ino s) i = Some x ->
    chain (set_node i nd s) K a /\ fnode FTmp (set_node i nd s) = Some nd.
  Proof.
    intros Hc Hl Hx. split; [|eapply fnode_set_node_same; eauto].
    eapply chain_transfer; eauto.
    - apply fs_ok_set_node. apply Hc.
    - intros f j Hf Hf2. rewrite lookup_set_node in *. now apply (ch_sep _ _ _ Hc f j).
    - intros f Hf. split; [apply lookup_set_node|].
      apply fnode_set_node_other. intros E. exact (ch_sep _ _ _ Hc f i Hf E Hl).
  Qed.

  (* ---------------------------------------------------------------- hard_link MANIFEST -> MANIFEST.(K+1) *)
  Lemma chain_link s K s' :
    chain s K false -> exec (CLink FMani (FBackup (K + 1))) s = Some s' -> chain s' K true.
  Proof.
    intros [A B C D E F G] He. apply exec_link_inv in He. destruct He as (i & Li & Lb & ->).
    assert (Hl : forall f, f <> FBackup (K + 1) ->
              lookup f (mkFs (dir_set (FBackup (K + 1)) i (f_dir s)) (f_ino s)) = lookup f s).
    { intros f Hf. rewrite lookup_dir_set. now rewrite fname_eqb_neq by auto. }
    assert (Hn : forall f, f <> FBackup (K + 1) ->
              fnode f (mkFs (dir_set (FBackup (K + 1)) i (f_dir s)) (f_ino s)) = fnode f s).
    { intros f Hf. apply fnode_same_ino; auto. }
    assert (NeB : forall n, n <= K -> FBackup n <> FBackup (K + 1)) by (intros n Hn0 H; inversion H; lia).
    split.
    - apply fs_ok_dir_set; auto. exact (fs_ok_lt _ _ _ A Li).
    - intros f j Hf Hj. rewrite Hl by discriminate.
      rewrite lookup_dir_set in Hj. destruct (fname_eqb f (FBackup (K + 1))) eqn:Ef.
      + inversion Hj; subst j. exact (B FMani i ltac:(discriminate) Li).
      + exact (B f j Hf Hj).
    - intros n Hn0. cbn [f_dir] in Hn0. apply backup_ids_set in Hn0. destruct Hn0 as [Hn0|Hn0].
      + inversion Hn0. right. split; auto.
      + destruct (C n Hn0) as [H|[H _]]; [left; auto|discriminate].
    - intros n Hn0. destruct (D n Hn0) as (nd & S & H1 & H2 & H3 & H4).
      exists nd, S. rewrite Hn, !Hl by (try discriminate; apply NeB; lia). auto.
    - intros n Hn0. destruct (E n Hn0) as (ndp & Sp & nd & H1 & H2 & H3 & H4).
      exists ndp, Sp, nd. rewrite !Hn by (apply NeB; lia). auto.
    - destruct F as [F|(HK1 & ndp & Sp & nd & H1 & H2 & H3 & H4)]; [left; auto|right; split; [exact HK1|]].
      exists ndp, Sp, nd. rewrite !Hn by (try discriminate; apply NeB; lia). auto.
    - intros _. exists i. rewrite lookup_dir_set, fname_eqb_refl. rewrite Hl by discriminate. auto.
  Qed.

  (* ---------------------------------------------------------------- open drops the alias (F14 repair) *)
  Lemma chain_unlink_alias s K s' :
    chain s K true -> exec (CUnlink (FBackup (K + 1))) s = Some s' -> chain s' K false.
  Proof.
    intros [A B C D E F G] He. apply exec_unlink_inv in He. destruct He as [_ ->].
    assert (Hl : forall f, f <> FBackup (K + 1) ->
              lookup f (mkFs (dir_remove (FBackup (K + 1)) (f_dir s)) (f_ino s)) = lookup f s).
    { intros f Hf. rewrite lookup_dir_remove. now rewrite fname_eqb_neq by auto. }
    assert (Hn : forall f, f <> FBackup (K + 1) ->
              fnode f (mkFs (dir_remove (FBackup (K + 1)) (f_dir s)) (f_ino s)) = fnode f s).
    { intros f Hf. apply fnode_same_ino; auto. }
    assert (NeB : forall n, n <= K -> FBackup n <> FBackup (K + 1)) by (intros n Hn0 H; inversion H; lia).
    split.
    - now apply fs_ok_dir_remove.
    - intros f j Hf Hj. rewrite Hl by discriminate.
      rewrite lookup_dir_remove in Hj. destruct (fname_eqb f (FBackup (K + 1))) eqn:Ef; [discriminate|].
      exact (B f j Hf Hj).
    - intros n Hn0. cbn [f_dir] in Hn0. apply backup_ids_remove in Hn0. destruct Hn0 as [Hn0 Hne].
      destruct (C n Hn0) as [H|[_ H]]; [left; auto|]. subst n. contradiction.
    - intros n Hn0. destruct (D n Hn0) as (nd & S & H1 & H2 & H3 & H4).
      exists nd, S. rewrite Hn, !Hl by (try discriminate; apply NeB; lia). auto.
    - intros n Hn0. destruct (E n Hn0) as (ndp & Sp & nd & H1 & H2 & H3 & H4).
      exists ndp, Sp, nd. rewrite !Hn by (apply NeB; lia). auto.
    - destruct F as [F|(HK1 & ndp & Sp & nd & H1 & H2 & H3 & H4)]; [left; auto|right; split; [exact HK1|]].
      exists ndp, Sp, nd. rewrite !Hn by (try discriminate; apply NeB; lia). auto.
    - discriminate.
  Qed.

  (* ---------------------------------------------------------------- rename MANIFEST.tmp over MANIFEST *)
  Lemma chain_rename s K S ndm s' :
    chain s K true -> wf_state S ->
    fnode FTmp s = Some (mkInode (ser_edit crc (rollup S)) (length (ser_edit crc (rollup S)))) ->
    fnode FMani s = Some ndm -> i_dur ndm = length (i_data ndm) -> rd (Some (i_data ndm)) = Ok S ->
    exec (CRename FTmp FMani) s = Some s' ->
    chain s' (K + 1) false /\ dur_m s' /\ ascii_m s'.
  Proof.
    intros [A B C D E F G] HwS Ht Hm Hdur Hrd He.
    apply exec_rename_inv in He. destruct He as (t & Lt & ->).
    set (tnd := mkInode (ser_edit crc (rollup S)) (length (ser_edit crc (rollup S)))) in *.
    destruct (fnode_lookup _ _ _ Ht) as (t' & Lt' & Nt). rewrite Lt in Lt'. inversion Lt'; subst t'. clear Lt'.
    destruct (fnode_lookup _ _ _ Hm) as (i & Li & Ni).
    destruct (G eq_refl) as (i' & La & Li'). rewrite Li in Li'. inversion Li'; subst i'. clear Li'.
    assert (Hit : i <> t) by (intros ->; exact (B FMani t ltac:(discriminate) Li Lt)).
    set (s' := mkFs (dir_set FMani t (dir_remove FTmp (f_dir s))) (f_ino s)).
    assert (Hl : forall f, f <> FMani -> f <> FTmp -> lookup f s' = lookup f s).
    { intros f H1 H2. unfold s'. rewrite lookup_dir_set, fname_eqb_neq by auto.
      pose proof (lookup_dir_remove f FTmp (f_dir s) (f_ino s)) as R. unfold lookup in R. cbn [f_dir] in R.
      rewrite R, fname_eqb_neq by auto. reflexivity. }
    assert (Hn : forall f, f <> FMani -> f <> FTmp -> fnode f s' = fnode f s).
    { intros f H1 H2. apply fnode_same_ino; auto. }
    assert (Lm' : lookup FMani s' = Some t).
    { unfold s'. rewrite lookup_dir_set. now rewrite fname_eqb_refl. }
    assert (Nm' : fnode FMani s' = Some tnd).
    { unfold fnode. rewrite Lm'. exact Nt. }
    assert (Lt'' : lookup FTmp s' = None).
    { unfold s'. rewrite lookup_dir_set. cbn [fname_eqb].
      pose proof (lookup_dir_remove FTmp FTmp (f_dir s) (f_ino s)) as R. unfold lookup in R. cbn [f_dir] in R.
      rewrite R. now rewrite fname_eqb_refl. }
    assert (Nb' : fnode (FBackup (K + 1)) s' = Some ndm).
    { rewrite Hn by discriminate. unfold fnode. rewrite La. exact Ni. }
    split.
    - split.
      + unfold s'. apply (fs_ok_dir_set FMani t (mkFs (dir_remove FTmp (f_dir s)) (f_ino s))).
        * now apply fs_ok_dir_remove.
        * cbn [f_ino]. apply nth_error_Some. congruence.
      + intros f j Hf Hj. rewrite Lt''. discriminate.
      + intros n Hn0. unfold s' in Hn0. cbn [f_dir] in Hn0. apply backup_ids_set in Hn0.
        destruct Hn0 as [Hn0|Hn0]; [discriminate|]. apply backup_ids_remove in Hn0. destruct Hn0 as [Hn0 _].
        left. destruct (C n Hn0) as [H|[_ H]]; lia.
      + intros n Hn0. destruct (N.eq_dec n (K + 1)) as [->|Hne].
        * exists ndm, S. rewrite Nb', Hl, La, Lm' by discriminate. repeat split; auto. congruence.
        * destruct (D n ltac:(lia)) as (nd & S0 & H1 & H2 & H3 & H4).
          exists nd, S0. rewrite Hn, Hl, Lm' by discriminate. repeat split; auto.
          destruct (fnode_lookup _ _ _ H1) as (j & Lj & _). rewrite Lj. intros H; inversion H; subst j.
          exact (B (FBackup n) t ltac:(discriminate) Lj Lt).
      + intros n Hn0. destruct (N.eq_dec n (K + 1)) as [->|Hne].
        * destruct F as [F|(HK1 & ndp & Sp & nd & H1 & H2 & H3 & H4)]; [lia|].
          exists ndp, Sp, ndm. replace (K + 1 - 1) with K by lia.
          rewrite Hn by discriminate. rewrite Nb'. rewrite Hm in H3. inversion H3; subst nd. auto.
        * destruct (E n ltac:(lia)) as (ndp & Sp & nd & H1 & H2 & H3 & H4).
          exists ndp, Sp, nd. rewrite !Hn by discriminate. auto.
      + right. split; [lia|]. exists ndm, S, tnd. repeat split; auto.
        exists []. unfold tnd. cbn [i_data i_dur]. rewrite app_nil_r. split; auto.
      + discriminate.
    - split.
      + intros nd Hnd. rewrite Nm' in Hnd. inversion Hnd. reflexivity.
      + intros nd Hnd. rewrite Nm' in Hnd. inversion Hnd. unfold tnd. cbn [i_data].
        apply ser_edit_ascii. now apply rollup_wf.
  Qed.

  (* ---------------------------------------------------------------- calls on MANIFEST itself (_apply) *)
  Lemma chain_open_mani s K s' :
    chain s K false -> exec (COpenAppend FMani) s = Some s' ->
    chain s' K false /\ exists i x, lookup FMani s' = Some i /\ nth_error (f_ino s') i = Some x /\
                                    (fnode FMani s = Some x \/ (fnode FMani s = None /\ x = mkInode [] 0)).
  Proof.
    intros Hc He. pose proof Hc as [A B C D E F G].
    apply exec_open_inv in He. destruct He as [(i & Li & ->)|(Ln & ->)].
    - split; auto. destruct (fnode_some_of_lookup FMani s i A Li) as (x & Hx).
      exists i, x. repeat split; auto. unfold fnode in Hx. now rewrite Li in Hx.
    - assert (HK : K = 0).
      { destruct F as [F|(HK1 & ndp & Sp & nd & H1 & H2 & H3 & H4)]; auto.
        apply fnode_lookup in H3. destruct H3 as (j & Lj & _). congruence. }
      subst K. split.
      + split.
        * now apply fs_ok_created.
        * intros f j Hf Hj. rewrite lookup_created_other by discriminate.
          destruct (fname_eqb f FMani) eqn:Ef.
          -- apply fname_eqb_eq in Ef. subst f. rewrite lookup_created_same in Hj. inversion Hj; subst j.
             intros Ht. pose proof (fs_ok_lt _ _ _ A Ht). lia.
          -- rewrite lookup_created_other in Hj by (intros ->; now rewrite fname_eqb_refl in Ef).
             exact (B f j Hf Hj).
        * intros n Hn0. unfold created in Hn0. cbn [f_dir] in Hn0. apply backup_ids_set in Hn0.
          destruct Hn0 as [Hn0|Hn0]; [discriminate|auto].
        * intros n Hn0. lia.
        * intros n Hn0. lia.
        * now left.
        * discriminate.
      + exists (length (f_ino s)), (mkInode [] 0). split; [apply lookup_created_same|]. split.
        * pose proof (fnode_created_same FMani s) as Fn. unfold fnode in Fn. now rewrite lookup_created_same in Fn.
        * right. split; auto. unfold fnode. now rewrite Ln.
  Qed.

  Lemma chain_set_mani s K i x nd :
    chain s K false -> lookup FMani s = Some i -> nth_error (f_ino s) i = Some x ->
    (forall Sp, starts_with_rollup Sp x -> starts_with_rollup Sp nd) ->
    chain (set_node i nd s) K false /\ fnode FMani (set_node i nd s) = Some nd.
  Proof.
    intros [A B C D E F G] Li Nx Hst.
    assert (Nm : fnode FMani (set_node i nd s) = Some nd) by (eapply fnode_set_node_same; eauto).
    assert (Hb : forall n, 1 <= n <= K -> fnode (FBackup n) (set_node i nd s) = fnode (FBackup n) s).
    { intros n Hn0. destruct (D n Hn0) as (nb & S & H1 & H2 & H3 & H4).
      apply fnode_set_node_other. rewrite Li in H4. exact H4. }
    split; auto. split.
    - now apply fs_ok_set_node.
    - intros f j Hf Hj. rewrite lookup_set_node in *. exact (B f j Hf Hj).
    - exact C.
    - intros n Hn0. destruct (D n Hn0) as (nb & S & H1 & H2 & H3 & H4).
      exists nb, S. rewrite Hb, !lookup_set_node by auto. auto.
    - intros n Hn0. destruct (E n Hn0) as (ndp & Sp & nb & H1 & H2 & H3 & H4).
      exists ndp, Sp, nb. rewrite !Hb by lia. auto.
    - destruct F as [F|(HK1 & ndp & Sp & nb & H1 & H2 & H3 & H4)]; [left; auto|right; split; [exact HK1|]].
      exists ndp, Sp, nd. rewrite Hb by lia. repeat split; auto.
      apply Hst. unfold fnode in H3. rewrite Li, Nx in H3. inversion H3; subst. exact H4.
    - discriminate.
  Qed.

  Lemma starts_append Sp x bs : starts_with_rollup Sp x ->
    starts_with_rollup Sp (mkInode (i_data x ++ bs) (i_dur x)).
  Proof.
    intros (rest & E & L). exists (rest ++ bs). cbn [i_data i_dur]. split; auto.
    rewrite E. now rewrite app_assoc.
  Qed.

  Lemma starts_sync Sp x : starts_with_rollup Sp x ->
    starts_with_rollup Sp (mkInode (i_data x) (length (i_data x))).
  Proof.
    intros (rest & E & L). exists rest. cbn [i_data i_dur]. split; auto.
    rewrite E, app_length. lia.
  Qed.

  (* ---------------------------------------------------------------- crash images *)
  Lemma cut_durable nd n : i_dur nd = length (i_data nd) ->
    (Nat.min (i_dur nd) (length (i_data nd)) <= n <= length (i_data nd))%nat -> cut_inode n nd = nd.
  Proof.
    intros Hd Hn. rewrite Hd, Nat.min_id in Hn. assert (n = length (i_data nd)) by lia. subst n.
    unfold cut_inode. rewrite firstn_all. destruct nd; simpl in *. now subst.
  Qed.

  Lemma starts_cut Sp nd n : starts_with_rollup Sp nd ->
    (Nat.min (i_dur nd) (length (i_data nd)) <= n <= length (i_data nd))%nat ->
    starts_with_rollup Sp (cut_inode n nd).
  Proof.
    intros (rest & E & L) Hn. unfold cut_inode. cbn [i_data i_dur].
    assert (Ls : (length (ser_edit crc (rollup Sp)) <= length (i_data nd))%nat) by (rewrite E, app_length; lia).
    exists (firstn (n - length (ser_edit crc (rollup Sp))) rest). cbn [i_data i_dur]. split; [|lia].
    rewrite E, firstn_app, firstn_all2 by lia. reflexivity.
  Qed.

  Lemma chain_crash s K a img : chain s K a -> crash_b s img -> chain img K a /\ dur_m img.
  Proof.
    intros [A B C D E F G] Hc.
    assert (Hl : forall f, lookup f img = lookup f s) by (intros f; now apply crash_b_lookup).
    assert (Hb : forall n, 1 <= n <= K -> fnode (FBackup n) img = fnode (FBackup n) s).
    { intros n Hn0. destruct (D n Hn0) as (nb & S & H1 & H2 & H3 & H4).
      pose proof (crash_b_fnode s img (FBackup n) Hc) as Fn. rewrite H1 in Fn.
      destruct Fn as (k & Hk & ->). rewrite H1. f_equal. now apply cut_durable. }
    split.
    - split.
      + eapply crash_b_fs_ok; eauto.
      + intros f j Hf Hj. rewrite Hl in *. exact (B f j Hf Hj).
      + rewrite (crash_b_backup_ids s img Hc). exact C.
      + intros n Hn0. destruct (D n Hn0) as (nb & S & H1 & H2 & H3 & H4).
        exists nb, S. rewrite Hb, !Hl by auto. auto.
      + intros n Hn0. destruct (E n Hn0) as (ndp & Sp & nb & H1 & H2 & H3 & H4).
        exists ndp, Sp, nb. rewrite !Hb by lia. auto.
      + destruct F as [F|(HK1 & ndp & Sp & nb & H1 & H2 & H3 & H4)]; [left; auto|right; split; [exact HK1|]].
        pose proof (crash_b_fnode s img FMani Hc) as Fn. rewrite H3 in Fn. destruct Fn as (k & Hk & Fk).
        exists ndp, Sp, (cut_inode k nb). rewrite Hb by lia. repeat split; auto. now apply starts_cut.
      + intros Ha. destruct (G Ha) as (i & H1 & H2). exists i. rewrite !Hl. auto.
    - intros nd Hnd. pose proof (crash_b_fnode s img FMani Hc) as Fn.
      destruct (fnode FMani s) as [x|]; [|congruence].
      destruct Fn as (k & Hk & Fk). rewrite Fk in Hnd. inversion Hnd; subst nd.
      unfold cut_inode. cbn [i_data i_dur]. rewrite firstn_length. lia.
  Qed.

  Lemma chain_init : chain empty_fs 0 false /\ dur_m empty_fs.
  Proof.
    split.
    - split.
      + apply fs_ok_empty.
      + intros f i _ H. discriminate H.
      + intros n [].
      + intros n Hn. lia.
      + intros n Hn. lia.
      + now left.
      + intros H. discriminate H.
    - intros nd H. discriminate H.
  Qed.

  (* ---------------------------------------------------------------- stepping through call lists *)
  Definition chain_any (s : fs) : Prop := (exists K a, chain s K a) /\ ascii_m s.

  Lemma any_of s K a : chain s K a -> ascii_m s -> chain_any s.
  Proof. intros H1 H2. split; [now exists K, a|exact H2]. Qed.

  Lemma ascii_of_node s nd : fnode FMani s = Some nd -> Forall (fun b => b < 128) (i_data nd) -> ascii_m s.
  Proof. intros H1 H2 x Hx. rewrite H1 in Hx. inversion Hx; subst. exact H2. Qed.

  Definition triple (Pre : fs -> Prop) (cs : list call) (Post : fs -> Prop) : Prop :=
    forall s, Pre s -> all_prefixes chain_any cs s /\ forall s', replay cs s = Some s' -> Post s'.

  Lemma triple_nil (Pre Post : fs -> Prop) :
    (forall s, Pre s -> chain_any s /\ Post s) -> triple Pre [] Post.
  Proof.
    intros H s Hp. destruct (H s Hp) as [A B]. split; [now apply all_prefixes_nil|].
    intros s' E. simpl in E. inversion E; now subst.
  Qed.

  Lemma triple_cons (Pre Mid Post : fs -> Prop) c cs :
    (forall s, Pre s -> chain_any s) ->
    (forall s s1, Pre s -> exec c s = Some s1 -> Mid s1) ->
    triple Mid cs Post -> triple Pre (c :: cs) Post.
  Proof.
    intros H0 H1 H2 s Hp. split.
    - apply all_prefixes_cons; [now apply H0|]. intros s1 E. apply (H2 s1). eapply H1; eauto.
    - intros s' E. cbn [replay] in E. destruct (exec c s) as [s1|] eqn:E1; [|discriminate].
      apply (H2 s1); [eapply H1; eauto|exact E].
  Qed.

  Lemma triple_app (Pre Mid Post : fs -> Prop) a b :
    triple Pre a Mid -> triple Mid b Post -> triple Pre (a ++ b) Post.
  Proof.
    intros Ha Hb s Hp. destruct (Ha s Hp) as [A1 A2]. split.
    - apply all_prefixes_app; auto. intros s1 E. apply (Hb s1). now apply A2.
    - intros s' E. rewrite replay_app in E. destruct (replay a s) as [s1|] eqn:E1; [|discriminate].
      apply (Hb s1); [now apply A2|exact E].
  Qed.

  (* frames *)
  Lemma frame_link a b s s' f : exec (CLink a b) s = Some s' -> f <> b ->
    lookup f s' = lookup f s /\ fnode f s' = fnode f s.
  Proof.
    intros He Hf. apply exec_link_inv in He. destruct He as (i & _ & _ & ->).
    assert (L : lookup f (mkFs (dir_set b i (f_dir s)) (f_ino s)) = lookup f s).
    { rewrite lookup_dir_set. now rewrite fname_eqb_neq by auto. }
    split; auto. now apply fnode_same_ino.
  Qed.

  Lemma frame_unlink a s s' f : exec (CUnlink a) s = Some s' -> f <> a ->
    lookup f s' = lookup f s /\ fnode f s' = fnode f s.
  Proof.
    intros He Hf. apply exec_unlink_inv in He. destruct He as (_ & ->).
    assert (L : lookup f (mkFs (dir_remove a (f_dir s)) (f_ino s)) = lookup f s).
    { rewrite lookup_dir_remove. now rewrite fname_eqb_neq by auto. }
    split; auto. now apply fnode_same_ino.
  Qed.

  Lemma chain_mani_not_tmp s K a i : chain s K a -> lookup FTmp s = Some i -> lookup FMani s <> Some i.
  Proof.
    intros Hc Ht Hm. exact (ch_sep _ _ _ Hc FMani i ltac:(discriminate) Hm Ht).
  Qed.

  (* ---------------------------------------------------------------- rollover *)
  Lemma chain_roll_calls s K m ndm :
    chain s K false -> fnode FMani s = Some ndm -> i_dur ndm = length (i_data ndm) ->
    Forall (fun b => b < 128) (i_data ndm) ->
    rd (Some (i_data ndm)) = Ok (m_st m) -> wf_state (m_st m) -> m_last m = K + 1 ->
    all_prefixes chain_any (roll_calls crc m s) s /\
    forall s', replay (roll_calls crc m s) s = Some s' -> chain s' (K + 1) false /\ dur_m s' /\ ascii_m s'.
  Proof.
    intros Hc Hm Hd Hasc Hr Hw Hl. unfold roll_calls. rewrite Hl.
    set (b := exists_file FTmp s). set (S := m_st m) in *.
    set (bytes := ser_edit crc (rollup S)).
    set (P0 := fun x => chain x K false /\ fnode FMani x = Some ndm /\ exists_file FTmp x = b).
    set (P1 := fun x => chain x K true /\ fnode FMani x = Some ndm /\ exists_file FTmp x = b).
    set (P2 := fun x => chain x K true /\ fnode FMani x = Some ndm /\ lookup FTmp x = None).
    set (P3 := fun (d : inode) x => chain x K true /\ fnode FMani x = Some ndm /\ fnode FTmp x = Some d).
    set (Post := fun x => chain x (K + 1) false /\ dur_m x /\ ascii_m x).
    assert (AN : forall x a, chain x K a -> fnode FMani x = Some ndm -> chain_any x).
    { intros x a Hx Hmx. eapply any_of; eauto. eapply ascii_of_node; eauto. }
    assert (T : triple P0 ([CLink FMani (FBackup (K + 1))] ++ (if b then [CUnlink FTmp] else [])
                           ++ [COpenAppend FTmp; CWrite FTmp bytes; CFdatasync FTmp; CRename FTmp FMani]) Post).
    { apply (triple_app P0 P1).
      { apply (triple_cons P0 P1 P1).
        - intros x (Hx & Hmx & _). eapply AN; eauto.
        - intros x x1 (Hx & Hmx & Hbx) E. destruct (frame_link _ _ _ _ FMani E ltac:(discriminate)) as [_ Fm].
          destruct (frame_link _ _ _ _ FTmp E ltac:(discriminate)) as [Lt _].
          split; [eapply chain_link; eauto|]. split; [congruence|].
          unfold exists_file in *. now rewrite Lt.
        - apply triple_nil. intros x Hx. split; auto. destruct Hx as (Hx & Hmx & _). eapply AN; eauto. }
      apply (triple_app P1 P2).
      { destruct b eqn:Eb.
        - apply (triple_cons P1 P2 P2).
          + intros x (Hx & Hmx & _). eapply AN; eauto.
          + intros x x1 (Hx & Hmx & Hbx) E. destruct (chain_unlink_tmp _ _ _ _ Hx E) as [C1 C2].
            destruct (frame_unlink _ _ _ FMani E ltac:(discriminate)) as [_ Fm].
            split; auto. split; [congruence|auto].
          + apply triple_nil. intros x Hx. split; auto. destruct Hx as (Hx & Hmx & _). eapply AN; eauto.
        - apply triple_nil. intros x (Hx & Hmx & Hbx). split; [eapply AN; eauto|].
          split; auto. split; auto. unfold exists_file in Hbx. destruct (lookup FTmp x); [discriminate|auto]. }
      apply (triple_cons P2 (P3 (mkInode [] 0)) Post).
      { intros x (Hx & Hmx & _). eapply AN; eauto. }
      { intros x x1 (Hx & Hmx & Ltx) E. apply exec_open_inv in E.
        destruct E as [(i & Li & _)|(_ & ->)]; [congruence|].
        destruct (chain_create_tmp _ _ _ Hx Ltx) as [C1 C2].
        split; auto. split; auto. rewrite fnode_created_other by (try discriminate; apply Hx). exact Hmx. }
      apply (triple_cons (P3 (mkInode [] 0)) (P3 (mkInode bytes 0)) Post).
      { intros x (Hx & Hmx & _). eapply AN; eauto. }
      { intros x x1 (Hx & Hmx & Htx) E. apply exec_write_inv in E. destruct E as (i & nd & Li & Ni & ->).
        assert (nd = mkInode [] 0) by (unfold fnode in Htx; rewrite Li, Ni in Htx; now inversion Htx). subst nd.
        cbn [i_data i_dur app].
        destruct (chain_set_tmp _ _ _ i _ (mkInode bytes 0) Hx Li Ni) as [C1 C2].
        split; auto. split; auto. rewrite fnode_set_node_other; auto. eapply chain_mani_not_tmp; eauto. }
      apply (triple_cons (P3 (mkInode bytes 0)) (P3 (mkInode bytes (length bytes))) Post).
      { intros x (Hx & Hmx & _). eapply AN; eauto. }
      { intros x x1 (Hx & Hmx & Htx) E. apply exec_sync_inv in E. destruct E as (i & nd & Li & Ni & ->).
        assert (nd = mkInode bytes 0) by (unfold fnode in Htx; rewrite Li, Ni in Htx; now inversion Htx). subst nd.
        cbn [i_data i_dur].
        destruct (chain_set_tmp _ _ _ i _ (mkInode bytes (length bytes)) Hx Li Ni) as [C1 C2].
        split; auto. split; auto. rewrite fnode_set_node_other; auto. eapply chain_mani_not_tmp; eauto. }
      apply (triple_cons (P3 (mkInode bytes (length bytes))) Post Post).
      { intros x (Hx & Hmx & _). eapply AN; eauto. }
      { intros x x1 (Hx & Hmx & Htx) E. unfold Post. eapply (chain_rename x K S ndm x1); eauto. }
      apply triple_nil. intros x Hx. split; auto. destruct Hx as (Hx & _ & Hax). eapply any_of; eauto. }
    apply (T s). unfold P0. split; [exact Hc|split; [exact Hm|reflexivity]].
  Qed.

  (* ---------------------------------------------------------------- the three calls of _apply *)
  Lemma chain_apply3 s K e :
    chain s K false -> ascii_m s -> wf_edit e ->
    all_prefixes chain_any (apply3 crc e) s /\
    forall s', replay (apply3 crc e) s = Some s' -> chain s' K false /\ dur_m s' /\ ascii_m s'.
  Proof.
    intros Hc Ha He. unfold apply3.
    set (P0 := fun x => chain x K false /\ ascii_m x).
    set (P1 := fun x => chain x K false /\ exists i nd, lookup FMani x = Some i /\ nth_error (f_ino x) i = Some nd /\
                                                       Forall (fun b => b < 128) (i_data nd)).
    set (Post := fun x => chain x K false /\ dur_m x /\ ascii_m x).
    assert (AN1 : forall x, P1 x -> chain_any x).
    { intros x (Hx & i & nd & Li & Ni & Hasc). eapply any_of; eauto.
      eapply ascii_of_node; eauto. unfold fnode. now rewrite Li. }
    assert (T : triple P0 [COpenAppend FMani; CWrite FMani (ser_edit crc e); CFdatasync FMani] Post).
    { apply (triple_cons P0 P1 Post).
      { intros x (Hx & Hax). eapply any_of; eauto. }
      { intros x x1 (Hx & Hax) E. destruct (chain_open_mani _ _ _ Hx E) as (C1 & i & nd & Li & Ni & Hor).
        split; auto. exists i, nd. repeat split; auto.
        destruct Hor as [Hn|[_ ->]]; [now apply Hax|constructor]. }
      apply (triple_cons P1 P1 Post).
      { exact AN1. }
      { intros x x1 (Hx & i & nd & Li & Ni & Hasc) E. apply exec_write_inv in E.
        destruct E as (i' & nd' & Li' & Ni' & ->). rewrite Li in Li'. inversion Li'; subst i'.
        rewrite Ni in Ni'. inversion Ni'; subst nd'.
        destruct (chain_set_mani _ _ i nd (mkInode (i_data nd ++ ser_edit crc e) (i_dur nd)) Hx Li Ni) as [C1 C2].
        { intros Sp. apply starts_append. }
        split; auto. exists i, (mkInode (i_data nd ++ ser_edit crc e) (i_dur nd)). split; auto. split.
        - unfold fnode in C2. rewrite lookup_set_node, Li in C2. exact C2.
        - cbn [i_data]. apply Forall_app. split; auto. now apply ser_edit_ascii. }
      apply (triple_cons P1 Post Post).
      { exact AN1. }
      { intros x x1 (Hx & i & nd & Li & Ni & Hasc) E. apply exec_sync_inv in E.
        destruct E as (i' & nd' & Li' & Ni' & ->). rewrite Li in Li'. inversion Li'; subst i'.
        rewrite Ni in Ni'. inversion Ni'; subst nd'.
        destruct (chain_set_mani _ _ i nd (mkInode (i_data nd) (length (i_data nd))) Hx Li Ni) as [C1 C2].
        { intros Sp. apply starts_sync. }
        split; auto. split.
        - intros y Hy. rewrite C2 in Hy. inversion Hy. reflexivity.
        - intros y Hy. rewrite C2 in Hy. inversion Hy. exact Hasc. }
      apply triple_nil. intros x Hx. split; auto. destruct Hx as (Hx & _ & Hax). eapply any_of; eauto. }
    apply (T s). split; auto.
  Qed.

  Lemma ascii_crash s img : ascii_m s -> crash_b s img -> ascii_m img.
  Proof.
    intros Ha Hc nd Hnd. pose proof (crash_b_fnode s img FMani Hc) as Fn.
    destruct (fnode FMani s) as [x|] eqn:Ex; [|congruence].
    destruct Fn as (k & Hk & Fk). rewrite Fk in Hnd. inversion Hnd; subst nd.
    unfold cut_inode. cbn [i_data]. specialize (Ha x Ex).
    apply Forall_forall. intros b Hb. apply (proj1 (Forall_forall _ _) Ha).
    rewrite <- (firstn_skipn k (i_data x)). apply in_or_app. now left.
  Qed.

  Lemma ascii_init : ascii_m empty_fs.
  Proof. intros nd H. discriminate H. Qed.

End WithCrc.
