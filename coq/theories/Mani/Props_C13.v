(* Props_C13.v — the property theorems for C13 and nothing else.
   C13: "Manifest edits are atomic and durable; reopening replays exactly those applied."

   `crc` is crc32c (external code): an ARBITRARY function — no theorem assumes anything about it.
   `ratio` is ManifestOptions::log_rollover_ratio: arbitrary.
   Model: Mani/Model.v (format), Mani/Fs.v (file system, crash models), Mani/ModelMani.v
   (open / _apply / rollover / verify) — the code after the repairs of F13 and F14.

   The transition system `reach` (Mani/ProofsLts.v): from the empty directory, any sequence of
   open / apply e (e built through the Edit API, i.e. wf_edit) / rollover / close, and a crash at
   ANY prefix of the mutating system calls of any of these operations, or while idle — either a
   process death (nothing torn) or a power loss (crash_b: every inode keeps an arbitrary prefix
   that covers what was fdatasync'ed) — any number of times.  Ghost fields: `c_acked` the state
   after the last edit whose call returned, `c_pend` the state after the one edit that was in
   flight when the process died, `c_edits` all edits applied so far, `c_crashed`, `c_torn`. *)
From Coq Require Import NArith List Bool.
From Blue Require Import Mani.Model Mani.Fs Mani.ModelMani Mani.ProofsOrder Mani.ProofsFormat
  Mani.ProofsFs Mani.ProofsCrash Mani.ProofsLts Mani.ProofsChain Mani.ProofsChainLts Mani.ProofsVerify Mani.ProofsIter Mani.Lock Mani.ProofsLock Mani.ProofsCut.
Import ListNotations.
Open Scope N_scope.

(* ---- 1. atomic and durable under crashes (the central theorem).
   Whenever the process is down — after any history with any number of crashes at any system
   call, with any torn tails — reopening yields the state after the last acknowledged edit, or
   that state plus the ONE whole edit that was in flight; or it fails with an explicit error,
   whose class is `corruption` (or `string-disallowed`, possible only if the checksum of a torn
   line collides).  Never a panic, never an I/O error, never a state in which part of an edit is
   applied, never a lost acknowledged edit. *)
Theorem C13_crash_atomic_durable : forall crc ratio c,
  reach crc ratio c -> c_h c = None ->
  match m_open crc ratio (c_fs c, []) with
  | Ok (m, _) => m_st m = c_acked c \/ c_pend c = Some (m_st m)
  | Err x => x = ECorruption \/ x = EDisallowed
  | Panic => False
  end.
Proof.
  intros crc ratio c Hr Hh. pose proof (crash_atomic crc ratio c Hr Hh) as H.
  destruct (m_open crc ratio (c_fs c, [])) as [[m w]|x|] eqn:E; auto.
  exact (reopen_error_class crc ratio c x Hr Hh E).
Qed.

(* ---- 2. reopening replays exactly the applied edits (no crash): the in-memory state of an open
   handle, and the state a reopen yields after close, is the fold of all edits applied so far,
   through any number of rollovers and reopens. *)
Theorem C13_reopen_replays_exactly : forall crc ratio c,
  reach crc ratio c -> c_crashed c = false ->
  match c_h c with
  | Some m => m_st m = spec_state (c_edits c)
  | None => exists m w, m_open crc ratio (c_fs c, []) = Ok (m, w) /\ m_st m = spec_state (c_edits c)
  end.
Proof. exact reopen_exact. Qed.

(* ---- 3. if every crash was a process death (no torn data: crash model (a)), reopening ALWAYS
   succeeds, with the acknowledged state or the acknowledged state plus the edit in flight. *)
Theorem C13_process_death_always_reopens : forall crc ratio c,
  reach crc ratio c -> c_h c = None -> c_torn c = false ->
  exists m w, m_open crc ratio (c_fs c, []) = Ok (m, w) /\
              (m_st m = c_acked c \/ c_pend c = Some (m_st m)).
Proof. exact untorn_reopens. Qed.

(* ---- 3b. the fragments chain without gaps — after ANY history, including crashes at any system
   call, torn tails, and any number of them (F14 repaired): whenever a handle is open, the backups
   are exactly MANIFEST.1 .. MANIFEST.K with K + 1 the next index, every one of them reads back,
   and the fragment that follows it (MANIFEST.(n+1), or MANIFEST itself after MANIFEST.K) STARTS
   with the complete state at its creation: its first edit is the roll-up of the final state of
   its predecessor.  (read_first_edit / read_mani are exactly what Manifest::verify compares.) *)
Theorem C13_fragments_chain : forall crc ratio c m,
  reach crc ratio c -> c_h c = Some m ->
  exists K, m_last m = K + 1 /\
    (forall n, In n (backup_ids (f_dir (c_fs c))) <-> 1 <= n <= K) /\
    (forall n, 1 <= n <= K ->
       exists S, read_mani crc (content (FBackup n) (c_fs c)) = Ok S /\
                 (n < K -> read_first_edit crc (content (FBackup (n + 1)) (c_fs c)) = Ok (Some (rollup S))) /\
                 (n = K -> read_first_edit crc (content FMani (c_fs c)) = Ok (Some (rollup S)))).
Proof. exact fragments_chain. Qed.

(* ---- 3c. ... and Manifest::verify itself (directory listing in any order, ids.sort(), the
   prev / first-edit comparison loop) reports NOTHING on any manifest that is open, after any
   history with any crashes. *)
Theorem C13_verify_reports_nothing : forall crc ratio c m,
  reach crc ratio c -> c_h c = Some m -> verify crc (c_fs c) = Ok [].
Proof. exact verify_clean. Qed.

(* ---- 4. parse (serialise) = identity on well-formed edits: a fragment holding the text of any
   list of well-formed edits reads back as the fold of those edits. *)
Theorem C13_parse_serialize : forall crc es, Forall wf_edit es ->
  read_mani crc (Some (ser_edits crc es)) = Ok (spec_state es).
Proof. exact read_roundtrip. Qed.

(* ---- 4b. the public iterator returns exactly the edits that were written, in order, then ends. *)
Theorem C13_iterator_roundtrip : forall crc es, Forall wf_edit es ->
  iter_all crc (S (length (lines (ser_edits crc es)))) (Some (lines (ser_edits crc es))) = map IEdit es.
Proof. exact iterator_roundtrip. Qed.

(* ---- 5. truncation: a fragment cut at ANY byte reads as an error or as the state after a prefix
   of its edits — a prefix that contains every edit whose text lies completely before the cut.
   No assumption on the checksum: an edit without its separator is dropped whole, a torn line
   either fails or belongs to the dropped edit. *)
Theorem C13_truncation_prefix : forall crc es n, Forall wf_edit es ->
  (exists x, read_mani crc (Some (firstn n (ser_edits crc es))) = Err x /\ (x = ECorruption \/ x = EDisallowed)) \/
  (exists j, (j <= length es)%nat /\
             read_mani crc (Some (firstn n (ser_edits crc es))) = Ok (spec_state (firstn j es)) /\
             forall k, (k <= length es)%nat -> (length (ser_edits crc (firstn k es)) <= n)%nat -> (k <= j)%nat).
Proof. intros crc es n H. exact (trunc_all_class crc es n H). Qed.

(* ---- 5b. the same clause for a directory WITH A HISTORY (no crash before the cut): after any
   sequence of opens, edits, rollovers and closes, with the handle closed, MANIFEST holds exactly
   ser_edits (head ++ tail) where c_edits c = pre ++ tail, `pre` are the edits applied before the
   last rollover and head = [rollup (spec_state pre)] (head = [] and pre = [] if it never rolled
   over; `mdata` is MANIFEST's content, [] if absent).  Cut MANIFEST to its first n bytes, for ANY
   n, and reopen: the result is an error of class corruption / string-disallowed, or the state
   after a PREFIX OF THE APPLIED EDITS, firstn i (c_edits c) — where i covers every applied edit
   whose text lies wholly before the cut (with t = length tail and n >= the file length: i is all
   of them; with a cut inside the roll-up itself: i = 0, the empty state). *)
Theorem C13_cut_newest_file_prefix_of_applied : forall crc ratio c n,
  reach crc ratio c -> c_crashed c = false -> c_h c = None ->
  exists rolled pre tail,
    c_edits c = pre ++ tail /\ mdata (c_fs c) = ser_edits crc (head_of rolled pre ++ tail) /\
    match m_open crc ratio (cut_file FMani n (c_fs c), []) with
    | Ok (m, _) =>
        exists i, (i <= length (c_edits c))%nat /\ m_st m = spec_state (firstn i (c_edits c)) /\
          forall t, (t <= length tail)%nat ->
                    (length (ser_edits crc (head_of rolled pre ++ firstn t tail)) <= n)%nat ->
                    (length pre + t <= i)%nat
    | Err x => x = ECorruption \/ x = EDisallowed
    | Panic => False
    end.
Proof. exact cut_newest_file. Qed.

(* ---- 6. Manifest::open returns exactly what reading MANIFEST returns (the rollover it performs
   does not change the state; it never fails for file-system reasons and never panics), so 4 and 5
   are statements about open on a directory whose newest file was cut at any byte. *)
Theorem C13_open_is_read : forall crc ratio s, fs_ok s ->
  match read_mani crc (content FMani s) with
  | Ok st => exists m w, m_open crc ratio (s, []) = Ok (m, w) /\ m_st m = st
  | Err x => m_open crc ratio (s, []) = Err x
  | Panic => False
  end.
Proof. exact open_is_read. Qed.

(* ---- 7. an edit on an open handle never fails and never panics, and its in-memory effect is
   apply_edit (whatever the rollover ratio, whether or not it rolls over). *)
Theorem C13_apply_never_fails : forall crc ratio c m e,
  reach crc ratio c -> c_h c = Some m -> wf_edit e ->
  exists m' w, m_apply crc m e (c_fs c, []) = Ok (m', w) /\ m_st m' = apply_edit e (m_st m).
Proof. exact apply_never_fails. Qed.

(* ---- 8. the Edit API accepts exactly the strings the reader can take back (F13 repaired), and
   every Edit that can be built through it is well formed — so the hypotheses `wf_edit` above are
   not a restriction on callers. *)
Theorem C13_edit_api_exact : forall s,
  (check_str s = Ok s <-> wf_str s) /\
  (forall c u, check_key c = Ok u <-> wf_key c) /\
  wf_edit empty_edit /\
  (forall e e' x, wf_edit e -> edit_add e x = Ok e' -> wf_edit e') /\
  (forall e e' x, wf_edit e -> edit_rm e x = Ok e' -> wf_edit e') /\
  (forall e e' c x, wf_edit e -> edit_info e c x = Ok e' -> wf_edit e').
Proof.
  intros s. split; [split; [intros H; now apply check_str_inv in H|apply check_str_ok]|].
  split; [intros c u; split; [apply check_key_inv|destruct u; apply check_key_ok]|].
  split; [exact wf_empty_edit|].
  split; [intros e e' x H1 H2; exact (edit_add_wf e x e' H1 H2)|].
  split; [intros e e' x H1 H2; exact (edit_rm_wf e x e' H1 H2)|].
  intros e e' c x H1 H2; exact (edit_info_wf e c x e' H1 H2).
Qed.

(* ---- 9. the exclusive lock file (utilz/src/lockfile.rs; a Manifest owns a Lockfile on
   root/LOCKFILE for as long as it lives, so "at most one live Lockfile" is "at most one live
   Manifest per root", which is what lets `reach` be a single-writer transition system).
   Kernel rule modelled (POSIX): a process that closes ANY descriptor of a file loses all its
   record locks on that file.  With the table ACTIVELY_LOCKING consulted BEFORE the file is
   opened (the repaired order), for any number of processes and any interleaving of their system
   calls: a live Lockfile's process owns the kernel lock, hence two live Lockfiles are in the same
   process (where the table allows one). *)
Theorem C13_lock_exclusive : forall es p q,
  l_held (lrun TableFirst es linit) p = true -> l_held (lrun TableFirst es linit) q = true -> p = q.
Proof. exact lock_exclusive. Qed.

Theorem C13_lock_holder_owns_kernel_lock : forall es p,
  l_held (lrun TableFirst es linit) p = true -> l_owner (lrun TableFirst es linit) = Some p.
Proof. exact lock_holder_owns. Qed.

(* ... and the order matters: opening the file before consulting the table (the code before the
   repair) lets a second process in — process 0 locks, asks again (refused, but the File it opened
   and dropped released its kernel lock), process 1 locks. *)
Theorem C13_lock_open_before_table_unsound :
  exists es, l_held (lrun OpenFirst es linit) 0%nat = true /\ l_held (lrun OpenFirst es linit) 1%nat = true /\
             l_owner (lrun OpenFirst es linit) = Some 1%nat.
Proof. exact open_first_not_exclusive. Qed.

(* ---- non-vacuity: a concrete checksum, concrete well-formed edits, and a concrete reachable
   configuration in which the process died by power loss in the middle of an edit ---- *)
Definition crc_example (l : list N) : N := fold_left (fun a b => (a * 31 + b) mod 4294967311) l 7.

Definition edit_example_1 : edit := mkEdit [[116; 104; 105; 110; 103]; [120]] [] [(73, [118; 49])].
Definition edit_example_2 : edit := mkEdit [[121; 13; 122]] [[120]] [].

Example wf_edit_examples : wf_edit edit_example_1 /\ wf_edit edit_example_2.
Proof.
  split; split; simpl; repeat constructor; try (apply wf_str_of_bools; reflexivity);
    try reflexivity; try discriminate.
Qed.

Example roundtrip_example :
  read_mani crc_example (Some (ser_edits crc_example [edit_example_1; edit_example_2]))
  = Ok (mkState [[116; 104; 105; 110; 103]; [121; 13; 122]] [(73, [118; 49])]).
Proof. vm_compute. reflexivity. Qed.

(* open; apply e1; apply e2 dies by power loss after write and before sync_data with 20 bytes of
   the new edit on disk: the process is down, an edit is pending, data is torn *)
Example reachable_crash_example :
  exists c, reach crc_example 2 c /\ c_h c = None /\ c_torn c = true /\
            c_acked c = spec_state [edit_example_1] /\
            c_pend c = Some (spec_state [edit_example_1; edit_example_2]).
Proof.
  destruct wf_edit_examples as [W1 W2].
  eexists. split.
  - eapply reach_step.
    + eapply reach_step.
      * eapply reach_step; [apply reach_init|].
        eapply step_open; [reflexivity|vm_compute; reflexivity].
      * eapply step_apply; [reflexivity|exact W1|vm_compute; reflexivity].
    + eapply (step_apply_crash crc_example 2 _ _ edit_example_2 _ _ 2%nat _ true);
        [reflexivity|exact W2|vm_compute; reflexivity|vm_compute; reflexivity|].
      simpl. constructor. cbn [f_ino].
      constructor; [|constructor].
      exists 70%nat. split; [vm_compute; split; repeat constructor|reflexivity].
  - repeat split.
Qed.
