(* Wire/ModelMsg.v — executable model of the message layer:
   * buffertk/src/lib.rs StackPacker / LengthPrefixer / into_slice / to_vec as a small algebra of
     packables (`pk`) with the three things the Rust computes: pack_sz, pack into a buffer of a
     given length (which can panic), and — as the specification — the concatenated bytes;
   * a deep embedding of message shapes (what `#[derive(Message)]` accepts: structs with plain /
     Option / Vec fields of every field type incl. nested messages, enums with unit / unnamed /
     named variants, Result<T, E>) with the generic pack tree and unpack that mirror the code
     prototk_derive generates and the FieldPackHelper / FieldUnpackHelper impls of prototk.
   Definitions only. *)
From Coq Require Import NArith ZArith List Bool.
From Blue Require Import Gen.Const_Wire Wire.Model.
Import ListNotations.
Open Scope N_scope.

(* ------------------------------------------------------------------------- the packable algebra *)
Inductive pk : Type :=
| PkUnit                       (* ()                                   *)
| PkV64 (x : N)                (* v64 (also Tag, which packs its v64)  *)
| PkLe (k : nat) (x : N)       (* u32/u64/i32/i64/f32/f64: to_le_bytes *)
| PkBytes (bs : list N)        (* &[u8]: varint length, then the bytes *)
| PkSeq (a b : pk)             (* StackPacker { prefix: a, t: b }      *)
| PkLen (p : pk)               (* p.length_prefixed()                  *)
| PkSlice (p : pk).            (* p.into_slice(out): uses out[0..p.pack_sz()] *)

(* Packable::pack_sz *)
Fixpoint pk_sz (p : pk) : N :=
  match p with
  | PkUnit => 0
  | PkV64 x => v64_pack_sz x
  | PkLe k _ => N.of_nat k
  | PkBytes bs => v64_pack_sz (len bs) + len bs
  | PkSeq a b => pk_sz a + pk_sz b
  | PkLen q => v64_pack_sz (pk_sz q) + pk_sz q
  | PkSlice q => pk_sz q
  end.

(* the specification: what ends up in the buffer *)
Fixpoint pk_bytes (p : pk) : list N :=
  match p with
  | PkUnit => []
  | PkV64 x => v64_pack x
  | PkLe k x => le_bytes k x
  | PkBytes bs => v64_pack (len bs) ++ bs
  | PkSeq a b => pk_bytes a ++ pk_bytes b
  | PkLen q => v64_pack (pk_sz q) ++ pk_bytes q
  | PkSlice q => pk_bytes q
  end.

Definition zeros (n : N) : list N := repeat 0 (N.to_nat n).

(* Packable::pack(out) where out is a zeroed buffer of length n: the contents of out afterwards,
   or Panic (index out of bounds, split_at_mut past the end, copy_from_slice / assert_eq! length
   mismatch, assert!(buf.len() >= len) of into_slice) *)
Fixpoint pk_pack (p : pk) (n : N) : res (list N) :=
  match p with
  | PkUnit => Ok (zeros n)
  | PkV64 x =>                      (* writes out[0 .. pack_sz); the rest is untouched *)
      if v64_pack_sz x <=? n then Ok (v64_pack x ++ zeros (n - v64_pack_sz x)) else Panic
  | PkLe k x => if N.of_nat k =? n then Ok (le_bytes k x) else Panic
  | PkBytes bs =>
      let vsz := v64_pack_sz (len bs) in
      if vsz <=? n then                                   (* out.split_at_mut(vsz.pack_sz()) *)
        if n - vsz =? len bs then Ok (v64_pack (len bs) ++ bs) else Panic   (* copy_from_slice *)
      else Panic
  | PkSeq a b =>
      if pk_sz a <=? n then                               (* out.split_at_mut(prefix.pack_sz()) *)
        x <- pk_pack a (pk_sz a) ;; y <- pk_pack b (n - pk_sz a) ;; Ok (x ++ y)
      else Panic
  | PkLen q =>
      let vsz := v64_pack_sz (pk_sz q) in
      if vsz <=? n then y <- pk_pack q (n - vsz) ;; Ok (v64_pack (pk_sz q) ++ y) else Panic
  | PkSlice q =>
      if pk_sz q <=? n then x <- pk_pack q (pk_sz q) ;; Ok (x ++ zeros (n - pk_sz q)) else Panic
  end.

(* stack_pack(t).to_vec(): len = pack_sz(); buf = vec![0; len]; pack(&mut buf) *)
Definition to_vec (p : pk) : res (list N) := let q := PkSeq PkUnit p in pk_pack q (pk_sz q).

(* ---------------------------------------------------------------------------- message shapes *)
Inductive container : Set := CPlain | COpt | CRep.   (* F / Box<F>, Option<F>, Vec<F> *)

Inductive ty : Type :=
| TSc (s : scalar)
| TMsg (m : msg)
with msg : Type :=
| MStruct (fs : flds)
| MEnum (vs : vars)
| MResult (t e : msg)
with flds : Type :=
| FNil
| FCons (num : N) (c : container) (t : ty) (rest : flds)
with vars : Type :=
| VNil
| VUnit (num : N) (rest : vars)
| VOne (num : N) (t : ty) (rest : vars)
| VNamed (num : N) (fs : flds) (rest : vars).

(* values: integers / floats (bits) / bools as VZ, byte strings as VB, a struct as the VL of its
   field values in declaration order, Option as VL [] / VL [x], Vec as VL xs, an enum or Result
   as VV (variant index) payload (unit: VL []; named: the VL of its fields) *)
Inductive val : Type :=
| VZ (z : Z)
| VB (bs : list N)
| VL (l : list val)
| VV (k : nat) (v : val).

Definition of_sval (v : sval) : val := match v with SZ z => VZ z | SB b => VB b end.
Definition to_sval (v : val) : sval := match v with VZ z => SZ z | VB b => SB b | _ => SB [] end.
Definition is_sval (v : val) : bool := match v with VZ _ | VB _ => true | _ => false end.

Definition ty_wire (t : ty) : wiretype :=
  match t with TSc s => wire_of s | TMsg _ => WLengthDelimited end.

(* ------------------------------------------------------------------------------ packing trees *)
(* Tag as a packable: Tag::pack packs self.v64() *)
Definition PkTag (num : N) (w : wiretype) : pk := PkV64 (tag_v64 num w).

(* Packable for the field-type wrappers int32(..), fixed32(..), bytes(..), ...:
   stack_pack(v).into_slice(out) *)
Definition scalar_pk (s : scalar) (v : sval) : pk :=
  match s, v with
  | (Int32 | Int64), SZ z => PkSlice (PkSeq PkUnit (PkV64 (u64_of_int z)))
  | (UInt32 | UInt64), SZ z => PkSlice (PkSeq PkUnit (PkV64 (Z.to_N z)))
  | (SInt32 | SInt64), SZ z => PkSlice (PkSeq PkUnit (PkV64 (zigzag z)))
  | Bool_, SZ z => PkSlice (PkSeq PkUnit (PkV64 (if (z =? 0)%Z then 0 else 1)))
  | (Fixed32 | Float), SZ z => PkSlice (PkSeq PkUnit (PkLe 4 (Z.to_N z)))
  | (Fixed64 | Double), SZ z => PkSlice (PkSeq PkUnit (PkLe 8 (Z.to_N z)))
  | SFixed32, SZ z => PkSlice (PkSeq PkUnit (PkLe 4 (unsigned_of 32 z)))
  | SFixed64, SZ z => PkSlice (PkSeq PkUnit (PkLe 8 (unsigned_of 64 z)))
  | (Bytes | Bytes16 | Bytes32 | Bytes64 | String_ | StringPath), SB bs => PkSlice (PkSeq PkUnit (PkBytes bs))
  | _, _ => PkUnit
  end.

(* FieldPackHelper::field_pack for a scalar native value:
   stack_pack(tag).pack(T(x)).into_slice(out) *)
Definition scalar_field_pk (num : N) (s : scalar) (v : sval) : pk :=
  PkSlice (PkSeq (PkSeq PkUnit (PkTag num (wire_of s))) (scalar_pk s v)).

(* the derive's FieldPackHelper<message<M>> for M:
   stack_pack(tag).pack(stack_pack(self).length_prefixed()).into_slice(out) *)
Definition message_field_pk (num : N) (body : pk) : pk :=
  PkSlice (PkSeq (PkSeq PkUnit (PkTag num WLengthDelimited)) (PkLen (PkSeq PkUnit body))).

(* buffertk's Packable for Result<T, E>:
   stack_pack(v64::from(10 or 18)).pack(v64::from(x.pack_sz())).pack(x).into_slice(out) *)
Definition result_pk (tag : N) (body : pk) : pk :=
  PkSlice (PkSeq (PkSeq (PkSeq PkUnit (PkV64 tag)) (PkV64 (pk_sz body))) body).

Fixpoint msg_pk (m : msg) (v : val) : pk :=          (* Packable for M *)
  match m with
  | MStruct fs => match v with VL vs => PkSlice (flds_pk fs vs PkUnit) | _ => PkUnit end
  | MEnum vs => match v with VV k p => vars_pk vs k p | _ => PkUnit end
  | MResult t e =>
      match v with
      | VV O x => result_pk 10 (msg_pk t x)
      | VV (S O) x => result_pk 18 (msg_pk e x)
      | _ => PkUnit
      end
  end
with msgf_pk (num : N) (m : msg) (v : val) : pk :=   (* FieldPackHelper<message<M>> for M *)
  match m with
  | MStruct fs =>
      message_field_pk num (match v with VL vs => PkSlice (flds_pk fs vs PkUnit) | _ => PkUnit end)
  | MEnum vs => message_field_pk num (match v with VV k p => vars_pk vs k p | _ => PkUnit end)
  | MResult t e =>
      (* prototk's impl for Result: the Ok value is field 1, the Err value field 2 of the payload *)
      match v with
      | VV O x => message_field_pk num (msgf_pk 1 t x)
      | VV (S O) x => message_field_pk num (msgf_pk 2 e x)
      | _ => PkUnit
      end
  end
(* the chain `let pa = stack_pack(()); let pa = pa.pack(field_packer(N1, &self.f1)); ...` *)
with flds_pk (fs : flds) (vs : list val) (acc : pk) : pk :=
  match fs, vs with
  | FCons num c t rest, v :: vs' =>
      let one := fun x : val =>
        match t with
        | TSc s => scalar_field_pk num s (to_sval x)
        | TMsg m => msgf_pk num m x
        end in
      let fp :=
        match c, v with
        | CPlain, x => one x
        | COpt, VL [] => PkUnit                          (* None: packs nothing *)
        | COpt, VL (x :: _) => one x
        | CRep, VL xs =>                                 (* for f in self { ... out[..size] ... } *)
            fold_right PkSeq PkUnit (map one xs)
        | _, _ => PkUnit
        end in
      flds_pk rest vs' (PkSeq acc fp)
  | _, _ => acc
  end
with vars_pk (vs : vars) (k : nat) (p : val) : pk :=
  match vs with
  | VNil => PkUnit
  | VUnit num rest =>
      match k with
      | O => (* stack_pack(bytes::field_packer(N, &empty)).into_slice(buf) *)
          PkSlice (PkSeq PkUnit (scalar_field_pk num Bytes (SB [])))
      | S k' => vars_pk rest k' p
      end
  | VOne num t rest =>
      match k with
      | O => PkSlice (PkSeq PkUnit
               (match t with
                | TSc s => scalar_field_pk num s (to_sval p)
                | TMsg m => msgf_pk num m p
                end))
      | S k' => vars_pk rest k' p
      end
  | VNamed num fs rest =>
      match k with
      | O => (* stack_pack(Tag{N, LengthDelimited}).pack(pa.length_prefixed()).into_slice(buf) *)
          PkSlice (PkSeq (PkSeq PkUnit (PkTag num WLengthDelimited))
                         (PkLen (match p with VL ps => flds_pk fs ps PkUnit | _ => PkUnit end)))
      | S k' => vars_pk rest k' p
      end
  end.

(* what the harness observes: stack_pack(&v).to_vec() and stack_pack(&v).pack_sz() *)
Definition msg_to_vec (m : msg) (v : val) : res (list N) := to_vec (msg_pk m v).
Definition msg_pack_sz (m : msg) (v : val) : N := pk_sz (PkSeq PkUnit (msg_pk m v)).

(* ------------------------------------------------------------------------------------ defaults *)
Fixpoint msg_default (m : msg) : val :=
  match m with
  | MStruct fs => VL (flds_default fs)
  | MEnum vs =>
      (* the harness types implement Default as the first variant with a default payload *)
      match vs with
      | VNil | VUnit _ _ => VV O (VL [])
      | VOne _ t _ => VV O (match t with TSc s => of_sval (sval_default s) | TMsg m' => msg_default m' end)
      | VNamed _ fs _ => VV O (VL (flds_default fs))
      end
  | MResult t _ => VV O (msg_default t)      (* harness: Ok(T::default()) *)
  end
with flds_default (fs : flds) : list val :=
  match fs with
  | FNil => []
  | FCons _ c t rest =>
      (match c with
       | CPlain => match t with TSc s => of_sval (sval_default s) | TMsg m => msg_default m end
       | COpt | CRep => VL []
       end) :: flds_default rest
  end.

(* ----------------------------------------------------------------------------------- unpacking *)
(* FieldUnpackHelper::merge_field *)
Definition merge (c : container) (old x : val) : val :=
  match c with
  | CPlain => x                                   (* *self = proto.into() *)
  | COpt => VL [x]                                (* *self = Some(proto.into()) *)
  | CRep => match old with VL l => VL (l ++ [x]) | _ => VL [x] end   (* self.push(proto.into()) *)
  end.

(* `for (tag, field_value) in FieldIterator::new(buf, &mut error) { body }` followed by
   `if let Some(error) = error { return Err(error) }`; `step` is the body (it can return early) *)
Fixpoint field_loop (step : N -> wiretype -> list N -> list val -> res (list val))
         (fuel : nat) (buf : list N) (acc : list val) : res (list val) :=
  match fuel with
  | O => OutOfFuel
  | S f =>
      match field_next buf with
      | ItEnd => Ok acc
      | ItErr e => Err e
      | ItPanic => Panic
      | ItFuel => OutOfFuel
      | ItItem num wt fv rest =>
          acc' <- step num wt fv acc ;;
          field_loop step f rest acc'
      end
  end.

(* field_types::message<M>::unpack, given M's unpack (with the fix for F21: trailing bytes in the
   payload are a wrong-length error instead of a failed assert_eq!) *)
Definition message_unpack (U : list N -> res (val * list N)) (buf : list N) : res (val * list N) :=
  '(v, h, t) <- take_prefixed buf ;;
  '(x, empty) <- U h ;;
  match empty with
  | [] => Ok (x, t)
  | _ :: _ => Err EWrongLength
  end.

(* prototk::unpack_from: T::unpack(before), then up.advance(before.len() - after.len()) *)
Definition unpack_from {A} (U : list N -> res (A * list N)) (up : list N) : res (A * list N) :=
  '(t, after) <- U up ;;
  d <- sub64 (len up) (len after) ;;
  Ok (t, advance up d).

(* Unpacker::take *)
Definition up_take (up : list N) (by_ : N) : res (list N * list N) :=
  if len up <? by_ then Err EBufferTooShort
  else Ok (firstn (N.to_nat by_) up, skipn (N.to_nat by_) up).

(* prototk::take_length_prefixed *)
Definition take_length_prefixed (up : list N) : res (list N * list N) :=
  '(length, rem) <- v64_unpack up ;;
  if len rem <? length then Err EBufferTooShort else up_take rem length.

Definition scalar_unpack_val (s : scalar) (buf : list N) : res (val * list N) :=
  '(v, r) <- unpack_scalar s buf ;; Ok (of_sval v, r).

Fixpoint msg_unpack (m : msg) (buf : list N) : res (val * list N) :=     (* Unpackable for M *)
  match m with
  | MStruct fs =>
      acc <- field_loop (flds_merge fs) (S (length buf)) buf (flds_default fs) ;;
      Ok (VL acc, [])
  | MEnum vs =>
      '(num, wt, up) <- unpack_from tag_unpack buf ;;
      vars_unpack vs O num wt up
  | MResult t e =>
      (* buffertk: impl Unpackable for Result<T, E> *)
      '(tag, up) <- v64_unpack buf ;;
      if W32 <=? tag then Err ETagTooLarge
      else if tag =? 10 then
        '(x, up1) <- v64_unpack up ;;
        '(b, up2) <- up_take up1 x ;;
        '(tv, _) <- msg_unpack t b ;;
        Ok (VV O tv, up2)
      else if tag =? 18 then
        '(x, up1) <- v64_unpack up ;;
        '(b, up2) <- up_take up1 x ;;
        '(ev, _) <- msg_unpack e b ;;
        Ok (VV 1%nat ev, up2)
      else Err EUnknownDiscriminant
  end
(* the `match (num, tag.wire_type) { (N1, T1::WIRE_TYPE) => {...}, ..., (_, _) => {} }` of a
   struct or of a named enum variant (since the fix of the named-variant arm both skip what they
   do not know); acc holds the current values of the fields, in declaration order *)
with flds_merge (fs : flds) (num : N) (wt : wiretype) (fv : list N)
                (acc : list val) : res (list val) :=
  match fs with
  | FNil => Ok acc
  | FCons n c t rest =>
      match acc with
      | [] => Ok acc                  (* acc always has one entry per field (Proofs) *)
      | a :: acc' =>
          if (num =? n) && wt_eqb wt (ty_wire t) then
            '(x, _) <- (match t with
                        | TSc s => scalar_unpack_val s fv
                        | TMsg m => message_unpack (msg_unpack m) fv
                        end) ;;
            Ok (merge c a x :: acc')
          else
            r <- flds_merge rest num wt fv acc' ;;
            Ok (a :: r)
      end
  end
(* the enum's `match (num, wire_type) { variants..., _ => unknown_discriminant }` *)
with vars_unpack (vs : vars) (k : nat) (num : N) (wt : wiretype) (up : list N)
     : res (val * list N) :=
  match vs with
  | VNil => Err EUnknownDiscriminant
  | VUnit n rest =>
      if (num =? n) && wt_eqb wt WLengthDelimited then
        '(_, up') <- take_length_prefixed up ;;
        Ok (VV k (VL []), up')
      else vars_unpack rest (S k) num wt up
  | VOne n t rest =>
      if (num =? n) && wt_eqb wt (ty_wire t) then
        '(x, up') <- unpack_from (match t with
                                  | TSc s => scalar_unpack_val s
                                  | TMsg m => message_unpack (msg_unpack m)
                                  end) up ;;
        Ok (VV k x, up')
      else vars_unpack rest (S k) num wt up
  | VNamed n fs rest =>
      if (num =? n) && wt_eqb wt WLengthDelimited then
        '(local, up') <- take_length_prefixed up ;;
        acc <- field_loop (flds_merge fs) (S (length local)) local (flds_default fs) ;;
        Ok (VV k (VL acc), up')
      else vars_unpack rest (S k) num wt up
  end.

(* ------------------------------------------------------------------------- well-formed shapes *)
Fixpoint flds_nums (fs : flds) : list N :=
  match fs with FNil => [] | FCons n _ _ r => n :: flds_nums r end.
Fixpoint vars_nums (vs : vars) : list N :=
  match vs with
  | VNil => []
  | VUnit n r | VOne n _ r | VNamed n _ r => n :: vars_nums r
  end.
Fixpoint nodupb (l : list N) : bool :=
  match l with [] => true | x :: r => negb (existsb (N.eqb x) r) && nodupb r end.

(* what the derive macro accepts (validate_field_number) plus distinct numbers *)
Fixpoint msg_wf (m : msg) : bool :=
  match m with
  | MStruct fs => flds_wf fs && nodupb (flds_nums fs)
  | MEnum vs => vars_wf vs && nodupb (vars_nums vs) && match vs with VNil => false | _ => true end
  | MResult t e => msg_wf t && msg_wf e
  end
with flds_wf (fs : flds) : bool :=
  match fs with
  | FNil => true
  | FCons n _ t rest =>
      field_number_valid n && (match t with TSc _ => true | TMsg m => msg_wf m end) && flds_wf rest
  end
with vars_wf (vs : vars) : bool :=
  match vs with
  | VNil => true
  | VUnit n rest => field_number_valid n && vars_wf rest
  | VOne n t rest =>
      field_number_valid n && (match t with TSc _ => true | TMsg m => msg_wf m end) && vars_wf rest
  | VNamed n fs rest =>
      field_number_valid n && flds_wf fs && nodupb (flds_nums fs) && vars_wf rest
  end.

(* values a Rust value of the shape can be *)
Fixpoint val_ok (m : msg) (v : val) : bool :=
  match m with
  | MStruct fs => match v with VL vs => flds_ok fs vs | _ => false end
  | MEnum vs => match v with VV k p => vars_ok vs k p | _ => false end
  | MResult t e =>
      match v with VV O x => val_ok t x | VV (S O) x => val_ok e x | _ => false end
  end
with flds_ok (fs : flds) (vs : list val) : bool :=
  match fs, vs with
  | FNil, [] => true
  | FCons _ c t rest, v :: vs' =>
      let one := fun x : val =>
        match t with
        | TSc s => is_sval x && sval_ok s (to_sval x)
        | TMsg m => val_ok m x
        end in
      (match c, v with
       | CPlain, x => one x
       | COpt, VL [] => true
       | COpt, VL [x] => one x
       | CRep, VL xs => forallb one xs
       | _, _ => false
       end) && flds_ok rest vs'
  | _, _ => false
  end
with vars_ok (vs : vars) (k : nat) (p : val) : bool :=
  match vs with
  | VNil => false
  | VUnit _ rest => match k with O => match p with VL [] => true | _ => false end | S k' => vars_ok rest k' p end
  | VOne _ t rest =>
      match k with
      | O => match t with TSc s => is_sval p && sval_ok s (to_sval p) | TMsg m => val_ok m p end
      | S k' => vars_ok rest k' p
      end
  | VNamed _ fs rest =>
      match k with
      | O => match p with VL ps => flds_ok fs ps | _ => false end
      | S k' => vars_ok rest k' p
      end
  end.

(* every value the Rust types can hold: val_ok without the exclusion of the known class
   pathbuf-non-utf8 (sval_native instead of sval_ok); the two differ at StringPath fields only *)
Fixpoint val_native (m : msg) (v : val) : bool :=
  match m with
  | MStruct fs => match v with VL vs => flds_native fs vs | _ => false end
  | MEnum vs => match v with VV k p => vars_native vs k p | _ => false end
  | MResult t e =>
      match v with VV O x => val_native t x | VV (S O) x => val_native e x | _ => false end
  end
with flds_native (fs : flds) (vs : list val) : bool :=
  match fs, vs with
  | FNil, [] => true
  | FCons _ c t rest, v :: vs' =>
      let one := fun x : val =>
        match t with
        | TSc s => is_sval x && sval_native s (to_sval x)
        | TMsg m => val_native m x
        end in
      (match c, v with
       | CPlain, x => one x
       | COpt, VL [] => true
       | COpt, VL [x] => one x
       | CRep, VL xs => forallb one xs
       | _, _ => false
       end) && flds_native rest vs'
  | _, _ => false
  end
with vars_native (vs : vars) (k : nat) (p : val) : bool :=
  match vs with
  | VNil => false
  | VUnit _ rest => match k with O => match p with VL [] => true | _ => false end | S k' => vars_native rest k' p end
  | VOne _ t rest =>
      match k with
      | O => match t with TSc s => is_sval p && sval_native s (to_sval p) | TMsg m => val_native m p end
      | S k' => vars_native rest k' p
      end
  | VNamed _ fs rest =>
      match k with
      | O => match p with VL ps => flds_native fs ps | _ => false end
      | S k' => vars_native rest k' p
      end
  end.

(* -------------------------------------------------------------------- the cases of the harness *)
Inductive op : Type :=
| OEnc (m : msg) (v : val)        (* stack_pack(&v).to_vec(), pack_sz(), unpack of the packed bytes *)
| ODec (m : msg) (buf : list N)   (* M::unpack(buf) *)
| OV64Dec (buf : list N)
| OV64Enc (x : N)
| OTagDec (buf : list N)
| OTagEnc (num wt : N)
| OZigzag (z : Z)
| OUnzigzag (x : N)
| OScEnc (s : scalar) (v : sval)  (* a bare field type: pack, pack_sz, unpack *)
| OScDec (s : scalar) (buf : list N)
| ORepack (m : msg) (buf : list N). (* M::unpack(buf), then stack_pack(&value).to_vec() *)

Inductive out : Type :=
| RBytes (r : res (list N)) (sz : N) (rt : option (res (val * list N)))
| RVal (r : res (val * list N))
| RNum (r : res (N * list N))
| RTag (r : res (N * wiretype * list N))
| RInt (z : Z)
| RRepack (r : res (list N * list N))
| RIllTyped.

Definition wt_of_bits (b : N) : wiretype :=
  match wt_new b with Ok w => w | _ => WVarint end.

Definition run_op (o : op) : out :=
  match o with
  | OEnc m v =>
      if val_native m v then
        let r := msg_to_vec m v in
        RBytes r (msg_pack_sz m v)
               (match r with Ok bs => Some (msg_unpack m bs) | _ => None end)
      else RIllTyped
  | ODec m buf => RVal (msg_unpack m buf)
  | OV64Dec buf => RNum (v64_unpack buf)
  | OV64Enc x => RBytes (to_vec (PkV64 x)) (v64_pack_sz x) None
  | OTagDec buf => RTag (tag_unpack buf)
  | OTagEnc num wt =>
      let p := PkTag num (wt_of_bits wt) in RBytes (to_vec p) (pk_sz p) None
  | OZigzag z => RInt (Z.of_N (zigzag z))
  | OUnzigzag x => RInt (unzigzag x)
  | OScEnc s v =>
      if sval_native s v then
        let r := to_vec (scalar_pk s v) in
        RBytes r (pk_sz (scalar_pk s v))
               (match r with Ok bs => Some (scalar_unpack_val s bs) | _ => None end)
      else RIllTyped
  | OScDec s buf => RVal (scalar_unpack_val s buf)
  | ORepack m buf =>
      RRepack ('(v, rest) <- msg_unpack m buf ;; bs <- msg_to_vec m v ;; Ok (bs, rest))
  end.
