(* Extraction of the executable Wire model for the correspondence check.
   Directives in force: those of ExtrOcamlBasic only (bool, option, unit, list, prod, sumbool,
   sumor extracted to OCaml's own; N, Z, positive, nat stay inductive).  No Extract Constant of ours. *)
From Coq Require Import NArith ZArith List.
From Blue Require Import Wire.Model Wire.ModelMsg.
Require Import ExtrOcamlBasic.
Extraction Language OCaml.
Extraction "../ocaml/wire/gen_wire.ml" run_op.
