(* Wire/ProofsMsg.v — the message layer: totality of the field iterator, the packing trees field by
   field, equality with the reference encoder (standard_all) and the round trip (roundtrip_all),
   both by mutual induction over message shapes. *)
From Coq Require Import NArith ZArith List Bool Lia ZifyN ZifyNat ZifyBool.
From Blue Require Import Gen.Const_Wire Wire.Model Wire.ModelMsg Wire.Spec Wire.ProofsVarint Wire.ProofsScalar Wire.ProofsPk.
Import ListNotations.
Open Scope N_scope.
Arguments N.add : simpl never. Arguments N.sub : simpl never. Arguments N.mul : simpl never.
Arguments N.div : simpl never. Arguments N.modulo : simpl never. Arguments N.leb : simpl never.
Arguments N.ltb : simpl never. Arguments N.eqb : simpl never. Arguments N.pow : simpl never.
Arguments N.shiftl : simpl never. Arguments N.shiftr : simpl never. Arguments N.land : simpl never.
Arguments N.lor : simpl never.

(* ---------- the field iterator on arbitrary bytes *)
Lemma bytes_ok_firstn : forall n bs, bytes_ok bs -> bytes_ok (firstn n bs).
Proof. intros n bs H. rewrite <- (firstn_skipn n bs) in H. apply bytes_ok_app in H. tauto. Qed.
Lemma bytes_ok_skipn : forall n bs, bytes_ok bs -> bytes_ok (skipn n bs).
Proof. intros n bs H. rewrite <- (firstn_skipn n bs) in H. apply bytes_ok_app in H. tauto. Qed.

Lemma advance_app : forall pre suf k, len pre = k -> advance (pre ++ suf) k = suf.
Proof.
  intros pre suf k H. unfold advance. rewrite len_app. destruct (N.ltb_spec (len pre + len suf) k); [lia|].
  unfold len in H. subst k. rewrite Nat2N.id, skipn_app, skipn_all, Nat.sub_diag. reflexivity.
Qed.

Definition item_ok (buf : list N) (st : iter_step) : Prop :=
  match st with
  | ItEnd => buf = []
  | ItErr _ => buf <> []
  | ItPanic | ItFuel => False
  | ItItem num wt fv rest =>
      exists pre, buf = pre ++ rest /\ 1 <= len pre /\ bytes_ok fv /\ bytes_ok rest /\ field_number_valid num = true
  end.

Lemma field_next_total : forall buf, bytes_ok buf -> item_ok buf (field_next buf).
Proof.
  intros buf Hb. unfold field_next. destruct buf as [|b0 buf0] eqn:Ebuf; [reflexivity|]. rewrite <- Ebuf in *.
  assert (Hne : buf <> []) by (subst buf; discriminate). clear Ebuf b0 buf0.
  destruct (tag_unpack_total buf Hb) as [(f & w & pre & r & Heq & Hbuf & Hlen & Hvalid)|[e Heq]]; rewrite Heq;
    cbn [iter_of_res item_ok]; [|exact Hne].
  assert (Hbr : bytes_ok r) by (subst buf; apply bytes_ok_app in Hb; tauto).
  destruct w.
  - (* varint *)
    destruct (v64_unpack_total r Hbr) as [(x & pre2 & r2 & Heq2 & Hbuf2 & Hlen2 & Hsz2 & Hx)|Heq2]; rewrite Heq2;
      cbn [iter_of_res item_ok]; [|exact Hne].
    unfold slice_to. destruct (N.leb_spec (v64_pack_sz x) (len r)) as [Hle|Hgt].
    + cbn [iter_of_res item_ok]. exists (pre ++ pre2). split; [subst buf r; rewrite <- app_assoc; reflexivity|].
      split; [rewrite len_app; lia|]. split; [apply bytes_ok_firstn; exact Hbr|].
      split; [subst r; apply bytes_ok_app in Hbr; tauto|exact Hvalid].
    + subst r. rewrite len_app in Hgt. lia.
  - (* 64-bit *)
    destruct (N.ltb_spec (len r) 8) as [Hlt|Hge]; cbn [item_ok]; [exact Hne|].
    unfold slice_to. destruct (N.leb_spec 8 (len r)); [|lia]. cbn [iter_of_res item_ok].
    destruct (firstn_skipn_len r 8 Hge) as (h & t & Hr & Hl & _ & _).
    exists (pre ++ h). subst r. rewrite advance_app by exact Hl.
    split; [subst buf; rewrite <- app_assoc; reflexivity|]. split; [rewrite len_app; lia|].
    split; [apply bytes_ok_firstn; exact Hbr|]. split; [apply bytes_ok_app in Hbr; tauto|exact Hvalid].
  - (* length delimited *)
    destruct (v64_unpack_total r Hbr) as [(x & pre2 & r2 & Heq2 & Hbuf2 & Hlen2 & Hsz2 & Hx)|Heq2]; rewrite Heq2;
      cbn [iter_of_res item_ok]; [|exact Hne].
    destruct (N.ltb_spec (len r2) x) as [Hlt|Hge]; cbn [item_ok]; [exact Hne|].
    unfold slice_to. destruct (N.leb_spec (v64_pack_sz x + x) (len r)) as [Hle|Hgt].
    + cbn [iter_of_res item_ok].
      destruct (firstn_skipn_len r2 x Hge) as (h & t & Hr2 & Hl & _ & _).
      exists (pre ++ pre2 ++ h). subst r2. rewrite advance_app by exact Hl.
      split; [subst buf r; rewrite <- !app_assoc; reflexivity|]. split; [rewrite len_app; lia|].
      split; [apply bytes_ok_firstn; exact Hbr|].
      split; [subst r; apply bytes_ok_app in Hbr; destruct Hbr as [_ Hbr]; apply bytes_ok_app in Hbr; tauto|exact Hvalid].
    + subst r. rewrite len_app in Hgt. lia.
  - (* 32-bit *)
    destruct (N.ltb_spec (len r) 4) as [Hlt|Hge]; cbn [item_ok]; [exact Hne|].
    unfold slice_to. destruct (N.leb_spec 4 (len r)); [|lia]. cbn [iter_of_res item_ok].
    destruct (firstn_skipn_len r 4 Hge) as (h & t & Hr & Hl & _ & _).
    exists (pre ++ h). subst r. rewrite advance_app by exact Hl.
    split; [subst buf; rewrite <- app_assoc; reflexivity|]. split; [rewrite len_app; lia|].
    split; [apply bytes_ok_firstn; exact Hbr|]. split; [apply bytes_ok_app in Hbr; tauto|exact Hvalid].
Qed.

(* ---------- the field loop: fuel is irrelevant once it exceeds the buffer length *)
Lemma field_loop_fuel : forall step f f' buf acc, bytes_ok buf ->
  (length buf < f)%nat -> (length buf < f')%nat -> field_loop step f buf acc = field_loop step f' buf acc.
Proof.
  intros step f. induction f as [|f IH]; intros f' buf acc Hb Hf Hf'; [lia|].
  destruct f' as [|f']; [lia|]. cbn [field_loop].
  pose proof (field_next_total buf Hb) as Hit. destruct (field_next buf) as [|e| | |num wt fv rest]; try reflexivity.
  cbn [item_ok] in Hit. destruct Hit as (pre & Hbuf & Hpre & _ & Hrest & _).
  destruct (step num wt fv acc) as [acc'| | |]; cbn [bind]; try reflexivity.
  assert (length rest < length buf)%nat.
  { subst buf. rewrite app_length. unfold len in Hpre. lia. }
  apply IH; [exact Hrest|lia|lia].
Qed.

Definition floop (step : N -> wiretype -> list N -> list val -> res (list val)) (buf : list N) (acc : list val) :=
  field_loop step (S (length buf)) buf acc.

Lemma floop_nil : forall step acc, floop step [] acc = Ok acc.
Proof. reflexivity. Qed.

Lemma floop_item : forall step buf acc num wt fv rest, bytes_ok buf ->
  field_next buf = ItItem num wt fv rest ->
  floop step buf acc = (acc' <- step num wt fv acc ;; floop step rest acc').
Proof.
  intros step buf acc num wt fv rest Hb Hn. unfold floop at 1. cbn [field_loop]. rewrite Hn.
  destruct (step num wt fv acc) as [acc'| | |]; cbn [bind]; try reflexivity.
  pose proof (field_next_total buf Hb) as Hit. rewrite Hn in Hit. cbn [item_ok] in Hit.
  destruct Hit as (pre & Hbuf & Hpre & _ & Hrest & _).
  unfold floop. apply field_loop_fuel; [exact Hrest| |lia].
  subst buf. rewrite app_length. unfold len in Hpre. lia.
Qed.

(* ---------- the iterator on a well-formed field: tag, then a payload of the tag's wire type *)
Definition payload_ok (w : wiretype) (pay : list N) : Prop :=
  match w with
  | WVarint => exists x, x < W64 /\ pay = v64_pack x
  | WSixtyFour => len pay = 8 /\ bytes_ok pay
  | WThirtyTwo => len pay = 4 /\ bytes_ok pay
  | WLengthDelimited => exists body, pay = v64_pack (len body) ++ body /\ len body < W64 /\ bytes_ok body
  end.

Lemma v64_pack_nonempty : forall x, v64_pack x <> [].
Proof.
  intros x H. pose proof (v64_pack_len x) as Hl. rewrite H in Hl. pose proof (v64_pack_sz_pos x).
  rewrite len_nil in Hl. lia.
Qed.

Lemma field_next_field : forall num w pay rest, field_number_valid num = true -> payload_ok w pay ->
  bytes_ok rest -> field_next (tag_pack num w ++ pay ++ rest) = ItItem num w pay rest.
Proof.
  intros num w pay rest Hv Hp Hr. unfold field_next.
  destruct (tag_pack num w ++ pay ++ rest) as [|b0 l0] eqn:E.
  { apply app_eq_nil in E. destruct E as [E _]. exfalso. exact (v64_pack_nonempty _ E). }
  rewrite <- E. clear E b0 l0.
  destruct w; cbn [payload_ok] in Hp.
  - destruct Hp as (x & Hx & ->).
    rewrite tag_roundtrip by first [assumption | apply bytes_ok_app; split; [apply v64_pack_bytes_ok; exact Hx|exact Hr]].
    cbn [iter_of_res]. rewrite v64_roundtrip by assumption. cbn [iter_of_res].
    rewrite slice_to_app by apply v64_pack_len. reflexivity.
  - destruct Hp as [Hl Hb].
    rewrite tag_roundtrip by first [assumption | apply bytes_ok_app; tauto]. cbn [iter_of_res].
    rewrite len_app. destruct (N.ltb_spec (len pay + len rest) 8); [lia|].
    rewrite slice_to_app by exact Hl. cbn [iter_of_res]. rewrite advance_app by exact Hl. reflexivity.
  - destruct Hp as (body & -> & Hl & Hb).
    rewrite tag_roundtrip by first [assumption | repeat (apply bytes_ok_app; split); first [assumption | apply v64_pack_bytes_ok; exact Hl]].
    cbn [iter_of_res]. rewrite <- app_assoc.
    rewrite v64_roundtrip by first [assumption | apply bytes_ok_app; tauto]. cbn [iter_of_res].
    rewrite len_app. destruct (N.ltb_spec (len body + len rest) (len body)); [lia|].
    rewrite app_assoc. rewrite slice_to_app by (rewrite len_app, v64_pack_len; reflexivity). cbn [iter_of_res].
    rewrite advance_app by reflexivity. reflexivity.
  - destruct Hp as [Hl Hb].
    rewrite tag_roundtrip by first [assumption | apply bytes_ok_app; tauto]. cbn [iter_of_res].
    rewrite len_app. destruct (N.ltb_spec (len pay + len rest) 4); [lia|].
    rewrite slice_to_app by exact Hl. cbn [iter_of_res]. rewrite advance_app by exact Hl. reflexivity.
Qed.

Lemma payload_ok_bytes : forall w pay, payload_ok w pay -> bytes_ok pay.
Proof.
  intros w pay H. destruct w; cbn [payload_ok] in H.
  - destruct H as (x & Hx & ->). apply v64_pack_bytes_ok. exact Hx.
  - tauto.
  - destruct H as (body & -> & Hl & Hb). apply bytes_ok_app. split; [apply v64_pack_bytes_ok; exact Hl|exact Hb].
  - tauto.
Qed.

(* the payload of every scalar field type has the shape of its wire type *)
Lemma scalar_payload_ok : forall s v, sval_ok s v = true -> payload_ok (wire_of s) (pack_scalar s v).
Proof.
  intros s v H. pose proof (pack_scalar_ok s v H) as Hok.
  destruct s, v as [z|bs]; cbn [sval_ok] in H; try discriminate; ok_hyps;
    cbn [wire_of payload_ok pack_scalar] in *;
    try (split; [apply le_bytes_len'|exact Hok]);
    try (eexists; split; [|reflexivity]; try apply u64_of_int_lt; unfold W64; lia);
    try (exists bs; unfold bytes_pack; repeat split; try assumption; try (rewrite H0; reflexivity)).
  - eexists; split; [|reflexivity]. destruct (z =? 0)%Z; reflexivity.
Qed.

(* ---------- the packing trees of messages, field by field *)
Scheme ty_mut := Induction for ty Sort Prop
with msg_mut := Induction for msg Sort Prop
with flds_mut := Induction for flds Sort Prop
with vars_mut := Induction for vars Sort Prop.
Combined Scheme schema_mutind from ty_mut, msg_mut, flds_mut, vars_mut.

Definition one_pk (num : N) (t : ty) (x : val) : pk :=
  match t with TSc s => scalar_field_pk num s (to_sval x) | TMsg m => msgf_pk num m x end.
Definition fld_pk (num : N) (c : container) (t : ty) (v : val) : pk :=
  match c, v with
  | CPlain, x => one_pk num t x
  | COpt, VL [] => PkUnit
  | COpt, VL (x :: _) => one_pk num t x
  | CRep, VL xs => fold_right PkSeq PkUnit (map (one_pk num t) xs)
  | _, _ => PkUnit
  end.
Lemma flds_pk_cons : forall num c t rest v vs acc,
  flds_pk (FCons num c t rest) (v :: vs) acc = flds_pk rest vs (PkSeq acc (fld_pk num c t v)).
Proof. reflexivity. Qed.

Definition one_ok (t : ty) (x : val) : bool :=
  match t with TSc s => is_sval x && sval_ok s (to_sval x) | TMsg m => val_ok m x end.
Definition fld_ok (c : container) (t : ty) (v : val) : bool :=
  match c, v with
  | CPlain, x => one_ok t x
  | COpt, VL [] => true
  | COpt, VL [x] => one_ok t x
  | CRep, VL xs => forallb (one_ok t) xs
  | _, _ => false
  end.
Lemma flds_ok_cons : forall num c t rest v vs,
  flds_ok (FCons num c t rest) (v :: vs) = fld_ok c t v && flds_ok rest vs.
Proof. reflexivity. Qed.
Definition ty_wf (t : ty) : bool := match t with TSc _ => true | TMsg m => msg_wf m end.
Lemma flds_wf_cons : forall num c t rest,
  flds_wf (FCons num c t rest) = field_number_valid num && ty_wf t && flds_wf rest.
Proof. reflexivity. Qed.

Definition ref_one (num : N) (t : ty) (x : val) : list N :=
  match t with
  | TSc s => ref_tag num (std_wire s) ++ ref_scalar s (to_sval x)
  | TMsg m => ref_tag num 2 ++ ref_len_delimited (ref_msg m x)
  end.
Definition ref_fld (num : N) (c : container) (t : ty) (v : val) : list N :=
  match c, v with
  | CPlain, x => ref_one num t x
  | COpt, VL [] => []
  | COpt, VL (x :: _) => ref_one num t x
  | CRep, VL xs => flat_map (ref_one num t) xs
  | _, _ => []
  end.
Lemma ref_flds_cons : forall num c t rest v vs,
  ref_flds (FCons num c t rest) (v :: vs) = ref_fld num c t v ++ ref_flds rest vs.
Proof. reflexivity. Qed.

(* every u64 / usize the packer holds is below 2^64 (always true of a Rust execution) *)
Fixpoint pk_fits (p : pk) : Prop :=
  match p with
  | PkUnit | PkLe _ _ => True
  | PkV64 x => x < W64
  | PkBytes bs => len bs < W64
  | PkSeq a b => pk_fits a /\ pk_fits b
  | PkLen q => pk_sz q < W64 /\ pk_fits q
  | PkSlice q => pk_fits q
  end.

Lemma flds_pk_fits_acc : forall fs vs acc, pk_fits (flds_pk fs vs acc) -> pk_fits acc.
Proof.
  induction fs as [|num c t rest IH]; intros vs acc H.
  - destruct vs; exact H.
  - destruct vs as [|v vs]; [exact H|]. rewrite flds_pk_cons in H. apply IH in H. cbn [pk_fits] in H. tauto.
Qed.

Lemma pk_len : forall p, len (pk_bytes p) = pk_sz p.
Proof. intros p. apply pk_correct. Qed.

Lemma wire_std : forall s, wt_bits (wire_of s) = std_wire s.
Proof. destruct s; reflexivity. Qed.

Lemma scalar_pk_bytes : forall s v, pk_bytes (scalar_pk s v) = pack_scalar s v.
Proof. intros s v. destruct s, v; reflexivity. Qed.

Lemma scalar_field_bytes : forall num s v,
  pk_bytes (scalar_field_pk num s v) = tag_pack num (wire_of s) ++ pack_scalar s v.
Proof. intros. unfold scalar_field_pk. cbn [pk_bytes PkTag app]. rewrite scalar_pk_bytes. reflexivity. Qed.

Lemma message_field_bytes : forall num body,
  pk_bytes (message_field_pk num body) = tag_pack num WLengthDelimited ++ v64_pack (pk_sz body) ++ pk_bytes body.
Proof. intros. unfold message_field_pk. cbn [pk_bytes pk_sz PkTag app]. rewrite N.add_0_l. reflexivity. Qed.

Lemma message_field_fits : forall num body,
  pk_fits (message_field_pk num body) <-> tag_v64 num WLengthDelimited < W64 /\ pk_sz body < W64 /\ pk_fits body.
Proof. intros. unfold message_field_pk. cbn [pk_fits pk_sz PkTag]. rewrite N.add_0_l. tauto. Qed.

Lemma result_bytes : forall tag body,
  pk_bytes (result_pk tag body) = v64_pack tag ++ v64_pack (pk_sz body) ++ pk_bytes body.
Proof. intros. unfold result_pk. cbn [pk_bytes app]. rewrite <- app_assoc. reflexivity. Qed.

Lemma result_fits : forall tag body,
  pk_fits (result_pk tag body) <-> tag < W64 /\ pk_sz body < W64 /\ pk_fits body.
Proof. intros. unfold result_pk. cbn [pk_fits]. tauto. Qed.

Lemma scalar_field_standard : forall num s v, field_number_valid num = true -> sval_ok s v = true ->
  pk_bytes (scalar_field_pk num s v) = ref_tag num (std_wire s) ++ ref_scalar s v.
Proof.
  intros num s v Hn Hv. rewrite scalar_field_bytes, tag_pack_standard by exact Hn.
  rewrite wire_std, scalar_standard by exact Hv. reflexivity.
Qed.

Lemma message_field_standard : forall num body, field_number_valid num = true -> pk_sz body < W64 ->
  pk_bytes (message_field_pk num body) = ref_tag num 2 ++ ref_len_delimited (pk_bytes body).
Proof.
  intros num body Hn Hs. rewrite message_field_bytes, tag_pack_standard by exact Hn.
  unfold ref_len_delimited. rewrite pk_len. rewrite v64_pack_ref by exact Hs. reflexivity.
Qed.

Lemma valid_1 : field_number_valid 1 = true. Proof. reflexivity. Qed.
Lemma valid_2 : field_number_valid 2 = true. Proof. reflexivity. Qed.

(* ---------- the bytes are the standard wire encoding *)
Definition std_ty (t : ty) : Prop := forall num x, field_number_valid num = true -> ty_wf t = true ->
  one_ok t x = true -> pk_fits (one_pk num t x) -> pk_bytes (one_pk num t x) = ref_one num t x.
Definition std_msg (m : msg) : Prop := forall v, msg_wf m = true -> val_ok m v = true ->
  (pk_fits (msg_pk m v) -> pk_bytes (msg_pk m v) = ref_msg m v) /\
  (forall num, field_number_valid num = true -> pk_fits (msgf_pk num m v) ->
     pk_bytes (msgf_pk num m v) = ref_tag num 2 ++ ref_len_delimited (ref_msg m v)).
Definition std_flds (fs : flds) : Prop := forall vs acc, flds_wf fs = true -> flds_ok fs vs = true ->
  pk_fits (flds_pk fs vs acc) -> pk_bytes (flds_pk fs vs acc) = pk_bytes acc ++ ref_flds fs vs.
Definition std_vars (vs : vars) : Prop := forall k p, vars_wf vs = true -> vars_ok vs k p = true ->
  pk_fits (vars_pk vs k p) -> pk_bytes (vars_pk vs k p) = ref_vars vs k p.

Lemma rep_standard : forall num t xs, std_ty t -> field_number_valid num = true -> ty_wf t = true ->
  forallb (one_ok t) xs = true -> pk_fits (fold_right PkSeq PkUnit (map (one_pk num t) xs)) ->
  pk_bytes (fold_right PkSeq PkUnit (map (one_pk num t) xs)) = flat_map (ref_one num t) xs.
Proof.
  intros num t xs Ht Hn Hw. induction xs as [|x xs IH]; intros Hok Hf; [reflexivity|].
  cbn [map fold_right pk_bytes flat_map forallb pk_fits] in *. apply andb_true_iff in Hok. destruct Hok, Hf.
  rewrite Ht, IH by assumption. reflexivity.
Qed.

Lemma fld_standard : forall num c t v, std_ty t -> field_number_valid num = true -> ty_wf t = true ->
  fld_ok c t v = true -> pk_fits (fld_pk num c t v) -> pk_bytes (fld_pk num c t v) = ref_fld num c t v.
Proof.
  intros num c t v Ht Hn Hw Hok Hf. destruct c; cbn [fld_pk fld_ok ref_fld] in *.
  - apply Ht; assumption.
  - destruct v as [| |l|]; try discriminate. destruct l as [|x l]; [reflexivity|]. destruct l; [|discriminate].
    apply Ht; assumption.
  - destruct v as [| |l|]; try discriminate. apply rep_standard; assumption.
Qed.

Theorem standard_all :
  (forall t, std_ty t) /\ (forall m, std_msg m) /\ (forall fs, std_flds fs) /\ (forall vs, std_vars vs).
Proof.
  apply schema_mutind.
  - (* TSc *) intros s num x Hn _ Hok Hf. cbn [one_pk one_ok ref_one] in *.
    apply andb_true_iff in Hok. destruct Hok as [_ Hok]. apply scalar_field_standard; assumption.
  - (* TMsg *) intros m IH num x Hn Hw Hok Hf. cbn [one_pk one_ok ref_one ty_wf] in *.
    apply (IH x Hw Hok); assumption.
  - (* MStruct *) intros fs IH v Hw Hok. cbn [msg_wf val_ok] in *.
    apply andb_true_iff in Hw. destruct Hw as [Hw _]. destruct v as [| |vs|]; try discriminate.
    assert (Hbody : pk_fits (PkSlice (flds_pk fs vs PkUnit)) -> pk_bytes (PkSlice (flds_pk fs vs PkUnit)) = ref_flds fs vs).
    { intros Hf. cbn [pk_fits pk_bytes] in *. rewrite (IH vs PkUnit Hw Hok Hf). reflexivity. }
    split.
    + exact Hbody.
    + intros num Hn Hf. cbn [msgf_pk] in *. apply message_field_fits in Hf. destruct Hf as (_ & Hs & Hf).
      rewrite message_field_standard by assumption. rewrite (Hbody Hf). reflexivity.
  - (* MEnum *) intros vs IH v Hw Hok. cbn [msg_wf val_ok] in *.
    apply andb_true_iff in Hw. destruct Hw as [Hw _]. apply andb_true_iff in Hw. destruct Hw as [Hw _].
    destruct v as [| | |k p]; try discriminate.
    split.
    + intros Hf. cbn [msg_pk ref_msg]. apply IH; assumption.
    + intros num Hn Hf. cbn [msgf_pk ref_msg] in *. apply message_field_fits in Hf. destruct Hf as (_ & Hs & Hf).
      rewrite message_field_standard by assumption. rewrite (IH k p Hw Hok Hf). reflexivity.
  - (* MResult *) intros t IHt e IHe v Hw Hok. cbn [msg_wf val_ok] in *.
    apply andb_true_iff in Hw. destruct Hw as [Hwt Hwe].
    destruct v as [| | |k x]; try discriminate. destruct k as [|[|k]]; try discriminate.
    + destruct (IHt x Hwt Hok) as [IH1 IH2]. split.
      * intros Hf. cbn [msg_pk ref_msg] in *. apply result_fits in Hf. destruct Hf as (_ & Hs & Hf).
        rewrite result_bytes. unfold ref_len_delimited, ref_tag.
        rewrite <- (IH1 Hf). rewrite pk_len.
        rewrite (v64_pack_ref (pk_sz _)) by exact Hs.
        rewrite v64_pack_ref by reflexivity. reflexivity.
      * intros num Hn Hf. cbn [msgf_pk ref_msg] in *. apply message_field_fits in Hf. destruct Hf as (_ & Hs & Hf).
        rewrite message_field_standard by assumption. rewrite (IH2 1 valid_1 Hf). reflexivity.
    + destruct (IHe x Hwe Hok) as [IH1 IH2]. split.
      * intros Hf. cbn [msg_pk ref_msg] in *. apply result_fits in Hf. destruct Hf as (_ & Hs & Hf).
        rewrite result_bytes. unfold ref_len_delimited, ref_tag.
        rewrite <- (IH1 Hf). rewrite pk_len.
        rewrite (v64_pack_ref (pk_sz _)) by exact Hs.
        rewrite v64_pack_ref by reflexivity. reflexivity.
      * intros num Hn Hf. cbn [msgf_pk ref_msg] in *. apply message_field_fits in Hf. destruct Hf as (_ & Hs & Hf).
        rewrite message_field_standard by assumption. rewrite (IH2 2 valid_2 Hf). reflexivity.
  - (* FNil *) intros vs acc _ Hok Hf. destruct vs; [|discriminate]. cbn [flds_pk ref_flds]. rewrite app_nil_r. reflexivity.
  - (* FCons *) intros num c t IHt rest IHrest vs acc Hw Hok Hf.
    destruct vs as [|v vs]; [discriminate|]. rewrite flds_wf_cons in Hw. rewrite flds_ok_cons in Hok.
    apply andb_true_iff in Hw. destruct Hw as [Hw Hwr]. apply andb_true_iff in Hw. destruct Hw as [Hn Hwt].
    apply andb_true_iff in Hok. destruct Hok as [Hokv Hokr].
    rewrite flds_pk_cons in *. rewrite ref_flds_cons.
    rewrite (IHrest vs _ Hwr Hokr Hf). apply flds_pk_fits_acc in Hf. cbn [pk_fits pk_bytes] in *.
    rewrite fld_standard by tauto. rewrite app_assoc. reflexivity.
  - (* VNil *) intros k p _ Hok. discriminate.
  - (* VUnit *) intros num rest IH k p Hw Hok Hf. cbn [vars_wf vars_ok vars_pk ref_vars] in *.
    apply andb_true_iff in Hw. destruct Hw as [Hn Hw]. destruct k as [|k]; [|apply IH; assumption].
    cbn [pk_bytes app]. rewrite scalar_field_standard by (try assumption; reflexivity). reflexivity.
  - (* VOne *) intros num t IHt rest IH k p Hw Hok Hf. cbn [vars_wf vars_ok vars_pk ref_vars] in *.
    apply andb_true_iff in Hw. destruct Hw as [Hw Hwr]. apply andb_true_iff in Hw. destruct Hw as [Hn Hwt].
    destruct k as [|k]; [|apply IH; assumption].
    cbn [pk_bytes pk_fits app] in *. destruct Hf as [_ Hf]. apply (IHt num p Hn Hwt Hok Hf).
  - (* VNamed *) intros num fs IHfs rest IH k p Hw Hok Hf. cbn [vars_wf vars_ok vars_pk ref_vars] in *.
    apply andb_true_iff in Hw. destruct Hw as [Hw Hwr]. apply andb_true_iff in Hw. destruct Hw as [Hw _].
    apply andb_true_iff in Hw. destruct Hw as [Hn Hwf].
    destruct k as [|k]; [|apply IH; assumption].
    destruct p as [| |ps|]; try discriminate.
    cbn [pk_bytes pk_fits pk_sz PkTag app] in *. destruct Hf as [[_ Hft] [Hs Hf]].
    assert (Hb : pk_bytes (flds_pk fs ps PkUnit) = ref_flds fs ps) by (rewrite (IHfs ps PkUnit Hwf Hok Hf); reflexivity).
    assert (Hlen : len (ref_flds fs ps) = pk_sz (flds_pk fs ps PkUnit)) by (rewrite <- Hb; apply pk_len).
    rewrite Hb. change (v64_pack (tag_v64 num WLengthDelimited)) with (tag_pack num WLengthDelimited).
    rewrite tag_pack_standard by exact Hn. unfold ref_len_delimited.
    rewrite Hlen. rewrite v64_pack_ref by exact Hs. reflexivity.
Qed.

(* ---------- shapes of the bytes, field by field *)
Fixpoint fbytes (fs : flds) (vs : list val) : list N :=
  match fs, vs with
  | FCons num c t rest, v :: vs' => pk_bytes (fld_pk num c t v) ++ fbytes rest vs'
  | _, _ => []
  end.
Fixpoint ffits (fs : flds) (vs : list val) : Prop :=
  match fs, vs with
  | FCons num c t rest, v :: vs' => pk_fits (fld_pk num c t v) /\ ffits rest vs'
  | _, _ => True
  end.
Lemma flds_pk_bytes : forall fs vs acc, pk_bytes (flds_pk fs vs acc) = pk_bytes acc ++ fbytes fs vs.
Proof.
  induction fs as [|num c t rest IH]; intros vs acc.
  - destruct vs; cbn [flds_pk fbytes]; rewrite app_nil_r; reflexivity.
  - destruct vs as [|v vs]; [cbn [flds_pk fbytes]; rewrite app_nil_r; reflexivity|].
    rewrite flds_pk_cons, IH. cbn [pk_bytes fbytes]. rewrite app_assoc. reflexivity.
Qed.
Lemma flds_pk_fits : forall fs vs acc, pk_fits (flds_pk fs vs acc) <-> pk_fits acc /\ ffits fs vs.
Proof.
  induction fs as [|num c t rest IH]; intros vs acc.
  - destruct vs; cbn [flds_pk ffits]; tauto.
  - destruct vs as [|v vs]; [cbn [flds_pk ffits]; tauto|].
    rewrite flds_pk_cons, IH. cbn [pk_fits ffits]. tauto.
Qed.

Lemma tag_pack_10 : tag_pack 1 WLengthDelimited = v64_pack 10. Proof. reflexivity. Qed.
Lemma tag_pack_18 : tag_pack 2 WLengthDelimited = v64_pack 18. Proof. reflexivity. Qed.

(* FieldPackHelper<message<M>>: the tag, the length of M's own packing, M's own packing *)
Lemma msgf_shape : forall m num v, val_ok m v = true ->
  pk_bytes (msgf_pk num m v) = tag_pack num WLengthDelimited ++ v64_pack (pk_sz (msg_pk m v)) ++ pk_bytes (msg_pk m v) /\
  (pk_fits (msgf_pk num m v) -> pk_sz (msg_pk m v) < W64 /\ pk_fits (msg_pk m v)).
Proof.
  induction m as [fs|vs|t IHt e IHe]; intros num v Hok.
  - cbn [val_ok] in Hok. destruct v as [| |l|]; try discriminate. cbn [msgf_pk msg_pk].
    rewrite message_field_bytes, message_field_fits. tauto.
  - cbn [val_ok] in Hok. destruct v as [| | |k p]; try discriminate. cbn [msgf_pk msg_pk].
    rewrite message_field_bytes, message_field_fits. tauto.
  - cbn [val_ok] in Hok. destruct v as [| | |k x]; try discriminate. destruct k as [|[|k]]; try discriminate.
    + destruct (IHt 1 x Hok) as [Hb Hf]. cbn [msgf_pk msg_pk].
      rewrite message_field_bytes, message_field_fits, result_bytes, result_fits.
      assert (Hsz : pk_sz (msgf_pk 1 t x) = pk_sz (result_pk 10 (msg_pk t x))).
      { rewrite <- !pk_len. rewrite Hb, result_bytes, tag_pack_10. reflexivity. }
      split.
      * rewrite Hsz, Hb, tag_pack_10. reflexivity.
      * intros (_ & Hs & Hfit). specialize (Hf Hfit). rewrite <- Hsz. split; [exact Hs|].
        split; [reflexivity|exact Hf].
    + destruct (IHe 2 x Hok) as [Hb Hf]. cbn [msgf_pk msg_pk].
      rewrite message_field_bytes, message_field_fits, result_bytes, result_fits.
      assert (Hsz : pk_sz (msgf_pk 2 e x) = pk_sz (result_pk 18 (msg_pk e x))).
      { rewrite <- !pk_len. rewrite Hb, result_bytes, tag_pack_18. reflexivity. }
      split.
      * rewrite Hsz, Hb, tag_pack_18. reflexivity.
      * intros (_ & Hs & Hfit). specialize (Hf Hfit). rewrite <- Hsz. split; [exact Hs|].
        split; [reflexivity|exact Hf].
Qed.

(* ---------- flds as lists: append, lookup past a prefix *)
Fixpoint fapp (a b : flds) : flds :=
  match a with FNil => b | FCons n c t r => FCons n c t (fapp r b) end.
Fixpoint flen (a : flds) : nat := match a with FNil => O | FCons _ _ _ r => S (flen r) end.
Lemma fapp_snoc : forall pre n c t rest, fapp pre (FCons n c t rest) = fapp (fapp pre (FCons n c t FNil)) rest.
Proof. induction pre as [|n' c' t' r IH]; intros; cbn [fapp]; [reflexivity|]. rewrite IH. reflexivity. Qed.
Lemma flen_snoc : forall pre n c t, flen (fapp pre (FCons n c t FNil)) = S (flen pre).
Proof. induction pre as [|n' c' t' r IH]; intros; cbn [fapp flen]; [reflexivity|]. rewrite IH. reflexivity. Qed.
Lemma flds_nums_app : forall a b, flds_nums (fapp a b) = flds_nums a ++ flds_nums b.
Proof. induction a as [|n c t r IH]; intros; cbn [fapp flds_nums app]; [reflexivity|]. rewrite IH. reflexivity. Qed.

Lemma flds_merge_skip : forall pre fs num wt fv pv acc, length pv = flen pre -> ~ In num (flds_nums pre) ->
  flds_merge (fapp pre fs) num wt fv (pv ++ acc) = (r <- flds_merge fs num wt fv acc ;; Ok (pv ++ r)).
Proof.
  induction pre as [|n c t r IH]; intros fs num wt fv pv acc Hl Hn.
  - destruct pv; [|discriminate]. cbn [fapp app]. destruct (flds_merge fs num wt fv acc); reflexivity.
  - destruct pv as [|a pv]; [discriminate|]. cbn [fapp app flds_merge].
    cbn [flds_nums] in Hn. destruct (N.eqb_spec num n) as [->|Hne]; [exfalso; apply Hn; left; reflexivity|].
    cbn [andb]. rewrite IH by (try (cbn [length flen] in Hl; lia); intros Hin; apply Hn; right; exact Hin).
    destruct (flds_merge fs num wt fv acc); reflexivity.
Qed.

Lemma nodupb_spec : forall l, nodupb l = true <-> NoDup l.
Proof.
  induction l as [|x r IH]; cbn [nodupb]; [split; [constructor|reflexivity]|].
  rewrite andb_true_iff, negb_true_iff, IH. split.
  - intros [Hx Hr]. constructor; [|exact Hr]. intros Hin.
    assert (existsb (N.eqb x) r = true) by (apply existsb_exists; exists x; split; [exact Hin|apply N.eqb_refl]). congruence.
  - intros H. inversion H as [|? ? Hx Hr]; subst. split; [|exact Hr].
    destruct (existsb (N.eqb x) r) eqn:E; [|reflexivity]. apply existsb_exists in E. destruct E as (y & Hy & Heq).
    apply N.eqb_eq in Heq. subst y. contradiction.
Qed.

(* ---------- the round trip *)
Definition ty_unpack (t : ty) : list N -> res (val * list N) :=
  match t with TSc s => scalar_unpack_val s | TMsg m => message_unpack (msg_unpack m) end.
Definition dflt (c : container) (t : ty) : val :=
  match c with
  | CPlain => match t with TSc s => of_sval (sval_default s) | TMsg m => msg_default m end
  | COpt | CRep => VL []
  end.
Lemma flds_default_cons : forall n c t rest, flds_default (FCons n c t rest) = dflt c t :: flds_default rest.
Proof. intros. destruct c; reflexivity. Qed.
Lemma flds_merge_cons : forall n c t rest num wt fv a acc,
  flds_merge (FCons n c t rest) num wt fv (a :: acc) =
  if (num =? n) && wt_eqb wt (ty_wire t) then '(x, _) <- ty_unpack t fv ;; Ok (merge c a x :: acc)
  else r <- flds_merge rest num wt fv acc ;; Ok (a :: r).
Proof. intros. destruct t; reflexivity. Qed.
Definition is_struct (m : msg) : bool := match m with MStruct _ => true | _ => false end.

Lemma wt_eqb_refl : forall w, wt_eqb w w = true.
Proof. destruct w; reflexivity. Qed.
Lemma of_to_sval : forall x, is_sval x = true -> of_sval (to_sval x) = x.
Proof. destruct x; try discriminate; reflexivity. Qed.

Definition rt_ty (t : ty) : Prop := forall num x, field_number_valid num = true -> ty_wf t = true ->
  one_ok t x = true -> pk_fits (one_pk num t x) ->
  exists pay, pk_bytes (one_pk num t x) = tag_pack num (ty_wire t) ++ pay /\ payload_ok (ty_wire t) pay /\
              (forall rest, bytes_ok rest -> ty_unpack t (pay ++ rest) = Ok (x, rest)).
Definition rt_msg (m : msg) : Prop := forall v, msg_wf m = true -> val_ok m v = true -> pk_fits (msg_pk m v) ->
  bytes_ok (pk_bytes (msg_pk m v)) /\
  (forall rest, bytes_ok rest -> (is_struct m = true -> rest = []) ->
     msg_unpack m (pk_bytes (msg_pk m v) ++ rest) = Ok (v, rest)).
Definition rt_flds (fs : flds) : Prop := forall FS pre pv vs tail,
  FS = fapp pre fs -> length pv = flen pre -> NoDup (flds_nums FS) -> flds_wf fs = true ->
  flds_ok fs vs = true -> ffits fs vs -> bytes_ok tail ->
  bytes_ok (fbytes fs vs) /\
  floop (flds_merge FS) (fbytes fs vs ++ tail) (pv ++ flds_default fs) = floop (flds_merge FS) tail (pv ++ vs).
Definition rt_vars (vs : vars) : Prop := forall k0 k p rest,
  vars_wf vs = true -> NoDup (vars_nums vs) -> vars_ok vs k p = true -> pk_fits (vars_pk vs k p) -> bytes_ok rest ->
  exists num w pay, pk_bytes (vars_pk vs k p) = tag_pack num w ++ pay /\ field_number_valid num = true /\
    In num (vars_nums vs) /\ payload_ok w pay /\
    vars_unpack vs k0 num w (pay ++ rest) = Ok (VV (k0 + k) p, rest).

Lemma tag_pack_ok : forall num w, field_number_valid num = true -> bytes_ok (tag_pack num w).
Proof.
  intros num w H. destruct (valid_lt num H) as (_ & H2 & _). unfold tag_pack. apply v64_pack_bytes_ok.
  rewrite tag_v64_arith by exact H2. pose proof (wt_bits_lt8 w). unfold W64. lia.
Qed.

(* one element of a field: the loop body stores it *)
Lemma one_step : forall t, rt_ty t -> forall FS pre num c rest pv a drest x tail,
  FS = fapp pre (FCons num c t rest) -> length pv = flen pre -> NoDup (flds_nums FS) ->
  field_number_valid num = true -> ty_wf t = true -> one_ok t x = true -> pk_fits (one_pk num t x) ->
  bytes_ok tail ->
  bytes_ok (pk_bytes (one_pk num t x)) /\
  floop (flds_merge FS) (pk_bytes (one_pk num t x) ++ tail) (pv ++ a :: drest) =
  floop (flds_merge FS) tail (pv ++ merge c a x :: drest).
Proof.
  intros t Ht FS pre num c rest pv a drest x tail HFS Hl Hnd Hn Hw Hok Hf Htail.
  destruct (Ht num x Hn Hw Hok Hf) as (pay & Hb & Hp & Hu).
  pose proof (payload_ok_bytes _ _ Hp) as Hpay. pose proof (tag_pack_ok num (ty_wire t) Hn) as Htag.
  split; [rewrite Hb; apply bytes_ok_app; tauto|].
  rewrite Hb, <- app_assoc.
  rewrite (floop_item _ _ _ num (ty_wire t) pay tail).
  - assert (Hnotin : ~ In num (flds_nums pre)).
    { subst FS. rewrite flds_nums_app in Hnd. cbn [flds_nums] in Hnd. apply NoDup_remove_2 in Hnd.
      intros Hin. apply Hnd. apply in_or_app. left. exact Hin. }
    subst FS. rewrite flds_merge_skip by assumption. rewrite flds_merge_cons.
    rewrite N.eqb_refl, wt_eqb_refl. cbn [andb].
    specialize (Hu [] (Forall_nil _)). rewrite app_nil_r in Hu. rewrite Hu. reflexivity.
  - repeat (apply bytes_ok_app; split); assumption.
  - apply field_next_field; assumption.
Qed.

Lemma rep_rt : forall t, rt_ty t -> forall FS pre num rest pv drest tail,
  FS = fapp pre (FCons num CRep t rest) -> length pv = flen pre -> NoDup (flds_nums FS) ->
  field_number_valid num = true -> ty_wf t = true -> bytes_ok tail ->
  forall xs done, forallb (one_ok t) xs = true -> pk_fits (fold_right PkSeq PkUnit (map (one_pk num t) xs)) ->
  bytes_ok (pk_bytes (fold_right PkSeq PkUnit (map (one_pk num t) xs))) /\
  floop (flds_merge FS) (pk_bytes (fold_right PkSeq PkUnit (map (one_pk num t) xs)) ++ tail) (pv ++ VL done :: drest) =
  floop (flds_merge FS) tail (pv ++ VL (done ++ xs) :: drest).
Proof.
  intros t Ht FS pre num rest pv drest tail HFS Hl Hnd Hn Hw Htail.
  induction xs as [|x xs IH]; intros done Hok Hf.
  - cbn [map fold_right pk_bytes app]. rewrite app_nil_r. split; [constructor|reflexivity].
  - cbn [map fold_right pk_bytes forallb pk_fits] in *. apply andb_true_iff in Hok. destruct Hok as [Hx Hxs].
    destruct Hf as [Hfx Hfxs]. destruct (IH (done ++ [x]) Hxs Hfxs) as [Hb1 Hloop].
    assert (Htail' : bytes_ok (pk_bytes (fold_right PkSeq PkUnit (map (one_pk num t) xs)) ++ tail))
      by (apply bytes_ok_app; tauto).
    destruct (one_step t Ht FS pre num CRep rest pv (VL done) drest x _ HFS Hl Hnd Hn Hw Hx Hfx Htail') as [Hb2 Hstep].
    split; [apply bytes_ok_app; tauto|].
    rewrite <- app_assoc. rewrite Hstep. cbn [merge]. rewrite Hloop. rewrite <- app_assoc. reflexivity.
Qed.

Lemma fld_rt : forall t, rt_ty t -> forall FS pre num c rest pv drest v tail,
  FS = fapp pre (FCons num c t rest) -> length pv = flen pre -> NoDup (flds_nums FS) ->
  field_number_valid num = true -> ty_wf t = true -> fld_ok c t v = true -> pk_fits (fld_pk num c t v) ->
  bytes_ok tail ->
  bytes_ok (pk_bytes (fld_pk num c t v)) /\
  floop (flds_merge FS) (pk_bytes (fld_pk num c t v) ++ tail) (pv ++ dflt c t :: drest) =
  floop (flds_merge FS) tail (pv ++ v :: drest).
Proof.
  intros t Ht FS pre num c rest pv drest v tail HFS Hl Hnd Hn Hw Hok Hf Htail.
  destruct c; cbn [fld_ok fld_pk] in *.
  - exact (one_step t Ht FS pre num CPlain rest pv _ drest v tail HFS Hl Hnd Hn Hw Hok Hf Htail).
  - destruct v as [| |l|]; try discriminate. destruct l as [|x l].
    + cbn [pk_bytes app dflt]. split; [constructor|reflexivity].
    + destruct l; [|discriminate].
      exact (one_step t Ht FS pre num COpt rest pv _ drest x tail HFS Hl Hnd Hn Hw Hok Hf Htail).
  - destruct v as [| |l|]; try discriminate.
    exact (rep_rt t Ht FS pre num rest pv drest tail HFS Hl Hnd Hn Hw Htail l [] Hok Hf).
Qed.

Lemma up_take_app : forall h t, up_take (h ++ t) (len h) = Ok (h, t).
Proof.
  intros h t. unfold up_take. rewrite len_app. destruct (N.ltb_spec (len h + len t) (len h)); [lia|].
  unfold len. rewrite Nat2N.id, firstn_app, firstn_all, Nat.sub_diag, skipn_app, skipn_all, Nat.sub_diag.
  cbn [firstn skipn app]. rewrite app_nil_r. reflexivity.
Qed.

Lemma take_length_prefixed_roundtrip : forall body rest, len body < W64 -> bytes_ok body -> bytes_ok rest ->
  take_length_prefixed (v64_pack (len body) ++ body ++ rest) = Ok (body, rest).
Proof.
  intros body rest Hl Hb Hr. unfold take_length_prefixed.
  rewrite v64_roundtrip by first [assumption | apply bytes_ok_app; tauto]. cbn [bind].
  rewrite len_app. destruct (N.ltb_spec (len body + len rest) (len body)); [lia|]. apply up_take_app.
Qed.

Lemma unpack_from_app : forall {A} (U : list N -> res (A * list N)) pre rest (a : A),
  U (pre ++ rest) = Ok (a, rest) -> unpack_from U (pre ++ rest) = Ok (a, rest).
Proof.
  intros A U pre rest a H. unfold unpack_from. rewrite H. cbn [bind]. unfold sub64.
  rewrite len_app. destruct (N.leb_spec (len rest) (len pre + len rest)); [|lia]. cbn [bind].
  replace (len pre + len rest - len rest) with (len pre) by lia. rewrite advance_app by reflexivity. reflexivity.
Qed.

Lemma message_unpack_roundtrip : forall (U : list N -> res (val * list N)) B x rest,
  len B < W64 -> bytes_ok B -> bytes_ok rest -> U B = Ok (x, []) ->
  message_unpack U ((v64_pack (len B) ++ B) ++ rest) = Ok (x, rest).
Proof.
  intros U B x rest Hl Hb Hr HU. unfold message_unpack. rewrite <- app_assoc.
  rewrite take_prefixed_roundtrip by assumption. cbn [bind]. rewrite HU. reflexivity.
Qed.

Theorem roundtrip_all :
  (forall t, rt_ty t) /\ (forall m, rt_msg m) /\ (forall fs, rt_flds fs) /\ (forall vs, rt_vars vs).
Proof.
  apply schema_mutind.
  - (* TSc *) intros s num x Hn _ Hok _. cbn [one_ok one_pk ty_wire ty_unpack] in *.
    apply andb_true_iff in Hok. destruct Hok as [Hsv Hok].
    exists (pack_scalar s (to_sval x)). split; [apply scalar_field_bytes|]. split; [apply scalar_payload_ok; exact Hok|].
    intros rest Hr. unfold scalar_unpack_val. rewrite scalar_roundtrip by assumption. cbn [bind].
    rewrite of_to_sval by exact Hsv. reflexivity.
  - (* TMsg *) intros m IH num x Hn Hw Hok Hf. cbn [one_ok one_pk ty_wire ty_unpack ty_wf] in *.
    destruct (msgf_shape m num x Hok) as [Hb Hfit]. destruct (Hfit Hf) as [Hs Hfm].
    destruct (IH x Hw Hok Hfm) as [HB Hun]. rewrite <- pk_len in Hs.
    exists (v64_pack (len (pk_bytes (msg_pk m x))) ++ pk_bytes (msg_pk m x)).
    split; [rewrite Hb, pk_len; reflexivity|]. split.
    + cbn [payload_ok]. exists (pk_bytes (msg_pk m x)). tauto.
    + intros rest Hr. apply message_unpack_roundtrip; try assumption.
      specialize (Hun [] (Forall_nil _) (fun _ => eq_refl)). rewrite app_nil_r in Hun. exact Hun.
  - (* MStruct *) intros fs IH v Hw Hok Hf. cbn [msg_wf val_ok msg_pk] in *.
    apply andb_true_iff in Hw. destruct Hw as [Hw Hnd]. apply nodupb_spec in Hnd.
    destruct v as [| |vs|]; try discriminate. cbn [pk_fits pk_bytes] in *.
    apply flds_pk_fits in Hf. destruct Hf as [_ Hf]. rewrite flds_pk_bytes. cbn [pk_bytes app].
    destruct (IH fs FNil [] vs [] eq_refl eq_refl Hnd Hw Hok Hf (Forall_nil _)) as [HB Hloop].
    split; [exact HB|]. intros rest Hr Hs. rewrite (Hs eq_refl). cbn [msg_unpack].
    change (field_loop (flds_merge fs) (S (length (fbytes fs vs ++ []))) (fbytes fs vs ++ []) (flds_default fs))
      with (floop (flds_merge fs) (fbytes fs vs ++ []) ([] ++ flds_default fs)).
    rewrite Hloop. rewrite floop_nil. reflexivity.
  - (* MEnum *) intros vs IH v Hw Hok Hf. cbn [msg_wf val_ok msg_pk] in *.
    apply andb_true_iff in Hw. destruct Hw as [Hw _]. apply andb_true_iff in Hw. destruct Hw as [Hw Hnd].
    apply nodupb_spec in Hnd. destruct v as [| | |k p]; try discriminate.
    split.
    + destruct (IH O k p [] Hw Hnd Hok Hf (Forall_nil _)) as (num & w & pay & Hb & Hn & _ & Hp & _).
      rewrite Hb. apply bytes_ok_app. split; [apply tag_pack_ok; exact Hn|eapply payload_ok_bytes; exact Hp].
    + intros rest Hr _. destruct (IH O k p rest Hw Hnd Hok Hf Hr) as (num & w & pay & Hb & Hn & _ & Hp & Hun).
      rewrite Hb. cbn [msg_unpack]. rewrite <- app_assoc.
      rewrite (unpack_from_app tag_unpack (tag_pack num w) (pay ++ rest) (num, w)).
      * cbn [bind]. exact Hun.
      * apply tag_roundtrip; [exact Hn|]. apply bytes_ok_app. split; [eapply payload_ok_bytes; exact Hp|exact Hr].
  - (* MResult *) intros t IHt e IHe v Hw Hok Hf. cbn [msg_wf val_ok msg_pk] in *.
    apply andb_true_iff in Hw. destruct Hw as [Hwt Hwe].
    destruct v as [| | |k x]; try discriminate. destruct k as [|[|k]]; try discriminate.
    + apply result_fits in Hf. destruct Hf as (_ & Hs & Hf). destruct (IHt x Hwt Hok Hf) as [HB Hun].
      rewrite result_bytes. rewrite <- pk_len in *.
      split; [repeat (apply bytes_ok_app; split); try assumption; apply v64_pack_bytes_ok; [reflexivity|exact Hs]|].
      intros rest Hr _. cbn [msg_unpack]. rewrite <- !app_assoc.
      rewrite v64_roundtrip by first [reflexivity | repeat (apply bytes_ok_app; split); try assumption; apply v64_pack_bytes_ok; exact Hs].
      cbn [bind]. change (W32 <=? 10) with false. change (10 =? 10) with true. cbv iota.
      rewrite v64_roundtrip by first [assumption | apply bytes_ok_app; tauto]. cbn [bind].
      rewrite up_take_app. cbn [bind].
      specialize (Hun [] (Forall_nil _)). rewrite app_nil_r in Hun. rewrite Hun; [reflexivity|]. intros _. reflexivity.
    + apply result_fits in Hf. destruct Hf as (_ & Hs & Hf). destruct (IHe x Hwe Hok Hf) as [HB Hun].
      rewrite result_bytes. rewrite <- pk_len in *.
      split; [repeat (apply bytes_ok_app; split); try assumption; apply v64_pack_bytes_ok; [reflexivity|exact Hs]|].
      intros rest Hr _. cbn [msg_unpack]. rewrite <- !app_assoc.
      rewrite v64_roundtrip by first [reflexivity | repeat (apply bytes_ok_app; split); try assumption; apply v64_pack_bytes_ok; exact Hs].
      cbn [bind]. change (W32 <=? 18) with false. change (18 =? 10) with false. change (18 =? 18) with true. cbv iota.
      rewrite v64_roundtrip by first [assumption | apply bytes_ok_app; tauto]. cbn [bind].
      rewrite up_take_app. cbn [bind].
      specialize (Hun [] (Forall_nil _)). rewrite app_nil_r in Hun. rewrite Hun; [reflexivity|]. intros _. reflexivity.
  - (* FNil *) intros FS pre pv vs tail _ _ _ _ Hok _ _. destruct vs; [|discriminate].
    cbn [fbytes flds_default app]. split; [constructor|reflexivity].
  - (* FCons *) intros num c t IHt rest IHrest FS pre pv vs tail HFS Hl Hnd Hw Hok Hf Htail.
    destruct vs as [|v vs]; [discriminate|]. rewrite flds_wf_cons in Hw. rewrite flds_ok_cons in Hok.
    apply andb_true_iff in Hw. destruct Hw as [Hw Hwr]. apply andb_true_iff in Hw. destruct Hw as [Hn Hwt].
    apply andb_true_iff in Hok. destruct Hok as [Hokv Hokr]. cbn [ffits fbytes] in *. destruct Hf as [Hfv Hfr].
    rewrite flds_default_cons.
    assert (HFS' : FS = fapp (fapp pre (FCons num c t FNil)) rest) by (rewrite HFS; apply fapp_snoc).
    assert (Hl' : length (pv ++ [v]) = flen (fapp pre (FCons num c t FNil))) by (rewrite app_length, flen_snoc; cbn [length]; lia).
    destruct (IHrest FS _ (pv ++ [v]) vs tail HFS' Hl' Hnd Hwr Hokr Hfr Htail) as [HBr Hloopr].
    assert (Htail' : bytes_ok (fbytes rest vs ++ tail)) by (apply bytes_ok_app; tauto).
    destruct (fld_rt t IHt FS pre num c rest pv (flds_default rest) v _ HFS Hl Hnd Hn Hwt Hokv Hfv Htail') as [HBv Hloopv].
    split; [apply bytes_ok_app; tauto|].
    rewrite <- app_assoc. rewrite Hloopv.
    replace (pv ++ v :: flds_default rest) with ((pv ++ [v]) ++ flds_default rest) by (rewrite <- app_assoc; reflexivity).
    rewrite Hloopr. rewrite <- app_assoc. reflexivity.
  - (* VNil *) intros k0 k p rest _ _ Hok. discriminate.
  - (* VUnit *) intros num vrest IH k0 k p rest Hw Hnd Hok Hf Hr. cbn [vars_wf vars_ok vars_pk vars_nums] in *.
    apply andb_true_iff in Hw. destruct Hw as [Hn Hw]. inversion Hnd as [|? ? Hnotin Hnd']; subst.
    destruct k as [|k].
    + destruct p as [| |l|]; try discriminate. destruct l; [|discriminate].
      exists num, WLengthDelimited, (v64_pack 0 ++ []).
      split; [cbn [pk_bytes app]; rewrite scalar_field_bytes; reflexivity|]. split; [exact Hn|]. split; [left; reflexivity|].
      split; [cbn [payload_ok]; exists []; repeat split; constructor|].
      cbn [vars_unpack]. rewrite N.eqb_refl, wt_eqb_refl. cbn [andb].
      rewrite <- app_assoc. change (v64_pack 0) with (v64_pack (len (@nil N))).
      rewrite (take_length_prefixed_roundtrip [] rest) by first [reflexivity | constructor | assumption]. cbn [bind].
      rewrite Nat.add_0_r. reflexivity.
    + destruct (IH (S k0) k p rest Hw Hnd' Hok Hf Hr) as (n' & w & pay & Hb & Hn' & Hin & Hp & Hun).
      exists n', w, pay. split; [exact Hb|]. split; [exact Hn'|]. split; [right; exact Hin|]. split; [exact Hp|].
      cbn [vars_unpack]. destruct (N.eqb_spec n' num) as [->|Hne]; [contradiction|]. cbn [andb].
      rewrite Hun. rewrite Nat.add_succ_r. reflexivity.
  - (* VOne *) intros num t IHt vrest IH k0 k p rest Hw Hnd Hok Hf Hr. cbn [vars_wf vars_ok vars_pk vars_nums] in *.
    apply andb_true_iff in Hw. destruct Hw as [Hw Hwr]. apply andb_true_iff in Hw. destruct Hw as [Hn Hwt].
    inversion Hnd as [|? ? Hnotin Hnd']; subst.
    destruct k as [|k].
    + cbn [pk_fits] in Hf. destruct Hf as [_ Hf].
      destruct (IHt num p Hn Hwt Hok Hf) as (pay & Hb & Hp & Hu).
      exists num, (ty_wire t), pay. split; [cbn [pk_bytes app]; exact Hb|]. split; [exact Hn|]. split; [left; reflexivity|].
      split; [exact Hp|]. cbn [vars_unpack]. rewrite N.eqb_refl, wt_eqb_refl. cbn [andb].
      change (match t with TSc s => scalar_unpack_val s | TMsg m => message_unpack (msg_unpack m) end) with (ty_unpack t).
      rewrite (unpack_from_app (ty_unpack t) pay rest p (Hu rest Hr)). cbn [bind]. rewrite Nat.add_0_r. reflexivity.
    + destruct (IH (S k0) k p rest Hwr Hnd' Hok Hf Hr) as (n' & w & pay & Hb & Hn' & Hin & Hp & Hun).
      exists n', w, pay. split; [exact Hb|]. split; [exact Hn'|]. split; [right; exact Hin|]. split; [exact Hp|].
      cbn [vars_unpack]. destruct (N.eqb_spec n' num) as [->|Hne]; [contradiction|]. cbn [andb].
      rewrite Hun. rewrite Nat.add_succ_r. reflexivity.
  - (* VNamed *) intros num fs IHfs vrest IH k0 k p rest Hw Hnd Hok Hf Hr. cbn [vars_wf vars_ok vars_pk vars_nums] in *.
    apply andb_true_iff in Hw. destruct Hw as [Hw Hwr]. apply andb_true_iff in Hw. destruct Hw as [Hw Hndf].
    apply andb_true_iff in Hw. destruct Hw as [Hn Hwf]. apply nodupb_spec in Hndf.
    inversion Hnd as [|? ? Hnotin Hnd']; subst.
    destruct k as [|k].
    + destruct p as [| |ps|]; try discriminate.
      cbn [pk_fits pk_sz PkTag] in Hf. destruct Hf as [_ [Hs Hf]]. apply flds_pk_fits in Hf. destruct Hf as [_ Hf].
      destruct (IHfs fs FNil [] ps [] eq_refl eq_refl Hndf Hwf Hok Hf (Forall_nil _)) as [HB Hloop].
      assert (Hbytes : pk_bytes (flds_pk fs ps PkUnit) = fbytes fs ps) by (rewrite flds_pk_bytes; reflexivity).
      assert (Hlen : pk_sz (flds_pk fs ps PkUnit) = len (fbytes fs ps)) by (rewrite <- Hbytes; symmetry; apply pk_len).
      exists num, WLengthDelimited, (v64_pack (len (fbytes fs ps)) ++ fbytes fs ps).
      split; [cbn [pk_bytes pk_sz PkTag app]; rewrite Hbytes, Hlen; reflexivity|]. split; [exact Hn|]. split; [left; reflexivity|].
      rewrite Hlen in Hs.
      split; [cbn [payload_ok]; exists (fbytes fs ps); tauto|].
      cbn [vars_unpack]. rewrite N.eqb_refl, wt_eqb_refl. cbn [andb]. rewrite <- app_assoc.
      rewrite take_length_prefixed_roundtrip by assumption. cbn [bind].
      change (field_loop (flds_merge fs) (S (length (fbytes fs ps))) (fbytes fs ps) (flds_default fs))
        with (floop (flds_merge fs) (fbytes fs ps) ([] ++ flds_default fs)).
      rewrite <- (app_nil_r (fbytes fs ps)) at 1. rewrite Hloop, floop_nil. cbn [bind app]. rewrite Nat.add_0_r. reflexivity.
    + destruct (IH (S k0) k p rest Hwr Hnd' Hok Hf Hr) as (n' & w & pay & Hb & Hn' & Hin & Hp & Hun).
      exists n', w, pay. split; [exact Hb|]. split; [exact Hn'|]. split; [right; exact Hin|]. split; [exact Hp|].
      cbn [vars_unpack]. destruct (N.eqb_spec n' num) as [->|Hne]; [contradiction|]. cbn [andb].
      rewrite Hun. rewrite Nat.add_succ_r. reflexivity.
Qed.
