(* Wire/ProofsCanon.v — the reference varint of Spec.v is the canonical base-128 form *)
From Coq Require Import NArith ZArith List Bool Lia ZifyN ZifyNat ZifyBool.
From Blue Require Import Gen.Const_Wire Wire.Model Wire.Spec Wire.ProofsVarint.
Import ListNotations.
Open Scope N_scope.
Arguments N.add : simpl never. Arguments N.sub : simpl never. Arguments N.mul : simpl never.
Arguments N.div : simpl never. Arguments N.modulo : simpl never. Arguments N.leb : simpl never.
Arguments N.ltb : simpl never. Arguments N.eqb : simpl never. Arguments N.pow : simpl never.

(* the reference varint is the canonical base-128 form: continuation bit on every byte but the
   last, the groups sum to the number, no trailing zero group, at most ten bytes for 64 bits *)
Lemma ref_varint_shape : forall f x, x < 128 ^ N.of_nat (S f) ->
  exists init last, ref_varint_fuel (S f) x = init ++ [last] /\ conts init /\ last < 128 /\
    varint_value (ref_varint_fuel (S f) x) = x /\ (init <> [] -> last <> 0) /\ (length init <= f)%nat.
Proof.
  induction f as [|f IH]; intros x Hx.
  - change (128 ^ N.of_nat 1) with 128 in Hx. exists [], x. cbn [ref_varint_fuel].
    destruct (N.ltb_spec x 128); [|lia]. cbn [app varint_value length].
    repeat split; try constructor; try lia. intros Hne; contradiction.
  - change (ref_varint_fuel (S (S f)) x) with
      (if x <? 128 then [x] else (x mod 128 + 128) :: ref_varint_fuel (S f) (x / 128)).
    destruct (N.ltb_spec x 128) as [Hlt|Hge].
    + exists [], x. cbn [app varint_value length]. repeat split; try constructor; try lia. intros Hne; contradiction.
    + assert (Hq : x / 128 < 128 ^ N.of_nat (S f)) by (rewrite pow128_S in Hx; apply N.div_lt_upper_bound; lia).
      destruct (IH (x / 128) Hq) as (init & last & He & Hc & Hl & Hv & Hz & Hn).
      exists ((x mod 128 + 128) :: init), last. rewrite He. cbn [app].
      split; [reflexivity|]. split; [constructor; [|exact Hc]; lia|]. split; [exact Hl|].
      split.
      * cbn [varint_value]. rewrite <- He, Hv. pose proof (N.div_mod x 128).
        assert ((x mod 128 + 128) mod 128 = x mod 128).
        { rewrite N.add_mod by discriminate. change (128 mod 128) with 0. rewrite N.add_0_r.
          rewrite N.mod_mod by discriminate. apply N.mod_mod. discriminate. }
        lia.
      * split; [|cbn [length]; lia]. intros _ H0. subst last.
        (* last = 0 would mean x / 128 = ... with a zero top group: impossible since x / 128 > 0 *)
        destruct init as [|i init'].
        -- cbn [app] in He. rewrite He in Hv. cbn [varint_value] in Hv.
           assert (0 < x / 128) by (apply N.div_str_pos; lia). change (0 mod 128) with 0 in Hv. lia.
        -- apply Hz; [discriminate|reflexivity].
Qed.

Theorem ref_varint_canonical : forall x, x < W64 ->
  exists init last, ref_varint x = init ++ [last] /\ conts init /\ last < 128 /\
    varint_value (ref_varint x) = x /\ (init <> [] -> last <> 0) /\ (length (ref_varint x) <= 10)%nat.
Proof.
  intros x Hx. pose proof W64_lt_pow. destruct (ref_varint_shape 9 x) as (init & last & He & Hc & Hl & Hv & Hz & Hn); [lia|].
  exists init, last. unfold ref_varint. rewrite He in *. repeat split; try assumption.
  rewrite app_length. cbn [length]. lia.
Qed.
