(* Wire/Spec.v — the specification side: the protocol-buffers wire format written down
   independently of the code (from the encoding document), as the simplest recursive functions.
   Definitions only.  Shares with the model only the *types* (scalar kinds, message shapes,
   values) and the byte-level helper le_bytes. *)
From Coq Require Import NArith ZArith List Bool.
From Blue Require Import Wire.Model Wire.ModelMsg.
Import ListNotations.
Open Scope N_scope.

(* base-128 varint, least significant group first, continuation bit on every byte but the last;
   ten groups are enough for 64 bits *)
Fixpoint ref_varint_fuel (fuel : nat) (x : N) : list N :=
  match fuel with
  | O => []
  | S f => if x <? 128 then [x] else (x mod 128 + 128) :: ref_varint_fuel f (x / 128)
  end.
Definition ref_varint (x : N) : list N := ref_varint_fuel 10 x.

(* the value of a varint: sum of the 7-bit groups *)
Fixpoint varint_value (bs : list N) : N :=
  match bs with [] => 0 | b :: r => b mod 128 + 128 * varint_value r end.

(* a varint decoder that reads at most n bytes: value (not reduced) and the rest *)
Fixpoint dec_spec (n : nat) (buf : list N) : option (N * list N) :=
  match n, buf with
  | S n', b :: rest =>
      if b <? 128 then Some (b, rest)
      else match dec_spec n' rest with
           | Some (v, r) => Some (b - 128 + 128 * v, r)
           | None => None
           end
  | _, _ => None
  end.

(* wire types of the encoding document: VARINT 0, I64 1, LEN 2, I32 5 *)
Definition std_wire (s : scalar) : N :=
  match s with
  | Int32 | Int64 | UInt32 | UInt64 | SInt32 | SInt64 | Bool_ => 0
  | Fixed64 | SFixed64 | Double => 1
  | Bytes | Bytes16 | Bytes32 | Bytes64 | String_ | StringPath => 2
  | Fixed32 | SFixed32 | Float => 5
  end.

(* tag = (field_number << 3) | wire_type, as a varint *)
Definition ref_tag (num wt : N) : list N := ref_varint (num * 8 + wt).

(* ZigZag: 0 -> 0, -1 -> 1, 1 -> 2, -2 -> 3, ... *)
Definition ref_zigzag (z : Z) : N := Z.to_N (if (0 <=? z)%Z then 2 * z else - 2 * z - 1)%Z.
(* two's complement on `bits` bits *)
Definition ref_twos (bits : N) (z : Z) : N :=
  Z.to_N (if (0 <=? z)%Z then z else z + Z.of_N (2 ^ bits))%Z.

Definition ref_len_delimited (body : list N) : list N := ref_varint (len body) ++ body.

Definition ref_scalar (s : scalar) (v : sval) : list N :=
  match s, v with
  | (Int32 | Int64), SZ z => ref_varint (ref_twos 64 z)          (* negative: ten bytes *)
  | (UInt32 | UInt64), SZ z => ref_varint (Z.to_N z)
  | (SInt32 | SInt64), SZ z => ref_varint (ref_zigzag z)
  | Bool_, SZ z => ref_varint (if (z =? 0)%Z then 0 else 1)
  | (Fixed32 | Float), SZ z => le_bytes 4 (Z.to_N z)
  | (Fixed64 | Double), SZ z => le_bytes 8 (Z.to_N z)
  | SFixed32, SZ z => le_bytes 4 (ref_twos 32 z)
  | SFixed64, SZ z => le_bytes 8 (ref_twos 64 z)
  | (Bytes | Bytes16 | Bytes32 | Bytes64 | String_ | StringPath), SB bs => ref_len_delimited bs
  | _, _ => []
  end.

(* a message is the concatenation of its fields (tag, then payload) in declaration order; an
   absent optional contributes nothing, a repeated field one (tag, payload) per element; an
   embedded message is a LEN field holding its encoding; an enum value is the one field of its
   variant (unit: an empty LEN field; named: a LEN field holding the variant's fields);
   a Result is the LEN field 1 (Ok) or 2 (Err) *)
Fixpoint ref_msg (m : msg) (v : val) : list N :=
  match m with
  | MStruct fs => match v with VL vs => ref_flds fs vs | _ => [] end
  | MEnum vs => match v with VV k p => ref_vars vs k p | _ => [] end
  | MResult t e =>
      match v with
      | VV O x => ref_tag 1 2 ++ ref_len_delimited (ref_msg t x)
      | VV (S O) x => ref_tag 2 2 ++ ref_len_delimited (ref_msg e x)
      | _ => []
      end
  end
with ref_flds (fs : flds) (vs : list val) : list N :=
  match fs, vs with
  | FCons num c t rest, v :: vs' =>
      let one := fun x : val =>
        match t with
        | TSc s => ref_tag num (std_wire s) ++ ref_scalar s (to_sval x)
        | TMsg m => ref_tag num 2 ++ ref_len_delimited (ref_msg m x)
        end in
      (match c, v with
       | CPlain, x => one x
       | COpt, VL [] => []
       | COpt, VL (x :: _) => one x
       | CRep, VL xs => flat_map one xs
       | _, _ => []
       end) ++ ref_flds rest vs'
  | _, _ => []
  end
with ref_vars (vs : vars) (k : nat) (p : val) : list N :=
  match vs with
  | VNil => []
  | VUnit num rest =>
      match k with O => ref_tag num 2 ++ ref_len_delimited [] | S k' => ref_vars rest k' p end
  | VOne num t rest =>
      match k with
      | O => match t with
             | TSc s => ref_tag num (std_wire s) ++ ref_scalar s (to_sval p)
             | TMsg m => ref_tag num 2 ++ ref_len_delimited (ref_msg m p)
             end
      | S k' => ref_vars rest k' p
      end
  | VNamed num fs rest =>
      match k with
      | O => ref_tag num 2 ++ ref_len_delimited (match p with VL ps => ref_flds fs ps | _ => [] end)
      | S k' => ref_vars rest k' p
      end
  end.


(* ------------------------------------------- an older reader and a newer writer (projection) *)
(* `ext_msg m m'`: m is the reader's shape, m' the writer's.  Every field number the two structs
   share has the same container and (recursively) extending types; the writer may have any
   further fields anywhere, and may lack fields the reader has.  Enums have the same variants
   (number and kind), their payloads may extend.  `proj_msg m m' v'` is what the reader must see
   in the writer's value v': shared fields (projected recursively), its own defaults for the
   fields the writer lacks; the writer's other fields are dropped. *)
Fixpoint flds_find_ty (fs : flds) (num : N) : option (container * ty) :=
  match fs with
  | FNil => None
  | FCons n c t rest => if n =? num then Some (c, t) else flds_find_ty rest num
  end.
Fixpoint flds_find (fs : flds) (vs : list val) (num : N) : option (container * ty * val) :=
  match fs, vs with
  | FCons n c t rest, v :: vs' => if n =? num then Some (c, t, v) else flds_find rest vs' num
  | _, _ => None
  end.
Definition container_eqb (a b : container) : bool :=
  match a, b with CPlain, CPlain | COpt, COpt | CRep, CRep => true | _, _ => false end.
Definition scalar_eqb (a b : scalar) : bool :=
  match a, b with
  | Int32, Int32 | Int64, Int64 | UInt32, UInt32 | UInt64, UInt64 | SInt32, SInt32 | SInt64, SInt64
  | Fixed32, Fixed32 | Fixed64, Fixed64 | SFixed32, SFixed32 | SFixed64, SFixed64 | Float, Float
  | Double, Double | Bool_, Bool_ | Bytes, Bytes | Bytes16, Bytes16 | Bytes32, Bytes32
  | Bytes64, Bytes64 | String_, String_ | StringPath, StringPath => true
  | _, _ => false
  end.
Definition fld_default (c : container) (t : ty) : val :=
  match c with
  | CPlain => match t with TSc s => of_sval (sval_default s) | TMsg m => msg_default m end
  | COpt | CRep => VL []
  end.

Fixpoint ext_msg (m m' : msg) : bool :=
  match m, m' with
  | MStruct fs, MStruct fs' => ext_flds fs fs'
  | MEnum vs, MEnum vs' => ext_vars vs vs'
  | MResult t e, MResult t' e' => ext_msg t t' && ext_msg e e'
  | _, _ => false
  end
with ext_flds (fs fs' : flds) : bool :=
  match fs with
  | FNil => true
  | FCons n c t rest =>
      (match flds_find_ty fs' n with
       | None => true
       | Some (c', t') =>
           container_eqb c c' &&
           (match t, t' with
            | TSc s, TSc s' => scalar_eqb s s'
            | TMsg m, TMsg m' => ext_msg m m'
            | _, _ => false
            end)
       end) && ext_flds rest fs'
  end
with ext_vars (vs vs' : vars) : bool :=
  match vs, vs' with
  | VNil, VNil => true
  | VUnit n r, VUnit n' r' => (n =? n') && ext_vars r r'
  | VOne n t r, VOne n' t' r' =>
      (n =? n') &&
      (match t, t' with
       | TSc s, TSc s' => scalar_eqb s s'
       | TMsg m, TMsg m' => ext_msg m m'
       | _, _ => false
       end) && ext_vars r r'
  | VNamed n fs r, VNamed n' fs' r' => (n =? n') && ext_flds fs fs' && ext_vars r r'
  | _, _ => false
  end.

Fixpoint proj_msg (m m' : msg) (v' : val) : val :=
  match m, m', v' with
  | MStruct fs, MStruct fs', VL vs' => VL (proj_flds fs fs' vs')
  | MEnum vs, MEnum vs', VV k p => VV k (proj_vars vs vs' k p)
  | MResult t e, MResult t' e', VV O x => VV O (proj_msg t t' x)
  | MResult t e, MResult t' e', VV (S O) x => VV 1%nat (proj_msg e e' x)
  | _, _, _ => v'
  end
with proj_flds (fs fs' : flds) (vs' : list val) : list val :=
  match fs with
  | FNil => []
  | FCons n c t rest =>
      (match flds_find fs' vs' n with
       | None => fld_default c t
       | Some (_, t', v') =>
           let one := fun x : val =>
             match t, t' with TMsg m, TMsg m' => proj_msg m m' x | _, _ => x end in
           match c, v' with
           | CPlain, x => one x
           | COpt, VL [] => VL []
           | COpt, VL (x :: _) => VL [one x]
           | CRep, VL xs => VL (map one xs)
           | _, _ => v'
           end
       end) :: proj_flds rest fs' vs'
  end
with proj_vars (vs vs' : vars) (k : nat) (p : val) : val :=
  match vs, vs' with
  | VUnit _ r, VUnit _ r' => match k with O => p | S k' => proj_vars r r' k' p end
  | VOne _ t r, VOne _ t' r' =>
      match k with
      | O => match t, t' with TMsg m, TMsg m' => proj_msg m m' p | _, _ => p end
      | S k' => proj_vars r r' k' p
      end
  | VNamed _ fs r, VNamed _ fs' r' =>
      match k with
      | O => match p with VL ps => VL (proj_flds fs fs' ps) | _ => p end
      | S k' => proj_vars r r' k' p
      end
  | _, _ => p
  end.
