(* Props_C15.v — the property theorems for C15 and nothing else.
   C15: "The protobuf codec round-trips all values and decodes arbitrary bytes safely".
   Model: Wire/Model.v (varint, zig-zag, tags, field iterator, scalar field types) and
   Wire/ModelMsg.v (stack packer, message shapes, generic pack / unpack as prototk_derive generates
   them); specification: Wire/Spec.v (the wire format written down independently).
   A message shape `m` is any tree of structs / enums / Results over every field type and
   container; a value `v` with `val_ok m v` is any Rust value of that shape.  The one side
   condition `msg_pack_sz m v < 2^64` says the size fits the usize the Rust computes it in. *)
From Coq Require Import NArith ZArith List Bool.
From Blue Require Import Gen.Const_Wire Gen.Shapes_all Wire.Model Wire.ModelMsg Wire.Spec Wire.GenWT.
From Blue Require Import Wire.ProofsVarint Wire.ProofsCanon Wire.ProofsScalar Wire.ProofsPk Wire.ProofsMsg Wire.ProofsTotal Wire.ProofsExtra Wire.ProofsProj Wire.ProofsTyped Wire.ProofsRec Wire.Instances.
Import ListNotations.
Open Scope N_scope.

(* ---- messages: pack writes exactly pack_sz bytes, they are the standard wire encoding, and
        unpacking them returns the value ------------------------------------------------------- *)
Theorem C15_message_roundtrip : forall m v,
  msg_wf m = true -> val_ok m v = true -> msg_pack_sz m v < W64 ->
  msg_to_vec m v = Ok (ref_msg m v) /\
  len (ref_msg m v) = msg_pack_sz m v /\
  msg_unpack m (ref_msg m v) = Ok (v, []).
Proof.
  intros m v Hw Hok Hs. unfold msg_to_vec, msg_pack_sz in *.
  destruct (to_vec_correct (msg_pk m v)) as [Hv Hl].
  destruct fits_all as (_ & Hfits & _). destruct (Hfits m v Hw Hok) as [Hf _].
  assert (Hfit : pk_fits (msg_pk m v)) by (apply Hf; cbn [pk_sz] in Hs; exact Hs).
  destruct standard_all as (_ & Hstd & _). destruct (Hstd m v Hw Hok) as [Hb _]. specialize (Hb Hfit).
  destruct roundtrip_all as (_ & Hrt & _). destruct (Hrt m v Hw Hok Hfit) as [_ Hun].
  rewrite Hb in *. split; [exact Hv|]. split; [exact Hl|].
  specialize (Hun [] (Forall_nil _) (fun _ => eq_refl)). rewrite app_nil_r in Hun. exact Hun.
Qed.

(* an enum or a Result stops after its one field: whatever follows is handed back untouched *)
Theorem C15_enum_roundtrip_leaves_rest : forall m v rest,
  msg_wf m = true -> val_ok m v = true -> msg_pack_sz m v < W64 -> is_struct m = false -> bytes_ok rest ->
  msg_unpack m (ref_msg m v ++ rest) = Ok (v, rest).
Proof.
  intros m v rest Hw Hok Hs Hns Hr. unfold msg_pack_sz in Hs. cbn [pk_sz] in Hs.
  destruct fits_all as (_ & Hfits & _). destruct (Hfits m v Hw Hok) as [Hf _]. specialize (Hf Hs).
  destruct standard_all as (_ & Hstd & _). destruct (Hstd m v Hw Hok) as [Hb _]. specialize (Hb Hf).
  destruct roundtrip_all as (_ & Hrt & _). destruct (Hrt m v Hw Hok Hf) as [_ Hun].
  rewrite <- Hb. apply Hun; [exact Hr|]. intros H. rewrite H in Hns. discriminate.
Qed.

(* the stack packer, for every tree of packables: the size query is the length of the bytes, and
   filling a buffer of exactly that size neither panics nor leaves a byte unwritten *)
Theorem C15_pack_fills_exactly_pack_sz : forall p,
  len (pk_bytes p) = pk_sz p /\ pk_pack p (pk_sz p) = Ok (pk_bytes p) /\ to_vec p = Ok (pk_bytes p).
Proof.
  intros p. destruct (pk_correct p) as [H1 H2]. destruct (to_vec_correct p) as [H3 _]. tauto.
Qed.

(* ---- arbitrary bytes: a value and an untouched suffix, or an error; never a panic, never an
        out-of-bounds index or slice, never an overflow, never out of fuel; for EVERY shape ------- *)
Theorem C15_unpack_total : forall m buf, bytes_ok buf ->
  (exists v rest pre, msg_unpack m buf = Ok (v, rest) /\ buf = pre ++ rest) \/
  (exists e, msg_unpack m buf = Err e).
Proof.
  intros m buf Hb. destruct total_all as (_ & Ht & _).
  destruct (Ht m buf Hb) as [v r [pre Hpre]|e]; [left; exists v, r, pre; tauto|right; exists e; reflexivity].
Qed.

(* ... and the value is a value of the shape asked for, so it packs and unpacks to itself again *)
Theorem C15_unpack_returns_values_of_the_shape : forall m buf v rest,
  msg_wf m = true -> bytes_ok buf -> msg_unpack m buf = Ok (v, rest) ->
  val_ok m v = true /\
  (msg_pack_sz m v < W64 -> msg_unpack m (ref_msg m v) = Ok (v, [])).
Proof.
  intros m buf v rest Hw Hb H. destruct welltyped_all as (_ & Hwt & _). destruct (Hwt m Hw) as [_ Hok].
  specialize (Hok buf v rest Hb H). split; [exact Hok|]. intros Hs.
  apply (C15_message_roundtrip m v Hw Hok Hs).
Qed.

Theorem C15_scalar_unpack_total : forall s buf, bytes_ok buf ->
  (exists v rest pre, unpack_scalar s buf = Ok (v, rest) /\ buf = pre ++ rest /\ sval_ok s v = true) \/
  (exists e, unpack_scalar s buf = Err e).
Proof.
  intros s buf Hb. destruct (scalar_total s buf Hb) as [v pre r Hbuf Hok|e];
    [left; exists v, r, pre; tauto|right; exists e; reflexivity].
Qed.

(* ---- fields a reader does not know are skipped without disturbing the fields it does:
        a well-formed field whose (number, wire type) the struct does not know, inserted at any
        field boundary of any input, changes nothing — value or error --------------------------- *)
Theorem C15_unknown_fields_skipped : forall fs b1 num w pay b2,
  wf_fields b1 -> field_number_valid num = true -> payload_ok w pay -> flds_knows fs num w = false ->
  bytes_ok b2 ->
  msg_unpack (MStruct fs) (b1 ++ (tag_pack num w ++ pay) ++ b2) = msg_unpack (MStruct fs) (b1 ++ b2).
Proof. exact unknown_field_skipped. Qed.

(* the same at every nesting level, and for whole shapes: a reader whose shape is an older version
   of the writer's (ext_msg: shared field numbers agree in container and, recursively, in type;
   the writer has further fields anywhere, or lacks some) decodes the writer's bytes to the
   projection of the writer's value — shared fields kept, the writer's other fields dropped, the
   reader's other fields at their defaults *)
Theorem C15_older_reader_sees_projection : forall m m' v',
  ext_msg m m' = true -> msg_wf m = true -> msg_wf m' = true -> val_ok m' v' = true ->
  msg_pack_sz m' v' < W64 ->
  msg_unpack m (ref_msg m' v') = Ok (proj_msg m m' v', []).
Proof.
  intros m m' v' He Hw Hw' Hok Hs. unfold msg_pack_sz in Hs. cbn [pk_sz] in Hs.
  destruct fits_all as (_ & Hfits & _). destruct (Hfits m' v' Hw' Hok) as [Hf _]. specialize (Hf Hs).
  destruct standard_all as (_ & Hstd & _). destruct (Hstd m' v' Hw' Hok) as [Hb _]. specialize (Hb Hf).
  destruct proj_all as (_ & Hp & _).
  specialize (Hp m m' v' He Hw Hw' Hok Hf [] (Forall_nil _) (fun _ => eq_refl)).
  rewrite app_nil_r, Hb in Hp. exact Hp.
Qed.

(* ---- the messages this repository declares ---------------------------------------------------
   Gen.Shapes_all.all_shapes is regenerated by tools/shapes.py from the #[derive(Message)]
   declarations of /repo on every build (sst's table and log formats among them); every one of
   them satisfies the side conditions (valid, distinct field numbers at every level), so the
   theorems above hold of it: round trip with exact size and standard bytes, totality with
   well-typed results, and reading a newer version of itself *)
Theorem C15_declared_messages : forall m, In m all_shapes ->
  msg_wf m = true /\
  (forall v, val_ok m v = true -> msg_pack_sz m v < W64 ->
     msg_to_vec m v = Ok (ref_msg m v) /\ len (ref_msg m v) = msg_pack_sz m v /\
     msg_unpack m (ref_msg m v) = Ok (v, [])) /\
  (forall buf, bytes_ok buf ->
     (exists v rest pre, msg_unpack m buf = Ok (v, rest) /\ buf = pre ++ rest /\ val_ok m v = true) \/
     (exists e, msg_unpack m buf = Err e)) /\
  (forall m' v', ext_msg m m' = true -> msg_wf m' = true -> val_ok m' v' = true -> msg_pack_sz m' v' < W64 ->
     msg_unpack m (ref_msg m' v') = Ok (proj_msg m m' v', [])).
Proof.
  intros m Hin. split; [apply declared_wf; exact Hin|]. split; [apply declared_roundtrip; exact Hin|].
  split; [apply declared_unpack_total; exact Hin|apply declared_reads_newer; exact Hin].
Qed.

(* ---- known class pathbuf-non-utf8 (known_findings.txt) ------------------------------------------
   prototk supports PathBuf as the native type of the field type `string` (scalar StringPath):
   packing writes the path's OS bytes, unpacking goes through string::unpack, which insists on
   UTF-8.  val_native / sval_native are ALL values the Rust types hold; val_ok / sval_ok (the
   hypothesis of the theorems above) exclude exactly the class: a StringPath field whose bytes are
   not UTF-8. *)
Definition pathbuf_known (s : scalar) (v : sval) : bool := sval_native s v && negb (sval_ok s v).
Definition msg_known (m : msg) (v : val) : bool := val_native m v && negb (val_ok m v).

Theorem C15_pathbuf_class_is_narrow : forall s v, pathbuf_known s v = true ->
  s = StringPath /\ exists bs, v = SB bs /\ bytes_ok bs /\ utf8_ok bs = false.
Proof.
  intros s v H. unfold pathbuf_known in H.
  destruct s; try (cbn [sval_native] in H; destruct (sval_ok _ v); discriminate).
  destruct v as [z|bs]; [discriminate|]. split; [reflexivity|]. exists bs. split; [reflexivity|].
  cbn [sval_native sval_ok] in H. destruct (bytes_okb bs) eqn:Eb; [|discriminate].
  destruct (len bs <? W64); [|discriminate]. cbn [andb negb] in H. split; [apply bytes_okb_iff; exact Eb|].
  destruct (utf8_ok bs); [discriminate|reflexivity].
Qed.

(* struct P { #[prototk(1, string)] p: PathBuf } with p = "a\xff": packs to 0a 02 61 ff, which does
   not unpack *)
Theorem C15_pathbuf_refuted : exists m v,
  msg_wf m = true /\ val_native m v = true /\ msg_known m v = true /\
  msg_to_vec m v = Ok [10; 2; 97; 255] /\ msg_unpack m [10; 2; 97; 255] = Err EStringEncoding.
Proof.
  exists (MStruct (FCons 1 CPlain (TSc StringPath) FNil)), (VL [VB [97; 255]]). vm_compute. repeat split.
Qed.

Theorem C15_pathbuf_outside_known :
  (forall s v rest, sval_native s v = true -> pathbuf_known s v = false -> bytes_ok rest ->
     unpack_scalar s (pack_scalar s v ++ rest) = Ok (v, rest)) /\
  (forall m v, msg_wf m = true -> val_native m v = true -> msg_known m v = false -> msg_pack_sz m v < W64 ->
     msg_to_vec m v = Ok (ref_msg m v) /\ len (ref_msg m v) = msg_pack_sz m v /\
     msg_unpack m (ref_msg m v) = Ok (v, [])).
Proof.
  split.
  - intros s v rest Hn Hk Hr. unfold pathbuf_known in Hk. rewrite Hn in Hk. cbn [andb] in Hk.
    apply negb_false_iff in Hk. apply scalar_roundtrip; assumption.
  - intros m v Hw Hn Hk Hs. unfold msg_known in Hk. rewrite Hn in Hk. cbn [andb] in Hk.
    apply negb_false_iff in Hk. apply C15_message_roundtrip; assumption.
Qed.

(* ---- known class recursive-type-depth (known_findings.txt) ------------------------------------
   A message type that contains itself (struct Tree { kids: Vec<Tree>, v: u64 }) is not a shape of
   the model: the real decoder recurses once per nesting level of the INPUT and a deep input
   overflows the stack.  `tree_shape d` is the type unfolded d times, i.e. the decoder with its
   recursion cut at depth d.  _refuted: no cut suffices — for every d there is a valid encoding
   that the cut decoder does not return intact, so the needed depth grows with the input.
   _outside_known: for every shape of the model (types that do not contain themselves) the
   recursion is on the shape, and unpack never panics or runs out of fuel on any input. *)
Theorem C15_recursive_depth_refuted : forall d, msg_pack_sz (tree_shape (S d)) (nest (S d)) < W64 ->
  msg_unpack (tree_shape (S d)) (ref_msg (tree_shape (S d)) (nest (S d))) = Ok (nest (S d), []) /\
  exists cut, msg_unpack (tree_shape d) (ref_msg (tree_shape (S d)) (nest (S d))) = Ok (cut, []) /\
              cut <> nest (S d).
Proof. exact recursive_shape_depth. Qed.

Theorem C15_recursive_depth_outside_known : forall m buf, bytes_ok buf ->
  msg_unpack m buf <> Panic /\ msg_unpack m buf <> OutOfFuel.
Proof.
  intros m buf Hb. destruct (C15_unpack_total m buf Hb) as [(v & r & pre & H & _)|[e H]]; rewrite H;
    split; discriminate.
Qed.

(* ---- varints ------------------------------------------------------------------------------- *)
(* the ten-way unrolled fast path and the short-buffer slow path compute the same function: the
   protobuf varint of at most ten groups, reduced modulo 2^64 *)
Theorem C15_varint_decoders_agree : forall buf, bytes_ok buf ->
  v64_unpack buf = dec_res (dec_spec 10 buf) /\
  v64_unpack_slow buf = dec_res (dec_spec 10 buf) /\
  (10 <= len buf -> v64_unpack_fast buf = v64_unpack_slow buf).
Proof.
  intros buf Hb. split; [apply v64_unpack_spec; exact Hb|]. split; [apply v64_unpack_slow_spec; exact Hb|].
  intros Hl. apply v64_fast_eq_slow; assumption.
Qed.

Theorem C15_varint_roundtrip : forall x rest, x < W64 -> bytes_ok rest ->
  v64_pack x = ref_varint x /\ len (v64_pack x) = v64_pack_sz x /\
  v64_unpack (v64_pack x ++ rest) = Ok (x, rest).
Proof.
  intros x rest Hx Hr. split; [apply v64_pack_ref; exact Hx|]. split; [apply v64_pack_len|].
  apply v64_roundtrip; assumption.
Qed.

Theorem C15_varint_total : forall buf, bytes_ok buf ->
  (exists x pre rest, v64_unpack buf = Ok (x, rest) /\ buf = pre ++ rest /\ 1 <= len pre <= 10 /\ x < W64) \/
  v64_unpack buf = Err EVarintOverflow.
Proof.
  intros buf Hb. destruct (v64_unpack_total buf Hb) as [(x & pre & r & H1 & H2 & H3 & _ & H5)|H]; [left|right; exact H].
  exists x, pre, r. tauto.
Qed.

(* the reference encoding is the canonical varint: continuation bit on all bytes but the last,
   the 7-bit groups sum to the number, no trailing zero group, at most ten bytes *)
Theorem C15_varint_is_canonical : forall x, x < W64 ->
  exists init last, ref_varint x = init ++ [last] /\ conts init /\ last < 128 /\
    varint_value (ref_varint x) = x /\ (init <> [] -> last <> 0) /\ (length (ref_varint x) <= 10)%nat.
Proof. exact ref_varint_canonical. Qed.

(* the loops of pack / pack_sz are not cut short by the model's fuel *)
Theorem C15_varint_fuel_irrelevant : forall x k, x < W64 ->
  sz_loop (10 + k) (N.shiftr x 7) 1 = v64_pack_sz x /\
  pack_loop (10 + k) (N.shiftr x 7) (N.land x 127) = v64_pack x.
Proof.
  intros x k Hx. assert (H : N.shiftr x 7 < 128 ^ N.of_nat 10).
  { rewrite shiftr7. pose proof W64_lt_pow. apply N.div_lt_upper_bound; [discriminate|].
    eapply N.lt_trans; [exact Hx|]. eapply N.lt_le_trans; [exact H|].
    replace (128 ^ N.of_nat 10) with (1 * 128 ^ N.of_nat 10) at 1 by apply N.mul_1_l.
    apply N.mul_le_mono_r. discriminate. }
  split; [apply sz_loop_fuel; exact H|apply pack_loop_fuel; exact H].
Qed.

(* ---- zig-zag ------------------------------------------------------------------------------- *)
Theorem C15_zigzag_roundtrip :
  (forall z, i64_range z -> zigzag z = ref_zigzag z /\ unzigzag (zigzag z) = z) /\
  (forall x, x < W64 -> i64_range (unzigzag x) /\ zigzag (unzigzag x) = x).
Proof.
  split.
  - intros z Hz. split; [apply zigzag_spec; exact Hz|apply unzigzag_zigzag; exact Hz].
  - intros x Hx. split; [apply unzigzag_range; exact Hx|apply zigzag_unzigzag; exact Hx].
Qed.

(* ---- tags ---------------------------------------------------------------------------------- *)
Theorem C15_tag_roundtrip : forall f w rest, field_number_valid f = true -> bytes_ok rest ->
  tag_pack f w = ref_tag f (wt_bits w) /\ tag_unpack (tag_pack f w ++ rest) = Ok (f, w, rest).
Proof.
  intros f w rest Hf Hr. split; [apply tag_pack_standard; exact Hf|apply tag_roundtrip; assumption].
Qed.

(* every tag value: too large for u32, a field number that is zero / reserved / out of range, a
   wire type other than 0, 1, 2, 5 are rejected, in that order *)
Theorem C15_tag_rejects : forall f w rest, w < 8 -> f * 8 + w < W64 -> bytes_ok rest ->
  tag_unpack (v64_pack (f * 8 + w) ++ rest) =
  if W32 <=? f * 8 + w then Err ETagTooLarge
  else if negb (field_number_valid f) then Err EInvalidFieldNumber
  else match wt_new w with Ok wt => Ok (f, wt, rest) | _ => Err EUnhandledWireType end.
Proof. exact tag_rejects. Qed.

(* ---- every scalar field type --------------------------------------------------------------- *)
Theorem C15_scalar_roundtrip : forall s v rest, sval_ok s v = true -> bytes_ok rest ->
  pack_scalar s v = ref_scalar s v /\ len (pack_scalar s v) = pack_sz_scalar s v /\
  wt_bits (wire_of s) = std_wire s /\
  unpack_scalar s (pack_scalar s v ++ rest) = Ok (v, rest).
Proof.
  intros s v rest Hok Hr. split; [apply scalar_standard; exact Hok|]. split; [apply scalar_pack_sz; exact Hok|].
  split; [apply wire_std|apply scalar_roundtrip; assumption].
Qed.

(* ---- the tables of the model are the tables of the source, re-extracted on every run -------- *)
Theorem C15_source_tables_agree :
  (forall s, In s (map fst SRC_WIRE_OF)) /\
  forallb (fun sw => wt_eqb (wire_of (fst sw)) (snd sw)) SRC_WIRE_OF = true /\
  forallb (fun wb => wt_bits (fst wb) =? snd wb) SRC_TAG_BITS = true /\ length SRC_TAG_BITS = 4%nat /\
  forallb (fun bw => match wt_new (fst bw) with Ok w => wt_eqb w (snd bw) | _ => false end) SRC_WT_NEW = true /\
  length SRC_WT_NEW = 4%nat /\
  DERIVE_FIRST_FIELD_NUMBER = FIRST_FIELD_NUMBER /\ DERIVE_LAST_FIELD_NUMBER = LAST_FIELD_NUMBER /\
  DERIVE_FIRST_RESERVED_FIELD_NUMBER = FIRST_RESERVED_FIELD_NUMBER /\
  DERIVE_LAST_RESERVED_FIELD_NUMBER = LAST_RESERVED_FIELD_NUMBER /\
  LAST_FIELD_NUMBER = 2 ^ 29 - 1.
Proof.
  split; [exact scalars_all_listed|]. destruct source_tables_agree as (_ & H2 & H3 & H4 & H5 & H6).
  repeat split; try assumption; reflexivity.
Qed.

(* ---- non-vacuity: a concrete shape with every kind of field, a concrete value ------------------ *)
Definition ex_inner : msg :=
  MStruct (FCons 1 CPlain (TSc SInt64) (FCons 2 CPlain (TSc String_) (FCons 3 CPlain (TSc Fixed32) FNil))).
Definition ex_choice : msg :=
  MEnum (VOne 1 (TSc SInt64) (VUnit 4 (VNamed 5 (FCons 1 CPlain (TSc Int32) (FCons 2 CPlain (TSc Bytes) FNil))
        (VOne 3 (TMsg ex_inner) VNil)))).
Definition ex_outer : msg :=
  MStruct (FCons 1 CPlain (TSc Int32) (FCons 2 COpt (TMsg ex_inner) (FCons 3 CRep (TSc Float)
          (FCons 20000 CRep (TMsg ex_choice) (FCons 5 CPlain (TMsg (MResult ex_inner ex_inner)) FNil))))).
Definition ex_inner_v : val := VL [VZ (-5); VB [104; 195; 169]; VZ 7].
Definition ex_outer_v : val :=
  VL [VZ (-1); VL [ex_inner_v]; VL [VZ 1065353216; VZ 4290772992];
      VL [VV 1 (VL []); VV 2 (VL [VZ 7; VB [1; 2]]); VV 3 ex_inner_v; VV 0 (VZ (-9223372036854775808))];
      VV 1 ex_inner_v].

Example C15_example_hypotheses :
  msg_wf ex_outer = true /\ val_ok ex_outer ex_outer_v = true /\ msg_pack_sz ex_outer ex_outer_v = 102 /\
  msg_unpack ex_outer (ref_msg ex_outer ex_outer_v) = Ok (ex_outer_v, []).
Proof. vm_compute. repeat split. Qed.

(* a newer writer (more fields, a nested shape that grew as well), the older reader ex_outer *)
Definition ex_inner2 : msg :=
  MStruct (FCons 7 CPlain (TSc UInt64) (FCons 1 CPlain (TSc SInt64) (FCons 2 CPlain (TSc String_)
          (FCons 9 CRep (TSc Double) (FCons 3 CPlain (TSc Fixed32) FNil))))).
Definition ex_outer2 : msg :=
  MStruct (FCons 30 CPlain (TSc Bytes) (FCons 2 COpt (TMsg ex_inner2) (FCons 1 CPlain (TSc Int32)
          (FCons 31 CRep (TMsg ex_inner) (FCons 3 CRep (TSc Float) FNil))))).
Definition ex_outer2_v : val :=
  VL [VB [1; 2; 3]; VL [VL [VZ 99; VZ (-5); VB [104]; VL [VZ 0; VZ 1]; VZ 7]]; VZ (-1);
      VL [ex_inner_v; ex_inner_v]; VL [VZ 1065353216]].
Example C15_example_projection :
  ext_msg ex_outer ex_outer2 = true /\ msg_wf ex_outer2 = true /\ val_ok ex_outer2 ex_outer2_v = true /\
  proj_msg ex_outer ex_outer2 ex_outer2_v =
    VL [VZ (-1); VL [VL [VZ (-5); VB [104]; VZ 7]]; VL [VZ 1065353216]; VL []; VV 0 (VL [VZ 0; VB []; VZ 0])] /\
  msg_unpack ex_outer (ref_msg ex_outer2 ex_outer2_v) = Ok (proj_msg ex_outer ex_outer2 ex_outer2_v, []).
Proof. vm_compute. repeat split. Qed.

Example C15_example_recursive_depth :
  msg_pack_sz (tree_shape 4) (nest 4) = 18 /\
  msg_unpack (tree_shape 3) (ref_msg (tree_shape 4) (nest 4)) = Ok (VL [VL [VL [VL [VL [VL [VL [VZ 1]]; VZ 1]]; VZ 1]]; VZ 1], []).
Proof. vm_compute. repeat split. Qed.

(* the storage formats are among the declared messages; a concrete SST entry *)
Example C15_example_declared :
  In Shapes_sst.shape_KeyValueEntry all_shapes /\ In Shapes_sst.shape_FinalBlock all_shapes /\
  In Shapes_sst.shape_Header all_shapes /\
  ref_msg Shapes_sst.shape_KeyValueEntry (VV 0 (VL [VZ 5; VB [104; 105]; VZ 3; VB [1]])) =
    [66; 11; 8; 5; 18; 2; 104; 105; 24; 3; 34; 1; 1].
Proof. split; [exact (proj1 (proj2 (proj2 declared_nonempty)))|]. split; [exact (proj1 (proj2 (proj2 (proj2 (proj2 declared_nonempty)))))|].
  split; [exact (proj2 (proj2 (proj2 (proj2 (proj2 (proj2 (proj2 declared_nonempty)))))))|]. vm_compute. reflexivity. Qed.

(* hostile input that used to panic (F21) is an error now; a float field is wire type 5 (F11) *)
Example C15_example_hostile :
  msg_unpack ex_outer [130; 226; 9; 4; 8; 1; 16; 2] = Err EWrongLength /\
  ref_msg (MStruct (FCons 5 CPlain (TSc Float) FNil)) (VL [VZ 1065353216]) = [45; 0; 0; 128; 63] /\
  msg_to_vec (MStruct (FCons 5 CPlain (TSc Float) FNil)) (VL [VZ 1065353216]) = Ok [45; 0; 0; 128; 63].
Proof. vm_compute. repeat split. Qed.
