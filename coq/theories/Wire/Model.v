(* Wire/Model.v — executable model of buffertk/src/varint.rs, buffertk/src/lib.rs (fixed-width
   integers, byte slices), prototk/src/zigzag.rs, prototk/src/lib.rs (Tag, FieldNumber, WireType,
   FieldIterator) and prototk/src/field_types.rs (every scalar field type).
   Definitions only.  Transcribes the Rust function by function.  Bytes are N (< 256 is the
   side condition bytes_ok).  u64/u32 arithmetic is written out where the code can wrap or
   panic: shifts lose the bits shifted out (`mod 2^64`), a shift amount >= 64, an addition
   that overflows, a subtraction that underflows, an index or slice out of bounds are the explicit
   result `Panic` (the harness is built with overflow checks and debug assertions).
   Signed Rust integers are Z, unsigned ones N. *)
From Coq Require Import NArith ZArith List Bool.
From Blue Require Import Gen.Const_Wire.
Import ListNotations.
Open Scope N_scope.

(* ------------------------------------------------------------------ results and error classes *)
(* the `code` of buffertk / prototk errors (the phase and the message are not modelled) *)
Inductive err : Set :=
| EBufferTooShort | EVarintOverflow | EUnsignedOverflow | ESignedOverflow | ETagTooLarge
| EInvalidFieldNumber | EUnhandledWireType | EWrongLength | EStringEncoding | EUnknownDiscriminant.

Inductive res (A : Type) : Type :=
| Ok (a : A)
| Err (e : err)
| Panic          (* the Rust code would panic here *)
| OutOfFuel.     (* a fuelled loop of the model ran out (theorems exclude it) *)
Arguments Ok {A} a.
Arguments Err {A} e.
Arguments Panic {A}.
Arguments OutOfFuel {A}.

Definition bind {A B} (r : res A) (f : A -> res B) : res B :=
  match r with Ok a => f a | Err e => Err e | Panic => Panic | OutOfFuel => OutOfFuel end.
Notation "x <- r ;; k" := (bind r (fun x => k)) (at level 61, r at next level, right associativity).
Notation "' p <- r ;; k" := (bind r (fun x => let p := x in k))
  (at level 61, p pattern, r at next level, right associativity).

Definition bytes_ok (bs : list N) : Prop := Forall (fun b => b < 256) bs.
Definition bytes_okb (bs : list N) : bool := forallb (fun b => b <? 256) bs.

Definition W64 : N := 18446744073709551616.   (* 2^64 *)
Definition W32 : N := 4294967296.             (* 2^32 *)
Definition len (bs : list N) : N := N.of_nat (length bs).

(* buf[i]: panics when out of bounds *)
Definition get (buf : list N) (i : N) : res N :=
  match nth_error buf (N.to_nat i) with Some b => Ok b | None => Panic end.
(* &buf[i..] and &buf[..i]: panic when i > len *)
Definition slice_from (buf : list N) (i : N) : res (list N) :=
  if i <=? len buf then Ok (skipn (N.to_nat i) buf) else Panic.
Definition slice_to (buf : list N) (i : N) : res (list N) :=
  if i <=? len buf then Ok (firstn (N.to_nat i) buf) else Panic.

(* checked u64 arithmetic *)
Definition shl64 (x s : N) : res N := if s <? 64 then Ok ((N.shiftl x s) mod W64) else Panic.
Definition add64 (a b : N) : res N := if a + b <? W64 then Ok (a + b) else Panic.
Definition sub64 (a b : N) : res N := if b <=? a then Ok (a - b) else Panic.

(* ------------------------------------------------------------------------------ v64 (varint.rs) *)
(* pack_sz:  count = 1; x >>= 7; while x > 0 { x >>= 7; count += 1 }.
   Fuel 10 is more than a u64 needs (Proofs: sz_loop_fuel_irrelevant). *)
Fixpoint sz_loop (fuel : nat) (x count : N) : N :=
  match fuel with
  | O => count
  | S f => if 0 <? x then sz_loop f (N.shiftr x 7) (count + 1) else count
  end.
Definition v64_pack_sz (x : N) : N := sz_loop 10 (N.shiftr x 7) 1.

(* pack:  out[0] = x & 0x7f; x >>= 7; idx = 1;
          while x > 0 { out[idx-1] |= 128; out[idx] = x & 0x7f; idx += 1; x >>= 7 }
   `last` is out[idx-1], the byte written most recently. *)
Fixpoint pack_loop (fuel : nat) (x last : N) : list N :=
  match fuel with
  | O => [last]
  | S f => if 0 <? x then N.lor last 128 :: pack_loop f (N.shiftr x 7) (N.land x 127) else [last]
  end.
Definition v64_pack (x : N) : list N := pack_loop 10 (N.shiftr x 7) (N.land x 127).

(* unpack_slow: bytes = min(len, 10);
     while idx + 1 < bytes && buf[idx] & 128 != 0 { ret |= (buf[idx] & 127) << shl; idx += 1; shl += 7 }
     if !buf.is_empty() && buf[idx] & 128 == 0 { ret |= (buf[idx] & 127) << shl; idx += 1; Ok((ret, &buf[idx..])) }
     else Err(varint_overflow) *)
Fixpoint slow_loop (fuel : nat) (buf : list N) (bytes idx ret shl : N) : res (N * N * N) :=
  match fuel with
  | O => OutOfFuel
  | S f =>
      if idx + 1 <? bytes then
        b <- get buf idx ;;
        if negb (N.land b 128 =? 0) then
          t <- shl64 (N.land b 127) shl ;;
          slow_loop f buf bytes (idx + 1) (N.lor ret t) (shl + 7)
        else Ok (idx, ret, shl)
      else Ok (idx, ret, shl)
  end.

Definition v64_unpack_slow (buf : list N) : res (N * list N) :=
  let bytes := if len buf <? 10 then len buf else 10 in
  '(idx, ret, shl) <- slow_loop 11 buf bytes 0 0 0 ;;
  match buf with
  | [] => Err EVarintOverflow
  | _ :: _ =>
      b <- get buf idx ;;
      if N.land b 128 =? 0 then
        t <- shl64 (N.land b 127) shl ;;
        rest <- slice_from buf (idx + 1) ;;
        Ok (N.lor ret t, rest)
      else Err EVarintOverflow
  end.

(* unpack_size::<SZ>:
     result = (buf[SZ-1] as u64) << (7 * (SZ-1)); offset = 0;
     for b in buf.iter().take(SZ-1) { result += (b as u64 - 0x80) << offset; offset += 7 }
     Ok((result, &buf[SZ..])) *)
Fixpoint size_loop (bs : list N) (result offset : N) : res N :=
  match bs with
  | [] => Ok result
  | b :: bs' =>
      d <- sub64 b 128 ;;
      t <- shl64 d offset ;;
      r <- add64 result t ;;
      size_loop bs' r (offset + 7)
  end.
Definition unpack_size (sz : N) (buf : list N) : res (N * list N) :=
  b <- get buf (sz - 1) ;;
  r0 <- shl64 b (7 * (sz - 1)) ;;
  r <- size_loop (firstn (N.to_nat (sz - 1)) buf) r0 0 ;;
  rest <- slice_from buf sz ;;
  Ok (r, rest).

(* the ten-way dispatch of Unpackable::unpack for buffers of at least ten bytes:
   if buf[0] < 128 { unpack_size::<1> } else if buf[1] < 128 { unpack_size::<2> } ... else Err *)
Fixpoint fast_dispatch (k : nat) (buf : list N) (i : N) : res (N * list N) :=
  match k with
  | O => Err EVarintOverflow
  | S k' =>
      b <- get buf i ;;
      if b <? 128 then unpack_size (i + 1) buf else fast_dispatch k' buf (i + 1)
  end.
Definition v64_unpack_fast (buf : list N) : res (N * list N) := fast_dispatch 10 buf 0.

Definition v64_unpack (buf : list N) : res (N * list N) :=
  if len buf <? 10 then v64_unpack_slow buf else v64_unpack_fast buf.

(* ------------------------------------------------------- conversions between v64 and integers *)
Definition Z64 : Z := 18446744073709551616%Z.
(* `x as u64` for a signed x (sign extension = reduction modulo 2^64) *)
Definition u64_of_int (z : Z) : N := Z.to_N (z mod Z64)%Z.
(* `x as i64` for a u64 *)
Definition i64_of_u64 (x : N) : Z :=
  let z := Z.of_N x in if (z <? 9223372036854775808)%Z then z else (z - Z64)%Z.
(* TryInto<i32> for v64: value = x as i64; i32::try_from(value) or signed_overflow *)
Definition v64_to_i32 (x : N) : res Z :=
  let v := i64_of_u64 x in
  if ((-2147483648 <=? v) && (v <=? 2147483647))%Z then Ok v else Err ESignedOverflow.
(* TryInto<u32> for v64 *)
Definition v64_to_u32 (x : N) : res N := if x <? W32 then Ok x else Err EUnsignedOverflow.

(* ------------------------------------------------------------------------------------ zigzag.rs *)
(* two's complement wrap of a mathematical integer to i64 *)
Definition wrap_i64 (z : Z) : Z :=
  let m := (z mod Z64)%Z in if (m <? 9223372036854775808)%Z then m else (m - Z64)%Z.
(* ((x << 1) ^ (x >> 63)) as u64 *)
Definition zigzag (x : Z) : N :=
  u64_of_int (Z.lxor (wrap_i64 (Z.shiftl x 1)) (Z.shiftr x 63)).
(* ((x >> 1) as i64) ^ (-((x & 1) as i64)) *)
Definition unzigzag (x : N) : Z :=
  Z.lxor (i64_of_u64 (N.shiftr x 1)) (- (i64_of_u64 (N.land x 1)))%Z.

(* ------------------------------------------------- fixed-width little-endian integers (lib.rs) *)
Fixpoint le_bytes (k : nat) (x : N) : list N :=
  match k with O => [] | S k' => x mod 256 :: le_bytes k' (x / 256) end.
Fixpoint of_le_bytes (bs : list N) : N :=
  match bs with [] => 0 | b :: r => b + 256 * of_le_bytes r end.
(* Unpackable for uN/iN/fN: if buf.len() >= SZ { from_le_bytes(buf[0..SZ]), &buf[SZ..] } else buffer_too_short *)
Definition le_unpack (k : nat) (buf : list N) : res (N * list N) :=
  if N.of_nat k <=? len buf then
    h <- slice_to buf (N.of_nat k) ;;
    r <- slice_from buf (N.of_nat k) ;;
    Ok (of_le_bytes h, r)
  else Err EBufferTooShort.
(* two's complement of a k-byte signed integer *)
Definition unsigned_of (bits : N) (z : Z) : N := Z.to_N (z mod Z.of_N (2 ^ bits))%Z.
Definition signed_of (bits : N) (x : N) : Z :=
  let z := Z.of_N x in if (z <? Z.of_N (2 ^ (bits - 1)))%Z then z else (z - Z.of_N (2 ^ bits))%Z.

(* -------------------------------------------------------------------------- UTF-8 (std, modelled) *)
(* core::str::from_utf8 accepts exactly the well-formed byte sequences of the Unicode standard
   (table 3-7).  This is a model of std, compared with it by the correspondence runs. *)
Definition cont (b : N) : bool := (128 <=? b) && (b <=? 191).
Fixpoint utf8_ok (bs : list N) : bool :=
  match bs with
  | [] => true
  | b0 :: r =>
      if b0 <? 128 then utf8_ok r
      else if (194 <=? b0) && (b0 <=? 223) then
        match r with b1 :: r1 => cont b1 && utf8_ok r1 | _ => false end
      else if b0 =? 224 then
        match r with b1 :: b2 :: r2 => (160 <=? b1) && (b1 <=? 191) && cont b2 && utf8_ok r2 | _ => false end
      else if ((225 <=? b0) && (b0 <=? 236)) || ((238 <=? b0) && (b0 <=? 239)) then
        match r with b1 :: b2 :: r2 => cont b1 && cont b2 && utf8_ok r2 | _ => false end
      else if b0 =? 237 then
        match r with b1 :: b2 :: r2 => (128 <=? b1) && (b1 <=? 159) && cont b2 && utf8_ok r2 | _ => false end
      else if b0 =? 240 then
        match r with b1 :: b2 :: b3 :: r3 => (144 <=? b1) && (b1 <=? 191) && cont b2 && cont b3 && utf8_ok r3 | _ => false end
      else if (241 <=? b0) && (b0 <=? 243) then
        match r with b1 :: b2 :: b3 :: r3 => cont b1 && cont b2 && cont b3 && utf8_ok r3 | _ => false end
      else if b0 =? 244 then
        match r with b1 :: b2 :: b3 :: r3 => (128 <=? b1) && (b1 <=? 143) && cont b2 && cont b3 && utf8_ok r3 | _ => false end
      else false
  end.

(* ------------------------------------------------------------------ WireType, FieldNumber, Tag *)
(* WireType::new / tag_bits: the numbers 0, 1, 2, 5 are literals inside the two `match`es of
   prototk/src/lib.rs (retyped here; Wire/GenWT.v re-extracts them on every run and Proofs checks
   that they agree) *)
Inductive wiretype : Set := WVarint | WSixtyFour | WLengthDelimited | WThirtyTwo.
Definition wt_bits (w : wiretype) : N :=
  match w with WVarint => 0 | WSixtyFour => 1 | WLengthDelimited => 2 | WThirtyTwo => 5 end.
Definition wt_new (bits : N) : res wiretype :=
  if bits =? 0 then Ok WVarint else if bits =? 1 then Ok WSixtyFour
  else if bits =? 2 then Ok WLengthDelimited else if bits =? 5 then Ok WThirtyTwo
  else Err EUnhandledWireType.
Definition wt_eqb (a b : wiretype) : bool := wt_bits a =? wt_bits b.

(* FieldNumber::new *)
Definition field_number_new (f : N) : res N :=
  if f <? FIRST_FIELD_NUMBER then Err EInvalidFieldNumber
  else if LAST_FIELD_NUMBER <? f then Err EInvalidFieldNumber
  else if (FIRST_RESERVED_FIELD_NUMBER <=? f) && (f <=? LAST_RESERVED_FIELD_NUMBER) then Err EInvalidFieldNumber
  else Ok f.
Definition field_number_valid (f : N) : bool :=
  match field_number_new f with Ok _ => true | _ => false end.

(* Tag::v64: t: u32 = (f << 3) | w  (the u32 shift loses bits >= 32) *)
Definition tag_v64 (f : N) (w : wiretype) : N := N.lor ((N.shiftl f 3) mod W32) (wt_bits w).
Definition tag_pack (f : N) (w : wiretype) : list N := v64_pack (tag_v64 f w).
Definition tag_pack_sz (f : N) (w : wiretype) : N := v64_pack_sz (tag_v64 f w).
(* Unpackable for Tag *)
Definition tag_unpack (buf : list N) : res (N * wiretype * list N) :=
  '(tag, rest) <- v64_unpack buf ;;
  if W32 <=? tag then Err ETagTooLarge else
  let f := N.shiftr tag 3 in
  let w := N.land tag 7 in
  fn <- field_number_new f ;;
  wt <- wt_new w ;;
  Ok (fn, wt, rest).

(* ------------------------------------------------------------------------------- FieldIterator *)
Inductive iter_step : Type :=
| ItEnd                                              (* up.is_empty(): None, no error *)
| ItErr (e : err)                                    (* *self.err = Some(e); None *)
| ItPanic
| ItFuel
| ItItem (num : N) (wt : wiretype) (fv rest : list N).

Definition iter_of_res {A} (r : res A) (k : A -> iter_step) : iter_step :=
  match r with Ok a => k a | Err e => ItErr e | Panic => ItPanic | OutOfFuel => ItFuel end.

(* Unpacker::advance(by): saturating *)
Definition advance (buf : list N) (by_ : N) : list N :=
  if len buf <? by_ then [] else skipn (N.to_nat by_) buf.

Definition field_next (up : list N) : iter_step :=
  match up with
  | [] => ItEnd
  | _ :: _ =>
      iter_of_res (tag_unpack up) (fun '(num, wt, buf) =>
        match wt with
        | WVarint =>
            iter_of_res (v64_unpack buf) (fun '(x, rest) =>
              iter_of_res (slice_to buf (v64_pack_sz x)) (fun fv => ItItem num wt fv rest))
        | WSixtyFour =>
            if len buf <? 8 then ItErr EBufferTooShort
            else iter_of_res (slice_to buf 8) (fun fv => ItItem num wt fv (advance buf 8))
        | WLengthDelimited =>
            iter_of_res (v64_unpack buf) (fun '(x, rest) =>
              if len rest <? x then ItErr EBufferTooShort
              else iter_of_res (slice_to buf (v64_pack_sz x + x)) (fun fv =>
                     ItItem num wt fv (advance rest x)))
        | WThirtyTwo =>
            if len buf <? 4 then ItErr EBufferTooShort
            else iter_of_res (slice_to buf 4) (fun fv => ItItem num wt fv (advance buf 4))
        end)
  end.

(* ------------------------------------------------------------------- field types (field_types.rs) *)
Inductive scalar : Set :=
| Int32 | Int64 | UInt32 | UInt64 | SInt32 | SInt64
| Fixed32 | Fixed64 | SFixed32 | SFixed64 | Float | Double | Bool_
| Bytes | Bytes16 | Bytes32 | Bytes64 | String_
| StringPath.   (* field type `string` with the native type PathBuf: packs the path's OS bytes *)

(* FieldType::WIRE_TYPE (as of the fix for F11, float is ThirtyTwo; Wire/GenWT.v re-extracts) *)
Definition wire_of (s : scalar) : wiretype :=
  match s with
  | Int32 | Int64 | UInt32 | UInt64 | SInt32 | SInt64 | Bool_ => WVarint
  | Fixed64 | SFixed64 | Double => WSixtyFour
  | Fixed32 | SFixed32 | Float => WThirtyTwo
  | Bytes | Bytes16 | Bytes32 | Bytes64 | String_ | StringPath => WLengthDelimited
  end.

(* native values of scalar fields *)
Inductive sval : Type :=
| SZ (z : Z)            (* every integer type, floats as their bit patterns, bool as 0/1 *)
| SB (bs : list N).     (* bytes, [u8; N], strings as their UTF-8 bytes *)

Definition fixed_len (s : scalar) : N :=
  match s with Bytes16 => 16 | Bytes32 => 32 | Bytes64 => 64 | _ => 0 end.

(* what a Rust value of the native type can be *)
Definition in_range (lo hi z : Z) : bool := ((lo <=? z) && (z <=? hi))%Z.
Definition sval_ok (s : scalar) (v : sval) : bool :=
  match s, v with
  | (Int32 | SInt32 | SFixed32), SZ z => in_range (-2147483648) 2147483647 z
  | (Int64 | SInt64 | SFixed64), SZ z => in_range (-9223372036854775808) 9223372036854775807 z
  | (UInt32 | Fixed32 | Float), SZ z => in_range 0 4294967295 z
  | (UInt64 | Fixed64 | Double), SZ z => in_range 0 18446744073709551615 z
  | Bool_, SZ z => in_range 0 1 z
  | Bytes, SB bs => bytes_okb bs && (len bs <? W64)
  | (Bytes16 | Bytes32 | Bytes64), SB bs => bytes_okb bs && (len bs =? fixed_len s)
  | String_, SB bs => bytes_okb bs && (len bs <? W64) && utf8_ok bs
  (* a PathBuf under `string`: the values OUTSIDE the known class pathbuf-non-utf8 (see sval_native) *)
  | StringPath, SB bs => bytes_okb bs && (len bs <? W64) && utf8_ok bs
  | _, _ => false
  end.

(* <T as Default>::default() of the native type *)
Definition sval_default (s : scalar) : sval :=
  match s with
  | Bytes | String_ | StringPath => SB []
  | Bytes16 | Bytes32 | Bytes64 => SB (repeat 0 (N.to_nat (fixed_len s)))
  | _ => SZ 0
  end.

(* Packable::pack of the field type (the bytes; sizes are in pack_sz_scalar) *)
Definition bytes_pack (bs : list N) : list N := v64_pack (len bs) ++ bs.
Definition pack_scalar (s : scalar) (v : sval) : list N :=
  match s, v with
  | (Int32 | Int64), SZ z => v64_pack (u64_of_int z)
  | (UInt32 | UInt64), SZ z => v64_pack (Z.to_N z)
  | (SInt32 | SInt64), SZ z => v64_pack (zigzag z)
  | Bool_, SZ z => v64_pack (if (z =? 0)%Z then 0 else 1)
  | (Fixed32 | Float), SZ z => le_bytes 4 (Z.to_N z)
  | (Fixed64 | Double), SZ z => le_bytes 8 (Z.to_N z)
  | SFixed32, SZ z => le_bytes 4 (unsigned_of 32 z)
  | SFixed64, SZ z => le_bytes 8 (unsigned_of 64 z)
  | (Bytes | Bytes16 | Bytes32 | Bytes64 | String_ | StringPath), SB bs => bytes_pack bs
  | _, _ => []
  end.
Definition pack_sz_scalar (s : scalar) (v : sval) : N :=
  match s, v with
  | (Int32 | Int64), SZ z => v64_pack_sz (u64_of_int z)
  | (UInt32 | UInt64), SZ z => v64_pack_sz (Z.to_N z)
  | (SInt32 | SInt64), SZ z => v64_pack_sz (zigzag z)
  | Bool_, SZ z => v64_pack_sz (if (z =? 0)%Z then 0 else 1)
  | (Fixed32 | Float | SFixed32), SZ _ => 4
  | (Fixed64 | Double | SFixed64), SZ _ => 8
  | (Bytes | Bytes16 | Bytes32 | Bytes64 | String_ | StringPath), SB bs => v64_pack_sz (len bs) + len bs
  | _, _ => 0
  end.

(* the common opening of every length-delimited unpack:
     v: usize = up.unpack::<v64>()?; rem = up.remain();
     if rem.len() < v { return Err(buffer_too_short) }   then  &rem[..v] and &rem[v..] *)
Definition take_prefixed (buf : list N) : res (N * list N * list N) :=
  '(v, rem) <- v64_unpack buf ;;
  if len rem <? v then Err EBufferTooShort else
  h <- slice_to rem v ;;
  t <- slice_from rem v ;;
  Ok (v, h, t).

(* Unpackable::unpack of the field type *)
Definition unpack_scalar (s : scalar) (buf : list N) : res (sval * list N) :=
  match s with
  | Int32 => '(v, r) <- v64_unpack buf ;; x <- v64_to_i32 v ;; Ok (SZ x, r)
  | Int64 => '(v, r) <- v64_unpack buf ;; Ok (SZ (i64_of_u64 v), r)
  | UInt32 => '(v, r) <- v64_unpack buf ;; x <- v64_to_u32 v ;; Ok (SZ (Z.of_N x), r)
  | UInt64 => '(v, r) <- v64_unpack buf ;; Ok (SZ (Z.of_N v), r)
  | SInt32 =>
      '(v, r) <- v64_unpack buf ;;
      let x := unzigzag v in
      if in_range (-2147483648) 2147483647 x then Ok (SZ x, r) else Err ESignedOverflow
  | SInt64 => '(v, r) <- v64_unpack buf ;; Ok (SZ (unzigzag v), r)
  | Bool_ => '(v, r) <- v64_unpack buf ;; Ok (SZ (if v =? 0 then 0%Z else 1%Z), r)
  | Fixed32 | Float => '(x, r) <- le_unpack 4 buf ;; Ok (SZ (Z.of_N x), r)
  | Fixed64 | Double => '(x, r) <- le_unpack 8 buf ;; Ok (SZ (Z.of_N x), r)
  | SFixed32 => '(x, r) <- le_unpack 4 buf ;; Ok (SZ (signed_of 32 x), r)
  | SFixed64 => '(x, r) <- le_unpack 8 buf ;; Ok (SZ (signed_of 64 x), r)
  | Bytes => '(v, h, t) <- take_prefixed buf ;; Ok (SB h, t)
  | Bytes16 | Bytes32 | Bytes64 =>
      '(v, h, t) <- take_prefixed buf ;;
      if v <? fixed_len s then Err EBufferTooShort
      else if negb (v =? fixed_len s) then Err EWrongLength
      else c <- slice_to h (fixed_len s) ;; Ok (SB c, t)
  | String_ =>
      '(v, h, t) <- take_prefixed buf ;;
      if utf8_ok h then Ok (SB h, t) else Err EStringEncoding
  | StringPath =>          (* the derive unpacks by field type: string::unpack, then From<string> for PathBuf *)
      '(v, h, t) <- take_prefixed buf ;;
      if utf8_ok h then Ok (SB h, t) else Err EStringEncoding
  end.

(* every value the native Rust type can hold.  It differs from sval_ok at StringPath only: a
   PathBuf is any byte string, and FieldPackHelper<string> for PathBuf packs its bytes as they
   are, while string::unpack insists on UTF-8 (known class pathbuf-non-utf8) *)
Definition sval_native (s : scalar) (v : sval) : bool :=
  match s, v with
  | StringPath, SB bs => bytes_okb bs && (len bs <? W64)
  | _, _ => sval_ok s v
  end.
