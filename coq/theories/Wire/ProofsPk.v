(* Wire/ProofsPk.v — the stack packer algebra (sizes, exact fill) and tags *)
From Coq Require Import NArith ZArith List Bool Lia ZifyN ZifyNat ZifyBool.
From Blue Require Import Gen.Const_Wire Wire.Model Wire.ModelMsg Wire.Spec Wire.ProofsVarint Wire.ProofsScalar.
Import ListNotations.
Open Scope N_scope.
Arguments N.add : simpl never. Arguments N.sub : simpl never. Arguments N.mul : simpl never.
Arguments N.div : simpl never. Arguments N.modulo : simpl never. Arguments N.leb : simpl never.
Arguments N.ltb : simpl never. Arguments N.eqb : simpl never. Arguments N.pow : simpl never.
Arguments N.shiftl : simpl never. Arguments N.shiftr : simpl never. Arguments N.land : simpl never.
Arguments N.lor : simpl never.

(* ---------- the stack packer fills a buffer of exactly pack_sz bytes with the concatenation *)
Lemma zeros_0 : zeros 0 = [].
Proof. reflexivity. Qed.

Theorem pk_correct : forall p, len (pk_bytes p) = pk_sz p /\ pk_pack p (pk_sz p) = Ok (pk_bytes p).
Proof.
  induction p as [|x|k x|bs|a [IHa1 IHa2] b [IHb1 IHb2]|q [IHq1 IHq2]|q [IHq1 IHq2]];
    cbn [pk_bytes pk_sz pk_pack].
  - split; reflexivity.
  - split; [apply v64_pack_len|]. rewrite N.leb_refl, N.sub_diag, zeros_0, app_nil_r. reflexivity.
  - split; [apply le_bytes_len'|]. rewrite N.eqb_refl. reflexivity.
  - split; [rewrite len_app, v64_pack_len; reflexivity|].
    destruct (N.leb_spec (v64_pack_sz (len bs)) (v64_pack_sz (len bs) + len bs)); [|lia].
    replace (v64_pack_sz (len bs) + len bs - v64_pack_sz (len bs)) with (len bs) by lia.
    rewrite N.eqb_refl. reflexivity.
  - split; [rewrite len_app; lia|].
    destruct (N.leb_spec (pk_sz a) (pk_sz a + pk_sz b)); [|lia].
    rewrite IHa2. cbn [bind]. replace (pk_sz a + pk_sz b - pk_sz a) with (pk_sz b) by lia.
    rewrite IHb2. reflexivity.
  - split; [rewrite len_app, v64_pack_len; lia|].
    destruct (N.leb_spec (v64_pack_sz (pk_sz q)) (v64_pack_sz (pk_sz q) + pk_sz q)); [|lia].
    replace (v64_pack_sz (pk_sz q) + pk_sz q - v64_pack_sz (pk_sz q)) with (pk_sz q) by lia.
    rewrite IHq2. reflexivity.
  - split; [exact IHq1|]. rewrite N.leb_refl, IHq2. cbn [bind].
    rewrite N.sub_diag, zeros_0, app_nil_r. reflexivity.
Qed.

Corollary to_vec_correct : forall p, to_vec p = Ok (pk_bytes p) /\ len (pk_bytes p) = pk_sz (PkSeq PkUnit p).
Proof.
  intros p. unfold to_vec. destruct (pk_correct (PkSeq PkUnit p)) as [H1 H2].
  rewrite H2. cbn [pk_bytes app] in *. split; [reflexivity|exact H1].
Qed.

(* a buffer that is too short makes pack panic (the reason exact sizes matter) *)
Lemma pk_pack_short_v64 : forall x n, n < v64_pack_sz x -> pk_pack (PkV64 x) n = Panic.
Proof. intros x n H. cbn [pk_pack]. destruct (N.leb_spec (v64_pack_sz x) n); [lia|reflexivity]. Qed.

(* ---------- tags *)
Lemma wt_bits_lt8 : forall w, wt_bits w < 8.
Proof. destruct w; reflexivity. Qed.

Lemma valid_lt : forall f, field_number_valid f = true -> 1 <= f /\ f < 536870912 /\ field_number_new f = Ok f.
Proof.
  intros f H. unfold field_number_valid in H. unfold field_number_new in *.
  unfold FIRST_FIELD_NUMBER, LAST_FIELD_NUMBER, FIRST_RESERVED_FIELD_NUMBER, LAST_RESERVED_FIELD_NUMBER in *.
  destruct (N.ltb_spec f 1); [discriminate|].
  destruct (N.ltb_spec 536870911 f); [discriminate|].
  destruct ((19000 <=? f) && (f <=? 19999)); [discriminate|]. repeat split; try lia.
Qed.

Lemma tag_v64_arith : forall f w, f < 536870912 -> tag_v64 f w = f * 8 + wt_bits w.
Proof.
  intros f w Hf. unfold tag_v64. rewrite N.shiftl_mul_pow2. change (2 ^ 3) with 8.
  rewrite N.mod_small by (unfold W32; lia).
  rewrite N.lor_comm. change 8 with (2 ^ 3) at 1. rewrite lor_add_shift by (change (2 ^ 3) with 8; apply wt_bits_lt8).
  change (2 ^ 3) with 8. lia.
Qed.

Lemma wt_new_bits : forall w, wt_new (wt_bits w) = Ok w.
Proof. destruct w; reflexivity. Qed.

Lemma tag_pack_standard : forall f w, field_number_valid f = true ->
  tag_pack f w = ref_tag f (wt_bits w).
Proof.
  intros f w H. destruct (valid_lt f H) as (H1 & H2 & _). unfold tag_pack, ref_tag.
  rewrite tag_v64_arith by exact H2. apply v64_pack_ref. pose proof (wt_bits_lt8 w). unfold W64. lia.
Qed.

Theorem tag_roundtrip : forall f w rest, field_number_valid f = true -> bytes_ok rest ->
  tag_unpack (tag_pack f w ++ rest) = Ok (f, w, rest).
Proof.
  intros f w rest H Hr. destruct (valid_lt f H) as (H1 & H2 & H3). pose proof (wt_bits_lt8 w) as Hw.
  unfold tag_unpack, tag_pack. rewrite tag_v64_arith by exact H2.
  rewrite v64_roundtrip by (try assumption; unfold W64; lia). cbn [bind].
  destruct (N.leb_spec W32 (f * 8 + wt_bits w)); [unfold W32 in *; lia|].
  rewrite N.shiftr_div_pow2. change (2 ^ 3) with 8.
  change 7 with (N.ones 3). rewrite N.land_ones. change (2 ^ 3) with 8.
  replace ((f * 8 + wt_bits w) / 8) with f by (apply N.div_unique with (r := wt_bits w); lia).
  replace ((f * 8 + wt_bits w) mod 8) with (wt_bits w) by (apply N.mod_unique with (q := f); lia).
  rewrite H3. cbn [bind]. rewrite wt_new_bits. reflexivity.
Qed.

Lemma field_number_new_ok : forall y f, field_number_new y = Ok f -> f = y /\ field_number_valid f = true.
Proof.
  intros y f E. assert (Hy : f = y).
  { unfold field_number_new in E. repeat match type of E with (if ?c then _ else _) = _ => destruct c end;
      try discriminate. injection E as E. auto. }
  subst f. split; [reflexivity|]. unfold field_number_valid. rewrite E. reflexivity.
Qed.

(* any successfully decoded tag is a valid one, and a prefix was consumed *)
Lemma tag_unpack_total : forall buf, bytes_ok buf ->
  (exists f w pre r, tag_unpack buf = Ok (f, w, r) /\ buf = pre ++ r /\ 1 <= len pre <= 10 /\ field_number_valid f = true) \/
  (exists e, tag_unpack buf = Err e).
Proof.
  intros buf Hb. unfold tag_unpack.
  destruct (v64_unpack_total buf Hb) as [(x & pre & r & Heq & Hbuf & Hlen & Hsz & Hx)|Heq]; rewrite Heq; cbn [bind];
    [|right; eexists; reflexivity].
  destruct (W32 <=? x); [right; eexists; reflexivity|].
  destruct (field_number_new (N.shiftr x 3)) as [f| | |] eqn:E; cbn [bind]; try (right; eexists; reflexivity).
  - destruct (wt_new (N.land x 7)) as [w| | |] eqn:E2; cbn [bind]; try (right; eexists; reflexivity).
    + left. exists f, w, pre, r. repeat split; try assumption; try lia.
      apply (field_number_new_ok _ _ E).
    + unfold wt_new in E2. repeat match type of E2 with (if ?c then _ else _) = _ => destruct c end; discriminate.
    + unfold wt_new in E2. repeat match type of E2 with (if ?c then _ else _) = _ => destruct c end; discriminate.
  - unfold field_number_new in E. repeat match type of E with (if ?c then _ else _) = _ => destruct c end; discriminate.
  - unfold field_number_new in E. repeat match type of E with (if ?c then _ else _) = _ => destruct c end; discriminate.
Qed.
