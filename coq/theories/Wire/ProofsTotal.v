(* Wire/ProofsTotal.v — unpacking arbitrary bytes: a value and a suffix of the input, or an error;
   never a panic (no index / slice out of bounds, no arithmetic overflow), never out of fuel. *)
From Coq Require Import NArith ZArith List Bool Lia ZifyN ZifyNat ZifyBool.
From Blue Require Import Gen.Const_Wire Wire.Model Wire.ModelMsg Wire.Spec Wire.ProofsVarint Wire.ProofsScalar Wire.ProofsPk Wire.ProofsMsg.
Import ListNotations.
Open Scope N_scope.
Arguments N.add : simpl never. Arguments N.sub : simpl never. Arguments N.mul : simpl never.
Arguments N.div : simpl never. Arguments N.modulo : simpl never. Arguments N.leb : simpl never.
Arguments N.ltb : simpl never. Arguments N.eqb : simpl never. Arguments N.pow : simpl never.

(* ---------- unpacking arbitrary bytes never panics, never runs out of fuel, and what it leaves is a
   suffix of what it was given *)
Definition is_suffix (r buf : list N) : Prop := exists pre, buf = pre ++ r.
Lemma suffix_refl : forall b, is_suffix b b.
Proof. intros b. exists []. reflexivity. Qed.
Lemma suffix_nil : forall b, is_suffix [] b.
Proof. intros b. exists b. rewrite app_nil_r. reflexivity. Qed.
Lemma suffix_trans : forall a b c, is_suffix a b -> is_suffix b c -> is_suffix a c.
Proof. intros a b c [p Hp] [q Hq]. exists (q ++ p). subst. rewrite app_assoc. reflexivity. Qed.
Lemma suffix_app : forall pre r, is_suffix r (pre ++ r).
Proof. intros pre r. exists pre. reflexivity. Qed.
Lemma suffix_bytes_ok : forall r b, is_suffix r b -> bytes_ok b -> bytes_ok r.
Proof. intros r b [p ->] H. apply bytes_ok_app in H. tauto. Qed.

Inductive un_ok {A : Type} (buf : list N) : res (A * list N) -> Prop :=
| UnOk : forall a r, is_suffix r buf -> un_ok buf (Ok (a, r))
| UnErr : forall e, un_ok buf (Err e).
Inductive acc_ok {A : Type} : res A -> Prop :=
| AccOk : forall l, acc_ok (Ok l)
| AccErr : forall e, acc_ok (Err e).

Lemma scalar_unpack_val_total : forall s buf, bytes_ok buf -> un_ok buf (scalar_unpack_val s buf).
Proof.
  intros s buf Hb. unfold scalar_unpack_val. destruct (scalar_total s buf Hb) as [v pre r Hbuf _|e]; cbn [bind].
  - apply UnOk. subst buf. apply suffix_app.
  - apply UnErr.
Qed.

Lemma message_unpack_total : forall (U : list N -> res (val * list N)),
  (forall b, bytes_ok b -> un_ok b (U b)) -> forall buf, bytes_ok buf -> un_ok buf (message_unpack U buf).
Proof.
  intros U HU buf Hb. unfold message_unpack.
  destruct (take_prefixed_total buf Hb) as [v pre h t Hbuf Hl Hp Hsz Hv| |]; cbn [bind]; try apply UnErr.
  assert (Hh : bytes_ok h) by (subst buf; apply bytes_ok_app in Hb; destruct Hb as [_ Hb]; apply bytes_ok_app in Hb; tauto).
  destruct (HU h Hh) as [x empty _|e]; cbn [bind]; [|apply UnErr].
  destruct empty; [|apply UnErr]. apply UnOk. subst buf. rewrite app_assoc. apply suffix_app.
Qed.

Lemma unpack_from_total : forall {A} (U : list N -> res (A * list N)) up,
  un_ok up (U up) -> un_ok up (unpack_from U up).
Proof.
  intros A U up H. unfold unpack_from. destruct H as [a r [pre Hpre]|e]; cbn [bind]; [|apply UnErr].
  unfold sub64. subst up. rewrite len_app. destruct (N.leb_spec (len r) (len pre + len r)); [|lia]. cbn [bind].
  replace (len pre + len r - len r) with (len pre) by lia. rewrite advance_app by reflexivity.
  apply UnOk. apply suffix_app.
Qed.

Lemma tag_unpack_un_ok : forall buf, bytes_ok buf -> un_ok buf (tag_unpack buf).
Proof.
  intros buf Hb. destruct (tag_unpack_total buf Hb) as [(f & w & pre & r & Heq & Hbuf & _)|[e Heq]]; rewrite Heq.
  - apply UnOk. subst buf. apply suffix_app.
  - apply UnErr.
Qed.

Lemma v64_unpack_un_ok : forall buf, bytes_ok buf -> un_ok buf (v64_unpack buf).
Proof.
  intros buf Hb. destruct (v64_unpack_total buf Hb) as [(x & pre & r & Heq & Hbuf & _)|Heq]; rewrite Heq.
  - apply UnOk. subst buf. apply suffix_app.
  - apply UnErr.
Qed.

Lemma up_take_total : forall up n, (exists h t, up_take up n = Ok (h, t) /\ up = h ++ t) \/ (exists e, up_take up n = Err e).
Proof.
  intros up n. unfold up_take. destruct (len up <? n); [right; eexists; reflexivity|].
  left. do 2 eexists. split; [reflexivity|]. symmetry. apply firstn_skipn.
Qed.

Lemma take_length_prefixed_total : forall up, bytes_ok up ->
  (exists h t, take_length_prefixed up = Ok (h, t) /\ is_suffix t up /\ bytes_ok h) \/
  (exists e, take_length_prefixed up = Err e).
Proof.
  intros up Hb. unfold take_length_prefixed.
  destruct (v64_unpack_total up Hb) as [(x & pre & r & Heq & Hbuf & _)|Heq]; rewrite Heq; cbn [bind];
    [|right; eexists; reflexivity].
  destruct (len r <? x); [right; eexists; reflexivity|].
  destruct (up_take_total r x) as [(h & t & Ht & Hr)|[e He]]; rewrite ?Ht, ?He; [left|right; eexists; reflexivity].
  exists h, t. split; [reflexivity|]. subst up r. split; [rewrite app_assoc; apply suffix_app|].
  apply bytes_ok_app in Hb. destruct Hb as [_ Hb]. apply bytes_ok_app in Hb. tauto.
Qed.

Lemma field_loop_total : forall step,
  (forall num wt fv acc, bytes_ok fv -> acc_ok (step num wt fv acc)) ->
  forall f buf acc, bytes_ok buf -> (length buf < f)%nat -> acc_ok (field_loop step f buf acc).
Proof.
  intros step Hstep. induction f as [|f IH]; intros buf acc Hb Hf; [lia|]. cbn [field_loop].
  pose proof (field_next_total buf Hb) as Hit. destruct (field_next buf) as [|e| | |num wt fv rest]; cbn [item_ok] in Hit;
    try contradiction; try constructor.
  destruct Hit as (pre & Hbuf & Hpre & Hfv & Hrest & _).
  destruct (Hstep num wt fv acc Hfv) as [acc'|e]; cbn [bind]; [|constructor].
  apply IH; [exact Hrest|]. subst buf. rewrite app_length in Hf. unfold len in Hpre. lia.
Qed.

Definition tot_ty (t : ty) : Prop := forall buf, bytes_ok buf -> un_ok buf (ty_unpack t buf).
Definition tot_msg (m : msg) : Prop := forall buf, bytes_ok buf -> un_ok buf (msg_unpack m buf).
Definition tot_flds (fs : flds) : Prop := forall num wt fv acc, bytes_ok fv -> acc_ok (flds_merge fs num wt fv acc).
Definition tot_vars (vs : vars) : Prop := forall k num wt up, bytes_ok up -> un_ok up (vars_unpack vs k num wt up).

Theorem total_all :
  (forall t, tot_ty t) /\ (forall m, tot_msg m) /\ (forall fs, tot_flds fs) /\ (forall vs, tot_vars vs).
Proof.
  apply schema_mutind.
  - intros s buf Hb. apply scalar_unpack_val_total. exact Hb.
  - intros m IH buf Hb. cbn [ty_unpack]. apply message_unpack_total; assumption.
  - (* MStruct *) intros fs IH buf Hb. cbn [msg_unpack].
    destruct (field_loop_total (flds_merge fs) IH (S (length buf)) buf (flds_default fs) Hb (Nat.lt_succ_diag_r _)) as [acc|e];
      cbn [bind]; [|apply UnErr].
    apply UnOk. apply suffix_nil.
  - (* MEnum *) intros vs IH buf Hb. cbn [msg_unpack].
    destruct (unpack_from_total tag_unpack buf (tag_unpack_un_ok buf Hb)) as [[num wt] up Hs|e]; cbn [bind]; [|apply UnErr].
    destruct (IH O num wt up (suffix_bytes_ok _ _ Hs Hb)) as [v r Hr|e]; [|apply UnErr].
    apply UnOk. eapply suffix_trans; eassumption.
  - (* MResult *) intros t IHt e IHe buf Hb. cbn [msg_unpack].
    destruct (v64_unpack_un_ok buf Hb) as [tag up Hs|er]; cbn [bind]; [|apply UnErr].
    destruct (W32 <=? tag); [apply UnErr|].
    pose proof (suffix_bytes_ok _ _ Hs Hb) as Hup.
    destruct (tag =? 10).
    + destruct (v64_unpack_un_ok up Hup) as [x up1 Hs1|er]; cbn [bind]; [|apply UnErr].
      destruct (up_take_total up1 x) as [(h & t2 & Ht & Hup1)|[er He]]; rewrite ?Ht, ?He; cbn [bind]; [|apply UnErr].
      assert (Hh : bytes_ok h).
      { pose proof (suffix_bytes_ok _ _ Hs1 Hup) as H1. rewrite Hup1 in H1. apply bytes_ok_app in H1. tauto. }
      destruct (IHt h Hh) as [tv r _|er]; cbn [bind]; [|apply UnErr].
      apply UnOk. eapply suffix_trans; [|exact Hs]. eapply suffix_trans; [|exact Hs1]. rewrite Hup1. apply suffix_app.
    + destruct (tag =? 18); [|apply UnErr].
      destruct (v64_unpack_un_ok up Hup) as [x up1 Hs1|er]; cbn [bind]; [|apply UnErr].
      destruct (up_take_total up1 x) as [(h & t2 & Ht & Hup1)|[er He]]; rewrite ?Ht, ?He; cbn [bind]; [|apply UnErr].
      assert (Hh : bytes_ok h).
      { pose proof (suffix_bytes_ok _ _ Hs1 Hup) as H1. rewrite Hup1 in H1. apply bytes_ok_app in H1. tauto. }
      destruct (IHe h Hh) as [ev r _|er]; cbn [bind]; [|apply UnErr].
      apply UnOk. eapply suffix_trans; [|exact Hs]. eapply suffix_trans; [|exact Hs1]. rewrite Hup1. apply suffix_app.
  - (* FNil *) intros num wt fv acc _. cbn [flds_merge]. constructor.
  - (* FCons *) intros n c t IHt rest IHrest num wt fv acc Hfv. destruct acc as [|a acc]; [cbn [flds_merge]; constructor|].
    rewrite flds_merge_cons. destruct ((num =? n) && wt_eqb wt (ty_wire t)).
    + destruct (IHt fv Hfv) as [x r _|e]; cbn [bind]; constructor.
    + destruct (IHrest num wt fv acc Hfv) as [r|e]; cbn [bind]; constructor.
  - (* VNil *) intros k num wt up _. cbn [vars_unpack]. apply UnErr.
  - (* VUnit *) intros n rest IH k num wt up Hup. cbn [vars_unpack].
    destruct ((num =? n) && wt_eqb wt WLengthDelimited); [|apply IH; exact Hup].
    destruct (take_length_prefixed_total up Hup) as [(h & t & Heq & Hs & _)|[e Heq]]; rewrite Heq; cbn [bind]; [|apply UnErr].
    apply UnOk. exact Hs.
  - (* VOne *) intros n t IHt rest IH k num wt up Hup. cbn [vars_unpack].
    destruct ((num =? n) && wt_eqb wt (ty_wire t)); [|apply IH; exact Hup].
    change (match t with TSc s => scalar_unpack_val s | TMsg m => message_unpack (msg_unpack m) end) with (ty_unpack t).
    destruct (unpack_from_total (ty_unpack t) up (IHt up Hup)) as [x r Hs|e]; cbn [bind]; [|apply UnErr].
    apply UnOk. exact Hs.
  - (* VNamed *) intros n fs IHfs rest IH k num wt up Hup. cbn [vars_unpack].
    destruct ((num =? n) && wt_eqb wt WLengthDelimited); [|apply IH; exact Hup].
    destruct (take_length_prefixed_total up Hup) as [(h & t & Heq & Hs & Hh)|[e Heq]]; rewrite Heq; cbn [bind]; [|apply UnErr].
    destruct (field_loop_total (flds_merge fs) IHfs (S (length h)) h (flds_default fs) Hh (Nat.lt_succ_diag_r _)) as [acc|e];
      cbn [bind]; [|apply UnErr].
    apply UnOk. exact Hs.
Qed.
