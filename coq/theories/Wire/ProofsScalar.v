(* Wire/ProofsScalar.v — lemmas about integer conversions, zig-zag, fixed-width integers and every
   scalar field type of prototk/src/field_types.rs: round trip, standard bytes, sizes, totality. *)
From Coq Require Import NArith ZArith List Bool Lia ZifyN ZifyNat ZifyBool.
From Blue Require Import Gen.Const_Wire Wire.Model Wire.Spec Wire.ProofsVarint.
Import ListNotations.
Open Scope N_scope.
Arguments N.add : simpl never. Arguments N.sub : simpl never. Arguments N.mul : simpl never.
Arguments N.div : simpl never. Arguments N.modulo : simpl never. Arguments N.leb : simpl never.
Arguments N.ltb : simpl never. Arguments N.eqb : simpl never. Arguments N.pow : simpl never.
Arguments N.shiftl : simpl never. Arguments N.shiftr : simpl never. Arguments N.land : simpl never.
Arguments N.lor : simpl never.
Arguments Z.add : simpl never. Arguments Z.sub : simpl never. Arguments Z.mul : simpl never.
Arguments Z.div : simpl never. Arguments Z.modulo : simpl never. Arguments Z.leb : simpl never.
Arguments Z.ltb : simpl never. Arguments Z.eqb : simpl never. Arguments Z.pow : simpl never.
Arguments Z.opp : simpl never. Arguments Z.of_N : simpl never. Arguments Z.to_N : simpl never.

(* ---------- signed / unsigned conversions *)
Definition i64_range (z : Z) : Prop := (-9223372036854775808 <= z <= 9223372036854775807)%Z.
Definition i32_range (z : Z) : Prop := (-2147483648 <= z <= 2147483647)%Z.

Lemma in_range_iff : forall lo hi z, in_range lo hi z = true <-> (lo <= z <= hi)%Z.
Proof. intros. unfold in_range. lia. Qed.

Lemma u64_of_int_lt : forall z, u64_of_int z < W64.
Proof. intros z. unfold u64_of_int, Z64, W64. lia. Qed.

Lemma i64_u64_roundtrip : forall z, i64_range z -> i64_of_u64 (u64_of_int z) = z.
Proof.
  intros z Hz. unfold i64_range in Hz. unfold i64_of_u64, u64_of_int, Z64.
  destruct (Z.ltb_spec (Z.of_N (Z.to_N (z mod 18446744073709551616))) 9223372036854775808); lia.
Qed.

Lemma u64_i64_roundtrip : forall x, x < W64 -> u64_of_int (i64_of_u64 x) = x.
Proof.
  intros x Hx. unfold W64 in Hx. unfold i64_of_u64, u64_of_int, Z64.
  destruct (Z.ltb_spec (Z.of_N x) 9223372036854775808); lia.
Qed.

Lemma i64_of_u64_range : forall x, x < W64 -> i64_range (i64_of_u64 x).
Proof.
  intros x Hx. unfold W64 in Hx. unfold i64_range, i64_of_u64, Z64.
  destruct (Z.ltb_spec (Z.of_N x) 9223372036854775808); lia.
Qed.

Lemma u64_of_int_twos : forall z, i64_range z -> u64_of_int z = ref_twos 64 z.
Proof.
  intros z Hz. unfold i64_range in Hz. unfold u64_of_int, ref_twos, Z64.
  change (Z.of_N (2 ^ 64)) with 18446744073709551616%Z.
  destruct (Z.leb_spec 0 z); lia.
Qed.

Lemma unsigned_of_twos : forall bits z, unsigned_of bits z = Z.to_N (z mod Z.of_N (2 ^ bits))%Z.
Proof. reflexivity. Qed.

Lemma unsigned_of_32 : forall z, i32_range z -> unsigned_of 32 z = ref_twos 32 z /\ unsigned_of 32 z < W32.
Proof.
  intros z Hz. unfold i32_range in Hz. unfold unsigned_of, ref_twos, W32.
  change (Z.of_N (2 ^ 32)) with 4294967296%Z. destruct (Z.leb_spec 0 z); lia.
Qed.
Lemma unsigned_of_64 : forall z, i64_range z -> unsigned_of 64 z = ref_twos 64 z /\ unsigned_of 64 z < W64.
Proof.
  intros z Hz. unfold i64_range in Hz. unfold unsigned_of, ref_twos, W64.
  change (Z.of_N (2 ^ 64)) with 18446744073709551616%Z. destruct (Z.leb_spec 0 z); lia.
Qed.
Lemma signed_unsigned_32 : forall z, i32_range z -> signed_of 32 (unsigned_of 32 z) = z.
Proof.
  intros z Hz. unfold i32_range in Hz. unfold signed_of, unsigned_of.
  change (Z.of_N (2 ^ 32)) with 4294967296%Z. change (Z.of_N (2 ^ (32 - 1))) with 2147483648%Z.
  destruct (Z.ltb_spec (Z.of_N (Z.to_N (z mod 4294967296))) 2147483648); lia.
Qed.
Lemma signed_unsigned_64 : forall z, i64_range z -> signed_of 64 (unsigned_of 64 z) = z.
Proof.
  intros z Hz. unfold i64_range in Hz. unfold signed_of, unsigned_of.
  change (Z.of_N (2 ^ 64)) with 18446744073709551616%Z. change (Z.of_N (2 ^ (64 - 1))) with 9223372036854775808%Z.
  destruct (Z.ltb_spec (Z.of_N (Z.to_N (z mod 18446744073709551616))) 9223372036854775808); lia.
Qed.
Lemma signed_of_32_range : forall x, x < W32 -> i32_range (signed_of 32 x).
Proof.
  intros x Hx. unfold W32 in Hx. unfold i32_range, signed_of.
  change (Z.of_N (2 ^ 32)) with 4294967296%Z. change (Z.of_N (2 ^ (32 - 1))) with 2147483648%Z.
  destruct (Z.ltb_spec (Z.of_N x) 2147483648); lia.
Qed.
Lemma signed_of_64_range : forall x, x < W64 -> i64_range (signed_of 64 x).
Proof.
  intros x Hx. unfold W64 in Hx. unfold i64_range, signed_of.
  change (Z.of_N (2 ^ 64)) with 18446744073709551616%Z. change (Z.of_N (2 ^ (64 - 1))) with 9223372036854775808%Z.
  destruct (Z.ltb_spec (Z.of_N x) 9223372036854775808); lia.
Qed.

(* ---------- zig-zag *)
Lemma zigzag_spec : forall z, i64_range z -> zigzag z = ref_zigzag z.
Proof.
  intros z Hz. unfold i64_range in Hz. unfold zigzag, ref_zigzag.
  rewrite Z.shiftl_mul_pow2 by lia. rewrite Z.shiftr_div_pow2 by lia.
  change (2 ^ 1)%Z with 2%Z. change (2 ^ 63)%Z with 9223372036854775808%Z.
  destruct (Z.leb_spec 0 z) as [Hpos|Hneg].
  - replace (z / 9223372036854775808)%Z with 0%Z by (symmetry; apply Z.div_small; lia).
    rewrite Z.lxor_0_r. unfold u64_of_int, wrap_i64, Z64.
    destruct (Z.ltb_spec ((z * 2) mod 18446744073709551616) 9223372036854775808); lia.
  - replace (z / 9223372036854775808)%Z with (-1)%Z.
    2:{ apply Z.div_unique with (r := (z + 9223372036854775808)%Z); lia. }
    rewrite Z.lxor_m1_r. unfold Z.lnot, u64_of_int, wrap_i64, Z64.
    destruct (Z.ltb_spec ((z * 2) mod 18446744073709551616) 9223372036854775808); lia.
Qed.

Lemma ref_zigzag_lt : forall z, i64_range z -> ref_zigzag z < W64.
Proof. intros z Hz. unfold i64_range in Hz. unfold ref_zigzag, W64. destruct (Z.leb_spec 0 z); lia. Qed.

Lemma land1 : forall x, N.land x 1 = x mod 2.
Proof. intros x. change 1 with (N.ones 1). rewrite N.land_ones. reflexivity. Qed.

Lemma unzigzag_spec : forall x, x < W64 ->
  unzigzag x = if x mod 2 =? 0 then Z.of_N (x / 2) else (- Z.of_N (x / 2) - 1)%Z.
Proof.
  intros x Hx. unfold W64 in Hx. unfold unzigzag. rewrite N.shiftr_div_pow2, land1. change (2 ^ 1) with 2.
  assert (H1 : i64_of_u64 (x / 2) = Z.of_N (x / 2)).
  { unfold i64_of_u64, Z64. destruct (Z.ltb_spec (Z.of_N (x / 2)) 9223372036854775808); lia. }
  assert (H2 : i64_of_u64 (x mod 2) = Z.of_N (x mod 2)).
  { unfold i64_of_u64, Z64. destruct (Z.ltb_spec (Z.of_N (x mod 2)) 9223372036854775808); lia. }
  rewrite H1, H2. destruct (N.eqb_spec (x mod 2) 0) as [He|Hne].
  - rewrite He. change (- Z.of_N 0)%Z with 0%Z. apply Z.lxor_0_r.
  - assert (x mod 2 = 1) by lia. rewrite H. change (- Z.of_N 1)%Z with (-1)%Z.
    rewrite Z.lxor_m1_r. unfold Z.lnot. lia.
Qed.

Lemma unzigzag_zigzag : forall z, i64_range z -> unzigzag (zigzag z) = z.
Proof.
  intros z Hz. rewrite zigzag_spec by exact Hz. rewrite unzigzag_spec by (apply ref_zigzag_lt; exact Hz).
  unfold i64_range in Hz. unfold ref_zigzag.
  destruct (Z.leb_spec 0 z);
    match goal with |- context [?a mod 2 =? 0] => destruct (N.eqb_spec (a mod 2) 0) end; lia.
Qed.

Lemma unzigzag_range : forall x, x < W64 -> i64_range (unzigzag x).
Proof.
  intros x Hx. rewrite unzigzag_spec by exact Hx. unfold W64 in Hx. unfold i64_range.
  destruct (N.eqb_spec (x mod 2) 0); lia.
Qed.

Lemma zigzag_unzigzag : forall x, x < W64 -> zigzag (unzigzag x) = x.
Proof.
  intros x Hx. rewrite zigzag_spec by (apply unzigzag_range; exact Hx).
  rewrite unzigzag_spec by exact Hx. unfold W64 in Hx. unfold ref_zigzag.
  destruct (N.eqb_spec (x mod 2) 0);
    match goal with |- context [(0 <=? ?a)%Z] => destruct (Z.leb_spec 0 a) end; lia.
Qed.

(* ---------- fixed-width little-endian *)
Lemma le_bytes_len : forall k x, length (le_bytes k x) = k.
Proof. induction k; intros; cbn [le_bytes length]; [reflexivity|]. rewrite IHk. reflexivity. Qed.
Lemma le_bytes_ok : forall k x, bytes_ok (le_bytes k x).
Proof.
  induction k; intros; cbn [le_bytes]; [constructor|]. constructor; [|apply IHk].
  apply N.mod_lt. discriminate.
Qed.
Lemma of_le_le_bytes : forall k x, x < 256 ^ N.of_nat k -> of_le_bytes (le_bytes k x) = x.
Proof.
  induction k as [|k IH]; intros x Hx.
  - change (256 ^ N.of_nat 0) with 1 in Hx. cbn. lia.
  - cbn [le_bytes of_le_bytes]. rewrite IH.
    + pose proof (N.div_mod x 256). lia.
    + rewrite Nat2N.inj_succ, N.pow_succ_r' in Hx. apply N.div_lt_upper_bound; lia.
Qed.
Lemma of_le_bytes_lt : forall bs, bytes_ok bs -> of_le_bytes bs < 256 ^ len bs.
Proof.
  induction bs as [|b r IH]; intros H.
  - vm_compute. reflexivity.
  - apply bytes_ok_cons in H. destruct H as [Hb Hr]. specialize (IH Hr). cbn [of_le_bytes].
    rewrite len_cons. replace (1 + len r) with (N.succ (len r)) by lia. rewrite N.pow_succ_r'. lia.
Qed.

Lemma le_unpack_roundtrip : forall k x rest, x < 256 ^ N.of_nat k ->
  le_unpack k (le_bytes k x ++ rest) = Ok (x, rest).
Proof.
  intros k x rest Hx. unfold le_unpack.
  assert (Hl : len (le_bytes k x) = N.of_nat k) by (unfold len; rewrite le_bytes_len; reflexivity).
  rewrite len_app, Hl. destruct (N.leb_spec (N.of_nat k) (N.of_nat k + len rest)); [|lia].
  rewrite slice_to_app by exact Hl. rewrite slice_from_app by exact Hl. cbn [bind].
  rewrite of_le_le_bytes by exact Hx. reflexivity.
Qed.

(* any decode splits the input *)
Lemma firstn_skipn_len : forall (buf : list N) k, k <= len buf ->
  exists pre suf, buf = pre ++ suf /\ len pre = k /\ firstn (N.to_nat k) buf = pre /\ skipn (N.to_nat k) buf = suf.
Proof.
  intros buf k Hk. exists (firstn (N.to_nat k) buf), (skipn (N.to_nat k) buf).
  split; [symmetry; apply firstn_skipn|]. split; [|split; reflexivity].
  unfold len in *. rewrite firstn_length. lia.
Qed.

Lemma le_unpack_total : forall k buf, bytes_ok buf ->
  (exists x pre r, le_unpack k buf = Ok (x, r) /\ buf = pre ++ r /\ len pre = N.of_nat k /\ x < 256 ^ N.of_nat k) \/
  (le_unpack k buf = Err EBufferTooShort /\ len buf < N.of_nat k).
Proof.
  intros k buf Hb. unfold le_unpack. destruct (N.leb_spec (N.of_nat k) (len buf)) as [Hle|Hgt]; [left|right; split; [reflexivity|lia]].
  destruct (firstn_skipn_len buf (N.of_nat k) Hle) as (pre & suf & Hbuf & Hl & _ & _). subst buf.
  rewrite slice_to_app, slice_from_app by exact Hl. cbn [bind].
  exists (of_le_bytes pre), pre, suf. split; [reflexivity|]. split; [reflexivity|]. split; [exact Hl|].
  rewrite <- Hl. apply of_le_bytes_lt. apply bytes_ok_app in Hb. tauto.
Qed.

(* ---------- length-delimited opening *)
Lemma bytes_okb_iff : forall bs, bytes_okb bs = true <-> bytes_ok bs.
Proof.
  intros bs. unfold bytes_okb, bytes_ok. rewrite forallb_forall, Forall_forall.
  split; intros H x Hx; specialize (H x Hx); lia.
Qed.

Lemma take_prefixed_roundtrip : forall bs rest, len bs < W64 -> bytes_ok bs -> bytes_ok rest ->
  take_prefixed (v64_pack (len bs) ++ bs ++ rest) = Ok (len bs, bs, rest).
Proof.
  intros bs rest Hl Hb Hr. unfold take_prefixed.
  rewrite v64_roundtrip by (try exact Hl; apply bytes_ok_app; tauto). cbn [bind].
  rewrite len_app. destruct (N.ltb_spec (len bs + len rest) (len bs)); [lia|].
  rewrite slice_to_app, slice_from_app by reflexivity. reflexivity.
Qed.

Inductive tp_result (buf : list N) : res (N * list N * list N) -> Prop :=
| TpOk : forall v pre h t, buf = pre ++ h ++ t -> len h = v -> 1 <= len pre <= 10 -> v64_pack_sz v <= len pre ->
         v < W64 -> tp_result buf (Ok (v, h, t))
| TpErr1 : tp_result buf (Err EVarintOverflow)
| TpErr2 : tp_result buf (Err EBufferTooShort).

Lemma take_prefixed_total : forall buf, bytes_ok buf -> tp_result buf (take_prefixed buf).
Proof.
  intros buf Hb. unfold take_prefixed.
  destruct (v64_unpack_total buf Hb) as [(x & pre & r & Heq & Hbuf & Hlen & Hsz & Hx)|Heq]; rewrite Heq; [|constructor].
  cbn [bind]. destruct (N.ltb_spec (len r) x) as [Hlt|Hge]; [constructor|].
  destruct (firstn_skipn_len r x Hge) as (h & t & Hr & Hl & _ & _). subst r.
  rewrite slice_to_app, slice_from_app by exact Hl. cbn [bind].
  apply TpOk with (pre := pre); assumption.
Qed.

(* ---------- every scalar field type round-trips *)
Lemma W32_lt_W64 : W32 < W64. Proof. reflexivity. Qed.

Lemma repeat0_ok : forall n, bytes_ok (repeat 0 n).
Proof. intros n. unfold bytes_ok. apply Forall_forall. intros x Hx. apply repeat_spec in Hx. subst. reflexivity. Qed.

Ltac ok_hyps :=
  repeat match goal with
  | H : _ && _ = true |- _ => apply andb_true_iff in H; destruct H
  | H : in_range _ _ _ = true |- _ => apply in_range_iff in H
  | H : bytes_okb _ = true |- _ => apply bytes_okb_iff in H
  | H : (_ <? _) = true |- _ => apply N.ltb_lt in H
  | H : (_ =? _) = true |- _ => apply N.eqb_eq in H
  end.

Lemma pack_scalar_ok : forall s v, sval_ok s v = true -> bytes_ok (pack_scalar s v).
Proof.
  intros s v H. destruct s, v as [z|bs]; cbn [sval_ok pack_scalar] in *; try discriminate; ok_hyps;
    try apply le_bytes_ok;
    try (apply v64_pack_bytes_ok);
    try (unfold bytes_pack; apply bytes_ok_app; split; [apply v64_pack_bytes_ok|assumption]);
    try apply u64_of_int_lt; unfold W64 in *; try lia.
  - destruct (z =? 0)%Z; lia.
  - rewrite H0. reflexivity.
  - rewrite H0. reflexivity.
  - rewrite H0. reflexivity.
Qed.

Lemma v64_to_i32_roundtrip : forall z, i32_range z -> v64_to_i32 (u64_of_int z) = Ok z.
Proof.
  intros z Hz. unfold v64_to_i32. rewrite i64_u64_roundtrip by (unfold i32_range, i64_range in *; lia).
  unfold i32_range in Hz. destruct (Z.leb_spec (-2147483648) z), (Z.leb_spec z 2147483647); try lia. reflexivity.
Qed.

Theorem scalar_roundtrip : forall s v rest, sval_ok s v = true -> bytes_ok rest ->
  unpack_scalar s (pack_scalar s v ++ rest) = Ok (v, rest).
Proof.
  intros s v rest H Hr.
  destruct s, v as [z|bs]; cbn [sval_ok] in H; try discriminate; ok_hyps;
    cbn [pack_scalar unpack_scalar fixed_len].
  - (* int32 *) rewrite v64_roundtrip by (try apply u64_of_int_lt; assumption). cbn [bind].
    rewrite v64_to_i32_roundtrip by (unfold i32_range; lia). reflexivity.
  - (* int64 *) rewrite v64_roundtrip by (try apply u64_of_int_lt; assumption). cbn [bind].
    rewrite i64_u64_roundtrip by (unfold i64_range; lia). reflexivity.
  - (* uint32 *) rewrite v64_roundtrip by (try assumption; unfold W64; lia). cbn [bind].
    unfold v64_to_u32, W32. destruct (N.ltb_spec (Z.to_N z) 4294967296); [|lia]. cbn [bind].
    rewrite Z2N.id by lia. reflexivity.
  - (* uint64 *) rewrite v64_roundtrip by (try assumption; unfold W64; lia). cbn [bind].
    rewrite Z2N.id by lia. reflexivity.
  - (* sint32 *) assert (Hi : i64_range z) by (unfold i64_range; lia).
    rewrite v64_roundtrip by (try assumption; rewrite zigzag_spec by exact Hi; apply ref_zigzag_lt; exact Hi).
    cbn [bind]. rewrite unzigzag_zigzag by exact Hi.
    replace (in_range (-2147483648) 2147483647 z) with true by (symmetry; apply in_range_iff; lia). reflexivity.
  - (* sint64 *) assert (Hi : i64_range z) by (unfold i64_range; lia).
    rewrite v64_roundtrip by (try assumption; rewrite zigzag_spec by exact Hi; apply ref_zigzag_lt; exact Hi).
    cbn [bind]. rewrite unzigzag_zigzag by exact Hi. reflexivity.
  - (* fixed32 *) rewrite le_unpack_roundtrip by (change (256 ^ N.of_nat 4) with 4294967296; lia). cbn [bind].
    rewrite Z2N.id by lia. reflexivity.
  - (* fixed64 *) rewrite le_unpack_roundtrip by (change (256 ^ N.of_nat 8) with 18446744073709551616; lia). cbn [bind].
    rewrite Z2N.id by lia. reflexivity.
  - (* sfixed32 *) assert (Hi : i32_range z) by (unfold i32_range; lia).
    rewrite le_unpack_roundtrip by (apply unsigned_of_32; exact Hi). cbn [bind].
    rewrite signed_unsigned_32 by exact Hi. reflexivity.
  - (* sfixed64 *) assert (Hi : i64_range z) by (unfold i64_range; lia).
    rewrite le_unpack_roundtrip by (apply unsigned_of_64; exact Hi). cbn [bind].
    rewrite signed_unsigned_64 by exact Hi. reflexivity.
  - (* float *) rewrite le_unpack_roundtrip by (change (256 ^ N.of_nat 4) with 4294967296; lia). cbn [bind].
    rewrite Z2N.id by lia. reflexivity.
  - (* double *) rewrite le_unpack_roundtrip by (change (256 ^ N.of_nat 8) with 18446744073709551616; lia). cbn [bind].
    rewrite Z2N.id by lia. reflexivity.
  - (* bool *) assert (Hz : z = 0%Z \/ z = 1%Z) by lia. destruct Hz; subst z; cbn [Z.eqb].
    + change (0 =? 0)%Z with true. cbv iota. rewrite v64_roundtrip by (try assumption; reflexivity). reflexivity.
    + change (1 =? 0)%Z with false. cbv iota. rewrite v64_roundtrip by (try assumption; reflexivity). reflexivity.
  - (* bytes *) unfold bytes_pack. rewrite <- app_assoc. rewrite take_prefixed_roundtrip by assumption. reflexivity.
  - (* bytes16 *) unfold bytes_pack. rewrite <- app_assoc.
    rewrite take_prefixed_roundtrip by (try assumption; rewrite H0; reflexivity). cbn [bind]. rewrite H0.
    change (16 <? 16) with false. change (negb (16 =? 16)) with false. cbv iota.
    replace bs with (bs ++ []) at 1 by apply app_nil_r. rewrite slice_to_app by exact H0. reflexivity.
  - (* bytes32 *) unfold bytes_pack. rewrite <- app_assoc.
    rewrite take_prefixed_roundtrip by (try assumption; rewrite H0; reflexivity). cbn [bind]. rewrite H0.
    change (32 <? 32) with false. change (negb (32 =? 32)) with false. cbv iota.
    replace bs with (bs ++ []) at 1 by apply app_nil_r. rewrite slice_to_app by exact H0. reflexivity.
  - (* bytes64 *) unfold bytes_pack. rewrite <- app_assoc.
    rewrite take_prefixed_roundtrip by (try assumption; rewrite H0; reflexivity). cbn [bind]. rewrite H0.
    change (64 <? 64) with false. change (negb (64 =? 64)) with false. cbv iota.
    replace bs with (bs ++ []) at 1 by apply app_nil_r. rewrite slice_to_app by exact H0. reflexivity.
  - (* string *) unfold bytes_pack. rewrite <- app_assoc. rewrite take_prefixed_roundtrip by assumption.
    cbn [bind]. match goal with H : utf8_ok _ = true |- _ => rewrite H end. reflexivity.
  - (* PathBuf under string, outside the known class *) unfold bytes_pack. rewrite <- app_assoc.
    rewrite take_prefixed_roundtrip by assumption.
    cbn [bind]. match goal with H : utf8_ok _ = true |- _ => rewrite H end. reflexivity.
Qed.

(* the bytes are the standard encoding *)
Theorem scalar_standard : forall s v, sval_ok s v = true -> pack_scalar s v = ref_scalar s v.
Proof.
  intros s v H.
  destruct s, v as [z|bs]; cbn [sval_ok] in H; try discriminate; ok_hyps;
    cbn [pack_scalar ref_scalar]; try reflexivity.
  - rewrite v64_pack_ref by apply u64_of_int_lt. rewrite u64_of_int_twos by (unfold i64_range; lia). reflexivity.
  - rewrite v64_pack_ref by apply u64_of_int_lt. rewrite u64_of_int_twos by (unfold i64_range; lia). reflexivity.
  - apply v64_pack_ref. unfold W64. lia.
  - apply v64_pack_ref. unfold W64. lia.
  - assert (Hi : i64_range z) by (unfold i64_range; lia). rewrite zigzag_spec by exact Hi.
    apply v64_pack_ref. apply ref_zigzag_lt. exact Hi.
  - assert (Hi : i64_range z) by (unfold i64_range; lia). rewrite zigzag_spec by exact Hi.
    apply v64_pack_ref. apply ref_zigzag_lt. exact Hi.
  - f_equal. apply unsigned_of_32. unfold i32_range. lia.
  - f_equal. apply unsigned_of_64. unfold i64_range. lia.
  - apply v64_pack_ref. destruct (z =? 0)%Z; reflexivity.
  - unfold bytes_pack, ref_len_delimited. rewrite v64_pack_ref by assumption. reflexivity.
  - unfold bytes_pack, ref_len_delimited. rewrite v64_pack_ref by (rewrite H0; reflexivity). reflexivity.
  - unfold bytes_pack, ref_len_delimited. rewrite v64_pack_ref by (rewrite H0; reflexivity). reflexivity.
  - unfold bytes_pack, ref_len_delimited. rewrite v64_pack_ref by (rewrite H0; reflexivity). reflexivity.
  - unfold bytes_pack, ref_len_delimited. rewrite v64_pack_ref by assumption. reflexivity.
  - unfold bytes_pack, ref_len_delimited. rewrite v64_pack_ref by assumption. reflexivity.
Qed.

Lemma le_bytes_len' : forall k x, len (le_bytes k x) = N.of_nat k.
Proof. intros. unfold len. rewrite le_bytes_len. reflexivity. Qed.

Theorem scalar_pack_sz : forall s v, sval_ok s v = true -> len (pack_scalar s v) = pack_sz_scalar s v.
Proof.
  intros s v H.
  destruct s, v as [z|bs]; cbn [sval_ok] in H; try discriminate;
    cbn [pack_scalar pack_sz_scalar]; try apply v64_pack_len; try apply le_bytes_len';
    unfold bytes_pack; rewrite len_app, v64_pack_len; reflexivity.
Qed.

(* ---------- totality of every scalar decoder *)
Inductive sc_result (s : scalar) (buf : list N) : res (sval * list N) -> Prop :=
| ScOk : forall v pre r, buf = pre ++ r -> sval_ok s v = true -> sc_result s buf (Ok (v, r))
| ScErr : forall e, sc_result s buf (Err e).

Lemma in_range_true : forall lo hi z, (lo <= z <= hi)%Z -> in_range lo hi z = true.
Proof. intros. apply in_range_iff. assumption. Qed.

Ltac v64_cases buf Hb :=
  let x := fresh "x" in let pre := fresh "pre" in let r := fresh "r" in
  let Heq := fresh "Heq" in let Hbuf := fresh "Hbuf" in let Hlen := fresh "Hlen" in
  let Hsz := fresh "Hsz" in let Hx := fresh "Hx" in
  destruct (v64_unpack_total buf Hb) as [(x & pre & r & Heq & Hbuf & Hlen & Hsz & Hx)|Heq];
  rewrite Heq; cbn [bind]; [|apply ScErr].

Theorem scalar_total : forall s buf, bytes_ok buf -> sc_result s buf (unpack_scalar s buf).
Proof.
  intros s buf Hb. destruct s; cbn [unpack_scalar].
  - (* int32 *) v64_cases buf Hb. unfold v64_to_i32.
    destruct (Z.leb_spec (-2147483648) (i64_of_u64 x)), (Z.leb_spec (i64_of_u64 x) 2147483647); cbn [andb bind];
      try apply ScErr.
    apply ScOk with (pre := pre); [assumption|]. cbn [sval_ok]. apply in_range_true. lia.
  - (* int64 *) v64_cases buf Hb. apply ScOk with (pre := pre); [assumption|]. cbn [sval_ok].
    apply in_range_true. pose proof (i64_of_u64_range x Hx) as Hr. unfold i64_range in Hr. lia.
  - (* uint32 *) v64_cases buf Hb. unfold v64_to_u32. destruct (N.ltb_spec x W32); cbn [bind]; [|apply ScErr].
    apply ScOk with (pre := pre); [assumption|]. cbn [sval_ok]. apply in_range_true. unfold W32 in *. lia.
  - (* uint64 *) v64_cases buf Hb. apply ScOk with (pre := pre); [assumption|]. cbn [sval_ok].
    apply in_range_true. unfold W64 in *. lia.
  - (* sint32 *) v64_cases buf Hb. destruct (in_range (-2147483648) 2147483647 (unzigzag x)) eqn:E; [|apply ScErr].
    apply ScOk with (pre := pre); [assumption|]. cbn [sval_ok]. exact E.
  - (* sint64 *) v64_cases buf Hb. apply ScOk with (pre := pre); [assumption|]. cbn [sval_ok].
    apply in_range_true. pose proof (unzigzag_range x Hx) as Hr. unfold i64_range in Hr. lia.
  - (* fixed32 *) destruct (le_unpack_total 4 buf Hb) as [(x & pre & r & Heq & Hbuf & Hl & Hx)|[Heq _]]; rewrite Heq; cbn [bind]; [|apply ScErr].
    apply ScOk with (pre := pre); [assumption|]. cbn [sval_ok]. apply in_range_true.
    change (256 ^ N.of_nat 4) with 4294967296 in Hx. lia.
  - (* fixed64 *) destruct (le_unpack_total 8 buf Hb) as [(x & pre & r & Heq & Hbuf & Hl & Hx)|[Heq _]]; rewrite Heq; cbn [bind]; [|apply ScErr].
    apply ScOk with (pre := pre); [assumption|]. cbn [sval_ok]. apply in_range_true.
    change (256 ^ N.of_nat 8) with 18446744073709551616 in Hx. lia.
  - (* sfixed32 *) destruct (le_unpack_total 4 buf Hb) as [(x & pre & r & Heq & Hbuf & Hl & Hx)|[Heq _]]; rewrite Heq; cbn [bind]; [|apply ScErr].
    apply ScOk with (pre := pre); [assumption|]. cbn [sval_ok]. apply in_range_true.
    change (256 ^ N.of_nat 4) with W32 in Hx. pose proof (signed_of_32_range x Hx) as Hr. unfold i32_range in Hr. lia.
  - (* sfixed64 *) destruct (le_unpack_total 8 buf Hb) as [(x & pre & r & Heq & Hbuf & Hl & Hx)|[Heq _]]; rewrite Heq; cbn [bind]; [|apply ScErr].
    apply ScOk with (pre := pre); [assumption|]. cbn [sval_ok]. apply in_range_true.
    change (256 ^ N.of_nat 8) with W64 in Hx. pose proof (signed_of_64_range x Hx) as Hr. unfold i64_range in Hr. lia.
  - (* float *) destruct (le_unpack_total 4 buf Hb) as [(x & pre & r & Heq & Hbuf & Hl & Hx)|[Heq _]]; rewrite Heq; cbn [bind]; [|apply ScErr].
    apply ScOk with (pre := pre); [assumption|]. cbn [sval_ok]. apply in_range_true.
    change (256 ^ N.of_nat 4) with 4294967296 in Hx. lia.
  - (* double *) destruct (le_unpack_total 8 buf Hb) as [(x & pre & r & Heq & Hbuf & Hl & Hx)|[Heq _]]; rewrite Heq; cbn [bind]; [|apply ScErr].
    apply ScOk with (pre := pre); [assumption|]. cbn [sval_ok]. apply in_range_true.
    change (256 ^ N.of_nat 8) with 18446744073709551616 in Hx. lia.
  - (* bool *) v64_cases buf Hb. apply ScOk with (pre := pre); [assumption|]. cbn [sval_ok].
    destruct (x =? 0); reflexivity.
  - (* bytes *) destruct (take_prefixed_total buf Hb) as [v pre h t Hbuf Hl Hp Hsz Hv| |]; cbn [bind]; try apply ScErr.
    apply ScOk with (pre := pre ++ h); [rewrite <- app_assoc; assumption|]. cbn [sval_ok].
    subst buf. apply bytes_ok_app in Hb. destruct Hb as [_ Hb]. apply bytes_ok_app in Hb. destruct Hb as [Hh _].
    apply andb_true_iff. split; [apply bytes_okb_iff; exact Hh|]. apply N.ltb_lt. lia.
  - (* bytes16 *) destruct (take_prefixed_total buf Hb) as [v pre h t Hbuf Hl Hp Hsz Hv| |]; cbn [bind]; try apply ScErr.
    cbn [fixed_len]. destruct (N.ltb_spec v 16); [apply ScErr|]. destruct (N.eqb_spec v 16); cbn [negb]; [|apply ScErr].
    replace h with (h ++ []) by apply app_nil_r. rewrite slice_to_app by lia. cbn [bind].
    apply ScOk with (pre := pre ++ h); [rewrite <- app_assoc; assumption|]. cbn [sval_ok fixed_len].
    subst buf. apply bytes_ok_app in Hb. destruct Hb as [_ Hb]. apply bytes_ok_app in Hb. destruct Hb as [Hh _].
    apply andb_true_iff. split; [apply bytes_okb_iff; exact Hh|]. apply N.eqb_eq. lia.
  - (* bytes32 *) destruct (take_prefixed_total buf Hb) as [v pre h t Hbuf Hl Hp Hsz Hv| |]; cbn [bind]; try apply ScErr.
    cbn [fixed_len]. destruct (N.ltb_spec v 32); [apply ScErr|]. destruct (N.eqb_spec v 32); cbn [negb]; [|apply ScErr].
    replace h with (h ++ []) by apply app_nil_r. rewrite slice_to_app by lia. cbn [bind].
    apply ScOk with (pre := pre ++ h); [rewrite <- app_assoc; assumption|]. cbn [sval_ok fixed_len].
    subst buf. apply bytes_ok_app in Hb. destruct Hb as [_ Hb]. apply bytes_ok_app in Hb. destruct Hb as [Hh _].
    apply andb_true_iff. split; [apply bytes_okb_iff; exact Hh|]. apply N.eqb_eq. lia.
  - (* bytes64 *) destruct (take_prefixed_total buf Hb) as [v pre h t Hbuf Hl Hp Hsz Hv| |]; cbn [bind]; try apply ScErr.
    cbn [fixed_len]. destruct (N.ltb_spec v 64); [apply ScErr|]. destruct (N.eqb_spec v 64); cbn [negb]; [|apply ScErr].
    replace h with (h ++ []) by apply app_nil_r. rewrite slice_to_app by lia. cbn [bind].
    apply ScOk with (pre := pre ++ h); [rewrite <- app_assoc; assumption|]. cbn [sval_ok fixed_len].
    subst buf. apply bytes_ok_app in Hb. destruct Hb as [_ Hb]. apply bytes_ok_app in Hb. destruct Hb as [Hh _].
    apply andb_true_iff. split; [apply bytes_okb_iff; exact Hh|]. apply N.eqb_eq. lia.
  - (* string *) destruct (take_prefixed_total buf Hb) as [v pre h t Hbuf Hl Hp Hsz Hv| |]; cbn [bind]; try apply ScErr.
    destruct (utf8_ok h) eqn:E; [|apply ScErr].
    apply ScOk with (pre := pre ++ h); [rewrite <- app_assoc; assumption|]. cbn [sval_ok].
    subst buf. apply bytes_ok_app in Hb. destruct Hb as [_ Hb]. apply bytes_ok_app in Hb. destruct Hb as [Hh _].
    rewrite E. rewrite andb_true_r. apply andb_true_iff. split; [apply bytes_okb_iff; exact Hh|]. apply N.ltb_lt. lia.
  - (* PathBuf under string *) destruct (take_prefixed_total buf Hb) as [v pre h t Hbuf Hl Hp Hsz Hv| |]; cbn [bind]; try apply ScErr.
    destruct (utf8_ok h) eqn:E; [|apply ScErr].
    apply ScOk with (pre := pre ++ h); [rewrite <- app_assoc; assumption|]. cbn [sval_ok].
    subst buf. apply bytes_ok_app in Hb. destruct Hb as [_ Hb]. apply bytes_ok_app in Hb. destruct Hb as [Hh _].
    rewrite E. rewrite andb_true_r. apply andb_true_iff. split; [apply bytes_okb_iff; exact Hh|]. apply N.ltb_lt. lia.
Qed.
