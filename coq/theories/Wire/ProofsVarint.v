(* Wire/ProofsVarint.v — lemmas about the varint codec (buffertk/src/varint.rs): pack equals the
   reference varint and has length pack_sz; the slow and the fast decoder both compute dec_spec 10
   (at most ten groups, value reduced modulo 2^64); round trip; totality. *)
From Coq Require Import NArith ZArith List Bool Lia ZifyN ZifyNat ZifyBool.
From Blue Require Import Gen.Const_Wire Wire.Model Wire.Spec.
Import ListNotations.
Open Scope N_scope.
Arguments N.add : simpl never. Arguments N.sub : simpl never. Arguments N.mul : simpl never.
Arguments N.div : simpl never. Arguments N.modulo : simpl never. Arguments N.leb : simpl never.
Arguments N.ltb : simpl never. Arguments N.eqb : simpl never. Arguments N.pow : simpl never.
Arguments N.shiftl : simpl never. Arguments N.shiftr : simpl never. Arguments N.land : simpl never.
Arguments N.lor : simpl never.

(* ---------- bit operations as arithmetic *)
Lemma land127 : forall x, N.land x 127 = x mod 128.
Proof. intros x. change 127 with (N.ones 7). rewrite N.land_ones. reflexivity. Qed.
Lemma shiftr7 : forall x, N.shiftr x 7 = x / 128.
Proof. intros x. rewrite N.shiftr_div_pow2. reflexivity. Qed.

Lemma lor_add_shift : forall a b k, a < 2 ^ k -> N.lor a (b * 2 ^ k) = a + b * 2 ^ k.
Proof.
  intros a b k Ha.
  assert (Hl : N.land a (b * 2 ^ k) = 0).
  { apply N.bits_inj_iff. intros n. rewrite N.land_spec, N.bits_0.
    destruct (N.lt_ge_cases n k) as [Hn | Hn].
    - rewrite <- N.shiftl_mul_pow2, N.shiftl_spec_low by exact Hn. apply andb_false_r.
    - replace a with (a mod 2 ^ k) by (apply N.mod_small; exact Ha).
      rewrite N.mod_pow2_bits_high by exact Hn. reflexivity. }
  rewrite <- N.lxor_lor by exact Hl. symmetry. apply N.add_nocarry_lxor. exact Hl.
Qed.

Lemma lor128 : forall b, b < 128 -> N.lor b 128 = b + 128.
Proof. intros b Hb. change 128 with (1 * 2 ^ 7). apply lor_add_shift. exact Hb. Qed.

Lemma land128_zero : forall b, b < 256 -> (N.land b 128 =? 0) = (b <? 128).
Proof.
  intros b Hb.
  assert (H : forallb (fun b => Bool.eqb (N.land b 128 =? 0) (b <? 128)) (map N.of_nat (seq 0 256)) = true) by (vm_compute; reflexivity).
  rewrite forallb_forall in H. specialize (H b).
  apply Bool.eqb_prop. apply H. apply in_map_iff. exists (N.to_nat b). split; [apply N2Nat.id|].
  apply in_seq. lia.
Qed.

(* ---------- pack = the reference varint; pack_sz = its length *)
Lemma pow128_S : forall n, 128 ^ N.of_nat (S n) = 128 * 128 ^ N.of_nat n.
Proof. intros n. rewrite Nat2N.inj_succ, N.pow_succ_r'. reflexivity. Qed.

Lemma pack_loop_ref : forall f x, x < 128 ^ N.of_nat (S f) ->
  pack_loop f (N.shiftr x 7) (N.land x 127) = ref_varint_fuel (S f) x.
Proof.
  induction f as [|f IH]; intros x Hx.
  - cbn [pack_loop ref_varint_fuel]. rewrite land127.
    change (128 ^ N.of_nat 1) with 128 in Hx.
    destruct (N.ltb_spec x 128); [|lia]. rewrite N.mod_small by lia. reflexivity.
  - cbn [pack_loop]. rewrite shiftr7, land127.
    change (ref_varint_fuel (S (S f)) x) with
      (if x <? 128 then [x] else (x mod 128 + 128) :: ref_varint_fuel (S f) (x / 128)).
    destruct (N.ltb_spec x 128) as [Hlt | Hge].
    + rewrite N.div_small by lia. cbn [N.ltb]. replace (0 <? 0) with false by reflexivity.
      rewrite N.mod_small by lia. reflexivity.
    + assert (0 < x / 128) by (apply N.div_str_pos; lia).
      destruct (N.ltb_spec 0 (x / 128)); [|lia].
      rewrite lor128 by (apply N.mod_lt; lia).
      f_equal. rewrite <- IH; [reflexivity|].
      rewrite pow128_S in Hx. apply N.div_lt_upper_bound; lia.
Qed.

Lemma ref_varint_fuel_irrel : forall f k x, x < 128 ^ N.of_nat (S f) ->
  ref_varint_fuel (S f + k) x = ref_varint_fuel (S f) x.
Proof.
  induction f as [|f IH]; intros k x Hx.
  - change (128 ^ N.of_nat 1) with 128 in Hx. cbn [Nat.add ref_varint_fuel].
    destruct (N.ltb_spec x 128); [reflexivity|lia].
  - change (S (S f) + k)%nat with (S (S f + k)).
    change (ref_varint_fuel (S (S f + k)) x) with
      (if x <? 128 then [x] else (x mod 128 + 128) :: ref_varint_fuel (S f + k) (x / 128)).
    change (ref_varint_fuel (S (S f)) x) with
      (if x <? 128 then [x] else (x mod 128 + 128) :: ref_varint_fuel (S f) (x / 128)).
    destruct (x <? 128); [reflexivity|]. f_equal. apply IH.
    rewrite pow128_S in Hx. apply N.div_lt_upper_bound; lia.
Qed.

Lemma W64_lt_pow : W64 < 128 ^ N.of_nat 10.
Proof. vm_compute. reflexivity. Qed.

Lemma v64_pack_ref : forall x, x < W64 -> v64_pack x = ref_varint x.
Proof.
  intros x Hx. unfold v64_pack, ref_varint. pose proof W64_lt_pow.
  rewrite pack_loop_ref by (rewrite pow128_S; lia).
  apply (ref_varint_fuel_irrel 9 1). lia.
Qed.

Lemma sz_pack_loop : forall f y last c, sz_loop f y (c + 1) = c + len (pack_loop f y last).
Proof.
  induction f as [|f IH]; intros y last c.
  - cbn [sz_loop pack_loop]. unfold len. cbn [length]. lia.
  - cbn [sz_loop pack_loop]. destruct (0 <? y).
    + rewrite (IH _ (N.land y 127)). unfold len. cbn [length]. lia.
    + unfold len. cbn [length]. lia.
Qed.

Lemma v64_pack_len : forall x, len (v64_pack x) = v64_pack_sz x.
Proof.
  intros x. unfold v64_pack, v64_pack_sz. change 1 with (0 + 1) at 1.
  rewrite (sz_pack_loop 10 _ (N.land x 127) 0). lia.
Qed.

(* the fuel of the two loops is never what stops them for a u64 (or anything below 2^70) *)
Lemma sz_loop_fuel : forall f k y c, y < 128 ^ N.of_nat f -> sz_loop (f + k) y c = sz_loop f y c.
Proof.
  induction f as [|f IH]; intros k y c Hy.
  - change (128 ^ N.of_nat 0) with 1 in Hy. assert (y = 0) by lia. subst y.
    destruct k; reflexivity.
  - cbn [Nat.add sz_loop]. destruct (0 <? y); [|reflexivity].
    apply IH. rewrite shiftr7. rewrite pow128_S in Hy. apply N.div_lt_upper_bound; lia.
Qed.
Lemma pack_loop_fuel : forall f k y l, y < 128 ^ N.of_nat f -> pack_loop (f + k) y l = pack_loop f y l.
Proof.
  induction f as [|f IH]; intros k y l Hy.
  - change (128 ^ N.of_nat 0) with 1 in Hy. assert (y = 0) by lia. subst y.
    destruct k; reflexivity.
  - cbn [Nat.add pack_loop]. destruct (0 <? y); [|reflexivity].
    f_equal. apply IH. rewrite shiftr7. rewrite pow128_S in Hy. apply N.div_lt_upper_bound; lia.
Qed.

(* ---------- properties of the reference varint *)
Lemma ref_varint_fuel_nonempty : forall f x, ref_varint_fuel (S f) x <> [].
Proof. intros f x. cbn [ref_varint_fuel]. destruct (x <? 128); discriminate. Qed.

Lemma ref_varint_fuel_bytes : forall f x, bytes_ok (ref_varint_fuel f x).
Proof.
  induction f as [|f IH]; intros x; cbn [ref_varint_fuel]; [constructor|].
  destruct (N.ltb_spec x 128).
  - constructor; [lia|constructor].
  - constructor; [|apply IH]. assert (x mod 128 < 128) by (apply N.mod_lt; lia). lia.
Qed.

Lemma ref_varint_len_le : forall f x, (length (ref_varint_fuel f x) <= f)%nat.
Proof.
  induction f as [|f IH]; intros x; cbn [ref_varint_fuel]; [simpl; lia|].
  destruct (x <? 128).
  - simpl. lia.
  - specialize (IH (x / 128)). simpl. lia.
Qed.

(* decoding the reference varint gives the number back *)
Lemma dec_ref_varint : forall f x rest, x < 128 ^ N.of_nat (S f) ->
  dec_spec (S f) (ref_varint_fuel (S f) x ++ rest) = Some (x, rest).
Proof.
  induction f as [|f IH]; intros x rest Hx.
  - change (128 ^ N.of_nat 1) with 128 in Hx. cbn [ref_varint_fuel].
    destruct (N.ltb_spec x 128); [|lia]. cbn [app dec_spec].
    destruct (N.ltb_spec x 128); [reflexivity|lia].
  - change (ref_varint_fuel (S (S f)) x) with
      (if x <? 128 then [x] else (x mod 128 + 128) :: ref_varint_fuel (S f) (x / 128)).
    destruct (N.ltb_spec x 128) as [Hlt|Hge].
    + cbn [app dec_spec]. destruct (N.ltb_spec x 128); [reflexivity|lia].
    + cbn [app]. change (dec_spec (S (S f)) ((x mod 128 + 128) :: ref_varint_fuel (S f) (x / 128) ++ rest))
        with (if x mod 128 + 128 <? 128 then Some (x mod 128 + 128, ref_varint_fuel (S f) (x / 128) ++ rest)
              else match dec_spec (S f) (ref_varint_fuel (S f) (x / 128) ++ rest) with
                   | Some (v, r) => Some (x mod 128 + 128 - 128 + 128 * v, r) | None => None end).
      destruct (N.ltb_spec (x mod 128 + 128) 128); [lia|].
      rewrite IH by (rewrite pow128_S in Hx; apply N.div_lt_upper_bound; lia).
      f_equal. f_equal. pose proof (N.div_mod x 128). lia.
Qed.

Lemma dec_ref_varint64 : forall x rest, x < W64 -> dec_spec 10 (ref_varint x ++ rest) = Some (x, rest).
Proof. intros x rest Hx. apply (dec_ref_varint 9). pose proof W64_lt_pow. lia. Qed.

(* ---------- list access *)
Lemma len_app : forall a b : list N, len (a ++ b) = len a + len b.
Proof. intros. unfold len. rewrite app_length. lia. Qed.
Lemma len_cons : forall (a : N) b, len (a :: b) = 1 + len b.
Proof. intros. unfold len. cbn [length]. lia. Qed.
Lemma len_nil : len [] = 0.
Proof. reflexivity. Qed.

Lemma get_app : forall pre b suf idx, len pre = idx -> get (pre ++ b :: suf) idx = Ok b.
Proof.
  intros pre b suf idx H. unfold get, len in *. subst idx. rewrite Nat2N.id.
  rewrite nth_error_app2 by lia. rewrite Nat.sub_diag. reflexivity.
Qed.
Lemma slice_from_app : forall pre suf idx, len pre = idx -> slice_from (pre ++ suf) idx = Ok suf.
Proof.
  intros pre suf idx H. unfold slice_from. rewrite len_app.
  destruct (N.leb_spec idx (len pre + len suf)); [|lia].
  unfold len in H. subst idx. rewrite Nat2N.id. rewrite skipn_app, skipn_all, Nat.sub_diag. reflexivity.
Qed.
Lemma slice_to_app : forall pre suf idx, len pre = idx -> slice_to (pre ++ suf) idx = Ok pre.
Proof.
  intros pre suf idx H. unfold slice_to. rewrite len_app.
  destruct (N.leb_spec idx (len pre + len suf)); [|lia].
  unfold len in H. subst idx. rewrite Nat2N.id. rewrite firstn_app, firstn_all, Nat.sub_diag.
  cbn [firstn]. rewrite app_nil_r. reflexivity.
Qed.

Lemma bytes_ok_app : forall a b, bytes_ok (a ++ b) <-> bytes_ok a /\ bytes_ok b.
Proof. intros. unfold bytes_ok. apply Forall_app. Qed.
Lemma bytes_ok_cons : forall a b, bytes_ok (a :: b) <-> a < 256 /\ bytes_ok b.
Proof. intros. unfold bytes_ok. split; intros H; [inversion H; auto | constructor; tauto]. Qed.

(* ---------- the decoder specification in accumulator form *)
Definition lf (n : nat) (buf : list N) (ret shl : N) : option (N * list N) :=
  match dec_spec n buf with Some (v, r) => Some (ret + v * 2 ^ shl, r) | None => None end.

Lemma lf_step : forall n b rest ret shl,
  lf (S n) (b :: rest) ret shl =
  if b <? 128 then Some (ret + b * 2 ^ shl, rest) else lf n rest (ret + (b - 128) * 2 ^ shl) (shl + 7).
Proof.
  intros n b rest ret shl. unfold lf. cbn [dec_spec].
  destruct (b <? 128); [reflexivity|].
  destruct (dec_spec n rest) as [[v r]|]; [|reflexivity].
  f_equal. f_equal. rewrite N.pow_add_r. change (2 ^ 7) with 128.
  generalize (b - 128). intros d. generalize (2 ^ shl). intros p. lia.
Qed.

Lemma dec_spec_more : forall n buf k, (length buf <= n)%nat -> dec_spec (n + k) buf = dec_spec n buf.
Proof.
  induction n as [|n IH]; intros buf k Hl.
  - destruct buf; [|simpl in Hl; lia]. destruct k; reflexivity.
  - destruct buf as [|b rest]; [reflexivity|]. cbn [Nat.add dec_spec].
    destruct (b <? 128); [reflexivity|]. rewrite IH by (simpl in Hl; lia). reflexivity.
Qed.

Definition dec_res (o : option (N * list N)) : res (N * list N) :=
  match o with Some (v, r) => Ok (v mod W64, r) | None => Err EVarintOverflow end.

Lemma W64_pow : W64 = 2 ^ 64. Proof. reflexivity. Qed.

Lemma lor_shl_mod : forall ret b shl, ret < 2 ^ shl -> shl < 64 ->
  N.lor ret ((N.shiftl b shl) mod W64) = (ret + b * 2 ^ shl) mod W64.
Proof.
  intros ret b shl Hr Hs. rewrite N.shiftl_mul_pow2, W64_pow.
  replace 64 with ((64 - shl) + shl) by lia. rewrite N.pow_add_r.
  assert (Hp : 2 ^ shl <> 0) by (apply N.pow_nonzero; lia).
  assert (Hq : 2 ^ (64 - shl) <> 0) by (apply N.pow_nonzero; lia).
  rewrite N.mul_mod_distr_r by assumption.
  rewrite lor_add_shift by exact Hr.
  apply N.mod_unique with (q := b / 2 ^ (64 - shl)).
  - assert (b mod 2 ^ (64 - shl) < 2 ^ (64 - shl)) by (apply N.mod_lt; assumption).
    generalize dependent (2 ^ (64 - shl)). generalize dependent (2 ^ shl). intros p Hr Hp q Hq Hm. nia.
  - pose proof (N.div_mod b (2 ^ (64 - shl)) Hq) as Hd.
    generalize dependent (2 ^ (64 - shl)). generalize dependent (2 ^ shl). intros p Hr Hp q Hq Hd.
    generalize dependent (b / q). generalize dependent (b mod q). intros. nia.
Qed.

(* ---------- the slow path *)
Definition slow_final (buf : list N) (st : N * N * N) : res (N * list N) :=
  let '(idx, ret, shl) := st in
  match buf with
  | [] => Err EVarintOverflow
  | _ :: _ =>
      b <- get buf idx ;;
      if N.land b 128 =? 0 then
        t <- shl64 (N.land b 127) shl ;;
        rest <- slice_from buf (idx + 1) ;;
        Ok (N.lor ret t, rest)
      else Err EVarintOverflow
  end.

Lemma slow_final_step : forall pre b suf idx ret shl,
  bytes_ok (pre ++ b :: suf) -> len pre = idx -> shl < 64 -> ret < 2 ^ shl ->
  slow_final (pre ++ b :: suf) (idx, ret, shl) =
  if b <? 128 then Ok ((ret + b * 2 ^ shl) mod W64, suf) else Err EVarintOverflow.
Proof.
  intros pre b suf idx ret shl Hb Hl Hs Hr.
  assert (Hb256 : b < 256).
  { apply bytes_ok_app in Hb. destruct Hb as [_ Hb]. apply bytes_ok_cons in Hb. tauto. }
  unfold slow_final. destruct (pre ++ b :: suf) eqn:E; [destruct pre; discriminate|]. rewrite <- E.
  rewrite <- E in Hb. clear E.
  rewrite get_app by exact Hl. cbn [bind]. rewrite land128_zero by exact Hb256.
  destruct (N.ltb_spec b 128) as [Hlt|Hge]; [|reflexivity].
  unfold shl64. destruct (N.ltb_spec shl 64); [|lia]. cbn [bind].
  replace (pre ++ b :: suf) with ((pre ++ [b]) ++ suf) by (rewrite <- app_assoc; reflexivity).
  rewrite slice_from_app by (rewrite len_app, len_cons, len_nil; lia). cbn [bind].
  rewrite land127. rewrite lor_shl_mod by assumption. rewrite (N.mod_small b 128) by lia. reflexivity.
Qed.

Lemma pow2_le_56 : forall s, s <= 56 -> 2 ^ s <= 2 ^ 56.
Proof. intros. apply N.pow_le_mono_r; lia. Qed.

Lemma slow_spec : forall k fuel pre suf idx ret shl bytes,
  bytes_ok (pre ++ suf) -> len pre = idx -> N.to_nat bytes = (N.to_nat idx + k)%nat ->
  (1 <= k)%nat -> (k <= fuel)%nat -> bytes <= len (pre ++ suf) -> bytes <= 10 ->
  shl = 7 * idx -> ret < 2 ^ shl ->
  bind (slow_loop fuel (pre ++ suf) bytes idx ret shl) (slow_final (pre ++ suf)) = dec_res (lf k suf ret shl).
Proof.
  induction k as [|k IH]; intros fuel pre suf idx ret shl bytes Hb Hl Hk H1 Hf Hlen H10 Hs Hr; [lia|].
  destruct fuel as [|f]; [lia|].
  destruct suf as [|b suf].
  { rewrite app_nil_r in Hlen. lia. }
  assert (Hb256 : b < 256).
  { apply bytes_ok_app in Hb. destruct Hb as [_ Hb']. apply bytes_ok_cons in Hb'. tauto. }
  assert (Hs64 : shl < 64) by lia.
  cbn [slow_loop]. rewrite lf_step.
  destruct (N.ltb_spec (idx + 1) bytes) as [Hin|Hout].
  - rewrite get_app by exact Hl. cbn [bind]. rewrite land128_zero by exact Hb256.
    destruct (N.ltb_spec b 128) as [Hlt|Hge]; cbn [negb].
    + cbn [bind]. rewrite slow_final_step by assumption.
      destruct (N.ltb_spec b 128); [reflexivity|lia].
    + unfold shl64. destruct (N.ltb_spec shl 64); [|lia]. cbn [bind].
      rewrite land127, N.shiftl_mul_pow2.
      assert (Hm : b mod 128 = b - 128) by lia.
      assert (Hp : 2 ^ shl <= 2 ^ 56) by (apply pow2_le_56; lia).
      assert (H56 : 2 ^ 56 * 128 < W64) by (vm_compute; reflexivity).
      rewrite N.mod_small by nia.
      rewrite lor_add_shift by exact Hr.
      replace (pre ++ b :: suf) with ((pre ++ [b]) ++ suf) by (rewrite <- app_assoc; reflexivity).
      rewrite Hm. apply IH.
      * rewrite <- app_assoc. exact Hb.
      * rewrite len_app, len_cons, len_nil. lia.
      * lia.
      * lia.
      * lia.
      * rewrite <- app_assoc. exact Hlen.
      * exact H10.
      * lia.
      * rewrite N.pow_add_r. change (2 ^ 7) with 128. nia.
  - cbn [bind]. rewrite slow_final_step by assumption.
    assert (k = 0)%nat by lia. subst k.
    destruct (N.ltb_spec b 128); [reflexivity|]. unfold lf. cbn [dec_spec]. reflexivity.
Qed.

Lemma v64_unpack_slow_spec : forall buf, bytes_ok buf -> v64_unpack_slow buf = dec_res (dec_spec 10 buf).
Proof.
  intros buf Hb. unfold v64_unpack_slow.
  change (bind (slow_loop 11 buf (if len buf <? 10 then len buf else 10) 0 0 0) (slow_final buf)
          = dec_res (dec_spec 10 buf)).
  destruct buf as [|b0 buf0] eqn:E.
  - reflexivity.
  - rewrite <- E in *. assert (Hne : 1 <= len buf) by (subst buf; rewrite len_cons; lia).
    set (bytes := if len buf <? 10 then len buf else 10).
    assert (Hbytes : 1 <= bytes /\ bytes <= len buf /\ bytes <= 10).
    { unfold bytes. destruct (N.ltb_spec (len buf) 10); lia. }
    pose proof (slow_spec (N.to_nat bytes) 11 [] buf 0 0 0 bytes) as H.
    cbn [app] in H. rewrite H; try lia; try assumption; try reflexivity.
    + unfold lf. f_equal.
      assert (Hd : dec_spec (N.to_nat bytes) buf = dec_spec 10 buf).
      { unfold bytes. destruct (N.ltb_spec (len buf) 10) as [Hlt|Hge].
        - unfold len. rewrite Nat2N.id. unfold len in Hlt.
          replace 10%nat with (length buf + (10 - length buf))%nat by lia.
          rewrite dec_spec_more by lia. reflexivity.
        - reflexivity. }
      rewrite Hd. destruct (dec_spec 10 buf) as [[v r]|]; [|reflexivity].
      rewrite N.mul_1_r. reflexivity.
Qed.

(* ---------- the fast path *)
Definition conts (bs : list N) : Prop := Forall (fun b => 128 <= b /\ b < 256) bs.
Fixpoint cval (bs : list N) : N :=
  match bs with [] => 0 | b :: r => (b - 128) + 128 * cval r end.

Lemma pow128_2 : forall n, 128 ^ n = 2 ^ (7 * n).
Proof. intros n. rewrite N.pow_mul_r. reflexivity. Qed.

Lemma cval_lt : forall bs, conts bs -> cval bs < 2 ^ (7 * len bs).
Proof.
  induction bs as [|b r IH]; intros H.
  - vm_compute. reflexivity.
  - inversion H as [|? ? [Hb1 Hb2] Hr]; subst. specialize (IH Hr). cbn [cval].
    rewrite len_cons. replace (7 * (1 + len r)) with (7 + 7 * len r) by lia.
    rewrite N.pow_add_r. change (2 ^ 7) with 128. lia.
Qed.

Lemma cval_app : forall pre b, cval (pre ++ [b]) = cval pre + (b - 128) * 2 ^ (7 * len pre).
Proof.
  induction pre as [|a pre IH]; intros b.
  - cbn [app cval]. rewrite len_nil. change (2 ^ (7 * 0)) with 1. lia.
  - cbn [app cval]. rewrite IH, len_cons.
    replace (7 * (1 + len pre)) with (7 + 7 * len pre) by lia.
    rewrite N.pow_add_r. change (2 ^ 7) with 128. lia.
Qed.

Lemma add_shl_mod : forall ret b shl, ret < 2 ^ shl -> shl < 64 ->
  ret + (b * 2 ^ shl) mod W64 = (ret + b * 2 ^ shl) mod W64.
Proof.
  intros ret b shl Hr Hs. rewrite <- lor_shl_mod by assumption.
  rewrite N.shiftl_mul_pow2, W64_pow.
  replace 64 with ((64 - shl) + shl) by lia. rewrite N.pow_add_r.
  rewrite N.mul_mod_distr_r by (apply N.pow_nonzero; lia).
  rewrite lor_add_shift by exact Hr. reflexivity.
Qed.

Lemma size_loop_spec : forall bs r off, conts bs -> off + 7 * len bs <= 63 ->
  r + cval bs * 2 ^ off < W64 -> size_loop bs r off = Ok (r + cval bs * 2 ^ off).
Proof.
  induction bs as [|b bs IH]; intros r off Hc Hoff Hlt.
  - cbn [size_loop cval]. f_equal. lia.
  - inversion Hc as [|? ? [Hb1 Hb2] Hr]; subst. rewrite len_cons in Hoff.
    cbn [size_loop cval] in *. unfold sub64. destruct (N.leb_spec 128 b); [|lia]. cbn [bind].
    unfold shl64. destruct (N.ltb_spec off 64); [|lia]. cbn [bind].
    rewrite N.shiftl_mul_pow2.
    assert (Hp : 2 ^ off <= 2 ^ 56) by (apply pow2_le_56; lia).
    assert (H56 : 2 ^ 56 * 128 < W64) by (vm_compute; reflexivity).
    rewrite N.mod_small by nia.
    assert (Hpow : 2 ^ (off + 7) = 128 * 2 ^ off) by (rewrite N.pow_add_r; change (2 ^ 7) with 128; lia).
    unfold add64. destruct (N.ltb_spec (r + (b - 128) * 2 ^ off) W64) as [Hok|Hbad]; [|nia].
    cbn [bind]. rewrite IH.
    + f_equal. rewrite Hpow. nia.
    + exact Hr.
    + lia.
    + rewrite Hpow. nia.
Qed.

Lemma conts_app : forall a b, conts (a ++ b) <-> conts a /\ conts b.
Proof. intros. unfold conts. apply Forall_app. Qed.

Lemma fast_dispatch_spec : forall k pre suf i,
  bytes_ok (pre ++ suf) -> conts pre -> len pre = i -> (N.to_nat i + k = 10)%nat -> 10 <= len (pre ++ suf) ->
  fast_dispatch k (pre ++ suf) i = dec_res (lf k suf (cval pre) (7 * i)).
Proof.
  induction k as [|k IH]; intros pre suf i Hb Hc Hl Hk Hlen.
  - reflexivity.
  - destruct suf as [|b suf]; [rewrite app_nil_r in Hlen; lia|].
    assert (Hb256 : b < 256).
    { apply bytes_ok_app in Hb. destruct Hb as [_ Hb']. apply bytes_ok_cons in Hb'. tauto. }
    cbn [fast_dispatch]. rewrite get_app by exact Hl. cbn [bind]. rewrite lf_step.
    pose proof (cval_lt pre Hc) as Hcv. rewrite Hl in Hcv.
    destruct (N.ltb_spec b 128) as [Hlt|Hge].
    + unfold unpack_size. replace (i + 1 - 1) with i by lia.
      rewrite get_app by exact Hl. cbn [bind].
      unfold shl64. destruct (N.ltb_spec (7 * i) 64); [|lia]. cbn [bind].
      replace (firstn (N.to_nat i) (pre ++ b :: suf)) with pre.
      2:{ unfold len in Hl. subst i. rewrite Nat2N.id, firstn_app, firstn_all, Nat.sub_diag.
          cbn [firstn]. rewrite app_nil_r. reflexivity. }
      rewrite N.shiftl_mul_pow2.
      assert (Hsum : (b * 2 ^ (7 * i)) mod W64 + cval pre = (cval pre + b * 2 ^ (7 * i)) mod W64).
      { rewrite <- add_shl_mod by (try assumption; lia). lia. }
      rewrite size_loop_spec.
      * cbn [bind]. change (2 ^ 0) with 1. rewrite N.mul_1_r.
        replace (pre ++ b :: suf) with ((pre ++ [b]) ++ suf) by (rewrite <- app_assoc; reflexivity).
        rewrite slice_from_app by (rewrite len_app, len_cons, len_nil; clear - Hl; lia).
        cbn [bind dec_res]. rewrite Hsum. reflexivity.
      * exact Hc.
      * lia.
      * change (2 ^ 0) with 1. rewrite N.mul_1_r. rewrite Hsum. apply N.mod_lt. discriminate.
    + replace (pre ++ b :: suf) with ((pre ++ [b]) ++ suf) by (rewrite <- app_assoc; reflexivity).
      rewrite IH.
      * rewrite cval_app, Hl. replace (7 * (i + 1)) with (7 * i + 7) by lia. reflexivity.
      * rewrite <- app_assoc. exact Hb.
      * apply conts_app. split; [exact Hc|]. constructor; [lia|constructor].
      * rewrite len_app, len_cons, len_nil. clear - Hl. lia.
      * lia.
      * rewrite <- app_assoc. exact Hlen.
Qed.

Lemma v64_unpack_fast_spec : forall buf, bytes_ok buf -> 10 <= len buf ->
  v64_unpack_fast buf = dec_res (dec_spec 10 buf).
Proof.
  intros buf Hb Hlen. unfold v64_unpack_fast.
  pose proof (fast_dispatch_spec 10 [] buf 0) as H. cbn [app] in H.
  rewrite H; try assumption; try reflexivity; [|constructor].
  unfold lf. destruct (dec_spec 10 buf) as [[v r]|]; [|reflexivity].
  cbn [cval]. change (2 ^ (7 * 0)) with 1. rewrite N.mul_1_r. reflexivity.
Qed.

(* the one characterisation of the decoder: both paths compute dec_spec 10 *)
Theorem v64_unpack_spec : forall buf, bytes_ok buf -> v64_unpack buf = dec_res (dec_spec 10 buf).
Proof.
  intros buf Hb. unfold v64_unpack. destruct (N.ltb_spec (len buf) 10).
  - apply v64_unpack_slow_spec. exact Hb.
  - apply v64_unpack_fast_spec; assumption.
Qed.

Theorem v64_fast_eq_slow : forall buf, bytes_ok buf -> 10 <= len buf ->
  v64_unpack_fast buf = v64_unpack_slow buf.
Proof.
  intros buf Hb Hl. rewrite v64_unpack_fast_spec, v64_unpack_slow_spec by assumption. reflexivity.
Qed.

(* ---------- consequences *)
Lemma v64_pack_bytes_ok : forall x, x < W64 -> bytes_ok (v64_pack x).
Proof. intros x Hx. rewrite v64_pack_ref by exact Hx. apply ref_varint_fuel_bytes. Qed.

Theorem v64_roundtrip : forall x rest, x < W64 -> bytes_ok rest ->
  v64_unpack (v64_pack x ++ rest) = Ok (x, rest).
Proof.
  intros x rest Hx Hr. rewrite v64_unpack_spec.
  - rewrite v64_pack_ref by exact Hx. rewrite dec_ref_varint64 by exact Hx.
    cbn [dec_res]. rewrite N.mod_small by exact Hx. reflexivity.
  - apply bytes_ok_app. split; [apply v64_pack_bytes_ok; exact Hx|exact Hr].
Qed.

(* what a successful decode consumed *)
Lemma dec_spec_inv : forall n buf v r, bytes_ok buf -> dec_spec n buf = Some (v, r) ->
  exists pre, buf = pre ++ r /\ (1 <= length pre <= n)%nat /\ v < 128 ^ N.of_nat (length pre).
Proof.
  induction n as [|n IH]; intros buf v r Hb H; [destruct buf; discriminate|].
  destruct buf as [|b rest]; [discriminate|]. cbn [dec_spec] in H.
  apply bytes_ok_cons in Hb. destruct Hb as [Hb256 Hrest].
  destruct (N.ltb_spec b 128) as [Hlt|Hge].
  - inversion H; subst. exists [v]. split; [reflexivity|]. split; [simpl; lia|].
    change (128 ^ N.of_nat (length [v])) with 128. exact Hlt.
  - destruct (dec_spec n rest) as [[v' r']|] eqn:E; [|discriminate]. inversion H; subst.
    destruct (IH rest v' r Hrest E) as (pre & Hpre & Hlen & Hv). exists (b :: pre).
    split; [rewrite Hpre; reflexivity|].
    split; [simpl; lia|]. cbn [length]. rewrite pow128_S. lia.
Qed.

Lemma sz_loop_le : forall f j y c, y < 128 ^ N.of_nat j -> sz_loop f y c <= c + N.of_nat j.
Proof.
  induction f as [|f IH]; intros j y c Hy; cbn [sz_loop]; [lia|].
  destruct (N.ltb_spec 0 y); [|lia].
  destruct j as [|j].
  - change (128 ^ N.of_nat 0) with 1 in Hy. lia.
  - specialize (IH j (N.shiftr y 7) (c + 1)). rewrite shiftr7 in *. rewrite pow128_S in Hy.
    assert (y / 128 < 128 ^ N.of_nat j) by (apply N.div_lt_upper_bound; lia).
    specialize (IH H0). lia.
Qed.

Lemma v64_pack_sz_le : forall x k, (1 <= k)%nat -> x < 128 ^ N.of_nat k -> v64_pack_sz x <= N.of_nat k.
Proof.
  intros x k Hk Hx. unfold v64_pack_sz. destruct k as [|k]; [lia|].
  rewrite pow128_S in Hx. rewrite shiftr7.
  assert (x / 128 < 128 ^ N.of_nat k) by (apply N.div_lt_upper_bound; lia).
  pose proof (sz_loop_le 10 k (x / 128) 1 H). lia.
Qed.

Lemma sz_loop_ge : forall f y c, c <= sz_loop f y c.
Proof.
  induction f as [|f IH]; intros y c; cbn [sz_loop]; [lia|].
  destruct (0 <? y); [|lia]. specialize (IH (N.shiftr y 7) (c + 1)). lia.
Qed.
Lemma v64_pack_sz_pos : forall x, 1 <= v64_pack_sz x.
Proof. intros x. unfold v64_pack_sz. apply sz_loop_ge. Qed.

(* totality of the decoder: a value with a suffix of the input, or varint-overflow; never a panic *)
Theorem v64_unpack_total : forall buf, bytes_ok buf ->
  (exists x pre r, v64_unpack buf = Ok (x, r) /\ buf = pre ++ r /\ 1 <= len pre <= 10 /\
                   v64_pack_sz x <= len pre /\ x < W64) \/
  v64_unpack buf = Err EVarintOverflow.
Proof.
  intros buf Hb. rewrite v64_unpack_spec by exact Hb.
  destruct (dec_spec 10 buf) as [[v r]|] eqn:E; [left|right; reflexivity].
  destruct (dec_spec_inv 10 buf v r Hb E) as (pre & Hpre & Hlen & Hv).
  exists (v mod W64), pre, r. split; [reflexivity|]. split; [exact Hpre|].
  assert (Hm : v mod W64 < W64) by (apply N.mod_lt; discriminate).
  split; [unfold len; lia|]. split; [|exact Hm].
  apply v64_pack_sz_le; [lia|]. pose proof (N.mod_le v W64). assert (W64 <> 0) by discriminate.
  specialize (H H0). lia.
Qed.
