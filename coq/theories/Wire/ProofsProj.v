(* Wire/ProofsProj.v — a reader with an older shape decodes a newer writer's bytes to the projection
   of the writer's value (unknown fields skipped at every nesting level, missing fields at their
   defaults): proj_all, by mutual induction over the reader's shape. *)
From Coq Require Import NArith ZArith List Bool Lia ZifyN ZifyNat ZifyBool.
From Blue Require Import Gen.Const_Wire Wire.Model Wire.ModelMsg Wire.Spec Wire.ProofsVarint Wire.ProofsScalar Wire.ProofsPk Wire.ProofsMsg Wire.ProofsTotal Wire.ProofsExtra.
Import ListNotations.
Open Scope N_scope.
Arguments N.add : simpl never. Arguments N.sub : simpl never. Arguments N.mul : simpl never.
Arguments N.div : simpl never. Arguments N.modulo : simpl never. Arguments N.leb : simpl never.
Arguments N.ltb : simpl never. Arguments N.eqb : simpl never. Arguments N.pow : simpl never.

(* ---------- an older reader decodes a newer writer's bytes to the projection of its value *)
Definition ext_ty (t t' : ty) : bool :=
  match t, t' with TSc s, TSc s' => scalar_eqb s s' | TMsg m, TMsg m' => ext_msg m m' | _, _ => false end.
Definition proj_one (t t' : ty) (x : val) : val :=
  match t, t' with TMsg m, TMsg m' => proj_msg m m' x | _, _ => x end.
Definition proj_fld (c : container) (t t' : ty) (v' : val) : val :=
  match c, v' with
  | CPlain, x => proj_one t t' x
  | COpt, VL [] => VL []
  | COpt, VL (x :: _) => VL [proj_one t t' x]
  | CRep, VL xs => VL (map (proj_one t t') xs)
  | _, _ => v'
  end.
Definition slot (fs' : flds) (vs' : list val) (n : N) (c : container) (t : ty) : val :=
  match flds_find fs' vs' n with None => fld_default c t | Some (_, t', v') => proj_fld c t t' v' end.

Lemma ext_flds_cons : forall n c t rest fs', ext_flds (FCons n c t rest) fs' =
  (match flds_find_ty fs' n with None => true | Some (c', t') => container_eqb c c' && ext_ty t t' end) && ext_flds rest fs'.
Proof. reflexivity. Qed.
Lemma proj_flds_cons : forall n c t rest fs' vs', proj_flds (FCons n c t rest) fs' vs' =
  slot fs' vs' n c t :: proj_flds rest fs' vs'.
Proof. reflexivity. Qed.
Lemma fld_default_dflt : forall c t, fld_default c t = dflt c t.
Proof. reflexivity. Qed.

Lemma scalar_eqb_eq : forall a b, scalar_eqb a b = true -> a = b.
Proof. destruct a, b; try discriminate; reflexivity. Qed.
Lemma container_eqb_eq : forall a b, container_eqb a b = true -> a = b.
Proof. destruct a, b; try discriminate; reflexivity. Qed.
Lemma ext_ty_wire : forall t t', ext_ty t t' = true -> ty_wire t = ty_wire t'.
Proof.
  destruct t as [s|m], t' as [s'|m']; cbn [ext_ty ty_wire]; try discriminate; [|reflexivity].
  intros H. apply scalar_eqb_eq in H. subst. reflexivity.
Qed.

Fixpoint all_ty (P : ty -> Prop) (fs : flds) : Prop :=
  match fs with FNil => True | FCons _ _ t r => P t /\ all_ty P r end.
Lemma all_ty_app : forall P a b, all_ty P (fapp a b) <-> all_ty P a /\ all_ty P b.
Proof. induction a as [|n c t r IH]; intros b; cbn [fapp all_ty]; [tauto|]. rewrite IH. tauto. Qed.

Lemma flds_split : forall fs n, In n (flds_nums fs) ->
  exists pre c t rest, fs = fapp pre (FCons n c t rest) /\ ~ In n (flds_nums pre).
Proof.
  induction fs as [|m c t r IH]; intros n Hin; [contradiction|]. cbn [flds_nums] in Hin.
  destruct (N.eq_dec m n) as [->|Hne].
  - exists FNil, c, t, r. split; [reflexivity|]. intros H; exact H.
  - destruct Hin as [Heq|Hin]; [contradiction|]. destruct (IH n Hin) as (pre & c' & t' & rest & -> & Hn).
    exists (FCons m c t pre), c', t', rest. split; [reflexivity|]. cbn [flds_nums]. intros [H|H]; [contradiction|exact (Hn H)].
Qed.

Lemma flds_find_ty_of : forall fs vs n c t v, flds_find fs vs n = Some (c, t, v) -> flds_find_ty fs n = Some (c, t).
Proof.
  induction fs as [|m c' t' r IH]; intros vs n c t v H; [discriminate|]. destruct vs as [|v' vs]; [discriminate|].
  cbn [flds_find flds_find_ty] in *. destruct (m =? n); [inversion H; reflexivity|]. eapply IH; exact H.
Qed.
Lemma flds_find_none : forall fs vs n, ~ In n (flds_nums fs) -> flds_find fs vs n = None.
Proof.
  induction fs as [|m c t r IH]; intros vs n Hn; [reflexivity|]. destruct vs as [|v vs]; [reflexivity|].
  cbn [flds_find flds_nums] in *. destruct (N.eqb_spec m n) as [->|Hne]; [exfalso; apply Hn; left; reflexivity|].
  apply IH. intros H. apply Hn. right. exact H.
Qed.
Lemma flds_find_app : forall pre fs pvs vs n, length pvs = flen pre -> ~ In n (flds_nums pre) ->
  flds_find (fapp pre fs) (pvs ++ vs) n = flds_find fs vs n.
Proof.
  induction pre as [|m c t r IH]; intros fs pvs vs n Hl Hn.
  - destruct pvs; [reflexivity|discriminate].
  - destruct pvs as [|p pvs]; [discriminate|]. cbn [fapp app flds_find flds_nums] in *.
    destruct (N.eqb_spec m n) as [->|Hne]; [exfalso; apply Hn; left; reflexivity|].
    apply IH; [cbn [length flen] in Hl; lia|]. intros H. apply Hn. right. exact H.
Qed.

Lemma ext_at : forall pre n c t rest fs' c' t', ext_flds (fapp pre (FCons n c t rest)) fs' = true ->
  flds_find_ty fs' n = Some (c', t') -> c = c' /\ ext_ty t t' = true.
Proof.
  induction pre as [|m cm tm r IH]; intros n c t rest fs' c' t' He Hf.
  - cbn [fapp] in He. rewrite ext_flds_cons, Hf in He. apply andb_true_iff in He. destruct He as [He _].
    apply andb_true_iff in He. destruct He as [Hc Ht]. apply container_eqb_eq in Hc. tauto.
  - cbn [fapp] in He. rewrite ext_flds_cons in He. apply andb_true_iff in He. destruct He as [_ He].
    eapply IH; eassumption.
Qed.

(* the reader's accumulator after the writer's fields with `done` numbers have been processed *)
Fixpoint mask_flds (done : N -> bool) (fs fs' : flds) (vs' : list val) : list val :=
  match fs with
  | FNil => []
  | FCons n c t rest => (if done n then slot fs' vs' n c t else fld_default c t) :: mask_flds done rest fs' vs'
  end.
Lemma mask_none : forall fs fs' vs', mask_flds (fun _ => false) fs fs' vs' = flds_default fs.
Proof. induction fs as [|n c t r IH]; intros; cbn [mask_flds]; [reflexivity|]. rewrite IH, flds_default_cons. reflexivity. Qed.
Lemma mask_ext : forall done done' fs fs' vs', (forall n, In n (flds_nums fs) -> done n = done' n) ->
  mask_flds done fs fs' vs' = mask_flds done' fs fs' vs'.
Proof.
  induction fs as [|n c t r IH]; intros fs' vs' H; [reflexivity|]. cbn [mask_flds flds_nums] in *.
  rewrite (H n) by (left; reflexivity). f_equal. apply IH. intros m Hm. apply H. right. exact Hm.
Qed.
Lemma mask_all : forall done fs fs' vs', (forall n, In n (flds_nums fs') -> done n = true) ->
  mask_flds done fs fs' vs' = proj_flds fs fs' vs'.
Proof.
  induction fs as [|n c t r IH]; intros fs' vs' H; [reflexivity|]. cbn [mask_flds]. rewrite proj_flds_cons, IH by exact H.
  f_equal. destruct (done n) eqn:E; [reflexivity|].
  unfold slot. rewrite flds_find_none; [reflexivity|]. intros Hin. rewrite (H n Hin) in E. discriminate.
Qed.
Lemma mask_app : forall done a b fs' vs', mask_flds done (fapp a b) fs' vs' = mask_flds done a fs' vs' ++ mask_flds done b fs' vs'.
Proof. induction a as [|n c t r IH]; intros; cbn [fapp mask_flds app]; [reflexivity|]. rewrite IH. reflexivity. Qed.
Lemma mask_len : forall done fs fs' vs', length (mask_flds done fs fs' vs') = flen fs.
Proof. induction fs as [|n c t r IH]; intros; cbn [mask_flds length flen]; [reflexivity|]. rewrite IH. reflexivity. Qed.

Definition rt2_ty (t : ty) : Prop := forall t' num x', ext_ty t t' = true -> field_number_valid num = true ->
  ty_wf t = true -> ty_wf t' = true -> one_ok t' x' = true -> pk_fits (one_pk num t' x') ->
  exists pay, pk_bytes (one_pk num t' x') = tag_pack num (ty_wire t) ++ pay /\ payload_ok (ty_wire t) pay /\
              (forall rest, bytes_ok rest -> ty_unpack t (pay ++ rest) = Ok (proj_one t t' x', rest)).

(* one element of a shared field *)
Lemma one_step2 : forall t t', rt2_ty t -> ext_ty t t' = true -> forall FS pre num c rest pv a drest x' tail,
  FS = fapp pre (FCons num c t rest) -> length pv = flen pre -> NoDup (flds_nums FS) ->
  field_number_valid num = true -> ty_wf t = true -> ty_wf t' = true -> one_ok t' x' = true ->
  pk_fits (one_pk num t' x') -> bytes_ok tail ->
  floop (flds_merge FS) (pk_bytes (one_pk num t' x') ++ tail) (pv ++ a :: drest) =
  floop (flds_merge FS) tail (pv ++ merge c a (proj_one t t' x') :: drest).
Proof.
  intros t t' Ht He FS pre num c rest pv a drest x' tail HFS Hl Hnd Hn Hw Hw' Hok Hf Htail.
  destruct (Ht t' num x' He Hn Hw Hw' Hok Hf) as (pay & Hb & Hp & Hu).
  pose proof (payload_ok_bytes _ _ Hp) as Hpay. pose proof (tag_pack_ok num (ty_wire t) Hn) as Htag.
  rewrite Hb, <- app_assoc.
  rewrite (floop_item _ _ _ num (ty_wire t) pay tail).
  - assert (Hnotin : ~ In num (flds_nums pre)).
    { subst FS. rewrite flds_nums_app in Hnd. cbn [flds_nums] in Hnd. apply NoDup_remove_2 in Hnd.
      intros Hin. apply Hnd. apply in_or_app. left. exact Hin. }
    subst FS. rewrite flds_merge_skip by assumption. rewrite flds_merge_cons.
    rewrite N.eqb_refl, wt_eqb_refl. cbn [andb].
    specialize (Hu [] (Forall_nil _)). rewrite app_nil_r in Hu. rewrite Hu. reflexivity.
  - repeat (apply bytes_ok_app; split); assumption.
  - apply field_next_field; assumption.
Qed.

Lemma one_pk_bytes_ok : forall t', rt_ty t' -> forall num x', field_number_valid num = true -> ty_wf t' = true ->
  one_ok t' x' = true -> pk_fits (one_pk num t' x') -> bytes_ok (pk_bytes (one_pk num t' x')).
Proof.
  intros t' Ht num x' Hn Hw Hok Hf. destruct (Ht num x' Hn Hw Hok Hf) as (pay & Hb & Hp & _).
  rewrite Hb. apply bytes_ok_app. split; [apply tag_pack_ok; exact Hn|eapply payload_ok_bytes; exact Hp].
Qed.

Lemma rep_bytes_ok : forall t', rt_ty t' -> forall num, field_number_valid num = true -> ty_wf t' = true ->
  forall xs, forallb (one_ok t') xs = true -> pk_fits (fold_right PkSeq PkUnit (map (one_pk num t') xs)) ->
  bytes_ok (pk_bytes (fold_right PkSeq PkUnit (map (one_pk num t') xs))).
Proof.
  intros t' Ht num Hn Hw. induction xs as [|x xs IH]; intros Hok Hf; [constructor|].
  cbn [map fold_right pk_bytes forallb pk_fits] in *. apply andb_true_iff in Hok. destruct Hok, Hf.
  apply bytes_ok_app. split; [apply one_pk_bytes_ok; assumption|apply IH; assumption].
Qed.

Lemma rep_rt2 : forall t t', rt2_ty t -> rt_ty t' -> ext_ty t t' = true -> forall FS pre num rest pv drest tail,
  FS = fapp pre (FCons num CRep t rest) -> length pv = flen pre -> NoDup (flds_nums FS) ->
  field_number_valid num = true -> ty_wf t = true -> ty_wf t' = true -> bytes_ok tail ->
  forall xs done, forallb (one_ok t') xs = true -> pk_fits (fold_right PkSeq PkUnit (map (one_pk num t') xs)) ->
  floop (flds_merge FS) (pk_bytes (fold_right PkSeq PkUnit (map (one_pk num t') xs)) ++ tail) (pv ++ VL done :: drest) =
  floop (flds_merge FS) tail (pv ++ VL (done ++ map (proj_one t t') xs) :: drest).
Proof.
  intros t t' Ht Ht' He FS pre num rest pv drest tail HFS Hl Hnd Hn Hw Hw' Htail.
  induction xs as [|x xs IH]; intros done Hok Hf.
  - cbn [map fold_right pk_bytes app]. rewrite app_nil_r. reflexivity.
  - cbn [map fold_right pk_bytes forallb pk_fits] in *. apply andb_true_iff in Hok. destruct Hok as [Hx Hxs].
    destruct Hf as [Hfx Hfxs].
    assert (Htail' : bytes_ok (pk_bytes (fold_right PkSeq PkUnit (map (one_pk num t') xs)) ++ tail)).
    { apply bytes_ok_app. split; [apply rep_bytes_ok; assumption|exact Htail]. }
    rewrite <- app_assoc.
    rewrite (one_step2 t t' Ht He FS pre num CRep rest pv (VL done) drest x _ HFS Hl Hnd Hn Hw Hw' Hx Hfx Htail').
    cbn [merge]. rewrite (IH (done ++ [proj_one t t' x]) Hxs Hfxs). rewrite <- app_assoc. reflexivity.
Qed.

Lemma fld_ok_rep : forall t v, fld_ok CRep t v = true -> exists xs, v = VL xs /\ forallb (one_ok t) xs = true.
Proof. intros t v H. destruct v as [| |l|]; try discriminate. exists l. split; [reflexivity|exact H]. Qed.

Lemma fld_rt2 : forall t t', rt2_ty t -> rt_ty t' -> ext_ty t t' = true -> forall FS pre num c rest pv drest v' tail,
  FS = fapp pre (FCons num c t rest) -> length pv = flen pre -> NoDup (flds_nums FS) ->
  field_number_valid num = true -> ty_wf t = true -> ty_wf t' = true -> fld_ok c t' v' = true ->
  pk_fits (fld_pk num c t' v') -> bytes_ok tail ->
  floop (flds_merge FS) (pk_bytes (fld_pk num c t' v') ++ tail) (pv ++ dflt c t :: drest) =
  floop (flds_merge FS) tail (pv ++ proj_fld c t t' v' :: drest).
Proof.
  intros t t' Ht Ht' He FS pre num c rest pv drest v' tail HFS Hl Hnd Hn Hw Hw' Hok Hf Htail.
  destruct c; cbn [fld_ok fld_pk proj_fld] in *.
  - exact (one_step2 t t' Ht He FS pre num CPlain rest pv _ drest v' tail HFS Hl Hnd Hn Hw Hw' Hok Hf Htail).
  - destruct v' as [| |l|]; try discriminate. destruct l as [|x l].
    + cbn [pk_bytes app dflt]. reflexivity.
    + destruct l; [|discriminate].
      exact (one_step2 t t' Ht He FS pre num COpt rest pv _ drest x tail HFS Hl Hnd Hn Hw Hw' Hok Hf Htail).
  - destruct v' as [| |l|]; try discriminate.
    exact (rep_rt2 t t' Ht Ht' He FS pre num rest pv drest tail HFS Hl Hnd Hn Hw Hw' Htail l [] Hok Hf).
Qed.

(* a field of the writer that the reader does not know *)
Lemma skip_one : forall t', rt_ty t' -> forall FS num x' tail acc, field_number_valid num = true -> ty_wf t' = true ->
  one_ok t' x' = true -> pk_fits (one_pk num t' x') -> flds_knows FS num (ty_wire t') = false -> bytes_ok tail ->
  floop (flds_merge FS) (pk_bytes (one_pk num t' x') ++ tail) acc = floop (flds_merge FS) tail acc.
Proof.
  intros t' Ht FS num x' tail acc Hn Hw Hok Hf Hk Htail.
  destruct (Ht num x' Hn Hw Hok Hf) as (pay & Hb & Hp & _). rewrite Hb, <- app_assoc.
  rewrite (floop_item _ _ _ num (ty_wire t') pay tail).
  - rewrite flds_merge_unknown by exact Hk. reflexivity.
  - repeat (apply bytes_ok_app; split); [apply tag_pack_ok; exact Hn|eapply payload_ok_bytes; exact Hp|exact Htail].
  - apply field_next_field; assumption.
Qed.

Lemma skip_fld : forall t', rt_ty t' -> forall FS num c v' tail acc, field_number_valid num = true -> ty_wf t' = true ->
  fld_ok c t' v' = true -> pk_fits (fld_pk num c t' v') -> flds_knows FS num (ty_wire t') = false -> bytes_ok tail ->
  floop (flds_merge FS) (pk_bytes (fld_pk num c t' v') ++ tail) acc = floop (flds_merge FS) tail acc.
Proof.
  intros t' Ht FS num c v' tail acc Hn Hw Hok Hf Hk Htail. destruct c; cbn [fld_ok fld_pk] in *.
  - apply skip_one; assumption.
  - destruct v' as [| |l|]; try discriminate. destruct l as [|x l]; [reflexivity|]. destruct l; [|discriminate].
    apply skip_one; assumption.
  - destruct v' as [| |l|]; try discriminate. revert Hok Hf. induction l as [|x l IH]; intros Hok Hf; [reflexivity|].
    cbn [map fold_right pk_bytes forallb pk_fits] in *. apply andb_true_iff in Hok. destruct Hok as [Hx Hl]. destruct Hf as [Hfx Hfl].
    rewrite <- app_assoc. rewrite skip_one; try assumption; [apply IH; assumption|].
    apply bytes_ok_app. split; [apply rep_bytes_ok; assumption|exact Htail].
Qed.

Lemma flds_wf_at : forall pre n c t rest, flds_wf (fapp pre (FCons n c t rest)) = true ->
  field_number_valid n = true /\ ty_wf t = true.
Proof.
  induction pre as [|m cm tm r IH]; intros n c t rest H; cbn [fapp] in H; rewrite flds_wf_cons in H;
    apply andb_true_iff in H; destruct H as [H Hr].
  - apply andb_true_iff in H. tauto.
  - eapply IH. exact Hr.
Qed.
Lemma all_ty_at : forall P pre n c t rest, all_ty P (fapp pre (FCons n c t rest)) -> P t.
Proof. intros P pre n c t rest H. apply all_ty_app in H. destruct H as [_ H]. cbn [all_ty] in H. tauto. Qed.

Lemma wfld_step : forall FS FS' VS' done num c' t' v' tail,
  all_ty rt2_ty FS -> rt_ty t' -> ext_flds FS FS' = true -> flds_wf FS = true -> NoDup (flds_nums FS) ->
  flds_find FS' VS' num = Some (c', t', v') -> done num = false ->
  field_number_valid num = true -> ty_wf t' = true -> fld_ok c' t' v' = true -> pk_fits (fld_pk num c' t' v') ->
  bytes_ok tail ->
  floop (flds_merge FS) (pk_bytes (fld_pk num c' t' v') ++ tail) (mask_flds done FS FS' VS') =
  floop (flds_merge FS) tail (mask_flds (fun n => done n || (n =? num)) FS FS' VS').
Proof.
  intros FS FS' VS' done num c' t' v' tail Hall Ht' Hext Hwf Hnd Hfind Hdone Hn Hw' Hok Hf Htail.
  destruct (in_dec N.eq_dec num (flds_nums FS)) as [Hin|Hnin].
  - destruct (flds_split FS num Hin) as (pre & c & t & rest & HFS & Hnpre).
    assert (Hnrest : ~ In num (flds_nums rest)).
    { rewrite HFS, flds_nums_app in Hnd. cbn [flds_nums] in Hnd. apply NoDup_remove_2 in Hnd.
      intros H. apply Hnd. apply in_or_app. right. exact H. }
    subst FS.
    destruct (ext_at pre num c t rest FS' c' t' Hext (flds_find_ty_of _ _ _ _ _ _ Hfind)) as [Hc He]. subst c'.
    destruct (flds_wf_at _ _ _ _ _ Hwf) as [_ Hw]. pose proof (all_ty_at _ _ _ _ _ _ Hall) as Ht.
    rewrite !mask_app. cbn [mask_flds]. rewrite Hdone, N.eqb_refl, orb_true_r.
    cbv beta iota. unfold slot. rewrite Hfind. rewrite fld_default_dflt.
    rewrite (mask_ext (fun n => done n || (n =? num)) done pre).
    2:{ intros n Hn'. destruct (N.eqb_spec n num) as [->|_]; [contradiction|apply orb_false_r]. }
    rewrite (mask_ext (fun n => done n || (n =? num)) done rest).
    2:{ intros n Hn'. destruct (N.eqb_spec n num) as [->|_]; [contradiction|apply orb_false_r]. }
    apply (fld_rt2 t t' Ht Ht' He _ pre num c rest); try assumption; [reflexivity|]. rewrite mask_len. reflexivity.
  - rewrite skip_fld by (try assumption; apply flds_knows_num; exact Hnin).
    f_equal. apply mask_ext. intros n Hn'. destruct (N.eqb_spec n num) as [->|_]; [contradiction|symmetry; apply orb_false_r].
Qed.

Lemma NoDup_app_r : forall (a b : list N), NoDup (a ++ b) -> NoDup b.
Proof. induction a as [|x a IH]; intros b H; [exact H|]. inversion H; subst. apply IH. assumption. Qed.

(* all the writer's fields, in its own order *)
Lemma struct_loop2 : forall FS, all_ty rt2_ty FS -> flds_wf FS = true -> NoDup (flds_nums FS) ->
  forall FS' VS', ext_flds FS FS' = true -> NoDup (flds_nums FS') ->
  forall fs' pre' pvs' vs' tail,
  FS' = fapp pre' fs' -> VS' = pvs' ++ vs' -> length pvs' = flen pre' ->
  all_ty rt_ty fs' -> flds_wf fs' = true -> flds_ok fs' vs' = true -> ffits fs' vs' -> bytes_ok tail ->
  floop (flds_merge FS) (fbytes fs' vs' ++ tail) (mask_flds (fun n => existsb (N.eqb n) (flds_nums pre')) FS FS' VS') =
  floop (flds_merge FS) tail (mask_flds (fun n => existsb (N.eqb n) (flds_nums FS')) FS FS' VS').
Proof.
  intros FS Hall Hwf Hnd FS' VS' Hext Hnd'.
  induction fs' as [|num c' t' rest' IH]; intros pre' pvs' vs' tail HFS' HVS' Hl Hall' Hw' Hok Hf Htail.
  - destruct vs'; [|discriminate]. cbn [fbytes app]. f_equal. apply mask_ext. intros n _.
    rewrite HFS'. clear. induction pre' as [|m c t r IH]; [reflexivity|]. cbn [fapp flds_nums existsb]. rewrite IH. reflexivity.
  - destruct vs' as [|v' vs']; [discriminate|]. rewrite flds_wf_cons in Hw'. rewrite flds_ok_cons in Hok.
    apply andb_true_iff in Hw'. destruct Hw' as [Hw' Hwr]. apply andb_true_iff in Hw'. destruct Hw' as [Hn Hwt].
    apply andb_true_iff in Hok. destruct Hok as [Hokv Hokr]. cbn [ffits fbytes all_ty] in *. destruct Hf as [Hfv Hfr].
    destruct Hall' as [Ht' Hallr].
    assert (Hnpre : ~ In num (flds_nums pre')).
    { rewrite HFS', flds_nums_app in Hnd'. cbn [flds_nums] in Hnd'. apply NoDup_remove_2 in Hnd'.
      intros H. apply Hnd'. apply in_or_app. left. exact H. }
    assert (Hfind : flds_find FS' VS' num = Some (c', t', v')).
    { rewrite HFS', HVS', flds_find_app by assumption. cbn [flds_find]. rewrite N.eqb_refl. reflexivity. }
    assert (Hdone : existsb (N.eqb num) (flds_nums pre') = false).
    { destruct (existsb (N.eqb num) (flds_nums pre')) eqn:E; [|reflexivity]. apply existsb_exists in E.
      destruct E as (y & Hy & Heq). apply N.eqb_eq in Heq. subst y. contradiction. }
    rewrite <- app_assoc.
    rewrite (wfld_step FS FS' VS' _ num c' t' v' _ Hall Ht' Hext Hwf Hnd Hfind Hdone Hn Hwt Hokv Hfv).
    2:{ apply bytes_ok_app. split; [|exact Htail].
        destruct roundtrip_all as (_ & _ & Hrf & _).
        (* bytes of the remaining writer fields are bytes: use the writer's own round trip lemma *)
        destruct (Hrf rest' rest' FNil [] vs' [] eq_refl eq_refl) as [Hb _]; try assumption.
        - rewrite HFS', flds_nums_app in Hnd'. apply NoDup_app_r in Hnd'. cbn [flds_nums] in Hnd'.
          inversion Hnd'; assumption.
        - constructor. }
    assert (Hmask : mask_flds (fun n => existsb (N.eqb n) (flds_nums pre') || (n =? num)) FS FS' VS' =
                    mask_flds (fun n => existsb (N.eqb n) (flds_nums (fapp pre' (FCons num c' t' FNil)))) FS FS' VS').
    { apply mask_ext. intros n _. rewrite flds_nums_app. cbn [flds_nums]. rewrite existsb_app. cbn [existsb].
      rewrite orb_false_r. reflexivity. }
    rewrite Hmask.
    apply (IH (fapp pre' (FCons num c' t' FNil)) (pvs' ++ [v']) vs' tail); try assumption.
    + rewrite HFS'. apply fapp_snoc.
    + rewrite HVS', <- app_assoc. reflexivity.
    + rewrite app_length, flen_snoc. cbn [length]. lia.
Qed.

Definition rt2_msg (m : msg) : Prop := forall m' v', ext_msg m m' = true -> msg_wf m = true -> msg_wf m' = true ->
  val_ok m' v' = true -> pk_fits (msg_pk m' v') ->
  forall rest, bytes_ok rest -> (is_struct m = true -> rest = []) ->
  msg_unpack m (pk_bytes (msg_pk m' v') ++ rest) = Ok (proj_msg m m' v', rest).
Definition rt2_flds (fs : flds) : Prop := all_ty rt2_ty fs.
Definition rt2_vars (vs : vars) : Prop := forall vs' k0 k p' rest,
  ext_vars vs vs' = true -> vars_wf vs = true -> vars_wf vs' = true -> NoDup (vars_nums vs) ->
  vars_ok vs' k p' = true -> pk_fits (vars_pk vs' k p') -> bytes_ok rest ->
  exists num w pay, pk_bytes (vars_pk vs' k p') = tag_pack num w ++ pay /\ field_number_valid num = true /\
    In num (vars_nums vs) /\ payload_ok w pay /\
    vars_unpack vs k0 num w (pay ++ rest) = Ok (VV (k0 + k) (proj_vars vs vs' k p'), rest).

Lemma all_ty_all : forall (P : ty -> Prop), (forall t, P t) -> forall fs, all_ty P fs.
Proof. intros P H. induction fs as [|n c t r IH]; cbn [all_ty]; [exact I|]. split; [apply H|exact IH]. Qed.

Lemma existsb_self : forall l n, In n l -> existsb (N.eqb n) l = true.
Proof. intros l n H. apply existsb_exists. exists n. split; [exact H|apply N.eqb_refl]. Qed.

(* the struct body: reader FS against the writer's fields *)
Lemma struct_proj : forall FS, all_ty rt2_ty FS -> flds_wf FS = true -> NoDup (flds_nums FS) ->
  forall FS' VS', ext_flds FS FS' = true -> NoDup (flds_nums FS') -> flds_wf FS' = true ->
  flds_ok FS' VS' = true -> ffits FS' VS' ->
  floop (flds_merge FS) (fbytes FS' VS') (flds_default FS) = Ok (proj_flds FS FS' VS').
Proof.
  intros FS Hall Hwf Hnd FS' VS' Hext Hnd' Hwf' Hok Hf.
  destruct roundtrip_all as (Hrt & _).
  pose proof (struct_loop2 FS Hall Hwf Hnd FS' VS' Hext Hnd' FS' FNil [] VS' [] eq_refl eq_refl eq_refl
                (all_ty_all rt_ty Hrt FS') Hwf' Hok Hf (Forall_nil _)) as H.
  rewrite app_nil_r in H. cbn [flds_nums existsb] in H. rewrite mask_none in H. rewrite H, floop_nil.
  f_equal. apply mask_all. intros n Hn. apply existsb_self. exact Hn.
Qed.

Theorem proj_all :
  (forall t, rt2_ty t) /\ (forall m, rt2_msg m) /\ (forall fs, rt2_flds fs) /\ (forall vs, rt2_vars vs).
Proof.
  apply schema_mutind.
  - (* TSc *) intros s t' num x' He Hn _ _ Hok _. destruct t' as [s'|m']; [|discriminate]. cbn [ext_ty] in He.
    apply scalar_eqb_eq in He. subst s'. cbn [one_ok one_pk ty_wire ty_unpack proj_one] in *.
    apply andb_true_iff in Hok. destruct Hok as [Hsv Hok].
    exists (pack_scalar s (to_sval x')). split; [apply scalar_field_bytes|]. split; [apply scalar_payload_ok; exact Hok|].
    intros rest Hr. unfold scalar_unpack_val. rewrite scalar_roundtrip by assumption. cbn [bind].
    rewrite of_to_sval by exact Hsv. reflexivity.
  - (* TMsg *) intros m IH t' num x' He Hn Hw Hw' Hok Hf. destruct t' as [s'|m']; [discriminate|].
    cbn [ext_ty one_ok one_pk ty_wire ty_unpack ty_wf proj_one] in *.
    destruct (msgf_shape m' num x' Hok) as [Hb Hfit]. destruct (Hfit Hf) as [Hs Hfm].
    destruct roundtrip_all as (_ & Hrm & _). destruct (Hrm m' x' Hw' Hok Hfm) as [HB _]. rewrite <- pk_len in Hs.
    exists (v64_pack (len (pk_bytes (msg_pk m' x'))) ++ pk_bytes (msg_pk m' x')).
    split; [rewrite Hb, pk_len; reflexivity|]. split.
    + cbn [payload_ok]. exists (pk_bytes (msg_pk m' x')). tauto.
    + intros rest Hr. apply message_unpack_roundtrip; try assumption.
      specialize (IH m' x' He Hw Hw' Hok Hfm [] (Forall_nil _) (fun _ => eq_refl)). rewrite app_nil_r in IH. exact IH.
  - (* MStruct *) intros fs IH m' v' He Hw Hw' Hok Hf rest Hr Hs. destruct m' as [fs'| |]; try discriminate.
    cbn [ext_msg msg_wf val_ok msg_pk proj_msg] in *.
    apply andb_true_iff in Hw. destruct Hw as [Hw Hnd]. apply nodupb_spec in Hnd.
    apply andb_true_iff in Hw'. destruct Hw' as [Hw' Hnd']. apply nodupb_spec in Hnd'.
    destruct v' as [| |vs'|]; try discriminate. cbn [pk_fits pk_bytes] in *.
    apply flds_pk_fits in Hf. destruct Hf as [_ Hf]. rewrite flds_pk_bytes. cbn [pk_bytes app].
    rewrite (Hs eq_refl), app_nil_r. cbn [msg_unpack].
    change (field_loop (flds_merge fs) (S (length (fbytes fs' vs'))) (fbytes fs' vs') (flds_default fs))
      with (floop (flds_merge fs) (fbytes fs' vs') (flds_default fs)).
    rewrite (struct_proj fs IH Hw Hnd fs' vs' He Hnd' Hw' Hok Hf). reflexivity.
  - (* MEnum *) intros vs IH m' v' He Hw Hw' Hok Hf rest Hr _. destruct m' as [|vs'|]; try discriminate.
    cbn [ext_msg msg_wf val_ok msg_pk proj_msg] in *.
    apply andb_true_iff in Hw. destruct Hw as [Hw _]. apply andb_true_iff in Hw. destruct Hw as [Hw Hnd].
    apply nodupb_spec in Hnd.
    apply andb_true_iff in Hw'. destruct Hw' as [Hw' _]. apply andb_true_iff in Hw'. destruct Hw' as [Hw' _].
    destruct v' as [| | |k p]; try discriminate.
    destruct (IH vs' O k p rest He Hw Hw' Hnd Hok Hf Hr) as (num & w & pay & Hb & Hn & _ & Hp & Hun).
    rewrite Hb. cbn [msg_unpack]. rewrite <- app_assoc.
    rewrite (unpack_from_app tag_unpack (tag_pack num w) (pay ++ rest) (num, w)).
    + cbn [bind]. exact Hun.
    + apply tag_roundtrip; [exact Hn|]. apply bytes_ok_app. split; [eapply payload_ok_bytes; exact Hp|exact Hr].
  - (* MResult *) intros t IHt e IHe m' v' He Hw Hw' Hok Hf rest Hr _. destruct m' as [| |t' e']; try discriminate.
    cbn [ext_msg msg_wf val_ok msg_pk proj_msg] in *.
    apply andb_true_iff in He. destruct He as [Het Hee].
    apply andb_true_iff in Hw. destruct Hw as [Hwt Hwe]. apply andb_true_iff in Hw'. destruct Hw' as [Hwt' Hwe'].
    destruct v' as [| | |k x]; try discriminate. destruct k as [|[|k]]; try discriminate.
    + apply result_fits in Hf. destruct Hf as (_ & Hs & Hf).
      destruct roundtrip_all as (_ & Hrm & _). destruct (Hrm t' x Hwt' Hok Hf) as [HB _].
      rewrite result_bytes. rewrite <- pk_len in *. cbn [msg_unpack]. rewrite <- !app_assoc.
      rewrite v64_roundtrip by first [reflexivity | repeat (apply bytes_ok_app; split); try assumption; apply v64_pack_bytes_ok; exact Hs].
      cbn [bind]. change (W32 <=? 10) with false. change (10 =? 10) with true. cbv iota.
      rewrite v64_roundtrip by first [assumption | apply bytes_ok_app; tauto]. cbn [bind].
      rewrite up_take_app. cbn [bind].
      specialize (IHt t' x Het Hwt Hwt' Hok Hf [] (Forall_nil _) (fun _ => eq_refl)). rewrite app_nil_r in IHt.
      rewrite IHt. reflexivity.
    + apply result_fits in Hf. destruct Hf as (_ & Hs & Hf).
      destruct roundtrip_all as (_ & Hrm & _). destruct (Hrm e' x Hwe' Hok Hf) as [HB _].
      rewrite result_bytes. rewrite <- pk_len in *. cbn [msg_unpack]. rewrite <- !app_assoc.
      rewrite v64_roundtrip by first [reflexivity | repeat (apply bytes_ok_app; split); try assumption; apply v64_pack_bytes_ok; exact Hs].
      cbn [bind]. change (W32 <=? 18) with false. change (18 =? 10) with false. change (18 =? 18) with true. cbv iota.
      rewrite v64_roundtrip by first [assumption | apply bytes_ok_app; tauto]. cbn [bind].
      rewrite up_take_app. cbn [bind].
      specialize (IHe e' x Hee Hwe Hwe' Hok Hf [] (Forall_nil _) (fun _ => eq_refl)). rewrite app_nil_r in IHe.
      rewrite IHe. reflexivity.
  - (* FNil *) exact I.
  - (* FCons *) intros num c t IHt rest IHrest. split; assumption.
  - (* VNil *) intros vs' k0 k p' rest He _ _ _ Hok. destruct vs'; try discriminate.
  - (* VUnit *) intros num vrest IH vs' k0 k p' rest He Hw Hw' Hnd Hok Hf Hr. destruct vs' as [|num' vrest'| |]; try discriminate.
    cbn [ext_vars vars_wf vars_ok vars_pk vars_nums proj_vars] in *.
    apply andb_true_iff in He. destruct He as [Hnn He]. apply N.eqb_eq in Hnn. subst num'.
    apply andb_true_iff in Hw. destruct Hw as [Hn Hw]. apply andb_true_iff in Hw'. destruct Hw' as [_ Hw'].
    inversion Hnd as [|? ? Hnotin Hnd']; subst.
    destruct k as [|k].
    + destruct p' as [| |l|]; try discriminate. destruct l; [|discriminate].
      exists num, WLengthDelimited, (v64_pack 0 ++ []).
      split; [cbn [pk_bytes app]; rewrite scalar_field_bytes; reflexivity|]. split; [exact Hn|]. split; [left; reflexivity|].
      split; [cbn [payload_ok]; exists []; repeat split; constructor|].
      cbn [vars_unpack]. rewrite N.eqb_refl, wt_eqb_refl. cbn [andb].
      rewrite <- app_assoc. change (v64_pack 0) with (v64_pack (len (@nil N))).
      rewrite (take_length_prefixed_roundtrip [] rest) by first [reflexivity | constructor | assumption]. cbn [bind].
      rewrite Nat.add_0_r. reflexivity.
    + destruct (IH vrest' (S k0) k p' rest He Hw Hw' Hnd' Hok Hf Hr) as (n' & w & pay & Hb & Hn' & Hin & Hp & Hun).
      exists n', w, pay. split; [exact Hb|]. split; [exact Hn'|]. split; [right; exact Hin|]. split; [exact Hp|].
      cbn [vars_unpack]. destruct (N.eqb_spec n' num) as [->|Hne]; [contradiction|]. cbn [andb].
      rewrite Hun. rewrite Nat.add_succ_r. reflexivity.
  - (* VOne *) intros num t IHt vrest IH vs' k0 k p' rest He Hw Hw' Hnd Hok Hf Hr. destruct vs' as [| |num' t' vrest'|]; try discriminate.
    cbn [ext_vars vars_wf vars_ok vars_pk vars_nums proj_vars] in *.
    apply andb_true_iff in He. destruct He as [He Her]. apply andb_true_iff in He. destruct He as [Hnn Het].
    apply N.eqb_eq in Hnn. subst num'.
    apply andb_true_iff in Hw. destruct Hw as [Hw Hwr]. apply andb_true_iff in Hw. destruct Hw as [Hn Hwt].
    apply andb_true_iff in Hw'. destruct Hw' as [Hw' Hwr']. apply andb_true_iff in Hw'. destruct Hw' as [_ Hwt'].
    inversion Hnd as [|? ? Hnotin Hnd']; subst.
    destruct k as [|k].
    + cbn [pk_fits] in Hf. destruct Hf as [_ Hf].
      destruct (IHt t' num p' Het Hn Hwt Hwt' Hok Hf) as (pay & Hb & Hp & Hu).
      exists num, (ty_wire t), pay. split; [cbn [pk_bytes app]; exact Hb|]. split; [exact Hn|]. split; [left; reflexivity|].
      split; [exact Hp|]. cbn [vars_unpack]. rewrite N.eqb_refl, wt_eqb_refl. cbn [andb].
      change (match t with TSc s => scalar_unpack_val s | TMsg m => message_unpack (msg_unpack m) end) with (ty_unpack t).
      rewrite (unpack_from_app (ty_unpack t) pay rest _ (Hu rest Hr)). cbn [bind]. rewrite Nat.add_0_r. reflexivity.
    + destruct (IH vrest' (S k0) k p' rest Her Hwr Hwr' Hnd' Hok Hf Hr) as (n' & w & pay & Hb & Hn' & Hin & Hp & Hun).
      exists n', w, pay. split; [exact Hb|]. split; [exact Hn'|]. split; [right; exact Hin|]. split; [exact Hp|].
      cbn [vars_unpack]. destruct (N.eqb_spec n' num) as [->|Hne]; [contradiction|]. cbn [andb].
      rewrite Hun. rewrite Nat.add_succ_r. reflexivity.
  - (* VNamed *) intros num fs IHfs vrest IH vs' k0 k p' rest He Hw Hw' Hnd Hok Hf Hr. destruct vs' as [| | |num' fs' vrest']; try discriminate.
    cbn [ext_vars vars_wf vars_ok vars_pk vars_nums proj_vars] in *.
    apply andb_true_iff in He. destruct He as [He Her]. apply andb_true_iff in He. destruct He as [Hnn Hef].
    apply N.eqb_eq in Hnn. subst num'.
    apply andb_true_iff in Hw. destruct Hw as [Hw Hwr]. apply andb_true_iff in Hw. destruct Hw as [Hw Hndf].
    apply andb_true_iff in Hw. destruct Hw as [Hn Hwf]. apply nodupb_spec in Hndf.
    apply andb_true_iff in Hw'. destruct Hw' as [Hw' Hwr']. apply andb_true_iff in Hw'. destruct Hw' as [Hw' Hndf'].
    apply andb_true_iff in Hw'. destruct Hw' as [_ Hwf']. apply nodupb_spec in Hndf'.
    inversion Hnd as [|? ? Hnotin Hnd']; subst.
    destruct k as [|k].
    + destruct p' as [| |ps|]; try discriminate.
      cbn [pk_fits pk_sz PkTag] in Hf. destruct Hf as [_ [Hs Hf]]. apply flds_pk_fits in Hf. destruct Hf as [_ Hf].
      destruct roundtrip_all as (_ & _ & Hrf & _).
      destruct (Hrf fs' fs' FNil [] ps [] eq_refl eq_refl Hndf' Hwf' Hok Hf (Forall_nil _)) as [HB _].
      assert (Hbytes : pk_bytes (flds_pk fs' ps PkUnit) = fbytes fs' ps) by (rewrite flds_pk_bytes; reflexivity).
      assert (Hlen : pk_sz (flds_pk fs' ps PkUnit) = len (fbytes fs' ps)) by (rewrite <- Hbytes; symmetry; apply pk_len).
      exists num, WLengthDelimited, (v64_pack (len (fbytes fs' ps)) ++ fbytes fs' ps).
      split; [cbn [pk_bytes pk_sz PkTag app]; rewrite Hbytes, Hlen; reflexivity|]. split; [exact Hn|]. split; [left; reflexivity|].
      rewrite Hlen in Hs.
      split; [cbn [payload_ok]; exists (fbytes fs' ps); tauto|].
      cbn [vars_unpack]. rewrite N.eqb_refl, wt_eqb_refl. cbn [andb]. rewrite <- app_assoc.
      rewrite take_length_prefixed_roundtrip by assumption. cbn [bind].
      change (field_loop (flds_merge fs) (S (length (fbytes fs' ps))) (fbytes fs' ps) (flds_default fs))
        with (floop (flds_merge fs) (fbytes fs' ps) (flds_default fs)).
      rewrite (struct_proj fs IHfs Hwf Hndf fs' ps Hef Hndf' Hwf' Hok Hf). cbn [bind]. rewrite Nat.add_0_r. reflexivity.
    + destruct (IH vrest' (S k0) k p' rest Her Hwr Hwr' Hnd' Hok Hf Hr) as (n' & w & pay & Hb & Hn' & Hin & Hp & Hun).
      exists n', w, pay. split; [exact Hb|]. split; [exact Hn'|]. split; [right; exact Hin|]. split; [exact Hp|].
      cbn [vars_unpack]. destruct (N.eqb_spec n' num) as [->|Hne]; [contradiction|]. cbn [andb].
      rewrite Hun. rewrite Nat.add_succ_r. reflexivity.
Qed.
