(* Wire/ProofsRec.v — the known class recursive-type-depth: unfoldings of a self-containing type *)
From Coq Require Import NArith ZArith List Bool Lia ZifyN ZifyNat ZifyBool.
From Blue Require Import Gen.Const_Wire Wire.Model Wire.ModelMsg Wire.Spec Wire.ProofsVarint Wire.ProofsScalar Wire.ProofsPk Wire.ProofsMsg Wire.ProofsTotal Wire.ProofsExtra Wire.ProofsProj.
Import ListNotations.
Open Scope N_scope.

(* ---------- a message type that contains itself:  struct Tree { kids: Vec<Tree> (1), v: u64 (2) }.
   The model has tree-shaped shapes only; tree_shape d is Tree unfolded d times (what a decoder
   whose recursion is cut at depth d implements), nest d a Tree value of nesting depth d. *)
Fixpoint tree_shape (d : nat) : msg :=
  match d with
  | O => MStruct (FCons 2 CPlain (TSc UInt64) FNil)
  | S d' => MStruct (FCons 1 CRep (TMsg (tree_shape d')) (FCons 2 CPlain (TSc UInt64) FNil))
  end.
Fixpoint nest (d : nat) : val :=
  match d with O => VL [VZ 1] | S d' => VL [VL [nest d']; VZ 1] end.

Lemma tree_shape_wf : forall d, msg_wf (tree_shape d) = true.
Proof. induction d as [|d IH]; [reflexivity|]. cbn [tree_shape msg_wf flds_wf flds_nums]. rewrite IH. reflexivity. Qed.
Lemma nest_ok : forall d, val_ok (tree_shape d) (nest d) = true.
Proof. induction d as [|d IH]; [reflexivity|]. cbn [tree_shape nest val_ok flds_ok forallb]. rewrite IH. reflexivity. Qed.
Lemma tree_shape_ext : forall d, ext_msg (tree_shape d) (tree_shape (S d)) = true.
Proof.
  induction d as [|d IH]; [reflexivity|].
  change (ext_msg (tree_shape (S d)) (tree_shape (S (S d)))) with
    (ext_flds (FCons 1 CRep (TMsg (tree_shape d)) (FCons 2 CPlain (TSc UInt64) FNil))
              (FCons 1 CRep (TMsg (tree_shape (S d))) (FCons 2 CPlain (TSc UInt64) FNil))).
  rewrite ext_flds_cons. cbn [flds_find_ty N.eqb Pos.eqb container_eqb ext_ty andb].
  change (1 =? 1) with true. cbv iota. cbn [container_eqb andb]. rewrite IH. reflexivity.
Qed.
Lemma nest_proj_differs : forall d, proj_msg (tree_shape d) (tree_shape (S d)) (nest (S d)) <> nest (S d).
Proof.
  induction d as [|d IH]; [discriminate|].
  change (proj_msg (tree_shape (S d)) (tree_shape (S (S d))) (nest (S (S d)))) with
    (VL (proj_flds (FCons 1 CRep (TMsg (tree_shape d)) (FCons 2 CPlain (TSc UInt64) FNil))
                   (FCons 1 CRep (TMsg (tree_shape (S d))) (FCons 2 CPlain (TSc UInt64) FNil))
                   [VL [nest (S d)]; VZ 1])).
  rewrite proj_flds_cons. unfold slot. cbn [flds_find]. change (1 =? 1) with true. cbv iota.
  cbn [proj_fld map proj_one]. intros H. change (nest (S (S d))) with (VL [VL [nest (S d)]; VZ 1]) in H.
  injection H as H. apply IH. exact H.
Qed.

(* for every bound d on the recursion depth there is a valid encoding (nesting d + 1) that the
   full decoder returns intact and the depth-d decoder does not: the recursion depth of a decoder
   for a self-containing type grows with its input *)
Theorem recursive_shape_depth : forall d, msg_pack_sz (tree_shape (S d)) (nest (S d)) < W64 ->
  msg_unpack (tree_shape (S d)) (ref_msg (tree_shape (S d)) (nest (S d))) = Ok (nest (S d), []) /\
  exists cut, msg_unpack (tree_shape d) (ref_msg (tree_shape (S d)) (nest (S d))) = Ok (cut, []) /\ cut <> nest (S d).
Proof.
  intros d Hs. unfold msg_pack_sz in Hs. cbn [pk_sz] in Hs.
  pose proof (tree_shape_wf (S d)) as Hw. pose proof (nest_ok (S d)) as Hok.
  destruct fits_all as (_ & Hfits & _). destruct (Hfits _ _ Hw Hok) as [Hf _]. specialize (Hf Hs).
  destruct standard_all as (_ & Hstd & _). destruct (Hstd _ _ Hw Hok) as [Hb _]. specialize (Hb Hf).
  split.
  - destruct roundtrip_all as (_ & Hrt & _). destruct (Hrt _ _ Hw Hok Hf) as [_ Hun].
    specialize (Hun [] (Forall_nil _) (fun _ => eq_refl)). rewrite app_nil_r, Hb in Hun. exact Hun.
  - exists (proj_msg (tree_shape d) (tree_shape (S d)) (nest (S d))). split; [|apply nest_proj_differs].
    destruct proj_all as (_ & Hp & _).
    specialize (Hp (tree_shape d) (tree_shape (S d)) (nest (S d)) (tree_shape_ext d) (tree_shape_wf d) Hw Hok Hf
                   [] (Forall_nil _)).
    rewrite app_nil_r, Hb in Hp. apply Hp. destruct d; intros _; reflexivity.
Qed.
