(* Wire/ProofsExtra.v — source tables, what Tag::unpack rejects, unknown fields are skipped, and
   the size hypothesis of the message theorems reduced to "the total size is below 2^64". *)
From Coq Require Import NArith ZArith List Bool Lia ZifyN ZifyNat ZifyBool.
From Blue Require Import Gen.Const_Wire Wire.Model Wire.ModelMsg Wire.Spec Wire.GenWT Wire.ProofsVarint Wire.ProofsScalar Wire.ProofsPk Wire.ProofsMsg Wire.ProofsTotal.
Import ListNotations.
Open Scope N_scope.
Arguments N.add : simpl never. Arguments N.sub : simpl never. Arguments N.mul : simpl never.
Arguments N.div : simpl never. Arguments N.modulo : simpl never. Arguments N.leb : simpl never.
Arguments N.ltb : simpl never. Arguments N.eqb : simpl never. Arguments N.pow : simpl never.

(* ---------- the model's tables are the ones in the source (re-extracted on every run) *)
Lemma source_tables_agree :
  length SRC_WIRE_OF = 19%nat /\
  forallb (fun sw => wt_eqb (wire_of (fst sw)) (snd sw)) SRC_WIRE_OF = true /\
  forallb (fun wb => wt_bits (fst wb) =? snd wb) SRC_TAG_BITS = true /\ length SRC_TAG_BITS = 4%nat /\
  forallb (fun bw => match wt_new (fst bw) with Ok w => wt_eqb w (snd bw) | _ => false end) SRC_WT_NEW = true /\
  length SRC_WT_NEW = 4%nat.
Proof. vm_compute. repeat split. Qed.

Lemma scalars_all_listed : forall s, In s (map fst SRC_WIRE_OF).
Proof. destruct s; vm_compute; tauto. Qed.

(* ---------- what Tag::unpack rejects *)
Lemma tag_split : forall f w, w < 8 -> N.shiftr (f * 8 + w) 3 = f /\ N.land (f * 8 + w) 7 = w.
Proof.
  intros f w Hw. rewrite N.shiftr_div_pow2. change (2 ^ 3) with 8. change 7 with (N.ones 3).
  rewrite N.land_ones. change (2 ^ 3) with 8. split.
  - symmetry. apply N.div_unique with (r := w); lia.
  - symmetry. apply N.mod_unique with (q := f); lia.
Qed.

Theorem tag_rejects : forall f w rest, w < 8 -> f * 8 + w < W64 -> bytes_ok rest ->
  tag_unpack (v64_pack (f * 8 + w) ++ rest) =
  if W32 <=? f * 8 + w then Err ETagTooLarge
  else if negb (field_number_valid f) then Err EInvalidFieldNumber
  else match wt_new w with Ok wt => Ok (f, wt, rest) | _ => Err EUnhandledWireType end.
Proof.
  intros f w rest Hw Hlt Hr. unfold tag_unpack. rewrite v64_roundtrip by assumption. cbn [bind].
  destruct (W32 <=? f * 8 + w); [reflexivity|].
  destruct (tag_split f w Hw) as [-> ->]. unfold field_number_valid.
  destruct (field_number_new f) as [f'| | |] eqn:E; cbn [bind negb].
  - destruct (field_number_new_ok _ _ E) as [-> _].
    unfold wt_new. repeat match goal with |- context [if ?c then _ else _] => destruct c end; reflexivity.
  - unfold field_number_new in E. repeat match type of E with (if ?c then _ else _) = _ => destruct c end;
      try discriminate; injection E as <-; reflexivity.
  - unfold field_number_new in E. repeat match type of E with (if ?c then _ else _) = _ => destruct c end; discriminate.
  - unfold field_number_new in E. repeat match type of E with (if ?c then _ else _) = _ => destruct c end; discriminate.
Qed.

Lemma field_number_valid_spec : forall f, field_number_valid f = true <->
  1 <= f /\ f <= 536870911 /\ ~ (19000 <= f <= 19999).
Proof.
  intros f. unfold field_number_valid, field_number_new.
  unfold FIRST_FIELD_NUMBER, LAST_FIELD_NUMBER, FIRST_RESERVED_FIELD_NUMBER, LAST_RESERVED_FIELD_NUMBER.
  destruct (N.ltb_spec f 1); [split; [discriminate|lia]|].
  destruct (N.ltb_spec 536870911 f); [split; [discriminate|lia]|].
  destruct (N.leb_spec 19000 f), (N.leb_spec f 19999); cbn [andb]; split; try discriminate; try reflexivity; lia.
Qed.

(* ---------- fields a reader does not know are skipped without disturbing the ones it does *)
Inductive wf_fields : list N -> Prop :=
| WfNil : wf_fields []
| WfCons : forall num w pay r, field_number_valid num = true -> payload_ok w pay -> wf_fields r ->
           wf_fields (tag_pack num w ++ pay ++ r).

Lemma wf_fields_ok : forall b, wf_fields b -> bytes_ok b.
Proof.
  induction 1 as [|num w pay r Hn Hp Hr IH]; [constructor|].
  repeat (apply bytes_ok_app; split); [apply tag_pack_ok; exact Hn|eapply payload_ok_bytes; exact Hp|exact IH].
Qed.

(* the reader knows (num, wt) iff one of its fields has that number and that wire type *)
Fixpoint flds_knows (fs : flds) (num : N) (wt : wiretype) : bool :=
  match fs with
  | FNil => false
  | FCons n _ t rest => ((num =? n) && wt_eqb wt (ty_wire t)) || flds_knows rest num wt
  end.
Lemma flds_knows_num : forall fs num wt, ~ In num (flds_nums fs) -> flds_knows fs num wt = false.
Proof.
  induction fs as [|n c t rest IH]; intros num wt Hn; [reflexivity|]. cbn [flds_knows flds_nums] in *.
  destruct (N.eqb_spec num n) as [->|Hne]; [exfalso; apply Hn; left; reflexivity|]. cbn [andb orb].
  apply IH. intros Hin. apply Hn. right. exact Hin.
Qed.
Lemma flds_merge_unknown : forall fs num wt fv acc,
  flds_knows fs num wt = false -> flds_merge fs num wt fv acc = Ok acc.
Proof.
  induction fs as [|n c t rest IH]; intros num wt fv acc Hn; [reflexivity|].
  destruct acc as [|a acc]; [reflexivity|]. rewrite flds_merge_cons. cbn [flds_knows] in Hn.
  apply orb_false_iff in Hn. destruct Hn as [Hn1 Hn2]. rewrite Hn1.
  rewrite IH by exact Hn2. reflexivity.
Qed.

Lemma floop_same_prefix : forall step b1, wf_fields b1 -> forall x y acc, bytes_ok x -> bytes_ok y ->
  (forall acc', floop step x acc' = floop step y acc') ->
  floop step (b1 ++ x) acc = floop step (b1 ++ y) acc.
Proof.
  intros step b1 H. induction H as [|num w pay r Hn Hp Hr IH]; intros x y acc Hx Hy Hxy; [apply Hxy|].
  pose proof (wf_fields_ok r Hr) as Hrok.
  rewrite <- !app_assoc.
  rewrite (floop_item step _ acc num w pay (r ++ x)).
  2:{ repeat (apply bytes_ok_app; split); try assumption; [apply tag_pack_ok; exact Hn|eapply payload_ok_bytes; exact Hp]. }
  2:{ apply field_next_field; try assumption. apply bytes_ok_app; tauto. }
  rewrite (floop_item step _ acc num w pay (r ++ y)).
  2:{ repeat (apply bytes_ok_app; split); try assumption; [apply tag_pack_ok; exact Hn|eapply payload_ok_bytes; exact Hp]. }
  2:{ apply field_next_field; try assumption. apply bytes_ok_app; tauto. }
  destruct (step num w pay acc) as [acc'| | |]; cbn [bind]; try reflexivity. apply IH; assumption.
Qed.

Theorem unknown_field_skipped : forall fs b1 num w pay b2,
  wf_fields b1 -> field_number_valid num = true -> payload_ok w pay -> flds_knows fs num w = false -> bytes_ok b2 ->
  msg_unpack (MStruct fs) (b1 ++ (tag_pack num w ++ pay) ++ b2) = msg_unpack (MStruct fs) (b1 ++ b2).
Proof.
  intros fs b1 num w pay b2 H1 Hn Hp Hnot H2. cbn [msg_unpack].
  change (field_loop (flds_merge fs) (S (length (b1 ++ (tag_pack num w ++ pay) ++ b2))) (b1 ++ (tag_pack num w ++ pay) ++ b2) (flds_default fs))
    with (floop (flds_merge fs) (b1 ++ (tag_pack num w ++ pay) ++ b2) (flds_default fs)).
  change (field_loop (flds_merge fs) (S (length (b1 ++ b2))) (b1 ++ b2) (flds_default fs))
    with (floop (flds_merge fs) (b1 ++ b2) (flds_default fs)).
  rewrite (floop_same_prefix (flds_merge fs) b1 H1 ((tag_pack num w ++ pay) ++ b2) b2); [reflexivity| |exact H2|].
  - repeat (apply bytes_ok_app; split); [apply tag_pack_ok; exact Hn|eapply payload_ok_bytes; exact Hp|exact H2].
  - intros acc'. rewrite <- app_assoc.
    rewrite (floop_item _ _ acc' num w pay b2).
    + rewrite flds_merge_unknown by exact Hnot. reflexivity.
    + repeat (apply bytes_ok_app; split); [apply tag_pack_ok; exact Hn|eapply payload_ok_bytes; exact Hp|exact H2].
    + apply field_next_field; assumption.
Qed.

(* ---------- "every u64 the packer holds fits" follows from: the value is a Rust value and the
   total size is below 2^64 *)
Fixpoint fsz (fs : flds) (vs : list val) : N :=
  match fs, vs with
  | FCons num c t rest, v :: vs' => pk_sz (fld_pk num c t v) + fsz rest vs'
  | _, _ => 0
  end.
Lemma flds_pk_sz : forall fs vs acc, pk_sz (flds_pk fs vs acc) = pk_sz acc + fsz fs vs.
Proof.
  induction fs as [|num c t rest IH]; intros vs acc.
  - destruct vs; cbn [flds_pk fsz]; lia.
  - destruct vs as [|v vs]; [cbn [flds_pk fsz]; lia|]. rewrite flds_pk_cons, IH. cbn [pk_sz fsz]. lia.
Qed.

Lemma tag_v64_lt : forall num w, field_number_valid num = true -> tag_v64 num w < W64.
Proof.
  intros num w H. destruct (valid_lt num H) as (_ & H2 & _). rewrite tag_v64_arith by exact H2.
  pose proof (wt_bits_lt8 w). unfold W64. lia.
Qed.

Lemma scalar_field_fits : forall num s v, field_number_valid num = true -> sval_ok s v = true ->
  pk_fits (scalar_field_pk num s v).
Proof.
  intros num s v Hn H. unfold scalar_field_pk. cbn [pk_fits PkTag]. split; [split; [exact I|apply tag_v64_lt; exact Hn]|].
  destruct s, v as [z|bs]; cbn [sval_ok] in H; try discriminate; ok_hyps; cbn [scalar_pk pk_fits];
    try (split; [exact I|]); try exact I; try apply u64_of_int_lt; try assumption; unfold W64 in *; try lia.
  - destruct (z =? 0)%Z; lia.
  - rewrite H0. reflexivity.
  - rewrite H0. reflexivity.
  - rewrite H0. reflexivity.
Qed.

Definition fits_ty (t : ty) : Prop := forall num x, field_number_valid num = true -> ty_wf t = true ->
  one_ok t x = true -> pk_sz (one_pk num t x) < W64 -> pk_fits (one_pk num t x).
Definition fits_msg (m : msg) : Prop := forall v, msg_wf m = true -> val_ok m v = true ->
  (pk_sz (msg_pk m v) < W64 -> pk_fits (msg_pk m v)) /\
  (forall num, field_number_valid num = true -> pk_sz (msgf_pk num m v) < W64 -> pk_fits (msgf_pk num m v)).
Definition fits_flds (fs : flds) : Prop := forall vs, flds_wf fs = true -> flds_ok fs vs = true ->
  fsz fs vs < W64 -> ffits fs vs.
Definition fits_vars (vs : vars) : Prop := forall k p, vars_wf vs = true -> vars_ok vs k p = true ->
  pk_sz (vars_pk vs k p) < W64 -> pk_fits (vars_pk vs k p).

Lemma message_field_sz : forall num body,
  pk_sz (message_field_pk num body) = v64_pack_sz (tag_v64 num WLengthDelimited) + (v64_pack_sz (pk_sz body) + pk_sz body).
Proof. intros. unfold message_field_pk. cbn [pk_sz PkTag]. rewrite !N.add_0_l. reflexivity. Qed.

Lemma message_field_fits_sz : forall num body, field_number_valid num = true ->
  pk_sz (message_field_pk num body) < W64 -> (pk_sz body < W64 -> pk_fits body) -> pk_fits (message_field_pk num body).
Proof.
  intros num body Hn Hs Hb. rewrite message_field_sz in Hs. apply message_field_fits.
  split; [apply tag_v64_lt; exact Hn|]. assert (pk_sz body < W64) by lia. tauto.
Qed.

Lemma rep_fits : forall num t xs, fits_ty t -> field_number_valid num = true -> ty_wf t = true ->
  forallb (one_ok t) xs = true -> pk_sz (fold_right PkSeq PkUnit (map (one_pk num t) xs)) < W64 ->
  pk_fits (fold_right PkSeq PkUnit (map (one_pk num t) xs)).
Proof.
  intros num t xs Ht Hn Hw. induction xs as [|x xs IH]; intros Hok Hs; [exact I|].
  cbn [map fold_right pk_sz pk_fits forallb] in *. apply andb_true_iff in Hok. destruct Hok as [Hx Hxs].
  split; [apply Ht; try assumption; lia|apply IH; [assumption|lia]].
Qed.

Theorem fits_all :
  (forall t, fits_ty t) /\ (forall m, fits_msg m) /\ (forall fs, fits_flds fs) /\ (forall vs, fits_vars vs).
Proof.
  apply schema_mutind.
  - intros s num x Hn _ Hok _. cbn [one_ok one_pk] in *. apply andb_true_iff in Hok. destruct Hok as [_ Hok].
    apply scalar_field_fits; assumption.
  - intros m IH num x Hn Hw Hok Hs. cbn [one_ok one_pk ty_wf] in *. apply (IH x Hw Hok); assumption.
  - (* MStruct *) intros fs IH v Hw Hok. cbn [msg_wf val_ok] in *.
    apply andb_true_iff in Hw. destruct Hw as [Hw _]. destruct v as [| |vs|]; try discriminate.
    assert (Hbody : pk_sz (PkSlice (flds_pk fs vs PkUnit)) < W64 -> pk_fits (PkSlice (flds_pk fs vs PkUnit))).
    { cbn [pk_sz pk_fits]. rewrite flds_pk_sz. cbn [pk_sz]. intros Hs. apply flds_pk_fits. split; [exact I|].
      apply IH; first [assumption | lia]. }
    split; [exact Hbody|]. intros num Hn Hs. cbn [msgf_pk]. apply message_field_fits_sz; assumption.
  - (* MEnum *) intros vs IH v Hw Hok. cbn [msg_wf val_ok] in *.
    apply andb_true_iff in Hw. destruct Hw as [Hw _]. apply andb_true_iff in Hw. destruct Hw as [Hw _].
    destruct v as [| | |k p]; try discriminate. split.
    + intros Hs. cbn [msg_pk] in *. apply IH; assumption.
    + intros num Hn Hs. cbn [msgf_pk] in *. apply message_field_fits_sz; try assumption. intros Hs2. apply IH; assumption.
  - (* MResult *) intros t IHt e IHe v Hw Hok. cbn [msg_wf val_ok] in *.
    apply andb_true_iff in Hw. destruct Hw as [Hwt Hwe].
    destruct v as [| | |k x]; try discriminate. destruct k as [|[|k]]; try discriminate.
    + destruct (IHt x Hwt Hok) as [IH1 IH2]. split.
      * intros Hs. cbn [msg_pk] in *. apply result_fits. unfold result_pk in Hs. cbn [pk_sz] in Hs.
        assert (pk_sz (msg_pk t x) < W64) by lia. split; [reflexivity|]. split; [assumption|apply IH1; assumption].
      * intros num Hn Hs. cbn [msgf_pk] in *. apply message_field_fits_sz; try assumption. intros Hs2. apply (IH2 1 valid_1 Hs2).
    + destruct (IHe x Hwe Hok) as [IH1 IH2]. split.
      * intros Hs. cbn [msg_pk] in *. apply result_fits. unfold result_pk in Hs. cbn [pk_sz] in Hs.
        assert (pk_sz (msg_pk e x) < W64) by lia. split; [reflexivity|]. split; [assumption|apply IH1; assumption].
      * intros num Hn Hs. cbn [msgf_pk] in *. apply message_field_fits_sz; try assumption. intros Hs2. apply (IH2 2 valid_2 Hs2).
  - intros vs _ _ _. destruct vs; exact I.
  - (* FCons *) intros num c t IHt rest IHrest vs Hw Hok Hs.
    destruct vs as [|v vs]; [exact I|]. rewrite flds_wf_cons in Hw. rewrite flds_ok_cons in Hok.
    apply andb_true_iff in Hw. destruct Hw as [Hw Hwr]. apply andb_true_iff in Hw. destruct Hw as [Hn Hwt].
    apply andb_true_iff in Hok. destruct Hok as [Hokv Hokr]. cbn [fsz ffits] in *.
    split; [|apply IHrest; first [assumption | lia]].
    assert (Hsv : pk_sz (fld_pk num c t v) < W64) by lia. clear Hs.
    destruct c; cbn [fld_ok fld_pk] in *.
    + apply IHt; assumption.
    + destruct v as [| |l|]; try discriminate. destruct l as [|x l]; [exact I|]. destruct l; [|discriminate].
      apply IHt; assumption.
    + destruct v as [| |l|]; try discriminate. apply rep_fits; assumption.
  - intros k p _ Hok. discriminate.
  - (* VUnit *) intros num rest IH k p Hw Hok Hs. cbn [vars_wf vars_ok vars_pk] in *.
    apply andb_true_iff in Hw. destruct Hw as [Hn Hw]. destruct k as [|k]; [|apply IH; assumption].
    cbn [pk_fits]. split; [exact I|]. apply scalar_field_fits; [exact Hn|reflexivity].
  - (* VOne *) intros num t IHt rest IH k p Hw Hok Hs. cbn [vars_wf vars_ok vars_pk] in *.
    apply andb_true_iff in Hw. destruct Hw as [Hw Hwr]. apply andb_true_iff in Hw. destruct Hw as [Hn Hwt].
    destruct k as [|k]; [|apply IH; assumption].
    cbn [pk_fits pk_sz] in *. split; [exact I|]. apply (IHt num p Hn Hwt Hok). unfold one_pk. lia.
  - (* VNamed *) intros num fs IHfs rest IH k p Hw Hok Hs. cbn [vars_wf vars_ok vars_pk] in *.
    apply andb_true_iff in Hw. destruct Hw as [Hw Hwr]. apply andb_true_iff in Hw. destruct Hw as [Hw _].
    apply andb_true_iff in Hw. destruct Hw as [Hn Hwf].
    destruct k as [|k]; [|apply IH; assumption].
    destruct p as [| |ps|]; try discriminate.
    cbn [pk_fits pk_sz PkTag] in *. rewrite flds_pk_sz in *. cbn [pk_sz] in *.
    split; [split; [exact I|apply tag_v64_lt; exact Hn]|]. split; [lia|].
    apply flds_pk_fits. split; [exact I|]. apply IHfs; first [assumption | lia].
Qed.
