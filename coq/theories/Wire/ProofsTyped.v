(* Wire/ProofsTyped.v — whatever unpack returns is a value of the shape it was asked for (and the
   defaults are values of their shapes). *)
From Coq Require Import NArith ZArith List Bool Lia ZifyN ZifyNat ZifyBool.
From Blue Require Import Gen.Const_Wire Wire.Model Wire.ModelMsg Wire.Spec Wire.ProofsVarint Wire.ProofsScalar Wire.ProofsPk Wire.ProofsMsg Wire.ProofsTotal.
Import ListNotations.
Open Scope N_scope.
Arguments N.add : simpl never. Arguments N.sub : simpl never. Arguments N.mul : simpl never.
Arguments N.div : simpl never. Arguments N.modulo : simpl never. Arguments N.leb : simpl never.
Arguments N.ltb : simpl never. Arguments N.eqb : simpl never. Arguments N.pow : simpl never.

(* ---------- what unpack returns is a value of the shape it was asked for *)
Lemma bind_ok_inv : forall {A B} (r : res A) (f : A -> res B) b, bind r f = Ok b -> exists a, r = Ok a /\ f a = Ok b.
Proof. intros A B r f b H. destruct r; try discriminate. exists a. split; [reflexivity|exact H]. Qed.

Lemma field_loop_inv : forall (I : list val -> Prop) step,
  (forall num wt fv acc acc', bytes_ok fv -> I acc -> step num wt fv acc = Ok acc' -> I acc') ->
  forall f buf acc acc', bytes_ok buf -> I acc -> field_loop step f buf acc = Ok acc' -> I acc'.
Proof.
  intros I step Hstep. induction f as [|f IH]; intros buf acc acc' Hb HI H; [discriminate|]. cbn [field_loop] in H.
  pose proof (field_next_total buf Hb) as Hit. destruct (field_next buf) as [|e| | |num wt fv rest]; try discriminate.
  - inversion H; subst. exact HI.
  - cbn [item_ok] in Hit. destruct Hit as (pre & _ & _ & Hfv & Hrest & _).
    apply bind_ok_inv in H. destruct H as (acc1 & H1 & H2). eapply IH; [exact Hrest| |exact H2].
    exact (Hstep num wt fv acc acc1 Hfv HI H1).
Qed.

Lemma message_unpack_inv : forall (U : list N -> res (val * list N)) buf x t, bytes_ok buf ->
  message_unpack U buf = Ok (x, t) -> exists h, bytes_ok h /\ U h = Ok (x, []).
Proof.
  intros U buf x t Hb H. unfold message_unpack in H.
  destruct (take_prefixed_total buf Hb) as [v pre h t' Hbuf Hl Hp Hsz Hv| |]; try discriminate.
  cbn [bind] in H. destruct (U h) as [[x' empty]| | |] eqn:E; try discriminate. cbn [bind] in H.
  destruct empty; [|discriminate]. inversion H; subst. exists h. split; [|exact E].
  apply bytes_ok_app in Hb. destruct Hb as [_ Hb]. apply bytes_ok_app in Hb. tauto.
Qed.

Lemma unpack_from_inv : forall {A} (U : list N -> res (A * list N)) up a r,
  unpack_from U up = Ok (a, r) -> exists after, U up = Ok (a, after).
Proof.
  intros A U up a r H. unfold unpack_from in H. destruct (U up) as [[a' after]| | |]; try discriminate.
  cbn [bind] in H. apply bind_ok_inv in H. destruct H as (d & _ & H). inversion H; subst. exists after. reflexivity.
Qed.

Lemma sval_default_ok : forall s, sval_ok s (sval_default s) = true.
Proof. destruct s; vm_compute; reflexivity. Qed.
Lemma is_sval_of : forall v, is_sval (of_sval v) = true.
Proof. destruct v; reflexivity. Qed.
Lemma to_of_sval : forall v, to_sval (of_sval v) = v.
Proof. destruct v; reflexivity. Qed.

Definition vars_dflt (vs : vars) : val :=
  match vs with
  | VNil | VUnit _ _ => VL []
  | VOne _ t _ => match t with TSc s => of_sval (sval_default s) | TMsg m' => msg_default m' end
  | VNamed _ fs _ => VL (flds_default fs)
  end.
Lemma msg_default_enum : forall vs, msg_default (MEnum vs) = VV O (vars_dflt vs).
Proof. destruct vs; reflexivity. Qed.

Definition wt_ty (t : ty) : Prop := ty_wf t = true ->
  one_ok t (dflt CPlain t) = true /\
  (forall buf v r, bytes_ok buf -> ty_unpack t buf = Ok (v, r) -> one_ok t v = true).
Definition wt_msg (m : msg) : Prop := msg_wf m = true ->
  val_ok m (msg_default m) = true /\
  (forall buf v r, bytes_ok buf -> msg_unpack m buf = Ok (v, r) -> val_ok m v = true).
Definition wt_flds (fs : flds) : Prop := flds_wf fs = true ->
  flds_ok fs (flds_default fs) = true /\
  (forall num wt fv acc acc', bytes_ok fv -> flds_ok fs acc = true ->
     flds_merge fs num wt fv acc = Ok acc' -> flds_ok fs acc' = true).
Definition wt_vars (vs : vars) : Prop := vars_wf vs = true ->
  (vs <> VNil -> vars_ok vs O (vars_dflt vs) = true) /\
  (forall k num wt up v r, bytes_ok up -> vars_unpack vs k num wt up = Ok (v, r) ->
     exists j p, v = VV (k + j) p /\ vars_ok vs j p = true).

Lemma merge_ok : forall c t a x, fld_ok c t a = true -> one_ok t x = true -> fld_ok c t (merge c a x) = true.
Proof.
  intros c t a x Ha Hx. destruct c; cbn [merge fld_ok] in *.
  - exact Hx.
  - exact Hx.
  - destruct a as [| |l|]; try discriminate. rewrite forallb_app. cbn [forallb]. rewrite Ha, Hx. reflexivity.
Qed.

Lemma dflt_ok : forall c t, one_ok t (dflt CPlain t) = true -> fld_ok c t (dflt c t) = true.
Proof. intros c t H. destruct c; cbn [dflt fld_ok]; [exact H|reflexivity|reflexivity]. Qed.

Lemma take_length_prefixed_inv : forall up h t, bytes_ok up -> take_length_prefixed up = Ok (h, t) -> bytes_ok h.
Proof.
  intros up h t Hb H. destruct (take_length_prefixed_total up Hb) as [(h' & t' & Heq & _ & Hh)|[e Heq]]; rewrite Heq in H;
    [inversion H; subst; exact Hh|discriminate].
Qed.

Theorem welltyped_all :
  (forall t, wt_ty t) /\ (forall m, wt_msg m) /\ (forall fs, wt_flds fs) /\ (forall vs, wt_vars vs).
Proof.
  apply schema_mutind.
  - (* TSc *) intros s _. split.
    + cbn [dflt one_ok]. rewrite is_sval_of, to_of_sval, sval_default_ok. reflexivity.
    + intros buf v r Hb H. cbn [ty_unpack one_ok] in *. unfold scalar_unpack_val in H.
      destruct (scalar_total s buf Hb) as [sv pre r' Hbuf Hok|e]; try discriminate. cbn [bind] in H. inversion H; subst.
      rewrite is_sval_of, to_of_sval, Hok. reflexivity.
  - (* TMsg *) intros m IH Hw. cbn [ty_wf] in Hw. destruct (IH Hw) as [IH1 IH2]. split; [exact IH1|].
    intros buf v r Hb H. cbn [ty_unpack one_ok] in *.
    destruct (message_unpack_inv _ _ _ _ Hb H) as (h & Hh & HU). eapply IH2; eassumption.
  - (* MStruct *) intros fs IH Hw. cbn [msg_wf] in Hw. apply andb_true_iff in Hw. destruct Hw as [Hw _].
    destruct (IH Hw) as [Hd Hm]. split; [cbn [msg_default val_ok]; exact Hd|].
    intros buf v r Hb H. cbn [msg_unpack] in H. apply bind_ok_inv in H. destruct H as (acc & H1 & H2). inversion H2; subst.
    cbn [val_ok]. apply (field_loop_inv (fun a => flds_ok fs a = true) (flds_merge fs) Hm _ _ _ _ Hb Hd H1).
  - (* MEnum *) intros vs IH Hw. cbn [msg_wf] in Hw. apply andb_true_iff in Hw. destruct Hw as [Hw Hne].
    apply andb_true_iff in Hw. destruct Hw as [Hw _]. destruct (IH Hw) as [Hd Hm]. split.
    + rewrite msg_default_enum. cbn [val_ok]. apply Hd. destruct vs; [discriminate| | |]; discriminate.
    + intros buf v r Hb H. cbn [msg_unpack] in H. apply bind_ok_inv in H. destruct H as ([[num wt] up] & H1 & H2).
      destruct (unpack_from_inv _ _ _ _ H1) as (after & Ht).
      assert (Hup : bytes_ok up).
      { pose proof (unpack_from_total tag_unpack buf (tag_unpack_un_ok buf Hb)) as Hu. rewrite H1 in Hu.
        inversion Hu; subst. eapply suffix_bytes_ok; eassumption. }
      destruct (Hm O num wt up v r Hup H2) as (j & p & -> & Hok). cbn [val_ok Nat.add]. exact Hok.
  - (* MResult *) intros t IHt e IHe Hw. cbn [msg_wf] in Hw. apply andb_true_iff in Hw. destruct Hw as [Hwt Hwe].
    destruct (IHt Hwt) as [Hdt Hmt]. destruct (IHe Hwe) as [Hde Hme]. split; [cbn [msg_default val_ok]; exact Hdt|].
    intros buf v r Hb H. cbn [msg_unpack] in H.
    destruct (v64_unpack_un_ok buf Hb) as [tag up Hs|er]; try discriminate. cbn [bind] in H.
    pose proof (suffix_bytes_ok _ _ Hs Hb) as Hup.
    destruct (W32 <=? tag); [discriminate|]. destruct (tag =? 10).
    + destruct (v64_unpack_un_ok up Hup) as [x up1 Hs1|er]; try discriminate. cbn [bind] in H.
      destruct (up_take_total up1 x) as [(h & t2 & Ht & Hup1)|[er He]]; rewrite ?Ht, ?He in H; try discriminate. cbn [bind] in H.
      assert (Hh : bytes_ok h).
      { pose proof (suffix_bytes_ok _ _ Hs1 Hup) as H1. rewrite Hup1 in H1. apply bytes_ok_app in H1. tauto. }
      apply bind_ok_inv in H. destruct H as ([tv r'] & H1 & H2). inversion H2; subst. cbn [val_ok]. eapply Hmt; eassumption.
    + destruct (tag =? 18); [|discriminate].
      destruct (v64_unpack_un_ok up Hup) as [x up1 Hs1|er]; try discriminate. cbn [bind] in H.
      destruct (up_take_total up1 x) as [(h & t2 & Ht & Hup1)|[er He]]; rewrite ?Ht, ?He in H; try discriminate. cbn [bind] in H.
      assert (Hh : bytes_ok h).
      { pose proof (suffix_bytes_ok _ _ Hs1 Hup) as H1. rewrite Hup1 in H1. apply bytes_ok_app in H1. tauto. }
      apply bind_ok_inv in H. destruct H as ([ev r'] & H1 & H2). inversion H2; subst. cbn [val_ok]. eapply Hme; eassumption.
  - (* FNil *) intros _. split; [reflexivity|]. intros num wt fv acc acc' _ Hok H. cbn [flds_merge] in H. inversion H; subst. exact Hok.
  - (* FCons *) intros n c t IHt rest IHrest Hw. rewrite flds_wf_cons in Hw.
    apply andb_true_iff in Hw. destruct Hw as [Hw Hwr]. apply andb_true_iff in Hw. destruct Hw as [Hn Hwt].
    destruct (IHt Hwt) as [Hdt Hmt]. destruct (IHrest Hwr) as [Hdr Hmr]. split.
    + rewrite flds_default_cons, flds_ok_cons, Hdr, andb_true_r. apply dflt_ok. exact Hdt.
    + intros num wt fv acc acc' Hfv Hok H. destruct acc as [|a acc]; [discriminate|].
      rewrite flds_ok_cons in Hok. apply andb_true_iff in Hok. destruct Hok as [Ha Hacc].
      rewrite flds_merge_cons in H. destruct ((num =? n) && wt_eqb wt (ty_wire t)).
      * apply bind_ok_inv in H. destruct H as ([x r] & H1 & H2). inversion H2; subst.
        rewrite flds_ok_cons, Hacc, andb_true_r. apply merge_ok; [exact Ha|]. eapply Hmt; eassumption.
      * apply bind_ok_inv in H. destruct H as (racc & H1 & H2). inversion H2; subst.
        rewrite flds_ok_cons, Ha. cbn [andb]. eapply Hmr; eassumption.
  - (* VNil *) intros _. split; [intros H; contradiction|]. intros k num wt up v r _ H. discriminate.
  - (* VUnit *) intros n rest IH Hw. cbn [vars_wf] in Hw. apply andb_true_iff in Hw. destruct Hw as [_ Hw].
    destruct (IH Hw) as [_ Hm]. split; [intros _; reflexivity|].
    intros k num wt up v r Hup H. cbn [vars_unpack] in H. destruct ((num =? n) && wt_eqb wt WLengthDelimited).
    + apply bind_ok_inv in H. destruct H as ([h t] & _ & H2). inversion H2; subst. exists O, (VL []).
      rewrite Nat.add_0_r. split; reflexivity.
    + destruct (Hm (S k) num wt up v r Hup H) as (j & p & -> & Hok). exists (S j), p. rewrite Nat.add_succ_r. split; [reflexivity|exact Hok].
  - (* VOne *) intros n t IHt rest IH Hw. cbn [vars_wf] in Hw. apply andb_true_iff in Hw. destruct Hw as [Hw Hwr].
    apply andb_true_iff in Hw. destruct Hw as [_ Hwt]. destruct (IHt Hwt) as [Hdt Hmt]. destruct (IH Hwr) as [_ Hm].
    split; [intros _; cbn [vars_ok vars_dflt]; exact Hdt|].
    intros k num wt up v r Hup H. cbn [vars_unpack] in H. destruct ((num =? n) && wt_eqb wt (ty_wire t)).
    + change (match t with TSc s => scalar_unpack_val s | TMsg m => message_unpack (msg_unpack m) end) with (ty_unpack t) in H.
      apply bind_ok_inv in H. destruct H as ([x up'] & H1 & H2). inversion H2; subst.
      destruct (unpack_from_inv _ _ _ _ H1) as (after & Hu). exists O, x. rewrite Nat.add_0_r. split; [reflexivity|].
      cbn [vars_ok]. eapply Hmt; eassumption.
    + destruct (Hm (S k) num wt up v r Hup H) as (j & p & -> & Hok). exists (S j), p. rewrite Nat.add_succ_r. split; [reflexivity|exact Hok].
  - (* VNamed *) intros n fs IHfs rest IH Hw. cbn [vars_wf] in Hw. apply andb_true_iff in Hw. destruct Hw as [Hw Hwr].
    apply andb_true_iff in Hw. destruct Hw as [Hw _]. apply andb_true_iff in Hw. destruct Hw as [_ Hwf].
    destruct (IHfs Hwf) as [Hdf Hmf]. destruct (IH Hwr) as [_ Hm].
    split; [intros _; cbn [vars_ok vars_dflt]; exact Hdf|].
    intros k num wt up v r Hup H. cbn [vars_unpack] in H. destruct ((num =? n) && wt_eqb wt WLengthDelimited).
    + apply bind_ok_inv in H. destruct H as ([local up'] & H1 & H2).
      pose proof (take_length_prefixed_inv _ _ _ Hup H1) as Hloc.
      apply bind_ok_inv in H2. destruct H2 as (acc & H3 & H4). inversion H4; subst.
      exists O, (VL acc). rewrite Nat.add_0_r. split; [reflexivity|]. cbn [vars_ok].
      apply (field_loop_inv (fun a => flds_ok fs a = true) (flds_merge fs) Hmf _ _ _ _ Hloc Hdf H3).
    + destruct (Hm (S k) num wt up v r Hup H) as (j & p & -> & Hok). exists (S j), p. rewrite Nat.add_succ_r. split; [reflexivity|exact Hok].
Qed.
