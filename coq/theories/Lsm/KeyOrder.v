(* Lsm/KeyOrder.v — the byte-string order [u8]::cmp as lex_cmp: a decidable total order *)
From Coq Require Import NArith List Bool Lia.
From Blue Require Import Lsm.Model.
Import ListNotations.
Open Scope N_scope.

Lemma lex_cmp_refl a : lex_cmp a a = Eq.
Proof. induction a as [|x a IH]; cbn; [reflexivity|]. now rewrite N.compare_refl. Qed.

Lemma lex_cmp_eq a b : lex_cmp a b = Eq -> a = b.
Proof.
  revert b; induction a as [|x a IH]; intros [|y b]; cbn; try discriminate; [reflexivity|].
  destruct (N.compare x y) eqn:E; try discriminate.
  apply N.compare_eq in E. intros H. f_equal; [exact E|now apply IH].
Qed.

Lemma lex_cmp_antisym a b : lex_cmp b a = CompOpp (lex_cmp a b).
Proof.
  revert b; induction a as [|x a IH]; intros [|y b]; cbn; try reflexivity.
  rewrite (N.compare_antisym x y). destruct (N.compare x y); cbn; auto.
Qed.

Lemma lex_cmp_lt_trans a b c : lex_cmp a b = Lt -> lex_cmp b c = Lt -> lex_cmp a c = Lt.
Proof.
  revert b c; induction a as [|x a IH]; intros [|y b] [|z c]; cbn; try discriminate; try reflexivity.
  destruct (N.compare x y) eqn:E1; destruct (N.compare y z) eqn:E2; try discriminate; intros H1 H2.
  - apply N.compare_eq in E1, E2. subst. rewrite N.compare_refl. eapply IH; eauto.
  - apply N.compare_eq in E1. subst. now rewrite E2.
  - apply N.compare_eq in E2. subst. now rewrite E1.
  - rewrite N.compare_lt_iff in *. assert (x < z) by lia. rewrite <- N.compare_lt_iff in H. now rewrite H.
Qed.

Lemma key_eqb_refl k : key_eqb k k = true.
Proof. unfold key_eqb. now rewrite lex_cmp_refl. Qed.

Lemma key_eqb_eq a b : key_eqb a b = true <-> a = b.
Proof.
  unfold key_eqb. split.
  - destruct (lex_cmp a b) eqn:E; try discriminate. intros _. now apply lex_cmp_eq.
  - intros ->. now rewrite lex_cmp_refl.
Qed.

Lemma key_eqb_sym a b : key_eqb a b = key_eqb b a.
Proof. unfold key_eqb. rewrite (lex_cmp_antisym a b). destruct (lex_cmp a b); reflexivity. Qed.

Lemma key_leb_refl k : key_leb k k = true.
Proof. unfold key_leb. now rewrite lex_cmp_refl. Qed.

Lemma key_leb_trans a b c : key_leb a b = true -> key_leb b c = true -> key_leb a c = true.
Proof.
  unfold key_leb. destruct (lex_cmp a b) eqn:E1; destruct (lex_cmp b c) eqn:E2; try discriminate; intros _ _.
  - apply lex_cmp_eq in E1, E2. subst. now rewrite lex_cmp_refl.
  - apply lex_cmp_eq in E1. subst. now rewrite E2.
  - apply lex_cmp_eq in E2. subst. now rewrite E1.
  - now rewrite (lex_cmp_lt_trans _ _ _ E1 E2).
Qed.

Lemma key_ltb_leb_trans a b c : key_ltb a b = true -> key_leb b c = true -> key_ltb a c = true.
Proof.
  unfold key_ltb, key_leb. destruct (lex_cmp a b) eqn:E1; try discriminate.
  destruct (lex_cmp b c) eqn:E2; try discriminate; intros _ _.
  - apply lex_cmp_eq in E2. subst. now rewrite E1.
  - now rewrite (lex_cmp_lt_trans _ _ _ E1 E2).
Qed.

Lemma key_leb_ltb_trans a b c : key_leb a b = true -> key_ltb b c = true -> key_ltb a c = true.
Proof.
  unfold key_ltb, key_leb. destruct (lex_cmp b c) eqn:E2; try discriminate.
  destruct (lex_cmp a b) eqn:E1; try discriminate; intros _ _.
  - apply lex_cmp_eq in E1. subst. now rewrite E2.
  - now rewrite (lex_cmp_lt_trans _ _ _ E1 E2).
Qed.

Lemma key_ltb_not_leb a b : key_ltb a b = negb (key_leb b a).
Proof. unfold key_ltb, key_leb. rewrite (lex_cmp_antisym a b). destruct (lex_cmp a b); reflexivity. Qed.

Lemma key_leb_total a b : key_leb a b = true \/ key_leb b a = true.
Proof. unfold key_leb. rewrite (lex_cmp_antisym a b). destruct (lex_cmp a b); cbn; auto. Qed.

Lemma key_leb_antisym a b : key_leb a b = true -> key_leb b a = true -> a = b.
Proof.
  unfold key_leb. rewrite (lex_cmp_antisym a b). destruct (lex_cmp a b) eqn:E; cbn; try discriminate.
  intros _ _. now apply lex_cmp_eq.
Qed.

Lemma key_ltb_irrefl a : key_ltb a a = false.
Proof. unfold key_ltb. now rewrite lex_cmp_refl. Qed.
