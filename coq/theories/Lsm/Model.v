(* Lsm/Model.v — executable model of the lsmtk tree and store (lsmtk/src/tree/mod.rs,
   lsmtk/src/kvs/mod.rs) at the granularity of files and entries.  Definitions only.

   What is transcribed from the Rust:
     Level::lower_bound / upper_bound (partition points), Version::load (L0 by biggest_timestamp
     descending, then the slice [lower_bound, upper_bound) of every deeper level, first hit wins,
     a tombstone is a hit), Sst::load (newest version of the key not newer than the timestamp),
     MemTable::load, Version::ingest (append to L0), Version::apply_compaction_inner (retain on
     levels lower..upper-1, replace the slice of the upper level by the outputs), the sequence
     number assignment of KeyValueStore::write, rollover + flush.
   What is an input (oracle) of the model: how the multi-builder cuts outputs into files, file
   sizes, which compaction the selector chose.  The admissibility predicate `valid_compactionb`
   says which choices the theorems cover; the correspondence check evaluates it on every
   compaction the real selector picks. *)
From Coq Require Import NArith List Bool Arith.
From Blue Require Import Gen.Const_Lsm.
Import ListNotations.
Open Scope N_scope.

Definition key := list N.

Fixpoint lex_cmp (a b : key) : comparison :=
  match a, b with
  | [], [] => Eq
  | [], _ :: _ => Lt
  | _ :: _, [] => Gt
  | x :: a', y :: b' => match N.compare x y with Eq => lex_cmp a' b' | c => c end
  end.
Definition key_eqb (a b : key) : bool := match lex_cmp a b with Eq => true | _ => false end.
Definition key_ltb (a b : key) : bool := match lex_cmp a b with Lt => true | _ => false end.
Definition key_leb (a b : key) : bool := match lex_cmp a b with Gt => false | _ => true end.

Record entry := mkE { ek : key; ets : N; ev : option (list N) }.
Record file := mkF { fid : N; fents : list entry; fsize : N }.

Definition dummy_entry : entry := mkE [] 0 None.
Definition first_key (f : file) : key := ek (hd dummy_entry (fents f)).
Definition last_key (f : file) : key := ek (last (fents f) dummy_entry).
Definition biggest_ts (f : file) : N := fold_right (fun e m => N.max (ets e) m) 0 (fents f).
Definition smallest_ts (f : file) : N :=
  match fents f with [] => 0 | e :: r => fold_right (fun e m => N.min (ets e) m) (ets e) r end.

Definition level := list file.
Definition version := list level.     (* index 0 is L0; LSM_NUM_LEVELS levels *)

(* slice::partition_point on a partitioned slice: number of leading elements satisfying p *)
Fixpoint partition_point {A} (p : A -> bool) (l : list A) : nat :=
  match l with [] => O | x :: r => if p x then S (partition_point p r) else O end.

(* Level::lower_bound: partition_point(|x| key > x.last_key) *)
Definition lower_bound (lv : level) (k : key) : nat := partition_point (fun f => key_ltb (last_key f) k) lv.
(* Level::upper_bound: partition_point(|x| key >= x.first_key) *)
Definition upper_bound (lv : level) (k : key) : nat := partition_point (fun f => key_leb (first_key f) k) lv.
Definition slice (lv : level) (lo hi : nat) : level := firstn (hi - lo) (skipn lo lv).
Definition key_slice (lv : level) (k : key) : level := slice lv (lower_bound lv k) (upper_bound lv k).

(* Sst::load / MemTable::load: the newest version of k with timestamp <= t.
   Files hold a key's versions newest first; the memtable list is kept newest first. *)
Definition hit (k : key) (t : N) (e : entry) : bool := key_eqb (ek e) k && (ets e <=? t).
Definition ents_load (es : list entry) (k : key) (t : N) : option entry := find (hit k t) es.

Fixpoint first_some {A B} (f : A -> option B) (l : list A) : option B :=
  match l with [] => None | x :: r => match f x with Some y => Some y | None => first_some f r end end.

(* Version::load: level0.sort_by_key(|md| md.biggest_timestamp) - a STABLE ascending sort - then
   iterated in reverse.  isort_by folds from the right and inserts x (which preceded everything
   already inserted) BEFORE the elements that are not smaller, so files that tie on
   biggest_timestamp keep their order in L0, exactly as the stable sort leaves them; the reverse
   then consults the LATER of two tying files first.  The model agrees with the Rust on ties
   (they can exist: a reopen may find two L0 files cut from one batch). *)
Fixpoint insert_by (m : file -> N) (x : file) (l : list file) : list file :=
  match l with
  | [] => [x]
  | y :: r => if m y <? m x then y :: insert_by m x r else x :: l
  end.
Fixpoint isort_by (m : file -> N) (l : list file) : list file :=
  match l with [] => [] | x :: r => insert_by m x (isort_by m r) end.
Definition l0_order (l0 : level) : list file := rev (isort_by biggest_ts l0).

Definition lookup_files (v : version) (k : key) : list file :=
  l0_order (hd [] v) ++ flat_map (fun lv => key_slice lv k) (tl v).

Definition load_version (v : version) (k : key) (t : N) : option entry :=
  first_some (fun f => ents_load (fents f) k t) (lookup_files v k).

(* ---- the store: memtable (newest first) + version.  The immutable memtable exists only inside
   a flush and is modelled in the concurrent model (C06/C07). ---- *)
Record store := mkS { mem : list entry; ver : version; seq : N }.

Definition load (s : store) (k : key) (t : N) : option entry :=
  match ents_load (mem s) k t with
  | Some e => Some e
  | None => load_version (ver s) k t
  end.

(* what `get` shows: a put's value, or nothing *)
Definition get (s : store) (k : key) : option (list N) :=
  match load s k (seq s) with Some e => ev e | None => None end.

(* KeyValueStore::write: one fresh sequence number for the whole batch.  Every entry of a batch
   gets the same timestamp, so the store first keeps the LAST write to each key (the `seen`/`keep`
   loop: walk the batch from the back, keep an entry iff its key was not seen yet, retain in the
   original order): an entry stays iff no LATER entry of the batch names its key. *)
Fixpoint dedup_last (b : list (key * option (list N))) : list (key * option (list N)) :=
  match b with
  | [] => []
  | kv :: r => if existsb (fun kv' => key_eqb (fst kv') (fst kv)) r then dedup_last r
               else kv :: dedup_last r
  end.
Definition write (s : store) (batch : list (key * option (list N))) : store :=
  let n := seq s + 1 in
  mkS (rev (map (fun kv => mkE (fst kv) n (snd kv)) (dedup_last batch)) ++ mem s) (ver s) n.

(* sorting entries as the skiplist / builders hold them: key ascending, timestamp descending *)
Definition entry_leb (a b : entry) : bool :=
  match lex_cmp (ek a) (ek b) with Lt => true | Gt => false | Eq => ets b <=? ets a end.
Fixpoint insert_entry (x : entry) (l : list entry) : list entry :=
  match l with
  | [] => [x]
  | y :: r => if entry_leb x y then x :: l else y :: insert_entry x r
  end.
Fixpoint sort_entries (l : list entry) : list entry :=
  match l with [] => [] | x :: r => insert_entry x (sort_entries r) end.

Fixpoint set_nth {A} (n : nat) (x : A) (l : list A) : list A :=
  match n, l with
  | O, _ :: t => x :: t
  | S n', h :: t => h :: set_nth n' x t
  | _, [] => []
  end.

(* rollover + flush: the memtable becomes one L0 file (Version::ingest pushes at the end);
   the sequence counter advances by one for the new memtable's number *)
Definition flush (s : store) (id sz : N) : store :=
  match mem s with
  | [] => s
  | _ => mkS [] (set_nth 0 (hd [] (ver s) ++ [mkF id (sort_entries (mem s)) sz]) (ver s)) (seq s + 1)
  end.

(* ---- compactions ---- *)
Record compaction := mkC { clower : nat; cupper : nat; cfirst : key; clast : key; cinputs : list N }.

Definition is_input (c : compaction) (f : file) : bool := existsb (N.eqb (fid f)) (cinputs c).

(* Version::apply_compaction_inner: levels lower..upper-1 lose the inputs (retain); the slice
   [lower_bound(first_key), upper_bound(last_key)) of the upper level is replaced by the outputs.
   (Indexing levels[upper] out of range panics in the Rust; the guard makes the model total.) *)
Definition apply_compaction (v : version) (c : compaction) (outs : list file) : version :=
  let lo := clower c in let up := cupper c in
  if (up <? length v)%nat then
    let u := nth up v [] in
    let lb := lower_bound u (cfirst c) in
    let ub := upper_bound u (clast c) in
    firstn lo v ++ map (filter (fun f => negb (is_input c f))) (firstn (up - lo) (skipn lo v))
      ++ [firstn lb u ++ outs ++ skipn ub u] ++ skipn (S up) v
  else v.

Definition files_overlap (f g : file) : bool :=
  key_leb (first_key f) (last_key g) && key_leb (first_key g) (last_key f).

(* the levels in lookup order: L0 by biggest timestamp descending, deeper levels as stored *)
Definition ordered_levels (v : version) : list level :=
  match v with [] => [] | l0 :: r => l0_order l0 :: r end.

(* the files of levels lower..upper-1, in the order `load` consults them *)
Definition mid_files (v : version) (c : compaction) : list file :=
  concat (firstn (cupper c - clower c) (skipn (clower c) (ordered_levels v))).
Definition upper_level (v : version) (c : compaction) : level := nth (cupper c) v [].
Definition upper_slice (v : version) (c : compaction) : level :=
  let u := upper_level v c in slice u (lower_bound u (cfirst c)) (upper_bound u (clast c)).

(* closure: no non-input overlapping an input is consulted after it *)
Fixpoint closed_overlap (inp : file -> bool) (l : list file) : bool :=
  match l with
  | [] => true
  | x :: r => (negb (inp x) || forallb (fun g => inp g || negb (files_overlap x g)) r) && closed_overlap inp r
  end.

(* admissibility of a chosen compaction (what the theorems need):
   - lower < upper < number of levels, first <= last, lower_bound(first) <= upper_bound(last) on
     the upper level (the Rust subtracts the two);
   - the files of the upper level's slice [lower_bound(first), upper_bound(last)) are inputs, no
     other file of the upper level is;
   - every input of levels lower..upper lies inside [first, last];
   - closure (closed_overlap) over the files of levels lower..upper-1 in lookup order: a
     non-input that shares keys with an input and is consulted after it would end up *above* the
     input's data once that data has moved down to the upper level;
   - every input id names a file of those levels. *)
Definition vc_shape (v : version) (c : compaction) : bool :=
  let u := upper_level v c in
  (clower c <? cupper c)%nat && (cupper c <? length v)%nat && key_leb (cfirst c) (clast c) &&
  (lower_bound u (cfirst c) <=? upper_bound u (clast c))%nat.
Definition vc_slice (v : version) (c : compaction) : bool := forallb (is_input c) (upper_slice v c).
Definition vc_rest (v : version) (c : compaction) : bool :=
  let u := upper_level v c in
  forallb (fun f => negb (is_input c f)) (firstn (lower_bound u (cfirst c)) u ++ skipn (upper_bound u (clast c)) u).
Definition vc_range (v : version) (c : compaction) : bool :=
  forallb (fun f => negb (is_input c f) || (key_leb (cfirst c) (first_key f) && key_leb (last_key f) (clast c)))
          (mid_files v c ++ upper_level v c).
Definition vc_closed (v : version) (c : compaction) : bool := closed_overlap (is_input c) (mid_files v c).
Definition vc_ids (v : version) (c : compaction) : bool :=
  forallb (fun x => existsb (fun f => fid f =? x) (mid_files v c ++ upper_level v c)) (cinputs c).
Definition valid_compactionb (v : version) (c : compaction) : bool :=
  vc_shape v c && vc_slice v c && vc_rest v c && vc_range v c && vc_closed v c && vc_ids v c.

(* the entries a compaction reads: all entries of its input files *)
Definition input_files (v : version) (c : compaction) : list file :=
  filter (is_input c) (mid_files v c ++ upper_slice v c).
Definition input_entries (v : version) (c : compaction) : list entry :=
  flat_map fents (input_files v c).

(* outputs of a non-GC compaction: the sorted merge of the inputs, cut anywhere into non-empty files *)
Fixpoint entries_eqb (a b : list entry) : bool :=
  match a, b with
  | [], [] => true
  | x :: a', y :: b' =>
      key_eqb (ek x) (ek y) && (ets x =? ets y) &&
      match ev x, ev y with
      | None, None => true
      | Some p, Some q => key_eqb p q
      | _, _ => false
      end && entries_eqb a' b'
  | _, _ => false
  end.
Definition outputs_okb (v : version) (c : compaction) (outs : list file) : bool :=
  entries_eqb (flat_map fents outs) (sort_entries (input_entries v c)) &&
  forallb (fun f => match fents f with [] => false | _ => true end) outs.

Definition compact (s : store) (c : compaction) (outs : list file) : store :=
  mkS (mem s) (apply_compaction (ver s) c outs) (seq s).


(* ---- entry equality, sets and subsequences of entries (boolean checkers) ---- *)
Definition entry_eqb (a b : entry) : bool :=
  key_eqb (ek a) (ek b) && (ets a =? ets b) &&
  match ev a, ev b with None, None => true | Some p, Some q => key_eqb p q | _, _ => false end.
Definition subsetb (a b : list entry) : bool := forallb (fun e => existsb (entry_eqb e) b) a.
Fixpoint subseqb (a b : list entry) : bool :=
  match b with
  | [] => match a with [] => true | _ => false end
  | y :: b' => match a with
               | [] => true
               | x :: a' => if entry_eqb x y then subseqb a' b' else subseqb a b'
               end
  end.

(* garbage collection (a multi-input compaction into the last level): the outputs hold a
   subsequence of the sorted merge of the inputs, and for every key the newest version KEPT shows
   what the newest version among the inputs showed (a value, or nothing: a tombstone and an absent
   key both read as nothing).  Every `versions = N` policy (N >= 1) does this (area Gc proves it
   of the collector): it may replace a run of tombstones by the oldest one of the run, or drop a
   tombstone together with every older version. *)
Definition shown (o : option entry) : option (list N) := match o with Some e => ev e | None => None end.
Definition opt_bytes_eqb (a b : option (list N)) : bool :=
  match a, b with None, None => true | Some p, Some q => key_eqb p q | _, _ => false end.
Definition gc_heads_okb (E O : list entry) : bool :=
  forallb (fun e =>
    opt_bytes_eqb (shown (find (fun x => key_eqb (ek x) (ek e)) E))
                  (shown (find (fun x => key_eqb (ek x) (ek e)) O))) E.
Definition gc_outputs_okb (v : version) (c : compaction) (outs : list file) : bool :=
  let E := sort_entries (input_entries v c) in
  let O := flat_map fents outs in
  subseqb O E && gc_heads_okb E O &&
  forallb (fun f => match fents f with [] => false | _ => true end) outs.

(* ---- well-formedness, as boolean checkers (run on every dumped tree) ---- *)
Fixpoint sorted_entriesb (l : list entry) : bool :=
  match l with
  | [] => true
  | x :: r => match r with
              | [] => true
              | y :: _ => entry_leb x y && negb (entry_leb y x) && sorted_entriesb r
              end
  end.
Definition wf_fileb (f : file) : bool :=
  match fents f with [] => false | _ => sorted_entriesb (fents f) end.
Fixpoint level_sortedb (lv : level) : bool :=
  match lv with
  | [] => true
  | f :: r => match r with
              | [] => true
              | g :: _ => key_leb (last_key f) (first_key g) && level_sortedb r
              end
  end.
Definition wf_versionb (v : version) : bool :=
  forallb (forallb wf_fileb) v && forallb level_sortedb (tl v).

(* all files in global lookup order (for a key-independent statement of Ordered) *)
Definition flat (v : version) : list file := l0_order (hd [] v) ++ concat (tl v).
Definition kfilter (k : key) (es : list entry) : list entry := filter (fun e => key_eqb (ek e) k) es.
Definition kview (s : store) (k : key) : list entry :=
  kfilter k (mem s) ++ flat_map (fun f => kfilter k (fents f)) (flat (ver s)).
Fixpoint desc_tsb (l : list entry) : bool :=
  match l with
  | [] => true
  | x :: r => match r with [] => true | y :: _ => (ets y <? ets x) && desc_tsb r end
  end.
Definition all_keys (s : store) : list key :=
  map ek (mem s) ++ flat_map (fun f => map ek (fents f)) (flat (ver s)).
Definition orderedb (s : store) : bool := forallb (fun k => desc_tsb (kview s k)) (all_keys s).
Definition file_entries (v : version) : list entry := flat_map fents (flat v).
