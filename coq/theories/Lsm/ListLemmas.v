(* Lsm/ListLemmas.v — generic list lemmas used by the compaction proofs *)
From Coq Require Import NArith List Bool Lia Arith Permutation.
Import ListNotations.

Lemma filter_rev' {A} (p : A -> bool) (l : list A) : filter p (rev l) = rev (filter p l).
Proof.
  induction l as [|x l IH]; cbn; [reflexivity|].
  rewrite filter_app, IH. cbn. destruct (p x); cbn; [reflexivity|now rewrite app_nil_r].
Qed.

Lemma skipn_nth_cons {A} (n : nat) (l : list A) d : (n < length l)%nat ->
  skipn n l = nth n l d :: skipn (S n) l.
Proof.
  revert l; induction n as [|n IH]; intros [|x l] Hl; cbn in *; try lia; [reflexivity|].
  apply IH. lia.
Qed.

Lemma skipn_skipn' {A} (a b : nat) (l : list A) : skipn a (skipn b l) = skipn (b + a) l.
Proof.
  revert l; induction b as [|b IH]; intros l; cbn [skipn Nat.add]; [reflexivity|].
  destruct l as [|x l]; [now rewrite skipn_nil|]. apply IH.
Qed.

(* lo <= up < length : l = pre ++ mid ++ [u] ++ post *)
Lemma split_levels {A} (lo up : nat) (l : list A) d : (lo <= up)%nat -> (up < length l)%nat ->
  l = firstn lo l ++ firstn (up - lo) (skipn lo l) ++ [nth up l d] ++ skipn (S up) l.
Proof.
  intros H1 H2.
  rewrite <- (firstn_skipn lo l) at 1. f_equal.
  rewrite <- (firstn_skipn (up - lo) (skipn lo l)) at 1. f_equal.
  rewrite skipn_skipn'. replace (lo + (up - lo))%nat with up by lia.
  now apply skipn_nth_cons.
Qed.

Lemma flat_map_concat {A B} (g : A -> list B) (ls : list (list A)) :
  flat_map g (concat ls) = concat (map (flat_map g) ls).
Proof. induction ls as [|l ls IH]; cbn; [reflexivity|]. now rewrite flat_map_app, IH. Qed.

Lemma filter_concat {A} (p : A -> bool) (ls : list (list A)) :
  filter p (concat ls) = concat (map (filter p) ls).
Proof. induction ls as [|l ls IH]; cbn; [reflexivity|]. now rewrite filter_app, IH. Qed.

Lemma flat_map_filter_nil {A B} (g : A -> list B) (p : A -> bool) (l : list A) :
  (forall x, In x l -> p x = false -> g x = []) -> flat_map g (filter p l) = flat_map g l.
Proof.
  induction l as [|x l IH]; cbn; intros H; [reflexivity|].
  destruct (p x) eqn:E; cbn.
  - f_equal. apply IH. intros y Hy. apply H. now right.
  - rewrite (H x) by (auto; now left). cbn. apply IH. intros y Hy. apply H. now right.
Qed.

Lemma flat_map_nil_all {A B} (g : A -> list B) (l : list A) :
  (forall x, In x l -> g x = []) -> flat_map g l = [].
Proof.
  induction l as [|x l IH]; cbn; intros H; [reflexivity|].
  rewrite (H x) by now left. apply IH. intros y Hy. apply H. now right.
Qed.

(* "closed": no non-input with a non-empty image is placed after an input with a non-empty image *)
Fixpoint closedK {A B} (g : A -> list B) (inp : A -> bool) (l : list A) : Prop :=
  match l with
  | [] => True
  | x :: r => (inp x = true -> g x <> [] -> forall y, In y r -> inp y = false -> g y = []) /\ closedK g inp r
  end.

Lemma closed_split {A B} (g : A -> list B) (inp : A -> bool) (l : list A) : closedK g inp l ->
  flat_map g l = flat_map g (filter (fun x => negb (inp x)) l) ++ flat_map g (filter inp l).
Proof.
  induction l as [|x r IH]; cbn [closedK flat_map filter]; [reflexivity|].
  intros [Hx Hr]. specialize (IH Hr). destruct (inp x) eqn:E; cbn [negb flat_map].
  - destruct (g x) as [|b bs] eqn:G.
    + cbn. exact IH.
    + assert (Hn : flat_map g (filter (fun y => negb (inp y)) r) = []).
      { apply flat_map_nil_all. intros y Hy. apply filter_In in Hy. destruct Hy as [Hy Hp].
        apply Hx; auto; [discriminate|]. now destruct (inp y). }
      rewrite Hn. cbn [app]. f_equal.
      rewrite IH, Hn. reflexivity.
  - rewrite <- app_assoc. f_equal. exact IH.
Qed.
