(* Lsm/RecoverImpossible.v — the root cause of known finding K2, machine-checked.

   lsmtk/src/tree/recover.rs rebuilds the levels of a reopened store from the METADATA of its files
   alone: construct_adj_list orders two files only by their key ranges (first key, last key) and
   their timestamp ranges (smallest, biggest timestamp); the setsum names a file, it says nothing
   about order.  There are two REACHABLE stores (each the result of an accepted history from the
   empty store: flushes, trivial moves, one merge), holding the files (A, B) and (A', B), such that
   A and A' have identical key range, timestamp range and size (their ids differ, as content hashes
   do), and every arrangement of two files into levels that is Ordered for the contents (A, B) is
   not Ordered for (A', B) and vice versa: a reader must consult A before B, but B before A'.  So no
   function of that metadata - recover.rs or any replacement - yields correct reads for both.

   How the two stores come about.  B = {b@3, m@4, z@5} is one flushed memtable in both.
   Store 1: {a@1} is flushed and moved to L1; B is flushed and moved past it (no shared key) to L2;
   {m@7} is flushed and merged with {a@1} into A = {a@1, m@7} in L1, ABOVE B.
   Store 2: {m@1} is flushed and moved to L2; B is flushed and moved to L1 (it cannot go further:
   m); {a@7} is flushed, moved to L1 next to B, and merged with {m@1} into A' = {a@7, m@1} in L2,
   BELOW B.  (The real store's own witness for K2 is corpus/C01/k2_recover.json.) *)
From Coq Require Import NArith List Bool Lia Arith Permutation.
From Blue Require Import Lsm.Model Lsm.KeyOrder Lsm.LoadProofs Lsm.Ordered Lsm.ListLemmas Lsm.SortLemmas Lsm.CompactProofs Lsm.History.
Import ListNotations.
Open Scope N_scope.

Arguments N.leb : simpl never.
Arguments N.ltb : simpl never.

Definition ka : key := [97].   (* "a" *)
Definition kb : key := [98].
Definition km : key := [109].  (* "m": the key both files hold *)
Definition kz : key := [122].

(* store 1: A's version of m (timestamp 7) is newer than B's (4) *)
Definition fA  : file := mkF 13 [mkE ka 1 (Some [1]); mkE km 7 (Some [77])] 100.
Definition fB  : file := mkF 11 [mkE kb 3 (Some [2]); mkE km 4 (Some [44]); mkE kz 5 (Some [5])] 100.
(* store 2: the same B; A' has A's key range, timestamp range and size, but its version of m (1)
   is older than B's (4) *)
Definition fA' : file := mkF 23 [mkE ka 7 (Some [1]); mkE km 1 (Some [11])] 100.
Definition fB' : file := fB.

(* what recovery can see of a file that bears on order - NOT the id *)
Definition meta (f : file) := (first_key f, last_key f, smallest_ts f, biggest_ts f, fsize f).

Lemma same_metadata : meta fA = meta fA' /\ meta fB = meta fB' /\ fid fA <> fid fA' /\
  wf_fileb fA = true /\ wf_fileb fB = true /\ wf_fileb fA' = true /\ wf_fileb fB' = true.
Proof. vm_compute. repeat split; try reflexivity. discriminate. Qed.

(* ---- both stores are reachable ---- *)
Definition k2_ops : list op :=
  [ OWrite [(ka, Some [1])]; OFlush 10 100;
    OCompact (mkC 0 1 ka ka [10]) [mkF 10 [mkE ka 1 (Some [1])] 100];
    OWrite [(kb, Some [2])]; OWrite [(km, Some [44])]; OWrite [(kz, Some [5])]; OFlush 11 100;
    OCompact (mkC 0 1 kb kz [11]) [fB]; OCompact (mkC 1 2 kb kz [11]) [fB];
    OWrite [(km, Some [77])]; OFlush 12 100;
    OCompact (mkC 0 1 ka km [12; 10]) [fA] ].
Definition k2_ops' : list op :=
  [ OWrite [(km, Some [11])]; OFlush 20 100;
    OCompact (mkC 0 1 km km [20]) [mkF 20 [mkE km 1 (Some [11])] 100];
    OCompact (mkC 1 2 km km [20]) [mkF 20 [mkE km 1 (Some [11])] 100];
    OWrite [(kb, Some [2])]; OWrite [(km, Some [44])]; OWrite [(kz, Some [5])]; OFlush 11 100;
    OCompact (mkC 0 1 kb kz [11]) [fB];
    OWrite [(ka, Some [1])]; OFlush 22 100;
    OCompact (mkC 0 1 ka ka [22]) [mkF 22 [mkE ka 7 (Some [1])] 100];
    OCompact (mkC 1 2 ka km [22; 20]) [fA'] ].

(* replace the contents of the two files, keeping every position *)
Definition swap_file (f : file) : file := if fid f =? fid fA then fA' else if fid f =? fid fB then fB' else f.
Definition swap_contents (v : version) : version := map (map swap_file) v.

Lemma swap_biggest f : f = fA \/ f = fB -> biggest_ts (swap_file f) = biggest_ts f.
Proof. intros [->| ->]; vm_compute; reflexivity. Qed.

Lemma insert_by_map (g : file -> file) x l :
  (forall y, In y (x :: l) -> biggest_ts (g y) = biggest_ts y) ->
  insert_by biggest_ts (g x) (map g l) = map g (insert_by biggest_ts x l).
Proof.
  induction l as [|y r IH]; intros H; cbn [insert_by map]; [reflexivity|].
  rewrite (H y) by (right; now left). rewrite (H x) by now left.
  destruct (biggest_ts y <? biggest_ts x); cbn [map]; [|reflexivity].
  f_equal. apply IH. intros z [<-|Hz]; apply H; [now left|right; now right].
Qed.

Lemma isort_by_map (g : file -> file) l :
  (forall y, In y l -> biggest_ts (g y) = biggest_ts y) ->
  isort_by biggest_ts (map g l) = map g (isort_by biggest_ts l).
Proof.
  induction l as [|x r IH]; intros H; cbn [isort_by map]; [reflexivity|].
  rewrite IH by (intros y Hy; apply H; now right).
  apply insert_by_map. intros y Hy. apply H.
  destruct Hy as [<-|Hy]; [now left|right].
  eapply Permutation_in; [apply Permutation_sym, isort_by_perm|exact Hy].
Qed.

Definition only_AB (l : list file) : Prop := forall f, In f l -> f = fA \/ f = fB.

Lemma flat_swap v : only_AB (flat v) -> flat (swap_contents v) = map swap_file (flat v).
Proof.
  intros H. destruct v as [|l0 r]; [reflexivity|]. unfold flat, swap_contents. cbn [map hd tl].
  rewrite map_app, concat_map. f_equal. unfold l0_order. rewrite isort_by_map, map_rev; [reflexivity|].
  intros y Hy. apply swap_biggest. apply H. unfold flat. cbn [hd]. apply in_or_app. left. now apply in_l0_order.
Qed.

(* in a list that holds both a and b, one of them comes first *)
Lemma two_in_order {A} (a b : A) l : In a l -> In b l -> a <> b ->
  (exists l1 l2 l3, l = l1 ++ a :: l2 ++ b :: l3) \/ (exists l1 l2 l3, l = l1 ++ b :: l2 ++ a :: l3).
Proof.
  intros Ha Hb Hne. apply in_split in Ha. destruct Ha as (l1 & l2 & ->).
  apply in_app_or in Hb. destruct Hb as [Hb|[Hb|Hb]]; [|congruence|].
  - right. apply in_split in Hb. destruct Hb as (p & q & ->). exists p, q, l2. now rewrite <- app_assoc.
  - left. apply in_split in Hb. destruct Hb as (p & q & ->). exists l1, p, q. reflexivity.
Qed.

Lemma desc_two (g : file -> list entry) l1 x l2 y l3 ex ey :
  desc_ts (flat_map g (l1 ++ x :: l2 ++ y :: l3)) -> In ex (g x) -> In ey (g y) -> ets ey < ets ex.
Proof.
  rewrite flat_map_app. cbn [flat_map]. rewrite flat_map_app. cbn [flat_map].
  intros Hd Hx Hy. apply desc_ts_app in Hd. destruct Hd as (_ & Hd & _).
  apply desc_ts_app in Hd. destruct Hd as (_ & _ & Hd). apply Hd; [exact Hx|].
  apply in_or_app. right. apply in_or_app. now left.
Qed.

Theorem no_arrangement_fits_both v n n' :
  only_AB (flat v) -> In fA (flat v) -> In fB (flat v) ->
  ~ (Ordered (mkS [] v n) /\ Ordered (mkS [] (swap_contents v) n')).
Proof.
  intros Hab HA HB [O1 O2].
  specialize (O1 km). specialize (O2 km). unfold kview in O1, O2. cbn [mem ver kfilter filter app] in O1, O2.
  rewrite (flat_swap v Hab) in O2.
  assert (O2' : desc_ts (flat_map (fun f => kfilter km (fents (swap_file f))) (flat v))).
  { clear -O2. induction (flat v) as [|x l IH]; [exact I|]. cbn [map flat_map] in *.
    assert (E : forall l0, flat_map (fun f => filter (fun e => key_eqb (ek e) km) (fents f)) (map swap_file l0) =
                           flat_map (fun f => kfilter km (fents (swap_file f))) l0).
    { induction l0 as [|y r IHr]; [reflexivity|]. cbn [map flat_map]. now rewrite IHr. }
    rewrite E in O2. exact O2. }
  clear O2.
  destruct (two_in_order fA fB (flat v) HA HB ltac:(discriminate)) as [(l1 & l2 & l3 & E)|(l1 & l2 & l3 & E)]; rewrite E in O1, O2'.
  - (* A is consulted before B: wrong for the swapped contents *)
    pose proof (desc_two _ l1 fA l2 fB l3 (mkE km 1 (Some [11])) (mkE km 4 (Some [44])) O2') as C.
    assert (ets (mkE km 4 (Some [44])) < ets (mkE km 1 (Some [11]))) by (apply C; vm_compute; auto).
    cbn in H. lia.
  - (* B is consulted before A: wrong for the original contents *)
    pose proof (desc_two _ l1 fB l2 fA l3 (mkE km 4 (Some [44])) (mkE km 7 (Some [77])) O1) as C.
    assert (ets (mkE km 7 (Some [77])) < ets (mkE km 4 (Some [44]))) by (apply C; vm_compute; auto).
    cbn in H. lia.
Qed.

(* both contents do have a correct arrangement - just not the same one *)
Definition vAB  : version := [[]; [fA]; [fB]] ++ repeat [] 13.
Definition vBA' : version := [[]; [fB']; [fA']] ++ repeat [] 13.
Lemma each_has_a_correct_arrangement :
  wf_versionb vAB = true /\ orderedb (mkS [] vAB 9) = true /\
  wf_versionb vBA' = true /\ orderedb (mkS [] vBA' 9) = true.
Proof. vm_compute. repeat split; reflexivity. Qed.

(* ... and each is what an accepted history from the empty store leaves behind *)
Lemma both_reachable :
  all_accepted (init_at 0) k2_ops = true /\ ver (run (init_at 0) k2_ops) = vAB /\
  all_accepted (init_at 0) k2_ops' = true /\ ver (run (init_at 0) k2_ops') = vBA'.
Proof. vm_compute. repeat split; reflexivity. Qed.
