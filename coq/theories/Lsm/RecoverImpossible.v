(* Lsm/RecoverImpossible.v — the root cause of known finding K2, machine-checked.

   lsmtk/src/tree/recover.rs rebuilds the levels of a reopened store from the METADATA of its files
   alone (first key, last key, smallest and biggest timestamp; file size and setsum do not help).
   There are two pairs of files, (A, B) and (A', B'), with pairwise IDENTICAL metadata, such that
   every arrangement of two files into levels that is Ordered for the contents (A, B) is not Ordered
   for (A', B') and vice versa: a reader must consult A before B, but B' before A'.  So no function
   of the metadata - recover.rs or any replacement - yields correct reads for both stores. *)
From Coq Require Import NArith List Bool Lia Arith Permutation.
From Blue Require Import Lsm.Model Lsm.KeyOrder Lsm.LoadProofs Lsm.Ordered Lsm.ListLemmas Lsm.SortLemmas Lsm.CompactProofs.
Import ListNotations.
Open Scope N_scope.

Arguments N.leb : simpl never.
Arguments N.ltb : simpl never.

Definition ka : key := [97].   (* "a" *)
Definition kb : key := [98].
Definition km : key := [109].  (* "m": the key both files hold *)
Definition ky : key := [121].
Definition kz : key := [122].

(* store 1: A's version of m (timestamp 5) is newer than B's (3) *)
Definition fA  : file := mkF 1 [mkE ka 1 (Some [1]); mkE km 5 (Some [55]); mkE ky 1 (Some [1])] 100.
Definition fB  : file := mkF 2 [mkE kb 2 (Some [2]); mkE km 3 (Some [33]); mkE kz 4 (Some [4])] 100.
(* store 2: the same metadata, but B''s version of m (4) is newer than A''s (1) *)
Definition fA' : file := mkF 1 [mkE ka 1 (Some [1]); mkE km 1 (Some [11]); mkE ky 5 (Some [5])] 100.
Definition fB' : file := mkF 2 [mkE kb 2 (Some [2]); mkE km 4 (Some [44]); mkE kz 3 (Some [3])] 100.

Definition meta (f : file) := (fid f, first_key f, last_key f, smallest_ts f, biggest_ts f, fsize f).

Lemma same_metadata : meta fA = meta fA' /\ meta fB = meta fB' /\
  wf_fileb fA = true /\ wf_fileb fB = true /\ wf_fileb fA' = true /\ wf_fileb fB' = true.
Proof. vm_compute. repeat split; reflexivity. Qed.

(* replace the contents of the two files, keeping every position *)
Definition swap_file (f : file) : file := if fid f =? 1 then fA' else if fid f =? 2 then fB' else f.
Definition swap_contents (v : version) : version := map (map swap_file) v.

Lemma swap_biggest f : f = fA \/ f = fB -> biggest_ts (swap_file f) = biggest_ts f.
Proof. intros [->| ->]; vm_compute; reflexivity. Qed.

Lemma insert_by_map (g : file -> file) x l :
  (forall y, In y (x :: l) -> biggest_ts (g y) = biggest_ts y) ->
  insert_by biggest_ts (g x) (map g l) = map g (insert_by biggest_ts x l).
Proof.
  induction l as [|y r IH]; intros H; cbn [insert_by map]; [reflexivity|].
  rewrite (H y) by (right; now left). rewrite (H x) by now left.
  destruct (biggest_ts y <=? biggest_ts x); cbn [map]; [|reflexivity].
  f_equal. apply IH. intros z [<-|Hz]; apply H; [now left|right; now right].
Qed.

Lemma isort_by_map (g : file -> file) l :
  (forall y, In y l -> biggest_ts (g y) = biggest_ts y) ->
  isort_by biggest_ts (map g l) = map g (isort_by biggest_ts l).
Proof.
  induction l as [|x r IH]; intros H; cbn [isort_by map]; [reflexivity|].
  rewrite IH by (intros y Hy; apply H; now right).
  apply insert_by_map. intros y Hy. apply H.
  destruct Hy as [<-|Hy]; [now left|right].
  eapply Permutation_in; [apply Permutation_sym, isort_by_perm|exact Hy].
Qed.

Definition only_AB (l : list file) : Prop := forall f, In f l -> f = fA \/ f = fB.

Lemma flat_swap v : only_AB (flat v) -> flat (swap_contents v) = map swap_file (flat v).
Proof.
  intros H. destruct v as [|l0 r]; [reflexivity|]. unfold flat, swap_contents. cbn [map hd tl].
  rewrite map_app, concat_map. f_equal. unfold l0_order. rewrite isort_by_map, map_rev; [reflexivity|].
  intros y Hy. apply swap_biggest. apply H. unfold flat. cbn [hd]. apply in_or_app. left. now apply in_l0_order.
Qed.

(* in a list that holds both a and b, one of them comes first *)
Lemma two_in_order {A} (a b : A) l : In a l -> In b l -> a <> b ->
  (exists l1 l2 l3, l = l1 ++ a :: l2 ++ b :: l3) \/ (exists l1 l2 l3, l = l1 ++ b :: l2 ++ a :: l3).
Proof.
  intros Ha Hb Hne. apply in_split in Ha. destruct Ha as (l1 & l2 & ->).
  apply in_app_or in Hb. destruct Hb as [Hb|[Hb|Hb]]; [|congruence|].
  - right. apply in_split in Hb. destruct Hb as (p & q & ->). exists p, q, l2. now rewrite <- app_assoc.
  - left. apply in_split in Hb. destruct Hb as (p & q & ->). exists l1, p, q. reflexivity.
Qed.

Lemma desc_two (g : file -> list entry) l1 x l2 y l3 ex ey :
  desc_ts (flat_map g (l1 ++ x :: l2 ++ y :: l3)) -> In ex (g x) -> In ey (g y) -> ets ey < ets ex.
Proof.
  rewrite flat_map_app. cbn [flat_map]. rewrite flat_map_app. cbn [flat_map].
  intros Hd Hx Hy. apply desc_ts_app in Hd. destruct Hd as (_ & Hd & _).
  apply desc_ts_app in Hd. destruct Hd as (_ & _ & Hd). apply Hd; [exact Hx|].
  apply in_or_app. right. apply in_or_app. now left.
Qed.

Theorem no_arrangement_fits_both v n n' :
  only_AB (flat v) -> In fA (flat v) -> In fB (flat v) ->
  ~ (Ordered (mkS [] v n) /\ Ordered (mkS [] (swap_contents v) n')).
Proof.
  intros Hab HA HB [O1 O2].
  specialize (O1 km). specialize (O2 km). unfold kview in O1, O2. cbn [mem ver kfilter filter app] in O1, O2.
  rewrite (flat_swap v Hab) in O2.
  assert (O2' : desc_ts (flat_map (fun f => kfilter km (fents (swap_file f))) (flat v))).
  { clear -O2. induction (flat v) as [|x l IH]; [exact I|]. cbn [map flat_map] in *.
    assert (E : forall l0, flat_map (fun f => filter (fun e => key_eqb (ek e) km) (fents f)) (map swap_file l0) =
                           flat_map (fun f => kfilter km (fents (swap_file f))) l0).
    { induction l0 as [|y r IHr]; [reflexivity|]. cbn [map flat_map]. now rewrite IHr. }
    rewrite E in O2. exact O2. }
  clear O2.
  destruct (two_in_order fA fB (flat v) HA HB ltac:(discriminate)) as [(l1 & l2 & l3 & E)|(l1 & l2 & l3 & E)]; rewrite E in O1, O2'.
  - (* A is consulted before B: wrong for the swapped contents *)
    pose proof (desc_two _ l1 fA l2 fB l3 (mkE km 1 (Some [11])) (mkE km 4 (Some [44])) O2') as C.
    assert (ets (mkE km 4 (Some [44])) < ets (mkE km 1 (Some [11]))) by (apply C; vm_compute; auto).
    cbn in H. lia.
  - (* B is consulted before A: wrong for the original contents *)
    pose proof (desc_two _ l1 fB l2 fA l3 (mkE km 3 (Some [33])) (mkE km 5 (Some [55])) O1) as C.
    assert (ets (mkE km 5 (Some [55])) < ets (mkE km 3 (Some [33]))) by (apply C; vm_compute; auto).
    cbn in H. lia.
Qed.

(* both contents do have a correct arrangement - just not the same one *)
Definition vAB  : version := [[]; [fA]; [fB]] ++ repeat [] 13.
Definition vBA' : version := [[]; [fB']; [fA']] ++ repeat [] 13.
Lemma each_has_a_correct_arrangement :
  wf_versionb vAB = true /\ orderedb (mkS [] vAB 9) = true /\
  wf_versionb vBA' = true /\ orderedb (mkS [] vBA' 9) = true.
Proof. vm_compute. repeat split; reflexivity. Qed.
