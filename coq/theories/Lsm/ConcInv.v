(* Lsm/ConcInv.v — the invariant of the store with ongoing compactions: the store invariant of
   History.v, and for every ongoing compaction: it is admissible on the CURRENT version, the
   entries read at selection time are what the current version holds under its input ids (so its
   input files are still in the tree), and ongoing compactions are pairwise non-overlapping.
   Every accepted step preserves it. *)
From Coq Require Import NArith List Bool Lia Arith Permutation.
From Blue Require Import Gen.Const_Lsm Lsm.Model Lsm.KeyOrder Lsm.LoadProofs Lsm.Ordered Lsm.ListLemmas
  Lsm.SortLemmas Lsm.CompactProofs Lsm.GcProofs Lsm.WfProofs Lsm.History
  Lsm.ConcLists Lsm.ModelConcurrent Lsm.ConcStable.
Import ListNotations.
Open Scope N_scope.

Arguments N.leb : simpl never.
Arguments N.ltb : simpl never.

Fixpoint pairwise_ok (ps : list pend) : Prop :=
  match ps with
  | [] => True
  | p :: r => (forall q, In q r -> conflictb (fst p) (fst q) = false) /\ pairwise_ok r
  end.

Record CInv (cs : cstore) : Prop := {
  ci_inv : Inv (st cs);
  ci_ne : ver (st cs) <> [];
  ci_pend : forall c E, In (c, E) (pending cs) ->
            valid_compactionb (ver (st cs)) c = true /\ input_entries (ver (st cs)) c = E;
  ci_pair : pairwise_ok (pending cs)
}.

(* ------------------------------------------------------------------ the ongoing list *)
Lemma in_remove_nth {A} i (l : list A) x : In x (remove_nth i l) -> In x l.
Proof.
  revert i. induction l as [|y r IH]; intros i H; cbn [remove_nth] in H; [destruct H|].
  destruct i as [|i]; [now right|]. destruct H as [<-|H]; [now left|right; eauto].
Qed.

Lemma pairwise_remove i ps : pairwise_ok ps -> pairwise_ok (remove_nth i ps).
Proof.
  revert i. induction ps as [|p r IH]; intros i H; [exact I|]. cbn [remove_nth pairwise_ok] in *.
  destruct H as [Hp Hr]. destruct i as [|i]; [exact Hr|]. cbn [pairwise_ok]. split; [|now apply IH].
  intros q Hq. apply Hp. eapply in_remove_nth; eauto.
Qed.

Lemma pairwise_other i ps p : pairwise_ok ps -> nth_error ps i = Some p ->
  forall q, In q (remove_nth i ps) -> conflictb (fst q) (fst p) = false.
Proof.
  revert i. induction ps as [|x r IH]; intros i H Hn q Hq; [destruct i; discriminate|].
  cbn [pairwise_ok remove_nth] in *. destruct H as [Hx Hr]. destruct i as [|i]; cbn [nth_error] in Hn.
  - injection Hn as ->. rewrite conflictb_sym. now apply Hx.
  - destruct Hq as [<-|Hq]; [apply Hx; eapply nth_error_In; eauto|eapply IH; eauto].
Qed.

Lemma pairwise_snoc ps p : pairwise_ok ps -> (forall q, In q ps -> conflictb (fst q) (fst p) = false) ->
  pairwise_ok (ps ++ [p]).
Proof.
  induction ps as [|x r IH]; intros H Hp; cbn [app pairwise_ok] in *; [split; [intros ? []|exact I]|].
  destruct H as [Hx Hr]. split; [|apply IH; [exact Hr|intros q Hq; apply Hp; now right]].
  intros q Hq. apply in_app_or in Hq. destruct Hq as [Hq|[<-|[]]]; [now apply Hx|apply Hp; now left].
Qed.

Lemma no_conflictb_spec ps d : no_conflictb ps d = true ->
  forall q, In q ps -> conflictb d (fst q) = false.
Proof.
  unfold no_conflictb. rewrite forallb_forall. intros H q Hq. apply negb_true_iff. now apply H.
Qed.

Lemma fresh_forb_spec ps fs : fresh_forb ps fs = true ->
  forall q f, In q ps -> In f fs -> is_input (fst q) f = false.
Proof.
  unfold fresh_forb. rewrite forallb_forall. intros H q f Hq Hf. specialize (H f Hf).
  rewrite forallb_forall in H. apply negb_true_iff. now apply H.
Qed.

(* ------------------------------------------------------------------ outputs stay inside the key range *)
Lemma outs_in_range (a b : key) outs :
  (forall e, In e (flat_map fents outs) -> key_leb a (ek e) = true /\ key_leb (ek e) b = true) ->
  forallb (fun f => match fents f with [] => false | _ => true end) outs = true ->
  forall o, In o outs -> key_leb a (first_key o) = true /\ key_leb (last_key o) b = true.
Proof.
  intros Hr Hne o Ho. rewrite forallb_forall in Hne. specialize (Hne o Ho).
  assert (Hn : fents o <> []) by (destruct (fents o); [discriminate|discriminate]).
  unfold first_key, last_key. split.
  - apply Hr. apply in_flat_map. exists o. split; [exact Ho|now apply hd_in].
  - apply Hr. apply in_flat_map. exists o. split; [exact Ho|now apply last_in].
Qed.

Lemma merge_outs_range v d outs : wf_version v -> valid_compactionb v d = true ->
  outputs_okb v d outs = true ->
  forall o, In o outs -> key_leb (cfirst d) (first_key o) = true /\ key_leb (last_key o) (clast d) = true.
Proof.
  intros Hw Hv Ho. unfold outputs_okb in Ho. apply andb_prop in Ho. destruct Ho as [Heq Hne].
  apply entries_eqb_eq in Heq. apply outs_in_range; [|exact Hne].
  intros e He. rewrite Heq in He. apply (input_entries_range v d Hw Hv).
  eapply Permutation_in; [apply Permutation_sym, sort_entries_perm|exact He].
Qed.

Lemma gc_outs_range v d outs : wf_version v -> valid_compactionb v d = true ->
  gc_outputs_okb v d outs = true ->
  forall o, In o outs -> key_leb (cfirst d) (first_key o) = true /\ key_leb (last_key o) (clast d) = true.
Proof.
  intros Hw Hv Ho. unfold gc_outputs_okb in Ho. apply andb_prop in Ho. destruct Ho as [Ho Hne].
  apply andb_prop in Ho. destruct Ho as [Hsub _]. apply subseqb_sound in Hsub.
  apply outs_in_range; [|exact Hne].
  intros e He. apply (input_entries_range v d Hw Hv).
  eapply Permutation_in; [apply Permutation_sym, sort_entries_perm|]. eapply subseq_in; eauto.
Qed.

(* ------------------------------------------------------------------ the new L0 file is consulted first *)
Lemma wf_l0_file s y : Inv s -> In y (hd [] (ver s)) -> fents y <> [].
Proof.
  intros I Hy. destruct (wf_version_levels _ (inv_wf s I)) as [Hwf _].
  rewrite Forall_forall in Hwf. destruct (ver s) as [|l0 r]; [destruct Hy|]. cbn [hd] in Hy.
  specialize (Hwf l0 (or_introl eq_refl)). rewrite Forall_forall in Hwf. specialize (Hwf y Hy).
  unfold wf_fileb in Hwf. destruct (fents y); [discriminate|discriminate].
Qed.

Lemma in_l0_flat s y e : In y (hd [] (ver s)) -> In e (fents y) -> In e (flat_map fents (flat (ver s))).
Proof.
  intros Hy He. apply in_flat_map. exists y. split; [|exact He].
  unfold flat. apply in_or_app. left. now apply in_l0_order.
Qed.

Lemma flush_l0_order s id sz : Inv s -> mem s <> [] ->
  l0_order (hd [] (ver s) ++ [mkF id (sort_entries (mem s)) sz]) =
  mkF id (sort_entries (mem s)) sz :: l0_order (hd [] (ver s)).
Proof.
  intros I Hm. set (f := mkF id (sort_entries (mem s)) sz). apply l0_order_snoc. intros y Hy.
  assert (Hfne : fents f <> []).
  { cbn [fents f]. intros C. pose proof (sort_entries_perm (mem s)) as P. rewrite C in P.
    apply Permutation_sym, Permutation_nil in P. contradiction. }
  destruct (biggest_ts_in f Hfne) as (e & He & <-).
  assert (Hem : In e (mem s)).
  { eapply Permutation_in; [apply Permutation_sym, sort_entries_perm|exact He]. }
  destruct (biggest_ts_in y (wf_l0_file s y I Hy)) as (e' & He' & <-).
  apply (inv_mem_new s I e e' Hem). now apply (in_l0_flat s y).
Qed.

Lemma ingest_l0_order s f : Inv s -> acceptedb s (OIngest f) = true ->
  l0_order (hd [] (ver s) ++ [f]) = f :: l0_order (hd [] (ver s)).
Proof.
  intros I Ha. cbn [acceptedb] in Ha. apply andb_prop in Ha. destruct Ha as [Ha Hnew].
  apply andb_prop in Ha. destruct Ha as [_ Hwf].
  apply l0_order_snoc. intros y Hy.
  assert (Hfne : fents f <> []) by (unfold wf_fileb in Hwf; destruct (fents f); [discriminate|discriminate]).
  destruct (biggest_ts_in f Hfne) as (e & He & <-).
  destruct (biggest_ts_in y (wf_l0_file s y I Hy)) as (e' & He' & <-).
  unfold newer_than_store in Hnew. rewrite forallb_forall in Hnew. specialize (Hnew e He).
  rewrite forallb_forall in Hnew. apply N.ltb_lt. apply Hnew. now apply (in_l0_flat s y).
Qed.

(* ------------------------------------------------------------------ one base step, seen by an ongoing compaction *)
Lemma input_entries_files v v' c : input_files v' c = input_files v c -> input_entries v' c = input_entries v c.
Proof. unfold input_entries. now intros ->. Qed.

Lemma step_inv s o : Inv s -> ver s <> [] -> acceptedb s o = true ->
  Inv (step s o) /\ ver (step s o) <> [].
Proof.
  intros I Hne Ha. destruct o as [b|id sz|c outs|f|c outs|id sz v' seq']; cbn [step].
  - split; [now apply write_inv|exact Hne].
  - now apply flush_inv.
  - split; [now apply compact_inv|now apply apply_compaction_nonempty].
  - now apply ingest_inv.
  - split; [now apply gc_inv|now apply apply_compaction_nonempty].
  - destruct (reopen_inv s id sz v' seq' I Hne Ha) as (I' & Hne' & _). now split.
Qed.

Definition not_reopen (o : op) : Prop := match o with OReopen _ _ _ _ => False | _ => True end.
Definition step_compaction (o : op) : option compaction :=
  match o with OCompact d _ => Some d | OGc d _ => Some d | _ => None end.

Lemma base_step_pending s o c : Inv s -> ver s <> [] -> acceptedb s o = true -> not_reopen o ->
  valid_compactionb (ver s) c = true ->
  (forall f, In f (added_files s o) -> is_input c f = false) ->
  (forall d, step_compaction o = Some d -> conflictb c d = false) ->
  valid_compactionb (ver (step s o)) c = true /\
  input_entries (ver (step s o)) c = input_entries (ver s) c.
Proof.
  intros I Hne Ha Hnr Hv Hfresh Hnc.
  destruct (step_inv s o I Hne Ha) as [I' _]. pose proof (inv_wf _ I') as Hw'. pose proof (inv_wf _ I) as Hw.
  destruct o as [b|id sz|d outs|f|d outs|id sz v' seq']; cbn [step] in *.
  - cbn [write ver]. tauto.
  - unfold flush in *. destruct (mem s) as [|m0 mr] eqn:Em; [tauto|]. cbn [ver] in *.
    assert (Hm : mem s <> []) by (rewrite Em; discriminate).
    pose proof (flush_l0_order s id sz I Hm) as Hl0. rewrite Em in Hl0.
    destruct (push_l0_stable (ver s) c _ Hne Hw Hw' Hl0 Hv) as [V F].
    + apply Hfresh. cbn [added_files]. rewrite Em. now left.
    + split; [exact V|now apply input_entries_files].
  - cbn [acceptedb] in Ha. apply andb_prop in Ha. destruct Ha as [Hvd Hod]. cbn [compact ver] in *.
    destruct (apply_other_stable (ver s) c d outs Hw Hw' Hv Hvd (Hnc d eq_refl)) as [V F].
    + intros o Ho. split; [apply Hfresh; exact Ho|]. exact (merge_outs_range _ _ _ Hw Hvd Hod o Ho).
    + split; [exact V|now apply input_entries_files].
  - unfold ingest in *. cbn [ver] in *.
    pose proof (ingest_l0_order s f I Ha) as Hl0.
    destruct (push_l0_stable (ver s) c f Hne Hw Hw' Hl0 Hv) as [V F].
    + apply Hfresh. now left.
    + split; [exact V|now apply input_entries_files].
  - cbn [acceptedb] in Ha. apply andb_prop in Ha. destruct Ha as [Ha Hod].
    apply andb_prop in Ha. destruct Ha as [Hvd _]. cbn [compact ver] in *.
    destruct (apply_other_stable (ver s) c d outs Hw Hw' Hv Hvd (Hnc d eq_refl)) as [V F].
    + intros o Ho. split; [apply Hfresh; exact Ho|]. exact (gc_outs_range _ _ _ Hw Hvd Hod o Ho).
    + split; [exact V|now apply input_entries_files].
  - destruct Hnr.
Qed.

(* an ongoing compaction that is admissible NOW, with outputs right for what it read, is an
   accepted compaction (or garbage collection) step of History.v *)
Lemma apply_as_base s c E outs : valid_compactionb (ver s) c = true -> input_entries (ver s) c = E ->
  (merge_okb E outs || ((S (cupper c) =? length (ver s))%nat && gc_okb E outs)) = true ->
  exists o, (o = OCompact c outs \/ o = OGc c outs) /\ acceptedb s o = true.
Proof.
  intros Hv <- Hok. apply orb_prop in Hok. destruct Hok as [Hm|Hg].
  - exists (OCompact c outs). split; [now left|]. cbn [acceptedb]. rewrite Hv. exact Hm.
  - apply andb_prop in Hg. destruct Hg as [Ht Hg].
    exists (OGc c outs). split; [now right|]. cbn [acceptedb]. rewrite Hv, Ht. exact Hg.
Qed.

(* ------------------------------------------------------------------ every accepted step keeps the invariant
   and shows every key what the specification says *)
Lemma cstep_correct cs o m : CInv cs -> cacceptedb cs o = true ->
  (forall k, top_value (st cs) k = m k) ->
  CInv (cstep cs o) /\ forall k, top_value (st (cstep cs o)) k = cspec_step m o k.
Proof.
  intros [Iv Hne Hpend Hpair] Ha Hm. destruct o as [o|c|i outs|i].
  - (* a step of History.v *)
    cbn [cacceptedb cacceptedb_gen] in Ha. apply andb_prop in Ha. destruct Ha as [Ha Hconf].
    apply andb_prop in Ha. destruct Ha as [Ha Hfresh].
    destruct (step_inv _ o Iv Hne Ha) as [I' Hne'].
    destruct (run_correct [o] (st cs) m Iv Hne Hm) as [_ Ht]; [cbn [all_accepted]; now rewrite Ha|].
    cbn [run fold_left] in Ht. cbn [cstep cspec_step st]. split; [|exact Ht].
    constructor; cbn [st pending]; [exact I'|exact Hne'| |].
    + intros c E Hin.
      assert (Hnr : not_reopen o) by (destruct o; try exact I; cbn in Hin; destruct Hin).
      assert (Hin' : In (c, E) (pending cs)) by (destruct o; try exact Hin; destruct Hnr).
      destruct (Hpend c E Hin') as [Hv HE].
      destruct (base_step_pending (st cs) o c Iv Hne Ha Hnr Hv) as [V F].
      * intros f Hf. exact (fresh_forb_spec _ _ Hfresh (c, E) f Hin' Hf).
      * intros d Hd. rewrite conflictb_sym.
        destruct o; cbn [step_compaction] in Hd; try discriminate; injection Hd as ->;
          cbn [negb orb] in Hconf; exact (no_conflictb_spec _ _ Hconf (c, E) Hin').
      * split; [exact V|now rewrite F].
    + destruct o; try exact Hpair. exact I.
  - (* select *)
    cbn [cacceptedb cacceptedb_gen negb orb] in Ha. apply andb_prop in Ha. destruct Ha as [Hv Hconf].
    cbn [cstep cspec_step st]. split; [|exact Hm].
    constructor; cbn [st pending]; [exact Iv|exact Hne| |].
    + intros c' E Hin. apply in_app_or in Hin. destruct Hin as [Hin|[Hin|[]]]; [now apply Hpend|].
      injection Hin as <- <-. now split.
    + apply pairwise_snoc; [exact Hpair|]. intros q Hq. rewrite conflictb_sym.
      exact (no_conflictb_spec _ _ Hconf q Hq).
  - (* apply ongoing compaction i to the current version *)
    cbn [cacceptedb cacceptedb_gen] in Ha. cbn [cstep cspec_step].
    destruct (nth_error (pending cs) i) as [[c E]|] eqn:En; [|discriminate].
    apply andb_prop in Ha. destruct Ha as [Hok Hfresh].
    destruct (Hpend c E (nth_error_In _ _ En)) as [Hv HE].
    destruct (apply_as_base (st cs) c E outs Hv HE Hok) as (o & Ho & Hao).
    assert (Hstep : step (st cs) o = compact (st cs) c outs) by (destruct Ho as [->| ->]; reflexivity).
    assert (Hspec : forall k, spec_step m o k = m k) by (destruct Ho as [->| ->]; reflexivity).
    destruct (step_inv _ o Iv Hne Hao) as [I' Hne']. rewrite Hstep in I', Hne'.
    destruct (run_correct [o] (st cs) m Iv Hne Hm) as [_ Ht]; [cbn [all_accepted]; now rewrite Hao|].
    cbn [run fold_left] in Ht. rewrite Hstep in Ht. cbn [st]. split; [|intros k; now rewrite Ht, Hspec].
    constructor; cbn [st pending]; [exact I'|exact Hne'| |now apply pairwise_remove].
    intros c' E' Hin. pose proof (in_remove_nth _ _ _ Hin) as Hin0.
    destruct (Hpend c' E' Hin0) as [Hv' HE'].
    destruct (base_step_pending (st cs) o c' Iv Hne Hao) as [V F]; [destruct Ho as [->| ->]; exact I|exact Hv'| | |].
    + intros f Hf. apply (fresh_forb_spec _ _ Hfresh (c', E') f Hin).
      destruct Ho as [->| ->]; exact Hf.
    + intros d Hd. assert (d = c) as -> by (destruct Ho as [->| ->]; cbn in Hd; congruence).
      exact (pairwise_other i _ (c, E) Hpair En (c', E') Hin).
    + rewrite Hstep in V, F. split; [exact V|now rewrite F].
  - (* release *)
    cbn [cstep cspec_step st]. split; [|exact Hm].
    constructor; cbn [st pending]; [exact Iv|exact Hne| |now apply pairwise_remove].
    intros c E Hin. apply Hpend. eapply in_remove_nth; eauto.
Qed.
