(* Lsm/ConcStable.v — stability of admissibility: a compaction c that is admissible on a version
   stays admissible, with the same input files in the same order, when
     (a)/(c) ANOTHER admissible compaction or garbage collection d with conflictb c d = false
             (CompactionCore::overlapping) is applied (apply_other_stable),
     (b)     a file that l0_order consults first is pushed onto L0 (push_l0_stable).
   (d) a write does not touch the version at all. *)
From Coq Require Import NArith List Bool Lia Arith.
From Blue Require Import Lsm.Model Lsm.KeyOrder Lsm.LoadProofs Lsm.ListLemmas Lsm.CompactProofs Lsm.ConcLists Lsm.ModelConcurrent.
Import ListNotations.
Open Scope N_scope.

(* ------------------------------------------------------------------ valid_compactionb, in parts *)
Lemma valid_parts v c : valid_compactionb v c = true ->
  (clower c < cupper c)%nat /\ (cupper c < length v)%nat /\ key_leb (cfirst c) (clast c) = true /\
  (lower_bound (upper_level v c) (cfirst c) <= upper_bound (upper_level v c) (clast c))%nat /\
  vc_slice v c = true /\ vc_rest v c = true /\ vc_range v c = true /\ vc_closed v c = true /\
  vc_ids v c = true.
Proof.
  unfold valid_compactionb, vc_shape. intros Hv.
  repeat (apply andb_prop in Hv; destruct Hv as [Hv ?]).
  apply Nat.ltb_lt in Hv.
  repeat match goal with
         | H : (_ <? _)%nat = true |- _ => apply Nat.ltb_lt in H
         | H : (_ <=? _)%nat = true |- _ => apply Nat.leb_le in H
         end.
  tauto.
Qed.

Lemma upper_level_sorted v c : wf_version v -> (1 <= cupper c)%nat -> (cupper c < length v)%nat ->
  wf_files (upper_level v c) /\ level_sortedb (upper_level v c) = true.
Proof.
  intros Hw H1 Hlen. destruct (wf_version_levels v Hw) as [Hf Hs].
  rewrite Forall_forall in Hf, Hs. unfold upper_level. split.
  - apply Hf. now apply nth_In.
  - apply Hs. destruct v as [|l0 r]; [cbn in Hlen; lia|].
    destruct (cupper c) as [|up']; [lia|]. cbn [tl nth]. apply nth_In. cbn in Hlen. lia.
Qed.

Lemma is_input_id c f x : In x (cinputs c) -> (fid f =? x) = true -> is_input c f = true.
Proof. intros Hx He. unfold is_input. apply existsb_exists. eauto. Qed.

Lemma input_in_range v c x : vc_range v c = true -> In x (mid_files v c ++ upper_level v c) ->
  is_input c x = true ->
  key_leb (cfirst c) (first_key x) = true /\ key_leb (last_key x) (clast c) = true.
Proof.
  unfold vc_range. intros Hr Hx Hi. rewrite forallb_forall in Hr. specialize (Hr x Hx).
  rewrite Hi in Hr. cbn in Hr. now apply andb_prop in Hr.
Qed.

(* What admissibility looks at: the input files of the middle levels and their order, closure of
   the middle levels, and - on the (sorted) upper level - which files meet [first,last]. *)
Lemma valid_transfer v v' c :
  wf_version v -> wf_version v' -> length v' = length v ->
  valid_compactionb v c = true ->
  filter (is_input c) (mid_files v' c) = filter (is_input c) (mid_files v c) ->
  closed_overlap (is_input c) (mid_files v' c) = true ->
  filter (is_input c) (upper_level v' c) = filter (is_input c) (upper_level v c) ->
  (forall f, In f (upper_level v' c) ->
     In f (upper_level v c) \/ (is_input c f = false /\ qrange (cfirst c) (clast c) f = false)) ->
  valid_compactionb v' c = true /\ input_files v' c = input_files v c.
Proof.
  intros Hw Hw' Hlen Hv HM Hcl HU HUin.
  destruct (valid_parts v c Hv) as (Hlt & Hup & Hfl & _ & Hslice & Hrest & Hrange & _ & Hids).
  destruct (upper_level_sorted v c Hw ltac:(lia) Hup) as [Hwu Hsu].
  destruct (upper_level_sorted v' c Hw' ltac:(lia) ltac:(lia)) as [Hwu' Hsu'].
  set (inp := is_input c) in *. set (q := qrange (cfirst c) (clast c)) in *.
  assert (Hsl : upper_slice v c = filter q (upper_level v c))
    by (unfold upper_slice; cbv zeta; now apply level_slice_filter).
  assert (Hsl' : upper_slice v' c = filter q (upper_level v' c))
    by (unfold upper_slice; cbv zeta; now apply level_slice_filter).
  split.
  - assert (S1 : vc_shape v' c = true).
    { unfold vc_shape. cbv zeta. rewrite Hlen, Hfl.
      rewrite (proj2 (Nat.ltb_lt _ _) Hlt), (proj2 (Nat.ltb_lt _ _) Hup). cbn [andb].
      apply Nat.leb_le. now apply bounds_le. }
    assert (S2 : vc_slice v' c = true).
    { unfold vc_slice. rewrite Hsl'. apply forallb_forall. intros f Hf.
      apply filter_In in Hf. destruct Hf as [Hf Hq].
      destruct (HUin f Hf) as [Hin|[_ Hq']]; [|congruence].
      unfold vc_slice in Hslice. rewrite forallb_forall in Hslice. apply Hslice.
      rewrite Hsl. apply filter_In. tauto. }
    assert (S3 : vc_rest v' c = true).
    { unfold vc_rest. cbv zeta. apply forallb_forall. intros f Hf.
      apply (level_rest_spec _ _ _ Hwu' Hsu' Hfl) in Hf. destruct Hf as [Hf Hq].
      fold inp. destruct (inp f) eqn:Ei; [exfalso|reflexivity].
      destruct (HUin f Hf) as [Hin|[Hn _]]; [|unfold inp in *; congruence].
      unfold vc_rest in Hrest. cbv zeta in Hrest. rewrite forallb_forall in Hrest.
      assert (Hr : In f (firstn (lower_bound (upper_level v c) (cfirst c)) (upper_level v c) ++
                         skipn (upper_bound (upper_level v c) (clast c)) (upper_level v c)))
        by (apply (level_rest_spec _ _ _ Hwu Hsu Hfl); tauto).
      specialize (Hrest f Hr). fold inp in Hrest. rewrite Ei in Hrest. discriminate. }
    assert (S4 : vc_range v' c = true).
    { unfold vc_range. apply forallb_forall. intros f Hf. fold inp.
      destruct (inp f) eqn:Ei; [|reflexivity]. cbn [negb orb].
      assert (Hold : In f (mid_files v c ++ upper_level v c)).
      { apply in_app_or in Hf. apply in_or_app. destruct Hf as [Hf|Hf]; [left|right].
        - assert (H : In f (filter inp (mid_files v' c))) by (apply filter_In; tauto).
          rewrite HM in H. apply filter_In in H. tauto.
        - assert (H : In f (filter inp (upper_level v' c))) by (apply filter_In; tauto).
          rewrite HU in H. apply filter_In in H. tauto. }
      destruct (input_in_range v c f Hrange Hold Ei) as [R1 R2]. now rewrite R1, R2. }
    assert (S6 : vc_ids v' c = true).
    { unfold vc_ids in *. apply forallb_forall. intros x Hx. rewrite forallb_forall in Hids.
      specialize (Hids x Hx). apply existsb_exists in Hids. destruct Hids as (f & Hf & Hfx).
      pose proof (is_input_id c f x Hx Hfx) as Hi. fold inp in Hi.
      apply existsb_exists. exists f. split; [|exact Hfx].
      apply in_app_or in Hf. apply in_or_app. destruct Hf as [Hf|Hf]; [left|right].
      - assert (H : In f (filter inp (mid_files v c))) by (apply filter_In; tauto).
        rewrite <- HM in H. apply filter_In in H. tauto.
      - assert (H : In f (filter inp (upper_level v c))) by (apply filter_In; tauto).
        rewrite <- HU in H. apply filter_In in H. tauto. }
    unfold valid_compactionb, vc_closed. fold inp. now rewrite S1, S2, S3, S4, Hcl, S6.
  - unfold input_files. fold inp. rewrite !filter_app, HM, Hsl, Hsl'. f_equal.
    rewrite (filter_comm inp q), HU. apply filter_comm.
Qed.

(* ------------------------------------------------------------------ key ranges *)
Lemma no_conflict_cases c d : conflictb c d = false ->
  (cupper d < clower c)%nat \/ (cupper c < clower d)%nat \/
  key_leb (cfirst c) (clast d) && key_leb (cfirst d) (clast c) = false.
Proof.
  unfold conflictb. intros H.
  destruct (Nat.leb_spec (clower c) (cupper d)); [|now left].
  destruct (Nat.leb_spec (clower d) (cupper c)); [|right; now left].
  right; right. cbn [andb] in H. exact H.
Qed.

Lemma conflictb_sym c d : conflictb c d = conflictb d c.
Proof.
  unfold conflictb.
  destruct (clower c <=? cupper d)%nat, (clower d <=? cupper c)%nat,
    (key_leb (cfirst c) (clast d)), (key_leb (cfirst d) (clast c)); reflexivity.
Qed.

Section Disjoint.
Variables c d : compaction.
Hypothesis Hkd : key_leb (cfirst c) (clast d) && key_leb (cfirst d) (clast c) = false.

Lemma disjoint_not_both x : key_leb (first_key x) (last_key x) = true ->
  key_leb (cfirst c) (first_key x) = true -> key_leb (last_key x) (clast c) = true ->
  key_leb (cfirst d) (first_key x) = true -> key_leb (last_key x) (clast d) = true -> False.
Proof.
  intros Hx C1 C2 D1 D2.
  rewrite (key_leb_trans _ _ _ C1 (key_leb_trans _ _ _ Hx D2)) in Hkd.
  rewrite (key_leb_trans _ _ _ D1 (key_leb_trans _ _ _ Hx C2)) in Hkd. discriminate.
Qed.

Lemma disjoint_pins o : key_leb (cfirst d) (first_key o) = true -> key_leb (last_key o) (clast d) = true ->
  qrange (cfirst c) (clast c) o = false.
Proof.
  intros D1 D2. unfold qrange.
  destruct (key_leb (cfirst c) (last_key o)) eqn:Q1; [|reflexivity].
  destruct (key_leb (first_key o) (clast c)) eqn:Q2; [|reflexivity].
  rewrite (key_leb_trans _ _ _ Q1 D2), (key_leb_trans _ _ _ D1 Q2) in Hkd. discriminate.
Qed.
End Disjoint.

Lemma pins_no_overlap c x g :
  key_leb (cfirst c) (first_key x) = true -> key_leb (last_key x) (clast c) = true ->
  qrange (cfirst c) (clast c) g = false -> files_overlap x g = false.
Proof.
  intros C1 C2 Hq. unfold files_overlap.
  destruct (key_leb (first_key x) (last_key g)) eqn:O1; [|reflexivity].
  destruct (key_leb (first_key g) (last_key x)) eqn:O2; [|reflexivity].
  unfold qrange in Hq.
  rewrite (key_leb_trans _ _ _ C1 O1), (key_leb_trans _ _ _ O2 C2) in Hq. discriminate.
Qed.

(* the files of levels lower..upper, found by index in the ordered level list *)
Lemma in_levels_range v c i x : (clower c < cupper c)%nat -> (cupper c < length v)%nat ->
  (clower c <= i <= cupper c)%nat -> In x (nth i (ordered_levels v) []) ->
  In x (mid_files v c ++ upper_level v c).
Proof.
  intros Hlt Hlen Hi Hx. apply in_or_app.
  destruct (Nat.eq_dec i (cupper c)) as [->|Hne].
  - right. unfold upper_level. rewrite <- nth_ordered_levels by lia. exact Hx.
  - left. unfold mid_files. apply in_concat. exists (nth i (ordered_levels v) []). split; [|exact Hx].
    replace (nth i (ordered_levels v) []) with
      (nth (i - clower c) (firstn (cupper c - clower c) (skipn (clower c) (ordered_levels v))) []).
    + apply nth_In. rewrite firstn_length, skipn_length, length_ordered_levels. lia.
    + rewrite nth_firstn_lt by lia. rewrite nth_skipn_add. f_equal. lia.
Qed.

(* ------------------------------------------------------------------ (a), (c): another compaction is applied *)
Theorem apply_other_stable v c d outs :
  wf_version v -> wf_version (apply_compaction v d outs) ->
  valid_compactionb v c = true -> valid_compactionb v d = true ->
  conflictb c d = false ->
  (forall o, In o outs -> is_input c o = false /\
     key_leb (cfirst d) (first_key o) = true /\ key_leb (last_key o) (clast d) = true) ->
  valid_compactionb (apply_compaction v d outs) c = true /\
  input_files (apply_compaction v d outs) c = input_files v c.
Proof.
  intros Hw Hw' Hvc Hvd Hnc Houts.
  destruct (valid_parts v c Hvc) as (Hltc & Hupc & Hflc & _ & _ & _ & Hrangec & Hclc & _).
  destruct (valid_parts v d Hvd) as (Hltd & Hupd & Hfld & Hlbub & Hsld & _ & Hranged & _ & _).
  pose proof (ordered_levels_apply v d outs Hltd Hupd) as Hov'. cbv zeta in Hov'.
  set (v' := apply_compaction v d outs) in *.
  set (ov := ordered_levels v) in *. set (ov' := ordered_levels v') in *.
  set (ud := nth (cupper d) v []) in *.
  set (lbd := lower_bound ud (cfirst d)) in *. set (ubd := upper_bound ud (clast d)) in *.
  set (newu := firstn lbd ud ++ outs ++ skipn ubd ud) in *.
  set (F := filter (fun f => negb (is_input d f))) in *.
  assert (Hlenov : length ov = length v) by apply length_ordered_levels.
  assert (Hlenov' : length ov' = length ov) by (rewrite Hov'; apply length_patch; lia).
  assert (Hlen' : length v' = length v) by (rewrite <- (length_ordered_levels v'); fold ov'; lia).
  set (Pins := fun g => qrange (cfirst c) (clast c) g = false).
  (* a file of a level that both compactions cover is not an input of both *)
  assert (Hboth : forall i x, (clower c <= i <= cupper c)%nat -> (clower d <= i <= cupper d)%nat ->
            In x (nth i ov []) -> is_input c x = true -> is_input d x = true -> False).
  { intros i x Hic Hid Hx Hxc Hxd.
    destruct (no_conflict_cases c d Hnc) as [H|[H|Hkd]]; [lia|lia|].
    assert (Hwx : wf_fileb x = true).
    { assert (Hlv : In (nth i ov []) ov) by (apply nth_In; lia).
      pose proof (forall_wf_ordered v Hw _ Hlv) as Fw. rewrite Forall_forall in Fw. auto. }
    destruct (input_in_range v c x Hrangec (in_levels_range v c i x Hltc Hupc Hic Hx) Hxc) as [C1 C2].
    destruct (input_in_range v d x Hranged (in_levels_range v d i x Hltd Hupd Hid Hx) Hxd) as [D1 D2].
    exact (disjoint_not_both c d Hkd x (file_first_le_last x Hwx) C1 C2 D1 D2). }
  assert (HL : forall i, (clower c <= i <= cupper c)%nat ->
            edit (is_input c) Pins (nth i ov []) (nth i ov' [])).
  { intros i Hi. rewrite Hov'. rewrite nth_patch by (lia || reflexivity).
    destruct (Nat.ltb_spec i (clower d)) as [H1|H1]; [apply edit_refl|].
    destruct (Nat.ltb_spec i (cupper d)) as [H2|H2].
    - apply edit_filter. intros x Hx Hp. apply negb_false_iff in Hp.
      destruct (is_input c x) eqn:Ec; [exfalso|reflexivity].
      apply (Hboth i x); auto; lia.
    - destruct (Nat.eqb_spec i (cupper d)) as [H3|H3]; [|apply edit_refl].
      subst i.
      assert (Hud : nth (cupper d) ov [] = ud) by (unfold ov, ud; apply nth_ordered_levels; lia).
      rewrite Hud. rewrite (level_split ud lbd ubd Hlbub) at 1. unfold newu.
      apply edit_app; [apply edit_refl|]. apply edit_app; [|apply edit_refl].
      destruct (no_conflict_cases c d Hnc) as [H|[H|Hkd]]; [lia|lia|].
      apply edit_replace.
      + intros x Hx.
        assert (Hxd : is_input d x = true).
        { unfold vc_slice in Hsld. rewrite forallb_forall in Hsld. apply Hsld. exact Hx. }
        destruct (is_input c x) eqn:Ec; [exfalso|reflexivity].
        apply (Hboth (cupper d) x); [lia|lia| |exact Ec|exact Hxd]. rewrite Hud.
        unfold slice in Hx. eapply in_skipn. eapply in_firstn. exact Hx.
      + intros y Hy. destruct (Houts y Hy) as (Y1 & Y2 & Y3). split; [exact Y1|].
        exact (disjoint_pins c d Hkd y Y2 Y3). }
  assert (HM : edit (is_input c) Pins (mid_files v c) (mid_files v' c)).
  { unfold mid_files. fold ov ov'. apply edit_concat.
    assert (Hb : (clower c + (cupper c - clower c) <= length ov)%nat) by lia.
    apply (window_rel _ []); [exact (eq_sym Hlenov')|exact Hb|]. intros i Hi. apply HL. lia. }
  assert (HU : edit (is_input c) Pins (upper_level v c) (upper_level v' c)).
  { unfold upper_level. rewrite <- (nth_ordered_levels v), <- (nth_ordered_levels v') by lia.
    fold ov ov'. apply HL. lia. }
  apply valid_transfer; try assumption.
  - exact (edit_filter_inp _ _ _ _ HM).
  - apply (edit_closed _ _ _ _ HM); [|exact Hclc].
    intros x g Hx Hix Hpg.
    destruct (input_in_range v c x Hrangec (in_or_app _ _ _ (or_introl Hx)) Hix) as [C1 C2].
    exact (pins_no_overlap c x g C1 C2 Hpg).
  - exact (edit_filter_inp _ _ _ _ HU).
  - intros f Hf. exact (edit_in _ _ _ _ HU f Hf).
Qed.

(* ------------------------------------------------------------------ (b): a file is pushed onto L0 *)
Theorem push_l0_stable v c f :
  v <> [] -> wf_version v -> wf_version (set_nth 0 (hd [] v ++ [f]) v) ->
  l0_order (hd [] v ++ [f]) = f :: l0_order (hd [] v) ->
  valid_compactionb v c = true -> is_input c f = false ->
  valid_compactionb (set_nth 0 (hd [] v ++ [f]) v) c = true /\
  input_files (set_nth 0 (hd [] v ++ [f]) v) c = input_files v c.
Proof.
  intros Hne Hw Hw' Hl0 Hv Hf. destruct v as [|l0 r]; [congruence|]. cbn [hd set_nth] in *.
  destruct (valid_parts _ c Hv) as (Hlt & Hup & _ & _ & _ & _ & _ & Hcl & _).
  assert (HU : upper_level ((l0 ++ [f]) :: r) c = upper_level (l0 :: r) c).
  { unfold upper_level. destruct (cupper c); [lia|reflexivity]. }
  assert (HM : mid_files ((l0 ++ [f]) :: r) c =
               if (clower c =? 0)%nat then f :: mid_files (l0 :: r) c else mid_files (l0 :: r) c).
  { unfold mid_files. cbn [ordered_levels]. rewrite Hl0.
    destruct (clower c) as [|lo'] eqn:El; cbn [Nat.eqb skipn]; [|reflexivity].
    destruct (cupper c - 0)%nat as [|k] eqn:Ek; [lia|]. reflexivity. }
  apply valid_transfer; try assumption.
  - reflexivity.
  - rewrite HM. destruct (clower c =? 0)%nat; [|reflexivity]. cbn [filter]. now rewrite Hf.
  - rewrite HM. unfold vc_closed in Hcl. destruct (clower c =? 0)%nat; [|exact Hcl].
    cbn [closed_overlap]. rewrite Hf. exact Hcl.
  - now rewrite HU.
  - rewrite HU. auto.
Qed.
