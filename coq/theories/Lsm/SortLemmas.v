(* Lsm/SortLemmas.v — sort_entries (key ascending, timestamp descending) and per-key views *)
From Coq Require Import NArith List Bool Lia Arith Permutation.
From Blue Require Import Lsm.Model Lsm.KeyOrder Lsm.LoadProofs Lsm.Ordered Lsm.ListLemmas.
Import ListNotations.
Open Scope N_scope.

Arguments N.leb : simpl never.
Arguments N.ltb : simpl never.

Lemma entry_leb_trans a b c : entry_leb a b = true -> entry_leb b c = true -> entry_leb a c = true.
Proof.
  unfold entry_leb.
  destruct (lex_cmp (ek a) (ek b)) eqn:E1; try discriminate;
  destruct (lex_cmp (ek b) (ek c)) eqn:E2; try discriminate; intros H1 H2.
  - apply lex_cmp_eq in E1. apply lex_cmp_eq in E2. rewrite E1, E2, lex_cmp_refl.
    apply N.leb_le. apply N.leb_le in H1, H2. lia.
  - apply lex_cmp_eq in E1. now rewrite E1, E2.
  - apply lex_cmp_eq in E2. now rewrite <- E2, E1.
  - now rewrite (lex_cmp_lt_trans _ _ _ E1 E2).
Qed.

Lemma entry_leb_total a b : entry_leb a b = false -> entry_leb b a = true.
Proof.
  unfold entry_leb. rewrite (lex_cmp_antisym (ek a) (ek b)).
  destruct (lex_cmp (ek a) (ek b)); cbn; try discriminate; auto.
  intros H. apply N.leb_le. apply N.leb_gt in H. lia.
Qed.

Fixpoint ssorted (l : list entry) : Prop :=
  match l with [] => True | x :: r => (forall y, In y r -> entry_leb x y = true) /\ ssorted r end.

Lemma insert_entry_perm x l : Permutation (x :: l) (insert_entry x l).
Proof.
  induction l as [|y r IH]; cbn; [reflexivity|].
  destruct (entry_leb x y); [reflexivity|].
  rewrite perm_swap. now constructor.
Qed.

Lemma sort_entries_perm l : Permutation l (sort_entries l).
Proof.
  induction l as [|x r IH]; cbn; [constructor|].
  rewrite <- insert_entry_perm. now constructor.
Qed.

Lemma insert_entry_ssorted x l : ssorted l -> ssorted (insert_entry x l).
Proof.
  induction l as [|y r IH]; cbn [insert_entry ssorted]; intros Hs.
  - split; [intros ? []|exact I].
  - destruct Hs as [Hy Hr]. destruct (entry_leb x y) eqn:E; cbn [ssorted].
    + split; [|split; assumption].
      intros z [<-|Hz]; [exact E|]. eapply entry_leb_trans; [exact E|]. now apply Hy.
    + split; [|now apply IH].
      intros z Hz. apply (Permutation_in _ (Permutation_sym (insert_entry_perm x r))) in Hz.
      destruct Hz as [<-|Hz]; [now apply entry_leb_total|now apply Hy].
Qed.

Lemma sort_entries_ssorted l : ssorted (sort_entries l).
Proof. induction l as [|x r IH]; cbn; [exact I|]. now apply insert_entry_ssorted. Qed.

(* non-strict descending timestamps *)
Fixpoint desc_ge (l : list entry) : Prop :=
  match l with [] => True | x :: r => (forall y, In y r -> ets y <= ets x) /\ desc_ge r end.

Lemma kfilter_ssorted_desc_ge k l : ssorted l -> desc_ge (kfilter k l).
Proof.
  induction l as [|x r IH]; cbn [ssorted kfilter filter]; [intros _; exact I|].
  intros [Hx Hr]. destruct (key_eqb (ek x) k) eqn:E; [|now apply IH].
  cbn [desc_ge]. split; [|now apply IH].
  intros y Hy. apply in_kfilter in Hy. destruct Hy as [Hy Hk].
  specialize (Hx y Hy). unfold entry_leb in Hx. apply key_eqb_eq in E.
  rewrite E, Hk, lex_cmp_refl in Hx. now apply N.leb_le.
Qed.

Lemma kfilter_perm k l1 l2 : Permutation l1 l2 -> Permutation (kfilter k l1) (kfilter k l2).
Proof.
  unfold kfilter. induction 1 as [| x l1 l2 _ IH | x y l | l1 l2 l3 _ IH1 _ IH2]; cbn.
  - constructor.
  - destruct (key_eqb (ek x) k); [now constructor|exact IH].
  - destruct (key_eqb (ek y) k); destruct (key_eqb (ek x) k); try reflexivity. apply perm_swap.
  - etransitivity; eauto.
Qed.

(* a strictly descending list is the only non-strictly descending arrangement of its elements *)
Lemma desc_perm_unique l1 : forall l2, desc_ts l1 -> desc_ge l2 -> Permutation l1 l2 -> l1 = l2.
Proof.
  induction l1 as [|x r IH]; intros l2 H1 H2 P.
  - apply Permutation_nil in P. now subst.
  - destruct l2 as [|y r2]; [apply Permutation_sym, Permutation_nil in P; discriminate|].
    cbn [desc_ts] in H1. destruct H1 as [Hx Hr]. cbn [desc_ge] in H2. destruct H2 as [Hy Hr2].
    assert (x = y) as ->.
    { assert (Hxin : In x (y :: r2)) by (eapply Permutation_in; [exact P|now left]).
      assert (Hyin : In y (x :: r)) by (eapply Permutation_in; [apply Permutation_sym; exact P|now left]).
      destruct Hxin as [->|Hxin]; [reflexivity|].
      destruct Hyin as [->|Hyin]; [reflexivity|].
      specialize (Hx y Hyin). specialize (Hy x Hxin). lia. }
    f_equal. apply IH; auto. eapply Permutation_cons_inv; eauto.
Qed.

Lemma desc_ts_sublist_filter (p : entry -> bool) l : desc_ts l -> desc_ts (filter p l).
Proof.
  induction l as [|x r IH]; cbn [desc_ts filter]; [auto|]. intros [Hx Hr].
  destruct (p x); cbn [desc_ts]; [|auto]. split; [|auto].
  intros y Hy. apply filter_In in Hy. now apply Hx.
Qed.

(* the versions of k in the sorted merge of es are the versions of k in es, whenever those are
   already strictly descending *)
Lemma kfilter_sort_entries k es : desc_ts (kfilter k es) -> kfilter k (sort_entries es) = kfilter k es.
Proof.
  intros Hd. symmetry. apply desc_perm_unique; [exact Hd| |].
  - apply kfilter_ssorted_desc_ge, sort_entries_ssorted.
  - apply kfilter_perm, sort_entries_perm.
Qed.

Lemma kfilter_flat_map k (fs : list file) : kfilter k (flat_map fents fs) = flat_map (kf k) fs.
Proof.
  unfold kfilter, kf, kfilter. induction fs as [|f fs IH]; cbn; [reflexivity|].
  now rewrite filter_app, IH.
Qed.

Lemma ssorted_strict_sortedb l : ssorted l -> (forall k, desc_ts (kfilter k l)) -> sorted_entriesb l = true.
Proof.
  induction l as [|x r IH]; [reflexivity|]. intros [Hx Hr] Hd.
  destruct r as [|y r']; [reflexivity|].
  change (sorted_entriesb (x :: y :: r')) with (entry_leb x y && negb (entry_leb y x) && sorted_entriesb (y :: r')).
  rewrite (Hx y (or_introl eq_refl)). cbn [andb].
  rewrite IH; [|exact Hr|].
  - rewrite andb_true_r. apply negb_true_iff. destruct (entry_leb y x) eqn:E; [exfalso|reflexivity].
    pose proof (Hx y (or_introl eq_refl)) as Exy. unfold entry_leb in E, Exy.
    destruct (lex_cmp (ek x) (ek y)) eqn:C; try discriminate.
    + (* same key: both timestamp comparisons hold, so equal timestamps, against strictness *)
      pose proof (lex_cmp_eq _ _ C) as Ek. rewrite (lex_cmp_antisym (ek x) (ek y)), C in E. cbn in E.
      apply N.leb_le in E, Exy. specialize (Hd (ek x)). unfold kfilter in Hd. cbn [filter] in Hd.
      rewrite key_eqb_refl in Hd. rewrite <- Ek, key_eqb_refl in Hd. cbn [desc_ts] in Hd.
      destruct Hd as [Hd _]. specialize (Hd y (or_introl eq_refl)). lia.
    + rewrite (lex_cmp_antisym (ek x) (ek y)), C in E. cbn in E. discriminate.
  - intros k. specialize (Hd k). unfold kfilter in *. cbn [filter] in Hd.
    destruct (key_eqb (ek x) k); [cbn [desc_ts] in Hd; tauto|exact Hd].
Qed.

