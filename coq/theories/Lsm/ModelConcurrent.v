(* Lsm/ModelConcurrent.v — the store with K compaction threads: a compaction is SELECTED against
   one version (next_compaction under the tree mutex; the choice stays in `ongoing`) and APPLIED,
   much later, to whatever version is current then (apply_manifest_compaction /
   apply_moving_compaction: take the mutex, snapshot the current version, Version::apply_compaction).
   In between other threads select, apply, release, and the flush thread ingests new L0 files.
   Definitions only; the proofs are in Lsm/Concurrent*.v.

   Transcribed from lsmtk/src/tree/mod.rs:
     CompactionCore::overlapping               -> conflictb
     Version::may_choose_compaction (the loop over `ongoing`)   -> no_conflictb
     next_compaction + emit_compaction (push onto `ongoing`)    -> CSelect
     perform_compaction / perform_garbage_collection (read the INPUT FILES, which are immutable,
       through compaction_setup's cursors; top_level() picks the collector)
     + apply_manifest_compaction / apply_moving_compaction      -> CApply
     release_compaction (the error path of compaction_thread)   -> CRelease
   `ongoing` is an unordered bag in the Rust (swap_remove); here a list whose positions only name
   its members (removal keeps the order of the rest). *)
From Coq Require Import NArith List Bool Arith.
From Blue Require Import Gen.Const_Lsm Lsm.Model Lsm.History.
Import ListNotations.
Open Scope N_scope.

(* CompactionCore::overlapping: level ranges intersect (inclusive) AND key ranges intersect *)
Definition conflictb (c d : compaction) : bool :=
  (clower c <=? cupper d)%nat && (clower d <=? cupper c)%nat &&
  key_leb (cfirst c) (clast d) && key_leb (cfirst d) (clast c).

(* What is remembered of a selected compaction: its descriptor, and the entries of its input files
   as the compaction thread reads them.  Files are immutable and stay in sst/ while referenced, so
   this is the same list whenever it is read; the theorems show it is also what the CURRENT version
   holds under the input ids at apply time. *)
Definition pend := (compaction * list entry)%type.
Record cstore := mkCS { st : store; pending : list pend }.

Inductive cop :=
| CBase (o : op)                          (* a step of History.v; OCompact / OGc = select + apply at once *)
| CSelect (c : compaction)                (* a thread takes c; it stays ongoing *)
| CApply (i : nat) (outs : list file)     (* ongoing compaction number i is applied to the current version *)
| CRelease (i : nat).                     (* a failed compaction gives its claim back *)

(* outputs judged against the entries that were READ, not against any version *)
Definition merge_okb (E : list entry) (outs : list file) : bool :=
  entries_eqb (flat_map fents outs) (sort_entries E) &&
  forallb (fun f => match fents f with [] => false | _ => true end) outs.
Definition gc_okb (E : list entry) (outs : list file) : bool :=
  let Es := sort_entries E in
  let O := flat_map fents outs in
  subseqb O Es && gc_heads_okb Es O &&
  forallb (fun f => match fents f with [] => false | _ => true end) outs.

Definition no_conflictb (ps : list pend) (c : compaction) : bool :=
  forallb (fun p => negb (conflictb c (fst p))) ps.

(* A file that enters the tree does not carry the id of an input of an ongoing compaction.
   The Rust does not test this where the file enters; it follows from what an id IS: the setsum
   of the file's entries (sst::Setsum::insert hashes every key, timestamp and value; the file is
   NAMED by it, SST_FILE(root, setsum)).  No entry lives in two files of a tree (the Ordered
   invariant: timestamps strictly descend along every key's view), a flushed memtable and an
   accepted ingest carry entries newer than everything in the tree (and LsmTree::_ingest refuses a
   file whose name exists in sst/: duplicate_sst - the inputs of ongoing compactions are there),
   compaction outputs carry entries of their OWN inputs only (compaction_finish_pinned tolerates
   AlreadyExists for exactly that case: "sometimes compaction generates the same file as input and
   output") - so a file entering the tree differs in content, hence (setsum collisions aside: trusted
   base) in id, from every other file of the tree, in particular from the inputs of every OTHER
   ongoing compaction.  Without the condition the theorem is false in the model:
   apply_compaction_inner's `retain` (by setsum) would delete the newcomer together with the input. *)
Definition fresh_forb (ps : list pend) (fs : list file) : bool :=
  forallb (fun f => forallb (fun p => negb (is_input (fst p) f)) ps) fs.

Fixpoint remove_nth {A} (i : nat) (l : list A) {struct l} : list A :=
  match l with
  | [] => []
  | x :: r => match i with O => r | S i' => x :: remove_nth i' r end
  end.

(* the files a base step adds to the tree *)
Definition added_files (s : store) (o : op) : list file :=
  match o with
  | OFlush id sz => match mem s with [] => [] | _ => [mkF id (sort_entries (mem s)) sz] end
  | OIngest f => [f]
  | OCompact _ outs => outs
  | OGc _ outs => outs
  | _ => []
  end.

(* `chk` = whether may_choose_compaction's conflict loop is there (true in the real code; false only
   to show that the theorem needs it) *)
Definition cacceptedb_gen (chk : bool) (cs : cstore) (o : cop) : bool :=
  match o with
  | CBase o =>
      acceptedb (st cs) o && fresh_forb (pending cs) (added_files (st cs) o) &&
      match o with
      | OCompact c _ => negb chk || no_conflictb (pending cs) c
      | OGc c _ => negb chk || no_conflictb (pending cs) c
      | _ => true
      end
  | CSelect c =>
      (* next_compaction returns c: admissible on the CURRENT version (C20: selector_admissible) and
         not overlapping any ongoing one (may_choose_compaction; C20: selector_may_choose) *)
      valid_compactionb (ver (st cs)) c && (negb chk || no_conflictb (pending cs) c)
  | CApply i outs =>
      match nth_error (pending cs) i with
      | Some (c, E) =>
          (* the outputs are the sorted merge of what was read - or, for a compaction into the last
             level (Compaction::top_level), what the collector may leave of it.  NOT re-checked:
             valid_compactionb on the version the compaction is applied to. *)
          (merge_okb E outs || ((S (cupper c) =? length (ver (st cs)))%nat && gc_okb E outs)) &&
          fresh_forb (remove_nth i (pending cs)) outs
      | None => false
      end
  | CRelease i => match nth_error (pending cs) i with Some _ => true | None => false end
  end.
Definition cacceptedb := cacceptedb_gen true.

Definition cstep (cs : cstore) (o : cop) : cstore :=
  match o with
  | CBase o =>
      mkCS (step (st cs) o)
           (match o with OReopen _ _ _ _ => [] | _ => pending cs end)   (* exit + open: `ongoing` dies with the process *)
  | CSelect c => mkCS (st cs) (pending cs ++ [(c, input_entries (ver (st cs)) c)])
  | CApply i outs =>
      match nth_error (pending cs) i with
      | Some (c, _) => mkCS (compact (st cs) c outs) (remove_nth i (pending cs))
      | None => cs
      end
  | CRelease i => mkCS (st cs) (remove_nth i (pending cs))
  end.

Fixpoint crun (cs : cstore) (ops : list cop) : cstore :=
  match ops with [] => cs | o :: r => crun (cstep cs o) r end.
Fixpoint caccepted_gen (chk : bool) (cs : cstore) (ops : list cop) : bool :=
  match ops with [] => true | o :: r => cacceptedb_gen chk cs o && caccepted_gen chk (cstep cs o) r end.
Definition caccepted := caccepted_gen true.

Definition cinit_at (n : N) : cstore := mkCS (init_at n) [].

(* the specification: the last write to k; only base steps write *)
Definition cspec_step (m : key -> option (list N)) (o : cop) : key -> option (list N) :=
  match o with CBase o => spec_step m o | _ => m end.
Definition cspec (ops : list cop) : key -> option (list N) := fold_left cspec_step ops (fun _ => None).

(* the versions at which ongoing compactions were applied, with what was applied there (for the
   statement "every apply was admissible where it happened, and what had been read at selection
   time is what that version held under the input ids") *)
Fixpoint applies (cs : cstore) (ops : list cop) : list (version * pend) :=
  match ops with
  | [] => []
  | o :: r =>
      match o with
      | CApply i _ => match nth_error (pending cs) i with
                      | Some p => [(ver (st cs), p)]
                      | None => []
                      end
      | _ => []
      end ++ applies (cstep cs o) r
  end.
