(* Lsm/History.v — histories of the store model: writes, flushes and admissible compactions.
   Definitions (executable) first, then the invariant proof. *)
From Coq Require Import NArith List Bool Lia Arith Permutation.
From Blue Require Import Gen.Const_Lsm Lsm.Model Lsm.KeyOrder Lsm.LoadProofs Lsm.Ordered Lsm.ListLemmas Lsm.SortLemmas Lsm.CompactProofs Lsm.GcProofs Lsm.WfProofs.
Import ListNotations.
Open Scope N_scope.

Arguments N.leb : simpl never.
Arguments N.ltb : simpl never.

Inductive op :=
| OWrite (b : list (key * option (list N)))      (* put / del / write-batch: one sequence number *)
| OFlush (id sz : N)                             (* rollover + flush of the memtable into L0 *)
| OCompact (c : compaction) (outs : list file)   (* trivial move or merging compaction *)
| OIngest (f : file)                             (* LsmTree::ingest of an external sst (appended to
                                                   L0) whose entries are newer than everything the
                                                   store holds; the memtable is empty (tree-level use) *)
| OGc (c : compaction) (outs : list file)        (* garbage collection: a merge into the last level that
                                                   may drop what the policy permits *)
| OReopen (id sz : N) (v' : version) (seq' : N). (* exit + open: the log is replayed into one L0 file,
                                                   then the tree is rebuilt from the files' metadata
                                                   (lsmtk/src/tree/recover.rs).  The rebuilt arrangement
                                                   v' is an INPUT here: recover is not modelled, its
                                                   result is checked (same entries, well formed, ordered). *)

Fixpoint nodup_keysb (ks : list key) : bool :=
  match ks with [] => true | k :: r => negb (existsb (key_eqb k) r) && nodup_keysb r end.

(* Version::ingest: push at the end of L0; the sequence counter moves up to the file's newest
   timestamp (a tree-level caller reads at u64::MAX; KeyValueStore::open does the same max) *)
Definition ingest (s : store) (f : file) : store :=
  mkS (mem s) (set_nth 0 (hd [] (ver s) ++ [f]) (ver s)) (N.max (seq s) (biggest_ts f)).
Definition newer_than_store (s : store) (f : file) : bool :=
  forallb (fun e => forallb (fun e' => ets e' <? ets e) (file_entries (ver s))) (fents f).

(* which steps the theorem covers.  Every batch is covered (a key named twice keeps its last
   write: Model.write transcribes the dedup of KeyValueStore::write, the repair of finding F7); a
   compaction is admissible and its outputs are the sorted merge of its inputs (that the resulting
   levels are well formed is then a theorem: Lsm/WfProofs.v). *)
Definition acceptedb (s : store) (o : op) : bool :=
  match o with
  | OWrite _ => true
  | OFlush _ _ => true
  | OCompact c outs => valid_compactionb (ver s) c && outputs_okb (ver s) c outs
  | OIngest f => match mem s with [] => true | _ => false end && wf_fileb f && newer_than_store s f
  | OGc c outs => valid_compactionb (ver s) c && (S (cupper c) =? length (ver s))%nat &&
                  gc_outputs_okb (ver s) c outs
  | OReopen id sz v' seq' =>
      let s1 := flush s id sz in
      subsetb (file_entries (ver s1)) (file_entries v') && subsetb (file_entries v') (file_entries (ver s1)) &&
      wf_versionb v' && orderedb (mkS [] v' seq') && forallb (fun e => ets e <=? seq') (file_entries v') &&
      match v' with [] => false | _ => true end
  end.

Definition step (s : store) (o : op) : store :=
  match o with
  | OWrite b => write s b
  | OFlush id sz => flush s id sz
  | OCompact c outs => compact s c outs
  | OIngest f => ingest s f
  | OGc c outs => compact s c outs
  | OReopen id sz v' seq' => mkS [] v' seq'
  end.

(* ---- what the call returns.  `step` is total; the Rust is not: it indexes, subtracts and returns
   Err on conditions the model can see.  step_outcome says, for the same state and step, whether
   the real call completes (Done, with step's state), panics, or returns an error:
     - Version::apply_compaction_inner indexes new_tree.levels[compaction.upper_level] (and
       self.levels[level] for lower <= level < upper): index out of bounds iff upper >= the number
       of levels; it computes upper_level.ssts.len() - (upper_bound - lower_bound): the inner
       subtraction overflows iff upper_bound < lower_bound (a panic with overflow checks, as the
       harness is built; without them a nonsensical capacity).  Model.apply_compaction returns
       the version unchanged / an ill-formed level there;
     - KeyValueStore::write hands an EMPTY batch to sst::log's append, which returns
       Err(empty_batch) - after the sequence number was taken;
     - LsmTree::_ingest (external ingest AND the flush of a memtable) returns Err(duplicate_sst)
       when a file with the new file's setsum exists in sst/ - model-visible part: a file of the
       tree has the id;
     - a flush with an empty memtable does nothing (rollover happens inside a write that finds
       the memtable full; the harness does not request a flush of an empty memtable);
     - reopen: recovery is not modelled, its result is an input (OReopen), so it is Done. ---- *)
Inductive outcome := Done (s : store) | Panic | Fail.

Definition id_in_tree (v : version) (id : N) : bool := existsb (fun f => fid f =? id) (concat v).

Definition apply_outcome (s : store) (c : compaction) (outs : list file) : outcome :=
  if negb (cupper c <? length (ver s))%nat then Panic
  else let u := nth (cupper c) (ver s) [] in
       if (upper_bound u (clast c) <? lower_bound u (cfirst c))%nat then Panic
       else Done (compact s c outs).

Definition step_outcome (s : store) (o : op) : outcome :=
  match o with
  | OWrite b => match b with [] => Fail | _ => Done (write s b) end
  | OFlush id sz => match mem s with
                    | [] => Done s
                    | _ => if id_in_tree (ver s) id then Fail else Done (flush s id sz)
                    end
  | OCompact c outs => apply_outcome s c outs
  | OIngest f => if id_in_tree (ver s) (fid f) then Fail else Done (ingest s f)
  | OGc c outs => apply_outcome s c outs
  | OReopen id sz v' seq' => Done (mkS [] v' seq')
  end.

(* the caller's side of the two documented errors: a batch is not empty, and a file entering the
   tree has a new id (an id is the setsum of the content, and the content is new: see
   ModelConcurrent.fresh_forb) *)
Definition call_okb (s : store) (o : op) : bool :=
  match o with
  | OWrite b => match b with [] => false | _ => true end
  | OFlush id _ => match mem s with [] => true | _ => negb (id_in_tree (ver s) id) end
  | OIngest f => negb (id_in_tree (ver s) (fid f))
  | _ => true
  end.

Fixpoint run (s : store) (ops : list op) : store :=
  match ops with [] => s | o :: r => run (step s o) r end.
Fixpoint run_outcome (s : store) (ops : list op) : outcome :=
  match ops with
  | [] => Done s
  | o :: r => match step_outcome s o with Done s' => run_outcome s' r | x => x end
  end.
Fixpoint all_calls_ok (s : store) (ops : list op) : bool :=
  match ops with [] => true | o :: r => call_okb s o && all_calls_ok (step s o) r end.
Fixpoint all_accepted (s : store) (ops : list op) : bool :=
  match ops with [] => true | o :: r => acceptedb s o && all_accepted (step s o) r end.

Definition init_at (n : N) : store := mkS [] (repeat [] (N.to_nat LSM_NUM_LEVELS)) n.
Definition init : store := init_at 0.

(* the specification: the value of the last write to k (None: deleted or never written); inside a
   batch too the LAST entry naming k counts *)
Definition spec_step (m : key -> option (list N)) (o : op) : key -> option (list N) :=
  match o with
  | OWrite b => fun k => match find (fun kv => key_eqb (fst kv) k) (rev b) with Some kv => snd kv | None => m k end
  | OIngest f => fun k => match find (fun e => key_eqb (ek e) k) (fents f) with Some e => ev e | None => m k end
  | _ => m
  end.
Definition spec (ops : list op) : key -> option (list N) := fold_left spec_step ops (fun _ => None).

(* ------------------------------------------------------------------ proofs *)
Definition top_value (s : store) (k : key) : option (list N) :=
  match kview s k with e :: _ => ev e | [] => None end.

Record Inv (s : store) : Prop := {
  inv_wf : wf_version (ver s);
  inv_ord : Ordered s;
  inv_seq : forall e, In e (all_entries s) -> ets e <= seq s;
  inv_mem_new : forall e e', In e (mem s) -> In e' (flat_map fents (flat (ver s))) -> ets e' < ets e
}.

Lemma get_is_top s k : Inv s -> get s k = top_value s k.
Proof.
  intros I. unfold get, top_value. rewrite (load_is_find_kview s k (seq s) (inv_wf s I)).
  destruct (kview s k) as [|e r] eqn:E; [reflexivity|]. cbn [find].
  assert (Hin : In e (all_entries s)) by (apply (in_kview s k e); rewrite E; now left).
  destruct (N.leb_spec (ets e) (seq s)) as [_|Hgt]; [reflexivity|].
  pose proof (inv_seq s I e Hin). lia.
Qed.

(* ---- write ---- *)
Lemma nodup_keysb_find_unique (b : list (key * option (list N))) k :
  nodup_keysb (map fst b) = true ->
  forall n, kfilter k (rev (map (fun kv => mkE (fst kv) n (snd kv)) b)) =
            match find (fun kv => key_eqb (fst kv) k) b with Some kv => [mkE (fst kv) n (snd kv)] | None => [] end.
Proof.
  intros Hnd n. induction b as [|[k0 v0] b IH]; [reflexivity|].
  cbn [map fst nodup_keysb] in Hnd. apply andb_prop in Hnd. destruct Hnd as [Hk0 Hnd].
  cbn [map rev fst snd find]. unfold kfilter in *. rewrite filter_app. cbn [filter ek].
  rewrite (IH Hnd).
  destruct (key_eqb k0 k) eqn:E.
  - apply key_eqb_eq in E. subst k0.
    (* k does not occur in the rest of the batch *)
    assert (Hnone : find (fun kv => key_eqb (fst kv) k) b = None).
    { apply negb_true_iff in Hk0. clear -Hk0. induction b as [|[k1 v1] b IH]; [reflexivity|].
      cbn in *. apply orb_false_iff in Hk0. destruct Hk0 as [H1 H2].
      rewrite key_eqb_sym, H1. now apply IH. }
    rewrite Hnone. reflexivity.
  - rewrite app_nil_r. reflexivity.
Qed.

(* the dedup keeps each key once, and what it keeps for k is the LAST entry of the batch naming k *)
Lemma dedup_last_in (b : list (key * option (list N))) kv : In kv (dedup_last b) -> In kv b.
Proof.
  induction b as [|kv0 r IH]; cbn [dedup_last]; [auto|].
  destruct (existsb _ r); [right; auto|]. intros [<-|H]; [now left|right; auto].
Qed.

Lemma dedup_last_nodup (b : list (key * option (list N))) : nodup_keysb (map fst (dedup_last b)) = true.
Proof.
  induction b as [|kv r IH]; [reflexivity|]. cbn [dedup_last].
  destruct (existsb (fun kv' => key_eqb (fst kv') (fst kv)) r) eqn:E; [exact IH|].
  cbn [map nodup_keysb]. rewrite IH, andb_true_r. apply negb_true_iff.
  destruct (existsb (key_eqb (fst kv)) (map fst (dedup_last r))) eqn:E2; [exfalso|reflexivity].
  apply existsb_exists in E2. destruct E2 as (k' & Hk' & Ek'). apply in_map_iff in Hk'.
  destruct Hk' as (kv' & <- & Hkv'). apply dedup_last_in in Hkv'.
  assert (X : existsb (fun kv'0 => key_eqb (fst kv'0) (fst kv)) r = true).
  { apply existsb_exists. exists kv'. split; [exact Hkv'|]. now rewrite key_eqb_sym. }
  congruence.
Qed.

Lemma find_dedup_last (b : list (key * option (list N))) k :
  find (fun kv => key_eqb (fst kv) k) (dedup_last b) = find (fun kv => key_eqb (fst kv) k) (rev b).
Proof.
  induction b as [|kv r IH]; [reflexivity|]. cbn [dedup_last rev]. rewrite find_app_aux, <- IH. cbn [find].
  destruct (existsb (fun kv' => key_eqb (fst kv') (fst kv)) r) eqn:E.
  - destruct (key_eqb (fst kv) k) eqn:Ek; [|now destruct (find _ (dedup_last r))].
    (* kv names k, and so does a later entry: the later one wins *)
    apply key_eqb_eq in Ek. rewrite IH.
    apply existsb_exists in E. destruct E as (kv' & Hkv' & Ekv'). rewrite Ek in Ekv'.
    destruct (find (fun kv0 => key_eqb (fst kv0) k) (rev r)) eqn:F; [reflexivity|exfalso].
    pose proof (find_none _ _ F kv' (proj1 (in_rev _ _) Hkv')) as C. cbv beta in C. congruence.
  - cbn [find]. destruct (key_eqb (fst kv) k) eqn:Ek.
    + apply key_eqb_eq in Ek.
      destruct (find (fun kv0 => key_eqb (fst kv0) k) (dedup_last r)) as [kv'|] eqn:F; [exfalso|reflexivity].
      apply find_some in F. destruct F as [Hin Ek']. apply dedup_last_in in Hin.
      assert (X : existsb (fun kv'0 => key_eqb (fst kv'0) (fst kv)) r = true).
      { apply existsb_exists. exists kv'. split; [exact Hin|]. now rewrite Ek. }
      congruence.
    + now destruct (find _ (dedup_last r)).
Qed.

Lemma write_kview s b k :
  kview (write s b) k =
    match find (fun kv => key_eqb (fst kv) k) (rev b) with Some kv => [mkE (fst kv) (seq s + 1) (snd kv)] | None => [] end
    ++ kview s k.
Proof.
  unfold kview, write. cbn [mem ver]. unfold kfilter at 1. rewrite filter_app.
  fold (kfilter k (rev (map (fun kv => mkE (fst kv) (seq s + 1) (snd kv)) (dedup_last b)))). fold (kfilter k (mem s)).
  rewrite (nodup_keysb_find_unique (dedup_last b) k (dedup_last_nodup b)), find_dedup_last. now rewrite app_assoc.
Qed.

Lemma write_all_entries s b e : In e (all_entries (write s b)) <->
  (exists kv, In kv (dedup_last b) /\ e = mkE (fst kv) (seq s + 1) (snd kv)) \/ In e (all_entries s).
Proof.
  unfold all_entries, write. cbn [mem ver]. rewrite !in_app_iff, <- in_rev, in_map_iff.
  split.
  - intros [[(kv & <- & Hkv)|H]|H]; [left; eauto|right; tauto|right; tauto].
  - intros [(kv & Hkv & ->)|[H|H]]; [left; left; eauto|tauto|tauto].
Qed.

Lemma write_inv s b : Inv s -> Inv (write s b).
Proof.
  intros I. constructor.
  - exact (inv_wf s I).
  - intros k. rewrite (write_kview s b k).
    destruct (find _ (rev b)) as [kv|]; [|exact (inv_ord s I k)].
    cbn [app desc_ts]. split; [|exact (inv_ord s I k)].
    intros y Hy. apply in_kview in Hy. destruct Hy as [Hy _]. cbn [ets].
    pose proof (inv_seq s I y Hy). lia.
  - intros e He. apply write_all_entries in He. unfold write. cbn [seq].
    destruct He as [(kv & _ & ->)|He]; [cbn; lia|]. pose proof (inv_seq s I e He). lia.
  - intros e e' He He'. unfold write in *. cbn [mem ver] in *.
    apply in_app_or in He. destruct He as [He|He].
    + apply in_rev, in_map_iff in He. destruct He as (kv & <- & _). cbn [ets].
      assert (In e' (all_entries s)) by (unfold all_entries; apply in_or_app; now right).
      pose proof (inv_seq s I e' H). lia.
    + exact (inv_mem_new s I e e' He He').
Qed.

(* ---- flush ---- *)
Lemma biggest_ts_ge f e : In e (fents f) -> ets e <= biggest_ts f.
Proof.
  unfold biggest_ts. induction (fents f) as [|x r IH]; [intros []|].
  cbn [fold_right]. intros [<-|H]; [lia|]. specialize (IH H). lia.
Qed.

Lemma biggest_ts_in f : fents f <> [] -> exists e, In e (fents f) /\ ets e = biggest_ts f.
Proof.
  unfold biggest_ts. induction (fents f) as [|x r IH]; [congruence|]. intros _.
  cbn [fold_right]. destruct r as [|y r'].
  - exists x. split; [now left|]. cbn. lia.
  - destruct IH as (e & He & Ee); [discriminate|].
    destruct (N.max_spec (ets x) (fold_right (fun e0 m => N.max (ets e0) m) 0 (y :: r'))) as [[_ ->]|[_ ->]].
    + exists e. split; [now right|exact Ee].
    + exists x. split; [now left|reflexivity].
Qed.

Lemma insert_by_snoc m a s x : m a < m x -> insert_by m a (s ++ [x]) = insert_by m a s ++ [x].
Proof.
  intros Hlt. induction s as [|y r IH]; cbn [app insert_by].
  - destruct (N.ltb_spec (m x) (m a)); [lia|reflexivity].
  - destruct (m y <? m a); [now rewrite IH|reflexivity].
Qed.

Lemma isort_by_snoc m l x : (forall y, In y l -> m y < m x) -> isort_by m (l ++ [x]) = isort_by m l ++ [x].
Proof.
  induction l as [|a l IH]; intros H; cbn [app isort_by insert_by]; [reflexivity|].
  rewrite IH by (intros y Hy; apply H; now right).
  apply insert_by_snoc. apply H. now left.
Qed.

Lemma l0_order_snoc l x : (forall y, In y l -> biggest_ts y < biggest_ts x) -> l0_order (l ++ [x]) = x :: l0_order l.
Proof. intros H. unfold l0_order. rewrite isort_by_snoc by exact H. now rewrite rev_app_distr. Qed.

Lemma flat_set_l0 v l0' : v <> [] -> flat (set_nth 0 l0' v) = l0_order l0' ++ concat (tl v).
Proof. destruct v as [|l0 r]; [congruence|]. reflexivity. Qed.

Lemma kview_mem_desc s k : Ordered s -> desc_ts (kfilter k (mem s)).
Proof. intros Ho. specialize (Ho k). unfold kview in Ho. apply desc_ts_app in Ho. tauto. Qed.

Lemma sort_entries_wf_file id sz es : es <> [] -> (forall k, desc_ts (kfilter k es)) ->
  wf_fileb (mkF id (sort_entries es) sz) = true.
Proof.
  intros Hne Hd. unfold wf_fileb. cbn [fents].
  destruct (sort_entries es) as [|x r] eqn:E.
  - exfalso. apply Hne. apply Permutation_nil. rewrite <- E. apply Permutation_sym, sort_entries_perm.
  - rewrite <- E. apply ssorted_strict_sortedb; [apply sort_entries_ssorted|].
    intros k. rewrite kfilter_sort_entries by apply Hd. apply Hd.
Qed.

Lemma flush_kview s id sz k : Inv s -> (ver s) <> [] -> kview (flush s id sz) k = kview s k.
Proof.
  intros I Hne. unfold flush. destruct (mem s) as [|m0 mr] eqn:Em; [reflexivity|].
  unfold kview at 1. cbn [mem ver kfilter filter app].
  rewrite flat_set_l0 by exact Hne.
  set (f := mkF id (sort_entries (m0 :: mr)) sz).
  rewrite l0_order_snoc.
  - cbn [app flat_map]. unfold kview. rewrite Em. unfold flat.
    f_equal. change (kfilter k (fents f)) with (kfilter k (sort_entries (m0 :: mr))).
    apply kfilter_sort_entries. rewrite <- Em. apply kview_mem_desc, (inv_ord s I).
  - intros y Hy.
    assert (Hfne : fents f <> []).
    { cbn [fents f]. intros C. assert (P := sort_entries_perm (m0 :: mr)). rewrite C in P.
      apply Permutation_sym, Permutation_nil in P. discriminate. }
    destruct (biggest_ts_in f Hfne) as (e & He & <-).
    assert (Hem : In e (mem s)).
    { rewrite Em. eapply Permutation_in; [apply Permutation_sym, sort_entries_perm|exact He]. }
    (* every entry of an L0 file is older than every memtable entry *)
    destruct (wf_version_levels _ (inv_wf s I)) as [Hwf _].
    assert (Hyw : wf_fileb y = true).
    { rewrite Forall_forall in Hwf. destruct (ver s) as [|l0 r]; [congruence|].
      specialize (Hwf l0 (or_introl eq_refl)). rewrite Forall_forall in Hwf. auto. }
    assert (Hyne : fents y <> []) by (unfold wf_fileb in Hyw; destruct (fents y); [discriminate|discriminate]).
    destruct (biggest_ts_in y Hyne) as (e' & He' & <-).
    apply (inv_mem_new s I e e' Hem).
    apply in_flat_map. exists y. split; [|exact He'].
    unfold flat. apply in_or_app. left. now apply in_l0_order.
Qed.

Lemma in_all_entries_kview s e : In e (all_entries s) <-> In e (kview s (ek e)).
Proof. rewrite in_kview. tauto. Qed.

Lemma files_view_eq s s' : mem s = mem s' -> (forall k, kview s' k = kview s k) ->
  forall e, In e (flat_map fents (flat (ver s'))) <-> In e (flat_map fents (flat (ver s))).
Proof.
  intros Hm Hk e.
  assert (H : forall t, In e (flat_map fents (flat (ver t))) <-> In e (flat_map (fun f => kfilter (ek e) (fents f)) (flat (ver t)))).
  { intros t. rewrite !in_flat_map. split; intros (f & Hf & He); exists f; (split; [exact Hf|]).
    - apply in_kfilter. tauto.
    - apply in_kfilter in He. tauto. }
  rewrite !H. specialize (Hk (ek e)). unfold kview in Hk. rewrite Hm in Hk. apply app_inv_head in Hk. now rewrite Hk.
Qed.

Lemma wf_flush_version v f : v <> [] -> wf_version v -> wf_fileb f = true ->
  wf_version (set_nth 0 (hd [] v ++ [f]) v).
Proof.
  intros Hne Hw Hf. destruct v as [|l0 r]; [congruence|]. unfold wf_version, wf_versionb in *.
  cbn [set_nth hd tl forallb] in *.
  apply andb_prop in Hw. destruct Hw as [Hw1 Hw2]. apply andb_prop in Hw1. destruct Hw1 as [Hl0 Hr].
  rewrite forallb_app, Hl0, Hr, Hw2. cbn. now rewrite Hf.
Qed.

Lemma flush_inv s id sz : Inv s -> ver s <> [] -> Inv (flush s id sz) /\ ver (flush s id sz) <> [].
Proof.
  intros I Hne.
  pose proof (fun k => flush_kview s id sz k I Hne) as Hk.
  destruct (mem s) as [|m0 mr] eqn:Em.
  { unfold flush. rewrite Em. split; assumption. }
  assert (Hver : ver (flush s id sz) = set_nth 0 (hd [] (ver s) ++ [mkF id (sort_entries (mem s)) sz]) (ver s))
    by (unfold flush; rewrite Em; reflexivity).
  assert (Hseq : seq (flush s id sz) = seq s + 1) by (unfold flush; rewrite Em; reflexivity).
  assert (Hmem : mem (flush s id sz) = []) by (unfold flush; rewrite Em; reflexivity).
  split.
  - constructor.
    + rewrite Hver. apply wf_flush_version; [exact Hne|exact (inv_wf s I)|].
      apply sort_entries_wf_file; [rewrite Em; discriminate|]. intros k. apply kview_mem_desc, (inv_ord s I).
    + intros k. rewrite Hk. apply (inv_ord s I).
    + intros e He. apply in_all_entries_kview in He. rewrite Hk in He. apply in_all_entries_kview in He.
      pose proof (inv_seq s I e He). rewrite Hseq. lia.
    + intros e e' He. rewrite Hmem in He. destruct He.
  - rewrite Hver. destruct (ver s); [congruence|discriminate].
Qed.

Lemma apply_compaction_nonempty v c outs : v <> [] -> apply_compaction v c outs <> [].
Proof.
  intros Hne. unfold apply_compaction. destruct (cupper c <? length v)%nat; [|exact Hne].
  intros C. apply app_eq_nil in C. destruct C as [_ C]. apply app_eq_nil in C. destruct C as [_ C]. discriminate.
Qed.

Lemma compact_inv s c outs : Inv s -> acceptedb s (OCompact c outs) = true -> Inv (compact s c outs).
Proof.
  intros I Ha. cbn [acceptedb] in Ha. apply andb_prop in Ha. destruct Ha as [Hv Ho].
  pose proof (compaction_preserves_kview s c outs (inv_wf s I) (inv_ord s I) Hv Ho) as Hk.
  constructor.
  - exact (compaction_wf s c outs (inv_wf s I) (inv_ord s I) Hv Ho).
  - intros k. rewrite Hk. apply (inv_ord s I).
  - intros e He. apply in_all_entries_kview in He. rewrite Hk in He. apply in_all_entries_kview in He.
    exact (inv_seq s I e He).
  - intros e e' He He'. cbn [compact mem] in He.
    apply (files_view_eq s (compact s c outs) eq_refl Hk) in He'.
    exact (inv_mem_new s I e e' He He').
Qed.

(* ---- reopen: any well-formed, ordered rearrangement of the same entries reads the same ---- *)
Lemma entry_eqb_eq a b : entry_eqb a b = true -> a = b.
Proof.
  unfold entry_eqb. intros H. apply andb_prop in H. destruct H as [H Hv]. apply andb_prop in H. destruct H as [Hk Ht].
  destruct a as [ka ta va], b as [kb tb vb]; cbn in *.
  apply key_eqb_eq in Hk. apply N.eqb_eq in Ht. subst. f_equal.
  destruct va, vb; try discriminate; [|reflexivity]. f_equal. now apply key_eqb_eq.
Qed.

Lemma subsetb_incl a b : subsetb a b = true -> forall e, In e a -> In e b.
Proof.
  unfold subsetb. rewrite forallb_forall. intros H e He. specialize (H e He).
  apply existsb_exists in H. destruct H as (x & Hx & E). apply entry_eqb_eq in E. now subst.
Qed.

Lemma desc_set_unique l1 : forall l2, desc_ts l1 -> desc_ts l2 -> (forall x, In x l1 <-> In x l2) -> l1 = l2.
Proof.
  induction l1 as [|x r1 IH]; intros [|y r2] H1 H2 Hs.
  - reflexivity.
  - exfalso. apply (proj2 (Hs y)). now left.
  - exfalso. apply (proj1 (Hs x)). now left.
  - cbn [desc_ts] in H1, H2. destruct H1 as [Hx Hr1]. destruct H2 as [Hy Hr2].
    assert (x = y) as ->.
    { destruct (proj1 (Hs x) (or_introl eq_refl)) as [->|Hxin]; [reflexivity|].
      destruct (proj2 (Hs y) (or_introl eq_refl)) as [->|Hyin]; [reflexivity|].
      specialize (Hx y Hyin). specialize (Hy x Hxin). lia. }
    f_equal. apply IH; auto. intros z. split; intros Hz.
    + destruct (proj1 (Hs z) (or_intror Hz)) as [<-|H]; [|exact H]. specialize (Hx y Hz). lia.
    + destruct (proj2 (Hs z) (or_intror Hz)) as [<-|H]; [|exact H]. specialize (Hy y Hz). lia.
Qed.

Lemma orderedb_Ordered s : orderedb s = true -> Ordered s.
Proof.
  unfold orderedb. rewrite forallb_forall. intros H k.
  destruct (kview s k) as [|e r] eqn:E; [exact I|].
  rewrite <- E. apply desc_tsb_spec. apply H.
  assert (Hin : In e (kview s k)) by (rewrite E; now left).
  apply in_kview in Hin. destruct Hin as [Hin <-].
  unfold all_entries in Hin. unfold all_keys. apply in_app_or in Hin. apply in_or_app.
  destruct Hin as [Hin|Hin]; [left; now apply in_map|right].
  apply in_flat_map in Hin. destruct Hin as (f & Hf & He). apply in_flat_map. exists f. split; [exact Hf|now apply in_map].
Qed.

Lemma reopen_inv s id sz v' seq' : Inv s -> ver s <> [] -> acceptedb s (OReopen id sz v' seq') = true ->
  Inv (mkS [] v' seq') /\ v' <> [] /\ forall k, kview (mkS [] v' seq') k = kview s k.
Proof.
  intros I Hne Ha. cbn [acceptedb] in Ha.
  repeat (apply andb_prop in Ha; destruct Ha as [Ha ?]).
  rename H into Hnil, H0 into Hts, H1 into Hord, H2 into Hwf, H3 into Hsub2. rename Ha into Hsub1.
  destruct (flush_inv s id sz I Hne) as [I1 Hne1].
  pose proof (fun k => flush_kview s id sz k I Hne) as Hk1.
  set (s1 := flush s id sz) in *. set (s' := mkS [] v' seq').
  pose proof (orderedb_Ordered s' Hord) as Ho'.
  assert (Hmem1 : mem s1 = []).
  { unfold s1, flush. destruct (mem s) eqn:Em; [exact Em|reflexivity]. }
  assert (Hk : forall k, kview s' k = kview s1 k).
  { intros k. apply desc_set_unique; [apply Ho'|apply (inv_ord s1 I1)|].
    intros x. rewrite !in_kview. unfold all_entries. rewrite Hmem1. cbn [mem ver s' app].
    split; intros [Hx Hkx]; (split; [|exact Hkx]).
    - now apply (subsetb_incl _ _ Hsub2).
    - now apply (subsetb_incl _ _ Hsub1). }
  split; [|split].
  - constructor.
    + exact Hwf.
    + exact Ho'.
    + intros e He. unfold all_entries in He. cbn [mem ver s' app] in He.
      rewrite forallb_forall in Hts. specialize (Hts e He). apply N.leb_le in Hts. exact Hts.
    + intros e e' He. destruct He.
  - destruct v'; [discriminate|discriminate].
  - intros k. rewrite Hk. apply Hk1.
Qed.

(* ---- ingest of an external sst ---- *)
Lemma ingest_kview s f k : Inv s -> ver s <> [] -> acceptedb s (OIngest f) = true ->
  kview (ingest s f) k = kfilter k (fents f) ++ kview s k.
Proof.
  intros I Hne Ha. cbn [acceptedb] in Ha. apply andb_prop in Ha. destruct Ha as [Ha Hnew].
  apply andb_prop in Ha. destruct Ha as [Hmem Hwf].
  destruct (mem s) as [|m0 mr] eqn:Em; [|discriminate].
  unfold kview, ingest. cbn [mem ver]. rewrite Em. cbn [kfilter filter app].
  rewrite flat_set_l0 by exact Hne. rewrite l0_order_snoc; [reflexivity|].
  intros y Hy.
  assert (Hfne : fents f <> []) by (unfold wf_fileb in Hwf; destruct (fents f); [discriminate|discriminate]).
  destruct (biggest_ts_in f Hfne) as (e & He & <-).
  destruct (wf_version_levels _ (inv_wf s I)) as [Hwfs _].
  assert (Hyw : wf_fileb y = true).
  { rewrite Forall_forall in Hwfs. destruct (ver s) as [|l0 r]; [congruence|].
    specialize (Hwfs l0 (or_introl eq_refl)). rewrite Forall_forall in Hwfs. auto. }
  assert (Hyne : fents y <> []) by (unfold wf_fileb in Hyw; destruct (fents y); [discriminate|discriminate]).
  destruct (biggest_ts_in y Hyne) as (e' & He' & <-).
  unfold newer_than_store in Hnew. rewrite forallb_forall in Hnew. specialize (Hnew e He).
  rewrite forallb_forall in Hnew. apply N.ltb_lt. apply Hnew.
  unfold file_entries. apply in_flat_map. exists y. split; [|exact He'].
  unfold flat. apply in_or_app. left. now apply in_l0_order.
Qed.

Lemma sorted_kfilter_desc k es : sorted_entriesb es = true -> desc_ts (kfilter k es).
Proof.
  induction es as [|x r IH]; [intros _; exact I|]. intros Hs.
  pose proof (IH (sorted_tail _ _ Hs)) as IH'. unfold kfilter in *. cbn [filter].
  destruct (key_eqb (ek x) k) eqn:E; [|exact IH']. cbn [desc_ts]. split; [|exact IH'].
  intros y Hy. apply filter_In in Hy. destruct Hy as [Hy Hky]. apply key_eqb_eq in E, Hky.
  (* x is strictly before y in entry order and they share the key: y is older *)
  clear IH IH'. revert x E Hs. induction r as [|z r IHr]; intros x E Hs; [destruct Hy|].
  cbn in Hs. apply andb_prop in Hs. destruct Hs as [Hxz Hs]. apply andb_prop in Hxz. destruct Hxz as [Hle Hnle].
  destruct Hy as [<-|Hy].
  - unfold entry_leb in Hle, Hnle. rewrite E, Hky, lex_cmp_refl in Hle. apply negb_true_iff in Hnle.
    rewrite Hky, E, lex_cmp_refl in Hnle. apply N.leb_le in Hle. apply N.leb_gt in Hnle. lia.
  - (* step over z: either z has the same key (then chain) or a larger key (then y, later, cannot have key k) *)
    destruct (key_eqb (ek z) k) eqn:Ez.
    + apply key_eqb_eq in Ez. assert (ets y < ets z) by (apply IHr; auto).
      unfold entry_leb in Hle, Hnle. rewrite E, Ez, lex_cmp_refl in Hle. apply N.leb_le in Hle. lia.
    + exfalso.
      pose proof (entry_leb_key _ _ Hle) as K1.
      pose proof (sorted_head_le z r Hs y Hy) as K2.
      rewrite E in K1. rewrite Hky in K2.
      pose proof (key_leb_antisym _ _ K1 K2) as C. rewrite <- C, key_eqb_refl in Ez. discriminate.
Qed.

Lemma ingest_inv s f : Inv s -> ver s <> [] -> acceptedb s (OIngest f) = true ->
  Inv (ingest s f) /\ ver (ingest s f) <> [].
Proof.
  intros I Hne Ha. pose proof (fun k => ingest_kview s f k I Hne Ha) as Hk.
  cbn [acceptedb] in Ha. apply andb_prop in Ha. destruct Ha as [Ha Hnew].
  apply andb_prop in Ha. destruct Ha as [Hmem Hwf].
  destruct (mem s) as [|m0 mr] eqn:Em; [|discriminate].
  assert (Hfs : sorted_entriesb (fents f) = true) by (unfold wf_fileb in Hwf; destruct (fents f); [discriminate|exact Hwf]).
  split.
  - constructor.
    + unfold ingest. cbn [ver]. apply wf_flush_version; [exact Hne|exact (inv_wf s I)|exact Hwf].
    + intros k. rewrite Hk. apply desc_ts_app. split; [now apply sorted_kfilter_desc|]. split; [apply (inv_ord s I)|].
      intros x y Hx Hy. apply in_kfilter in Hx. destruct Hx as [Hx _]. apply in_kview in Hy. destruct Hy as [Hy _].
      unfold all_entries in Hy. rewrite Em in Hy. cbn [app] in Hy.
      unfold newer_than_store in Hnew. rewrite forallb_forall in Hnew. specialize (Hnew x Hx).
      rewrite forallb_forall in Hnew. apply N.ltb_lt. now apply Hnew.
    + intros e He. apply in_all_entries_kview in He. rewrite Hk in He. unfold ingest. cbn [seq].
      apply in_app_or in He. destruct He as [He|He].
      * apply in_kfilter in He. destruct He as [He _]. pose proof (biggest_ts_ge f e He). lia.
      * apply in_all_entries_kview in He. pose proof (inv_seq s I e He). lia.
    + intros e e' He. unfold ingest in He. cbn [mem] in He. rewrite Em in He. destruct He.
  - unfold ingest. cbn [ver]. destruct (ver s); [congruence|discriminate].
Qed.

Lemma top_value_ingest s f k : Inv s -> ver s <> [] -> acceptedb s (OIngest f) = true ->
  top_value (ingest s f) k =
  match find (fun e => key_eqb (ek e) k) (fents f) with Some e => ev e | None => top_value s k end.
Proof.
  intros I Hne Ha. unfold top_value. rewrite (ingest_kview s f k I Hne Ha).
  unfold kfilter. rewrite <- hd_filter_find.
  destruct (filter (fun e => key_eqb (ek e) k) (fents f)); reflexivity.
Qed.

(* ---- garbage collection ---- *)
Lemma gc_inv s c outs : Inv s -> acceptedb s (OGc c outs) = true ->
  Inv (compact s c outs) /\ forall k, top_value (compact s c outs) k = top_value s k.
Proof.
  intros I Ha. cbn [acceptedb] in Ha.
  apply andb_prop in Ha. destruct Ha as [Ha Hgc].
  apply andb_prop in Ha. destruct Ha as [Hv Htop]. apply Nat.eqb_eq in Htop.
  pose proof (gc_wf s c outs (inv_wf s I) (inv_ord s I) Hv Hgc) as Hwf.
  pose proof (fun k => gc_preserves_reads s c outs k (inv_wf s I) (inv_ord s I) Hv Htop Hgc) as G.
  split.
  - constructor.
    + exact Hwf.
    + intros k. apply (G k).
    + intros e He. apply in_all_entries_kview in He. apply (G (ek e)) in He. apply in_all_entries_kview in He.
      exact (inv_seq s I e He).
    + intros e e' He He'. cbn [compact mem] in He.
      (* e' is in a file of the new version; it is an entry of the old store; were it only in the
         old memtable it would occur twice in the new (strictly descending) view *)
      assert (Hk' : In e' (flat_map (fun f => kfilter (ek e') (fents f)) (flat (ver (compact s c outs))))).
      { apply in_flat_map in He'. destruct He' as (f & Hf & Hef). apply in_flat_map. exists f. split; [exact Hf|].
        apply in_kfilter. tauto. }
      assert (Hnew : In e' (kview (compact s c outs) (ek e'))) by (unfold kview; apply in_or_app; now right).
      pose proof (proj2 (proj2 (G (ek e'))) e' Hnew) as Hold.
      unfold kview in Hold. apply in_app_or in Hold. destruct Hold as [Hm|Hf].
      * exfalso. destruct (G (ek e')) as (_ & Hd & _). unfold kview in Hd. cbn [compact mem] in Hd.
        apply desc_ts_app in Hd. destruct Hd as (_ & _ & Hd). specialize (Hd e' e' Hm Hk'). lia.
      * apply (inv_mem_new s I e e' He).
        apply in_flat_map in Hf. destruct Hf as (f & Hf & Hef). apply in_flat_map. exists f. split; [exact Hf|].
        apply in_kfilter in Hef. tauto.
  - intros k. unfold top_value. destruct (G k) as (Hh & _ & _). exact Hh.
Qed.

Lemma top_value_write s b k :
  top_value (write s b) k =
  match find (fun kv => key_eqb (fst kv) k) (rev b) with Some kv => snd kv | None => top_value s k end.
Proof.
  unfold top_value. rewrite (write_kview s b k).
  destruct (find _ (rev b)) as [kv|]; reflexivity.
Qed.

Lemma run_correct ops : forall s m, Inv s -> ver s <> [] -> (forall k, top_value s k = m k) ->
  all_accepted s ops = true ->
  Inv (run s ops) /\ forall k, top_value (run s ops) k = fold_left spec_step ops m k.
Proof.
  induction ops as [|o ops IH]; intros s m I Hne Hm Hacc; cbn [run fold_left all_accepted] in *; [tauto|].
  apply andb_prop in Hacc. destruct Hacc as [Ha Hacc].
  destruct o as [b|id sz|c outs|f|c outs|id sz v' seq']; cbn [step spec_step] in *.
  - apply IH; [now apply write_inv|exact Hne| |exact Hacc].
    intros k. rewrite (top_value_write s b k). destruct (find _ (rev b)); [reflexivity|apply Hm].
  - destruct (flush_inv s id sz I Hne) as [I' Hne'].
    apply IH; [exact I'|exact Hne'| |exact Hacc].
    intros k. unfold top_value. rewrite (flush_kview s id sz k I Hne). apply Hm.
  - apply IH; [now apply compact_inv|now apply apply_compaction_nonempty| |exact Hacc].
    intros k. unfold top_value.
    cbn [acceptedb] in Ha. apply andb_prop in Ha. destruct Ha as [Hv Ho].
    rewrite (compaction_preserves_kview s c outs (inv_wf s I) (inv_ord s I) Hv Ho k). apply Hm.
  - destruct (ingest_inv s f I Hne Ha) as (I' & Hne').
    apply IH; [exact I'|exact Hne'| |exact Hacc].
    intros k. rewrite (top_value_ingest s f k I Hne Ha). destruct (find _ (fents f)); [reflexivity|apply Hm].
  - destruct (gc_inv s c outs I Ha) as (I' & Ht).
    apply IH; [exact I'|now apply apply_compaction_nonempty| |exact Hacc].
    intros k. rewrite Ht. apply Hm.
  - destruct (reopen_inv s id sz v' seq' I Hne Ha) as (I' & Hne' & Hk).
    apply IH; [exact I'|exact Hne'| |exact Hacc].
    intros k. unfold top_value. rewrite Hk. apply Hm.
Qed.

Lemma init_inv n : Inv (init_at n) /\ ver (init_at n) <> [].
Proof.
  split; [constructor|].
  - vm_compute. reflexivity.
  - intros k. vm_compute. exact I.
  - intros e He. vm_compute in He. destruct He.
  - intros e e' He. destruct He.
  - vm_compute. discriminate.
Qed.

Theorem reads_return_latest_write n ops k : all_accepted (init_at n) ops = true ->
  get (run (init_at n) ops) k = spec ops k.
Proof.
  intros Hacc. destruct (init_inv n) as [I Hne].
  destruct (run_correct ops (init_at n) (fun _ => None) I Hne) as [I' Ht]; [|exact Hacc|].
  - intros k0. vm_compute. reflexivity.
  - rewrite (get_is_top _ k I'). apply Ht.
Qed.

(* a compaction changes no read at any timestamp (C05, conservation half) *)
Theorem compaction_preserves_reads s c outs : Inv s -> acceptedb s (OCompact c outs) = true ->
  forall k t, load (compact s c outs) k t = load s k t.
Proof.
  intros I Ha k t. pose proof (compact_inv s c outs I Ha) as I'.
  rewrite (load_is_find_kview _ k t (inv_wf _ I')), (load_is_find_kview _ k t (inv_wf _ I)).
  cbn [acceptedb] in Ha. apply andb_prop in Ha. destruct Ha as [Hv Ho].
  now rewrite (compaction_preserves_kview s c outs (inv_wf s I) (inv_ord s I) Hv Ho k).
Qed.

Lemma run_inv n ops : all_accepted (init_at n) ops = true -> Inv (run (init_at n) ops).
Proof.
  intros Hacc. destruct (init_inv n) as [I Hne].
  destruct (run_correct ops (init_at n) (fun _ => None) I Hne) as [I' _]; auto.
Qed.
