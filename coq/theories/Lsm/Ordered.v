(* Lsm/Ordered.v — the Ordered invariant and what it gives point reads *)
From Coq Require Import NArith List Bool Lia Arith Permutation.
From Blue Require Import Lsm.Model Lsm.KeyOrder Lsm.LoadProofs.
Import ListNotations.
Open Scope N_scope.

Arguments N.leb : simpl never.
Arguments N.ltb : simpl never.

(* strictly descending timestamps, in the strong (all later elements) form *)
Fixpoint desc_ts (l : list entry) : Prop :=
  match l with [] => True | x :: r => (forall y, In y r -> ets y < ets x) /\ desc_ts r end.

Lemma desc_tsb_spec l : desc_tsb l = true <-> desc_ts l.
Proof.
  induction l as [|x r IH]; cbn [desc_ts]; [cbn; tauto|].
  destruct r as [|y r].
  - cbn. split; [intros _; split; [intros ? []|exact I]|reflexivity].
  - change (desc_tsb (x :: y :: r)) with ((ets y <? ets x) && desc_tsb (y :: r)).
    rewrite andb_true_iff, IH, N.ltb_lt. split.
    + intros [Hxy Hd]. split; [|exact Hd]. intros z [<-|Hz]; [exact Hxy|].
      destruct Hd as [Hy _]. specialize (Hy z Hz). lia.
    + intros [Hall Hd]. split; [apply Hall; now left|exact Hd].
Qed.

Lemma desc_ts_app l1 l2 : desc_ts (l1 ++ l2) <->
  desc_ts l1 /\ desc_ts l2 /\ (forall x y, In x l1 -> In y l2 -> ets y < ets x).
Proof.
  induction l1 as [|a l1 IH]; cbn [app desc_ts].
  - split; [intros H; repeat split; auto; intros ? ? []|tauto].
  - rewrite IH. split.
    + intros [Ha (H1 & H2 & H12)]. repeat split; auto.
      * intros y Hy. apply Ha, in_or_app. now left.
      * intros x y [<-|Hx] Hy; [apply Ha, in_or_app; now right|now apply H12].
    + intros ((Ha & H1) & H2 & H12). repeat split; auto.
      * intros y Hy. apply in_app_or in Hy. destruct Hy; [now apply Ha|apply H12; [now left|assumption]].
      * intros x y Hx Hy. apply H12; [now right|assumption].
Qed.

(* on a strictly descending list, the first element not newer than t is the newest such *)
Lemma find_desc_newest l t : desc_ts l ->
  match find (fun e => ets e <=? t) l with
  | Some e => In e l /\ ets e <= t /\ (forall e', In e' l -> ets e' <= t -> ets e' <= ets e)
  | None => forall e', In e' l -> t < ets e'
  end.
Proof.
  induction l as [|x r IH]; cbn [find desc_ts]; [intros _ ? []|].
  intros [Hx Hd]. destruct (N.leb_spec (ets x) t) as [Hle|Hgt].
  - split; [now left|]. split; [exact Hle|].
    intros e' [<-|He'] _; [lia|]. specialize (Hx e' He'). lia.
  - specialize (IH Hd). destruct (find _ r) as [e|].
    + destruct IH as (Hin & Hle & Hmax). split; [now right|]. split; [exact Hle|].
      intros e' [<-|He'] Hle'; [lia|now apply Hmax].
    + intros e' [<-|He']; [exact Hgt|now apply IH].
Qed.

Definition Ordered (s : store) : Prop := forall k, desc_ts (kview s k).

Definition all_entries (s : store) : list entry := mem s ++ flat_map fents (flat (ver s)).

Lemma in_kfilter k es e : In e (kfilter k es) <-> In e es /\ ek e = k.
Proof. unfold kfilter. rewrite filter_In, key_eqb_eq. tauto. Qed.

Lemma in_kview s k e : In e (kview s k) <-> In e (all_entries s) /\ ek e = k.
Proof.
  unfold kview, all_entries. rewrite !in_app_iff, in_kfilter, !in_flat_map. split.
  - intros [[H1 H2]|(f & Hf & He)]; [tauto|]. apply in_kfilter in He. destruct He as [He Hk].
    split; [right; exists f; tauto|exact Hk].
  - intros [[H|(f & Hf & He)] Hk]; [tauto|]. right. exists f. split; [exact Hf|]. apply in_kfilter. tauto.
Qed.

(* THE point-read theorem: what load returns is the newest version of k, among every entry the
   store holds anywhere (memtable, every file of every level), that is not newer than t *)
Theorem load_newest s k t : wf_version (ver s) -> Ordered s ->
  match load s k t with
  | Some e => In e (all_entries s) /\ ek e = k /\ ets e <= t /\
              (forall e', In e' (all_entries s) -> ek e' = k -> ets e' <= t -> ets e' <= ets e)
  | None => forall e', In e' (all_entries s) -> ek e' = k -> t < ets e'
  end.
Proof.
  intros Hw Ho. rewrite (load_is_find_kview s k t Hw).
  pose proof (find_desc_newest (kview s k) t (Ho k)) as H.
  destruct (find _ (kview s k)) as [e|].
  - destruct H as (Hin & Hle & Hmax). apply in_kview in Hin. destruct Hin as [Hin Hk].
    repeat split; auto. intros e' He' Hk' Hle'. apply Hmax; [|exact Hle']. apply in_kview. tauto.
  - intros e' He' Hk'. apply H. apply in_kview. tauto.
Qed.
