(* Props_C01.v — the property theorems for C01 and nothing else.
   C01: "Point reads return the latest write, whatever the tree did in between". *)
From Coq Require Import NArith List.
From Blue Require Import Gen.Const_Lsm Lsm.Model Lsm.LoadProofs Lsm.Ordered Lsm.CompactProofs Lsm.GcProofs Lsm.WfProofs Lsm.History Lsm.RecoverImpossible
  Lsm.ModelConcurrent Lsm.ConcStable Lsm.ConcInv Lsm.ConcurrentProofs Lsm.OutcomeProofs.
Import ListNotations.
Open Scope N_scope.

(* For EVERY history of writes (put / del / batch - ANY batch: a key named twice keeps its last
   write, as KeyValueStore::write's dedup does), ingests of external ssts whose entries are
   newer than everything the (flushed) store holds, flushes, admissible compactions (trivial moves
   and merges, however the outputs are cut into files), garbage collections at the last level
   (whatever is dropped, as long as each key's newest input version survives or is a tombstone
   dropped with every other version of the key) and reopens (however recovery re-levels the
   files, provided the result is well formed and ordered), from any starting sequence number, a
   point read of any key returns the value of the last write to it, or nothing. *)
Theorem C01_reads_return_latest_write : forall n ops k,
  all_accepted (init_at n) ops = true -> get (run (init_at n) ops) k = spec ops k.
Proof. exact reads_return_latest_write. Qed.

(* In ANY well-formed, ordered store (however it was reached), load at timestamp t returns the
   newest version not newer than t among every entry held anywhere in the store. *)
Theorem C01_load_newest : forall s k t, wf_version (ver s) -> Ordered s ->
  match load s k t with
  | Some e => In e (all_entries s) /\ ek e = k /\ ets e <= t /\
              (forall e', In e' (all_entries s) -> ek e' = k -> ets e' <= t -> ets e' <= ets e)
  | None => forall e', In e' (all_entries s) -> ek e' = k -> t < ets e'
  end.
Proof. exact load_newest. Qed.

(* An admissible compaction leaves, for every key, the exact sequence of versions a reader meets
   unchanged, so no read at any timestamp changes. *)
Theorem C01_compaction_preserves_view : forall s c outs, wf_version (ver s) -> Ordered s ->
  valid_compactionb (ver s) c = true -> outputs_okb (ver s) c outs = true ->
  forall k, kview (compact s c outs) k = kview s k.
Proof. exact compaction_preserves_kview. Qed.

Theorem C01_compaction_preserves_reads : forall s c outs, Inv s -> acceptedb s (OCompact c outs) = true ->
  forall k t, load (compact s c outs) k t = load s k t.
Proof. exact compaction_preserves_reads. Qed.

(* A garbage collection at the last level changes no key's visible value (a dropped tombstone
   reads as "nothing", like the tombstone did), keeps every view strictly descending, and
   introduces no entry. *)
Theorem C01_gc_preserves_reads : forall s c outs k, wf_version (ver s) -> Ordered s ->
  valid_compactionb (ver s) c = true -> S (cupper c) = length (ver s) ->
  gc_outputs_okb (ver s) c outs = true ->
  hd_value (kview (compact s c outs) k) = hd_value (kview s k) /\
  desc_ts (kview (compact s c outs) k) /\
  (forall e, In e (kview (compact s c outs) k) -> In e (kview s k)).
Proof. exact gc_preserves_reads. Qed.

(* Admissible compactions and garbage collections produce well-formed levels (non-empty strictly
   sorted files; key-ordered levels whose neighbours share at most a boundary key). *)
Theorem C01_compaction_keeps_levels_well_formed : forall s c outs, wf_version (ver s) -> Ordered s ->
  valid_compactionb (ver s) c = true ->
  (outputs_okb (ver s) c outs = true \/ gc_outputs_okb (ver s) c outs = true) ->
  wf_versionb (apply_compaction (ver s) c outs) = true.
Proof.
  intros s c outs Hw Ho Hv [H|H]; [exact (compaction_wf s c outs Hw Ho Hv H)|exact (gc_wf s c outs Hw Ho Hv H)].
Qed.

(* every reachable state satisfies the invariant (well-formed levels, Ordered, timestamps bounded
   by the sequence counter, memtable newer than files) *)
Theorem C01_invariant_reachable : forall n ops, all_accepted (init_at n) ops = true -> Inv (run (init_at n) ops).
Proof. exact run_inv. Qed.

(* Known finding K2, root cause (why reopen is an INPUT of the history theorem and not a function):
   recovery orders files by what construct_adj_list reads of them: key range and timestamp range
   (the id - a content hash - names a file and says nothing about order).  There are two stores,
   BOTH REACHABLE from the empty store by accepted histories (k2_ops, k2_ops': flushes, trivial
   moves and one merge each), holding the files (A, B) and (A', B), where A and A' have identical
   first key, last key, smallest and biggest timestamp and size (and different ids), each store
   well formed and Ordered, such that NO arrangement of two files into levels is Ordered for both
   contents.  Hence recover.rs - or any replacement working from the same metadata - returns stale
   point reads on at least one of them. *)
Theorem C01_recovery_from_metadata_refuted :
  (meta fA = meta fA' /\ meta fB = meta fB' /\ fid fA <> fid fA') /\
  (all_accepted (init_at 0) k2_ops = true /\ ver (run (init_at 0) k2_ops) = vAB /\
   all_accepted (init_at 0) k2_ops' = true /\ ver (run (init_at 0) k2_ops') = vBA') /\
  (wf_versionb vAB = true /\ orderedb (mkS [] vAB 9) = true /\
   wf_versionb vBA' = true /\ orderedb (mkS [] vBA' 9) = true) /\
  (forall v n n', only_AB (flat v) -> In fA (flat v) -> In fB (flat v) ->
     ~ (Ordered (mkS [] v n) /\ Ordered (mkS [] (swap_contents v) n'))).
Proof.
  exact (conj (conj (proj1 same_metadata) (conj (proj1 (proj2 same_metadata)) (proj1 (proj2 (proj2 same_metadata)))))
              (conj both_reachable (conj each_has_a_correct_arrangement no_arrangement_fits_both))).
Qed.

(* ---- non-vacuity: a concrete history with two flushes, a merging compaction whose output
   carries a tombstone over an older put, a trivial move and a reopen is accepted ---- *)
Definition ex_ops : list op :=
  [ OWrite [([1], Some [10]); ([2], Some [20])];
    OFlush 100 50;
    OWrite [([1], None)];
    OWrite [([3], Some [30])];
    OFlush 101 50;
    OCompact (mkC 0 1 [1] [3] [100; 101])
             [mkF 200 [mkE [1] 5 None; mkE [1] 3 (Some [10]); mkE [2] 3 (Some [20])] 40; mkF 201 [mkE [3] 6 (Some [30])] 30];
    OCompact (mkC 1 2 [3] [3] [201]) [mkF 201 [mkE [3] 6 (Some [30])] 30];
    OWrite [([2], None)];
    OReopen 102 20
      ([[mkF 102 [mkE [2] 8 None] 20]; [mkF 200 [mkE [1] 5 None; mkE [1] 3 (Some [10]); mkE [2] 3 (Some [20])] 40];
        [mkF 201 [mkE [3] 6 (Some [30])] 30]] ++ repeat [] 13) 10 ].

Example ex_accepted : all_accepted (init_at 2) ex_ops = true.
Proof. vm_compute. reflexivity. Qed.

Example ex_reads : map (get (run (init_at 2) ex_ops)) [[1]; [2]; [3]; [4]] = [None; None; Some [30]; None].
Proof. vm_compute. reflexivity. Qed.

(* ---- a batch that names keys twice: the last write to each key counts (in the store: Model.write
   keeps it; in the specification: spec_step takes the last match) ---- *)
Definition ex_dup_ops : list op :=
  [ OWrite [([1], Some [1]); ([2], Some [5]); ([1], Some [2]); ([3], Some [7]); ([3], None)];
    OFlush 100 50;
    OWrite [([2], None); ([2], Some [6])] ].
Example ex_dup_batch :
  all_accepted (init_at 0) ex_dup_ops = true /\
  map (get (run (init_at 0) ex_dup_ops)) [[1]; [2]; [3]] = [Some [2]; Some [6]; None] /\
  map (spec ex_dup_ops) [[1]; [2]; [3]] = [Some [2]; Some [6]; None] /\
  map fents (hd [] (ver (run (init_at 0) ex_dup_ops))) =
    [[mkE [1] 1 (Some [2]); mkE [2] 1 (Some [5]); mkE [3] 1 None]].
Proof. vm_compute. repeat split; reflexivity. Qed.

(* ---- accepted ingests of external ssts and a garbage collection into the last level that drops
   a tombstone together with the value it shadows, and an overwritten value ---- *)
Definition ex_gc_ops : list op :=
  [ OIngest (mkF 1 [mkE [1] 5 (Some [10]); mkE [2] 5 (Some [20]); mkE [3] 4 (Some [30])] 60);
    OIngest (mkF 2 [mkE [1] 7 None; mkE [3] 8 (Some [31])] 40);
    OGc (mkC 0 15 [1] [3] [2; 1]) [mkF 3 [mkE [2] 5 (Some [20]); mkE [3] 8 (Some [31])] 50];
    OWrite [([2], None)] ].
Example ex_gc_ingest :
  all_accepted (init_at 0) ex_gc_ops = true /\
  map (get (run (init_at 0) ex_gc_ops)) [[1]; [2]; [3]] = [None; None; Some [31]] /\
  map (spec ex_gc_ops) [[1]; [2]; [3]] = [None; None; Some [31]] /\
  map fid (nth 15 (ver (run (init_at 0) ex_gc_ops)) []) = [3].
Proof. vm_compute. repeat split; reflexivity. Qed.

(* L0 files that tie on biggest_timestamp are consulted as the Rust does (stable sort_by_key, then
   reversed: the LATER of two tying files first) *)
Example ex_l0_ties :
  map fid (l0_order [mkF 1 [mkE [1] 5 None] 1; mkF 2 [mkE [2] 5 None] 1; mkF 3 [mkE [3] 4 None] 1]) = [2; 1; 3].
Proof. vm_compute. reflexivity. Qed.

(* ---- no fault-free operation panics or returns an error.  step_outcome is what the real call
   returns on model-visible conditions (History.v: index out of range and `upper_bound -
   lower_bound` in apply_compaction_inner panic; an empty batch and a duplicate setsum on ingest /
   flush are documented Err returns).  On an accepted history whose calls keep the two documented
   preconditions (no empty batch; a file entering the tree has a new id) every step is Done with
   exactly the state `step` computes; and acceptance alone excludes every panic - also for a
   compaction that a thread applies to a later version than it was selected on. ---- *)
Theorem C01_no_fault_free_error : forall ops s, all_accepted s ops = true -> all_calls_ok s ops = true ->
  run_outcome s ops = Done (run s ops).
Proof. exact no_fault_free_error. Qed.

Theorem C01_accepted_never_panics : forall ops s, all_accepted s ops = true -> run_outcome s ops <> Panic.
Proof. exact accepted_never_panics. Qed.

Theorem C01_concurrent_apply_never_panics : forall n ops, caccepted (cinit_at n) ops = true ->
  forall v c E, In (v, (c, E)) (applies (cinit_at n) ops) ->
  forall m q outs, apply_outcome (mkS m v q) c outs = Done (compact (mkS m v q) c outs).
Proof. exact concurrent_apply_never_panics. Qed.

Example ex_outcomes :
  step_outcome (init_at 0) (OCompact (mkC 0 16 [] [] []) []) = Panic /\
  step_outcome (mkS [] [[]; [mkF 1 [mkE [5] 1 None] 1]] 1) (OCompact (mkC 0 1 [9] [1] []) []) = Panic /\
  step_outcome (init_at 0) (OWrite []) = Fail /\
  step_outcome (mkS [] [[mkF 1 [mkE [5] 1 None] 1]] 1) (OIngest (mkF 1 [mkE [6] 2 None] 1)) = Fail /\
  all_calls_ok (init_at 2) ex_ops = true /\ all_calls_ok (init_at 0) ex_gc_ops = true.
Proof. vm_compute. repeat split; reflexivity. Qed.

(* ---------------- several compactions ongoing at once ---------------- *)

(* K compaction threads: a compaction is selected on one version (admissible there, not overlapping
   any ongoing one: may_choose_compaction / CompactionCore::overlapping) and applied to whatever
   version is current later.  For EVERY accepted history - any number of ongoing compactions, any
   interleaving of selects, applies in any order, releases, writes, flushes, ingests, atomic
   compactions, garbage collections, reopens - a point read returns the last write. *)
Theorem C01_concurrent_reads_return_latest_write : forall n ops k,
  caccepted (cinit_at n) ops = true -> get (st (crun (cinit_at n) ops)) k = cspec ops k.
Proof. exact concurrent_reads_return_latest_write. Qed.

(* every apply happens on a version on which the compaction is admissible, and the entries read
   at selection time are the entries that version holds under the input ids *)
Theorem C01_concurrent_apply_is_valid : forall n ops, caccepted (cinit_at n) ops = true ->
  forall v c E, In (v, (c, E)) (applies (cinit_at n) ops) ->
  valid_compactionb v c = true /\ input_entries v c = E.
Proof. exact concurrent_apply_is_valid. Qed.

Theorem C01_concurrent_invariant_reachable : forall n ops, caccepted (cinit_at n) ops = true ->
  CInv (crun (cinit_at n) ops).
Proof. exact concurrent_invariant_reachable. Qed.

(* the input files of an ongoing compaction stay in the tree *)
Theorem C01_concurrent_inputs_stay : forall n ops, caccepted (cinit_at n) ops = true ->
  forall c E x, In (c, E) (pending (crun (cinit_at n) ops)) -> In x (cinputs c) ->
  exists f, In f (flat (ver (st (crun (cinit_at n) ops)))) /\ fid f = x.
Proof. exact concurrent_inputs_stay. Qed.

(* the mechanism: applying an admissible compaction (or garbage collection) d that does not
   overlap c (level range AND key range) leaves c admissible with the same input files *)
Theorem C01_conflict_exclusion_keeps_admissible : forall v c d outs,
  wf_version v -> wf_version (apply_compaction v d outs) ->
  valid_compactionb v c = true -> valid_compactionb v d = true ->
  conflictb c d = false ->
  (forall o, In o outs -> is_input c o = false /\
     key_leb (cfirst d) (first_key o) = true /\ key_leb (last_key o) (clast d) = true) ->
  valid_compactionb (apply_compaction v d outs) c = true /\
  input_files (apply_compaction v d outs) c = input_files v c.
Proof. exact apply_other_stable. Qed.

(* ... and so does pushing a file that L0's lookup order consults first (flush, accepted ingest) *)
Theorem C01_l0_push_keeps_admissible : forall v c f,
  v <> [] -> wf_version v -> wf_version (set_nth 0 (hd [] v ++ [f]) v) ->
  l0_order (hd [] v ++ [f]) = f :: l0_order (hd [] v) ->
  valid_compactionb v c = true -> is_input c f = false ->
  valid_compactionb (set_nth 0 (hd [] v ++ [f]) v) c = true /\
  input_files (set_nth 0 (hd [] v ++ [f]) v) c = input_files v c.
Proof. exact push_l0_stable. Qed.

(* the exclusion is needed: without may_choose_compaction's conflict loop there is a history in
   which every selection is admissible where it is made and every output is right for its inputs,
   yet a read returns a stale value (and the second apply is inadmissible where it happens) *)
Theorem C01_concurrent_needs_conflict_exclusion :
  caccepted_gen false (cinit_at 0) cbad_ops = true /\
  caccepted (cinit_at 0) cbad_ops = false /\
  get (st (crun (cinit_at 0) cbad_ops)) [1] = Some [10] /\ cspec cbad_ops [1] = Some [11] /\
  map (fun vp => valid_compactionb (fst vp) (fst (snd vp))) (applies (cinit_at 0) cbad_ops) = [true; false].
Proof. exact concurrent_needs_conflict_exclusion. Qed.

(* non-vacuity: two ongoing L0->L1 compactions over disjoint key ranges, a flush in between,
   applied in the opposite order of selection *)
Example C01_concurrent_example_accepted : caccepted (cinit_at 0) cex_ops = true.
Proof. exact cex_accepted. Qed.
Example C01_concurrent_example_reads :
  map (get (st (crun (cinit_at 0) cex_ops))) [[1]; [2]; [5]; [6]; [7]; [8]] =
  [Some [11]; Some [21]; None; None; Some [70]; None] /\
  map (cspec cex_ops) [[1]; [2]; [5]; [6]; [7]; [8]] = [Some [11]; Some [21]; None; None; Some [70]; None].
Proof. exact cex_reads. Qed.

(* the id condition of the concurrent model (a file entering the tree does not carry the id of an
   input of an ongoing compaction; in the real store an id is the setsum of the content) is needed *)
Theorem C01_concurrent_needs_fresh_ids :
  caccepted (cinit_at 0) cfresh_pre = true /\
  acceptedb (st (crun (cinit_at 0) cfresh_pre)) (OFlush 100 50) = true /\
  fresh_forb (pending (crun (cinit_at 0) cfresh_pre))
             (added_files (st (crun (cinit_at 0) cfresh_pre)) (OFlush 100 50)) = false /\
  cacceptedb (cstep (crun (cinit_at 0) cfresh_pre) (CBase (OFlush 100 50)))
             (CApply 0 [mkF 100 [mkE [1] 1 (Some [10])] 50]) = true /\
  get (st (crun (cinit_at 0) cfresh_ops)) [1] = Some [10] /\ cspec cfresh_ops [1] = Some [11].
Proof. exact concurrent_needs_fresh_ids. Qed.
