(* Extraction of the executable Lsm model (acceptor for recorded histories of the real store).
   Directives: ExtrOcamlBasic only; N / positive / nat stay inductive. *)
From Coq Require Import NArith List.
From Blue Require Import Lsm.Model Lsm.History Lsm.ModelConcurrent.
Require Import ExtrOcamlBasic.
Extraction Language OCaml.
Extraction "../ocaml/lsm/gen_lsm.ml" cinit_at cstep cacceptedb entries_eqb input_entries conflictb no_conflictb fresh_forb merge_okb gc_okb init_at step acceptedb get load valid_compactionb vc_shape vc_slice vc_rest vc_range vc_closed vc_ids outputs_okb gc_outputs_okb
  wf_versionb orderedb apply_compaction flush subsetb file_entries sort_entries N.of_nat N.to_nat N.add N.mul N.div_eucl.
