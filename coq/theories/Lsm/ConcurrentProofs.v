(* Lsm/ConcurrentProofs.v — point reads return the latest write when compactions are selected
   against one version and applied to a later one: the conflict exclusion of
   may_choose_compaction / CompactionCore::overlapping is sufficient.  (And necessary: the last
   example.) *)
From Coq Require Import NArith List Bool Lia Arith.
From Blue Require Import Gen.Const_Lsm Lsm.Model Lsm.KeyOrder Lsm.LoadProofs Lsm.Ordered Lsm.ListLemmas
  Lsm.CompactProofs Lsm.History Lsm.ConcLists Lsm.ModelConcurrent Lsm.ConcStable Lsm.ConcInv.
Import ListNotations.
Open Scope N_scope.

Lemma cinit_inv n : CInv (cinit_at n).
Proof.
  destruct (init_inv n) as [Iv Hne]. constructor; cbn [cinit_at st pending]; try assumption.
  - intros c E [].
  - exact I.
Qed.

Lemma crun_correct ops : forall cs m, CInv cs -> (forall k, top_value (st cs) k = m k) ->
  caccepted cs ops = true ->
  CInv (crun cs ops) /\ forall k, top_value (st (crun cs ops)) k = fold_left cspec_step ops m k.
Proof.
  induction ops as [|o ops IH]; intros cs m Hc Hm Hacc; cbn [crun fold_left]; [tauto|].
  unfold caccepted in Hacc. cbn [caccepted_gen] in Hacc. apply andb_prop in Hacc. destruct Hacc as [Ha Hacc].
  destruct (cstep_correct cs o m Hc Ha Hm) as [Hc' Hm']. now apply IH.
Qed.

(* MAIN THEOREM.  Any number of ongoing compactions, any interleaving of selects, applies (in any
   order), releases, writes, flushes, ingests, atomic compactions, garbage collections, reopens. *)
Theorem concurrent_reads_return_latest_write n ops k : caccepted (cinit_at n) ops = true ->
  get (st (crun (cinit_at n) ops)) k = cspec ops k.
Proof.
  intros Hacc.
  destruct (crun_correct ops (cinit_at n) (fun _ => None) (cinit_inv n)) as [Hc Ht]; [|exact Hacc|].
  - intros k0. vm_compute. reflexivity.
  - rewrite (get_is_top _ k (ci_inv _ Hc)). apply Ht.
Qed.

Theorem concurrent_invariant_reachable n ops : caccepted (cinit_at n) ops = true ->
  CInv (crun (cinit_at n) ops).
Proof.
  intros Hacc.
  destruct (crun_correct ops (cinit_at n) (fun _ => None) (cinit_inv n)) as [Hc _]; auto.
Qed.

Lemma applies_valid ops : forall cs, CInv cs -> caccepted cs ops = true ->
  forall v c E, In (v, (c, E)) (applies cs ops) ->
  valid_compactionb v c = true /\ input_entries v c = E.
Proof.
  induction ops as [|o ops IH]; intros cs Hc Hacc v c E Hin; [destruct Hin|].
  unfold caccepted in Hacc. cbn [caccepted_gen] in Hacc. apply andb_prop in Hacc. destruct Hacc as [Ha Hacc].
  cbn [applies] in Hin. apply in_app_or in Hin. destruct Hin as [Hin|Hin].
  - destruct o as [o|c0|i outs|i]; try destruct Hin.
    destruct (nth_error (pending cs) i) as [p|] eqn:En; [|destruct Hin].
    destruct Hin as [Hin|[]]. injection Hin as <- ->.
    exact (ci_pend cs Hc c E (nth_error_In _ _ En)).
  - destruct (cstep_correct cs o (top_value (st cs)) Hc Ha (fun _ => eq_refl)) as [Hc' _].
    exact (IH _ Hc' Hacc v c E Hin).
Qed.

(* at every CApply of an accepted history the compaction is admissible on the version it is applied
   to - what checks/lsmlib.py Run.perform evaluates on the real store - and the entries read at
   selection time are the entries that version holds under the input ids *)
Theorem concurrent_apply_is_valid n ops : caccepted (cinit_at n) ops = true ->
  forall v c E, In (v, (c, E)) (applies (cinit_at n) ops) ->
  valid_compactionb v c = true /\ input_entries v c = E.
Proof. intros Hacc. exact (applies_valid ops _ (cinit_inv n) Hacc). Qed.

(* while a compaction is ongoing its input files stay in the tree: no other accepted step removes them *)
Lemma levels_in_flat v c f : In f (mid_files v c ++ upper_level v c) -> (1 <= cupper c)%nat ->
  In f (flat v).
Proof.
  intros Hf Hup. rewrite flat_ordered_levels. apply in_app_or in Hf. destruct Hf as [Hf|Hf].
  - unfold mid_files in Hf. apply in_concat in Hf. destruct Hf as (lv & Hlv & Hf).
    apply in_concat. exists lv. split; [|exact Hf]. eapply in_skipn. eapply in_firstn. exact Hlv.
  - unfold upper_level in Hf. rewrite <- nth_ordered_levels in Hf by exact Hup.
    apply in_concat. exists (nth (cupper c) (ordered_levels v) []). split; [|exact Hf].
    destruct (Nat.lt_ge_cases (cupper c) (length (ordered_levels v))) as [Hl|Hl]; [now apply nth_In|].
    rewrite nth_overflow in Hf by exact Hl. destruct Hf.
Qed.

Theorem concurrent_inputs_stay n ops : caccepted (cinit_at n) ops = true ->
  forall c E x, In (c, E) (pending (crun (cinit_at n) ops)) -> In x (cinputs c) ->
  exists f, In f (flat (ver (st (crun (cinit_at n) ops)))) /\ fid f = x.
Proof.
  intros Hacc c E x Hin Hx. pose proof (concurrent_invariant_reachable n ops Hacc) as Hc.
  destruct (ci_pend _ Hc c E Hin) as [Hv _].
  destruct (valid_parts _ c Hv) as (Hlt & _ & _ & _ & _ & _ & _ & _ & Hids).
  unfold vc_ids in Hids. rewrite forallb_forall in Hids. specialize (Hids x Hx).
  apply existsb_exists in Hids. destruct Hids as (f & Hf & Hfx). apply N.eqb_eq in Hfx.
  exists f. split; [|exact Hfx]. apply (levels_in_flat _ c f Hf). lia.
Qed.

(* ------------------------------------------------------------------ non-vacuity
   L1 holds 200:{[1]} 201:{[5]}; L0 holds 101:{[1],[2]} and 102:{[5] deleted,[6]}.  Two threads take
   L0->L1 compactions over the disjoint key ranges [1..2] and [5..6]; a write and a flush (a new L0
   file with keys [2] and [7], overlapping the first compaction's range) happen; the SECOND
   compaction is applied first, a delete follows, then the first is applied. *)
Definition cex_c1 := mkC 0 1 [1] [2] [101; 200].
Definition cex_c2 := mkC 0 1 [5] [6] [102; 201].
Definition cex_ops : list cop :=
  [ CBase (OWrite [([1], Some [10]); ([5], Some [50])]);
    CBase (OFlush 100 50);
    CBase (OCompact (mkC 0 1 [1] [5] [100])
             [mkF 200 [mkE [1] 1 (Some [10])] 20; mkF 201 [mkE [5] 1 (Some [50])] 20]);
    CBase (OWrite [([1], Some [11]); ([2], Some [20])]);
    CBase (OFlush 101 50);
    CBase (OWrite [([5], None); ([6], Some [60])]);
    CBase (OFlush 102 50);
    CSelect cex_c1; CSelect cex_c2;
    CBase (OWrite [([2], Some [21]); ([7], Some [70])]);
    CBase (OFlush 103 50);
    CApply 1 [mkF 300 [mkE [5] 5 None; mkE [5] 1 (Some [50]); mkE [6] 5 (Some [60])] 40];
    CBase (OWrite [([6], None)]);
    CApply 0 [mkF 301 [mkE [1] 3 (Some [11]); mkE [1] 1 (Some [10])] 30; mkF 302 [mkE [2] 3 (Some [20])] 10] ].

Example cex_accepted : caccepted (cinit_at 0) cex_ops = true.
Proof. vm_compute. reflexivity. Qed.

Example cex_reads :
  map (get (st (crun (cinit_at 0) cex_ops))) [[1]; [2]; [5]; [6]; [7]; [8]] =
  [Some [11]; Some [21]; None; None; Some [70]; None] /\
  map (cspec cex_ops) [[1]; [2]; [5]; [6]; [7]; [8]] = [Some [11]; Some [21]; None; None; Some [70]; None].
Proof. vm_compute. split; reflexivity. Qed.

Example cex_shape :
  conflictb cex_c1 cex_c2 = false /\ conflictb cex_c1 cex_c1 = true /\
  map (fun vp => fst (snd vp)) (applies (cinit_at 0) cex_ops) = [cex_c2; cex_c1] /\
  map (map fid) (firstn 3 (ver (st (crun (cinit_at 0) cex_ops)))) = [[103]; [301; 302; 300]; []].
Proof. vm_compute. repeat split; reflexivity. Qed.

(* Without the conflict check the theorem is false.  Two L0 files hold key [1] (100: the old value,
   101: the new one).  One thread takes the trivial move of the oldest file 100 into L1, another -
   on the same version - the merge of both files into L1: same levels, same key, so
   CompactionCore::overlapping holds and may_choose_compaction refuses the second.  Were it
   accepted: the merge is applied, then the move replaces the slice of L1 that now holds the merge
   output by the old file: the new value is gone.  Each selection is admissible where it is made and
   each output is right for its inputs; the second APPLY is inadmissible where it happens. *)
Definition cbad_ops : list cop :=
  [ CBase (OWrite [([1], Some [10])]); CBase (OFlush 100 50);
    CBase (OWrite [([1], Some [11])]); CBase (OFlush 101 50);
    CSelect (mkC 0 1 [1] [1] [100]);
    CSelect (mkC 0 1 [1] [1] [100; 101]);
    CApply 1 [mkF 200 [mkE [1] 3 (Some [11]); mkE [1] 1 (Some [10])] 30];
    CApply 0 [mkF 100 [mkE [1] 1 (Some [10])] 50] ].

Example concurrent_needs_conflict_exclusion :
  caccepted_gen false (cinit_at 0) cbad_ops = true /\
  caccepted (cinit_at 0) cbad_ops = false /\
  get (st (crun (cinit_at 0) cbad_ops)) [1] = Some [10] /\ cspec cbad_ops [1] = Some [11] /\
  map (fun vp => valid_compactionb (fst vp) (fst (snd vp))) (applies (cinit_at 0) cbad_ops) = [true; false].
Proof. vm_compute. repeat split; reflexivity. Qed.

(* The id condition (fresh_forb) is needed in the model too: a flush whose file carried the id of
   an input of an ongoing compaction is accepted by History.v, the later apply is accepted as well
   (its outputs are right for what it read), but apply_compaction_inner's retain-by-id deletes the
   new file together with the input: the read is stale.  fresh_forb is the only conjunct that
   rejects this history.  (In the real store an id is the setsum of the content, and the new
   file's entries are new: ModelConcurrent.v.) *)
Definition cfresh_pre : list cop :=
  [ CBase (OWrite [([1], Some [10])]); CBase (OFlush 100 50); CSelect (mkC 0 1 [1] [1] [100]);
    CBase (OWrite [([1], Some [11])]) ].
Definition cfresh_ops : list cop :=
  cfresh_pre ++ [ CBase (OFlush 100 50); CApply 0 [mkF 100 [mkE [1] 1 (Some [10])] 50] ].

Example concurrent_needs_fresh_ids :
  caccepted (cinit_at 0) cfresh_pre = true /\
  acceptedb (st (crun (cinit_at 0) cfresh_pre)) (OFlush 100 50) = true /\
  fresh_forb (pending (crun (cinit_at 0) cfresh_pre))
             (added_files (st (crun (cinit_at 0) cfresh_pre)) (OFlush 100 50)) = false /\
  cacceptedb (cstep (crun (cinit_at 0) cfresh_pre) (CBase (OFlush 100 50)))
             (CApply 0 [mkF 100 [mkE [1] 1 (Some [10])] 50]) = true /\
  get (st (crun (cinit_at 0) cfresh_ops)) [1] = Some [10] /\ cspec cfresh_ops [1] = Some [11].
Proof. vm_compute. repeat split; reflexivity. Qed.
