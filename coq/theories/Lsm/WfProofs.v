(* Lsm/WfProofs.v — an admissible compaction (or garbage collection) yields well-formed levels:
   the hypothesis `wf_versionb (apply_compaction ..)` of the history theorem is a consequence. *)
From Coq Require Import NArith List Bool Lia Arith Permutation.
From Blue Require Import Lsm.Model Lsm.KeyOrder Lsm.LoadProofs Lsm.Ordered Lsm.ListLemmas Lsm.SortLemmas Lsm.CompactProofs Lsm.GcProofs.
Import ListNotations.
Open Scope N_scope.

Arguments N.leb : simpl never.
Arguments N.ltb : simpl never.

(* ---------- sortedness of entry lists under append / chunks ---------- *)
Lemma sorted_app_l a b : sorted_entriesb (a ++ b) = true -> sorted_entriesb a = true.
Proof.
  induction a as [|x a IH]; [reflexivity|]. destruct a as [|y a]; [reflexivity|].
  change ((x :: y :: a) ++ b) with (x :: y :: (a ++ b)).
  change (sorted_entriesb (x :: y :: a ++ b)) with (entry_leb x y && negb (entry_leb y x) && sorted_entriesb (y :: a ++ b)).
  change (sorted_entriesb (x :: y :: a)) with (entry_leb x y && negb (entry_leb y x) && sorted_entriesb (y :: a)).
  intros H. apply andb_prop in H. destruct H as [H1 H2]. rewrite H1. cbn [andb]. apply IH. exact H2.
Qed.

Lemma sorted_app_r a b : sorted_entriesb (a ++ b) = true -> sorted_entriesb b = true.
Proof.
  induction a as [|x a IH]; [auto|]. intros H. apply IH. cbn [app] in H. eapply sorted_tail; eauto.
Qed.

(* keys never decrease along a sorted entry list *)
Lemma sorted_app_keys a b : sorted_entriesb (a ++ b) = true ->
  forall x y, In x a -> In y b -> key_leb (ek x) (ek y) = true.
Proof.
  induction a as [|z a IH]; intros Hs x y Hx Hy; [destruct Hx|].
  cbn [app] in Hs. destruct Hx as [<-|Hx].
  - apply (sorted_head_le z (a ++ b) Hs y). apply in_or_app. now right.
  - apply IH; auto. eapply sorted_tail; eauto.
Qed.

Lemma hd_in {A} (d : A) l : l <> [] -> In (hd d l) l.
Proof. destruct l; [congruence|now left]. Qed.
Lemma last_in {A} (d : A) l : l <> [] -> In (last l d) l.
Proof.
  induction l as [|x l IH]; [congruence|]. intros _. destruct l as [|y l]; [now left|].
  right. apply IH. discriminate.
Qed.

Definition nonempty_file (f : file) : bool := match fents f with [] => false | _ => true end.

Lemma nonempty_file_ne f : nonempty_file f = true -> fents f <> [].
Proof. unfold nonempty_file. destruct (fents f); [discriminate|discriminate]. Qed.

(* files that are consecutive non-empty chunks of one sorted entry list form a sorted level of
   well-formed files *)
Lemma chunks_wf outs : sorted_entriesb (flat_map fents outs) = true -> forallb nonempty_file outs = true ->
  forallb wf_fileb outs = true /\ level_sortedb outs = true.
Proof.
  induction outs as [|o r IH]; intros Hs Hne; [split; reflexivity|].
  cbn [flat_map] in Hs. cbn [forallb] in Hne. apply andb_prop in Hne. destruct Hne as [Ho Hr].
  destruct (IH (sorted_app_r _ _ Hs) Hr) as [IH1 IH2]. split.
  - cbn [forallb]. rewrite IH1, andb_true_r. unfold wf_fileb. pose proof (nonempty_file_ne o Ho) as Hn.
    pose proof (sorted_app_l _ _ Hs) as Hso.
    destruct (fents o) as [|e0 r0]; [congruence|exact Hso].
  - destruct r as [|g r']; [reflexivity|].
    change (level_sortedb (o :: g :: r')) with (key_leb (last_key o) (first_key g) && level_sortedb (g :: r')).
    rewrite IH2, andb_true_r. cbn [forallb] in Hr. apply andb_prop in Hr. destruct Hr as [Hg _].
    unfold last_key, first_key.
    apply (sorted_app_keys (fents o) (flat_map fents (g :: r')) Hs).
    + apply last_in, nonempty_file_ne, Ho.
    + cbn [flat_map]. apply in_or_app. left. apply hd_in, nonempty_file_ne, Hg.
Qed.

(* ---------- sorted levels under append, prefix, suffix, filter ---------- *)
Lemma level_sorted_app a b : level_sortedb a = true -> level_sortedb b = true ->
  (a = [] \/ b = [] \/ key_leb (last_key (last a (mkF 0 [] 0))) (first_key (hd (mkF 0 [] 0) b)) = true) ->
  level_sortedb (a ++ b) = true.
Proof.
  induction a as [|x a IH]; intros Ha Hb Hab; [exact Hb|].
  destruct a as [|y a].
  - cbn [app]. destruct b as [|z b]; [reflexivity|].
    change (level_sortedb (x :: z :: b)) with (key_leb (last_key x) (first_key z) && level_sortedb (z :: b)).
    rewrite Hb, andb_true_r. destruct Hab as [C|[C|C]]; [discriminate|discriminate|exact C].
  - change ((x :: y :: a) ++ b) with (x :: y :: (a ++ b)).
    change (level_sortedb (x :: y :: a ++ b)) with (key_leb (last_key x) (first_key y) && level_sortedb ((y :: a) ++ b)).
    change (level_sortedb (x :: y :: a)) with (key_leb (last_key x) (first_key y) && level_sortedb (y :: a)) in Ha.
    apply andb_prop in Ha. destruct Ha as [H1 H2]. rewrite H1. cbn [andb]. apply IH; auto.
    destruct Hab as [C|[C|C]]; [discriminate|auto|]. right. right. exact C.
Qed.

Lemma level_sorted_firstn n lv : level_sortedb lv = true -> level_sortedb (firstn n lv) = true.
Proof.
  revert lv. induction n as [|n IH]; intros [|x lv] H; try reflexivity.
  cbn [firstn]. destruct lv as [|y lv]; [destruct n; reflexivity|].
  destruct n as [|n']; [reflexivity|]. cbn [firstn].
  change (level_sortedb (x :: y :: lv)) with (key_leb (last_key x) (first_key y) && level_sortedb (y :: lv)) in H.
  apply andb_prop in H. destruct H as [H1 H2].
  change (level_sortedb (x :: y :: firstn n' lv)) with (key_leb (last_key x) (first_key y) && level_sortedb (firstn (S n') (y :: lv))).
  rewrite H1. cbn [andb]. now apply IH.
Qed.

Lemma level_sorted_skipn n lv : level_sortedb lv = true -> level_sortedb (skipn n lv) = true.
Proof.
  revert lv. induction n as [|n IH]; intros lv H; [exact H|].
  destruct lv as [|x lv]; [reflexivity|]. cbn [skipn]. apply IH. eapply level_sorted_tail; eauto.
Qed.

Lemma level_sorted_filter p lv : Forall (fun g => wf_fileb g = true) lv -> level_sortedb lv = true ->
  level_sortedb (filter p lv) = true.
Proof.
  induction lv as [|x lv IH]; intros Hw Hs; [reflexivity|].
  inversion Hw as [|? ? Hwx Hwl]; subst.
  pose proof (IH Hwl (level_sorted_tail _ _ Hs)) as IH'. cbn [filter].
  destruct (p x); [|exact IH'].
  destruct (filter p lv) as [|y r] eqn:E; [reflexivity|].
  change (level_sortedb (x :: y :: r)) with (key_leb (last_key x) (first_key y) && level_sortedb (y :: r)).
  rewrite IH', andb_true_r.
  assert (Hy : In y lv). { assert (In y (filter p lv)) by (rewrite E; now left). apply filter_In in H. tauto. }
  exact (level_first_mono x lv Hw Hs y Hy).
Qed.

(* ---------- the theorem ---------- *)
Lemma forallb_Forall {A} (p : A -> bool) l : forallb p l = true <-> Forall (fun x => p x = true) l.
Proof. rewrite forallb_forall, Forall_forall. tauto. Qed.

Lemma wf_split v : wf_versionb v = true <->
  Forall (fun lv => Forall (fun g => wf_fileb g = true) lv) v /\ Forall (fun lv => level_sortedb lv = true) (tl v).
Proof.
  unfold wf_versionb. rewrite andb_true_iff, !forallb_Forall. split; intros [H1 H2]; split; auto.
  - eapply Forall_impl; [|exact H1]. intros lv Hl. now apply forallb_Forall.
  - eapply Forall_impl; [|exact H1]. intros lv Hl. now apply forallb_Forall.
Qed.

Lemma Forall_firstn {A} (P : A -> Prop) n l : Forall P l -> Forall P (firstn n l).
Proof. intros H. apply Forall_forall. intros x Hx. rewrite Forall_forall in H. apply H. eapply in_firstn; eauto. Qed.
Lemma Forall_skipn {A} (P : A -> Prop) n l : Forall P l -> Forall P (skipn n l).
Proof. intros H. apply Forall_forall. intros x Hx. rewrite Forall_forall in H. apply H. eapply in_skipn; eauto. Qed.

(* the outputs (any list of non-empty files whose concatenated entries form a strictly sorted list
   with keys inside [first,last]) fit the slice they replace *)
Lemma apply_wf_gen v c outs :
  wf_version v -> valid_compactionb v c = true ->
  sorted_entriesb (flat_map fents outs) = true -> forallb nonempty_file outs = true ->
  (forall e, In e (flat_map fents outs) -> key_leb (cfirst c) (ek e) = true /\ key_leb (ek e) (clast c) = true) ->
  wf_versionb (apply_compaction v c outs) = true.
Proof.
  intros Hw Hv Hsorted Hne Hrange.
  destruct (proj1 (wf_split v) Hw) as [Hfiles Hlevels].
  unfold valid_compactionb, vc_shape in Hv.
  repeat (apply andb_prop in Hv; destruct Hv as [Hv ?]).
  match goal with H : (_ <=? _)%nat = true |- _ => apply Nat.leb_le in H; rename H into Hlbub end.
  match goal with H : key_leb (cfirst c) (clast c) = true |- _ => rename H into Hfl end.
  match goal with H : (cupper c <? length v)%nat = true |- _ => apply Nat.ltb_lt in H; rename H into Hlen end.
  apply Nat.ltb_lt in Hv. rename Hv into Hlt.
  clear H H0 H1 H2 H3.
  destruct (chunks_wf outs Hsorted Hne) as [Houts_wf Houts_sorted].
  unfold apply_compaction. rewrite (proj2 (Nat.ltb_lt _ _) Hlen).
  set (lo := clower c) in *. set (up := cupper c) in *.
  set (u := nth up v []). set (lb := lower_bound u (cfirst c)). set (ub := upper_bound u (clast c)).
  fold (upper_level v c) in lb, ub. fold u in lb, ub.
  assert (Hu_in : In u v) by (apply nth_In; exact Hlen).
  assert (Hu_tl : In u (tl v)).
  { destruct v as [|l0 r]; [cbn in Hlen; lia|]. unfold u. destruct up as [|up']; [lia|]. cbn [nth tl]. apply nth_In. cbn in Hlen. lia. }
  assert (Hwu : Forall (fun g => wf_fileb g = true) u) by (rewrite Forall_forall in Hfiles; auto).
  assert (Hsu : level_sortedb u = true) by (rewrite Forall_forall in Hlevels; auto).
  set (newu := firstn lb u ++ outs ++ skipn ub u).
  assert (Hnew_files : Forall (fun g => wf_fileb g = true) newu).
  { unfold newu. rewrite !Forall_app. repeat split.
    - now apply Forall_firstn.
    - now apply forallb_Forall.
    - now apply Forall_skipn. }
  assert (Hnew_sorted : level_sortedb newu = true).
  { unfold newu.
    assert (Hpre : forall g, In g (firstn lb u) -> key_ltb (last_key g) (cfirst c) = true).
    { intros g Hg. pose proof (partition_point_firstn (fun f0 => key_ltb (last_key f0) (cfirst c)) u) as PP.
      rewrite Forall_forall in PP. apply (PP g Hg). }
    assert (Hpost : forall g, In g (skipn ub u) -> key_leb (first_key g) (clast c) = false).
    { intros g Hg. exact (after_upper_bound (clast c) u Hwu Hsu g Hg). }
    assert (Hlt_le : forall a b, key_ltb a b = true -> key_leb a b = true).
    { intros a b. unfold key_ltb, key_leb. destruct (lex_cmp a b); congruence. }
    assert (Hnle_lt : forall a b, key_leb a b = false -> key_ltb b a = true).
    { intros a b. rewrite key_ltb_not_leb. intros ->. reflexivity. }
    apply level_sorted_app; [now apply level_sorted_firstn| |].
    - apply level_sorted_app; [exact Houts_sorted|now apply level_sorted_skipn|].
      destruct outs as [|o0 outs'] eqn:Eo; [now left|].
      destruct (skipn ub u) as [|g0 post'] eqn:Ep; [right; now left|]. right. right.
      rewrite <- Eo in *. cbn [hd].
      assert (Hlast_in : In (last outs (mkF 0 [] 0)) outs) by (apply last_in; rewrite Eo; discriminate).
      set (ol := last outs (mkF 0 [] 0)) in *.
      assert (Hol_ne : fents ol <> []).
      { apply nonempty_file_ne. rewrite forallb_forall in Hne. auto. }
      assert (Hle : In (last (fents ol) dummy_entry) (flat_map fents outs)).
      { apply in_flat_map. exists ol. split; [exact Hlast_in|now apply last_in]. }
      destruct (Hrange _ Hle) as [_ H2].
      apply Hlt_le. eapply key_leb_ltb_trans; [exact H2|].
      apply Hnle_lt. apply Hpost. now left.
    - destruct (firstn lb u) as [|p0 pre'] eqn:Epre; [now left|].
      destruct (outs ++ skipn ub u) as [|h0 rest] eqn:Er; [right; now left|]. right. right.
      rewrite <- Epre in *. cbn [hd].
      assert (Hpl : In (last (firstn lb u) (mkF 0 [] 0)) (firstn lb u)) by (apply last_in; rewrite Epre; discriminate).
      specialize (Hpre _ Hpl).
      apply Hlt_le. eapply key_ltb_leb_trans; [exact Hpre|].
      (* h0 is the first output, or (no outputs) the first file after the slice *)
      destruct outs as [|o0 outs'] eqn:Eo.
      + cbn [app] in Er. assert (Hh : In h0 (skipn ub u)) by (rewrite Er; now left).
        pose proof (Hpost h0 Hh) as Hgt.
        apply Hlt_le. eapply key_leb_ltb_trans; [exact Hfl|]. now apply Hnle_lt.
      + cbn [app] in Er. injection Er as <- _.
        assert (Ho0 : In o0 (o0 :: outs')) by now left.
        assert (Hne0 : fents o0 <> []). { apply nonempty_file_ne. rewrite forallb_forall in Hne. auto. }
        assert (Hfe : In (hd dummy_entry (fents o0)) (flat_map fents (o0 :: outs'))).
        { apply in_flat_map. exists o0. split; [exact Ho0|now apply hd_in]. }
        destruct (Hrange _ Hfe) as [H1 _]. exact H1. }
  apply wf_split. split.
  - rewrite !Forall_app. repeat split.
    + now apply Forall_firstn.
    + apply Forall_forall. intros lv Hlv. apply in_map_iff in Hlv. destruct Hlv as (lv0 & <- & Hlv0).
      assert (Hin : In lv0 v) by (eapply in_skipn; eapply in_firstn; eauto).
      rewrite Forall_forall in Hfiles. specialize (Hfiles lv0 Hin).
      apply Forall_forall. intros g Hg. apply filter_In in Hg. rewrite Forall_forall in Hfiles. now apply Hfiles.
    + constructor; [exact Hnew_files|constructor].
    + now apply Forall_skipn.
  - (* sortedness of every level but the first *)
    destruct v as [|l0 r]; [cbn in Hlen; lia|]. cbn [tl] in *.
    destruct up as [|up'] eqn:Eup; [lia|].
    destruct lo as [|lo'] eqn:Elo.
    + (* L0 is among the filtered levels *)
      cbn [firstn skipn app Nat.sub map tl].
      rewrite !Forall_app. repeat split.
      * apply Forall_forall. intros lv Hlv. apply in_map_iff in Hlv. destruct Hlv as (lv0 & <- & Hlv0).
        assert (Hin : In lv0 r) by (eapply in_firstn; eauto).
        apply level_sorted_filter.
        -- rewrite Forall_forall in Hfiles. apply Hfiles. now right.
        -- rewrite Forall_forall in Hlevels. now apply Hlevels.
      * constructor; [exact Hnew_sorted|].
        change (Forall (fun lv : level => level_sortedb lv = true) (skipn (S up') r)). now apply Forall_skipn.
    + cbn [firstn skipn app tl].
      rewrite !Forall_app. repeat split.
      * now apply Forall_firstn.
      * apply Forall_forall. intros lv Hlv. apply in_map_iff in Hlv. destruct Hlv as (lv0 & <- & Hlv0).
        assert (Hin : In lv0 r) by (eapply in_skipn; eapply in_firstn; eauto).
        apply level_sorted_filter.
        -- rewrite Forall_forall in Hfiles. apply Hfiles. now right.
        -- rewrite Forall_forall in Hlevels. now apply Hlevels.
      * constructor; [exact Hnew_sorted|].
        change (Forall (fun lv : level => level_sortedb lv = true) (skipn (S up') r)). now apply Forall_skipn.
Qed.

(* ---------- instantiation: merging compactions and garbage collections ---------- *)
Lemma slice_inputs v c : valid_compactionb v c = true ->
  filter (is_input c) (upper_slice v c) = upper_slice v c.
Proof.
  intros Hv. unfold valid_compactionb, vc_slice in Hv. repeat (apply andb_prop in Hv; destruct Hv as [Hv ?]).
  match goal with H : forallb (is_input c) (upper_slice v c) = true |- _ => rename H into Hslice end.
  rewrite forallb_forall in Hslice. clear -Hslice.
  induction (upper_slice v c) as [|f r IH]; cbn; [reflexivity|].
  rewrite (Hslice f (or_introl eq_refl)). f_equal. apply IH. intros g Hg. apply Hslice. now right.
Qed.

Lemma input_view_desc s c k : wf_version (ver s) -> Ordered s -> valid_compactionb (ver s) c = true ->
  desc_ts (kfilter k (input_entries (ver s) c)).
Proof.
  intros Hw Ho Hv. rewrite input_view, (slice_inputs _ _ Hv). fold (J s c k).
  destruct (compaction_shape s c [] k Hw Hv) as (A & B & Hold & _ & _).
  pose proof (Ho k) as Hd. rewrite Hold in Hd.
  apply desc_ts_app in Hd. destruct Hd as (_ & Hd & _). apply desc_ts_app in Hd. tauto.
Qed.

Lemma upper_slice_in v c f : In f (upper_slice v c) -> In f (upper_level v c).
Proof. unfold upper_slice, slice. intros H. eapply in_skipn. eapply in_firstn. exact H. Qed.

Lemma input_entries_range v c : wf_version v -> valid_compactionb v c = true ->
  forall e, In e (input_entries v c) -> key_leb (cfirst c) (ek e) = true /\ key_leb (ek e) (clast c) = true.
Proof.
  intros Hw Hv e He. unfold input_entries, input_files in He. apply in_flat_map in He.
  destruct He as (f & Hf & He). apply filter_In in Hf. destruct Hf as [Hf Hinp].
  assert (Hf' : In f (mid_files v c ++ upper_level v c)).
  { apply in_app_or in Hf. apply in_or_app. destruct Hf as [Hf|Hf]; [now left|right; now apply upper_slice_in]. }
  assert (Hwf : wf_fileb f = true).
  { apply in_app_or in Hf'. destruct Hf' as [Hm|Hu].
    - unfold mid_files in Hm. apply in_concat in Hm. destruct Hm as (lv & Hlv & Hfl).
      assert (Hlv' : In lv (ordered_levels v)) by (eapply in_skipn; eapply in_firstn; eauto).
      pose proof (forall_wf_ordered v Hw lv Hlv') as F. rewrite Forall_forall in F. auto.
    - destruct (wf_version_levels v Hw) as [Hfs _]. rewrite Forall_forall in Hfs.
      unfold upper_level in Hu.
      destruct (Nat.lt_ge_cases (cupper c) (length v)) as [Hl|Hl].
      + specialize (Hfs _ (nth_In v [] Hl)). rewrite Forall_forall in Hfs. auto.
      + rewrite nth_overflow in Hu by assumption. destruct Hu. }
  unfold valid_compactionb, vc_range in Hv. repeat (apply andb_prop in Hv; destruct Hv as [Hv ?]).
  match goal with H : forallb _ (mid_files v c ++ upper_level v c) = true |- _ => rename H into Hrange end.
  rewrite forallb_forall in Hrange. specialize (Hrange f Hf'). rewrite Hinp in Hrange. cbn in Hrange.
  apply andb_prop in Hrange. destruct Hrange as [R1 R2].
  destruct (file_keys_between f Hwf e He) as [F1 F2]. split; eapply key_leb_trans; eauto.
Qed.

Lemma sort_entries_strict es : (forall k, desc_ts (kfilter k es)) -> sorted_entriesb (sort_entries es) = true.
Proof.
  intros Hd. apply ssorted_strict_sortedb; [apply sort_entries_ssorted|].
  intros k. rewrite kfilter_sort_entries by apply Hd. apply Hd.
Qed.

Theorem compaction_wf s c outs : wf_version (ver s) -> Ordered s ->
  valid_compactionb (ver s) c = true -> outputs_okb (ver s) c outs = true ->
  wf_versionb (apply_compaction (ver s) c outs) = true.
Proof.
  intros Hw Ho Hv Hout. unfold outputs_okb in Hout. apply andb_prop in Hout. destruct Hout as [Heq Hne].
  apply entries_eqb_eq in Heq.
  apply apply_wf_gen; auto.
  - rewrite Heq. apply sort_entries_strict. intros k. now apply input_view_desc.
  - intros e He. rewrite Heq in He.
    apply (input_entries_range _ _ Hw Hv).
    eapply Permutation_in; [apply Permutation_sym, sort_entries_perm|exact He].
Qed.

Lemma subseq_ssorted a b : subseq a b -> ssorted b -> ssorted a.
Proof.
  induction 1 as [l|a y b _ IH|x a b Hs IH]; cbn [ssorted]; intros Hb; [exact I|apply IH; tauto|].
  destruct Hb as [Hx Hb]. split; [|auto]. intros y Hy. apply Hx. eapply subseq_in; eauto.
Qed.

Theorem gc_wf s c outs : wf_version (ver s) -> Ordered s ->
  valid_compactionb (ver s) c = true -> gc_outputs_okb (ver s) c outs = true ->
  wf_versionb (apply_compaction (ver s) c outs) = true.
Proof.
  intros Hw Ho Hv Hgc. unfold gc_outputs_okb in Hgc. apply andb_prop in Hgc. destruct Hgc as [Hgc Hne].
  apply andb_prop in Hgc. destruct Hgc as [Hsub _]. apply subseqb_sound in Hsub.
  assert (Hd : forall k, desc_ts (kfilter k (input_entries (ver s) c))) by (intros k; now apply input_view_desc).
  apply apply_wf_gen; auto.
  - apply ssorted_strict_sortedb.
    + eapply subseq_ssorted; [exact Hsub|apply sort_entries_ssorted].
    + intros k. eapply subseq_desc; [apply subseq_filter; exact Hsub|].
      fold (kfilter k (sort_entries (input_entries (ver s) c))). rewrite kfilter_sort_entries by apply Hd. apply Hd.
  - intros e He. apply (input_entries_range _ _ Hw Hv).
    eapply Permutation_in; [apply Permutation_sym, sort_entries_perm|]. eapply subseq_in; eauto.
Qed.
