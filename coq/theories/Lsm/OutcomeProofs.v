(* Lsm/OutcomeProofs.v — no fault-free operation of an accepted history panics or returns an error:
   on accepted steps History.step_outcome (what the real call returns: done / panic / error on
   model-visible conditions) is Done with exactly step's state, provided the caller keeps the two
   documented preconditions (a batch is not empty; a file entering the tree has a new id).
   Panics are excluded by acceptance alone - also for compactions applied later, to another
   version, by a compaction thread. *)
From Coq Require Import NArith List Bool Lia Arith.
From Blue Require Import Gen.Const_Lsm Lsm.Model Lsm.History Lsm.ModelConcurrent Lsm.ConcurrentProofs.
Import ListNotations.
Open Scope N_scope.

Lemma valid_apply_done s c outs : valid_compactionb (ver s) c = true ->
  apply_outcome s c outs = Done (compact s c outs).
Proof.
  unfold valid_compactionb, vc_shape, upper_level. intros Hv.
  repeat (apply andb_prop in Hv; destruct Hv as [Hv ?]).
  unfold apply_outcome.
  match goal with H : (cupper c <? length (ver s))%nat = true |- _ => rewrite H end. cbn [negb].
  match goal with H : (_ <=? _)%nat = true |- _ => apply Nat.leb_le in H; rename H into Hle end.
  destruct (Nat.ltb_spec (upper_bound (nth (cupper c) (ver s) []) (clast c))
                         (lower_bound (nth (cupper c) (ver s) []) (cfirst c))) as [Hc|_]; [lia|reflexivity].
Qed.

Lemma accepted_step_outcome s o : acceptedb s o = true ->
  step_outcome s o = Done (step s o) \/ (step_outcome s o = Fail /\ call_okb s o = false).
Proof.
  intros Ha. destruct o as [b|id sz|c outs|f|c outs|id sz v' seq']; cbn [step_outcome step call_okb].
  - destruct b; [right|left]; auto.
  - unfold flush. destruct (mem s) as [|m0 mr]; [now left|].
    destruct (id_in_tree (ver s) id); [right|left]; auto.
  - left. cbn [acceptedb] in Ha. apply andb_prop in Ha. now apply valid_apply_done.
  - destruct (id_in_tree (ver s) (fid f)); [right|left]; auto.
  - left. cbn [acceptedb] in Ha. apply andb_prop in Ha. destruct Ha as [Ha _].
    apply andb_prop in Ha. now apply valid_apply_done.
  - now left.
Qed.

Theorem no_fault_free_error ops : forall s, all_accepted s ops = true -> all_calls_ok s ops = true ->
  run_outcome s ops = Done (run s ops).
Proof.
  induction ops as [|o ops IH]; intros s Ha Hc; [reflexivity|]. cbn [all_accepted all_calls_ok run run_outcome] in *.
  apply andb_prop in Ha. destruct Ha as [Ha Has]. apply andb_prop in Hc. destruct Hc as [Hc Hcs].
  destruct (accepted_step_outcome s o Ha) as [->|[_ C]]; [now apply IH|congruence].
Qed.

Theorem accepted_never_panics ops : forall s, all_accepted s ops = true -> run_outcome s ops <> Panic.
Proof.
  induction ops as [|o ops IH]; intros s Ha; [discriminate|]. cbn [all_accepted run_outcome] in *.
  apply andb_prop in Ha. destruct Ha as [Ha Has].
  destruct (accepted_step_outcome s o Ha) as [->|[-> _]]; [now apply IH|discriminate].
Qed.

(* a compaction selected on one version and applied by its thread to a later one does not panic
   there either *)
Theorem concurrent_apply_never_panics n ops : caccepted (cinit_at n) ops = true ->
  forall v c E, In (v, (c, E)) (applies (cinit_at n) ops) ->
  forall m q outs, apply_outcome (mkS m v q) c outs = Done (compact (mkS m v q) c outs).
Proof.
  intros Hacc v c E Hin m q outs. apply valid_apply_done. cbn [ver].
  exact (proj1 (concurrent_apply_is_valid n ops Hacc v c E Hin)).
Qed.

(* the conditions are not vacuous: each outcome occurs *)
Example outcome_panic_index : step_outcome (init_at 0) (OCompact (mkC 0 16 [] [] []) []) = Panic.
Proof. vm_compute. reflexivity. Qed.
Example outcome_panic_bounds :
  step_outcome (mkS [] [[]; [mkF 1 [mkE [5] 1 None] 1]] 1) (OCompact (mkC 0 1 [9] [1] []) []) = Panic.
Proof. vm_compute. reflexivity. Qed.
Example outcome_fail_empty_batch : step_outcome (init_at 0) (OWrite []) = Fail.
Proof. reflexivity. Qed.
Example outcome_fail_duplicate :
  step_outcome (mkS [] [[mkF 1 [mkE [5] 1 None] 1]] 1) (OIngest (mkF 1 [mkE [6] 2 None] 1)) = Fail.
Proof. vm_compute. reflexivity. Qed.
