(* Lsm/ConcLists.v — list tools for the concurrent-compaction proofs:
   partition points of monotone predicates are filters (so the slice a compaction replaces in a
   sorted level is "the files that meet its key range", independently of positions); indexing into
   the patched level list that apply_compaction builds; and `edit`: a level list rewritten by
   dropping non-inputs and inserting harmless non-inputs looks the same to a compaction. *)
From Coq Require Import NArith List Bool Lia Arith.
From Blue Require Import Lsm.Model Lsm.KeyOrder Lsm.LoadProofs Lsm.ListLemmas Lsm.CompactProofs.
Import ListNotations.
Open Scope N_scope.

(* ------------------------------------------------------------------ filters *)
Lemma filter_all_false {A} (p : A -> bool) l : (forall g, In g l -> p g = false) -> filter p l = [].
Proof.
  induction l as [|x r IH]; intros H; [reflexivity|]. cbn [filter].
  rewrite (H x (or_introl eq_refl)). apply IH. intros g Hg. apply H. now right.
Qed.

Lemma filter_all_true {A} (p : A -> bool) l : (forall g, In g l -> p g = true) -> filter p l = l.
Proof.
  induction l as [|x r IH]; intros H; [reflexivity|]. cbn [filter].
  rewrite (H x (or_introl eq_refl)). f_equal. apply IH. intros g Hg. apply H. now right.
Qed.

Lemma filter_filter {A} (p q : A -> bool) l : filter p (filter q l) = filter (fun x => q x && p x) l.
Proof.
  induction l as [|x r IH]; [reflexivity|]. cbn [filter].
  destruct (q x); cbn [filter andb]; [destruct (p x); now rewrite IH|exact IH].
Qed.

Lemma filter_comm {A} (p q : A -> bool) l : filter p (filter q l) = filter q (filter p l).
Proof.
  rewrite !filter_filter. apply filter_ext. intros x. apply andb_comm.
Qed.

(* ------------------------------------------------------------------ monotone predicates *)
Fixpoint mono {A} (p : A -> bool) (l : list A) : Prop :=
  match l with
  | [] => True
  | x :: r => (p x = false -> forall g, In g r -> p g = false) /\ mono p r
  end.

Lemma pp_firstn {A} (p : A -> bool) l : mono p l -> firstn (partition_point p l) l = filter p l.
Proof.
  induction l as [|x r IH]; cbn [mono partition_point filter]; intros Hm; [reflexivity|].
  destruct Hm as [Hx Hr]. destruct (p x) eqn:E; cbn [firstn].
  - f_equal. now apply IH.
  - symmetry. apply filter_all_false. now apply Hx.
Qed.

Lemma pp_skipn {A} (p : A -> bool) l : mono p l ->
  skipn (partition_point p l) l = filter (fun x => negb (p x)) l.
Proof.
  induction l as [|x r IH]; cbn [mono partition_point filter]; intros Hm; [reflexivity|].
  destruct Hm as [Hx Hr]. destruct (p x) eqn:E; cbn [skipn negb].
  - now apply IH.
  - f_equal. symmetry. apply filter_all_true. intros g Hg. now rewrite (Hx eq_refl g Hg).
Qed.

Lemma mono_filter {A} (p q : A -> bool) l : mono p l -> mono p (filter q l).
Proof.
  induction l as [|x r IH]; cbn [mono filter]; intros Hm; [exact I|].
  destruct Hm as [Hx Hr]. destruct (q x); cbn [mono]; [|now apply IH].
  split; [|now apply IH]. intros E g Hg. apply filter_In in Hg. now apply Hx.
Qed.

Lemma pp_sub {A} (p1 p2 : A -> bool) l : (forall x, In x l -> p1 x = true -> p2 x = true) ->
  (partition_point p2 l - partition_point p1 l)%nat =
  partition_point p2 (skipn (partition_point p1 l) l).
Proof.
  induction l as [|x r IH]; intros H; [reflexivity|]. cbn [partition_point].
  destruct (p1 x) eqn:E1.
  - rewrite (H x (or_introl eq_refl) E1). cbn [skipn Nat.sub]. apply IH.
    intros y Hy. apply H. now right.
  - cbn [skipn partition_point]. now rewrite Nat.sub_0_r.
Qed.

Lemma pp_le {A} (p1 p2 : A -> bool) l : (forall x, In x l -> p1 x = true -> p2 x = true) ->
  (partition_point p1 l <= partition_point p2 l)%nat.
Proof.
  induction l as [|x r IH]; intros H; [apply Nat.le_refl|]. cbn [partition_point].
  destruct (p1 x) eqn:E1; [|apply Nat.le_0_l].
  rewrite (H x (or_introl eq_refl) E1). apply le_n_S, IH. intros y Hy. apply H. now right.
Qed.

Lemma pp_slice {A} (p1 p2 : A -> bool) l : mono p1 l -> mono p2 l ->
  (forall x, In x l -> p1 x = true -> p2 x = true) ->
  firstn (partition_point p2 l - partition_point p1 l) (skipn (partition_point p1 l) l) =
  filter (fun x => negb (p1 x) && p2 x) l.
Proof.
  intros H1 H2 Hsub. rewrite (pp_sub p1 p2 l Hsub), (pp_skipn p1 l H1).
  rewrite pp_firstn by now apply mono_filter. apply filter_filter.
Qed.

(* ------------------------------------------------------------------ sorted levels *)
Definition wf_files (lv : level) : Prop := Forall (fun g => wf_fileb g = true) lv.

Lemma sorted_mono_lb lv k : wf_files lv -> level_sortedb lv = true ->
  mono (fun f => key_ltb (last_key f) k) lv.
Proof.
  induction lv as [|x r IH]; intros Hw Hs; [exact I|]. cbn [mono].
  inversion Hw as [|? ? Hwx Hwr]; subst. split; [|apply IH; [exact Hwr|eapply level_sorted_tail; eauto]].
  intros E g Hg. destruct (key_ltb (last_key g) k) eqn:Eg; [|reflexivity].
  pose proof (level_first_mono x r Hw Hs g Hg) as H1.
  assert (Hwg : wf_fileb g = true) by (unfold wf_files in Hwr; rewrite Forall_forall in Hwr; auto).
  pose proof (key_leb_trans _ _ _ H1 (file_first_le_last g Hwg)) as H2.
  rewrite (key_leb_ltb_trans _ _ _ H2 Eg) in E. discriminate.
Qed.

Lemma sorted_mono_ub lv k : wf_files lv -> level_sortedb lv = true ->
  mono (fun f => key_leb (first_key f) k) lv.
Proof.
  induction lv as [|x r IH]; intros Hw Hs; [exact I|]. cbn [mono].
  inversion Hw as [|? ? Hwx Hwr]; subst. split; [|apply IH; [exact Hwr|eapply level_sorted_tail; eauto]].
  intros E g Hg. destruct (key_leb (first_key g) k) eqn:Eg; [|reflexivity].
  pose proof (level_first_mono x r Hw Hs g Hg) as H1.
  pose proof (key_leb_trans _ _ _ (file_first_le_last x Hwx) H1) as H2.
  rewrite (key_leb_trans _ _ _ H2 Eg) in E. discriminate.
Qed.

(* "f meets the key range [a,b]" *)
Definition qrange (a b : key) (f : file) : bool := key_leb a (last_key f) && key_leb (first_key f) b.

Lemma lb_in_ub lv a b : wf_files lv -> key_leb a b = true ->
  forall x, In x lv -> key_ltb (last_key x) a = true -> key_leb (first_key x) b = true.
Proof.
  intros Hw Hab x Hx Hlt. unfold wf_files in Hw. rewrite Forall_forall in Hw.
  pose proof (file_first_le_last x (Hw x Hx)) as H1.
  pose proof (key_leb_ltb_trans _ _ _ H1 Hlt) as H2.
  eapply key_leb_trans; [|exact Hab].
  unfold key_ltb in H2. unfold key_leb. destruct (lex_cmp (first_key x) a); congruence.
Qed.

Lemma bounds_le lv a b : wf_files lv -> key_leb a b = true ->
  (lower_bound lv a <= upper_bound lv b)%nat.
Proof. intros Hw Hab. unfold lower_bound, upper_bound. apply pp_le. now apply lb_in_ub. Qed.

(* the slice between the two partition points = the files meeting [a,b] *)
Lemma level_slice_filter lv a b : wf_files lv -> level_sortedb lv = true -> key_leb a b = true ->
  slice lv (lower_bound lv a) (upper_bound lv b) = filter (qrange a b) lv.
Proof.
  intros Hw Hs Hab. unfold slice, lower_bound, upper_bound.
  rewrite pp_slice; [| now apply sorted_mono_lb | now apply sorted_mono_ub | now apply lb_in_ub].
  apply filter_ext. intros f. unfold qrange. now rewrite key_ltb_not_leb, negb_involutive.
Qed.

Lemma level_split (lv : level) lb ub : (lb <= ub)%nat ->
  lv = firstn lb lv ++ slice lv lb ub ++ skipn ub lv.
Proof.
  intros Hle. unfold slice.
  rewrite <- (firstn_skipn lb lv) at 1. f_equal.
  rewrite <- (firstn_skipn (ub - lb) (skipn lb lv)) at 1. f_equal.
  rewrite skipn_skipn'. f_equal. lia.
Qed.

(* the files outside the slice are those not meeting [a,b] *)
Lemma level_rest_spec lv a b : wf_files lv -> level_sortedb lv = true -> key_leb a b = true ->
  forall f, In f (firstn (lower_bound lv a) lv ++ skipn (upper_bound lv b) lv) <->
            In f lv /\ qrange a b f = false.
Proof.
  intros Hw Hs Hab f. split.
  - intros Hf. apply in_app_or in Hf. destruct Hf as [Hf|Hf].
    + split; [eapply in_firstn; eauto|]. unfold lower_bound in Hf.
      rewrite pp_firstn in Hf by now apply sorted_mono_lb. apply filter_In in Hf.
      unfold qrange. destruct Hf as [_ Hf]. rewrite key_ltb_not_leb in Hf.
      apply negb_true_iff in Hf. now rewrite Hf.
    + split; [eapply in_skipn; eauto|]. unfold upper_bound in Hf.
      rewrite pp_skipn in Hf by now apply sorted_mono_ub. apply filter_In in Hf.
      unfold qrange. destruct Hf as [_ Hf]. apply negb_true_iff in Hf. rewrite Hf. apply andb_false_r.
  - intros [Hf Hq].
    pose proof (level_split lv _ _ (bounds_le lv a b Hw Hab)) as Hsp.
    rewrite Hsp in Hf. apply in_app_or in Hf. destruct Hf as [Hf|Hf]; [apply in_or_app; now left|].
    apply in_app_or in Hf. destruct Hf as [Hf|Hf]; [|apply in_or_app; now right].
    rewrite level_slice_filter in Hf by assumption. apply filter_In in Hf. destruct Hf as [_ Hf]. congruence.
Qed.

(* ------------------------------------------------------------------ indexing *)
Lemma nth_firstn_lt {A} n i (l : list A) d : (i < n)%nat -> nth i (firstn n l) d = nth i l d.
Proof.
  revert i l. induction n as [|n IH]; intros i l Hlt; [lia|].
  destruct l as [|x l]; [now destruct i|]. cbn [firstn].
  destruct i as [|i]; [reflexivity|]. cbn [nth]. apply IH. lia.
Qed.

Lemma nth_skipn_add {A} n i (l : list A) d : nth i (skipn n l) d = nth (n + i) l d.
Proof.
  revert l. induction n as [|n IH]; intros l; [reflexivity|].
  destruct l as [|x l]; [now destruct i|]. cbn [skipn Nat.add nth]. apply IH.
Qed.

(* the level list apply_compaction builds, read by index *)
Lemma nth_patch {A} (F : A -> A) (l : list A) lo up nu d i :
  (lo <= up)%nat -> (up < length l)%nat -> F d = d ->
  nth i (firstn lo l ++ map F (firstn (up - lo) (skipn lo l)) ++ [nu] ++ skipn (S up) l) d =
  if (i <? lo)%nat then nth i l d
  else if (i <? up)%nat then F (nth i l d)
  else if (i =? up)%nat then nu else nth i l d.
Proof.
  intros Hle Hlen HF.
  assert (L1 : length (firstn lo l) = lo) by (rewrite firstn_length; lia).
  assert (L2 : length (map F (firstn (up - lo) (skipn lo l))) = (up - lo)%nat).
  { rewrite map_length, firstn_length, skipn_length. lia. }
  destruct (Nat.ltb_spec i lo) as [H1|H1].
  - rewrite app_nth1 by lia. now apply nth_firstn_lt.
  - rewrite app_nth2 by lia. rewrite L1.
    destruct (Nat.ltb_spec i up) as [H2|H2].
    + rewrite app_nth1 by lia. rewrite <- HF at 1. rewrite map_nth. f_equal.
      rewrite nth_firstn_lt by lia. rewrite nth_skipn_add. f_equal. lia.
    + rewrite app_nth2 by lia. rewrite L2.
      destruct (Nat.eqb_spec i up) as [H3|H3].
      * subst i. replace (up - lo - (up - lo))%nat with O by lia. reflexivity.
      * cbn [app]. destruct (i - lo - (up - lo))%nat as [|j] eqn:Ej; [lia|]. cbn [nth].
        rewrite nth_skipn_add. f_equal. lia.
Qed.

Lemma length_patch {A} (F : A -> A) (l : list A) lo up nu :
  (lo <= up)%nat -> (up < length l)%nat ->
  length (firstn lo l ++ map F (firstn (up - lo) (skipn lo l)) ++ [nu] ++ skipn (S up) l) = length l.
Proof.
  intros Hle Hlen. rewrite !app_length, map_length, !firstn_length, !skipn_length. cbn [length]. lia.
Qed.

Lemma window_rel {A} (R : A -> A -> Prop) d : forall n lo (l l' : list A),
  length l = length l' -> (lo + n <= length l)%nat ->
  (forall i, (lo <= i < lo + n)%nat -> R (nth i l d) (nth i l' d)) ->
  Forall2 R (firstn n (skipn lo l)) (firstn n (skipn lo l')).
Proof.
  induction n as [|n IH]; intros lo l l' Hlen Hb H; [constructor|].
  rewrite (skipn_nth_cons lo l d) by lia. rewrite (skipn_nth_cons lo l' d) by lia.
  cbn [firstn]. constructor; [apply H; lia|].
  apply IH; [exact Hlen|lia|]. intros i Hi. apply H. lia.
Qed.

(* ------------------------------------------------------------------ edits *)
Section Edit.
Variable inp : file -> bool.
Variable Pins : file -> Prop.

Inductive edit : list file -> list file -> Prop :=
| ed_nil : edit [] []
| ed_keep x l l' : edit l l' -> edit (x :: l) (x :: l')
| ed_drop x l l' : inp x = false -> edit l l' -> edit (x :: l) l'
| ed_ins y l l' : inp y = false -> Pins y -> edit l l' -> edit l (y :: l').

Lemma edit_refl l : edit l l.
Proof. induction l; constructor; assumption. Qed.

Lemma edit_app a a' b b' : edit a a' -> edit b b' -> edit (a ++ b) (a' ++ b').
Proof. intros Ha Hb. induction Ha; cbn [app]; [exact Hb| | |]; constructor; assumption. Qed.

Lemma edit_filter (p : file -> bool) l : (forall x, In x l -> p x = false -> inp x = false) ->
  edit l (filter p l).
Proof.
  induction l as [|x r IH]; intros H; [constructor|]. cbn [filter].
  assert (IH' : edit r (filter p r)) by (apply IH; intros y Hy; apply H; now right).
  destruct (p x) eqn:E; [now constructor|]. apply ed_drop; [|exact IH']. apply H; [now left|exact E].
Qed.

Lemma edit_replace sl outs : (forall x, In x sl -> inp x = false) ->
  (forall y, In y outs -> inp y = false /\ Pins y) -> edit sl outs.
Proof.
  intros Hs Ho. induction sl as [|x r IH].
  - induction outs as [|y o IHo]; [constructor|].
    destruct (Ho y (or_introl eq_refl)) as [Hy1 Hy2].
    apply ed_ins; [exact Hy1|exact Hy2|]. apply IHo. intros z Hz. apply Ho. now right.
  - apply ed_drop; [apply Hs; now left|]. apply IH. intros z Hz. apply Hs. now right.
Qed.

Lemma edit_concat ls ls' : Forall2 edit ls ls' -> edit (concat ls) (concat ls').
Proof. induction 1; cbn [concat]; [constructor|]. now apply edit_app. Qed.

Lemma edit_filter_inp l l' : edit l l' -> filter inp l' = filter inp l.
Proof.
  induction 1 as [|x l l' _ IH|x l l' Hx _ IH|y l l' Hy _ _ IH]; cbn [filter].
  - reflexivity.
  - now rewrite IH.
  - now rewrite Hx.
  - now rewrite Hy.
Qed.

Lemma edit_in l l' : edit l l' -> forall g, In g l' -> In g l \/ (inp g = false /\ Pins g).
Proof.
  induction 1 as [|x l l' _ IH|x l l' Hx _ IH|y l l' Hy Hp _ IH]; intros g Hg.
  - destruct Hg.
  - destruct Hg as [<-|Hg]; [left; now left|]. destruct (IH g Hg) as [H|H]; [left; now right|now right].
  - destruct (IH g Hg) as [H|H]; [left; now right|now right].
  - destruct Hg as [<-|Hg]; [right; tauto|]. now apply IH.
Qed.

Lemma edit_closed l l' : edit l l' ->
  (forall x g, In x l -> inp x = true -> Pins g -> files_overlap x g = false) ->
  closed_overlap inp l = true -> closed_overlap inp l' = true.
Proof.
  induction 1 as [|x l l' He IH|x l l' Hx _ IH|y l l' Hy Hp _ IH]; intros Hno Hc.
  - reflexivity.
  - cbn [closed_overlap] in *. apply andb_prop in Hc. destruct Hc as [Hh Ht].
    rewrite IH; [|intros z g Hz; apply Hno; now right|exact Ht]. rewrite andb_true_r.
    destruct (inp x) eqn:Ex; [|reflexivity]. cbn [negb orb] in *.
    apply forallb_forall. intros g Hg. rewrite forallb_forall in Hh.
    destruct (edit_in l l' He g Hg) as [Hin|[_ Hpg]]; [now apply Hh|].
    rewrite (Hno x g (or_introl eq_refl) Ex Hpg). apply orb_true_r.
  - cbn [closed_overlap] in Hc. apply andb_prop in Hc. destruct Hc as [_ Ht].
    apply IH; [intros z g Hz; apply Hno; now right|exact Ht].
  - cbn [closed_overlap]. rewrite Hy. cbn [negb orb andb]. now apply IH.
Qed.
End Edit.
