(* Lsm/LoadProofs.v — point reads: under well-formedness and the Ordered invariant, `load` returns
   the newest version not newer than the read timestamp among ALL entries of the store. *)
From Coq Require Import NArith List Bool Lia Arith.
From Blue Require Import Lsm.Model Lsm.KeyOrder.
Import ListNotations.
Open Scope N_scope.

Arguments N.leb : simpl never.
Arguments N.ltb : simpl never.

(* ---------- generic list facts ---------- *)
Lemma find_app_aux {A} (p : A -> bool) (l1 l2 : list A) :
  find p (l1 ++ l2) = match find p l1 with Some x => Some x | None => find p l2 end.
Proof. induction l1 as [|x l1 IH]; cbn; [reflexivity|]. destruct (p x); [reflexivity|exact IH]. Qed.

Lemma first_some_find {A B} (g : A -> list B) (p : B -> bool) (l : list A) :
  first_some (fun x => find p (g x)) l = find p (flat_map g l).
Proof.
  induction l as [|x l IH]; cbn; [reflexivity|].
  rewrite find_app_aux. destruct (find p (g x)); [reflexivity|exact IH].
Qed.

Lemma find_filter {A} (p q : A -> bool) (l : list A) :
  find (fun x => q x && p x) l = find p (filter q l).
Proof.
  induction l as [|x l IH]; cbn; [reflexivity|].
  destruct (q x); cbn; [destruct (p x); [reflexivity|exact IH]|exact IH].
Qed.

Lemma flat_map_nil {A B} (g : A -> list B) (l : list A) :
  (forall x, In x l -> g x = []) -> flat_map g l = [].
Proof.
  induction l as [|x l IH]; cbn; intros H; [reflexivity|].
  rewrite (H x) by now left. apply IH. intros y Hy. apply H. now right.
Qed.

Lemma partition_point_firstn {A} (p : A -> bool) (l : list A) :
  Forall (fun x => p x = true) (firstn (partition_point p l) l).
Proof.
  induction l as [|x l IH]; cbn; [constructor|].
  destruct (p x) eqn:E; cbn; [constructor; assumption|constructor].
Qed.

(* ---------- entries inside a well-formed file lie between its first and last key ---------- *)
Lemma entry_leb_key a b : entry_leb a b = true -> key_leb (ek a) (ek b) = true.
Proof. unfold entry_leb, key_leb. destruct (lex_cmp (ek a) (ek b)); auto; discriminate. Qed.

Lemma sorted_tail x r : sorted_entriesb (x :: r) = true -> sorted_entriesb r = true.
Proof.
  destruct r as [|y r]; cbn; [reflexivity|]. intros H.
  apply andb_prop in H. destruct H as [_ H]. exact H.
Qed.

Lemma sorted_head_le x r : sorted_entriesb (x :: r) = true ->
  forall e, In e r -> key_leb (ek x) (ek e) = true.
Proof.
  revert x. induction r as [|y r IH]; intros x Hs e Hin; [destruct Hin|].
  cbn in Hs. apply andb_prop in Hs. destruct Hs as [H1 Hs].
  apply andb_prop in H1. destruct H1 as [Hxy _].
  apply entry_leb_key in Hxy.
  destruct Hin as [<-|Hin]; [exact Hxy|].
  eapply key_leb_trans; [exact Hxy|]. eapply IH; eauto.
Qed.

Lemma sorted_last_ge l d : sorted_entriesb l = true ->
  forall e, In e l -> key_leb (ek e) (ek (last l d)) = true.
Proof.
  induction l as [|x r IH]; intros Hs e Hin; [destruct Hin|].
  destruct r as [|y r].
  - destruct Hin as [<-|[]]. cbn. apply key_leb_refl.
  - change (last (x :: y :: r) d) with (last (y :: r) d).
    destruct Hin as [<-|Hin].
    + eapply key_leb_trans.
      * apply (sorted_head_le x (y :: r) Hs y). now left.
      * apply IH; [eapply sorted_tail; eauto|now left].
    + apply IH; [eapply sorted_tail; eauto|exact Hin].
Qed.

Lemma file_keys_between f : wf_fileb f = true ->
  forall e, In e (fents f) -> key_leb (first_key f) (ek e) = true /\ key_leb (ek e) (last_key f) = true.
Proof.
  unfold wf_fileb, first_key, last_key. destruct (fents f) as [|x r] eqn:E; [discriminate|].
  intros Hs e Hin. split.
  - cbn [hd]. destruct Hin as [<-|Hin]; [apply key_leb_refl|eapply sorted_head_le; eauto].
  - now apply sorted_last_ge.
Qed.

Lemma file_first_le_last f : wf_fileb f = true -> key_leb (first_key f) (last_key f) = true.
Proof.
  intros Hw. unfold wf_fileb in Hw. destruct (fents f) as [|x r] eqn:E; [discriminate|].
  assert (Hin : In x (fents f)) by (rewrite E; now left).
  destruct (file_keys_between f) with (e := x) as [_ H2]; auto.
  - unfold wf_fileb. now rewrite E.
  - unfold first_key at 1. rewrite E. exact H2.
Qed.

Definition kf (k : key) (f : file) : list entry := kfilter k (fents f).

Lemma kf_nil_above k f : wf_fileb f = true -> key_ltb (last_key f) k = true -> kf k f = [].
Proof.
  intros Hw Hlt. unfold kf, kfilter.
  assert (H : forall e, In e (fents f) -> key_eqb (ek e) k = false).
  { intros e Hin. destruct (file_keys_between f Hw e Hin) as [_ H2].
    destruct (key_eqb (ek e) k) eqn:E; [|reflexivity].
    apply key_eqb_eq in E. subst k.
    pose proof (key_leb_ltb_trans _ _ _ H2 Hlt) as C. now rewrite key_ltb_irrefl in C. }
  induction (fents f) as [|e es IH]; cbn; [reflexivity|].
  rewrite (H e) by now left. apply IH. intros e' He'. apply H. now right.
Qed.

Lemma kf_nil_below k f : wf_fileb f = true -> key_leb (first_key f) k = false -> kf k f = [].
Proof.
  intros Hw Hgt. unfold kf, kfilter.
  assert (H : forall e, In e (fents f) -> key_eqb (ek e) k = false).
  { intros e Hin. destruct (file_keys_between f Hw e Hin) as [H1 _].
    destruct (key_eqb (ek e) k) eqn:E; [|reflexivity].
    apply key_eqb_eq in E. subst k. now rewrite H1 in Hgt. }
  induction (fents f) as [|e es IH]; cbn; [reflexivity|].
  rewrite (H e) by now left. apply IH. intros e' He'. apply H. now right.
Qed.

(* ---------- a sorted level: first keys are non-decreasing ---------- *)
Lemma level_sorted_tail f r : level_sortedb (f :: r) = true -> level_sortedb r = true.
Proof. destruct r as [|g r]; cbn; [reflexivity|]. intros H. apply andb_prop in H. tauto. Qed.

Lemma level_first_mono f r : Forall (fun g => wf_fileb g = true) (f :: r) -> level_sortedb (f :: r) = true ->
  forall g, In g r -> key_leb (last_key f) (first_key g) = true.
Proof.
  revert f. induction r as [|h r IH]; intros f Hw Hs g Hin; [destruct Hin|].
  cbn in Hs. apply andb_prop in Hs. destruct Hs as [Hfh Hs].
  destruct Hin as [<-|Hin]; [exact Hfh|].
  inversion Hw as [|? ? Hwf Hwr]; subst. inversion Hwr as [|? ? Hwh Hwr']; subst.
  eapply key_leb_trans; [exact Hfh|]. eapply key_leb_trans; [apply file_first_le_last; exact Hwh|].
  apply IH; assumption.
Qed.

(* files at and beyond upper_bound hold no version of k *)
Lemma kf_nil_from_upper k lv : Forall (fun g => wf_fileb g = true) lv -> level_sortedb lv = true ->
  flat_map (kf k) (firstn (upper_bound lv k) lv) = flat_map (kf k) lv.
Proof.
  unfold upper_bound. induction lv as [|f r IH]; intros Hw Hs; cbn; [reflexivity|].
  inversion Hw as [|? ? Hwf Hwr]; subst.
  destruct (key_leb (first_key f) k) eqn:E; cbn.
  - f_equal. apply IH; [assumption|eapply level_sorted_tail; eauto].
  - rewrite (kf_nil_below k f Hwf E). cbn. symmetry. apply flat_map_nil.
    intros g Hg. rewrite Forall_forall in Hwr. apply kf_nil_below; [auto|].
    pose proof (level_first_mono f r Hw Hs g Hg) as H1.
    destruct (key_leb (first_key g) k) eqn:E2; [|reflexivity].
    pose proof (key_leb_trans _ _ _ (file_first_le_last f Hwf) H1) as H2.
    pose proof (key_leb_trans _ _ _ H2 E2) as C. congruence.
Qed.

(* the slice consulted by load holds every version of k that the level holds *)
Lemma key_slice_complete k lv : Forall (fun g => wf_fileb g = true) lv -> level_sortedb lv = true ->
  flat_map (kf k) (key_slice lv k) = flat_map (kf k) lv.
Proof.
  unfold key_slice, slice, lower_bound. induction lv as [|f r IH]; intros Hw Hs; [reflexivity|].
  inversion Hw as [|? ? Hwf Hwr]; subst.
  cbn [partition_point].
  destruct (key_ltb (last_key f) k) eqn:E.
  - (* f is wholly below k: it is also counted by upper_bound *)
    assert (E2 : key_leb (first_key f) k = true).
    { eapply key_leb_trans; [apply file_first_le_last; exact Hwf|].
      unfold key_ltb in E. unfold key_leb. destruct (lex_cmp (last_key f) k); congruence. }
    unfold upper_bound. cbn [partition_point]. rewrite E2. cbn [skipn Nat.sub flat_map].
    rewrite (kf_nil_above k f Hwf E). cbn [app].
    apply IH; [assumption|eapply level_sorted_tail; eauto].
  - cbn [skipn]. rewrite Nat.sub_0_r. apply kf_nil_from_upper; assumption.
Qed.

(* ---------- load = find over the key's view ---------- *)
Definition wf_version (v : version) : Prop := wf_versionb v = true.

Lemma wf_version_levels v : wf_version v ->
  Forall (fun lv => Forall (fun g => wf_fileb g = true) lv) v /\
  Forall (fun lv => level_sortedb lv = true) (tl v).
Proof.
  unfold wf_version, wf_versionb. intros H. apply andb_prop in H. destruct H as [H1 H2]. split.
  - apply Forall_forall. intros lv Hlv. rewrite forallb_forall in H1. specialize (H1 lv Hlv).
    apply Forall_forall. intros g Hg. rewrite forallb_forall in H1. auto.
  - apply Forall_forall. intros lv Hlv. rewrite forallb_forall in H2. auto.
Qed.

Lemma lookup_files_view v k : wf_version v ->
  flat_map (kf k) (lookup_files v k) = flat_map (kf k) (flat v).
Proof.
  intros Hw. destruct (wf_version_levels v Hw) as [Hf Hs].
  unfold lookup_files, flat. rewrite !flat_map_app. f_equal.
  destruct v as [|l0 rest]; [reflexivity|]. cbn [tl] in *.
  inversion Hf as [|? ? _ Hfr]; subst. clear Hf Hw.
  induction rest as [|lv rest IH]; [reflexivity|].
  cbn [flat_map concat]. rewrite !flat_map_app.
  inversion Hfr; subst. inversion Hs; subst.
  rewrite key_slice_complete by assumption. f_equal. now apply IH.
Qed.

Lemma ents_load_view es k t : ents_load es k t = find (fun e => ets e <=? t) (kfilter k es).
Proof. unfold ents_load, hit, kfilter. apply find_filter. Qed.

Theorem load_is_find_kview s k t : wf_version (ver s) ->
  load s k t = find (fun e => ets e <=? t) (kview s k).
Proof.
  intros Hw. unfold load, kview, load_version.
  change (fun f => kfilter k (fents f)) with (kf k).
  rewrite ents_load_view, find_app_aux.
  destruct (find _ (kfilter k (mem s))); [reflexivity|].
  rewrite <- (lookup_files_view (ver s) k Hw).
  rewrite <- first_some_find.
  induction (lookup_files (ver s) k) as [|x l IH]; cbn [first_some]; [reflexivity|].
  unfold kf at 1. rewrite <- ents_load_view. destruct (ents_load (fents x) k t); [reflexivity|exact IH].
Qed.
