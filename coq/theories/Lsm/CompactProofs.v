(* Lsm/CompactProofs.v — an admissible compaction leaves every key's view unchanged *)
From Coq Require Import NArith List Bool Lia Arith Permutation.
From Blue Require Import Lsm.Model Lsm.KeyOrder Lsm.LoadProofs Lsm.Ordered Lsm.ListLemmas Lsm.SortLemmas.
Import ListNotations.
Open Scope N_scope.

Arguments N.leb : simpl never.
Arguments N.ltb : simpl never.

(* ---------- l0_order commutes with filtering ---------- *)
Fixpoint msorted (m : file -> N) (l : list file) : Prop :=
  match l with [] => True | x :: r => (forall y, In y r -> m x <= m y) /\ msorted m r end.

Lemma insert_by_perm m x l : Permutation (x :: l) (insert_by m x l).
Proof.
  induction l as [|y r IH]; cbn; [reflexivity|].
  destruct (m y <? m x); [|reflexivity]. rewrite perm_swap. now constructor.
Qed.

Lemma isort_by_perm m l : Permutation l (isort_by m l).
Proof. induction l as [|x r IH]; cbn; [constructor|]. rewrite <- insert_by_perm. now constructor. Qed.

Lemma insert_by_msorted m x l : msorted m l -> msorted m (insert_by m x l).
Proof.
  induction l as [|y r IH]; cbn [insert_by msorted]; intros Hs; [split; [intros ? []|exact I]|].
  destruct Hs as [Hy Hr]. destruct (N.ltb_spec (m y) (m x)) as [Hlt|Hge]; cbn [msorted].
  - split; [|now apply IH]. intros z Hz.
    apply (Permutation_in _ (Permutation_sym (insert_by_perm m x r))) in Hz.
    destruct Hz as [<-|Hz]; [lia|now apply Hy].
  - split; [|split; assumption]. intros z [<-|Hz]; [lia|]. specialize (Hy z Hz). lia.
Qed.

Lemma isort_by_msorted m l : msorted m (isort_by m l).
Proof. induction l as [|x r IH]; cbn; [exact I|]. now apply insert_by_msorted. Qed.

Lemma filter_insert_by m (p : file -> bool) x l : msorted m l ->
  filter p (insert_by m x l) = if p x then insert_by m x (filter p l) else filter p l.
Proof.
  induction l as [|y r IH]; cbn [insert_by filter msorted]; intros Hs.
  - cbn. now destruct (p x).
  - destruct Hs as [Hy Hr]. destruct (N.ltb_spec (m y) (m x)) as [Hlt|Hge].
    + cbn [filter]. rewrite (IH Hr). destruct (p y) eqn:Py; destruct (p x) eqn:Px; cbn [insert_by]; try reflexivity.
      destruct (N.ltb_spec (m y) (m x)); [reflexivity|lia].
    + cbn [filter]. destruct (p x) eqn:Px; [|reflexivity].
      destruct (p y) eqn:Py; cbn [insert_by].
      * destruct (N.ltb_spec (m y) (m x)); [lia|reflexivity].
      * (* x goes in front of the filtered tail: every element there is >= m y >= m x *)
        assert (H : forall l', (forall z, In z l' -> m x <= m z) -> insert_by m x l' = x :: l').
        { intros [|z l'] Hz; cbn; [reflexivity|].
          destruct (N.ltb_spec (m z) (m x)) as [Hc|]; [|reflexivity].
          specialize (Hz z (or_introl eq_refl)). lia. }
        symmetry. apply H. intros z Hz. apply filter_In in Hz. destruct Hz as [Hz _].
        specialize (Hy z Hz). lia.
Qed.

Lemma filter_isort_by m p l : filter p (isort_by m l) = isort_by m (filter p l).
Proof.
  induction l as [|x r IH]; cbn [isort_by filter]; [reflexivity|].
  rewrite filter_insert_by by apply isort_by_msorted. rewrite IH.
  destruct (p x); reflexivity.
Qed.

Lemma l0_order_filter p l : l0_order (filter p l) = filter p (l0_order l).
Proof. unfold l0_order. now rewrite <- filter_isort_by, filter_rev'. Qed.

Lemma in_l0_order f l : In f (l0_order l) <-> In f l.
Proof.
  unfold l0_order. rewrite <- in_rev. split; intros H.
  - eapply Permutation_in; [apply Permutation_sym, isort_by_perm|exact H].
  - eapply Permutation_in; [apply isort_by_perm|exact H].
Qed.

(* ---------- shape of the version after apply_compaction, in lookup order ---------- *)
Lemma flat_ordered_levels v : flat v = concat (ordered_levels v).
Proof. destruct v as [|l0 r]; reflexivity. Qed.

Lemma nth_ordered_levels v n : (1 <= n)%nat -> nth n (ordered_levels v) [] = nth n v [].
Proof. destruct v as [|l0 r]; destruct n; cbn; try lia; reflexivity. Qed.

Lemma length_ordered_levels v : length (ordered_levels v) = length v.
Proof. destruct v; reflexivity. Qed.

Lemma ordered_levels_apply v c outs : (clower c < cupper c)%nat -> (cupper c < length v)%nat ->
  let u := nth (cupper c) v [] in
  let ov := ordered_levels v in
  ordered_levels (apply_compaction v c outs) =
    firstn (clower c) ov ++ map (filter (fun f => negb (is_input c f))) (firstn (cupper c - clower c) (skipn (clower c) ov))
      ++ [firstn (lower_bound u (cfirst c)) u ++ outs ++ skipn (upper_bound u (clast c)) u] ++ skipn (S (cupper c)) ov.
Proof.
  intros Hlt Hlen. cbv zeta. unfold apply_compaction. cbv zeta.
  destruct v as [|l0 r]; [cbn in Hlen; lia|].
  destruct (cupper c) as [|up'] eqn:Eu; [lia|].
  assert (E : (S up' <? @length level (l0 :: r))%nat = true) by (apply Nat.ltb_lt; exact Hlen).
  rewrite E.
  destruct (clower c) as [|lo'] eqn:El.
  - cbn [firstn skipn app Nat.sub ordered_levels map]. rewrite l0_order_filter. reflexivity.
  - cbn [firstn skipn app ordered_levels]. reflexivity.
Qed.

(* ---------- from the boolean admissibility check to what the proof uses ---------- *)
Definition K (k : key) (fs : list file) : list entry := flat_map (kf k) fs.

Lemma K_app k a b : K k (a ++ b) = K k a ++ K k b.
Proof. apply flat_map_app. Qed.

Lemma kf_nonempty_between k f : wf_fileb f = true -> kf k f <> [] ->
  key_leb (first_key f) k = true /\ key_leb k (last_key f) = true.
Proof.
  intros Hw Hne. destruct (kf k f) as [|e es] eqn:E; [congruence|].
  assert (Hin : In e (kf k f)) by (rewrite E; now left).
  unfold kf in Hin. apply in_kfilter in Hin. destruct Hin as [Hin <-].
  now apply file_keys_between.
Qed.

Lemma closed_overlap_closedK k inp l : Forall (fun f => wf_fileb f = true) l ->
  closed_overlap inp l = true -> closedK (kf k) inp l.
Proof.
  induction l as [|x r IH]; cbn [closed_overlap closedK]; intros Hw Hc; [exact I|].
  inversion Hw as [|? ? Hwx Hwr]; subst.
  apply andb_prop in Hc. destruct Hc as [Hx Hr]. split; [|now apply IH].
  intros Hix Hkx y Hy Hiy.
  rewrite Hix in Hx. cbn in Hx. rewrite forallb_forall in Hx. specialize (Hx y Hy).
  rewrite Hiy in Hx. cbn in Hx.
  destruct (kf k y) as [|e es] eqn:E; [reflexivity|exfalso].
  rewrite Forall_forall in Hwr.
  destruct (kf_nonempty_between k x Hwx Hkx) as [X1 X2].
  destruct (kf_nonempty_between k y (Hwr y Hy)) as [Y1 Y2]; [rewrite E; discriminate|].
  unfold files_overlap in Hx.
  rewrite (key_leb_trans _ _ _ X1 Y2), (key_leb_trans _ _ _ Y1 X2) in Hx. discriminate.
Qed.

Lemma entries_eqb_eq a : forall b, entries_eqb a b = true -> a = b.
Proof.
  induction a as [|x a IH]; intros [|y b]; cbn; try discriminate; [reflexivity|].
  intros H. repeat (apply andb_prop in H; destruct H as [H ?]).
  f_equal; [|now apply IH].
  destruct x as [kx tx vx], y as [ky ty vy]; cbn in *.
  apply key_eqb_eq in H. apply N.eqb_eq in H2. subst. f_equal.
  destruct vx, vy; try discriminate; [|reflexivity]. f_equal. now apply key_eqb_eq.
Qed.

Lemma desc_ts_pick a b c d e : desc_ts (a ++ b ++ c ++ d ++ e) -> desc_ts (b ++ d).
Proof.
  rewrite !desc_ts_app. intros (_ & (Hb & (_ & (Hd & _ & _) & Hcde) & Hbcde) & _).
  repeat split; auto. intros x y Hx Hy. apply Hbcde; auto. apply in_or_app. right. apply in_or_app. now left.
Qed.

Lemma forall_wf_ordered v : wf_version v -> forall lv, In lv (ordered_levels v) -> Forall (fun g => wf_fileb g = true) lv.
Proof.
  intros Hw lv Hlv. destruct (wf_version_levels v Hw) as [Hf _].
  rewrite Forall_forall in Hf. destruct v as [|l0 r]; [destruct Hlv|].
  destruct Hlv as [<-|Hlv].
  - specialize (Hf l0 (or_introl eq_refl)). rewrite Forall_forall in *. intros g Hg. apply Hf. now apply in_l0_order.
  - apply Hf. now right.
Qed.

Lemma in_firstn {A} n (l : list A) x : In x (firstn n l) -> In x l.
Proof. intros H. rewrite <- (firstn_skipn n l). apply in_or_app. now left. Qed.
Lemma in_skipn {A} n (l : list A) x : In x (skipn n l) -> In x l.
Proof. intros H. rewrite <- (firstn_skipn n l). apply in_or_app. now right. Qed.

(* ---------- the theorem ---------- *)
Theorem compaction_preserves_kview s c outs : wf_version (ver s) -> Ordered s ->
  valid_compactionb (ver s) c = true -> outputs_okb (ver s) c outs = true ->
  forall k, kview (compact s c outs) k = kview s k.
Proof.
  intros Hw Ho Hv Hout k.
  unfold valid_compactionb, vc_shape, vc_slice, vc_rest, vc_range, vc_closed, vc_ids in Hv.
  repeat (apply andb_prop in Hv; destruct Hv as [Hv ?]).
  rename H into Hids, H0 into Hclosed, H1 into Hrange, H2 into Hrest, H3 into Hslice, H4 into Hlbub, H5 into Hfl.
  apply Nat.ltb_lt in Hv. rename Hv into Hlt.
  match goal with H : (_ <? length _)%nat = true |- _ => apply Nat.ltb_lt in H; rename H into Hlen end.
  apply Nat.leb_le in Hlbub.
  unfold outputs_okb in Hout. apply andb_prop in Hout. destruct Hout as [Hout _].
  apply entries_eqb_eq in Hout.
  set (v := ver s) in *. set (ov := ordered_levels v).
  set (lo := clower c) in *. set (up := cupper c) in *.
  set (u := upper_level v c) in *. set (lb := lower_bound u (cfirst c)) in *. set (ub := upper_bound u (clast c)) in *.
  set (inp := is_input c) in *.
  set (Mls := firstn (up - lo) (skipn lo ov)).
  assert (HM : mid_files v c = concat Mls) by reflexivity.
  set (M := mid_files v c) in *.
  assert (Hu : u = nth up ov []) by (unfold u, upper_level, ov; rewrite nth_ordered_levels; [reflexivity|lia]).
  (* decomposition of the old and new file lists *)
  assert (Hold : flat v = concat (firstn lo ov) ++ M ++ u ++ concat (skipn (S up) ov)).
  { rewrite flat_ordered_levels. fold ov.
    rewrite (split_levels lo up ov []) at 1; [|lia|unfold ov; rewrite length_ordered_levels; lia].
    rewrite !concat_app. cbn [concat]. rewrite app_nil_r, <- Hu, HM. reflexivity. }
  assert (Hnew : flat (apply_compaction v c outs) =
                 concat (firstn lo ov) ++ filter (fun f => negb (inp f)) M ++ (firstn lb u ++ outs ++ skipn ub u) ++ concat (skipn (S up) ov)).
  { rewrite flat_ordered_levels, ordered_levels_apply by assumption.
    fold ov lo up. rewrite !concat_app. cbn [concat]. rewrite app_nil_r, HM, filter_concat. reflexivity. }
  unfold kview, compact. cbn [mem ver]. fold v. f_equal.
  change (K k (flat (apply_compaction v c outs)) = K k (flat v)).
  rewrite Hold, Hnew, !K_app. f_equal.
  (* wf of the files involved *)
  assert (HwM : Forall (fun f => wf_fileb f = true) M).
  { rewrite HM. apply Forall_forall. intros f Hf. apply in_concat in Hf. destruct Hf as (lv & Hlv & Hf).
    assert (Hlv' : In lv ov) by (apply in_skipn with (n := lo); apply in_firstn with (n := (up - lo)%nat); exact Hlv).
    pose proof (forall_wf_ordered v Hw lv Hlv') as F. rewrite Forall_forall in F. auto. }
  assert (Hwu : Forall (fun f => wf_fileb f = true) u).
  { apply (forall_wf_ordered v Hw). rewrite Hu. apply nth_In. unfold ov. rewrite length_ordered_levels. lia. }
  (* u = pre ++ slice ++ post *)
  set (sl := upper_slice v c) in *.
  assert (Hsplit : u = firstn lb u ++ sl ++ skipn ub u).
  { unfold sl, upper_slice, slice. fold u lb ub.
    rewrite <- (firstn_skipn lb u) at 1. f_equal.
    rewrite <- (firstn_skipn (ub - lb) (skipn lb u)) at 1. f_equal.
    rewrite skipn_skipn'. f_equal. lia. }
  assert (HKu : K k u = K k (firstn lb u) ++ K k sl ++ K k (skipn ub u)) by (rewrite Hsplit at 1; rewrite !K_app; reflexivity).
  rewrite HKu.
  (* closure gives the split of M *)
  pose proof (closed_split (kf k) inp M (closed_overlap_closedK k inp M HwM Hclosed)) as HMsplit.
  fold (K k M) in HMsplit. fold (K k (filter (fun x => negb (inp x)) M)) in HMsplit. fold (K k (filter inp M)) in HMsplit.
  rewrite HMsplit.
  (* the outputs hold, for k, exactly the inputs' versions of k *)
  assert (Hslin : filter inp sl = sl).
  { clear -Hslice. rewrite forallb_forall in Hslice. induction sl as [|f r IH]; cbn; [reflexivity|].
    rewrite (Hslice f (or_introl eq_refl)). f_equal. apply IH. intros g Hg. apply Hslice. now right. }
  assert (HE : kfilter k (input_entries v c) = K k (filter inp M) ++ K k sl).
  { unfold input_entries, input_files. fold M sl inp. rewrite kfilter_flat_map, filter_app, Hslin. apply K_app. }
  assert (Hdesc : desc_ts (K k (filter inp M) ++ K k sl)).
  { specialize (Ho k). unfold kview in Ho. apply desc_ts_app in Ho. destruct Ho as (_ & Ho & _).
    change (desc_ts (K k (flat (ver s)))) in Ho. fold v in Ho. rewrite Hold, !K_app, HMsplit in Ho.
    rewrite HKu in Ho.
    rewrite <- !app_assoc in Ho.
    apply desc_ts_app in Ho. destruct Ho as (_ & Ho & _).
    apply desc_ts_app in Ho. destruct Ho as (_ & Ho & _).
    (* Ho : desc (K inpM ++ K pre ++ K sl ++ K post ++ K D) *)
    apply (desc_ts_pick [] (K k (filter inp M)) (K k (firstn lb u)) (K k sl) (K k (skipn ub u) ++ K k (concat (skipn (S up) ov)))).
    cbn [app]. rewrite <- !app_assoc in *. exact Ho. }
  assert (HKouts : K k outs = K k (filter inp M) ++ K k sl).
  { unfold K at 1. rewrite <- kfilter_flat_map, Hout, kfilter_sort_entries; rewrite HE; [reflexivity|exact Hdesc]. }
  rewrite HKouts, <- !app_assoc. f_equal.
  (* either no input of the middle levels holds k, or k lies in [first,last] and the files before
     the slice hold nothing of k *)
  destruct (K k (filter inp M)) as [|e es] eqn:EM; [reflexivity|].
  assert (Hpre : K k (firstn lb u) = []).
  { (* some input f of M holds k *)
    assert (Hex : exists f, In f M /\ inp f = true /\ kf k f <> []).
    { clear -EM. unfold K in EM. induction M as [|f r IH]; cbn in EM; [discriminate|].
      destruct (inp f) eqn:E; cbn in EM.
      - destruct (kf k f) eqn:G.
        + destruct (IH EM) as (g & Hg & Hi & Hk). exists g. split; [now right|auto].
        + exists f. split; [now left|]. split; [exact E|]. rewrite G. discriminate.
      - destruct (IH EM) as (g & Hg & Hi & Hk). exists g. split; [now right|auto]. }
    destruct Hex as (f & HfM & Hfi & Hfk).
    rewrite Forall_forall in HwM.
    destruct (kf_nonempty_between k f (HwM f HfM) Hfk) as [F1 F2].
    rewrite forallb_forall in Hrange. specialize (Hrange f (in_or_app _ _ _ (or_introl HfM))).
    fold inp in Hrange. rewrite Hfi in Hrange. cbn in Hrange. apply andb_prop in Hrange. destruct Hrange as [R1 R2].
    assert (Hck : key_leb (cfirst c) k = true) by (eapply key_leb_trans; eauto).
    unfold K. apply flat_map_nil_all. intros g Hg.
    pose proof (partition_point_firstn (fun f0 => key_ltb (last_key f0) (cfirst c)) u) as PP.
    fold (lower_bound u (cfirst c)) in PP. fold lb in PP. rewrite Forall_forall in PP. specialize (PP g Hg). cbn in PP.
    rewrite Forall_forall in Hwu. apply kf_nil_above; [apply Hwu; eapply in_firstn; eauto|].
    eapply key_ltb_leb_trans; eauto. }
  rewrite Hpre. cbn [app]. reflexivity.
Qed.
