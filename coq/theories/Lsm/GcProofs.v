(* Lsm/GcProofs.v — the shape of a key's view across any admissible compaction, and garbage
   collection at the top level: dropping entries the policy permits never changes what a point
   read shows. *)
From Coq Require Import NArith List Bool Lia Arith Permutation.
From Blue Require Import Lsm.Model Lsm.KeyOrder Lsm.LoadProofs Lsm.Ordered Lsm.ListLemmas Lsm.SortLemmas Lsm.CompactProofs.
Import ListNotations.
Open Scope N_scope.

Arguments N.leb : simpl never.
Arguments N.ltb : simpl never.

(* files from upper_bound on start after the key *)
Lemma after_upper_bound k lv : Forall (fun g => wf_fileb g = true) lv -> level_sortedb lv = true ->
  forall g, In g (skipn (upper_bound lv k) lv) -> key_leb (first_key g) k = false.
Proof.
  unfold upper_bound. induction lv as [|f r IH]; intros Hw Hs g Hg; [destruct Hg|].
  inversion Hw as [|? ? Hwf Hwr]; subst. cbn [partition_point] in Hg.
  destruct (key_leb (first_key f) k) eqn:E.
  - cbn [skipn] in Hg. apply IH; [assumption|eapply level_sorted_tail; eauto|assumption].
  - cbn [skipn] in Hg. destruct Hg as [<-|Hg]; [exact E|].
    pose proof (level_first_mono f r Hw Hs g Hg) as H1.
    destruct (key_leb (first_key g) k) eqn:E2; [|reflexivity].
    pose proof (key_leb_trans _ _ _ (file_first_le_last f Hwf) H1) as H2.
    pose proof (key_leb_trans _ _ _ H2 E2) as C. congruence.
Qed.

Definition J (s : store) (c : compaction) (k : key) : list entry :=
  K k (filter (is_input c) (mid_files (ver s) c)) ++ K k (upper_slice (ver s) c).

(* Across ANY admissible compaction (whatever the outputs are), the view of a key changes only in
   one contiguous segment: the versions held by the inputs (J) are replaced by the versions held
   by the outputs.  At the top level nothing follows that segment. *)
Lemma compaction_shape s c outs k : wf_version (ver s) -> valid_compactionb (ver s) c = true ->
  exists A B, kview s k = A ++ J s c k ++ B /\ kview (compact s c outs) k = A ++ K k outs ++ B /\
              (J s c k <> [] -> S (cupper c) = length (ver s) -> B = []).
Proof.
  intros Hw Hv.
  unfold valid_compactionb, vc_shape, vc_slice, vc_rest, vc_range, vc_closed, vc_ids in Hv.
  repeat (apply andb_prop in Hv; destruct Hv as [Hv ?]).
  rename H into Hids, H0 into Hclosed, H1 into Hrange, H2 into Hrest, H3 into Hslice, H4 into Hlbub, H5 into Hfl.
  apply Nat.ltb_lt in Hv. rename Hv into Hlt.
  match goal with H : (_ <? length _)%nat = true |- _ => apply Nat.ltb_lt in H; rename H into Hlen end.
  apply Nat.leb_le in Hlbub.
  unfold J.
  set (v := ver s) in *. set (ov := ordered_levels v).
  set (lo := clower c) in *. set (up := cupper c) in *.
  set (u := upper_level v c) in *. set (lb := lower_bound u (cfirst c)) in *. set (ub := upper_bound u (clast c)) in *.
  set (inp := is_input c) in *.
  set (Mls := firstn (up - lo) (skipn lo ov)).
  assert (HM : mid_files v c = concat Mls) by reflexivity.
  set (M := mid_files v c) in *.
  assert (Hu : u = nth up ov []) by (unfold u, upper_level, ov; rewrite nth_ordered_levels; [reflexivity|lia]).
  assert (Hold : flat v = concat (firstn lo ov) ++ M ++ u ++ concat (skipn (S up) ov)).
  { rewrite flat_ordered_levels. fold ov.
    rewrite (split_levels lo up ov []) at 1; [|lia|unfold ov; rewrite length_ordered_levels; lia].
    rewrite !concat_app. cbn [concat]. rewrite app_nil_r, <- Hu, HM. reflexivity. }
  assert (Hnew : flat (apply_compaction v c outs) =
                 concat (firstn lo ov) ++ filter (fun f => negb (inp f)) M ++ (firstn lb u ++ outs ++ skipn ub u) ++ concat (skipn (S up) ov)).
  { rewrite flat_ordered_levels, ordered_levels_apply by assumption.
    fold ov lo up. rewrite !concat_app. cbn [concat]. rewrite app_nil_r, HM, filter_concat. reflexivity. }
  assert (HwM : Forall (fun f => wf_fileb f = true) M).
  { rewrite HM. apply Forall_forall. intros f Hf. apply in_concat in Hf. destruct Hf as (lv & Hlv & Hf).
    assert (Hlv' : In lv ov) by (apply in_skipn with (n := lo); apply in_firstn with (n := (up - lo)%nat); exact Hlv).
    pose proof (forall_wf_ordered v Hw lv Hlv') as F. rewrite Forall_forall in F. auto. }
  assert (Hwu : Forall (fun f => wf_fileb f = true) u).
  { apply (forall_wf_ordered v Hw). rewrite Hu. apply nth_In. unfold ov. rewrite length_ordered_levels. lia. }
  assert (Hsu : level_sortedb u = true).
  { destruct (wf_version_levels v Hw) as [_ Hs]. rewrite Forall_forall in Hs. apply Hs.
    unfold u, upper_level. fold up. destruct v as [|l0 r]; [cbn in Hlen; lia|].
    destruct up as [|up']; [lia|]. cbn [tl nth]. apply nth_In. cbn in Hlen. lia. }
  set (sl := upper_slice v c) in *.
  assert (Hsplit : u = firstn lb u ++ sl ++ skipn ub u).
  { unfold sl, upper_slice, slice. fold u lb ub.
    rewrite <- (firstn_skipn lb u) at 1. f_equal.
    rewrite <- (firstn_skipn (ub - lb) (skipn lb u)) at 1. f_equal.
    rewrite skipn_skipn'. f_equal. lia. }
  assert (HKu : K k u = K k (firstn lb u) ++ K k sl ++ K k (skipn ub u)) by (rewrite Hsplit at 1; rewrite !K_app; reflexivity).
  pose proof (closed_split (kf k) inp M (closed_overlap_closedK k inp M HwM Hclosed)) as HMsplit.
  fold (K k M) in HMsplit. fold (K k (filter (fun x => negb (inp x)) M)) in HMsplit. fold (K k (filter inp M)) in HMsplit.
  (* if some input holds k then cfirst <= k <= clast *)
  assert (Hin_range : forall f, In f (M ++ u) -> inp f = true -> kf k f <> [] ->
                      key_leb (cfirst c) k = true /\ key_leb k (clast c) = true).
  { intros f Hf Hfi Hfk.
    assert (Hwf : wf_fileb f = true).
    { apply in_app_or in Hf. rewrite Forall_forall in HwM, Hwu. destruct Hf; auto. }
    destruct (kf_nonempty_between k f Hwf Hfk) as [F1 F2].
    rewrite forallb_forall in Hrange. specialize (Hrange f Hf). fold inp in Hrange. rewrite Hfi in Hrange.
    cbn in Hrange. apply andb_prop in Hrange. destruct Hrange as [R1 R2].
    split; eapply key_leb_trans; eauto. }
  assert (Hex : forall fs, K k (filter inp fs) <> [] -> exists f, In f fs /\ inp f = true /\ kf k f <> []).
  { intros fs. unfold K. induction fs as [|f r IH]; cbn; [congruence|].
    destruct (inp f) eqn:E; cbn.
    - destruct (kf k f) eqn:G.
      + cbn. intros H. destruct (IH H) as (g & Hg & Hi & Hk). exists g. split; [now right|auto].
      + intros _. exists f. split; [now left|]. split; [exact E|]. rewrite G. discriminate.
    - intros H. destruct (IH H) as (g & Hg & Hi & Hk). exists g. split; [now right|auto]. }
  assert (Hslin : filter inp sl = sl).
  { clear -Hslice. rewrite forallb_forall in Hslice. induction sl as [|f r IH]; cbn; [reflexivity|].
    rewrite (Hslice f (or_introl eq_refl)). f_equal. apply IH. intros g Hg. apply Hslice. now right. }
  assert (Hpre : K k (filter inp M) <> [] -> K k (firstn lb u) = []).
  { intros HJ. destruct (Hex M HJ) as (f & HfM & Hfi & Hfk).
    destruct (Hin_range f (in_or_app _ _ _ (or_introl HfM)) Hfi Hfk) as [Hck _].
    unfold K. apply flat_map_nil_all. intros g Hg.
    pose proof (partition_point_firstn (fun f0 => key_ltb (last_key f0) (cfirst c)) u) as PP.
    fold (lower_bound u (cfirst c)) in PP. fold lb in PP. rewrite Forall_forall in PP. specialize (PP g Hg). cbn in PP.
    rewrite Forall_forall in Hwu. apply kf_nil_above; [apply Hwu; eapply in_firstn; eauto|].
    eapply key_ltb_leb_trans; eauto. }
  assert (Hpost : K k (filter inp M) ++ K k sl <> [] -> K k (skipn ub u) = []).
  { intros HJ.
    assert (Hk : key_leb k (clast c) = true).
    { destruct (K k (filter inp M)) eqn:EM.
      - cbn in HJ. rewrite <- Hslin in HJ. destruct (Hex sl HJ) as (f & Hf & Hfi & Hfk).
        assert (Hfu : In f (M ++ u)).
        { apply in_or_app. right. rewrite Hsplit. apply in_or_app. right. apply in_or_app. now left. }
        destruct (Hin_range f Hfu Hfi Hfk) as [_ H2]. exact H2.
      - assert (HJ' : K k (filter inp M) <> []) by (rewrite EM; discriminate).
        destruct (Hex M HJ') as (f & HfM & Hfi & Hfk).
        destruct (Hin_range f (in_or_app _ _ _ (or_introl HfM)) Hfi Hfk) as [_ H2]. exact H2. }
    unfold K. apply flat_map_nil_all. intros g Hg.
    pose proof (after_upper_bound (clast c) u Hwu Hsu g Hg) as Hgt.
    rewrite Forall_forall in Hwu. apply kf_nil_below; [apply Hwu; eapply in_skipn; eauto|].
    destruct (key_leb (first_key g) k) eqn:E; [|reflexivity].
    pose proof (key_leb_trans _ _ _ E Hk). congruence. }
  (* assemble *)
  destruct (K k (filter inp M)) as [|e es] eqn:EM.
  - exists (kfilter k (mem s) ++ K k (concat (firstn lo ov)) ++ K k (filter (fun x => negb (inp x)) M) ++ K k (firstn lb u)),
           (K k (skipn ub u) ++ K k (concat (skipn (S up) ov))).
    split; [|split].
    + unfold kview. fold v. change (flat_map (fun f => kfilter k (fents f)) (flat v)) with (K k (flat v)).
      rewrite Hold, !K_app, HKu, HMsplit. cbn [app]. rewrite ?app_nil_r, <- ?app_assoc. reflexivity.
    + unfold kview, compact. cbn [mem ver]. fold v.
      change (flat_map (fun f => kfilter k (fents f)) (flat (apply_compaction v c outs))) with (K k (flat (apply_compaction v c outs))).
      rewrite Hnew, !K_app. rewrite <- !app_assoc. reflexivity.
    + cbn [app]. intros HJ Htop. rewrite Hpost by (cbn [app]; exact HJ). cbn [app].
      replace (skipn (S up) ov) with (@nil level); [reflexivity|].
      symmetry. apply skipn_all2. unfold ov. rewrite length_ordered_levels. fold v in Htop. lia.
  - assert (HJ' : e :: es <> []) by discriminate.
    exists (kfilter k (mem s) ++ K k (concat (firstn lo ov)) ++ K k (filter (fun x => negb (inp x)) M)),
           (K k (skipn ub u) ++ K k (concat (skipn (S up) ov))).
    split; [|split].
    + unfold kview. fold v. change (flat_map (fun f => kfilter k (fents f)) (flat v)) with (K k (flat v)).
      rewrite Hold, !K_app, HKu, HMsplit, (Hpre HJ'). cbn [app]. rewrite <- !app_assoc. reflexivity.
    + unfold kview, compact. cbn [mem ver]. fold v.
      change (flat_map (fun f => kfilter k (fents f)) (flat (apply_compaction v c outs))) with (K k (flat (apply_compaction v c outs))).
      rewrite Hnew, !K_app, (Hpre HJ'). cbn [app]. rewrite <- !app_assoc. reflexivity.
    + intros _ Htop. rewrite Hpost by discriminate. cbn [app].
      replace (skipn (S up) ov) with (@nil level); [reflexivity|].
      symmetry. apply skipn_all2. unfold ov. rewrite length_ordered_levels. fold v in Htop. lia.
Qed.

(* ------------------------------------------------------------------ subsequences *)
Inductive subseq : list entry -> list entry -> Prop :=
| sub_nil : forall l, subseq [] l
| sub_skip : forall a y b, subseq a b -> subseq a (y :: b)
| sub_take : forall x a b, subseq a b -> subseq (x :: a) (x :: b).

Lemma entry_eqb_eq' a b : entry_eqb a b = true -> a = b.
Proof.
  unfold entry_eqb. intros H. apply andb_prop in H. destruct H as [H Hv]. apply andb_prop in H. destruct H as [Hk Ht].
  destruct a as [ka ta va], b as [kb tb vb]; cbn in *.
  apply key_eqb_eq in Hk. apply N.eqb_eq in Ht. subst. f_equal.
  destruct va, vb; try discriminate; [|reflexivity]. f_equal. now apply key_eqb_eq.
Qed.

Lemma subseqb_sound b : forall a, subseqb a b = true -> subseq a b.
Proof.
  induction b as [|y b IH]; intros [|x a]; cbn [subseqb]; intros H.
  - apply sub_nil.
  - discriminate.
  - apply sub_nil.
  - destruct (entry_eqb x y) eqn:E.
    + apply entry_eqb_eq' in E. subst. apply sub_take. now apply IH.
    + apply sub_skip. now apply IH.
Qed.

Lemma subseq_filter p a b : subseq a b -> subseq (filter p a) (filter p b).
Proof.
  induction 1 as [l|a y b _ IH|x a b _ IH]; cbn [filter].
  - constructor.
  - destruct (p y); [now apply sub_skip|exact IH].
  - destruct (p x); [now apply sub_take|exact IH].
Qed.

Lemma subseq_in a b : subseq a b -> forall x, In x a -> In x b.
Proof.
  induction 1 as [l|a y b _ IH|x a b _ IH]; intros z Hz; [destruct Hz|right; auto|].
  destruct Hz as [<-|Hz]; [now left|right; auto].
Qed.

Lemma subseq_desc a b : subseq a b -> desc_ts b -> desc_ts a.
Proof.
  induction 1 as [l|a y b _ IH|x a b Hs IH]; cbn [desc_ts]; intros Hd; [exact I|apply IH; tauto|].
  destruct Hd as [Hx Hd]. split; [|auto]. intros y Hy. apply Hx. eapply subseq_in; eauto.
Qed.

Lemma subseq_nil_r a : subseq a [] -> a = [].
Proof. inversion 1; reflexivity. Qed.

(* a subsequence of a strictly descending list that contains its head starts with it *)
Lemma subseq_head e r a : desc_ts (e :: r) -> subseq a (e :: r) -> In e a -> exists a', a = e :: a'.
Proof.
  intros Hd Hs Hin. inversion Hs as [l|a0 y b Hs'|x a0 b Hs']; subst.
  - destruct Hin.
  - exfalso. cbn [desc_ts] in Hd. destruct Hd as [Hx _].
    pose proof (subseq_in _ _ Hs' e Hin) as Hr. specialize (Hx e Hr). lia.
  - eauto.
Qed.

Lemma desc_mid_subseq A J' J0 B : desc_ts (A ++ J0 ++ B) -> subseq J' J0 -> desc_ts (A ++ J' ++ B).
Proof.
  rewrite !desc_ts_app. intros (HA & (HJ & HB & HJB) & HAJB) Hs. repeat split; auto.
  - eapply subseq_desc; eauto.
  - intros x y Hx Hy. apply HJB; auto. eapply subseq_in; eauto.
  - intros x y Hx Hy. apply HAJB; auto. apply in_app_or in Hy. apply in_or_app.
    destruct Hy as [Hy|Hy]; [left; eapply subseq_in; eauto|now right].
Qed.

Lemma hd_filter_find {A} (p : A -> bool) (l : list A) : hd_error (filter p l) = find p l.
Proof. induction l as [|x l IH]; cbn; [reflexivity|]. destruct (p x); [reflexivity|exact IH]. Qed.

Definition hd_value (l : list entry) : option (list N) := match l with e :: _ => ev e | [] => None end.

(* ------------------------------------------------------------------ garbage collection *)
Lemma input_view s c k : kfilter k (input_entries (ver s) c) =
  K k (filter (is_input c) (mid_files (ver s) c)) ++ K k (filter (is_input c) (upper_slice (ver s) c)).
Proof.
  unfold input_entries, input_files. rewrite kfilter_flat_map, filter_app.
  fold (K k (filter (is_input c) (mid_files (ver s) c) ++ filter (is_input c) (upper_slice (ver s) c))).
  apply K_app.
Qed.

Theorem gc_preserves_reads s c outs k : wf_version (ver s) -> Ordered s ->
  valid_compactionb (ver s) c = true -> S (cupper c) = length (ver s) ->
  gc_outputs_okb (ver s) c outs = true ->
  hd_value (kview (compact s c outs) k) = hd_value (kview s k) /\
  desc_ts (kview (compact s c outs) k) /\
  (forall e, In e (kview (compact s c outs) k) -> In e (kview s k)).
Proof.
  intros Hw Ho Hv Htop Hgc.
  destruct (compaction_shape s c outs k Hw Hv) as (A & B & Hold & Hnew & HB).
  (* the slice files are all inputs, so J is the input view *)
  assert (Hsl : filter (is_input c) (upper_slice (ver s) c) = upper_slice (ver s) c).
  { unfold valid_compactionb, vc_slice in Hv. repeat (apply andb_prop in Hv; destruct Hv as [Hv ?]).
    match goal with H : forallb (is_input c) (upper_slice (ver s) c) = true |- _ => rename H into Hslice end.
    rewrite forallb_forall in Hslice. clear -Hslice.
    induction (upper_slice (ver s) c) as [|f r IH]; cbn; [reflexivity|].
    rewrite (Hslice f (or_introl eq_refl)). f_equal. apply IH. intros g Hg. apply Hslice. now right. }
  assert (HJ : kfilter k (input_entries (ver s) c) = J s c k).
  { rewrite input_view, Hsl. reflexivity. }
  pose proof (Ho k) as Hd. rewrite Hold in Hd.
  assert (HdJ : desc_ts (J s c k)).
  { apply desc_ts_app in Hd. destruct Hd as (_ & Hd & _). apply desc_ts_app in Hd. tauto. }
  unfold gc_outputs_okb in Hgc. apply andb_prop in Hgc. destruct Hgc as [Hgc _].
  apply andb_prop in Hgc. destruct Hgc as [Hsub Hheads].
  set (E := sort_entries (input_entries (ver s) c)) in *.
  set (O := flat_map fents outs) in *.
  assert (HKO : K k outs = kfilter k O) by (unfold O; now rewrite kfilter_flat_map).
  assert (HkE : kfilter k E = J s c k).
  { unfold E. rewrite kfilter_sort_entries; [exact HJ|]. rewrite HJ. exact HdJ. }
  assert (Hss : subseq (K k outs) (J s c k)).
  { rewrite HKO, <- HkE. apply subseq_filter. now apply subseqb_sound. }
  rewrite Hnew, Hold. split; [|split].
  - destruct A as [|a A']; [|reflexivity]. cbn [app].
    destruct (J s c k) as [|e r] eqn:EJ.
    + apply subseq_nil_r in Hss. now rewrite Hss.
    + rewrite (HB ltac:(discriminate) Htop), !app_nil_r.
      (* e is the first entry of key k in E *)
      assert (He : find (fun x => key_eqb (ek x) k) E = Some e).
      { rewrite <- hd_filter_find. fold (kfilter k E). rewrite HkE. reflexivity. }
      assert (HeE : In e E) by (apply find_some in He; tauto).
      assert (Hek : ek e = k) by (apply find_some in He; destruct He as [_ He]; now apply key_eqb_eq).
      unfold gc_heads_okb in Hheads. rewrite forallb_forall in Hheads. specialize (Hheads e HeE).
      rewrite Hek, He in Hheads. cbn [shown] in Hheads.
      rewrite HKO.
      assert (Hhd : hd_value (kfilter k O) = shown (find (fun x => key_eqb (ek x) k) O)).
      { unfold kfilter. rewrite <- hd_filter_find. destruct (filter _ O); reflexivity. }
      rewrite Hhd. cbn [hd_value].
      destruct (ev e) as [v|], (shown (find (fun x => key_eqb (ek x) k) O)) as [w|]; cbn in Hheads; try discriminate; [|reflexivity].
      apply key_eqb_eq in Hheads. now subst.
  - eapply desc_mid_subseq; eauto.
  - intros x Hx. apply in_app_or in Hx. apply in_or_app. destruct Hx as [Hx|Hx]; [now left|right].
    apply in_app_or in Hx. apply in_or_app. destruct Hx as [Hx|Hx]; [left; eapply subseq_in; eauto|now right].
Qed.
