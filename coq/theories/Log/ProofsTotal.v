(* Log/ProofsTotal.v — the reader is total on ARBITRARY bytes: read_log never runs out of fuel
   (the fuel of the model is not a restriction), returns at most one entry per input byte, and
   every successful next() strictly consumes input. *)
From Coq Require Import NArith ZArith List Bool Lia Arith PeanoNat.
From Blue Require Import Gen.Const_Log Log.ModelWire Log.Model Log.ProofsWire.
Import ListNotations.
Open Scope N_scope.

Arguments N.add : simpl never.
Arguments N.sub : simpl never.
Arguments N.mul : simpl never.
Arguments N.leb : simpl never.
Arguments N.ltb : simpl never.
Arguments N.eqb : simpl never.
Arguments N.of_nat : simpl never.
Arguments N.pow : simpl never.
Arguments N.shiftl : simpl never.
Arguments N.shiftr : simpl never.

Lemma take_exact_length : forall l n a r, take_exact l n = Some (a, r) -> length l = (length a + length r)%nat.
Proof. intros l n a r H. apply take_exact_some in H. destruct H as [-> _]. apply app_length. Qed.

Lemma parse_tag_shorter : forall l f w r, parse_tag l = Some (f, w, r) -> (length r < length l)%nat.
Proof.
  intros l f w r H. unfold parse_tag in H.
  destruct (unvarint l) as [[t r']|] eqn:U; [|discriminate].
  apply unvarint_shorter in U.
  destruct (W32 <=? t); [discriminate|].
  destruct (field_number_ok (t / 8)); [|discriminate].
  destruct (wire_of (t mod 8)); [|discriminate].
  inversion H; subst. exact U.
Qed.

Lemma parse_kve_shorter : forall l b k rem, parse_kve l = Some (b, k, rem) -> (length rem < length l)%nat.
Proof.
  intros l b k rem H. unfold parse_kve in H.
  destruct (parse_tag l) as [[[num w] r]|] eqn:T; [|discriminate].
  apply parse_tag_shorter in T.
  destruct w; try discriminate.
  destruct ((num =? 8) || (num =? 9)); [|discriminate].
  destruct (unvarint r) as [[n r1]|] eqn:U; [|discriminate].
  apply unvarint_shorter in U.
  destruct (take_exact r1 n) as [[body rem']|] eqn:X; [|discriminate].
  apply take_exact_length in X.
  destruct (parse_kv_go _ _ _ body kv0); [|discriminate].
  inversion H; subst. lia.
Qed.

Section Total.
  Variable bits : N.
  Variable crc : list N -> N.

  Definition mu (st : rstate) : nat := (length (r_rest st) + length (r_pend st))%nat.

  Lemma r_true_up_len : forall pos rest pos2 rest2,
    r_true_up bits pos rest = Some (pos2, rest2) -> (length rest2 <= length rest)%nat.
  Proof.
    intros pos rest pos2 rest2 H. unfold r_true_up in H.
    destruct (HEADER_MAX_SIZE <? compute_true_up bits pos - pos); [discriminate|].
    inversion H; subst. apply drop_length.
  Qed.

  Lemma next_header_some : forall f pos rest h pos' rest',
    next_header bits f pos rest = HSome h pos' rest' -> (length rest' < length rest)%nat.
  Proof.
    induction f as [|f IH]; intros pos rest h pos' rest' H; cbn [next_header] in H; [discriminate|].
    destruct rest as [|b rest1]; [discriminate|].
    destruct (b =? 0).
    - destruct (r_true_up bits (pos + 1) rest1) as [[pos2 rest2]|] eqn:T; [|discriminate].
      apply r_true_up_len in T. apply IH in H. cbn [length]. lia.
    - destruct (HEADER_MAX_SIZE <? b); [discriminate|].
      destruct (take_exact rest1 b) as [[hb rest2]|] eqn:X; [|discriminate].
      apply take_exact_length in X.
      destruct (parse_header hb); [|discriminate].
      destruct (TABLE_FULL_SIZE <? h_size h0); [discriminate|].
      inversion H; subst. cbn [length]. lia.
  Qed.

  Lemma next_header_no_fuel : forall f pos rest,
    (length rest < f)%nat -> next_header bits f pos rest <> HFuel.
  Proof.
    induction f as [|f IH]; intros pos rest H; [inversion H|].
    cbn [next_header]. destruct rest as [|b rest1]; [discriminate|].
    destruct (b =? 0).
    - destruct (r_true_up bits (pos + 1) rest1) as [[pos2 rest2]|] eqn:T; [|discriminate].
      apply r_true_up_len in T. cbn [length] in H. apply IH. lia.
    - destruct (HEADER_MAX_SIZE <? b); [discriminate|].
      destruct (take_exact rest1 b) as [[hb rest2]|]; [|discriminate].
      destruct (parse_header hb); [|discriminate].
      destruct (TABLE_FULL_SIZE <? h_size h); discriminate.
  Qed.

  Lemma next_frame_some : forall hf pos rest buf h pos' rest' buf',
    next_frame bits crc hf pos rest buf = FrSome h pos' rest' buf' ->
    exists body, buf' = buf ++ body /\ (length rest' + length body < length rest)%nat.
  Proof.
    intros hf pos rest buf h pos' rest' buf' H. unfold next_frame in H.
    destruct (next_header bits hf pos rest) as [| | |h1 pos1 rest1] eqn:NH; try discriminate.
    apply next_header_some in NH.
    destruct (take_exact rest1 (h_size h1)) as [[body rest2]|] eqn:X; [|discriminate].
    apply take_exact_length in X.
    destruct (crc32 crc body =? h_crc h1); [|discriminate].
    inversion H; subst. exists body. split; [reflexivity|lia].
  Qed.

  Lemma next_frame_no_fuel : forall hf pos rest buf,
    (length rest < hf)%nat -> next_frame bits crc hf pos rest buf <> FrFuel.
  Proof.
    intros hf pos rest buf H. unfold next_frame.
    pose proof (next_header_no_fuel hf pos rest H) as NF.
    destruct (next_header bits hf pos rest) as [| | |h1 pos1 rest1]; try discriminate; [contradiction|].
    destruct (take_exact rest1 (h_size h1)) as [[body rest2]|]; [|discriminate].
    destruct (crc32 crc body =? h_crc h1); discriminate.
  Qed.

  Lemma next_from_buffer_progress : forall pos rest pend,
    match next_from_buffer pos rest pend with
    | NEntry e st1 => r_rest st1 = rest /\ (length (r_pend st1) < length pend)%nat
    | NFuel => False
    | _ => True
    end.
  Proof.
    intros pos rest pend. unfold next_from_buffer.
    destruct pend as [|x pend']; [exact I|].
    destruct (parse_kve (x :: pend')) as [[[isput k] rem]|] eqn:P; [|exact I].
    apply parse_kve_shorter in P.
    destruct (kv_shared k =? 0); [|exact I].
    cbn [r_rest r_pend]. split; [reflexivity|exact P].
  Qed.

  (* every successful next() consumes: the measure drops, the input never grows *)
  Lemma next_progress : forall hf st,
    (length (r_rest st) < hf)%nat ->
    match next bits crc hf st with
    | NEntry e st1 => (mu st1 < mu st)%nat /\ (length (r_rest st1) <= length (r_rest st))%nat
    | NFuel => False
    | _ => True
    end.
  Proof.
    intros hf [pos rest pend] Hhf. unfold next, mu. cbn [r_pos r_rest r_pend] in *.
    destruct pend as [|x pend'].
    - pose proof (next_frame_no_fuel hf pos rest [] Hhf) as NF1.
      destruct (next_frame bits crc hf pos rest []) as [| | |h pos1 rest1 buf1] eqn:F1; try exact I; [contradiction|].
      apply next_frame_some in F1. destruct F1 as (body1 & -> & L1). cbn [app] in *.
      destruct (h_disc h =? HEADER_WHOLE).
      + pose proof (next_from_buffer_progress pos1 rest1 body1) as P.
        destruct (next_from_buffer pos1 rest1 body1) as [| | |e st1]; try exact I; [contradiction|].
        destruct P as [-> P2]. cbn [length]. lia.
      + destruct (h_disc h =? HEADER_FIRST); [|exact I].
        destruct (r_true_up bits pos1 rest1) as [[pos2 rest2]|] eqn:T; [|exact I].
        apply r_true_up_len in T.
        pose proof (next_frame_no_fuel hf pos2 rest2 body1 ltac:(lia)) as NF2.
        destruct (next_frame bits crc hf pos2 rest2 body1) as [| | |h2 pos3 rest3 buf3] eqn:F2; try exact I; [contradiction|].
        apply next_frame_some in F2. destruct F2 as (body2 & -> & L2).
        destruct (h_disc h2 =? HEADER_SECOND); [|exact I].
        pose proof (next_from_buffer_progress pos3 rest3 (body1 ++ body2)) as P.
        destruct (next_from_buffer pos3 rest3 (body1 ++ body2)) as [| | |e st1]; try exact I; [contradiction|].
        destruct P as [-> P2]. rewrite app_length in P2. cbn [length]. lia.
    - pose proof (next_from_buffer_progress pos rest (x :: pend')) as P.
      destruct (next_from_buffer pos rest (x :: pend')) as [| | |e st1]; try exact I; [contradiction|].
      destruct P as [-> P2]. lia.
  Qed.

  Lemma read_all_total : forall hf fuel st,
    (length (r_rest st) < hf)%nat -> (mu st < fuel)%nat ->
    exists es r, read_all bits crc hf fuel st = (es, r) /\ r <> RFuel /\ (length es <= mu st)%nat.
  Proof.
    intros hf fuel. induction fuel as [|fuel IH]; intros st Hhf Hmu; [inversion Hmu|].
    cbn [read_all]. pose proof (next_progress hf st Hhf) as P.
    destruct (next bits crc hf st) as [| | |e st1].
    - exists [], REnd. repeat split; [discriminate|apply Nat.le_0_l].
    - exists [], (RErr e). repeat split; [discriminate|apply Nat.le_0_l].
    - contradiction.
    - destruct P as [P1 P2].
      destruct (IH st1 ltac:(lia) ltac:(lia)) as (es & r & E & Hr & Hl).
      rewrite E. exists (e :: es), r. repeat split; [exact Hr|cbn [length]; lia].
  Qed.

  Theorem read_log_total : forall file,
    exists es r, read_log bits crc file = (es, r) /\ r <> RFuel /\ (length es <= length file)%nat.
  Proof.
    intros file. unfold read_log.
    destruct (read_all_total (S (length file)) (S (length file)) (r0 file)) as (es & r & E & Hr & Hl).
    - cbn [r0 r_rest]. apply Nat.lt_succ_diag_r.
    - unfold mu. cbn [r0 r_rest r_pend length]. lia.
    - exists es, r. unfold mu in Hl. cbn [r0 r_rest r_pend length] in Hl. repeat split; [exact E|exact Hr|lia].
  Qed.
End Total.
