(* Log/ModelConcWL.v — ConcurrentLogBuilder::append at the level of sync42's wait list
   (definitions only).

   The machine is two copies of the small-step model of WorkCoalescingQueue::do_work that area
   Sync42 owns (Sync42/ModelWcq.v: threads as program counters, the mutexes `state` and `core`,
   condition variables with spurious wake-ups and an arbitrary notify_one choice, the ring of
   waiters) — instantiated with the two cores of sst/src/log.rs and glued the way
   ConcurrentLogBuilder::append glues them:

       if self.poison.load(Relaxed) { return Err(log_poisoned) }         // ARefuse
       let written = self.write_cq.do_work(Arc::new(write_batch))?;      // queue W; Err => poison
       if !self.fsync_cq.do_work(written) { poison; return Err(..) }      // queue F
       Ok(())

   A thread's call enters W; when its do_work there returns Ok(written) the value becomes the input
   of its next do_work on F (`inject`); a thread does not start its next W call before its F call has
   returned (the guard in cexec).  Nothing about the queues is assumed: no atomic "leader takes a
   prefix" step, no fairness.

   WriteCoalescingCore  (InputAccumulator = WriteBatch):
     can_batch = check_batch_size(acc.buffer.len() + other.buffer.len());  batch = acc.merge(other);
     work      = { written += acc.len; builder.append(&acc); builder.flush() } -> Ok(written) | Err
   FsyncCoalescingCore  (InputAccumulator = u64):
     can_batch as in the source;  batch = max;
     work      = { if synced >= acc { true } else if failed { false }
                   else { ret = fdatasync(fd); if ret { synced = acc } else { failed = true }; ret } }
   Ghost (never read by the program): the accumulators are kept as the lists of the inputs merged
   (the WriteBatch buffer is the concatenation of their encodings, the u64 is their maximum); each
   core logs its work calls; F inputs carry the W index of the call they belong to; the outcome of
   each fdatasync comes from an arbitrary list of booleans (`cf_oracle`; exhausted = success).
   A successful fdatasync makes durable every byte the builder has flushed so far: `k_durable`.
   Since the core never calls fdatasync again after one failed, every successful call is one that no
   failed call preceded: this is the plain meaning of fdatasync, not the Linux behaviour after an
   error (where the failed pages are dropped and a later call succeeds without them). *)
From Coq Require Import NArith List Bool Arith.
From Blue Require Import Gen.Const_Log Log.ModelWire Log.Model Log.ModelConc.
From Blue Require Import Sync42.ModelLru Sync42.ModelWaitList Sync42.ModelWcq.
Import ListNotations.

Section ConcWL.
  Variable bits : N.
  Variable crc : list N -> N.
  Variable rollover : N.

  (* ------------------------------------------------------------------ the write core *)
  Definition inpW := list entry.                       (* Arc<WriteBatch>: the entries it accepted *)
  Definition outW := option N.                         (* Ok(written) | Err *)
  Definition accW := list (list entry).                (* the batches merged so far, in order *)
  Record lw := mkLw { lw_items : list (list entry); lw_n : nat; lw_res : wres; lw_end : N; lw_mark : N }.
  Record cw := mkCw { cw_w : Model.wstate; cw_written : N; cw_log : list lw }.

  Definition accW_buffer (acc : accW) : list N := ebytes_of (concat acc).
  Definition can_batchW (cs : cw) (acc : accW) (i : inpW) : bool :=
    check_batch_size (block_size bits) (len (accW_buffer acc) + len (ebytes_of i))%N.
  Definition batchW (cs : cw) (acc : accW) (i : inpW) : cw * accW := (cs, acc ++ [i]).
  Definition lw_out (e : lw) : outW := match lw_res e with WOk => Some (lw_mark e) | _ => None end.
  Definition workW (cs : cw) (n : nat) (acc : accW) : cw * list outW :=
    let buf := accW_buffer acc in
    let mark := (cw_written cs + len buf)%N in
    let '(r, st') := append bits crc rollover (cw_w cs) buf in
    let e := mkLw acc n r (w_bw st') mark in
    (mkCw st' mark (cw_log cs ++ [e]), repeat (lw_out e) n).
  Definition cw0 : cw := mkCw w0 0%N [].

  (* ------------------------------------------------------------------ the fsync core *)
  Definition inpF := (nat * N)%type.                   (* (W index of the call [ghost], written) *)
  Definition accF := list inpF.                        (* ghost; the u64 accumulator is accval *)
  Record lf := mkLf { lf_items : list inpF; lf_n : nat; lf_acc : N; lf_out : bool; lf_sync : bool }.
  Record cf := mkCf { cf_synced : N; cf_failed : bool; cf_oracle : list bool; cf_log : list lf }.

  Definition accval (acc : accF) : N := fold_left N.max (map snd acc) 0%N.
  Definition can_batchF (cs : cf) (acc : accF) (i : inpF) : bool :=
    f_can_batch (cf_synced cs) (accval acc) (snd i).
  Definition batchF (cs : cf) (acc : accF) (i : inpF) : cf * accF := (cs, acc ++ [i]).
  Definition workF (cs : cf) (n : nat) (acc : accF) : cf * list bool :=
    let a := accval acc in
    if (a <=? cf_synced cs)%N then
      (mkCf (cf_synced cs) (cf_failed cs) (cf_oracle cs) (cf_log cs ++ [mkLf acc n a true false]), repeat true n)
    else if cf_failed cs then
      (* an earlier fdatasync failed: nothing past `synced` is reported durable again (fix be5f137) *)
      (mkCf (cf_synced cs) true (cf_oracle cs) (cf_log cs ++ [mkLf acc n a false false]), repeat false n)
    else
      let ret := match cf_oracle cs with b :: _ => b | [] => true end in
      let orc := match cf_oracle cs with _ :: r => r | [] => [] end in
      (mkCf (if ret then a else cf_synced cs) (negb ret) orc (cf_log cs ++ [mkLf acc n a ret ret]), repeat ret n).
  Definition cf0 (oracle : list bool) : cf := mkCf 0%N false oracle [].

  (* ------------------------------------------------------------------ the two queues, glued *)
  Definition gW := gstate inpW outW accW cw.
  Definition gF := gstate inpF bool accF cf.
  Definition execW : gW -> action -> res gW := exec inpW outW accW cw [] can_batchW batchW workW.
  Definition execF : gF -> action -> res gF := exec inpF bool accF cf [] can_batchF batchF workF.

  (* k_poison: ConcurrentLogBuilder.poison (set when a call is answered with an error; read at the
     top of append since b7cac52); k_refused [ghost]: the threads whose append was refused by it *)
  Record kstate := mkK { k_W : gW; k_F : gF; k_durable : N; k_poison : bool; k_refused : list nat }.

  (* ARefuse t: thread t calls append while it sees the log poisoned: Err(log-poisoned), nothing
     reaches a queue or the file.  (The flag is a Relaxed atomic: a call may also miss a recent
     store and go on — that is an ordinary AW step.  By convention `progs` lists the batches of the
     calls that go on to the queues; a refused call leaves no trace but this ghost record.) *)
  Inductive caction := AW (a : action) | AF (a : action) | ARefuse (t : nat).

  (* the call that returned in this step, if any: its ghost index and output *)
  Definition new_done {I O A : Type} (th th' : thread I O A) : option (nat * O) :=
    match t_done I O A th' with
    | x :: r => if Nat.eqb (length r) (length (t_done I O A th)) then Some x else None
    | [] => None
    end.

  (* `self.fsync_cq.do_work(written)`: the value becomes the thread's next input on F *)
  Definition inject (g : gF) (t : nat) (i : inpF) : gF :=
    match nth_error (g_threads _ _ _ _ g) t with
    | Some th => set_thread _ _ _ _ g t (mkThread _ _ _ (t_pc _ _ _ th) (t_todo _ _ _ th ++ [i]) (t_done _ _ _ th))
    | None => g
    end.

  Definition f_idle (g : gF) (t : nat) : bool :=
    match nth_error (g_threads _ _ _ _ g) t with
    | Some th => match t_pc _ _ _ th, t_todo _ _ _ th with PIdle _ _ _, [] => true | _, _ => false end
    | None => true
    end.
  Definition w_at_idle (g : gW) (t : nat) : bool :=
    match nth_error (g_threads _ _ _ _ g) t with
    | Some th => match t_pc _ _ _ th with PIdle _ _ _ => true | _ => false end
    | None => false
    end.
  Definition act_thread (a : action) : nat := match a with ARun t _ => t | ASpurious t => t end.

  Definition cexec (k : kstate) (a : caction) : res kstate :=
    match a with
    | AW a =>
        let t := act_thread a in
        (* program order: the next append starts only after the previous one has returned *)
        if (match a with ARun _ _ => w_at_idle (k_W k) t | _ => false end) && negb (f_idle (k_F k) t)
        then Ok k
        else
          g' <- execW (k_W k) a ;;
          let '(f', p') :=
            match nth_error (g_threads _ _ _ _ (k_W k)) t, nth_error (g_threads _ _ _ _ g') t with
            | Some th, Some th' =>
                match new_done th th' with
                | Some (idx, Some w) => (inject (k_F k) t (idx, w), k_poison k)
                | Some (idx, None) => (k_F k, true)          (* Err(err): self.poison.store(true) *)
                | None => (k_F k, k_poison k)
                end
            | _, _ => (k_F k, k_poison k)
            end in
          Ok (mkK g' f' (k_durable k) p' (k_refused k))
    | AF a =>
        let t := act_thread a in
        g' <- execF (k_F k) a ;;
        let newlog := skipn (length (cf_log (g_core _ _ _ _ (k_F k)))) (cf_log (g_core _ _ _ _ g')) in
        let d := if existsb lf_sync newlog then w_bw (cw_w (g_core _ _ _ _ (k_W k))) else k_durable k in
        let p' :=
          match nth_error (g_threads _ _ _ _ (k_F k)) t, nth_error (g_threads _ _ _ _ g') t with
          | Some th, Some th' =>
              match new_done th th' with
              | Some (_, false) => true                    (* fsync failed: self.poison.store(true) *)
              | _ => k_poison k
              end
          | _, _ => k_poison k
          end in
        Ok (mkK (k_W k) g' d p' (k_refused k))
    | ARefuse t =>
        if k_poison k then Ok (mkK (k_W k) (k_F k) (k_durable k) true (t :: k_refused k)) else Ok k
    end.

  Fixpoint crun (k : kstate) (sched : list caction) : res kstate :=
    match sched with
    | [] => Ok k
    | a :: r => k' <- cexec k a ;; crun k' r
    end.

  (* nW / nF ring slots; thread u is to append the batches `nth u progs` one after the other *)
  Definition kinit (nW nF : nat) (oracle : list bool) (progs : list (list inpW)) : kstate :=
    mkK (ginit inpW outW accW cw nW cw0 progs)
        (ginit inpF bool accF cf nF (cf0 oracle) (map (fun _ => []) progs))
        0%N false [].
End ConcWL.
