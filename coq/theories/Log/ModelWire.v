(* Log/ModelWire.v — executable model of the byte-level codecs the log uses.
   Definitions only (no proofs).

   Transcribed from:
     buffertk/src/varint.rs        v64::pack / pack_sz / unpack (fast path + unpack_slow)
     buffertk/src/lib.rs           u32 little endian pack/unpack, Unpacker
     prototk/src/lib.rs            Tag::unpack, WireType::new, FieldNumber::new, FieldIterator::next
     prototk/src/field_types.rs    uint64, uint32, fixed32, bytes, message<M>
     prototk_derive/src/lib.rs     struct_snippet (struct decode loop), enum_snippet +
                                   unnamed_variant_snippet (enum decode), PackMessageVisitor
     sst/src/log.rs                struct Header {10:uint64 size, 11:uint32 discriminant, 12:fixed32 crc32c}
     sst/src/lib.rs                KeyValueEntry {8: Put, 9: Del}, KeyValuePut {1,2,3,4}, KeyValueDel {5,6,7}

   Bytes are N (< 256 is a side condition, bytes_ok).  u64 values are N; where the Rust
   arithmetic truncates (the tenth varint byte) `mod 2^64` is written out.
   A decoder result None stands for "returned Err(_)" (the log maps every prototk error of a
   header to unpack-log-header and of an entry to unpack-key-value-entry). *)
From Coq Require Import NArith List Bool.
From Blue Require Import Gen.Const_Log.
Import ListNotations.
Open Scope N_scope.

Definition W64 : N := 18446744073709551616.   (* 2^64 *)
Definition W32 : N := 4294967296.             (* 2^32 *)

Definition bytes_ok (l : list N) : Prop := Forall (fun b => b < 256) l.
Definition bytes_okb (l : list N) : bool := forallb (fun b => b <? 256) l.

Definition len (l : list N) : N := N.of_nat (length l).

(* ---------------------------------------------------------------- varint (buffertk v64) *)

(* v64::pack: low 7 bits first, continuation bit 128 on every byte but the last.
   The Rust loop runs while x > 0; a u64 needs at most 10 bytes, which is the fuel. *)
Fixpoint varint_go (fuel : nat) (x : N) : list N :=
  match fuel with
  | O => []
  | S f => if x <? 128 then [x] else (x mod 128 + 128) :: varint_go f (x / 128)
  end.
Definition varint (x : N) : list N := varint_go 10 x.

(* v64::pack_sz *)
Fixpoint varint_sz_go (fuel : nat) (x : N) : N :=
  match fuel with
  | O => 0
  | S f => if x <? 128 then 1 else 1 + varint_sz_go f (x / 128)
  end.
Definition varint_sz (x : N) : N := varint_sz_go 10 x.

(* v64::unpack.  Both Rust paths (unpack_slow for buffers shorter than 10 bytes, the unrolled
   unpack_size::<SZ> otherwise) compute: find the first byte < 128 among the first 10 bytes;
   none (or buffer exhausted first) -> Err; value = sum of 7-bit groups, the tenth byte shifted
   by 63 with the high bits dropped (u64 `<<`), i.e. mod 2^64.  `m` is 128^index. *)
Fixpoint unvarint_go (fuel : nat) (l : list N) (m acc : N) : option (N * list N) :=
  match fuel with
  | O => None
  | S f =>
      match l with
      | [] => None
      | b :: r =>
          if b <? 128 then Some ((acc + b * m) mod W64, r)
          else unvarint_go f r (m * 128) (acc + (b - 128) * m)
      end
  end.
Definition unvarint (l : list N) : option (N * list N) := unvarint_go 10 l 1 0.

(* ---------------------------------------------------------------- list helpers (N-indexed) *)

(* read_exact / slicing: the first n elements and the rest, None when fewer than n remain.
   Structural on the list so that a huge bogus n costs only the length of the list. *)
Fixpoint take_exact (l : list N) (n : N) {struct l} : option (list N * list N) :=
  if n =? 0 then Some ([], l)
  else match l with
       | [] => None
       | x :: l' =>
           match take_exact l' (N.pred n) with
           | Some (a, r) => Some (x :: a, r)
           | None => None
           end
       end.

(* saturating drop (seek forward / Unpacker::advance) *)
Fixpoint drop (l : list N) (n : N) {struct l} : list N :=
  if n =? 0 then l else match l with [] => [] | _ :: l' => drop l' (N.pred n) end.

(* saturating take (&buf[0..n] where n is known to be in range; saturates otherwise) *)
Fixpoint take (l : list N) (n : N) {struct l} : list N :=
  if n =? 0 then [] else match l with [] => [] | x :: l' => x :: take l' (N.pred n) end.

(* ---------------------------------------------------------------- little endian u32 *)
Definition le32 (c : N) : list N :=
  [c mod 256; (c / 256) mod 256; (c / 65536) mod 256; (c / 16777216) mod 256].
Definition unle32 (l : list N) : option (N * list N) :=
  match l with
  | b0 :: b1 :: b2 :: b3 :: r => Some (b0 + 256 * b1 + 65536 * b2 + 16777216 * b3, r)
  | _ => None
  end.

(* ---------------------------------------------------------------- tags *)
Inductive wire := WVarint | WSixtyFour | WLenDelim | WThirtyTwo.

Definition wire_bits (w : wire) : N :=
  match w with WVarint => 0 | WSixtyFour => 1 | WLenDelim => 2 | WThirtyTwo => 5 end.

(* WireType::new *)
Definition wire_of (w : N) : option wire :=
  match w with
  | 0 => Some WVarint | 1 => Some WSixtyFour | 2 => Some WLenDelim | 5 => Some WThirtyTwo
  | _ => None
  end.

(* FieldNumber::new *)
Definition field_number_ok (f : N) : bool :=
  negb (f <? PTK_FIRST_FIELD_NUMBER) && negb (PTK_LAST_FIELD_NUMBER <? f)
  && negb ((PTK_FIRST_RESERVED_FIELD_NUMBER <=? f) && (f <=? PTK_LAST_RESERVED_FIELD_NUMBER)).

(* Tag::v64 + pack *)
Definition tag_bytes (f : N) (w : wire) : list N := varint (f * 8 + wire_bits w).

(* Tag::unpack: varint, must fit u32, field number then wire type validated *)
Definition parse_tag (l : list N) : option (N * wire * list N) :=
  match unvarint l with
  | None => None
  | Some (t, r) =>
      if W32 <=? t then None
      else
        let f := t / 8 in
        let w := t mod 8 in
        if field_number_ok f then
          match wire_of w with
          | Some wt => Some (f, wt, r)
          | None => None
          end
        else None
  end.

(* ---------------------------------------------------------------- FieldIterator::next *)
Inductive fnext :=
| FEnd                                                (* buffer exhausted: None, no error *)
| FErr                                                (* *self.err = Some(e); None *)
| FItem (num : N) (w : wire) (val rest : list N).     (* Some((tag, value slice)), remaining *)

(* NB the value slice of a Varint field is &buf[0..x.pack_sz()] — the CANONICAL length of the
   value, not the number of bytes consumed; likewise a LengthDelimited slice is
   &buf[0..x.pack_sz() + sz].  A non-canonical (over-long) varint therefore yields a slice that
   is too short, and decoding the slice fails later.  Transcribed as is. *)
Definition field_next (l : list N) : fnext :=
  match l with
  | [] => FEnd
  | _ =>
      match parse_tag l with
      | None => FErr
      | Some (f, w, r) =>
          match w with
          | WVarint =>
              match unvarint r with
              | None => FErr
              | Some (x, r') => FItem f w (take r (varint_sz x)) r'
              end
          | WSixtyFour =>
              match take_exact r 8 with
              | None => FErr
              | Some (v, r') => FItem f w v r'
              end
          | WLenDelim =>
              match unvarint r with
              | None => FErr
              | Some (x, r') =>
                  match take_exact r' x with
                  | None => FErr
                  | Some (_, r'') => FItem f w (take r (varint_sz x + x)) r''
                  end
              end
          | WThirtyTwo =>
              match take_exact r 4 with
              | None => FErr
              | Some (v, r') => FItem f w v r'
              end
          end
      end
  end.

(* field decoders applied to a value slice (prototk::unpack_as(field_value)?) *)
Definition dec_uint64 (v : list N) : option N :=
  match unvarint v with Some (x, _) => Some x | None => None end.
Definition dec_uint32 (v : list N) : option N :=
  match unvarint v with
  | Some (x, _) => if W32 <=? x then None else Some x     (* v.try_into::<u32>() *)
  | None => None
  end.
Definition dec_fixed32 (v : list N) : option N :=
  match unle32 v with Some (x, _) => Some x | None => None end.
(* bytes::unpack: varint length, then that many bytes must be present in the slice *)
Definition dec_bytes (v : list N) : option (list N) :=
  match unvarint v with
  | Some (n, r) => match take_exact r n with Some (b, _) => Some b | None => None end
  | None => None
  end.

(* ---------------------------------------------------------------- log Header *)
Record header := { h_size : N; h_disc : N; h_crc : N }.

(* derive(Message) pack of a struct: every field, in declaration order, tag then value;
   zero values are NOT skipped (FieldPackHelper for u64/u32 always packs). *)
Definition header_bytes (h : header) : list N :=
  tag_bytes 10 WVarint ++ varint (h_size h)
  ++ tag_bytes 11 WVarint ++ varint (h_disc h)
  ++ tag_bytes 12 WThirtyTwo ++ le32 (h_crc h).

(* stack_pack(header_sz: v64).pack(&header): the header preceded by its length as a varint *)
Definition header_frame (h : header) : list N :=
  let hb := header_bytes h in varint (len hb) ++ hb.

(* <Header as Unpackable>::unpack — the derived struct decode loop: start from default(), for
   every (tag, value) of the FieldIterator merge known (number, wire type) pairs (last one wins),
   ignore everything else; a field decode error returns at once (`?`), an iterator error is
   returned after the loop.  Fuel: every item consumes at least one byte. *)
Fixpoint parse_header_go (fuel : nat) (l : list N) (h : header) : option header :=
  match fuel with
  | O => None
  | S f =>
      match field_next l with
      | FEnd => Some h
      | FErr => None
      | FItem num w val rest =>
          match num, w with
          | 10, WVarint =>
              match dec_uint64 val with
              | Some x => parse_header_go f rest {| h_size := x; h_disc := h_disc h; h_crc := h_crc h |}
              | None => None
              end
          | 11, WVarint =>
              match dec_uint32 val with
              | Some x => parse_header_go f rest {| h_size := h_size h; h_disc := x; h_crc := h_crc h |}
              | None => None
              end
          | 12, WThirtyTwo =>
              match dec_fixed32 val with
              | Some x => parse_header_go f rest {| h_size := h_size h; h_disc := h_disc h; h_crc := x |}
              | None => None
              end
          | _, _ => parse_header_go f rest h
          end
      end
  end.
Definition parse_header (l : list N) : option header :=
  parse_header_go (S (length l)) l {| h_size := 0; h_disc := 0; h_crc := 0 |}.

(* ---------------------------------------------------------------- key-value entries *)
(* what the log stores and returns: KeyValueRef { key, timestamp, value: Option<&[u8]> } *)
Record entry := { e_key : list N; e_ts : N; e_val : option (list N) }.

(* KeyValuePut { shared: 0, key_frag, timestamp, value } / KeyValueDel { shared: 0, key_frag, timestamp } *)
Definition put_body (k : list N) (ts : N) (v : list N) : list N :=
  tag_bytes 1 WVarint ++ varint 0
  ++ tag_bytes 2 WLenDelim ++ varint (len k) ++ k
  ++ tag_bytes 3 WVarint ++ varint ts
  ++ tag_bytes 4 WLenDelim ++ varint (len v) ++ v.
Definition del_body (k : list N) (ts : N) : list N :=
  tag_bytes 5 WVarint ++ varint 0
  ++ tag_bytes 6 WLenDelim ++ varint (len k) ++ k
  ++ tag_bytes 7 WVarint ++ varint ts.

(* stack_pack(KeyValueEntry::Put(put)) : message field 8 (Del: 9), length prefixed *)
Definition entry_bytes (e : entry) : list N :=
  match e_val e with
  | Some v => let b := put_body (e_key e) (e_ts e) v in tag_bytes 8 WLenDelim ++ varint (len b) ++ b
  | None => let b := del_body (e_key e) (e_ts e) in tag_bytes 9 WLenDelim ++ varint (len b) ++ b
  end.

(* decoded KeyValuePut / KeyValueDel before the log looks at `shared` *)
Record kv := { kv_shared : N; kv_key : list N; kv_ts : N; kv_val : list N }.
Definition kv0 : kv := {| kv_shared := 0; kv_key := []; kv_ts := 0; kv_val := [] |}.

(* derived struct decode of KeyValuePut (fields 1..4) or KeyValueDel (fields 5..7): `base` is
   0 for Put and 4 for Del; `hasval` says whether field base+4 exists *)
Fixpoint parse_kv_go (fuel : nat) (base : N) (hasval : bool) (l : list N) (r : kv) : option kv :=
  match fuel with
  | O => None
  | S f =>
      match field_next l with
      | FEnd => Some r
      | FErr => None
      | FItem num w val rest =>
          if (num =? base + 1) && (match w with WVarint => true | _ => false end) then
            match dec_uint64 val with
            | Some x => parse_kv_go f base hasval rest {| kv_shared := x; kv_key := kv_key r; kv_ts := kv_ts r; kv_val := kv_val r |}
            | None => None
            end
          else if (num =? base + 2) && (match w with WLenDelim => true | _ => false end) then
            match dec_bytes val with
            | Some b => parse_kv_go f base hasval rest {| kv_shared := kv_shared r; kv_key := b; kv_ts := kv_ts r; kv_val := kv_val r |}
            | None => None
            end
          else if (num =? base + 3) && (match w with WVarint => true | _ => false end) then
            match dec_uint64 val with
            | Some x => parse_kv_go f base hasval rest {| kv_shared := kv_shared r; kv_key := kv_key r; kv_ts := x; kv_val := kv_val r |}
            | None => None
            end
          else if hasval && (num =? base + 4) && (match w with WLenDelim => true | _ => false end) then
            match dec_bytes val with
            | Some b => parse_kv_go f base hasval rest {| kv_shared := kv_shared r; kv_key := kv_key r; kv_ts := kv_ts r; kv_val := b |}
            | None => None
            end
          else parse_kv_go f base hasval rest r
      end
  end.

(* <KeyValueEntry as Unpackable>::unpack — derived enum decode: one tag, then
   message<M>::unpack: varint length, that many bytes must be present, M::unpack on them.
   Result: is it a Put, the decoded struct, the remaining bytes. *)
Definition parse_kve (l : list N) : option (bool * kv * list N) :=
  match parse_tag l with
  | None => None
  | Some (num, w, r) =>
      match w with
      | WLenDelim =>
          if (num =? 8) || (num =? 9) then
            match unvarint r with
            | None => None
            | Some (n, r1) =>
                match take_exact r1 n with
                | None => None
                | Some (body, rem) =>
                    let isput := num =? 8 in
                    match parse_kv_go (S (length body)) (if isput then 0 else 4) isput body kv0 with
                    | Some k => Some (isput, k, rem)
                    | None => None
                    end
                end
            end
          else None
      | _ => None
      end
  end.
