(* Props_C12.v — the property theorems for C12 and nothing else.
   C12: "The log returns each batch once, in order; a torn tail loses only the tail".

   `bits` is BLOCK_BITS (any value with 2^bits > HEADER_MAX_SIZE; the source has 20, see
   C12_source_block_size), `crc` is crc32c (external code: an arbitrary function, nothing is assumed
   of it), `rollover` is LogOptions::rollover_size.  Batches are lists of entries as WriteBatch
   accepts them (wf_entry: key/value within MAX_KEY_LEN/MAX_VALUE_LEN, u64 timestamp); `ebytes`
   is the WriteBatch buffer they produce (C12_write_batch_contents).  Sizes, counts and the number
   of batches are unbounded. *)
From Coq Require Import NArith List.
From Blue Require Import Gen.Const_Log Log.ModelWire Log.Model Log.Inst
  Log.ModelConcWL Log.ProofsWire Log.ProofsWriter Log.ProofsReader Log.ProofsTop Log.ProofsTotal
  Log.ProofsAgain Log.ProofsWcqGhost Log.ProofsConcWL.
From Blue Require Import Sync42.ModelLru Sync42.ModelWaitList Sync42.ModelWcq Sync42.PropsPrelude.
Import ListNotations.
Open Scope N_scope.

(* Reading a log yields exactly the entries of the batches appended to it (those whose append
   returned Ok; a failed append — empty batch, table full — contributes nothing even if it wrote
   padding), in append order, whatever their sizes and however they straddle block boundaries,
   and then ends cleanly. *)
Theorem C12_roundtrip : forall bits crc, HEADER_MAX_SIZE < 2 ^ bits ->
  forall rollover ess rs file,
  Forall (Forall wf_entry) ess ->
  write_log bits crc rollover (map ebytes ess) = (rs, file) ->
  read_log bits crc file = (concat (ok_batches rs ess), REnd).
Proof. exact roundtrip. Qed.

(* If the file is cut at ANY byte n, reading yields the entries of a prefix of the appended
   batches — exactly those whose last byte is inside the cut (`durable`: append returned Ok and
   the file offset it reported is <= the cut) — and then either ends or reports an error; never a
   partial or invented batch. *)
Theorem C12_torn_tail : forall bits crc, HEADER_MAX_SIZE < 2 ^ bits ->
  forall rollover ess rs file n,
  Forall (Forall wf_entry) ess ->
  write_log bits crc rollover (map ebytes ess) = (rs, file) ->
  exists j r,
    read_log bits crc (firstn n file) = (concat (firstn j (ok_batches rs ess)), r) /\
    (r = REnd \/ exists e, r = RErr e) /\
    firstn j (ok_batches rs ess) = durable (len (firstn n file)) rs ess.
Proof. exact torn_tail. Qed.

(* A consumer that keeps calling next() after it returned an error (LogIterator is public API and
   is not consumed by the error): on every cut of a written log the loop yields exactly what
   C12_torn_tail says, and each of the next m calls — any m — returns a clean end; never an entry of
   the torn batch.  (Before fix 71e5745 the call after the error returned the whole entries of the
   first fragment of a split batch.) *)
Theorem C12_nothing_after_error : forall bits crc, HEADER_MAX_SIZE < 2 ^ bits ->
  forall rollover ess rs file n m,
  Forall (Forall wf_entry) ess ->
  write_log bits crc rollover (map ebytes ess) = (rs, file) ->
  exists r l,
    read_log_again bits crc (firstn n file) m = (concat (durable (len (firstn n file)) rs ess), r, l) /\
    (r = REnd \/ exists e, r = RErr e) /\
    Forall (fun a => a = AEnd) l.
Proof. intros bits crc HB. exact (read_log_again_prefix bits crc HB). Qed.

(* What one append does to the file: at most HEADER_MAX_SIZE zero bytes up to the block boundary
   (only when the frame does not fit), then either one whole frame that ends at or before the
   boundary, or a first frame (never empty), zero padding of at most HEADER_MAX_SIZE bytes ending
   exactly at the boundary, and a second frame (never empty) starting on the boundary.  A failing
   append adds at most the padding, and fails only for an empty batch or at one of the two size checks.  The writer never panics (assert!, slice index) and the
   _append/append_split recursion never exceeds depth two. *)
Theorem C12_append_layout : forall bits crc, HEADER_MAX_SIZE < 2 ^ bits ->
  forall rollover st buf r st',
  wf_w st -> append bits crc rollover st buf = (r, st') ->
  wf_w st' /\
  match r with
  | WOk => buf <> [] /\ len buf < TABLE_FULL_SIZE /\
           exists k c, pad_at bits (w_bw st) k /\ main_at bits crc (w_bw st + k) buf c /\
                       w_file st' = w_file st ++ zeros k ++ c
  | WErr e => exists k, pad_at bits (w_bw st) k /\ w_file st' = w_file st ++ zeros k /\
              (buf = [] \/ TABLE_FULL_SIZE <= w_bw st + k + len (frame crc HEADER_WHOLE buf) \/
               rollover < w_bw st + k + len (frame crc HEADER_WHOLE buf))
  | WPanic | WFuel => False
  end.
Proof. exact append_spec. Qed.

(* No spurious failure: a non-empty batch is appended whenever it fits below TABLE_FULL_SIZE and
   rollover_size with room for the padding and the header. *)
Theorem C12_append_succeeds_when_room : forall bits crc, HEADER_MAX_SIZE < 2 ^ bits ->
  forall rollover st buf r st',
  wf_w st -> buf <> [] ->
  w_bw st + 2 * HEADER_MAX_SIZE + len buf < TABLE_FULL_SIZE ->
  w_bw st + 2 * HEADER_MAX_SIZE + len buf <= rollover ->
  append bits crc rollover st buf = (r, st') -> r = WOk.
Proof. exact append_ok_when_room. Qed.

(* A WriteBatch built by put/del holds the encodings of the entries it accepted, in order, and
   (timestamps being u64) the entries it accepted are within the limits the theorems above ask for. *)
Theorem C12_write_batch_contents : forall bits es rs b,
  batch_build bits wb0 es = (rs, b) ->
  exists kept, wb_buffer b = ebytes kept /\
    kept = map snd (filter (fun x => match fst x with None => true | Some _ => false end) (combine rs es)) /\
    length rs = length es /\
    (Forall (fun e => e_ts e < W64) es -> Forall wf_entry kept).
Proof.
  intros bits es rs b H.
  destruct (batch_build_buffer bits es wb0 rs b eq_refl H) as (kept & Hk & Hkept & Hlen).
  exists kept. split; [exact Hk|]. split; [exact Hkept|]. split; [exact Hlen|].
  intros Hts. rewrite Hkept. exact (batch_build_kept_wf bits es wb0 rs b H Hts).
Qed.

(* On ARBITRARY bytes (any file, damaged or not, any block size, any crc) the reader terminates
   with a clean end or an error — the fuel of the model is never the limit — and returns at most one
   entry per byte of input. *)
Theorem C12_reader_total : forall bits crc file,
  exists es r, read_log bits crc file = (es, r) /\ r <> RFuel /\ (length es <= length file)%nat.
Proof. exact read_log_total. Qed.

(* the header and entry codecs invert each other on everything the writer produces *)
Theorem C12_codecs_roundtrip :
  (forall h, header_ok h -> parse_header (header_bytes h) = Some h) /\
  (forall e r, wf_entry e ->
     parse_kve (entry_bytes e ++ r) =
     Some (match e_val e with Some _ => true | None => false end,
           {| kv_shared := 0; kv_key := e_key e; kv_ts := e_ts e;
              kv_val := match e_val e with Some v => v | None => [] end |}, r)).
Proof. exact (conj parse_header_roundtrip parse_kve_roundtrip). Qed.

(* the block size of the source satisfies the side condition of the theorems above *)
Theorem C12_source_block_size : HEADER_MAX_SIZE < 2 ^ BLOCK_BITS /\ BLOCK_SIZE = 2 ^ BLOCK_BITS.
Proof. split; reflexivity. Qed.

(* ================================================================ concurrent appends
   ConcurrentLogBuilder::append at the level of sync42's WAIT LIST (Log/ModelConcWL.v): two copies of
   the small-step interleaving model of WorkCoalescingQueue::do_work that area Sync42 owns
   (Sync42/ModelWcq.v: threads as program counters with locals, the mutexes `state` and `core`,
   condition variables with spurious wake-ups and an arbitrary notify_one choice, the ring of
   waiters with fewer slots than threads allowed), instantiated with WriteCoalescingCore and
   FsyncCoalescingCore of sst/src/log.rs and glued as `append` glues them (the value returned by
   write_cq.do_work is the input of fsync_cq.do_work; a thread starts its next append only after
   the previous one returned; once the log is poisoned an append may be refused before it reaches a
   queue).  A schedule is ANY list of actions (thread t of queue W / queue F takes its next step with
   notify choice c | wakes up spuriously | thread t's append is refused); a blocked thread's action is a
   no-op, so "for all sched" is "for every interleaving".  nW, nF: ring sizes; oracle: the outcomes
   of the fdatasync calls (any list); progsW: the batches each thread appends, one call after the
   other.  No atomicity of the queue is assumed: the queue-level facts (mutual exclusion of
   leaders, index arithmetic, own output) come from Sync42's invariant, proved there for every
   core.  What remains trusted: that ModelWcq.v is the real queue (C18's accepted-trace theorem and
   runs), the four lines of glue, and the meaning of fdatasync (a successful call before which no
   call failed makes every byte flushed so far durable; see C12_conc_no_sync_after_failed_sync).
   ConcurrentLogBuilder::fsync() (do_work(0): returns true without a system call when alone) is not
   part of the property and not modelled. *)
Definition batches_ok (progsW : list (list (list entry))) : Prop :=
  forall es, In es (concat progsW) -> es <> [] /\ Forall wf_entry es.

(* no schedule makes either queue, either core or the glue panic *)
Theorem C12_conc_no_panic : forall bits crc rollover, HEADER_MAX_SIZE < 2 ^ bits ->
  forall progsW, batches_ok progsW ->
  forall nW nF oracle sched, (0 < nW)%nat -> (0 < nF)%nat ->
  exists k, crun bits crc rollover (kinit nW nF oracle progsW) sched = Ok k.
Proof. exact wl_no_panic. Qed.

(* Whatever the schedule: if a call of thread t has returned Ok(()) (its fsync_cq.do_work, linked
   at index j of queue F, returned true), then it is the call thread t linked at index id of queue
   W with the batch es, that call was handed Ok(w), and a `work` of the write core (entry e, k0-th
   of its log) wrote es — at position id - (first index of that work) of the merged batch — with
   res = WOk, and the last byte of that write is at or before the durable mark: an fdatasync that
   covers it completed before the return. *)
Theorem C12_conc_ack_after_covering_sync : forall bits crc rollover, HEADER_MAX_SIZE < 2 ^ bits ->
  forall progsW, batches_ok progsW ->
  forall nW nF oracle sched k, (0 < nW)%nat -> (0 < nF)%nat ->
  crun bits crc rollover (kinit nW nF oracle progsW) sched = Ok k ->
  forall t thF j, nth_error (g_threads (k_F k)) t = Some thF -> In (j, true) (t_done thF) ->
  exists id w es thW k0 e,
    nth_error (g_links (k_F k)) j = Some (t, (id, w)) /\
    nth_error (g_links (k_W k)) id = Some (t, es) /\
    nth_error (g_threads (k_W k)) t = Some thW /\ In (id, Some w) (t_done thW) /\
    okentry (cw_log (cW k)) id w k0 e /\ lw_end e <= k_durable k /\
    nth_error (lw_items e) (id - ProofsWcqGhost.total (firstn k0 (clogWl (cw_log (cW k))))) = Some es.
Proof.
  intros bits crc rollover HB progsW Hok nW nF oracle sched k HnW HnF Hrun t thF j Ht Hd.
  destruct (reach_KInv bits crc rollover HB progsW Hok nW nF oracle sched k HnW HnF Hrun) as (pF & HK).
  exact (wl_acked bits crc rollover progsW pF k t thF j HK Ht Hd).
Qed.

(* Whatever the schedule and whatever the fdatasync calls return: a successful fdatasync is never
   preceded by a failed one — after a failure the core answers false without calling fdatasync
   again (fix be5f137), so nothing written before a failed sync is acknowledged by a later sync.
   Hence the durable mark of the theorem above only ever advances through fdatasync calls before
   which none had failed: the plain meaning of fdatasync suffices, not the Linux behaviour after
   an error. *)
Theorem C12_conc_no_sync_after_failed_sync : forall bits crc rollover, HEADER_MAX_SIZE < 2 ^ bits ->
  forall progsW, batches_ok progsW ->
  forall nW nF oracle sched k, (0 < nW)%nat -> (0 < nF)%nat ->
  crun bits crc rollover (kinit nW nF oracle progsW) sched = Ok k ->
  (cf_failed (cF k) = false -> Forall (fun e => lf_out e = true) (cf_log (cF k))) /\
  (forall pre e post, cf_log (cF k) = pre ++ e :: post -> lf_sync e = true ->
     Forall (fun y => lf_out y = true) pre).
Proof.
  intros bits crc rollover HB progsW Hok nW nF oracle sched k HnW HnF Hrun.
  destruct (reach_KInv bits crc rollover HB progsW Hok nW nF oracle sched k HnW HnF Hrun) as (pF & HK).
  exact (wl_sync_order bits crc rollover progsW pF k HK).
Qed.

(* Whatever the schedule: the `poison` flag (read at the top of append since b7cac52) is set only
   after some call was answered with an error — a failed fdatasync or a failed append of the write
   core — and an append is refused (ARefuse: Err(log-poisoned), nothing reaches a queue or the file)
   only when it is set.  So a fault-free run refuses nothing, and the theorems about the calls that
   do go on to the queues are not weakened by the refusals. *)
Theorem C12_conc_refused_only_after_error : forall bits crc rollover, HEADER_MAX_SIZE < 2 ^ bits ->
  forall progsW, batches_ok progsW ->
  forall nW nF oracle sched k, (0 < nW)%nat -> (0 < nF)%nat ->
  crun bits crc rollover (kinit nW nF oracle progsW) sched = Ok k ->
  (k_refused k <> [] -> k_poison k = true) /\
  (k_poison k = true ->
     cf_failed (cF k) = true \/ Exists (fun e => lw_res e <> WOk) (cw_log (cW k))).
Proof.
  intros bits crc rollover HB progsW Hok nW nF oracle sched k HnW HnF Hrun.
  exact (reach_PInv bits crc rollover HB progsW Hok nW nF oracle sched k HnW HnF Hrun).
Qed.

(* Whatever the schedule: the file is the sequential log (C12_roundtrip applies) of the batches
   the write core merged, in the order of its `work` calls — reading it returns exactly the merged
   batches whose append succeeded — and the batches merged so far are exactly the first links of
   queue W, in link order: every linked request at most once, whole. *)
Theorem C12_conc_each_batch_once_whole : forall bits crc rollover, HEADER_MAX_SIZE < 2 ^ bits ->
  forall progsW, batches_ok progsW ->
  forall nW nF oracle sched k, (0 < nW)%nat -> (0 < nF)%nat ->
  crun bits crc rollover (kinit nW nF oracle progsW) sched = Ok k ->
  read_log bits crc (w_file (cw_w (cW k))) =
    (concat (ok_batches (ProofsConcWL.log_res (cw_log (cW k))) (ProofsConcWL.log_ess (cw_log (cW k)))), REnd) /\
  concat (map lw_items (cw_log (cW k))) = map snd (firstn (ProofsWcqGhost.total (clogW (cW k))) (g_links (k_W k))) /\
  (ProofsWcqGhost.total (clogW (cW k)) <= length (g_links (k_W k)))%nat.
Proof.
  intros bits crc rollover HB progsW Hok nW nF oracle sched k HnW HnF Hrun.
  destruct (reach_KInv bits crc rollover HB progsW Hok nW nF oracle sched k HnW HnF Hrun) as (pF & HK).
  exact (wl_each_once bits crc rollover HB progsW Hok pF k HK).
Qed.

(* Whatever the schedule and wherever the file is cut at or after the durable mark: a batch whose
   append returned Ok(()) is read back, whole, inside the merged batch it was written in. *)
Theorem C12_conc_acked_survives_cut : forall bits crc rollover, HEADER_MAX_SIZE < 2 ^ bits ->
  forall progsW, batches_ok progsW ->
  forall nW nF oracle sched k, (0 < nW)%nat -> (0 < nF)%nat ->
  crun bits crc rollover (kinit nW nF oracle progsW) sched = Ok k ->
  forall t thF j, nth_error (g_threads (k_F k)) t = Some thF -> In (j, true) (t_done thF) ->
  forall n, k_durable k <= len (firstn n (w_file (cw_w (cW k)))) ->
  exists id w es e jj r,
    nth_error (g_links (k_F k)) j = Some (t, (id, w)) /\
    nth_error (g_links (k_W k)) id = Some (t, es) /\
    In e (cw_log (cW k)) /\ In es (lw_items e) /\
    read_log bits crc (firstn n (w_file (cw_w (cW k)))) =
      (concat (firstn jj (ok_batches (ProofsConcWL.log_res (cw_log (cW k))) (ProofsConcWL.log_ess (cw_log (cW k))))), r) /\
    (r = REnd \/ exists er, r = RErr er) /\
    In (concat (lw_items e))
       (firstn jj (ok_batches (ProofsConcWL.log_res (cw_log (cW k))) (ProofsConcWL.log_ess (cw_log (cW k))))).
Proof.
  intros bits crc rollover HB progsW Hok nW nF oracle sched k HnW HnF Hrun t thF j Ht Hd n Hn.
  destruct (reach_KInv bits crc rollover HB progsW Hok nW nF oracle sched k HnW HnF Hrun) as (pF & HK).
  exact (wl_acked_survives bits crc rollover HB progsW Hok pF k t thF j HK Ht Hd n Hn).
Qed.

(* ---- the hypotheses are satisfiable by a non-trivial object: 32-byte blocks, three batches, the
   second one split across the first boundary, the third padded to the next; read back whole and
   cut in the middle of the split *)
Definition ex_crc (l : list N) : N := fold_left (fun a b => a * 31 + b + 7) l 5.
Definition ex_batches : list (list entry) :=
  [[{| e_key := [1; 2]; e_ts := 300; e_val := Some [9; 9; 9] |}];
   [{| e_key := [3]; e_ts := 1; e_val := None |}; {| e_key := [4; 5; 6; 7]; e_ts := 2; e_val := Some [8] |}];
   [{| e_key := []; e_ts := 0; e_val := None |}]].

Example C12_example_wf : Forall (Forall wf_entry) ex_batches.
Proof. repeat constructor; cbn; try discriminate. Qed.

Example C12_example_roundtrip :
  let '(rs, file) := write_log 5 ex_crc DEFAULT_ROLLOVER (map ebytes ex_batches) in
  rs = [(WOk, 26); (WOk, 85); (WOk, 114)] /\ len file = 114 /\
  read_log 5 ex_crc file = (concat ex_batches, REnd) /\
  read_log 5 ex_crc (firstn 30 file) = (concat (firstn 1 ex_batches), REnd) /\
  read_log 5 ex_crc (firstn 50 file) = (concat (firstn 1 ex_batches), RErr ESystem) /\
  read_log 5 ex_crc (firstn 60 file) = (concat (firstn 1 ex_batches), RErr ENoSecondHeader) /\
  read_log 5 ex_crc (firstn 70 file) = (concat (firstn 1 ex_batches), RErr ESystem) /\
  read_log 5 ex_crc (firstn 85 file) = (concat (firstn 2 ex_batches), REnd).
Proof. vm_compute. repeat split. Qed.

(* the hypotheses are satisfiable and finished states exist: two threads, one batch each, rings of
   one slot (so the second link must wait), a round-robin schedule: both appends return Ok(()),
   the write core merged nothing or both (whatever the schedule did), the file reads back *)
Definition ex_sched : list caction :=
  concat (repeat [AW (ARun 0 0); AW (ARun 1 0); AF (ARun 0 0); AF (ARun 1 0)] 60).
Definition ex_progs : list (list (list entry)) :=
  [[[{| e_key := [1; 2]; e_ts := 300; e_val := Some [9; 9; 9] |}]];
   [[{| e_key := [3]; e_ts := 1; e_val := None |}; {| e_key := [4; 5; 6; 7]; e_ts := 2; e_val := Some [8] |}]]].

Example C12_example_conc_ok : batches_ok ex_progs.
Proof.
  intros es H. cbn in H. destruct H as [<-|[<-|[]]]; (split; [discriminate|]); repeat constructor; cbn; discriminate.
Qed.

Example C12_example_conc :
  match crun 6 ex_crc DEFAULT_ROLLOVER (kinit 1 1 [] ex_progs) ex_sched with
  | Ok k => map (fun th => map snd (t_done th)) (g_threads (k_F k)) = [[true]; [true]] /\
            k_durable k = len (w_file (cw_w (cW k))) /\
            fst (read_log 6 ex_crc (w_file (cw_w (cW k)))) = concat (concat ex_progs)
  | _ => False
  end.
Proof. vm_compute. repeat split. Qed.
