(* Props_C12.v — the property theorems for C12 and nothing else.
   C12: "The log returns each batch once, in order; a torn tail loses only the tail".

   `bits` is BLOCK_BITS (any value with 2^bits > HEADER_MAX_SIZE; the source has 20, see
   C12_source_block_size), `crc` is crc32c (external code: an arbitrary function, nothing is assumed
   of it), `rollover` is LogOptions::rollover_size.  Batches are lists of entries as WriteBatch
   accepts them (wf_entry: key/value within MAX_KEY_LEN/MAX_VALUE_LEN, u64 timestamp); `ebytes`
   is the WriteBatch buffer they produce (C12_write_batch_contents).  Sizes, counts and the number
   of batches are unbounded. *)
From Coq Require Import NArith List.
From Blue Require Import Gen.Const_Log Log.ModelWire Log.Model Log.Inst
  Log.ModelConc Log.ProofsWire Log.ProofsWriter Log.ProofsReader Log.ProofsTop Log.ProofsTotal Log.ProofsConc.
Import ListNotations.
Open Scope N_scope.

(* Reading a log yields exactly the entries of the batches appended to it (those whose append
   returned Ok; a failed append — empty batch, table full — contributes nothing even if it wrote
   padding), in append order, whatever their sizes and however they straddle block boundaries,
   and then ends cleanly. *)
Theorem C12_roundtrip : forall bits crc, HEADER_MAX_SIZE < 2 ^ bits ->
  forall rollover ess rs file,
  Forall (Forall wf_entry) ess ->
  write_log bits crc rollover (map ebytes ess) = (rs, file) ->
  read_log bits crc file = (concat (ok_batches rs ess), REnd).
Proof. exact roundtrip. Qed.

(* If the file is cut at ANY byte n, reading yields the entries of a prefix of the appended
   batches — exactly those whose last byte is inside the cut (`durable`: append returned Ok and
   the file offset it reported is <= the cut) — and then either ends or reports an error; never a
   partial or invented batch. *)
Theorem C12_torn_tail : forall bits crc, HEADER_MAX_SIZE < 2 ^ bits ->
  forall rollover ess rs file n,
  Forall (Forall wf_entry) ess ->
  write_log bits crc rollover (map ebytes ess) = (rs, file) ->
  exists j r,
    read_log bits crc (firstn n file) = (concat (firstn j (ok_batches rs ess)), r) /\
    (r = REnd \/ exists e, r = RErr e) /\
    firstn j (ok_batches rs ess) = durable (len (firstn n file)) rs ess.
Proof. exact torn_tail. Qed.

(* What one append does to the file: at most HEADER_MAX_SIZE zero bytes up to the block boundary
   (only when the frame does not fit), then either one whole frame that ends at or before the
   boundary, or a first frame (never empty), zero padding of at most HEADER_MAX_SIZE bytes ending
   exactly at the boundary, and a second frame (never empty) starting on the boundary.  A failing
   append adds at most the padding, and fails only for an empty batch or at one of the two size checks.  The writer never panics (assert!, slice index) and the
   _append/append_split recursion never exceeds depth two. *)
Theorem C12_append_layout : forall bits crc, HEADER_MAX_SIZE < 2 ^ bits ->
  forall rollover st buf r st',
  wf_w st -> append bits crc rollover st buf = (r, st') ->
  wf_w st' /\
  match r with
  | WOk => buf <> [] /\ len buf < TABLE_FULL_SIZE /\
           exists k c, pad_at bits (w_bw st) k /\ main_at bits crc (w_bw st + k) buf c /\
                       w_file st' = w_file st ++ zeros k ++ c
  | WErr e => exists k, pad_at bits (w_bw st) k /\ w_file st' = w_file st ++ zeros k /\
              (buf = [] \/ TABLE_FULL_SIZE <= w_bw st + k + len (frame crc HEADER_WHOLE buf) \/
               rollover < w_bw st + k + len (frame crc HEADER_WHOLE buf))
  | WPanic | WFuel => False
  end.
Proof. exact append_spec. Qed.

(* No spurious failure: a non-empty batch is appended whenever it fits below TABLE_FULL_SIZE and
   rollover_size with room for the padding and the header. *)
Theorem C12_append_succeeds_when_room : forall bits crc, HEADER_MAX_SIZE < 2 ^ bits ->
  forall rollover st buf r st',
  wf_w st -> buf <> [] ->
  w_bw st + 2 * HEADER_MAX_SIZE + len buf < TABLE_FULL_SIZE ->
  w_bw st + 2 * HEADER_MAX_SIZE + len buf <= rollover ->
  append bits crc rollover st buf = (r, st') -> r = WOk.
Proof. exact append_ok_when_room. Qed.

(* A WriteBatch built by put/del holds the encodings of the entries it accepted, in order, and
   (timestamps being u64) the entries it accepted are within the limits the theorems above ask for. *)
Theorem C12_write_batch_contents : forall bits es rs b,
  batch_build bits wb0 es = (rs, b) ->
  exists kept, wb_buffer b = ebytes kept /\
    kept = map snd (filter (fun x => match fst x with None => true | Some _ => false end) (combine rs es)) /\
    length rs = length es /\
    (Forall (fun e => e_ts e < W64) es -> Forall wf_entry kept).
Proof.
  intros bits es rs b H.
  destruct (batch_build_buffer bits es wb0 rs b eq_refl H) as (kept & Hk & Hkept & Hlen).
  exists kept. split; [exact Hk|]. split; [exact Hkept|]. split; [exact Hlen|].
  intros Hts. rewrite Hkept. exact (batch_build_kept_wf bits es wb0 rs b H Hts).
Qed.

(* On ARBITRARY bytes (any file, damaged or not, any block size, any crc) the reader terminates
   with a clean end or an error — the fuel of the model is never the limit — and returns at most one
   entry per byte of input. *)
Theorem C12_reader_total : forall bits crc file,
  exists es r, read_log bits crc file = (es, r) /\ r <> RFuel /\ (length es <= length file)%nat.
Proof. exact read_log_total. Qed.

(* the header and entry codecs invert each other on everything the writer produces *)
Theorem C12_codecs_roundtrip :
  (forall h, header_ok h -> parse_header (header_bytes h) = Some h) /\
  (forall e r, wf_entry e ->
     parse_kve (entry_bytes e ++ r) =
     Some (match e_val e with Some _ => true | None => false end,
           {| kv_shared := 0; kv_key := e_key e; kv_ts := e_ts e;
              kv_val := match e_val e with Some v => v | None => [] end |}, r)).
Proof. exact (conj parse_header_roundtrip parse_kve_roundtrip). Qed.

(* the block size of the source satisfies the side condition of the theorems above *)
Theorem C12_source_block_size : HEADER_MAX_SIZE < 2 ^ BLOCK_BITS /\ BLOCK_SIZE = 2 ^ BLOCK_BITS.
Proof. split; reflexivity. Qed.

(* ================================================================ concurrent appends
   The theorems below are about the small-step machine of Log/ModelConc.v: ConcurrentLogBuilder
   over the *interface* of sync42's WorkCoalescingQueue (a leader atomically takes a non-empty
   prefix of the linked inputs, works on it outside the queue lock, hands every taken caller the
   output).  They are PARTIAL with respect to the property text: that sync42's wait list
   implements these atomic steps for every interleaving of real threads is not proved here (it is
   C18's subject); the check ties the machine to the code by multi-threaded runs (file
   decomposition, per-thread order) and by the strace ordering of write / fdatasync / return. *)

(* Whatever the schedule: a call that returned Ok had its batch written by a work whose last byte
   is at or before the durable mark, i.e. an fdatasync that covers it completed before the return. *)
Theorem C12_conc_ack_after_covering_sync_partial : forall bits crc rollover,
  HEADER_MAX_SIZE < 2 ^ bits ->
  forall s id, reachable bits crc rollover s -> In (id, true) (c_done s) ->
  exists ww, In ww (c_log s) /\ In id (map fst (ww_taken ww)) /\ ww_res ww = WOk /\
             ww_end ww <= c_durable s.
Proof. intros bits crc rollover HB s id R H. exact (conc_acked_durable bits crc rollover HB s id R H). Qed.

(* Whatever the schedule: the file is the sequential log (C12_roundtrip applies) of the merged
   batches in the order of the works, reading it returns exactly the merged batches whose append
   succeeded; every linked request is taken at most once, in link order, whole. *)
Theorem C12_conc_each_batch_once_whole_partial : forall bits crc rollover,
  HEADER_MAX_SIZE < 2 ^ bits ->
  forall s, reachable bits crc rollover s ->
  read_log bits crc (w_file (c_w s)) =
    (concat (ok_batches (log_res (c_log s)) (log_ess (c_log s))), REnd) /\
  NoDup (map fst (all_reqs s)) /\
  (exists rest, all_reqs s = concat (map ww_taken (c_log s)) ++ rest) /\
  concat (log_ess (c_log s)) = req_entries (concat (map ww_taken (c_log s))).
Proof.
  intros bits crc rollover HB s R. split; [exact (conc_read bits crc rollover HB s R)|].
  exact (conc_once_in_order bits crc rollover HB s R).
Qed.

(* Whatever the schedule and wherever the file is cut at or after the durable mark: a batch whose
   append returned Ok is read back, whole, inside its merged batch. *)
Theorem C12_conc_acked_survives_cut_partial : forall bits crc rollover,
  HEADER_MAX_SIZE < 2 ^ bits ->
  forall s id, reachable bits crc rollover s -> In (id, true) (c_done s) ->
  forall n, c_durable s <= len (firstn n (w_file (c_w s))) ->
  exists ww es j r,
    In ww (c_log s) /\ In (id, es) (ww_taken ww) /\ ww_res ww = WOk /\
    read_log bits crc (firstn n (w_file (c_w s))) =
      (concat (firstn j (ok_batches (log_res (c_log s)) (log_ess (c_log s)))), r) /\
    (r = REnd \/ exists e, r = RErr e) /\
    In (req_entries (ww_taken ww)) (firstn j (ok_batches (log_res (c_log s)) (log_ess (c_log s)))).
Proof. intros bits crc rollover HB s id R H n Hn. exact (conc_acked_survives bits crc rollover HB s id R H n Hn). Qed.

(* ---- the hypotheses are satisfiable by a non-trivial object: 32-byte blocks, three batches, the
   second one split across the first boundary, the third padded to the next; read back whole and
   cut in the middle of the split *)
Definition ex_crc (l : list N) : N := fold_left (fun a b => a * 31 + b + 7) l 5.
Definition ex_batches : list (list entry) :=
  [[{| e_key := [1; 2]; e_ts := 300; e_val := Some [9; 9; 9] |}];
   [{| e_key := [3]; e_ts := 1; e_val := None |}; {| e_key := [4; 5; 6; 7]; e_ts := 2; e_val := Some [8] |}];
   [{| e_key := []; e_ts := 0; e_val := None |}]].

Example C12_example_wf : Forall (Forall wf_entry) ex_batches.
Proof. repeat constructor; cbn; try discriminate. Qed.

Example C12_example_roundtrip :
  let '(rs, file) := write_log 5 ex_crc DEFAULT_ROLLOVER (map ebytes ex_batches) in
  rs = [(WOk, 26); (WOk, 85); (WOk, 114)] /\ len file = 114 /\
  read_log 5 ex_crc file = (concat ex_batches, REnd) /\
  read_log 5 ex_crc (firstn 30 file) = (concat (firstn 1 ex_batches), REnd) /\
  read_log 5 ex_crc (firstn 50 file) = (concat (firstn 1 ex_batches), RErr ESystem) /\
  read_log 5 ex_crc (firstn 60 file) = (concat (firstn 1 ex_batches), RErr ENoSecondHeader) /\
  read_log 5 ex_crc (firstn 70 file) = (concat (firstn 1 ex_batches), RErr ESystem) /\
  read_log 5 ex_crc (firstn 85 file) = (concat (firstn 2 ex_batches), REnd).
Proof. vm_compute. repeat split. Qed.

(* a schedule exists in which two calls are merged into one frame, synced once and both return Ok *)
Example C12_example_conc :
  exists s, reachable 6 ex_crc DEFAULT_ROLLOVER s /\
            In (0%nat, true) (c_done s) /\ In (1%nat, true) (c_done s) /\
            length (c_log s) = 1%nat /\ c_durable s = 50 /\ c_synced s = 40.
Proof.
  pose (b0 := [{| e_key := [1; 2]; e_ts := 300; e_val := Some [9; 9; 9] |}]).
  pose (b1 := [{| e_key := [3]; e_ts := 1; e_val := None |}; {| e_key := [4; 5; 6; 7]; e_ts := 2; e_val := Some [8] |}]).
  assert (W0 : Forall entry_ok b0) by (repeat constructor; cbn; discriminate).
  assert (W1 : Forall entry_ok b1) by (repeat constructor; cbn; discriminate).
  pose proof (R0 6 ex_crc DEFAULT_ROLLOVER) as H0.
  eassert (H1 : reachable 6 ex_crc DEFAULT_ROLLOVER _).
  { eapply RS; [exact H0|]. apply (Submit 6 ex_crc DEFAULT_ROLLOVER c0 0%nat b0); [intros []|discriminate|exact W0]. }
  vm_compute in H1.
  eassert (H2 : reachable 6 ex_crc DEFAULT_ROLLOVER _).
  { eapply RS; [exact H1|]. eapply (Submit 6 ex_crc DEFAULT_ROLLOVER _ 1%nat b1); [cbn; intros [E|[]]; discriminate|discriminate|exact W1]. }
  vm_compute in H2.
  eassert (H3 : reachable 6 ex_crc DEFAULT_ROLLOVER _).
  { eapply RS; [exact H2|]. eapply (LeadW 6 ex_crc DEFAULT_ROLLOVER _ (0%nat, b0) [(1%nat, b1)] []); reflexivity. }
  vm_compute in H3.
  eassert (H4 : reachable 6 ex_crc DEFAULT_ROLLOVER _).
  { eapply RS; [exact H3|]. eapply WorkW; [reflexivity|]. vm_compute. reflexivity. }
  vm_compute in H4.
  eassert (H5 : reachable 6 ex_crc DEFAULT_ROLLOVER _).
  { eapply RS; [exact H4|]. eapply (EnqF 6 ex_crc DEFAULT_ROLLOVER _ [] 0%nat 40 [(1%nat, 40)]). vm_compute. reflexivity. }
  vm_compute in H5.
  eassert (H6 : reachable 6 ex_crc DEFAULT_ROLLOVER _).
  { eapply RS; [exact H5|]. eapply (EnqF 6 ex_crc DEFAULT_ROLLOVER _ [] 1%nat 40 []). vm_compute. reflexivity. }
  vm_compute in H6.
  eassert (H7 : reachable 6 ex_crc DEFAULT_ROLLOVER _).
  { eapply RS; [exact H6|]. eapply (LeadF 6 ex_crc DEFAULT_ROLLOVER _ (0%nat, 40) [(1%nat, 40)] [] 40); vm_compute; reflexivity. }
  vm_compute in H7.
  eassert (H8 : reachable 6 ex_crc DEFAULT_ROLLOVER _).
  { eapply RS; [exact H7|]. eapply WorkFSync; [reflexivity|vm_compute; reflexivity]. }
  vm_compute in H8.
  eexists. split; [exact H8|]. vm_compute. repeat split; auto.
Qed.
